---------------------------- MODULE TLSHandshake ----------------------------
(* Property layer (A layer) of the TLS handshake checks of zcrypto (/repo/tls):

     C24  negotiation function  Negotiate(cc, sc, down)  and the judge  Judge24
     C27  authentication scenarios: AuthDemand / Judge27
     C28  log projection rules: Judge28 (field-by-field equalities, allowed algorithm names)
     C31  ticket layer: Seal / Decision / Judge31
     C32  adversary outcome rule: Judge32

   Constants only - no variables - so that the state machine (TLSHandshakeMC), the generators
   (TLSHandshakeGen) and the observation validator (Trace_TLSHandshake) can all EXTEND it and
   share one definition of what the properties allow.

   Vocabulary shared with the Go harness (harness/lib/tlsh):
     versions 10..13 = TLS 1.0 .. 1.3;  suites and curves by IANA number;
     client configuration  cc = [min, max, suites, alpn, curves, tickets, force]
     server configuration  sc = [min, max, suites, prefer, alpn, curves, tickets, key, auth]
     (suites = <<>> means Config.CipherSuites = nil, i.e. the defaults; same for curves). *)
EXTENDS Integers, Sequences, FiniteSets, TLC, TLSFacts
\* TLSFacts gives HasAESHW (tls.hasAESGCMHardwareSupport on the machine running the check),
\* DefaultLegacy (defaultCipherSuites() of the tree under test) and Default13
\* (defaultCipherSuitesTLS13()); the runner regenerates it for every run.

Versions == {10, 11, 12, 13}
T13Suites == {4865, 4866, 4867}

Rng(s) == {s[i] : i \in 1..Len(s)}
MaxOf(S) == CHOOSE v \in S : \A w \in S : w <= v
MinOf(S) == CHOOSE v \in S : \A w \in S : v <= w
Filter(s, P(_)) == SelectSeq(s, P)

-----------------------------------------------------------------------------
(* Suite table: the implemented, non-DSS suites of /repo/tls/cipher_suites.go
   (cipherSuiteByID = first entry of implementedCipherSuites).
     kx   key exchange / authentication class
     gcm  member of aesgcmCiphers        cha  member of nonAESGCMAEADCiphers
     t12  TLS 1.2 only (suiteTLS12)      tbl  listed in the table makeClientHello filters by,
                                              i.e. offered by a client without ForceSuites   *)
SuiteRec(id, kx, gcm, cha, t12, tbl) == [id |-> id, kx |-> kx, gcm |-> gcm, cha |-> cha, t12 |-> t12, tbl |-> tbl]

SuiteTable == {
  SuiteRec(52392, "ECDHE_RSA",   FALSE, TRUE,  TRUE,  TRUE),   \* 0xcca8 ECDHE_RSA_CHACHA20_POLY1305
  SuiteRec(52393, "ECDHE_ECDSA", FALSE, TRUE,  TRUE,  TRUE),   \* 0xcca9
  SuiteRec(49199, "ECDHE_RSA",   TRUE,  FALSE, TRUE,  TRUE),   \* 0xc02f ECDHE_RSA_AES_128_GCM_SHA256
  SuiteRec(49195, "ECDHE_ECDSA", TRUE,  FALSE, TRUE,  TRUE),   \* 0xc02b
  SuiteRec(49200, "ECDHE_RSA",   TRUE,  FALSE, TRUE,  TRUE),   \* 0xc030 ..AES_256_GCM_SHA384
  SuiteRec(49196, "ECDHE_ECDSA", TRUE,  FALSE, TRUE,  TRUE),   \* 0xc02c
  SuiteRec(49191, "ECDHE_RSA",   FALSE, FALSE, TRUE,  TRUE),   \* 0xc027 ..AES_128_CBC_SHA256
  SuiteRec(49171, "ECDHE_RSA",   FALSE, FALSE, FALSE, TRUE),   \* 0xc013 ..AES_128_CBC_SHA
  SuiteRec(49187, "ECDHE_ECDSA", FALSE, FALSE, TRUE,  TRUE),   \* 0xc023
  SuiteRec(49161, "ECDHE_ECDSA", FALSE, FALSE, FALSE, TRUE),   \* 0xc009
  SuiteRec(49172, "ECDHE_RSA",   FALSE, FALSE, FALSE, TRUE),   \* 0xc014
  SuiteRec(49162, "ECDHE_ECDSA", FALSE, FALSE, FALSE, TRUE),   \* 0xc00a
  SuiteRec(156,   "RSA",         FALSE, FALSE, TRUE,  TRUE),   \* 0x009c RSA_AES_128_GCM_SHA256
  SuiteRec(157,   "RSA",         FALSE, FALSE, TRUE,  TRUE),   \* 0x009d
  SuiteRec(60,    "RSA",         FALSE, FALSE, TRUE,  TRUE),   \* 0x003c RSA_AES_128_CBC_SHA256
  SuiteRec(47,    "RSA",         FALSE, FALSE, FALSE, TRUE),   \* 0x002f
  SuiteRec(53,    "RSA",         FALSE, FALSE, FALSE, TRUE),   \* 0x0035
  SuiteRec(49170, "ECDHE_RSA",   FALSE, FALSE, FALSE, TRUE),   \* 0xc012 ECDHE_RSA_3DES
  SuiteRec(10,    "RSA",         FALSE, FALSE, FALSE, TRUE),   \* 0x000a RSA_3DES
  SuiteRec(5,     "RSA",         FALSE, FALSE, FALSE, TRUE),   \* 0x0005 RSA_RC4_128_SHA
  SuiteRec(49169, "ECDHE_RSA",   FALSE, FALSE, FALSE, TRUE),   \* 0xc011 ECDHE_RSA_RC4
  SuiteRec(49159, "ECDHE_ECDSA", FALSE, FALSE, FALSE, TRUE),   \* 0xc007 ECDHE_ECDSA_RC4
  SuiteRec(52394, "DHE_RSA",     FALSE, FALSE, TRUE,  FALSE),  \* 0xccaa DHE_RSA_CHACHA20 (not in nonAESGCMAEADCiphers)
  SuiteRec(158,   "DHE_RSA",     FALSE, FALSE, TRUE,  FALSE),  \* 0x009e DHE_RSA_AES_128_GCM
  SuiteRec(159,   "DHE_RSA",     FALSE, FALSE, TRUE,  FALSE),  \* 0x009f
  SuiteRec(103,   "DHE_RSA",     FALSE, FALSE, TRUE,  FALSE),  \* 0x0067 DHE_RSA_AES_128_CBC_SHA256
  SuiteRec(107,   "DHE_RSA",     FALSE, FALSE, TRUE,  FALSE),  \* 0x006b
  SuiteRec(51,    "DHE_RSA",     FALSE, FALSE, FALSE, FALSE),  \* 0x0033 DHE_RSA_AES_128_CBC_SHA
  SuiteRec(57,    "DHE_RSA",     FALSE, FALSE, FALSE, FALSE),  \* 0x0039
  SuiteRec(61,    "RSA",         FALSE, FALSE, TRUE,  FALSE),  \* 0x003d RSA_AES_256_CBC_SHA256
  SuiteRec(22,    "DHE_RSA",     FALSE, FALSE, FALSE, FALSE),  \* 0x0016 DHE_RSA_3DES
  SuiteRec(4865,  "T13",         TRUE,  FALSE, FALSE, FALSE),  \* 0x1301 TLS_AES_128_GCM_SHA256
  SuiteRec(4866,  "T13",         TRUE,  FALSE, FALSE, FALSE),  \* 0x1302 TLS_AES_256_GCM_SHA384
  SuiteRec(4867,  "T13",         FALSE, TRUE,  FALSE, FALSE) } \* 0x1303 TLS_CHACHA20_POLY1305_SHA256

SuiteIds == {s.id : s \in SuiteTable}
TblF == [id \in SuiteIds |-> CHOOSE s \in SuiteTable : s.id = id]
Tbl(id) == TblF[id]
Known(id) == id \in SuiteIds
LegacyIds == {s.id : s \in {x \in SuiteTable : x.kx # "T13"}}
Hash384(id) == id \in {49200, 49196, 157, 159, 4866}

-----------------------------------------------------------------------------
(* deprioritizeAES of /repo/tls/common.go: sort.SliceStable with
   less(i, j) = nonAESGCMAEAD(i) /\ aesgcm(j); for lists of at most 20 elements SliceStable is
   one insertion sort, which is what is written here (the generators keep lists that short).  *)
Less(a, b) == Known(a) /\ Known(b) /\ Tbl(a).cha /\ Tbl(b).gcm
SwapAt(s, j) == [s EXCEPT ![j] = s[j - 1], ![j - 1] = s[j]]
RECURSIVE SinkLeft(_, _)
SinkLeft(s, j) == IF j > 1 /\ Less(s[j], s[j - 1]) THEN SinkLeft(SwapAt(s, j), j - 1) ELSE s
RECURSIVE InsSort(_, _)
InsSort(s, i) == IF i > Len(s) THEN s ELSE InsSort(SinkLeft(s, i), i + 1)
Deprio(s) == InsSort(s, 2)

-----------------------------------------------------------------------------
(* What each side offers / enables. *)

\* Config.cipherSuites()
CfgLegacy(c) == IF c.suites = <<>> THEN DefaultLegacy ELSE c.suites
\* Config.cipherSuitesTLS13(): "For TLS 1.3, any TLS 1.3 suite IDs present in the list are used;
\* if none are present (or the list is nil), a default list of secure suites is used."
Cfg13(c) == LET l == Filter(c.suites, LAMBDA x : x \in T13Suites)
            IN IF l = <<>> THEN Default13 ELSE l

\* cipher_suites of the ClientHello (makeClientHello)
ClientOffer(cc) ==
  IF cc.force THEN CfgLegacy(cc)
  ELSE Filter(CfgLegacy(cc), LAMBDA x : Known(x) /\ Tbl(x).tbl /\ (cc.max < 12 => ~Tbl(x).t12))
       \o (IF cc.max = 13 THEN Cfg13(cc) ELSE <<>>)

DefaultCurves == <<29, 23, 24, 25>>
CurvesOf(c) == IF c.curves = <<>> THEN DefaultCurves ELSE c.curves
CommonCurves(cc, sc) == Rng(CurvesOf(cc)) \cap Rng(CurvesOf(sc))

ClientVersions(cc) == {v \in Versions : cc.min <= v /\ v <= cc.max}
ServerVersions(sc) == {v \in Versions : sc.min <= v /\ v <= sc.max}
\* versions the server believes the client supports: the real ones, or - after the downgrade
\* adversary removed supported_versions and lowered legacy_version - everything up to `down`
SeenClientVersions(cc, down) == IF down = 0 THEN ClientVersions(cc) ELSE {v \in Versions : v <= down}

\* "an implemented cipher suite usable with the server's key": key exchange class against the
\* key type (R = RSA, P/Q = ECDSA P-256/P-384, E = Ed25519), ECDHE needs a common curve,
\* TLS-1.2-only suites need TLS 1.2, Ed25519 signatures do not exist before TLS 1.2.
SuiteOK(id, vers, key, ecdhe) ==
  /\ id \in LegacyIds
  /\ LET s == Tbl(id) IN
     /\ CASE s.kx = "ECDHE_ECDSA" -> ecdhe /\ key \in {"P", "Q", "E"}
          [] s.kx = "ECDHE_RSA"   -> ecdhe /\ key = "R"
          [] OTHER                -> key = "R"
     /\ (vers < 12 => ~s.t12)
     /\ (key = "E" => vers >= 12)

First(pref, Good(_)) ==
  LET I == {i \in 1..Len(pref) : Good(pref[i])} IN IF I = {} THEN 0 ELSE pref[MinOf(I)]

(* "a suite both enabled (chosen by the documented preference rule)": the first entry of the
   preferring side's list - the server's if PreferServerCipherSuites, else the client's - that the
   other side lists and that is usable.  The code additionally moves ChaCha20 suites in front of
   adjacent AES-GCM suites in some situations (no AES hardware); that reordering is not part of
   the documented rule, so both the plain and the reordered list are allowed wherever the code
   may reorder (left open, rule 1 of the builders' guide).
   offer = cipher_suites of the ClientHello, ccurves = its supported groups. *)
AllowedLegacy(offer, ccurves, sc, vers) ==
  LET srv == CfgLegacy(sc)
      e == (Rng(ccurves) \cap Rng(CurvesOf(sc))) # {}
      Good(x) == x \in Rng(offer) /\ x \in Rng(srv) /\ SuiteOK(x, vers, sc.key, e)
      prefs == IF sc.prefer
               THEN {srv} \cup (IF sc.suites = <<>> THEN {Deprio(srv)} ELSE {})
               ELSE {offer} \cup (IF ~HasAESHW THEN {Deprio(offer)} ELSE {})
  IN {First(p, Good) : p \in prefs} \ {0}

(* TLS 1.3: the suites a side enabled are Cfg13 (documentation of Config.CipherSuites quoted
   above, for both roles).  Preference: the client's order, or - PreferServerCipherSuites - the
   server's; the server's own order may be the configured or the built-in one ("TLS 1.3 own
   preference"), each plain or AES-deprioritised. *)
Allowed13(offer, sc) ==
  LET en == Cfg13(sc)
      Good(x) == x \in T13Suites /\ x \in Rng(offer) /\ x \in Rng(en)
      builtin == Filter(Default13, LAMBDA x : x \in Rng(en))
      prefs == IF sc.prefer THEN {en, Deprio(en), builtin, Deprio(builtin)}
               ELSE {offer} \cup (IF ~HasAESHW THEN {Deprio(offer)} ELSE {})
  IN {First(p, Good) : p \in prefs} \ {0}

\* the server lists TLS 1.3 ids in Config.CipherSuites: used only to *classify* a rejected
\* observation for the known-findings matcher
Server13Restricted(sc) == Filter(sc.suites, LAMBDA x : x \in T13Suites) # <<>>

(* ALPN: "agree on the ALPN protocol".  mutualProtocol picks the first entry of the server's
   NextProtos the client also lists; the statement does not say whose order wins, so the first
   common entry in either order is allowed; no common entry (or no client list) = none. *)
AllowedAlpn(calpn, salpn) ==
  LET common == Rng(calpn) \cap Rng(salpn)
      G(x) == x \in common
  IN IF common = {} THEN {""} ELSE {First(salpn, G), First(calpn, G)}

(* Downgrade sentinel (RFC 8446 4.1.3): a server whose maximum is 1.3 or 1.2 and that negotiates
   less writes DOWNGRD 01 (negotiated 1.2) or DOWNGRD 00 (1.1 and below) into the last 8 bytes of
   its random.  "none" = no demand (the RFC defines no sentinel for a TLS 1.1 server). *)
Canary(sc, vers) ==
  IF vers = 0 \/ vers >= sc.max \/ sc.max < 12 THEN "none"
  ELSE IF vers = 12 THEN "12" ELSE "11"

\* "a client supporting the higher version aborts": TLS 1.3 clients check both sentinels, TLS 1.2
\* clients the 1.1 one (same section of the RFC).
ClientAborts(cc, vers, canary) ==
  \/ cc.max = 13 /\ vers <= 12 /\ canary \in {"12", "11"}
  \/ cc.max = 12 /\ vers <= 11 /\ canary = "11"

(* What a server with configuration sc has to select for a ClientHello offering the version set
   cvs, the suite list offer, the ALPN list calpn and the groups ccurves. *)
ServerSelect(cvs, offer, calpn, ccurves, sc) ==
  LET common == cvs \cap ServerVersions(sc)
      v == IF common = {} THEN 0 ELSE MaxOf(common)      \* "the highest shared version"
      suites == IF v = 0 THEN {} ELSE IF v = 13 THEN Allowed13(offer, sc) ELSE AllowedLegacy(offer, ccurves, sc, v)
  IN [vers   |-> v,
      suites |-> suites,
      alpn   |-> AllowedAlpn(calpn, sc.alpn),
      canary |-> Canary(sc, v),
      \* "must": the pair shares a version and a usable suite, so the handshake has to complete;
      \* "no": it cannot complete with parameters both sides enabled;
      \* "open": TLS 1.3 without a common key-exchange group (the statement is silent on groups)
      mode   |-> IF v = 0 \/ suites = {} THEN "no"
                 ELSE IF v = 13 /\ (Rng(ccurves) \cap Rng(CurvesOf(sc))) = {} THEN "open"
                 ELSE "must"]

NegVersion(cc, sc, down) ==
  LET common == SeenClientVersions(cc, down) \cap ServerVersions(sc)
  IN IF common = {} THEN 0 ELSE MaxOf(common)

Negotiate(cc, sc, down) ==
  LET p == ServerSelect(SeenClientVersions(cc, down), ClientOffer(cc), cc.alpn, CurvesOf(cc), sc)
  IN [vers |-> p.vers, suites |-> p.suites, alpn |-> p.alpn, canary |-> p.canary, mode |-> p.mode,
      abort |-> down # 0 /\ ClientAborts(cc, p.vers, p.canary)]

-----------------------------------------------------------------------------
(* C31 - ticket layer.  A ticket is Seal(key, state); the server holds a sequence of ticket keys,
   the head being the current one.  What the server has to do with a presented ticket:
     authentic     the bytes are exactly a ticket this server issued (not altered, truncated,
                   or sealed under a foreign key)
     keyIdx        position of the sealing key in the server's key list NOW (0 = rotated out)
     sameVersion   the connection negotiates the version the session had
     suiteOffered  the client still offers the session's suite
   "resumes only when the ticket was issued under one of its current keys and has not been
   altered"; "tickets issued under the current key always resume"; an older, still configured
   key may resume (both allowed). *)
TicketDemand(authentic, keyIdx, sameVersion, suiteOffered) ==
  IF ~authentic \/ keyIdx = 0 \/ ~sameVersion \/ ~suiteOffered THEN {"full"}
  ELSE IF keyIdx = 1 THEN {"resume"} ELSE {"resume", "full"}

(* Automatic rotation (no SetSessionTicketKeys / SessionTicketKey), the documented policy of
   Config.SessionTicketKey: "session ticket keys will be automatically rotated every day and
   dropped after seven days"; tickets are issued under the newest key.  Keys are identified by
   their creation time (hours).  Config.ticketKeys runs at the start of every connection:
   a new key when there is none or the newest is a day old, and at that moment keys of seven days
   and more are dropped.  (A key older than seven days may linger until the next rotation - such a
   key is not the newest, so TicketDemand leaves its acceptance open.)  The acceptable keys at a
   connection are therefore a function of the history of connection times. *)
AutoStep(keys, t) ==
  IF keys = <<>> \/ t - keys[1].c >= 24
  THEN <<[id |-> "auto", c |-> t]>> \o SelectSeq(keys, LAMBDA k : t - k.c < 168)
  ELSE keys
RECURSIVE AutoKeysAfter(_, _)
AutoKeysAfter(keys, times) == IF times = <<>> THEN keys ELSE AutoKeysAfter(AutoStep(keys, Head(times)), Tail(times))

ApplyOp(keys, h) ==
  CASE h.op = "rot"      -> <<h.k>> \o keys                 \* SetSessionTicketKeys(new, old...)
    [] h.op = "drop"     -> <<Head(keys)>>                  \* SetSessionTicketKeys(current)
    [] h.op = "droplast" -> IF Len(keys) > 1 THEN SubSeq(keys, 1, Len(keys) - 1) ELSE keys
    [] h.op = "set"      -> <<h.k>>
RECURSIVE ApplyHist(_, _)
ApplyHist(keys, hist) == IF hist = <<>> THEN keys ELSE ApplyHist(ApplyOp(keys, Head(hist)), Tail(hist))
IndexOf(seq, x) == IF x \in Rng(seq) THEN MinOf({i \in 1..Len(seq) : seq[i] = x}) ELSE 0

(* A ticket history as run by harness/cmd/c31: a full handshake issues a ticket under Head(keys0);
   the key list is administered by `hist`; the adversary rewrites the ticket bytes (`changed` =
   the presented bytes differ from the issued ones); the server's configuration may change
   (`change`); a second connection presents the result. *)
Demand31(o) ==
  TicketDemand(~o.changed, IndexOf(ApplyHist(o.keys0, o.hist), Head(o.keys0)),
               o.change # "server_max_lower", o.change \notin {"server_drops_suite", "client_drops_suite"})

Judge31(o) ==
  LET i == o.issue  p == o.present  d == Demand31(o) IN
  IF i.cpanic \/ i.spanic \/ i.chang \/ i.shang \/ p.cpanic \/ p.spanic \/ p.chang \/ p.shang THEN "panic-or-hang"
  ELSE IF ~(i.cdone /\ i.sdone) \/ o.ticket_len = 0 THEN "issue-failed"
  ELSE IF i.cres \/ i.sres THEN "resumed-without-session"
  ELSE IF o.mut.kind = "none" /\ o.changed THEN "harness-changed-ticket"
  \* "resumes only when the ticket was issued under a current key and has not been altered"
  ELSE IF (p.sres \/ p.cres) /\ "resume" \notin d THEN "resumed-unauthentic-ticket"
  \* "leads to a full handshake / non-PSK handshake, never to an error": either way the second
  \* connection works, both ends agree on what happened and on the secrets
  \* (left open: an empty TLS 1.3 PSK identity is a malformed ClientHello by RFC 8446 4.2.11 -
  \*  opaque identity<1..2^16-1> - and may be rejected)
  ELSE IF ~(p.cdone /\ p.sdone /\ p.dataok /\ p.ekmeq) THEN
       (IF o.vers = 13 /\ o.plen = 0 /\ ~p.cdone /\ ~p.sdone THEN "ok" ELSE "ticket-caused-failure")
  ELSE IF p.cres # p.sres THEN "disagreement"
  \* "always resume with the original session's version and cipher suite"
  ELSE IF p.sres /\ (p.svers # i.svers \/ p.ssuite # i.ssuite \/ p.cvers # i.cvers \/ p.csuite # i.csuite)
       THEN "resumed-with-other-parameters"
  ELSE IF ~p.sres /\ d = {"resume"} THEN (IF o.presented THEN "no-resume-under-current-key" ELSE "ticket-not-presented")
  ELSE "ok"

(* Automatic-rotation histories (harness/cmd/c31 runa): connection times `times` (hours) on one
   server Config; the ticket issued at connection `issue` is presented at the last connection, as
   issued or replaced by a ticket sealed under key material of the adversary's choosing (`forge`).
   The acceptable keys are AutoKeysAfter(<<>>, times); the ticket's key is the newest key at the
   issuing connection.  TicketDemand as everywhere: a forgery is never authentic. *)
Demand31A(o) ==
  LET n == Len(o.times)
      all == AutoKeysAfter(<<>>, o.times)
      ikey == Head(AutoKeysAfter(<<>>, SubSeq(o.times, 1, o.issue)))
      idx == IndexOf(all, ikey)
      age == o.times[n] - o.times[o.issue]
  IN IF o.forge # "none" THEN {"full"}
     \* a ticket older than the seven-day ticket lifetime may be refused whatever its key
     ELSE IF age > 168 THEN (IF idx = 0 THEN {"full"} ELSE {"full", "resume"})
     ELSE TicketDemand(TRUE, idx, TRUE, TRUE)

Judge31A(o) ==
  LET i == o.issued  p == o.present  d == Demand31A(o) IN
  IF i.cpanic \/ i.spanic \/ i.chang \/ i.shang \/ p.cpanic \/ p.spanic \/ p.chang \/ p.shang THEN "panic-or-hang"
  ELSE IF ~o.all_full \/ ~(i.cdone /\ i.sdone) \/ o.ticket_len = 0 THEN "issue-failed"
  ELSE IF (p.sres \/ p.cres) /\ "resume" \notin d THEN
       (IF o.forge # "none" THEN "resumed-forged-ticket" ELSE "resumed-unauthentic-ticket")
  ELSE IF ~(p.cdone /\ p.sdone /\ p.dataok /\ p.ekmeq) THEN "ticket-caused-failure"
  ELSE IF p.cres # p.sres THEN "disagreement"
  ELSE IF p.sres /\ (p.svers # i.svers \/ p.ssuite # i.ssuite) THEN "resumed-with-other-parameters"
  ELSE IF ~p.sres /\ d = {"resume"} THEN (IF o.presented THEN "no-resume-under-current-key" ELSE "ticket-not-presented")
  ELSE "ok"

Facts31A(o) ==
  [kind |-> Judge31A(o), vers |-> o.vers, forge |-> o.forge, demand |-> Demand31A(o), auto |-> TRUE,
   keys_at_present |-> Len(AutoKeysAfter(<<>>, o.times)),
   keyidx |-> IndexOf(AutoKeysAfter(<<>>, o.times), Head(AutoKeysAfter(<<>>, SubSeq(o.times, 1, o.issue))))]

Facts31(o) ==
  [kind |-> Judge31(o), vers |-> o.vers, mut |-> o.mut.kind, part |-> o.mut.part, change |-> o.change,
   keyidx |-> IndexOf(ApplyHist(o.keys0, o.hist), Head(o.keys0)), changed |-> o.changed,
   demand |-> Demand31(o)]

-----------------------------------------------------------------------------
(* C27 - authentication.  An observation of harness/cmd/c27 carries the scenario names, the
   standard library's verdict on the concrete PKI (std: does the server chain verify to the
   client's roots for the client's name at the configured time, does the server hold the leaf
   key; same for the client chain), the wire corruption that fired, and the outcome.

     "a client completes only if the server's chain verifies ... and the server proves possession"
     "a server requiring client certificates completes only with a client that proves possession
      (and, when verification is requested, whose chain verifies)"                              *)
ServerWire == {"CorruptSKXSig", "CorruptSKXParams", "CorruptServerFinished"}
ExpectedStd(scen) ==
  \* server-name classes: the x509 hostname rule - DNS names against DNS SANs, IP literals (plain or
  \* bracketed) against IP SANs only, a literal with a zone matches nothing, a trailing dot is ignored
  [chain |-> scen \notin {"UntrustedRoot", "Expired", "NotYetValid", "WrongName", "BadLeafSig",
                         "NameIP4Unlisted", "NameIP6BracketUnlisted", "NameIP6ZoneListed"},
   key   |-> scen # "WrongKey"]
\* structurally wrong proof-of-possession signatures: the peer holds the certificate's key object but
\* hands out an empty signature, the genuine one truncated by one byte, or extended by one byte
\* ("only the genuine signature proves possession")
ServerSigBad == {"SigEmpty", "SigShort", "SigLong"}
ClientSigBad == {"ClientSigEmpty", "ClientSigShort", "ClientSigLong"}
\* `cas` is the class of the server's Config.ClientCAs: "with" (or "") a pool holding the root of the
\* client's chain, "without" a pool holding only the other root, "empty" an empty pool, "nil" nothing
\* configured.  The client's chain verifies "to the configured roots" only if they contain its root.
ExpectedCStd(cscen, cas) ==
  [sent  |-> cscen \notin {"", "NoClientCert"},
   chain |-> \/ cscen \in {"ClientTrusted", "ClientWrongKey", "CorruptClientCV"} \cup ClientSigBad /\ cas \in {"", "with"}
             \/ cscen = "ClientUntrusted" /\ cas = "without",
   key   |-> cscen # "ClientWrongKey"]

AuthDemand(o) ==
  LET std == o.std
      serverBad == ~std.server_chain_ok \/ ~std.server_key_ok \/ o.fired \in ServerWire \/ o.sigfired # ""
      sent == std.client_sent /\ o.auth >= 1           \* a certificate is only sent when requested
      popBad == sent /\ (~std.client_key_ok \/ o.fired = "CorruptClientCV" \/ o.csigfired # "")
      chainBad == sent /\ ~std.client_chain_ok
      serverMustFail == \/ o.auth \in {2, 4} /\ (~sent \/ popBad)          \* RequireAny / RequireAndVerify
                        \/ o.auth \in {3, 4} /\ chainBad                    \* verification requested
                        \/ o.fired = "CorruptClientFinished"
  IN [clientMustFail |-> serverBad,
      serverMustFail |-> serverMustFail,
      \* nothing is wrong (for the configured mode): the handshake has to complete (C24's clause,
      \* kept here so that "only if" cannot hold vacuously).  A wrong client key under
      \* RequestClientCert / VerifyClientCertIfGiven is left open.
      mustComplete   |-> ~serverBad /\ ~serverMustFail /\ ~popBad]

Judge27(o) ==
  LET b == o.obs  d == AuthDemand(o)  es == ExpectedStd(o.scen)  ec == ExpectedCStd(o.cscen, o.cas) IN
  IF b.cpanic \/ b.spanic \/ b.chang \/ b.shang THEN "panic-or-hang"
  ELSE IF o.std.server_chain_ok # es.chain \/ o.std.server_key_ok # es.key \/ o.std.client_sent # ec.sent
          \/ (ec.sent /\ (o.std.client_chain_ok # ec.chain \/ o.std.client_key_ok # ec.key))
       THEN "harness-pki-mismatch"
  ELSE IF d.clientMustFail /\ b.cdone THEN "client-completed-with-unauthenticated-server"
  ELSE IF d.serverMustFail /\ b.sdone THEN "server-completed-with-unauthenticated-client"
  ELSE IF d.mustComplete /\ ~(b.cdone /\ b.sdone /\ b.dataok /\ b.ekmeq) THEN "good-scenario-failed"
  ELSE "ok"

Facts27(o) ==
  [kind |-> Judge27(o), vers |-> o.vers, scen |-> o.scen, cscen |-> o.cscen, auth |-> o.auth,
   key |-> o.key, kx |-> IF o.suite = 0 THEN "T13" ELSE Tbl(o.suite).kx, fired |-> o.fired,
   cas |-> o.cas, sigfired |-> o.sigfired, csigfired |-> o.csigfired]

(* Multi-step authentication histories (harness/cmd/c27 runh): 2-3 connections sharing a
   ClientSessionCache and the server's ticket keys while the client's verification settings
   (InsecureSkipVerify, ServerName, Time) or the server's certificate change.  The statement's clause
   "a client completes a handshake only if the server's chain verifies to the configured roots for
   the configured server name at the configured time" applies to EVERY completed connection of a
   verifying client, resumed or not: the chain such a connection relies on - the one presented in it,
   or, for a resumed connection, the one presented when the session was established (step `origin`)
   - must verify (standard library verdict `relied_ok`) under THIS connection's settings.  So a
   session established without verification never lets a verifying client complete.  Positive side
   (vacuity guard): a non-verifying client always completes; a verifying client completes when the
   server's present chain verifies. *)
PresentedExpected(st) == st.scert = "A" /\ st.name = "dns" /\ st.time = "now"
StepProblem(st, b) ==
  IF b.cpanic \/ b.spanic \/ b.chang \/ b.shang THEN "panic-or-hang"
  ELSE IF b.presented_ok # PresentedExpected(st) THEN "harness-pki-mismatch"
  ELSE IF ~st.skip /\ b.cdone /\ ~b.relied_ok THEN
       (IF b.cres THEN "verifying-client-resumed-unverified-session" ELSE "client-completed-with-unauthenticated-server")
  ELSE IF b.cdone /\ b.sdone /\ b.cres # b.sres THEN "disagreement"
  ELSE IF (st.skip \/ b.presented_ok) /\ ~(b.cdone /\ b.sdone /\ b.dataok) THEN "good-step-failed"
  ELSE "ok"
Problems27H(o) ==
  { [kind |-> StepProblem(o.steps[i], o.obs[i]), step |-> i, vers |-> o.vers, skip |-> o.steps[i].skip,
     resumed |-> o.obs[i].cres, origin |-> o.obs[i].origin,
     origin_skip |-> IF o.obs[i].origin = 0 THEN FALSE ELSE o.steps[o.obs[i].origin].skip] :
    i \in {j \in 1..Len(o.steps) : StepProblem(o.steps[j], o.obs[j]) # "ok"} }

-----------------------------------------------------------------------------
(* C28 - the client handshake log.  harness/cmd/c28 projects the captured transcript (raw
   handshake messages, independent parser) to a flat record `wire` and GetHandshakeLog() to a
   flat record `log` with the same keys (only populated parts appear in `log`).

     "every populated part of the handshake log ... equals the corresponding field of the
      messages sent and received on the wire and of the secrets the connection actually used"
   =  every key of `log` is a key of `wire` with the same value (byte strings are compared as
      length + content, so "complete" is part of equality);
     "logged signature and hash algorithms are those named on the wire"
   =  the logged names are among the names of the wire code point (SchemeNames: the TLS 1.2
      SignatureAndHashAlgorithm reading, or for the TLS 1.3 style code points the scheme's own
      signature / hash, or the literal byte names - all allowed).                               *)
LegacyHashName(h) == CASE h = 0 -> "none" [] h = 1 -> "md5" [] h = 2 -> "sha1" [] h = 3 -> "sha224" [] h = 4 -> "sha256"
                       [] h = 5 -> "sha384" [] h = 6 -> "sha512" [] h = 8 -> "intrinsic" [] OTHER -> "unknown." \o ToString(h)
\* a byte may always be named literally: "unknown.<n>" (what the log prints for a value outside its
\* own name table) identifies the wire byte exactly
Literal(n) == "unknown." \o ToString(n)
SchemeNames(s) ==
  LET h == s \div 256  g == s % 256 IN
  IF h = 8 THEN CASE g \in {4, 9}  -> [sig |-> {"rsa", "rsapss", Literal(g)}, hash |-> {"sha256", "intrinsic"}]
                  [] g \in {5, 10} -> [sig |-> {"rsa", "rsapss", Literal(g)}, hash |-> {"sha384", "intrinsic"}]
                  [] g \in {6, 11} -> [sig |-> {"rsa", "rsapss", Literal(g)}, hash |-> {"sha512", "intrinsic"}]
                  [] g = 7        -> [sig |-> {"ed25519", Literal(g)}, hash |-> {"intrinsic", "none"}]
                  [] OTHER        -> [sig |-> {Literal(g)}, hash |-> {"intrinsic"}]
  ELSE [sig  |-> {Literal(g)} \cup (CASE g = 1 -> {"rsa", "pkcs1v15"} [] g = 2 -> {"dsa"} [] g = 3 -> {"ecdsa"} [] OTHER -> {}),
        hash |-> {LegacyHashName(h), Literal(h)}]
\* the name a crypto.Hash value (MD5=2 SHA1=3 SHA224=4 SHA256=5 SHA384=6 SHA512=7) gets when it is
\* mistaken for a TLS HashAlgorithm id - only used to classify a rejection for the known findings
CryptoHashConfusion(s) ==
  LET h == s \div 256  g == s % 256
      real == IF h = 8 THEN (CASE g \in {4, 9} -> 4 [] g \in {5, 10} -> 5 [] g \in {6, 11} -> 6 [] OTHER -> 0) ELSE h
  IN CASE real = 2 -> "sha224" [] real = 4 -> "sha384" [] real = 5 -> "sha512" [] real = 6 -> "unknown.7" [] OTHER -> "?"

SpecialLog28 == {"ch_sigalg_names", "skx_sig_name", "skx_hash_name", "sh_scts"}
\* SCT list of the ServerHello: entries <<raw, parsed>>; every logged Raw equals the wire bytes and
\* every logged Parsed is the independent parse of exactly those bytes - or absent ("")
SctBad(o) == IF "sh_scts" \notin DOMAIN o.log THEN FALSE
             ELSE IF "sh_scts" \notin DOMAIN o.wire THEN TRUE
             ELSE \/ Len(o.log.sh_scts) # Len(o.wire.sh_scts)
                  \/ \E i \in 1..Len(o.log.sh_scts) :
                        \/ o.log.sh_scts[i][1] # o.wire.sh_scts[i][1]
                        \/ o.log.sh_scts[i][2] \notin {"", o.wire.sh_scts[i][2]}
SigalgBad(o) == IF "ch_sigalg_names" \notin DOMAIN o.log \/ "ch_sigalgs" \notin DOMAIN o.wire THEN {}
                ELSE IF Len(o.log.ch_sigalg_names) # Len(o.wire.ch_sigalgs) THEN {0}
                ELSE {i \in 1..Len(o.wire.ch_sigalgs) :
                        LET n == SchemeNames(o.wire.ch_sigalgs[i]) IN
                        o.log.ch_sigalg_names[i][1] \notin n.sig \/ o.log.ch_sigalg_names[i][2] \notin n.hash}
BadFields28(o) ==
  {f \in DOMAIN o.log \ SpecialLog28 : f \notin DOMAIN o.wire \/ o.log[f] # o.wire[f]}
  \cup (IF SigalgBad(o) # {} THEN {"ch_sigalg_names"} ELSE {})
  \cup (IF "skx_sig_name" \in DOMAIN o.log
        THEN (IF "skx_sig_scheme" \notin DOMAIN o.wire THEN {"skx_sig_name"}
              ELSE (IF o.log.skx_sig_name \notin SchemeNames(o.wire.skx_sig_scheme).sig THEN {"skx_sig_name"} ELSE {})
                   \cup (IF o.log.skx_hash_name \notin SchemeNames(o.wire.skx_sig_scheme).hash THEN {"skx_hash_name"} ELSE {}))
        ELSE {})
  \cup (IF SctBad(o) THEN {"sh_scts"} ELSE {})
  \cup (IF ~o.json_ok THEN {"json"} ELSE {})

Cause28(o, f) ==
  CASE f = "skx_hash_name" /\ "skx_sig_scheme" \in DOMAIN o.wire /\ o.log.skx_hash_name = CryptoHashConfusion(o.wire.skx_sig_scheme)
         -> "cryptohash-as-tls-hash-id"
    [] f = "ch_sigalg_names" /\ 0 \notin SigalgBad(o)
         /\ \A i \in SigalgBad(o) : o.wire.ch_sigalgs[i] = 2055 /\ o.log.ch_sigalg_names[i] = <<"ed25519", "sha256">>
         -> "ed25519-logged-with-sha256"
    [] f = "ch_ticket" /\ "ch_ticket" \in DOMAIN o.wire /\ o.log.ch_ticket = "0:" /\ o.log.ch_ticket_len = o.wire.ch_ticket_len
         -> "empty-value-with-length"
    [] OTHER -> "other"

Problems28(o) ==
  { [kind |-> "log-mismatch", field |-> f, cause |-> Cause28(o, f), vers |-> o.vers, resumed |-> o.resumed,
     second |-> o.second, done |-> o.done, rewritten |-> o.rewritten, late |-> o.late] : f \in BadFields28(o) }

-----------------------------------------------------------------------------
(* C32 - arbitrary peer behaviour.  An observation of harness/cmd/c32: a corruption (kind, record
   index, position class) applied by the transport to a live handshake, or a byte stream fed to
   one endpoint; then the transport is closed.  The statement: "never panics and never blocks once
   the transport is closed; each call returns either a result or an error" - i.e. the outcome of
   every endpoint is in {done, failed} (the machine's TypeOK / ClosedLeadsToReturned).
   Two consequences of the machine are judged as well, because the same observations show them:
   a pure TCP re-segmentation is no corruption at all (the handshake still completes), and
   (TamperNeverCompletes) bytes altered inside a protected or transcript-covered record, a
   dropped, duplicated or replaced record never lead to a completed, working connection. *)
BodyFlip(o) == o.kind = "flip" /\ o.pos \in {3, 4, 5}
Tamper32(o) ==
  o.fired /\ o.rtype \in {22, 23}
  /\ (BodyFlip(o) \/ o.kind \in {"drop", "garbage", "shorten", "lengthen", "zeros"} \/ (o.kind = "insert" /\ o.sub = "junk-handshake")
      \* a duplicate is only noticed if the receiver reads on: certain for handshake-typed records
      \/ (o.kind = "dup" /\ o.rtype = 22))

Judge32(o) ==
  LET b == o.obs IN
  IF b.cpanic \/ b.spanic \/ o.calls.panic # "" THEN "panic"
  \* data-phase injection: Read, Write, CloseWrite and Close were issued after a genuine
  \* post-handshake message under the given transport state; once the transport is closed every one
  \* of them has returned
  ELSE IF b.chang \/ b.shang \/ "hang" \in {o.calls.read, o.calls.write, o.calls.closewrite, o.calls.close}
       THEN "blocked-after-close"
  ELSE IF ~o.log_ok THEN "handshake-log-panic"
  ELSE IF o.fired /\ o.kind = "split" /\ ~(b.cdone /\ b.sdone /\ b.dataok) THEN "tcp-segmentation-broke-handshake"
  ELSE IF ~o.fired /\ o.kind # "stream" /\ ~(b.cdone /\ b.sdone /\ b.dataok) THEN "honest-run-failed"
  ELSE IF Tamper32(o) /\ b.cdone /\ b.sdone /\ b.dataok THEN "tamper-undetected"
  ELSE "ok"

Facts32(o) ==
  [kind |-> Judge32(o), fault |-> o.kind, sub |-> o.sub, dir |-> o.dir, idx |-> o.idx, pos |-> o.pos, calls |-> o.calls,
   rtype |-> o.rtype, vers |-> o.vers, suite |-> o.suite, auth |-> o.auth]

\* the TLS <= 1.2 suites both sides enable at version v (no key exchange happens in a resumed
\* connection, so no common curve is asked for)
EnabledLegacy(cc, sc, v) ==
  {x \in Rng(ClientOffer(cc)) \cap Rng(CfgLegacy(sc)) : SuiteOK(x, v, sc.key, TRUE)}

(* Judge of one observed connection of an honest or downgrade-tampered run (C24).
   o = [c, s, down, second, ccert, obs]; obs as logged by harness/lib/tlsh.Observe.  The server's
   ClientAuthType (s.auth) and whether the client holds a certificate (ccert) are part of the
   configuration pair: agreement on version, suite, ALPN, resumption status and exported keying
   material is demanded for all five ClientAuthTypes, with and without a client certificate, with
   and without tickets, fresh and resumed.
   Returns "ok" or the kind of violation. *)
Judge24(o) ==
  LET n == Negotiate(o.c, o.s, o.down)
      b == o.obs
      both == b.cdone /\ b.sdone
      canaryBad == n.canary \in {"12", "11"} /\ b.canary # "nosh" /\ b.canary # n.canary
  IN
  IF b.cpanic \/ b.spanic \/ b.chang \/ b.shang THEN "panic-or-hang"
  \* the server requires a client certificate and the client has none: the server must not complete
  \* (C27's clause); nothing else is demanded of such a pair (a TLS 1.3 client completes first)
  ELSE IF o.down = 0 /\ o.s.auth \in {2, 4} /\ ~o.ccert THEN
       (IF b.sdone /\ n.mode # "no" THEN "server-completed-without-client-certificate" ELSE "ok")
  ELSE IF o.down # 0 THEN
       \* the adversary rewrote the ClientHello: the client must never complete (the Finished
       \* check covers the hello), and must abort on the sentinel where the RFC says so
       IF b.cdone THEN "completed-after-downgrade"
       ELSE IF canaryBad THEN "canary"
       ELSE IF n.abort /\ b.canary # "nosh" /\ b.cread # 1 THEN "no-abort-on-sentinel"
       ELSE "ok"
  ELSE IF ~both THEN
       IF b.cdone # b.sdone THEN "one-sided-completion"
       ELSE IF n.mode = "must" THEN "not-completed"
       ELSE "ok"
  ELSE IF b.cvers # b.svers \/ b.csuite # b.ssuite \/ b.calpn # b.salpn \/ b.cres # b.sres
          \/ ~b.ekmeq \/ ~b.dataok THEN "disagreement"
  ELSE IF b.cvers # n.vers THEN "version"
  \* Negotiate's demand applies to resumed connections too.  A connection resumed under TLS <= 1.2
  \* carries the session's suite instead of the preference winner; after a reconfiguration of the
  \* server (o.reconf: o.s is the configuration in force now) that suite still has to be "a suite
  \* both enabled": offered by the client and in the server's CURRENT list - else a full handshake.
  ELSE IF o.reconf /\ b.cres /\ n.vers <= 12 /\ b.csuite \notin EnabledLegacy(o.c, o.s, n.vers) THEN "resumed-disabled-suite"
  ELSE IF ~(o.reconf /\ b.cres /\ n.vers <= 12) /\ b.csuite \notin n.suites THEN "suite"
  ELSE IF b.calpn \notin n.alpn THEN "alpn"
  ELSE IF canaryBad THEN "canary"
  ELSE IF ~o.second /\ b.cres THEN "resumed-without-session"
  \* whether a reconfigured server still resumes is the ticket layer's business (C31)
  ELSE IF o.second /\ ~o.reconf /\ b.cres # (o.c.tickets /\ o.s.tickets) THEN "resumption"
  ELSE IF o.reconf /\ b.cres /\ ~(o.c.tickets /\ o.s.tickets) THEN "resumption"
  ELSE "ok"

(* B level (model drift, never a violation): the handshake message types each side consumes in a
   completed honest handshake are the flights of the machine TLSHandshakeMC (message type numbers:
   1 ClientHello, 2 ServerHello/HRR, 4 NewSessionTicket, 8 EncryptedExtensions, 11 Certificate,
   12 ServerKeyExchange, 13 CertificateRequest (ClientAuthType >= RequestClientCert), 14 ServerHelloDone, 15 CertificateVerify,
   16 ClientKeyExchange, 20 Finished).  Optional: NewSessionTicket, a HelloRetryRequest round,
   any number of TLS 1.3 post-handshake tickets. *)
OptT(c, t) == IF c THEN <<t>> ELSE <<>>
RECURSIVE StripTickets(_)
StripTickets(s) == IF s # <<>> /\ s[Len(s)] = 4 THEN StripTickets(SubSeq(s, 1, Len(s) - 1)) ELSE s
ClientReadShapes(v, suite, resumed, cr) ==
  IF v = 13 THEN { OptT(hrr, 2) \o <<2, 8>> \o (IF resumed THEN <<>> ELSE OptT(cr, 13) \o <<11, 15>>) \o <<20>> : hrr \in BOOLEAN }
  ELSE IF resumed THEN { <<2>> \o OptT(nst, 4) \o <<20>> : nst \in BOOLEAN }
  ELSE { <<2, 11>> \o OptT(Tbl(suite).kx # "RSA", 12) \o OptT(cr, 13) \o <<14>> \o OptT(nst, 4) \o <<20>> : nst \in BOOLEAN }
ServerReadShapes(v, resumed, cr, cert) ==
  IF v = 13 THEN { <<1>> \o OptT(hrr, 1) \o OptT(cr /\ ~resumed, 11) \o OptT(cr /\ cert /\ ~resumed, 15) \o <<20>> : hrr \in BOOLEAN }
  ELSE IF resumed THEN { <<1, 20>> }
  ELSE { <<1>> \o OptT(cr, 11) \o <<16>> \o OptT(cr /\ cert, 15) \o <<20>> }
Drift24(o) ==
  LET b == o.obs  cr == o.s.auth >= 1 IN
  IF o.id < 0 \/ o.down # 0 \/ ~(b.cdone /\ b.sdone) \/ ~Known(b.csuite) THEN "ok"     \* id < 0: the driver's self-test copies
  ELSE IF (IF b.cvers = 13 THEN StripTickets(b.ctypes) ELSE b.ctypes) \notin ClientReadShapes(b.cvers, b.csuite, b.cres, cr)
       THEN "client-message-sequence"
  ELSE IF b.stypes \notin ServerReadShapes(b.svers, b.sres, cr, o.ccert) THEN "server-message-sequence"
  ELSE "ok"

\* abstract facts about a judged record, for the replay signature (known-findings matcher)
Facts24(o) ==
  LET n == Negotiate(o.c, o.s, o.down) IN
  [kind |-> Judge24(o), vers |-> n.vers, mode |-> n.mode, down |-> o.down, second |-> o.second,
   prefer |-> o.s.prefer, key |-> o.s.key, auth |-> o.s.auth, ccert |-> o.ccert, resumed |-> o.obs.sres,
   reconf |-> o.reconf,
   server_restricts_tls13 |-> Server13Restricted(o.s),
   suite_in_server_list |-> IF o.obs.ssuite \in T13Suites THEN o.obs.ssuite \in Rng(Cfg13(o.s))
                            ELSE o.obs.ssuite \in Rng(CfgLegacy(o.s)),
   suite_in_client_offer |-> o.obs.csuite \in Rng(ClientOffer(o.c))]

=============================================================================
