----------------------------- MODULE TLSWireVal -----------------------------
(* C30, direction code -> spec: encodings produced by the REAL marshal that differ from the
   bytes the specification's Layout demands (for example another extension order) are judged
   by the specification's parser: the real bytes must parse, under the grammar of the type,
   to exactly the value that was marshalled.  One JSON line {reject: i, fields: [...]} per rejected record.    *)
EXTENDS TLSWire, Json, SequencesExt

CONSTANTS In

Obs == ndJsonDeserialize(In)
Good(o) == o.t \in Types /\ Parse(o.t, o.bytes) = [ok |-> TRUE, v |-> o.v]
(* which fields the specification reads differently from the marshalled value ("" = the bytes
   are not an encoding of the type at all) - only to name the finding precisely *)
Differing(o) == IF o.t \notin Types \/ ~Parse(o.t, o.bytes).ok THEN {""}
                ELSE LET p == Parse(o.t, o.bytes).v IN
                     {f \in DOMAIN p : f \notin DOMAIN o.v \/ p[f] # o.v[f]}
ASSUME \A i \in 1..Len(Obs) : Good(Obs[i]) \/ PrintT(ToJson([reject |-> i, fields |-> SetToSeq(Differing(Obs[i]))]))
ASSUME PrintT(<<"JUDGED", Len(Obs)>>)
=============================================================================
