----------------------------- MODULE TLSWireVal -----------------------------
(* C30, direction code -> spec: encodings produced by the REAL marshal that differ from the
   bytes the specification's Layout demands (for example another extension order) are judged
   by the specification's parser: the real bytes must parse, under the grammar of the type,
   to exactly the value that was marshalled.  One line "REJECT i" per rejected record.    *)
EXTENDS TLSWire, Json

CONSTANTS In

Obs == ndJsonDeserialize(In)
Good(o) == o.t \in Types /\ Parse(o.t, o.bytes) = [ok |-> TRUE, v |-> o.v]
ASSUME \A i \in 1..Len(Obs) : Good(Obs[i]) \/ PrintT(<<"REJECT", i>>)
ASSUME PrintT(<<"JUDGED", Len(Obs)>>)
=============================================================================
