---------------------------- MODULE CTScannerImpl ----------------------------
(* C17 B layer as a TLC model: the step operators of CTScanner.tla (one per critical
   section of ct/scanner/scanner.go) composed into processes Main, Fetcher[f], Matcher[m],
   Server (inside the fetcher's request step) and Ticker, with the A-layer monitor running
   in lock step.  TLC checks, for every configuration in Configs and every interleaving:
     AInv          the A layer (exactly once, correct index, return value) - must hold
     BInv          structural invariants of the model
     Termination   <>done under fairness (separate cfg)
     CounterExact / NoSplitRace / NoTickerRace   the counter discipline: a prediction about the
                   code, judged on the real code by the race detector, never a verdict by
                   itself (Legacy = TRUE reproduces the defect fixed in 4fe80e7).
   In simulation mode (RecordHist) the history of server answers, enqueue operations and
   matcher completions of each behaviour is exported and forced onto the real Scan by the
   harness (gated fake log + blocking hooks).  In generation mode (RecordHist, HistKinds =
   {"ans"}, breadth-first) every server script - every sequence of answers in every global
   order - of a small configuration is exported.                                         *)
EXTENDS CTScanner, Json

CONSTANTS Starts, Sizes, MaxIdxs, Batches, NFs, NMs, KPs,   \* sets: the configurations explored
          MaxFaults,      \* server fault budget per scan (errors + truncated answers); 100 = unlimited
          CapF, CapJ,     \* channel capacities (1000 and 100000 in the code)
          Legacy,         \* BOOLEAN: TRUE = counter discipline of the code before commit 4fe80e7 (split ++ on
                          \* the three secondary counters, plain read of certsProcessed by the ticker)
          RecordHist,     \* BOOLEAN: keep the history (simulation / generation only)
          HistKinds       \* which events the history keeps: subset of {"ans", "enq", "proc"}

VARIABLES st, mon, bad, hist
vars == <<st, mon, bad, hist>>

Configs == { c \in [start : Starts, size : Sizes, maxIdx : MaxIdxs, batch : Batches,
                    nf : NFs, nm : NMs, kp : KPs] :
               /\ c.maxIdx <= c.size                 \* the log can serve every requested entry
               /\ c.start <= c.size }
CfgOf(c) == [start |-> c.start, size |-> c.size, maxIdx |-> c.maxIdx, batch |-> c.batch,
             nf |-> c.nf, nm |-> c.nm, kinds |-> KindSeq(c.kp, c.size), po |-> FALSE]

Init == /\ \E c \in Configs : st = BInit(CfgOf(c), MaxFaults)
        /\ mon = MonInit
        /\ bad = FALSE
        /\ hist = <<>>

H(e) == hist' = IF RecordHist /\ e.t \in HistKinds THEN Append(hist, e) ELSE hist
NoMon == UNCHANGED <<mon, bad>>

Main == \/ MainSTHEn(st)       /\ st' = MainSTH(st)
        \/ MainPushEn(st, CapF) /\ st' = MainPush(st)
        \/ MainCloseFEn(st)    /\ st' = MainCloseF(st)
        \/ MainWaitFEn(st)     /\ st' = MainWaitF(st)
        \/ MainWaitMEn(st)     /\ st' = MainWaitM(st)

FReplyGood(f) == LET n == st.F[f].e - st.F[f].s + 1 IN
                 /\ FReplyOKEn(st, f, n) /\ st' = FReplyOK(st, f, n)
                 /\ H([t |-> "ans", r |-> st.F[f].r0, n |-> n]) /\ NoMon
FReplyBad(f) == \/ /\ FReplyErrEn(st, f) /\ st' = FReplyErr(st, f)
                   /\ H([t |-> "ans", r |-> st.F[f].r0, n |-> 0]) /\ NoMon
                \/ \E n \in 1..(st.F[f].e - st.F[f].s) :
                   /\ FReplyOKEn(st, f, n) /\ st' = FReplyOK(st, f, n)
                   /\ H([t |-> "ans", r |-> st.F[f].r0, n |-> n]) /\ NoMon

FetcherLocal(f) == /\ \/ FTakeEn(st, f, 1)        /\ st' = FTake(st, f, 1) /\ UNCHANGED hist
                      \/ FExitEn(st, f)           /\ st' = FExit(st, f)    /\ UNCHANGED hist
                      \/ FForwardEn(st, f, CapJ)  /\ st' = FForward(st, f)
                                                  /\ H([t |-> "enq", i |-> st.F[f].s])
                   /\ NoMon
Fetcher(f) == FetcherLocal(f) \/ FReplyGood(f) \/ FReplyBad(f)

\* The monitor observes the hand-over to the matcher goroutine (MTake) and the callback
\* (folded into the MAdd step: the callback touches no shared scanner state).
MatcherTake(m) == /\ MTakeEn(st, m, 1) /\ st' = MTake(st, m, 1)
                  /\ LET j == st.jobs[1] IN
                     /\ bad' = (bad \/ ~MonDeliverOK(st.cfg, mon, j.idx, j.pos))
                     /\ mon' = MonDeliver(mon, j.idx)
                  /\ UNCHANGED hist
MatcherAdd(m) == /\ MAddEn(st, m) /\ st' = MAdd(st, m)
                 /\ LET x == st.M[m] IN
                    IF MustCallback(st.cfg, x.pos)
                    THEN /\ bad' = (bad \/ ~MonCallbackOK(st.cfg, mon, x.idx, x.pos)
                                        \/ ~MonMatcherCallOK(st.cfg, mon, x.pos))
                         /\ mon' = MonMatcherCall(MonCallback(mon, x.pos), x.pos)
                    ELSE NoMon
                 /\ IF st'.M[m].pc = "idle" THEN H([t |-> "proc", i |-> st.M[m].idx]) ELSE UNCHANGED hist
MatcherRest(m) == \/ MExitEn(st, m) /\ st' = MExit(st, m) /\ UNCHANGED hist /\ NoMon
                  \/ Legacy /\ MRdEn(st, m)   /\ st' = MRd(st, m)   /\ UNCHANGED hist /\ NoMon
                  \/ Legacy /\ MWrEn(st, m)   /\ st' = MWr(st, m)   /\ NoMon
                                              /\ H([t |-> "proc", i |-> st.M[m].idx])
                  \/ ~Legacy /\ MIncEn(st, m) /\ st' = MInc(st, m)  /\ NoMon
                                              /\ H([t |-> "proc", i |-> st.M[m].idx])
Matcher(m) == MatcherTake(m) \/ MatcherAdd(m) \/ MatcherRest(m)

Ticker == TickExitEn(st) /\ st' = TickExit(st) /\ UNCHANGED hist /\ NoMon

Next == \/ Main /\ UNCHANGED hist /\ NoMon
        \/ \E f \in DOMAIN st.F : Fetcher(f)
        \/ \E m \in DOMAIN st.M : Matcher(m)
        \/ Ticker

Spec == Init /\ [][Next]_vars

\* Fairness for termination: every goroutine keeps running, and the server's errors are
\* transient (strong fairness on the complete answer; needed when the budget is unlimited).
FMax == 3
Fair == /\ WF_vars(Main /\ UNCHANGED hist /\ NoMon)
        /\ \A f \in 1..FMax : WF_vars(f \in DOMAIN st.F /\ FetcherLocal(f))
        /\ \A f \in 1..FMax : SF_vars(f \in DOMAIN st.F /\ FReplyGood(f))
        /\ \A m \in 1..FMax : WF_vars(m \in DOMAIN st.M /\ Matcher(m))
LiveSpec == Spec /\ Fair

Done == st.mpc = "done"
Termination == <>Done

----------------------------------------------------------------------------
AInv == /\ ~bad
        /\ Done => FinalOK(st.cfg, mon, st.ret, TRUE)

BInv == /\ \A i \in 1..Len(st.jobs) : st.jobs[i].idx = st.jobs[i].pos
        /\ \A f \in DOMAIN st.F : st.F[f].pc \in {"req", "fwd"} => st.F[f].s <= st.F[f].e + 1
        /\ st.faults >= 0
        /\ Len(st.fetches) <= CapF /\ Len(st.jobs) <= CapJ
        /\ st.jclosed => \A f \in DOMAIN st.F : st.F[f].pc = "done"   \* never send on a closed channel
        /\ Done => (st.jobs = <<>> /\ st.fetches = <<>> /\ st.todo = <<>>)

\* counter discipline: hold for the current code (Legacy = FALSE); with Legacy = TRUE TLC finds the lost
\* update and both races - that was the prediction the race detector confirmed on the code before 4fe80e7
CounterExact == Done => CountersOK(st.cfg, st.ctr)
NoSplitRace == ~SplitRace(st)
NoTickerRace == ~(Legacy /\ TickerRace(st))

\* export of simulated behaviours
Emit == (RecordHist /\ Done) =>
          PrintT(ToJson([cfg |-> st.cfg, ev |-> hist, ret |-> st.ret]))
=============================================================================
