--------------------------- MODULE TLSHandshakeGen ---------------------------
(* Case generators (U2) of the TLS handshake checks.  Every generator is a constant-level
   enumeration written with ndJsonSerialize; each case carries the outcome the A layer
   (TLSHandshake.tla) demands, so that the exported file documents what is expected, and the
   Go harness replays it on real zcrypto endpoints.  The verdict on what the real code did is
   again TLC's (Trace_TLSHandshake.tla). *)
EXTENDS TLSHandshake, Json, SequencesExt

CONSTANTS Gen,    \* which generator: "C24", "C27", "C31", "C32"
          Tier,   \* "quick" or "thorough"
          Seed,   \* rotates the secondary dimensions
          TLen12, TLen13   \* C31: length of the tickets the tree under test issues (harness probe)

Pick(seq, h) == seq[(h % Len(seq)) + 1]
Ranges == SetToSeq({r \in Versions \X Versions : r[1] <= r[2]})

-----------------------------------------------------------------------------
(* C24: configuration pairs.  Exhaustive over version range x version range x server key type x
   preference flag (the interactions the negotiation rule is about); suite lists from a
   representative table - one per key exchange x cipher class, in different orders on the two
   sides - combined fully in the thorough tier and by rotation (Seed) in the quick tier; ALPN,
   curves, tickets, ForceSuites and the resumption attempt are covered pairwise by rotation. *)
CLists == << <<>>,
             <<47, 49199, 49195, 52392, 52393, 4866>>,
             <<49196, 49200, 52393, 52392, 49161, 49171, 10>>,
             <<158, 51, 156, 49172, 49162, 5>>,
             <<52392, 49199, 49195, 4867, 4865>>,
             <<60, 49191, 49187, 61, 157>>,
             <<22, 57, 53, 49170, 49169, 49159>>,
             <<4865, 49200, 49196>> >>
SLists == << <<>>,
             <<49195, 49199, 47, 4866>>,
             <<53, 47, 49171, 49161, 52392, 52393, 49200, 49196>>,
             <<51, 158, 5, 10, 156, 49162, 49172, 4867, 4865>>,
             <<49199, 52392, 52393, 49195>>,
             <<157, 61, 49187, 49191, 60, 4866, 4867>>,
             <<49159, 49169, 49170, 53, 57, 22>>,
             <<49196, 49200, 4865>> >>
AlpnLists == << <<>>, <<"h2", "http/1.1">>, <<"http/1.1", "h2">>, <<"x1">>, <<"x1", "h2">> >>
CurveLists == << <<>>, <<23>>, <<29>>, <<24, 23>>, <<>>, <<25, 29>> >>
Keys == IF Tier = "quick" THEN <<"R", "P", "E">> ELSE <<"R", "P", "E", "Q">>
NL == IF Tier = "quick" THEN 4 ELSE 8

Mk24x(ci, si, cl, sl, k, p, down, au, cert, tc, ts, tw) ==
  LET h == ci * 3 + si * 5 + cl * 7 + sl * 11 + k * 13 + (IF p THEN 17 ELSE 0) + down * 19 + Seed
      cc == [min |-> Ranges[ci][1], max |-> Ranges[ci][2], suites |-> CLists[cl],
             alpn |-> Pick(AlpnLists, h), curves |-> Pick(CurveLists, h \div 5),
             tickets |-> IF tc = 2 THEN (h \div 2) % 4 # 0 ELSE tc = 1,
             \* DHE suites are only offered with ForceSuites; force them often for that list
             force |-> IF cl \in {4, 7} THEN h % 3 # 0 ELSE h % 7 = 0,
             prefer |-> FALSE, key |-> "", auth |-> 0]
      sc == [min |-> Ranges[si][1], max |-> Ranges[si][2], suites |-> SLists[sl],
             alpn |-> Pick(AlpnLists, h \div 3), curves |-> Pick(CurveLists, h \div 7),
             tickets |-> IF ts = 2 THEN (h \div 3) % 4 # 0 ELSE ts = 1, force |-> FALSE,
             prefer |-> p, key |-> Keys[k], auth |-> au]
      n == Negotiate(cc, sc, down)
  IN [id |-> 0, c |-> cc, s |-> sc, down |-> down, two |-> down = 0 /\ (tw \/ h % 2 = 0), ccert |-> cert,
      reconf |-> FALSE, s2 |-> sc,
      exp |-> [vers |-> n.vers, suites |-> SetToSeq(n.suites), alpn |-> SetToSeq(n.alpn),
               canary |-> n.canary, abort |-> n.abort, mode |-> n.mode]]

\* the default rotation: every third case requests / requires a client certificate
Mk24(ci, si, cl, sl, k, p, down) ==
  LET g == ci * 5 + si * 3 + cl + sl * 7 + k + down + Seed IN
  Mk24x(ci, si, cl, sl, k, p, down, IF down = 0 /\ g % 3 = 0 THEN (g \div 3) % 5 ELSE 0, (g \div 2) % 2 = 0, 2, 2, FALSE)

\* client authentication as a dimension of its own: every version (pinned) x key type x
\* ClientAuthType x client has / has no certificate x tickets on / off on both sides, each pair
\* followed by a resumption attempt
Pinned(v) == CHOOSE i \in 1..Len(Ranges) : Ranges[i] = <<v, v>>
Auth24 ==
  { Mk24x(Pinned(v), Pinned(v), 1, 1, k, FALSE, 0, au, cert, tk, tk, TRUE) :
      v \in Versions, k \in 1..Len(Keys), au \in 0..4, cert \in BOOLEAN, tk \in {0, 1} }

Honest24 ==
  UNION { { Mk24(ci, si, cl, sl, k, p, 0) :
              sl \in IF Tier = "quick" THEN {((ci + si + cl + k + Seed) % NL) + 1} ELSE 1..NL } :
          ci \in 1..Len(Ranges), si \in 1..Len(Ranges), k \in 1..Len(Keys), p \in BOOLEAN,
          cl \in 1..NL }

\* downgrade adversary: the ClientHello is capped below the client's real maximum
Down24 ==
  UNION { { Mk24(ci, si, 1 + ((ci + si) % 3), 1 + (si % 2), k, FALSE, d) :
              d \in {dd \in {10, 11, 12} : dd < Ranges[ci][2]} } :
          ci \in 1..Len(Ranges), si \in 1..Len(Ranges), k \in 1..2 }

\* server reconfiguration between issuance and presentation of a ticket (the ticket keys stay): the
\* negotiated suite leaves the server's list, its maximum version drops below the negotiated one, its
\* curves change, its preference flag flips.  Both sides use tickets; a second connection follows.
Variants24(x) ==
  LET n == Negotiate(x.c, x.s, 0)
      drop == Filter(CfgLegacy(x.s), LAMBDA y : y \notin n.suites)
  IN (IF n.mode = "must" /\ drop # <<>> THEN {[x.s EXCEPT !.suites = drop]} ELSE {})
     \cup (IF n.vers > 10 /\ n.vers - 1 >= x.s.min THEN {[x.s EXCEPT !.max = n.vers - 1]} ELSE {})
     \cup {[x.s EXCEPT !.curves = <<24>>], [x.s EXCEPT !.prefer = ~x.s.prefer]}
Reconf24 ==
  UNION { UNION { LET x == Mk24x(ci, si, l, l, k, (ci + si + k + l + Seed) % 2 = 0, 0, 0, FALSE, 1, 1, TRUE)
                  IN { [x EXCEPT !.reconf = TRUE, !.s2 = v] : v \in Variants24(x) } :
                  l \in IF Tier = "quick" THEN {((ci + si + k + Seed) % 3) + 1} ELSE 1..3 } :
          ci \in 1..Len(Ranges), si \in 1..Len(Ranges), k \in 1..Len(Keys) }

Number(set) == LET q == SetToSeq(set) IN [i \in 1..Len(q) |-> [q[i] EXCEPT !.id = i]]

Cases24 == Number(Honest24 \cup Down24 \cup Auth24 \cup Reconf24)

ASSUME Gen = "C24" =>
         /\ ndJsonSerialize("c24_cases.ndjson", Cases24)
         /\ PrintT(<<"GENERATED", Len(Cases24),
                     Cardinality({i \in 1..Len(Cases24) : Cases24[i].exp.mode = "must"}),
                     Cardinality({i \in 1..Len(Cases24) : Cases24[i].down # 0}),
                     Cardinality({i \in 1..Len(Cases24) : Cases24[i].reconf})>>)

\* sanity of the negotiation function itself over the generated domain (specification lemmas):
\* the picked version is supported by both, every allowed suite is offered, enabled and usable.
ASSUME Gen = "C24" =>
  \A i \in 1..Len(Cases24) :
     LET x == Cases24[i]  n == Negotiate(x.c, x.s, x.down) IN
       /\ n.vers # 0 => n.vers \in ServerVersions(x.s) /\ n.vers \in SeenClientVersions(x.c, x.down)
       /\ \A su \in n.suites : su \in Rng(ClientOffer(x.c))
       /\ \A su \in n.suites : IF n.vers = 13 THEN su \in Rng(Cfg13(x.s)) ELSE su \in Rng(CfgLegacy(x.s))
       /\ n.abort => n.canary # "none"

-----------------------------------------------------------------------------
(* C31: ticket histories.
   (a) every key administration history of up to H operations after issuance under the head of
       <<1>> or <<2, 1>>, with the unaltered ticket and with one altered MAC byte;
   (b) every structural mutation (flip per part x position class x bit pattern, truncations,
       extensions, foreign / spliced / zeroed tickets) with and without a rotation;
   (c) every single byte position x 3 bit patterns of the ticket (the statement's "all single-byte
       ... mutations");
   (d) configuration changes (version no longer negotiated, suite no longer enabled by the server,
       suite no longer offered by the client although it still presents the ticket). *)
H31 == IF Tier = "quick" THEN 2 ELSE 3
OpAt(name, pos) == [op |-> name, k |-> IF name = "rot" THEN 10 + pos ELSE 0]
RECURSIVE Hists(_)
Hists(n) == IF n = 0 THEN {<<>>}
            ELSE LET prev == Hists(n - 1) IN
                 prev \cup { Append(h, OpAt(o, Len(h) + 1)) : h \in {x \in prev : Len(x) = n - 1}, o \in {"rot", "drop", "droplast"} }
NoMut == [kind |-> "none", part |-> "", where |-> 0, mask |-> 0, n |-> 0]
Flips == { [kind |-> "flip", part |-> pt, where |-> w, mask |-> m, n |-> 0] :
             pt \in {"name", "iv", "body", "mac"}, w \in 0..2, m \in {1, 128, 255} }
Structural ==
  Flips
  \cup { [kind |-> "trunc", part |-> "", where |-> 0, mask |-> 0, n |-> k] : k \in {0, 1, 16, 32, 63, 64, 0 - 1, 0 - 32, 0 - 33} }
  \cup { [kind |-> "extend", part |-> "", where |-> 0, mask |-> 0, n |-> k] : k \in {1, 16} }
  \cup { [kind |-> k, part |-> "", where |-> 0, mask |-> 0, n |-> 0] : k \in {"foreign", "swapname", "splice", "zero"} }
FlipAts(len) == { [kind |-> "flipat", part |-> "", where |-> 0, mask |-> m, n |-> pos] : pos \in 0..(len - 1), m \in {1, 128, 255} }
Keys31 == IF Tier = "quick" THEN {"E"} ELSE {"E", "R", "P"}

Mk31(v, key, k0, h, m, ch) ==
  LET o == [keys0 |-> k0, hist |-> h, change |-> ch, changed |-> m.kind # "none"] IN
  [id |-> 0, vers |-> v, key |-> key, keys0 |-> k0, hist |-> h, mut |-> m, change |-> ch,
   exp |-> [demand |-> SetToSeq(Demand31(o)), keys1 |-> ApplyHist(k0, h)]]

Cases31 == Number(
  { Mk31(v, "E", k0, h, m, "none") : v \in {12, 13}, k0 \in {<<1>>, <<2, 1>>}, h \in Hists(H31),
                                     m \in {NoMut, [kind |-> "flip", part |-> "mac", where |-> 2, mask |-> 1, n |-> 0]} }
  \cup { Mk31(v, key, <<1>>, h, m, "none") : v \in {12, 13}, key \in Keys31, h \in {<<>>, <<OpAt("rot", 1)>>}, m \in Structural }
  \cup { Mk31(12, "E", <<1>>, <<>>, m, "none") : m \in FlipAts(TLen12) }
  \cup { Mk31(13, "E", <<1>>, <<>>, m, "none") : m \in FlipAts(TLen13) }
  \cup { Mk31(v, key, <<1>>, <<>>, NoMut, "server_max_lower") : v \in {12, 13}, key \in {"P", "R"} }
  \cup { Mk31(12, key, <<1>>, <<>>, NoMut, ch) : key \in {"R", "P"}, ch \in {"server_drops_suite", "client_drops_suite"} } )

ASSUME Gen = "C31" =>
         /\ ndJsonSerialize("c31_cases.ndjson", Cases31)
         /\ PrintT(<<"GENERATED", Len(Cases31),
                     Cardinality({i \in 1..Len(Cases31) : Cases31[i].exp.demand = <<"resume">>}),
                     Cardinality({i \in 1..Len(Cases31) : Cases31[i].exp.demand = <<"full">>})>>)

-----------------------------------------------------------------------------
(* C27: (version x key exchange class x server key type) x server scenario x ClientAuthType x
   client scenario.  Quick: every server scenario without client authentication, and every
   (ClientAuthType, client scenario) pair with an authentic server, on every combination;
   thorough: the full product. *)
Combos27 ==
  { <<10, 47, "R">>, <<10, 49171, "R">>, <<10, 49161, "P">>, <<10, 51, "R">>,
    <<11, 53, "R">>, <<11, 49172, "R">>, <<11, 49161, "P">>, <<11, 57, "R">>,
    <<12, 156, "R">>, <<12, 49199, "R">>, <<12, 49195, "P">>, <<12, 49195, "E">>, <<12, 158, "R">>,
    <<13, 0, "R">>, <<13, 0, "P">>, <<13, 0, "E">> }
  \cup (IF Tier = "quick" THEN {} ELSE
        { <<10, 10, "R">>, <<10, 49162, "Q">>, <<11, 5, "R">>, <<12, 52393, "Q">>, <<12, 49191, "R">>,
          <<12, 52394, "R">>, <<12, 61, "R">>, <<13, 0, "Q">> })
SScens27 == {"Trusted", "UntrustedRoot", "Expired", "NotYetValid", "WrongName", "WrongKey", "BadLeafSig",
             "NameIP4Listed", "NameIP4Unlisted", "NameIP6BracketListed", "NameIP6BracketUnlisted",
             "NameIP6ZoneListed", "NameDNSTrailingDot",
             "CorruptSKXSig", "CorruptSKXParams", "CorruptServerFinished", "CorruptClientFinished"}
             \* (the structural signature corruptions ServerSigBad / ClientSigBad are added in Cases27)
CScens27 == {"NoClientCert", "ClientTrusted", "ClientUntrusted", "ClientExpired", "ClientWrongKey",
             "ClientServerEKU", "CorruptClientCV"}
\* the server signs (ServerKeyExchange / TLS 1.3 CertificateVerify) unless the key exchange is RSA; the
\* DHE_RSA key agreement of zcrypto insists on a concrete RSA key object, so the key-substituting peer
\* cannot be built for it (its signature check is the RSA one exercised through ECDHE_RSA)
ServerSigns(co) == co[1] = 13 \/ Tbl(co[2]).kx \notin {"RSA", "DHE_RSA"}
SApplicable(sc, co) == /\ sc \in {"CorruptSKXSig", "CorruptSKXParams"} => co[1] <= 12 /\ Tbl(co[2]).kx # "RSA"
                       /\ sc \in ServerSigBad => ServerSigns(co)
CApplicable(cs, co) == cs = "CorruptClientCV" => co[1] <= 12
CKeyFor(co, a, i) == IF co[1] < 12 THEN Pick(<<"P", "R">>, a + i + co[2]) ELSE Pick(<<"E", "P", "R">>, a + i + co[2] + Seed)

Mk27x(co, sc, cs, a, cas, ck) ==
  LET o == [vers |-> co[1], suite |-> co[2], key |-> co[3], scen |-> sc, cscen |-> cs, auth |-> a, cas |-> cas,
            fired |-> IF cs = "CorruptClientCV" /\ a >= 1 THEN cs
                      ELSE IF sc \in ServerWire \cup {"CorruptClientFinished"} THEN sc ELSE "",
            sigfired |-> IF sc \in ServerSigBad /\ ServerSigns(co) THEN sc ELSE "",
            csigfired |-> IF cs \in ClientSigBad /\ a >= 1 THEN cs ELSE "",
            std |-> [server_chain_ok |-> ExpectedStd(sc).chain, server_key_ok |-> ExpectedStd(sc).key,
                     client_sent |-> ExpectedCStd(cs, cas).sent, client_chain_ok |-> ExpectedCStd(cs, cas).chain,
                     client_key_ok |-> ExpectedCStd(cs, cas).key]]
  IN [id |-> 0, vers |-> co[1], suite |-> co[2], key |-> co[3], scen |-> sc, cscen |-> cs, auth |-> a,
      ckey |-> ck, cas |-> cas, exp |-> AuthDemand(o)]
Mk27(co, sc, cs, a) == Mk27x(co, sc, cs, a, "with", CKeyFor(co, a, Len(cs)))
CKeys27(co) == IF co[1] < 12 THEN {"P", "R"} ELSE {"E", "P", "R"}

Cases27 == Number(
  (IF Tier = "quick"
   THEN { Mk27(co, sc, "NoClientCert", 0) : co \in Combos27, sc \in SScens27 }
        \cup { Mk27(co, "Trusted", cs, a) : co \in Combos27, cs \in CScens27, a \in 0..4 }
        \cup { Mk27(co, sc, "ClientTrusted", 4) : co \in Combos27, sc \in {"WrongKey", "Expired", "CorruptServerFinished"} }
   ELSE { Mk27(co, sc, cs, a) : co \in Combos27, sc \in SScens27, cs \in CScens27, a \in 0..4 })
  \* structurally wrong signatures on both proof-of-possession paths, every key type
  \cup { Mk27x(co, sc, "ClientTrusted", a, "with", "P") : co \in Combos27, sc \in ServerSigBad, a \in {0, 4} }
  \cup UNION { { Mk27x(co, "Trusted", cs, a, "with", ck) : ck \in CKeys27(co), cs \in ClientSigBad, a \in 1..4 } : co \in Combos27 }
  \* the server's ClientCAs: nothing configured, an empty pool, a pool without / with the client's root
  \cup { Mk27x(co, "Trusted", cs, a, cas, CKeyFor(co, a, Len(cas))) : co \in Combos27,
          cs \in {"NoClientCert", "ClientTrusted", "ClientUntrusted", "ClientExpired"}, a \in 0..4, cas \in {"nil", "empty", "without"} } )

Cases27A == SelectSeq(Cases27, LAMBDA x : SApplicable(x.scen, <<x.vers, x.suite, x.key>>) /\ CApplicable(x.cscen, <<x.vers, x.suite, x.key>>)
                                         /\ ~(x.cscen = "CorruptClientCV" /\ x.scen \in ServerWire \cup {"CorruptClientFinished"}))

ASSUME Gen = "C27" =>
         /\ ndJsonSerialize("c27_cases.ndjson", Cases27A)
         /\ PrintT(<<"GENERATED", Len(Cases27A),
                     Cardinality({i \in 1..Len(Cases27A) : Cases27A[i].exp.clientMustFail}),
                     Cardinality({i \in 1..Len(Cases27A) : Cases27A[i].exp.serverMustFail}),
                     Cardinality({i \in 1..Len(Cases27A) : Cases27A[i].exp.mustComplete})>>)

-----------------------------------------------------------------------------
(* C28: the configuration pairs of C24 that have to complete, each fresh and (every second one)
   followed by a resumed connection; the demanded outcome is the same for all: log = projection of
   the wire (Problems28 = {}). *)
\* scripted-peer inputs a zcrypto server never produces by itself:
\*  (a) SCT lists of the ServerHello: every sequence of <= 3 SCTs over well-formed / truncated /
\*      unknown-version / one-byte SCTs (TLS 1.0-1.2);
\*  (b) TLS 1.2 ServerKeyExchange whose SignatureAndHashAlgorithm bytes are rewritten in flight to
\*      every (hash, signature) pair of 6 x 4 values incl. unknown ones, for DHE_RSA and ECDHE suites,
\*      against a client with InsecureSkipVerify (which continues past a DHE signature error).
SctClasses == {"good1", "good2", "trunc", "badver", "short"}
SctLists == { <<a>> : a \in SctClasses } \cup { <<a, b>> : a \in SctClasses, b \in SctClasses }
            \cup { <<a, b, c>> : a \in {"good1", "trunc"}, b \in SctClasses, c \in SctClasses }
Base28(v, suite, key, force) ==
  [id |-> 0, down |-> 0, two |-> FALSE, ccert |-> FALSE, scts |-> <<>>, skip |-> FALSE, rwh |-> 0, rws |-> 0, late |-> "",
   c |-> [min |-> v, max |-> v, suites |-> <<suite>>, alpn |-> <<>>, curves |-> <<>>, tickets |-> TRUE, force |-> force,
          prefer |-> FALSE, key |-> "", auth |-> 0],
   s |-> [min |-> v, max |-> v, suites |-> <<suite>>, alpn |-> <<>>, curves |-> <<>>, tickets |-> TRUE, force |-> FALSE,
          prefer |-> FALSE, key |-> key, auth |-> 0]]
Sct28 == { [Base28(12, 49199, "R", FALSE) EXCEPT !.scts = l] : l \in SctLists }
         \cup { [Base28(11, 49171, "R", FALSE) EXCEPT !.scts = l] : l \in SctLists }
Rw28 == { [Base28(12, su, "R", TRUE) EXCEPT !.skip = sk, !.rwh = h, !.rws = g] :
            su \in {158, 51, 107, 49199}, sk \in BOOLEAN, h \in {1, 2, 4, 5, 6, 9}, g \in {1, 2, 3, 9} }
\*  (c) client options that alter the ClientHello after it has been built (ForceSessionTicketExt,
\*      SignedCertificateTimestampExt, the former also with SessionTicketsDisabled) x with / without a
\*      session cache x every version; with a cache a second connection follows
LateOpts == {"ticket", "sct", "ticket+sct", "ticket-disabled"}
Late28 == { [Base28(co[1], co[2], co[3], FALSE) EXCEPT !.late = l, !.c.tickets = tk, !.two = tk] :
              co \in {<<10, 47, "R">>, <<11, 49171, "R">>, <<12, 49199, "R">>, <<12, 49195, "E">>, <<13, 4865, "P">>},
              l \in LateOpts, tk \in BOOLEAN }
Cases28 == Number(
  { [x EXCEPT !.two = (x.c.tickets /\ x.s.tickets)] @@ [scts |-> <<>>, skip |-> FALSE, rwh |-> 0, rws |-> 0, late |-> ""] :
      x \in {y \in Honest24 : y.exp.mode = "must"} }
  \cup { x @@ [exp |-> [mode |-> "scripted"]] : x \in Sct28 \cup Rw28 \cup Late28 } )
ASSUME Gen = "C28" =>
         /\ ndJsonSerialize("c28_cases.ndjson", Cases28)
         /\ PrintT(<<"GENERATED", Len(Cases28), Cardinality({i \in 1..Len(Cases28) : Cases28[i].two}),
                     Cardinality({i \in 1..Len(Cases28) : Cases28[i].scts # <<>>}),
                     Cardinality({i \in 1..Len(Cases28) : Cases28[i].rwh # 0}),
                     Cardinality({i \in 1..Len(Cases28) : Cases28[i].late # ""})>>)

-----------------------------------------------------------------------------
(* C32: the adversary actions of TLSHandshakeMC (A_Corrupt, A_Alter, A_Drop, A_Insert, EnvClose)
   made concrete: (configuration) x (direction) x (record index = message boundary) x (corruption
   kind x position class / inserted record kind), plus byte-stream cases per configuration.
   The demanded outcome is the same everywhere: every endpoint ends in {done, failed}. *)
Combos32 ==
  { <<10, 47, "R", 0>>, <<10, 49161, "P", 0>>, <<11, 49172, "R", 4>>, <<12, 49199, "R", 4>>,
    <<12, 49195, "E", 0>>, <<12, 158, "R", 0>>, <<13, 0, "E", 0>>, <<13, 0, "R", 4>> }
  \cup (IF Tier = "quick" THEN {} ELSE
        { <<12, 156, "R", 0>>, <<10, 51, "R", 0>>, <<10, 49171, "R", 4>>, <<11, 5, "R", 0>>, <<11, 49161, "P", 4>>, <<12, 49195, "P", 4>>,
          <<12, 52393, "Q", 0>>, <<12, 49191, "R", 0>>, <<13, 0, "P", 0>>, <<13, 0, "E", 4>> })
MaxIdx32 == IF Tier = "quick" THEN 7 ELSE 11
Faults32 ==
  { [kind |-> "flip", pos |-> p, mask |-> m, sub |-> ""] : p \in 0..5, m \in {1, 128} }
  \cup { [kind |-> k, pos |-> p, mask |-> 0, sub |-> ""] : k \in {"trunc", "split", "refrag"}, p \in 0..4 }
  \cup { [kind |-> k, pos |-> 0, mask |-> 0, sub |-> ""] : k \in {"dup", "drop", "close"} }
  \* a cleartext handshake message cut to 0/1/2/3/half/all-but-one bytes, or padded, with consistent framing
  \cup { [kind |-> k, pos |-> p, mask |-> 0, sub |-> ""] : k \in {"shorten", "lengthen", "zeros"}, p \in 0..5 }
  \cup { [kind |-> "garbage", pos |-> 0, mask |-> 0, sub |-> x] : x \in {"keep-header", "all"} }
  \cup { [kind |-> "insert", pos |-> 0, mask |-> 0, sub |-> x] :
           x \in {"junk-handshake", "short-handshake", "huge-handshake", "alert-warning", "alert-fatal", "unknown-type",
                  "empty-appdata", "empty-handshake", "ccs", "oversize"} }
Mk32(co, d, i, f, sd) ==
  [id |-> 0, vers |-> co[1], suite |-> co[2], key |-> co[3], auth |-> co[4], dir |-> d, idx |-> i,
   kind |-> f.kind, pos |-> f.pos, mask |-> f.mask, sub |-> f.sub, seed |-> sd]
Cases32 == Number(
  { Mk32(co, d, i, f, Seed) : co \in Combos32, d \in {0, 1}, i \in 0..MaxIdx32, f \in Faults32 }
  \cup { Mk32(co, d, 0, [kind |-> "stream", pos |-> k % 3, mask |-> k % 4, sub |-> x], Seed * 1000 + k) :
           co \in Combos32, d \in {0, 1}, x \in {"random", "header-random", "transcript"},
           k \in 1..(IF Tier = "quick" THEN 6 ELSE 40) }
  \* data phase: a genuine post-handshake message (KeyUpdate with/without update_requested,
  \* NewSessionTicket; HelloRequest to a TLS 1.1/1.2 client) x transport state at that moment
  \* (pos: 0 healthy, 1 write side fails, 2 EOF after the message, 3 fully closed) x both directions
  \cup { Mk32(<<13, 0, k, 0>>, d, 0, [kind |-> "inject", pos |-> p, mask |-> 0, sub |-> m], Seed) :
           k \in {"E", "R"}, d \in {0, 1}, p \in 0..3, m \in {"keyupdate0", "keyupdate1", "nst"} }
  \cup { Mk32(co, 1, 0, [kind |-> "inject", pos |-> p, mask |-> 0, sub |-> "hellorequest"], Seed) :
           co \in {<<12, 49199, "R", 0>>, <<11, 49172, "R", 0>>, <<12, 49195, "P", 0>>}, p \in 0..3 }
  \* a client configured with an external ClientHello that lacks supported_versions (an older
  \* stack's hello), with and without a session cache, against an honest server
  \cup { Mk32(co, 1, 0, [kind |-> "exthello", pos |-> 0, mask |-> 0, sub |-> x], Seed) :
           co \in Combos32, x \in {"with-cache", "no-cache"} } )
ASSUME Gen = "C32" =>
         /\ ndJsonSerialize("c32_cases.ndjson", Cases32)
         /\ PrintT(<<"GENERATED", Len(Cases32), Cardinality({i \in 1..Len(Cases32) : Cases32[i].kind = "stream"})>>)

-----------------------------------------------------------------------------
(* C27 histories: every sequence of 2 (thorough: also 3) steps over
   {InsecureSkipVerify} x {trusted chain A, untrusted chain B} x {configured name = certificate name,
   other name} x {now, after the leaves expired}, for TLS 1.2 and 1.3 (ticket / PSK resumption). *)
Steps27 == { [skip |-> sk, scert |-> c, name |-> n, time |-> t] :
               sk \in BOOLEAN, c \in {"A", "B"}, n \in {"dns", "other"}, t \in {"now", "late"} }
Hist27(n) == IF n = 2 THEN { <<a, b>> : a \in Steps27, b \in Steps27 }
             ELSE { <<a, b, c>> : a \in Steps27, b \in Steps27, c \in {x \in Steps27 : x.name = "dns"} }
Cases27H == Number(
  { [id |-> 0, vers |-> v, key |-> "P", steps |-> h,
     exp |-> [i \in 1..Len(h) |-> [presented_ok |-> PresentedExpected(h[i]), verifying |-> ~h[i].skip]]] :
      v \in {12, 13}, h \in Hist27(2) \cup (IF Tier = "quick" THEN {} ELSE Hist27(3)) } )
ASSUME Gen \in {"C27", "C27H"} =>
         /\ ndJsonSerialize("c27h_cases.ndjson", Cases27H)
         /\ PrintT(<<"GENERATED-H", Len(Cases27H),
                     Cardinality({i \in 1..Len(Cases27H) : Cases27H[i].steps[1].skip /\ ~Cases27H[i].steps[2].skip})>>)

-----------------------------------------------------------------------------
(* C31, automatic rotation: every increasing sequence of 3-4 connection times from a grid that
   crosses the 24 h rotation period and the 7-day key life (hours), every issuing connection before
   the last, the ticket presented as issued or forged under an all-zero / all-0xFF / public key;
   TLS 1.2 and 1.3. *)
Grid31 == IF Tier = "quick" THEN <<0, 20, 30, 150, 175, 195, 200>> ELSE <<0, 10, 20, 30, 50, 150, 170, 175, 195, 200, 340>>
TimeSeqs == { <<Grid31[a], Grid31[b], Grid31[c]>> : a, b, c \in 1..Len(Grid31) } \cup
            { <<Grid31[a], Grid31[b], Grid31[c], Grid31[e]>> : a, b, c, e \in 1..Len(Grid31) }
Increasing(q) == \A i \in 1..(Len(q) - 1) : q[i] < q[i + 1]
Cases31A == Number(
  UNION { { [id |-> 0, vers |-> v, times |-> ts, issue |-> i, forge |-> f,
             exp |-> [demand |-> SetToSeq(Demand31A([times |-> ts, issue |-> i, forge |-> f])),
                      keys |-> [k \in 1..Len(AutoKeysAfter(<<>>, ts)) |-> AutoKeysAfter(<<>>, ts)[k].c]]] :
              i \in 1..(Len(ts) - 1), f \in {"none", "zero", "ff", "public"}, v \in {12, 13} } :
          ts \in {q \in TimeSeqs : Increasing(q)} } )
ASSUME Gen \in {"C31", "C31A"} =>
         /\ ndJsonSerialize("c31a_cases.ndjson", Cases31A)
         /\ PrintT(<<"GENERATED-A", Len(Cases31A),
                     Cardinality({i \in 1..Len(Cases31A) : Cases31A[i].exp.demand = <<"resume">>}),
                     Cardinality({i \in 1..Len(Cases31A) : Cases31A[i].forge # "none"})>>)
=============================================================================
