------------------------------ MODULE Trace_DER ------------------------------
(* C19 observation validator (U3, function style): decisions the real decoders took
   on seeded random longer encodings are judged against DER.tla.

   One NDJSON record per (input, decoder):
     k kind, b input octets, cls decoder class, tagbyte expected identifier octet,
     acc accepted?, n consumed, decoded value fields, re = re-encoding by the same
     library, reok = re-encoding succeeded.
   A record is allowed iff
     verdict "r" => not accepted;   verdict "a" => accepted;
     accepted   => consumed = n, value = Decode(b), re = the consumed octets
   (the value checks are only evaluated for accepted records: lazy conjunction).
   Every record is one state (index tree 1 -> 2i, 2i+1 so that all workers share the
   work); a disallowed record prints <<"REJECT", i, got, why>> and the run continues.       *)
EXTENDS DER, Json

Obs == ndJsonDeserialize("der_obs.ndjson")

VARIABLE i
Init == i = 1
Next == \E j \in {2 * i, 2 * i + 1} : j <= Len(Obs) /\ i' = j
Spec == Init /\ [][Next]_i

SeqEq(a, b) == Len(a) = Len(b) /\ \A x \in 1..Len(a) : a[x] = b[x]

(* <<>> if the observation is allowed, else <<got, why>>:
   got "a" accepted what must be rejected (why = the rule), "r" rejected what must be
   accepted, "consumed" / "value" / "reencode" wrong result of an acceptance *)
ProblemR(j, r, valueok, needre) ==
  IF j.v = "r" /\ r.acc THEN <<"a", j.why>>
  ELSE IF j.v = "a" /\ ~r.acc THEN <<"r", "">>
  ELSE IF ~r.acc THEN <<>>
  ELSE IF r.n # j.n THEN <<"consumed", "">>
  ELSE IF ~valueok THEN <<"value", "">>
  ELSE IF needre /\ (~r.reok \/ ~SeqEq(r.re, DTake(r.b, j.n))) THEN <<"reencode", "">>
  ELSE <<>>
Problem(j, r, valueok) == ProblemR(j, r, valueok, TRUE)

Check(r) ==
  LET s == r.b IN
  CASE r.k = "int" ->
         LET f == Framed(s, r.tagbyte) IN
         Problem(IntJudgeF(f, r.cls), r, r.sign = IntSign(f.c) /\ SeqEq(r.mag, IntMag(f.c)))
    [] r.k = "bool" ->
         LET f == Framed(s, r.tagbyte) IN
         Problem(BoolJudgeF(f), r, r.bv = (f.c = <<255>>))
    [] r.k = "oid" ->
         LET f == Framed(s, r.tagbyte)
             o == OidInfo(f.c) IN
         Problem(OidJudgeF(f, o, r.cls), r, o.fits31 => SeqEq(r.arcs, o.arcs))
    [] r.k = "bits" ->
         LET f == Framed(s, r.tagbyte) IN
         Problem(BitsJudgeF(f, r.cls), r, SeqEq(r.bytes, BitsBytes(f.c)) /\ r.bl = BitsLen(f.c))
    [] r.k = "time" ->
         LET f == Framed(s, r.tagbyte)
             g == GTInfo(f.c) IN
         Problem(TimeJudgeF(f, g), r, SeqEq(r.t, g.t))
    [] r.k = "utc" ->      \* no re-encoding demanded without seconds / when the codec has no encoder
         LET f == Framed(s, r.tagbyte)
             u == UTInfo(f.c) IN
         ProblemR(UTimeJudgeF(f, u), r, SeqEq(r.t, u.t), ~u.nore /\ ~r.nore)
    [] r.k = "hdr" ->
         LET e == Elem(s, "strict") IN
         Problem(HdrJudgeE(e, r.cls), r,
                 ~e.h.id.big => /\ r.class = e.h.id.class /\ r.cons = e.h.id.cons
                                /\ r.tag = e.h.id.tag /\ r.clen = e.h.len)

Verdict(r) == IF r.panic THEN <<"panic", "">> ELSE Check(r)

Judge == i <= Len(Obs) =>
           LET p == Verdict(Obs[i]) IN p = <<>> \/ PrintT(<<"REJECT", i, p[1], p[2]>>)
=============================================================================
