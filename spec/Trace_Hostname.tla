--------------------------- MODULE Trace_Hostname ---------------------------
(* C09 observation validator (U3, function style): what the REAL VerifyHostname answered on
   seeded random hosts x certificates is judged by Hostname.tla.

   Input  FO: one observation per line [host, cert, accepted, panic, stdip]
             (stdip = the standard library's reading of the host as an IP literal, 8 groups, or <<>>;
              used only to cross-check the specification's own IP-literal grammar: where the two
              differ the observation is reported as CLASSIFY and not judged)
   Output <<"REJECT", i, want, path>>  real answer differs from a definite verdict
          <<"CLASSIFY", i>>            specification and net.ParseIP disagree on the host
          <<"JUDGED", n, judged, accepts, open>>                                         *)
EXTENDS Hostname, TLC, Json, FiniteSetsExt

CONSTANT FO
OBS == ndJsonDeserialize(FO)
N   == Len(OBS)

One(o) ==
  LET d == Decide(o.host, o.cert) IN
  [classify |-> d.ipg # o.stdip,
   want |-> d.want, path |-> d.path,
   bad  |-> o.panic \/ (d.want = "accept" /\ ~o.accepted) \/ (d.want = "reject" /\ o.accepted)]

Judge(dummy) ==
  LET vs == {<<i, One(OBS[i])>> : i \in 1..N}
      ok == {x \in vs : ~x[2].classify}
  IN /\ \A x \in vs : ~x[2].classify \/ PrintT(<<"CLASSIFY", x[1]>>)
     /\ \A x \in ok : ~x[2].bad \/ PrintT(<<"REJECT", x[1], x[2].want, x[2].path>>)
     /\ PrintT(<<"JUDGED", N, Cardinality({x \in ok : x[2].want # "open"}),
                 Cardinality({x \in ok : x[2].want = "accept"}), Cardinality({x \in ok : x[2].want = "open"})>>)

ASSUME Judge(0)
=============================================================================
