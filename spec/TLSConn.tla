------------------------------- MODULE TLSConn -------------------------------
(* C34: concurrent use of a tls.Conn is safe.

   A layer (this module, constants only) - what the statement allows, as pure operators over
   observations of calls on the connection under test (CUT) and of its peer.

   Streams.  Every Write payload (of the CUT's goroutines and of the peer) is chosen by the harness
   so that each byte identifies (write id, offset in that payload).  A received chunk is therefore
   a sequence of RUNS   [w |-> write id, off |-> offset, n |-> length > 0]   (w < 0: bytes that
   were never handed to any Write).  A write is described by
   [g |-> goroutine, k |-> index of the call in that goroutine's program, len |-> payload length].

     "preserves the byte stream of each direction"
       towards the peer (one reader at the peer, several writer goroutines may share the CUT):
         ToPeerRunOK   each received run continues its write exactly where the previous run of
                       that write ended, stays inside the payload, and all earlier Writes of the
                       same goroutine are complete (so for every writer the received bytes are a
                       prefix of the bytes it handed to Write, in order);
         RealTimeOK    a Write that returned success before another Write started is received
                       completely before any byte of the later one;
         Delivered     a Write that returned success is received completely whenever the peer was
                       allowed to read to the end of the stream;
         NoOverlap     the records of the direction are handed to the transport one at a time: two
                       transport writes of the connection in flight at once mean that two records
                       (sealed in a definite order) reach the byte stream in no definite order or
                       interleaved - the direction's stream is no longer the connection's to preserve;
       from the peer (one writer at the peer, several reader goroutines may share the CUT):
         FromPeerRunOK every Read returns bytes of the peer's stream inside a payload, never a byte
                       that an earlier Read already returned, and (FloorOK) only bytes behind
                       everything returned by Reads that ended before this Read started;
         NoHole        at the end the bytes returned form a prefix of the peer's stream.
       Left open on purpose (ambiguity rule): whether two concurrent Writes may interleave at
       record granularity.  The statement does not say that a Write is atomic with respect to
       other Writes; WriteAtomic is an observation, not a verdict.

     "never deadlocks once the peer closes or deadlines expire"
       AllEnded      every call that started has ended when the run is over; the run is over only
                     after the transport was closed in both directions, every deadline had expired
                     and a watchdog of >= 1000 x the normal latency of a call elapsed.

     "free of data races" is not expressible over call results; it is predicted by the B layer
     (TLSConnImpl.tla, NoRace) and observed by the Go race detector.

   B layer: TLSConnImpl.tla (implementation-shaped lock model of tls/conn.go).
   Trace validator for recorded executions of the real code: Trace_TLSConn.tla.                  *)
EXTENDS Naturals, Integers, Sequences, FiniteSets

----------------------------------------------------------------------------
Iv(r) == r.off .. (r.off + r.n - 1)
RunsOf(runs, w) == {i \in 1..Len(runs) : runs[i].w = w}
Cover(runs, w) == UNION {Iv(runs[i]) : i \in RunsOf(runs, w)}

RECURSIVE SumN(_, _)
SumN(runs, S) == IF S = {} THEN 0 ELSE LET i == CHOOSE j \in S : TRUE IN runs[i].n + SumN(runs, S \ {i})
Got(runs, w) == SumN(runs, RunsOf(runs, w))

Complete(runs, writes, w) == Got(runs, w) = writes[w].len

----------------------------------------------------------------------------
(* towards the peer: recv = runs the peer's reader returned so far (in order), writes = the
   CUT's Writes that have started, r = the next run *)

ToPeerRunOK(recv, writes, r) ==
  /\ r.w \in DOMAIN writes
  /\ r.n > 0
  /\ r.off = Got(recv, r.w)
  /\ r.off + r.n <= writes[r.w].len
  /\ \A v \in DOMAIN writes :
        (writes[v].g = writes[r.w].g /\ writes[v].k < writes[r.w].k) => Complete(recv, writes, v)

\* before(v, w): the Write v returned success before the Write w started
RealTimeOK(recv, writes, before, r) ==
  \A v \in DOMAIN writes : before[v][r.w] => Complete(recv, writes, v)

Delivered(recv, writes, w) == Complete(recv, writes, w)

\* n = number of transport writes of the connection observed in flight at the same time
NoOverlap(n) == n <= 1

\* observation only: the runs of one write are adjacent in the received stream
WriteAtomic(recv, w) ==
  \A i, j \in RunsOf(recv, w) : \A m \in i..j : recv[m].w = w

----------------------------------------------------------------------------
(* from the peer: sent = the peer's Writes that have started (k = order), claimed = runs
   returned by Reads so far, r = a run returned by a Read *)

FromPeerRunOK(claimed, sent, r) ==
  /\ r.w \in DOMAIN sent
  /\ r.n > 0
  /\ r.off + r.n <= sent[r.w].len
  /\ Iv(r) \cap Cover(claimed, r.w) = {}

\* stream position of the first byte of a run: <<order of the write, offset>>
Before(sent, p, q) == p[1] < q[1] \/ (p[1] = q[1] /\ p[2] < q[2])
PosFirst(sent, r) == <<sent[r.w].k, r.off>>
PosLast(sent, r) == <<sent[r.w].k, r.off + r.n - 1>>
\* floor = position of the last byte returned by Reads that ended before this Read started (<<0,0>> if none)
FloorOK(sent, floor, r) == Before(sent, floor, PosFirst(sent, r))

NoHole(claimed, sent) ==
  \A w \in DOMAIN sent :
    LET c == Cover(claimed, w) IN
    /\ c = 0 .. (Cardinality(c) - 1)
    /\ c # {} => \A v \in DOMAIN sent : sent[v].k < sent[w].k => Cover(claimed, v) = 0 .. (sent[v].len - 1)

----------------------------------------------------------------------------
AllEnded(open) == open = {}

=============================================================================
