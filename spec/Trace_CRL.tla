----------------------------- MODULE Trace_CRL -----------------------------
(* C14 observation validator (U3, function style).  The harness runs
   crl.CheckCRLForCert on large seeded random CRLs (hundreds of entries, duplicates,
   wide and negative serials) with and without a cache and records

     {"entries":[{"s":[octets],"t":time},..],
      "queries":[{"s":[octets],"lin":{"rev":b,"t":time},"cac":{"rev":b,"t":time}},..]}

   TLC evaluates the A layer (CRL.tla) on every query and prints one REJECT line per
   observation the property forbids, together with the result it demands, so that the
   driver can turn the line into a replay file. *)
EXTENDS CRL, TLC, Json, SequencesExt

Obs == ndJsonDeserialize("crl_obs.ndjson")

Norm(r) == IF r.rev THEN [rev |-> TRUE, t |-> r.t] ELSE [rev |-> FALSE, t |-> NoTime]

QueryOK(e, q) ==
  /\ Norm(q.lin) = Lookup(e, q.s)
  /\ Norm(q.cac) \in CachedAllowed(e, q.s)

Want(e, q) == [rev |-> Lookup(e, q.s).rev, t |-> Lookup(e, q.s).t,
               ct |-> SetToSeq({x.t : x \in CachedAllowed(e, q.s)})]

Judge(i, j) ==
  LET e == Obs[i].entries
      q == Obs[i].queries[j] IN
  QueryOK(e, q) \/ PrintT(<<"REJECT", i, j, ToJson(Want(e, q))>>)

ASSUME \A i \in DOMAIN Obs : \A j \in DOMAIN Obs[i].queries : Judge(i, j)
ASSUME PrintT(<<"JUDGED", Len(Obs)>>)

VARIABLE done
Init == done = TRUE
Next == UNCHANGED done
Spec == Init /\ [][Next]_done
=============================================================================
