----------------------------- MODULE TLSKDFVal -----------------------------
(* C26, direction code -> spec (U3 for Role T): the harness draws parameter records at
   random (any output length 0..512, any secret / seed / label / context length, any
   implemented suite); this module maps every record that lies in the domain of the RFC
   definitions through the SAME CaseOf operator as the enumerating generator and writes
   the demanded terms.  Records outside the domain (e.g. a suite the specification's
   table does not know) are counted, not judged.                                      *)
EXTENDS TLSKDF, TLC, Json, SequencesExt

CONSTANTS In, Out

Raw == ndJsonDeserialize(In)
Idx == {i \in 1..Len(Raw) : InDomain(Raw[i])}
IdxSeq == SetToSeq(Idx)
Cases == [k \in 1..Len(IdxSeq) |-> CaseOf(Raw[IdxSeq[k]])]

ASSUME LET cs == Cases IN
  /\ \A i \in 1..Len(cs) : \A j \in 1..Len(cs[i].out) : WellFormed(cs[i].out[j])
  /\ ndJsonSerialize(Out, cs)
  /\ PrintT(<<"CASES", Len(cs), "OUTSIDE", Len(Raw) - Len(cs)>>)
=============================================================================
