----------------------------- MODULE TLSRecordMC -----------------------------
(* C25, U1: the channel of TLSRecord.tla as a state machine with every interleaving of
   sending, closing, network faults on the records in flight, and delivery.

   Checked exhaustively for <= MaxRec records and <= MaxFaults faults:
     TypeOK, RecLenInv   every record carries 1..MaxPlain bytes (0 for the closing alert)
     PrefixInv           what the receiver has delivered is exactly the plaintext of the first
                         (next-1) records of the sender, hence a prefix of what was written
     EndIsFinal          after eof or error nothing is ever delivered again (action property)
     EofMeansAll         eof is reported only when every byte written before Close was delivered
     SeqInv              the 8-octet sequence numbers of the accepted records are strictly increasing
                         (no repetition within an epoch, carries included) and never pass 2^64-1   *)
EXTENDS TLSRecord

CONSTANTS MaxRec, MaxFaults, LenSet, MaxFrag, StartSeqs       \* StartSeqs: sequence numbers the epoch may be at when the model starts

(* the start values used by the configuration: zero, each carry boundary, and the end of the range *)
CarryStarts == { Zero8, <<0, 0, 0, 0, 0, 0, 0, 255>>, <<0, 0, 0, 0, 0, 0, 255, 255>>, <<0, 0, 0, 0, 255, 255, 255, 254>>,
                 <<0, 255, 255, 255, 255, 255, 255, 255>>, <<255, 255, 255, 255, 255, 255, 255, 253>> }

ZeroStart == {Zero8}

VARIABLES writes, closed, net, recv, nf, start
vars == <<writes, closed, net, recv, nf, start>>

Produced == SenderRecords(writes, closed)
FragChoices == UNION {[1..k -> LenSet] : k \in 1..MaxFrag}
FaultSet(n) == {Fault("modify", i, 0) : i \in 1..n} \cup {Fault("drop", i, 0) : i \in 1..n}
               \cup {Fault("dup", i, j) : i \in 1..n, j \in 1..n} \cup {Fault("swap", i, j) : i \in 1..n, j \in 1..n}

Init == writes = <<>> /\ closed = FALSE /\ net = <<>> /\ recv = RecvInit /\ nf = 0 /\ start \in StartSeqs

Write(frags) ==
  /\ ~closed /\ Len(FlatSeq(writes)) + Len(frags) <= MaxRec
  /\ Room(start, Len(FlatSeq(writes)) + Len(frags))           \* sequence numbers do not wrap: no record beyond 2^64-1
  /\ writes' = Append(writes, frags)
  /\ LET base == Len(FlatSeq(writes)) IN
     net' = net \o [i \in 1..Len(frags) |-> Rec(base + i, frags[i], FALSE)]
  /\ UNCHANGED <<closed, recv, nf, start>>
Close ==
  /\ ~closed /\ closed' = TRUE
  /\ Room(start, Len(FlatSeq(writes)) + 1)
  /\ net' = Append(net, Rec(Len(FlatSeq(writes)) + 1, 0, TRUE))
  /\ UNCHANGED <<writes, recv, nf, start>>
NetFault(f) ==
  /\ nf < MaxFaults /\ Applicable(net, f)
  /\ net' = ApplyFault(net, f) /\ nf' = nf + 1
  /\ UNCHANGED <<writes, closed, recv, start>>
Deliver ==
  /\ Len(net) > 0
  /\ recv' = RecvStep(recv, Head(net)) /\ net' = Tail(net)
  /\ UNCHANGED <<writes, closed, nf, start>>

Next == \/ \E frags \in FragChoices : Write(frags)
        \/ Close
        \/ \E f \in FaultSet(Len(net)) : NetFault(f)
        \/ Deliver
Spec == Init /\ [][Next]_vars

TypeOK == /\ FragmentationOK(writes) /\ recv.st \in {"ok", "eof", "error"} /\ nf \in 0..MaxFaults
RecLenInv == \A i \in 1..Len(Produced) : Produced[i].len <= MaxPlain /\ (Produced[i].close \/ Produced[i].len >= 1)
AppRecords == [i \in 1..Len(FlatSeq(writes)) |-> Produced[i]]
PrefixInv ==
  LET k == IF recv.st = "eof" THEN recv.next - 2 ELSE recv.next - 1 IN    \* application records accepted
  /\ k <= Len(AppRecords)
  /\ recv.bytes = SumLens(SubSeq(AppRecords, 1, k))
EofMeansAll == recv.st = "eof" => closed /\ recv.bytes = SumLens(AppRecords)
(* the 8-octet sequence numbers under which records were accepted are strictly increasing, hence
   never repeat within the epoch - also across every carry (the start values sit on the carries) *)
SeqInv == SeqStrictlyIncreasing(start, recv.next - 1) /\ Room(start, Len(Produced))
EndIsFinal == [][recv.st # "ok" => recv' = recv]_vars
=============================================================================
