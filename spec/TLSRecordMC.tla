----------------------------- MODULE TLSRecordMC -----------------------------
(* C25, U1: the channel of TLSRecord.tla as a state machine with every interleaving of
   sending, closing, network faults on the records in flight, and delivery.

   Checked exhaustively for <= MaxRec records and <= MaxFaults faults:
     TypeOK, RecLenInv   every record carries 1..MaxPlain bytes (0 for the closing alert)
     PrefixInv           what the receiver has delivered is exactly the plaintext of the first
                         (next-1) records of the sender, hence a prefix of what was written
     EndIsFinal          after eof or error nothing is ever delivered again (action property)
     EofMeansAll         eof is reported only when every byte written before Close was delivered *)
EXTENDS TLSRecord

CONSTANTS MaxRec, MaxFaults, LenSet, MaxFrag

VARIABLES writes, closed, net, recv, nf
vars == <<writes, closed, net, recv, nf>>

Produced == SenderRecords(writes, closed)
FragChoices == UNION {[1..k -> LenSet] : k \in 1..MaxFrag}
FaultSet(n) == {Fault("modify", i, 0) : i \in 1..n} \cup {Fault("drop", i, 0) : i \in 1..n}
               \cup {Fault("dup", i, j) : i \in 1..n, j \in 1..n} \cup {Fault("swap", i, j) : i \in 1..n, j \in 1..n}

Init == writes = <<>> /\ closed = FALSE /\ net = <<>> /\ recv = RecvInit /\ nf = 0

Write(frags) ==
  /\ ~closed /\ Len(FlatSeq(writes)) + Len(frags) <= MaxRec
  /\ writes' = Append(writes, frags)
  /\ LET base == Len(FlatSeq(writes)) IN
     net' = net \o [i \in 1..Len(frags) |-> Rec(base + i, frags[i], FALSE)]
  /\ UNCHANGED <<closed, recv, nf>>
Close ==
  /\ ~closed /\ closed' = TRUE
  /\ net' = Append(net, Rec(Len(FlatSeq(writes)) + 1, 0, TRUE))
  /\ UNCHANGED <<writes, recv, nf>>
NetFault(f) ==
  /\ nf < MaxFaults /\ Applicable(net, f)
  /\ net' = ApplyFault(net, f) /\ nf' = nf + 1
  /\ UNCHANGED <<writes, closed, recv>>
Deliver ==
  /\ Len(net) > 0
  /\ recv' = RecvStep(recv, Head(net)) /\ net' = Tail(net)
  /\ UNCHANGED <<writes, closed, nf>>

Next == \/ \E frags \in FragChoices : Write(frags)
        \/ Close
        \/ \E f \in FaultSet(Len(net)) : NetFault(f)
        \/ Deliver
Spec == Init /\ [][Next]_vars

TypeOK == /\ FragmentationOK(writes) /\ recv.st \in {"ok", "eof", "error"} /\ nf \in 0..MaxFaults
RecLenInv == \A i \in 1..Len(Produced) : Produced[i].len <= MaxPlain /\ (Produced[i].close \/ Produced[i].len >= 1)
AppRecords == [i \in 1..Len(FlatSeq(writes)) |-> Produced[i]]
PrefixInv ==
  LET k == IF recv.st = "eof" THEN recv.next - 2 ELSE recv.next - 1 IN    \* application records accepted
  /\ k <= Len(AppRecords)
  /\ recv.bytes = SumLens(SubSeq(AppRecords, 1, k))
EofMeansAll == recv.st = "eof" => closed /\ recv.bytes = SumLens(AppRecords)
EndIsFinal == [][recv.st # "ok" => recv' = recv]_vars
=============================================================================
