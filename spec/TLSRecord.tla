------------------------------- MODULE TLSRecord -------------------------------
(* C25 - TLS application data arrives intact or not at all (Role S + F).  A layer.

   1. THE CHANNEL.  After the handshake each direction is an authenticated, sequence-
      numbered channel.  The sender turns every Write(n) into records of 1..MaxPlain
      plaintext bytes (ANY fragmentation: dynamic record sizing, the TLS 1.0 1/n-1 split);
      closing sends one alert record (close_notify).  The network may deliver, modify,
      drop, duplicate and reorder ciphertext records (and re-segment the byte stream at
      will, which the record framing makes invisible).  Record protection is ideal: a
      record the receiver accepts is an unmodified record of the sender and carries the
      sequence number the receiver expects next.  Everything is phrased with pure
      operators (ApplyFault, RecvStep, Receive) shared by the model-checked state machine
      (TLSRecordMC), the schedule generator (TLSRecordGen) and the trace validator
      (Trace_TLSRecord).

   2. CBC PADDING (RFC 2246 6.2.3.2, as coded for TLS - there is no SSL 3.0 path):
      Padding(payload).

   3. RECORD FORMATS (RFC 5246 6.2.3.1-3, RFC 5288, RFC 8446 5.2-5.3) as Terms: what
      halfConn.encrypt must produce for a given key block, sequence number and plaintext.
      Sender-chosen parts (explicit IV / nonce, amount of padding) are variables bound from
      the observed record; the specification lists every admissible choice.             *)
EXTENDS TLSKDF, FiniteSets

MaxPlain == 16384

----------------------------------------------------------------------------
(* 1. the channel *)

(* a record on the wire: seq = its number in the sender's sequence (1, 2, ...),
   len = plaintext bytes it carries (0 for the closing alert), close = it is close_notify,
   auth = nobody has touched it                                                         *)
Rec(seq, len, close) == [seq |-> seq, len |-> len, close |-> close, auth |-> TRUE]

RECURSIVE SumLens(_)
SumLens(rs) == IF Len(rs) = 0 THEN 0 ELSE Head(rs).len + SumLens(Tail(rs))

(* the sender's records for a sequence of writes, each write given as its fragment
   lengths, followed by close_notify if closed                                           *)
RECURSIVE FlatSeq(_)
FlatSeq(ss) == IF Len(ss) = 0 THEN <<>> ELSE Head(ss) \o FlatSeq(Tail(ss))
SenderRecords(writes, closed) ==
  LET lens == FlatSeq(writes)
      recs == [i \in 1..Len(lens) |-> Rec(i, lens[i], FALSE)]
  IN IF closed THEN Append(recs, Rec(Len(lens) + 1, 0, TRUE)) ELSE recs
FragmentationOK(writes) == \A i \in 1..Len(writes) : Len(writes[i]) >= 1 /\ \A j \in 1..Len(writes[i]) : writes[i][j] >= 1 /\ writes[i][j] <= MaxPlain

(* network faults on the sequence w of records in flight *)
Fault(kind, i, j) == [kind |-> kind, i |-> i, j |-> j]
RemoveAt(w, i) == SubSeq(w, 1, i - 1) \o SubSeq(w, i + 1, Len(w))
InsertAfter(w, j, x) == SubSeq(w, 1, j) \o <<x>> \o SubSeq(w, j + 1, Len(w))
Applicable(w, f) ==
  CASE f.kind = "modify" -> f.i \in 1..Len(w)
    [] f.kind = "drop"   -> f.i \in 1..Len(w)
    [] f.kind = "dup"    -> f.i \in 1..Len(w) /\ f.j \in f.i..Len(w)          \* a copy of record i re-inserted after position j
    [] f.kind = "swap"   -> f.i \in 1..Len(w) /\ f.j \in 1..Len(w) /\ f.i < f.j
ApplyFault(w, f) ==
  CASE f.kind = "modify" -> [w EXCEPT ![f.i].auth = FALSE]
    [] f.kind = "drop"   -> RemoveAt(w, f.i)
    [] f.kind = "dup"    -> InsertAfter(w, f.j, w[f.i])
    [] f.kind = "swap"   -> [w EXCEPT ![f.i] = w[f.j], ![f.j] = w[f.i]]
RECURSIVE ApplyFaults(_, _)
ApplyFaults(w, fs) == IF Len(fs) = 0 THEN w ELSE ApplyFaults(ApplyFault(w, Head(fs)), Tail(fs))
RECURSIVE AllApplicable(_, _)
AllApplicable(w, fs) == Len(fs) = 0 \/ (Applicable(w, Head(fs)) /\ AllApplicable(ApplyFault(w, Head(fs)), Tail(fs)))

(* THE SEQUENCE NUMBER.  RFC 5246 6.1 / RFC 8446 5.3: each direction keeps a 64-bit sequence number,
   "initially zero ... incremented by one after each record"; "sequence numbers are of type uint64 and
   may not exceed 2^64-1.  Sequence numbers do not wrap."  It enters the MAC input (RFC 5246 6.2.3.1),
   the AEAD additional data / explicit nonce (6.2.3.3, RFC 5288) and the TLS 1.3 per-record nonce as
   its 8-octet big-endian encoding, so it is modelled as exactly that byte string (TLC integers are
   32-bit): increment with carry, lexicographic order.  Record number i of an epoch that started at
   `start` carries NumOf(start, i); the receiver expects NumOf(start, next).  Because SeqInc is
   strictly increasing and never wraps, the numbers of the accepted records are strictly increasing
   and never repeat within an epoch (SeqStrictlyIncreasing below, checked by TLC on the carry
   boundaries) - which is what makes every replayed, dropped or reordered record unacceptable.   *)
Zero8 == [i \in 1..8 |-> 0]
Max8  == [i \in 1..8 |-> 255]
RECURSIVE SeqIncAt(_, _)
SeqIncAt(s, i) == IF s[i] < 255 THEN [s EXCEPT ![i] = @ + 1] ELSE SeqIncAt([s EXCEPT ![i] = 0], i - 1)
SeqInc(s) == SeqIncAt(s, 8)                      \* defined for s # Max8 only: sequence numbers do not wrap
SeqLess(a, b) == \E k \in 1..8 : a[k] < b[k] /\ \A j \in 1..(k - 1) : a[j] = b[j]
RECURSIVE SeqAdd(_, _)
SeqAdd(s, n) == IF n = 0 THEN s ELSE SeqAdd(SeqInc(s), n - 1)
NumOf(start, i) == SeqAdd(start, i - 1)          \* the number the i-th record of the epoch is protected with
RECURSIVE Room(_, _)
Room(s, k) == IF k <= 1 THEN TRUE ELSE s # Max8 /\ Room(SeqInc(s), k - 1)    \* k records can be numbered from s on
SeqOfNat(n) == [i \in 1..8 |-> CASE i = 8 -> n % 256 [] i = 7 -> (n \div 256) % 256 [] i = 6 -> (n \div 65536) % 256
                                  [] i = 5 -> (n \div 16777216) % 256 [] OTHER -> 0]
SeqStrictlyIncreasing(start, k) == \A i \in 1..k : \A j \in 1..k : i < j => SeqLess(NumOf(start, i), NumOf(start, j))

(* the receiver: next = sequence number expected, bytes = application bytes delivered,
   st = "ok" | "eof" (close_notify accepted) | "error".  It accepts exactly the authentic
   record with the expected number; anything else is an error, after which (and after
   eof) nothing is delivered any more.                                                  *)
RecvInit == [next |-> 1, bytes |-> 0, st |-> "ok"]
RecvStep(r, x) ==
  IF r.st # "ok" THEN r
  ELSE IF x.auth /\ x.seq = r.next
       THEN IF x.close THEN [r EXCEPT !.st = "eof", !.next = @ + 1]
            ELSE [r EXCEPT !.next = @ + 1, !.bytes = @ + x.len]
       ELSE [r EXCEPT !.st = "error"]
RECURSIVE Receive(_, _)
Receive(r, w) == IF Len(w) = 0 THEN r ELSE Receive(RecvStep(r, Head(w)), Tail(w))

(* what the receiving application may observe when the whole (faulted) wire w has arrived
   and the transport is then closed:
     total   the bytes it read are the first `total` bytes the sender wrote, total <= bytes
     ends    the admissible final outcomes of Read                                      *)
Outcome(w) ==
  LET r == Receive(RecvInit, w) IN
  [bytes |-> r.bytes, accepted |-> r.next - 1,
   ends |-> CASE r.st = "eof" -> {"eof"}
              [] r.st = "error" -> {"error"}
              [] r.st = "ok" -> {"eof", "error"}]      \* transport ended without close_notify and without a detected fault

----------------------------------------------------------------------------
(* 2. CBC padding, RFC 2246 6.2.3.2:
      "padding_length ... Each uint8 in the padding data vector must be filled with the
       padding length value."  The last byte p is the padding length; the p bytes before it
       must equal p; p + 1 may not exceed the payload.  zcrypto's extractPadding returns
       (toRemove, good): p + 1 and 255 for valid padding; on invalid padding good = 0 and
       toRemove = 1 (so that the MAC is computed over a deterministic prefix).          *)
Padding(payload) ==
  IF Len(payload) = 0 THEN [toRemove |-> 0, good |-> 0]
  ELSE LET n == Len(payload)
           p == payload[n]
       IN IF p + 1 <= n /\ \A i \in (n - p)..n : payload[i] = p
          THEN [toRemove |-> p + 1, good |-> 255]
          ELSE [toRemove |-> 1, good |-> 0]

----------------------------------------------------------------------------
(* 3. record formats.
   rp = [cls, ver, bc, mach, suite13]
     cls   "stream" (RC4) | "cbc" | "gcm12" | "tls13"
     ver   769..772       bc "aes" | "3des"      mach "sha1" | "sha256"
   keys: Var("key"), Var("mackey"), Var("iv") (CBC initial IV / GCM salt) of the suite's
   sizes; TLS 1.3: Var("secret") of the hash size, key and iv by TrafficKey (TLSKDF).
   A record is described by [typ, len] (content type and plaintext length); its plaintext
   is Var("pt<i>", len).                                                                 *)
WireVersion(ver) == IF ver = 772 THEN 771 ELSE ver
Header(typ, ver, n) == Cat(<<U8(typ), U16(WireVersion(ver)), U16(n)>>)
BlockSize(bc) == IF bc = "3des" THEN 8 ELSE 16
PtName(i) == CASE i = 1 -> "pt1" [] i = 2 -> "pt2" [] i = 3 -> "pt3" [] i = 4 -> "pt4"
VarName(base, i) == CASE base = "eiv" -> (CASE i = 1 -> "eiv1" [] i = 2 -> "eiv2" [] i = 3 -> "eiv3" [] i = 4 -> "eiv4")
                      [] base = "prev" -> (CASE i = 1 -> "prev1" [] i = 2 -> "prev2" [] i = 3 -> "prev3" [] i = 4 -> "prev4")
                      [] base = "explicit" -> (CASE i = 1 -> "explicit1" [] i = 2 -> "explicit2" [] i = 3 -> "explicit3" [] i = 4 -> "explicit4")

(* RFC 5246 6.2.3.1: MAC(MAC_write_key, seq_num + TLSCompressed.type + TLSCompressed.version +
                         TLSCompressed.length + TLSCompressed.fragment)                  *)
RecMAC(rp, seq, typ, pt) ==
  Hmac(rp.mach, Var("mackey", HLen(rp.mach)), Cat(<<seq, U8(typ), U16(rp.ver), U16(TermLen(pt)), pt>>))

(* admissible padding lengths, RFC 5246 6.2.3.2: "may be any length up to 255 bytes, as long
   as it results in the TLSCiphertext.length being an integral multiple of the block length" *)
PadChoices(rp, n) == {p \in 0..255 : (n + HLen(rp.mach) + p + 1) % BlockSize(rp.bc) = 0}

(* One record.  i = position in the sequence (sequence number i - 1), skip = RC4 keystream
   bytes consumed before, opt = the sender's free choice (padding length p, or number of
   TLS 1.3 padding zeros).  keyLen / ivLen from the suite.                                *)
RecordTermS(rp, i, num, typ, n, skip, opt, keyLen, ivLen) ==      \* num = the 8-byte sequence number
  LET seq == Lit(num)
      pt == Var(PtName(i), n)
      key == Var("key", keyLen)
  IN
  CASE rp.cls = "stream" ->
         LET mac == RecMAC(rp, seq, typ, pt) IN
         Cat(<<Header(typ, rp.ver, n + HLen(rp.mach)), Rc4(key, skip, Cat(<<pt, mac>>))>>)
    [] rp.cls = "cbc" ->
         LET bs == BlockSize(rp.bc)
             padded == Cat(<<pt, RecMAC(rp, seq, typ, pt), Rep(opt + 1, opt)>>)
         IN IF rp.ver = 769
            THEN \* RFC 2246 6.2.3.2: "the IV for subsequent records is the last ciphertext block from the previous record"
                 LET iv == IF i = 1 THEN Var("iv", bs) ELSE Var(VarName("prev", i), bs) IN
                 Cat(<<Header(typ, rp.ver, TermLen(padded)), Cbc(rp.bc, key, iv, padded)>>)
            ELSE \* RFC 4346 / 5246 6.2.3.2: explicit per-record IV in front of the ciphertext
                 LET iv == Var(VarName("eiv", i), bs) IN
                 Cat(<<Header(typ, rp.ver, bs + TermLen(padded)), iv, Cbc(rp.bc, key, iv, padded)>>)
    [] rp.cls = "gcm12" ->
         \* RFC 5288 3: nonce = salt (4, client/server_write_IV) + nonce_explicit (8, carried in the record);
         \* RFC 5246 6.2.3.3: additional_data = seq_num + type + version + length
         LET explicit == Var(VarName("explicit", i), 8)
             aad == Cat(<<seq, U8(typ), U16(rp.ver), U16(n)>>)
         IN Cat(<<Header(typ, rp.ver, 8 + n + 16), explicit,
                  Aead("aesgcm", key, Cat(<<Var("iv", 4), explicit>>), aad, pt)>>)
    [] rp.cls = "tls13" ->
         \* RFC 8446 5.2: TLSInnerPlaintext = content + type + zeros; opaque_type = 23, legacy version 0x0303,
         \* additional_data = the record header; 5.3: nonce = write_iv XOR (64-bit sequence number left-padded)
         LET tk == TrafficKey(rp.suite13, Var("secret", HLen(Suite13Of(rp.suite13).h)))
             inner == Cat(<<pt, U8(typ), Rep(opt, 0)>>)
             hdr == Header(23, 772, TermLen(inner) + 16)
             nonce == Xor(tk[2], Cat(<<Rep(4, 0), seq>>))
         IN Cat(<<hdr, Aead("aesgcm", tk[1], nonce, hdr, inner)>>)

RecordTerm(rp, i, typ, n, skip, opt, keyLen, ivLen) ==
  RecordTermS(rp, i, NumOf(Zero8, i), typ, n, skip, opt, keyLen, ivLen)

(* where the harness takes the sender-chosen variables from: bytes [off, off+len) of the
   observed record number rec of the same sequence                                        *)
Bind(name, rec, off, n) == [name |-> name, rec |-> rec, off |-> off, n |-> n]
BindsOf(rp, i) ==
  CASE rp.cls = "cbc" /\ rp.ver = 769 /\ i > 1 -> <<Bind(VarName("prev", i), i - 1, -BlockSize(rp.bc), BlockSize(rp.bc))>>
    [] rp.cls = "cbc" /\ rp.ver > 769 -> <<Bind(VarName("eiv", i), i, 5, BlockSize(rp.bc))>>
    [] rp.cls = "gcm12" -> <<Bind(VarName("explicit", i), i, 5, 8)>>
    [] OTHER -> <<>>
=============================================================================
