------------------------------ MODULE IdealGen ------------------------------
(* C03 case generator (U1 + U2): every algorithm x key type/size x mutation x target, with the
   theorem accept <=> unmutated checked by TLC on every case, and every
   (object kind x key type x requested algorithm) for the self-signed objects. *)
EXTENDS Ideal, Json, SequencesExt

CONSTANT Group     \* "verify" | "verifyquick" | "self"

KTs == IF Group = "verifyquick" THEN {"rsa2048", "p256", "p384", "ed25519", "dsa1024"} ELSE VKeyTypes
Cases == { c \in [kt : KTs, alg : VAlgs, target : Targets, mut : UNION {MutsOf(t) : t \in Targets}] : Applicable(c) }
Out == { [c |-> c, allowed |-> SetToSeq(AllowedAccept(c)), judged |-> Judged(c)] : c \in Cases }

SelfKTs == KeyTypes
SelfCases == { [obj |-> o, kt |-> k, alg |-> a] : o \in ObjKinds, k \in SelfKTs, a \in SigAlgs \cup {"default", "bogus"} }

IsVerify == Group \in {"verify", "verifyquick"}
ASSUME ~IsVerify \/ \A c \in Cases : AcceptIffUnmutated(c)
ASSUME ~IsVerify \/ ndJsonSerialize("ideal_cases.ndjson", SetToSeq(Out))
ASSUME ~IsVerify \/ PrintT(<<"CASES", Cardinality(Out), Cardinality({c \in Cases : Judged(c)})>>)
ASSUME IsVerify \/ ndJsonSerialize("ideal_cases.ndjson", SetToSeq(SelfCases))
ASSUME IsVerify \/ PrintT(<<"CASES", Cardinality(SelfCases), Cardinality({c \in SelfCases : Accepts(c.obj, c.kt, c.alg)})>>)
=============================================================================
