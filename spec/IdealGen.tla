------------------------------ MODULE IdealGen ------------------------------
(* C03 case generator (U1 + U2): every algorithm x key type/size x mutation x target, with the
   theorem accept <=> unmutated checked by TLC on every case, and every
   (object kind x key type x requested algorithm) for the self-signed objects. *)
EXTENDS Ideal, Json, SequencesExt

CONSTANT Group     \* "quick" | "thorough"

KTs == IF Group = "quick" THEN {"rsa2048", "p256", "p384", "ed25519", "dsa1024"} ELSE VKeyTypes
Cases == { c \in [kt : KTs, alg : VAlgs, target : Targets, mut : UNION {MutsOf(t) : t \in Targets}] : Applicable(c) }
Out == { [c |-> c, allowed |-> SetToSeq(AllowedAccept(c)), judged |-> Judged(c)] : c \in Cases }

SelfCases == { [obj |-> o, kt |-> k, alg |-> a] : o \in ObjKinds, k \in KeyTypes, a \in SigAlgs \cup {"default", "bogus"} }

\* the theorem, on every enumerated case
ASSUME \A c \in Cases : AcceptIffUnmutated(c)
ASSUME ndJsonSerialize("ideal_cases.ndjson", SetToSeq(Out))
ASSUME ndJsonSerialize("ideal_self.ndjson", SetToSeq(SelfCases))
ASSUME PrintT(<<"CASES", Cardinality(Out), Cardinality({c \in Cases : Judged(c)}),
                Cardinality(SelfCases), Cardinality({c \in SelfCases : Accepts(c.obj, c.kt, c.alg)})>>)
=============================================================================
