------------------------------ MODULE RSAIdeal ------------------------------
(* C23: the RSA fork (/repo/rsa) computes what Go's standard crypto/rsa computes.

   Role T (term algebra with ideal cryptography).  The RSA permutation, the hash functions
   and the mask generation function are uninterpreted: this module never computes a
   ciphertext.  It specifies the IDEAL FUNCTIONALITY of the four padding schemes as a
   bookkeeping of abstract objects

       ciphertext = [scheme, key, message, (hash, label), mutation]
       signature  = [scheme, key, digest, hash, salt length, mutation]

   and predicts, for every producer / consumer operation, the set of outcomes that any
   correct implementation may show - INDEPENDENTLY of which implementation (Z = zcrypto
   rsa, S = Go's crypto/rsa) produced the object and which one consumes it.  That
   independence is exactly the statement: "zcrypto's encryption, decryption, PKCS#1 v1.5
   and PSS signing and verification produce results that the standard implementation
   accepts and decrypts, and zcrypto's verifiers accept exactly the signatures the
   standard verifier accepts".

   What is transcribed here is only what the implementations own besides arithmetic: the
   size feasibility rules of RFC 8017 (message too long, salt length resolution, EM
   lengths), the binding of (key, hash, label / digest, salt length) by the consumers,
   and totality on malformed public keys.

   Outcomes
     producers:  "ok" | "error"
     decryption: "value" (the original message) | "reject" (error) | "garbage" (some other
                 plaintext: possible with small probability for PKCS#1 v1.5 only)
     session key: "key" (key := message) | "unchanged" | "garbage" | "error"
     verifiers:  "accept" | "reject"
     malformed public keys: "error" | "result" (returned normally); a panic is never allowed *)
EXTENDS Integers, Sequences, FiniteSets, TLC

----------------------------------------------------------------------------
(* Hash table (crypto.Hash sizes and DigestInfo prefix lengths of PKCS#1 v1.5). *)
Hashes == {"md5", "sha1", "sha224", "sha256", "sha384", "sha512", "md5sha1", "raw"}
HLen(h) == CASE h = "md5" -> 16 [] h = "sha1" -> 20 [] h = "sha224" -> 28 [] h = "sha256" -> 32
             [] h = "sha384" -> 48 [] h = "sha512" -> 64 [] h = "md5sha1" -> 36 [] h = "raw" -> 0
PrefixLen(h) == CASE h = "md5" -> 18 [] h = "sha1" -> 15 [] h \in {"sha224", "sha256", "sha384", "sha512"} -> 19
                  [] h \in {"md5sha1", "raw"} -> 0

K(bits)     == (bits + 7) \div 8         \* modulus length in octets
EmLenPSS(bits) == (bits - 1 + 7) \div 8  \* EMSA-PSS encoded message length

----------------------------------------------------------------------------
(* Producers (RFC 8017 7.2.1, 7.1.1, 9.2, 9.1.1). *)
EncPKCS1OK(bits, mlen)      == mlen <= K(bits) - 11
EncOAEPOK(bits, hlen, mlen) == mlen <= K(bits) - 2 * hlen - 2
\* dlen = length of the digest handed in; for a real hash it must be the hash size
SignPKCS1OK(bits, h, dlen)  == (h # "raw" => dlen = HLen(h)) /\ K(bits) >= PrefixLen(h) + dlen + 11
\* salt modes: "auto" (as large as possible), "eqhash", "n" (explicit, must be positive)
SaltLen(bits, hlen, mode, n) == CASE mode = "auto" -> EmLenPSS(bits) - 2 - hlen
                                  [] mode = "eqhash" -> hlen
                                  [] mode = "n" -> n
SignPSSOK(bits, hlen, mode, n) ==
  LET s == SaltLen(bits, hlen, mode, n) IN
  /\ mode = "n" => n > 0
  /\ s >= 0
  /\ EmLenPSS(bits) >= hlen + s + 2

----------------------------------------------------------------------------
(* Abstract objects.  mut \in {"none", "flip", "trunc", "ext0"}: a flipped bit, the last
   octet dropped, a zero octet prepended.  valid = FALSE marks "no object" (failed producer). *)
Muts == {"none", "flip", "trunc", "ext0"}

(* Decryption of a PKCS#1 v1.5 ciphertext.
   clean  = the ciphertext is an unmodified PKCS#1 v1.5 encryption under the decrypting key.
   A modified ciphertext (or one for another key / scheme) decrypts to an unpredictable EM;
   the v1.5 padding check passes with small but non-negligible probability, so both
   "reject" and "garbage" are allowed (and Z and S must then agree, see Agree).
   A ciphertext that only differs by a leading zero octet is the same integer: RFC 8017
   says reject (length /= k), Go's implementations have accepted it: both allowed.       *)
DecPKCS1(scheme, mut, samekey) ==
  IF scheme = "forgedenc" /\ mut = "none" THEN {"reject"}      \* see Forged objects below
  ELSE IF scheme = "pkcs1enc" /\ samekey /\ mut = "none" THEN {"value"}
  ELSE IF scheme = "pkcs1enc" /\ samekey /\ mut = "ext0" THEN {"value", "reject"}
  ELSE {"reject", "garbage"}

(* OAEP binds hash and label; a modified ciphertext fails the lHash / structure check
   except with negligible probability. *)
DecOAEP(bits, scheme, mut, samekey, samehash, samelabel, hlen) ==
  IF K(bits) < 2 * hlen + 2 THEN {"reject"}
  ELSE IF scheme = "oaep" /\ samekey /\ samehash /\ samelabel /\ mut = "none" THEN {"value"}
  ELSE IF scheme = "oaep" /\ samekey /\ samehash /\ samelabel /\ mut = "ext0" THEN {"value", "reject"}
  ELSE {"reject"}

(* DecryptPKCS1v15SessionKey: an error only for impossible sizes (documented: also for a
   ciphertext of the wrong length); otherwise the key buffer is overwritten iff the padding
   is valid and the message has exactly the key's length. *)
DecSessionKey(bits, scheme, mut, samekey, mlen, keylen) ==
  LET lenerr == IF mut \in {"trunc", "ext0"} THEN {"error"} ELSE {} IN   \* "wrong length" may be an error
  IF K(bits) < keylen + 11 THEN {"error"}
  ELSE IF scheme = "forgedenc" /\ mut = "none" THEN {"unchanged"}
  ELSE IF scheme = "pkcs1enc" /\ samekey /\ mut = "none"
       THEN (IF mlen = keylen THEN {"key"} ELSE {"unchanged"})
  ELSE IF scheme = "pkcs1enc" /\ samekey /\ mut = "ext0"
       THEN (IF mlen = keylen THEN {"key", "unchanged"} ELSE {"unchanged"}) \cup lenerr
  ELSE {"unchanged", "garbage"} \cup lenerr

(* Verifiers accept exactly the genuine, unmodified signatures for the same key, hash and
   digest (and, for PSS, a salt length the verifier's option admits). *)
VerPKCS1(scheme, mut, samekey, samehash, samedigest) ==
  IF scheme = "pkcs1sig" /\ mut = "none" /\ samekey /\ samehash /\ samedigest THEN {"accept"} ELSE {"reject"}

SaltAdmitted(vmode, vn, slen, hlen) ==
  CASE vmode = "auto" -> TRUE
    [] vmode = "eqhash" -> slen = hlen
    [] vmode = "n" -> vn = slen
VerPSS(scheme, mut, samekey, samehash, samedigest, vmode, vn, slen, hlen) ==
  IF scheme = "pss" /\ mut = "none" /\ samekey /\ samehash /\ samedigest /\ SaltAdmitted(vmode, vn, slen, hlen)
  THEN {"accept"} ELSE {"reject"}

(* Forged objects: encoded messages that no producer emits, put under the RSA permutation
   by plain modular exponentiation (interpreted with math/big by the harness).
     forgedenc  "ps7"    00 02 | 7 non-zero octets | 00 | M     padding string shorter than 8
                "nozero" 00 02 | non-zero octets to the end     no separator
                "b0"     01 02 | PS | 00 | M                    first octet not zero
                "bt1"    00 01 | FF.. | 00 | M                  block type 1
     forgedsig  (from a genuine EMSA-PKCS1-v1_5 encoding)
                "bt2"    block type 2 instead of 1
                "noff"   one padding octet is not FF
                "trail"  padding shortened to 8 octets, garbage appended after the digest
                "prefix" one octet of the DigestInfo prefix changed
     forgedpss  (from a genuine EMSA-PSS encoding EM = maskedDB || H || BC, RFC 8017 9.1.2)
                "topbit" bit (modBits-1) of the decoded integer set: for modBits = 1 mod 8 this is a
                         non-zero octet in front of EM (the octet the verifier strips: 8.1.2 step 2c
                         "emLen = ceil((modBits-1)/8)" - the integer must convert to emLen octets),
                         otherwise one of the leftmost 8*emLen-emBits bits of maskedDB (step 6)
                "trailer" last octet not BC (step 4)
                "ps"     a non-zero octet in the padding string of DB (step 10)
                "sep"    the 01 separator of DB replaced (step 10)
                "hash"   one octet of H changed (step 14)
     forgedoaep (EME-OAEP encodings built from scratch with MGF1, RFC 8017 7.1.2 step 3g)
                "y"      leading octet Y not zero
                "lhash"  lHash' differs from the label hash
                "nosep"  no 01 separator between PS and M (M starts with FF)
                "ps"     a non-zero octet in PS
                ("genuine" - a correct encoding - checks the constructor: scheme "oaep")
   RFC 8017 7.2.2 step 3 and 8.2.2 step 4 reject all of them deterministically; the schemes
   "forgedenc" / "forgedsig" / "forgedpss" / "forgedoaep" fall into the rejecting branches of
   the operators above (VerPKCS1 / VerPSS accept only "pkcs1sig" / "pss", DecOAEP only "oaep").
   Key classes whose modulus length is not a multiple of 8 (513, 1025, 1027, 1030, 2049 ...)
   exercise K(bits) /= EmLenPSS(bits) and the partial leading octet.                     *)
ForgedEnc == {"ps7", "nozero", "b0", "bt1"}
ForgedSig == {"bt2", "noff", "trail", "prefix"}
ForgedPSS == {"topbit", "trailer", "ps", "sep", "hash"}
ForgedOAEP == {"y", "lhash", "nosep", "ps"}
(* octets of padding string in DB of a PSS encoding / an OAEP encoding *)
PSSPadLen(bits, hlen, slen) == EmLenPSS(bits) - hlen - slen - 2
OAEPPadLen(bits, hlen, mlen) == K(bits) - mlen - 2 * hlen - 2

(* Z and S must show the SAME outcome (including the same garbage bytes) when they consume
   the same object with the same parameters: both are deterministic functions of the same
   integer.  This carries the "exactly" of the statement where the prediction is a set.
   Left open: ciphertexts of the wrong length (ext0 / trunc), where the statement does not
   say that the two implementations must agree on rejecting.                            *)
MustAgree(mut) == mut \in {"none", "flip"}

----------------------------------------------------------------------------
(* Malformed public keys.  The statement: "Operations on malformed public keys (zero,
   negative or missing values) return an error instead of panicking."  For the other
   degenerate keys listed in the design (E = 1, tiny moduli) only "no panic" is demanded. *)
BadKeys == {"Nnil", "N0", "Nneg", "Enil", "E0", "Eneg", "E1", "N6", "N15", "N1"}
Malformed(kind) == IF kind \in {"Nnil", "N0", "Nneg", "Enil", "E0", "Eneg"} THEN {"error"} ELSE {"error", "result"}
PubOps == {"EncPKCS1", "EncOAEP", "VerPKCS1", "VerPSS"}

----------------------------------------------------------------------------
(* Key classes and where the standard library can take part.  crypto/rsa documents that
   the public exponent must fit in 31 bits (and be odd, > 1); zcrypto lifts the upper
   limit.  For classes beyond the limit the runs are Z-only (round-trip laws).          *)
Exps == {"e3", "e65537", "r31", "r40", "rbig"}
SApplicable(exp) == exp \in {"e3", "e65537", "r31"}
=============================================================================
