------------------------------ MODULE WalkGen ------------------------------
(* C11 case generator (U2) and design-level check of the walk models (U1, constant level).

   Cases: for every universe named in GenNames - every subset S of it inserted into the graph,
   every root set R \subseteq S with at most MaxRoots members, every start certificate of the
   universe (in S: start edge taken from the graph; not in S: start edge synthesised).  For the
   line universes (depth-limit boundary) only S = the whole line, R = {its self-signed end}.
   Each case is exported to walk_cases.ndjson as
       [add |-> catalogue indices of S, roots |-> indices of R, start |-> index,
        pred |-> what the A layer says about the result of the walk AS CODED (DfsCoded of
                 WalkDfs.tla): {} or the violated clauses - a prediction, never a verdict;
        old  |-> the same for the walk as coded before the fix d112422 (DfsPreFix)
        old2 |-> the same for the walk as coded before the fix 59a173b (DfsPreFix2)]
   The harness builds the real graph, runs WalkChains / WalkChainsAsync and records
   observations that Trace_Walk.tla judges.

   Design-level obligations checked here on every case:
     CodedOK        the walk as coded (with the current-node test) returns
                    Required <= result <= Permitted without duplicates
     Sandwich       Required \subseteq Permitted
   (the driver summarises the predicted deviations of the coded walk from the exported file).   *)
EXTENDS WalkDfs, Json

CONSTANTS GenNames, LineNames, MaxRoots

SX == INSTANCE SequencesExt
SeqOfSet(S) == SX!SetToSeq(S)

Cat(n) == Catalog[n]
CertsOf(S) == {Cat(n) : n \in S}

\* the (unique, for concretisable universes) graph of S with roots R as walk edge records
IssuerOf(c, CS) == IF Cands(c, CS) = {} THEN NoNode ELSE CHOOSE n \in Cands(c, CS) : TRUE
EdgeRec(c, CS, isroot) ==
  [id |-> c.id, child |-> NodeOf(c), issuer |-> IssuerOf(c, CS), root |-> isroot, ca |-> c.ca,
   pathlen |-> c.pathlen, selfissued |-> c.subj = c.iss]
EdgesOf(S, R) == {EdgeRec(Cat(n), CertsOf(S), n \in R) : n \in S}
StartRec(s, S, R) == EdgeRec(Cat(s), CertsOf(S), s \in R)     \* for s \notin S: synthesised, not a root

SmallRootSets(S) == {R \in SUBSET S : Cardinality(R) <= MaxRoots}

CasesOf(U) ==
  UNION {{[add |-> S, roots |-> R, start |-> s] : R \in SmallRootSets(S), s \in U} : S \in (SUBSET U) \ {{}}}

GenCases == UNION {CasesOf(Universe(u)) : u \in GenNames}
LineCases ==
  UNION {{[add |-> Universe(u), roots |-> {LineOff + 1}, start |-> s] : s \in Universe(u)} : u \in LineNames}

AllCases == GenCases \cup LineCases

OldPred(c) ==
  LET E  == EdgesOf(c.add, c.roots)
      st == StartRec(c.start, c.add, c.roots)
  IN WalkReasons(E, st, SeqOfSet(DfsPreFix(E, st)))

Pred(c) ==
  LET E  == EdgesOf(c.add, c.roots)
      st == StartRec(c.start, c.add, c.roots)
      perm == Permitted(E, st)
      req == Required(E, st)
  IN WalkReasons2(E, st, SeqOfSet(DfsCoded(E, st)), perm, req)
     \cup (IF req \subseteq perm THEN {} ELSE {"required-not-permitted"})

OldPred2(c) ==
  LET E  == EdgesOf(c.add, c.roots)
      st == StartRec(c.start, c.add, c.roots)
  IN WalkReasons(E, st, SeqOfSet(DfsPreFix2(E, st)))

Export(c) == [add |-> SeqOfSet(c.add), roots |-> SeqOfSet(c.roots), start |-> c.start,
              pred |-> SeqOfSet(Pred(c)), old |-> SeqOfSet(OldPred(c)), old2 |-> SeqOfSet(OldPred2(c))]

CaseSeq == SeqOfSet(AllCases)

\* unique-issuer assumption behind IssuerOf (holds for ideal signatures without key aliases)
ASSUME \A c \in AllCases : \A n \in c.add : Cardinality(Cands(Cat(n), CertsOf(c.add))) <= 1
\* (a case on which the coded model leaves the A layer shows up as a non-empty pred; the
\*  driver reports it as a design-level prediction)
ASSUME ndJsonSerialize("graph_catalog.ndjson", Catalog)
ASSUME ndJsonSerialize("walk_cases.ndjson", [i \in 1..Len(CaseSeq) |-> Export(CaseSeq[i])])
ASSUME PrintT(<<"CASES", Len(CaseSeq)>>)
=============================================================================
