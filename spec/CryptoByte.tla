----------------------------- MODULE CryptoByte -----------------------------
(* C21: cryptobyte.Builder / cryptobyte.String as a pair of abstract machines
   over byte sequences (A layer; constants-only module, pure step operators used
   by the generator CryptoByteGen and the validator Trace_CryptoByte).

   Builder: a stack of frames, each a pending length-prefixed child
     (width 1/2/3/4 big-endian prefix, or ASN.1 tag + DER length) with its buffer,
     and a sticky error.  WStep(b, op) is one Builder call.
   String : a stack of remaining byte strings (children opened by the length-
     prefixed / ASN.1 readers are pushed).  RStep(st, op) is one String call and
     gives what the property allows it to return: ok, value, the remaining input.

   What the statement demands and where it is written down here:
     * "reading the same sequence back ... succeeds, returns the written values
       and leaves exactly the unread remainder": Mirror(w) is the matching read
       program of a write program w; InverseOK (checked by TLC on every generated
       program) says that RunR(Build(w), Mirror(w)) succeeds with the written
       values and ends with every string empty.  The real code is compared with
       WStep / RStep call by call.
     * "optional-element readers consume an element only when its tag is present
       and otherwise leave the input untouched and return the default": the
       "ropt*" / "skipopt" / "peek" cases of RStep.
   Encodings of the ASN.1 items are the ones of DER.tla (the Builder methods are
   documented as "appends a DER-encoded ...").                                   *)
EXTENDS DER

----------------------------------------------------------------------------
(* operations: uniform records so that programs are plain sequences *)

\* write op.  op / meaning of the fields:
\*   "u"       w = width 1..4, v = the w octets of the value (big endian)   AddUint8/16/24/32
\*   "bytes"   v = octets                                                   AddBytes
\*   "fill"    w = count, tag = octet                                       AddBytes(count x octet)
\*   "open"    w = prefix width 1..4                                        AddUintNLengthPrefixed
\*   "asn1"    tag = identifier octet                                       AddASN1
\*   "close"                                                                end of the continuation
\*   "int64" "uint64" "bigint" "enum"   s = sign, v = magnitude             AddASN1Int64/Uint64/BigInt/Enum
\*   "int64tag" tag, s, v                                                   AddASN1Int64WithTag
\*   "bool"    s = 1 / 0                                                    AddASN1Boolean
\*   "oid"     v = arcs                                                     AddASN1ObjectIdentifier
\*   "octet"   v                                                            AddASN1OctetString
\*   "bits"    v = whole bytes                                              AddASN1BitString
\*   "gtime"   v = <<Y, M, D, h, m, s, offset seconds>>                     AddASN1GeneralizedTime
\*   "null"                                                                 AddASN1NULL
WOp(op, w, tag, v, s) == [op |-> op, w |-> w, tag |-> tag, v |-> v, s |-> s]

\* read op: op, w (width / count), tag, cls (integer class), v / s (default value)
ROp(op, w, tag, cls, v, s) == [op |-> op, w |-> w, tag |-> tag, cls |-> cls, v |-> v, s |-> s]

IntOps == {"int64", "uint64", "bigint", "enum", "int64tag"}

----------------------------------------------------------------------------
(* Builder *)
Frame(k, w, tag) == [k |-> k, w |-> w, tag |-> tag, buf |-> <<>>]
BInit == [st |-> <<Frame("root", 0, 0)>>, err |-> FALSE]

RECURSIVE BEFixed(_, _)      \* v as exactly w big-endian octets (v < 256^w)
BEFixed(v, w) == IF w = 0 THEN <<>> ELSE BEFixed(v \div 256, w - 1) \o <<v % 256>>
Pow256(w) == CASE w = 1 -> 256 [] w = 2 -> 65536 [] w = 3 -> 16777216

ItemBytes(op) ==
  CASE op.op = "u"     -> op.v
    [] op.op = "bytes" -> op.v
    [] op.op = "fill"  -> [i \in 1..op.w |-> op.tag]
    [] op.op \in {"int64", "uint64", "bigint"} -> TLV(2, IntEnc(op.s, op.v))
    [] op.op = "enum"     -> TLV(10, IntEnc(op.s, op.v))
    [] op.op = "int64tag" -> TLV(op.tag, IntEnc(op.s, op.v))
    [] op.op = "bool"  -> TLV(1, <<IF op.s = 1 THEN 255 ELSE 0>>)
    [] op.op = "oid"   -> TLV(6, OidEnc(op.v))
    [] op.op = "octet" -> TLV(4, op.v)
    [] op.op = "bits"  -> TLV(3, <<0>> \o op.v)
    [] op.op = "gtime" -> TLV(24, GTEnc(op.v))
    [] op.op = "null"  -> <<5, 0>>

AppendTop(b, bytes) == [b EXCEPT !.st[Len(b.st)].buf = @ \o bytes]
Pop(b) == [b EXCEPT !.st = DTake(@, Len(@) - 1)]

WStep(b, op) ==
  IF b.err THEN b                                   \* writes after an error are ignored
  ELSE CASE op.op = "open" -> [b EXCEPT !.st = Append(@, Frame("len", op.w, 0))]
         [] op.op = "asn1" -> [b EXCEPT !.st = Append(@, Frame("asn1", 0, op.tag))]
         [] op.op = "close" ->
              LET f == DLast(b.st) IN
              IF f.k = "len"
              THEN IF f.w < 4 /\ Len(f.buf) >= Pow256(f.w)
                   THEN [b EXCEPT !.err = TRUE]      \* child does not fit its prefix
                   ELSE AppendTop(Pop(b), BEFixed(Len(f.buf), f.w) \o f.buf)
              ELSE AppendTop(Pop(b), TLV(f.tag, f.buf))
         [] OTHER -> AppendTop(b, ItemBytes(op))

RECURSIVE RunW(_, _, _)
RunW(b, w, i) == IF i > Len(w) THEN b ELSE RunW(WStep(b, w[i]), w, i + 1)
Build(w) == RunW(BInit, w, 1)
Depth(b) == Len(b.st) - 1
Out(b) == b.st[1].buf            \* Bytes() when Depth = 0 and no error

----------------------------------------------------------------------------
(* String *)

\* result of a read: ok, value (s, v, p as the op defines), new stack
Res(st, ok, s, v, p) == [st |-> st, ok |-> ok, s |-> s, v |-> v, p |-> p]
Fail(st) == Res(st, FALSE, 0, <<>>, 0)
Top(st) == DLast(st)
SetTop(st, x) == [st EXCEPT ![Len(st)] = x]
Present(x, tag) == x # <<>> /\ x[1] = tag

RStep(st, op) ==
  LET x == Top(st) IN
  CASE op.op \in {"u", "rbytes"} ->
         IF Len(x) < op.w THEN Fail(st)
         ELSE Res(SetTop(st, DDrop(x, op.w)), TRUE, 0, DTake(x, op.w), 0)
    [] op.op = "ropen" ->                        \* ReadUintNLengthPrefixed -> child pushed
         IF Len(x) < op.w \/ (op.w = 4 /\ x[1] >= 128) THEN Fail(st)
         ELSE LET n == BEVal(x, 1, op.w) IN
              IF Len(x) < op.w + n THEN Fail(st)
              ELSE Res(Append(SetTop(st, DDrop(x, op.w + n)), SubSeq(x, op.w + 1, op.w + n)), TRUE, 0, <<>>, 0)
    [] op.op = "rasn1" ->                        \* ReadASN1(&child, tag) -> child pushed
         LET f == Framed(x, op.tag) IN
         IF ~f.ok THEN Fail(st)
         ELSE Res(Append(SetTop(st, DDrop(x, f.n)), f.c), TRUE, 0, <<>>, 0)
    [] op.op = "rclose" ->                       \* child.Empty(), back to the parent
         Res(DTake(st, Len(st) - 1), TRUE, IF x = <<>> THEN 1 ELSE 0, <<>>, 0)
    [] op.op = "rint" ->                         \* ReadASN1Integer / Enum / Int64WithTag
         LET f == Framed(x, op.tag) IN
         IF IntJudgeF(f, op.cls).v # "a" THEN Fail(st)
         ELSE Res(SetTop(st, DDrop(x, f.n)), TRUE, IntSign(f.c), IntMag(f.c), 0)
    [] op.op = "rbool" ->
         LET f == Framed(x, 1) IN
         IF BoolJudgeF(f).v # "a" THEN Fail(st)
         ELSE Res(SetTop(st, DDrop(x, f.n)), TRUE, IF f.c = <<255>> THEN 1 ELSE 0, <<>>, 0)
    [] op.op = "roid" ->
         \* whatever the Builder wrote (canonical, arcs < 2^31) must be read back
         LET f == Framed(x, 6) IN
         IF ~f.ok THEN Fail(st)
         ELSE LET o == OidInfo(f.c) IN
              IF ~o.fits31 THEN Fail(st)
              ELSE Res(SetTop(st, DDrop(x, f.n)), TRUE, 0, o.arcs, 0)
    [] op.op = "roctet" ->                       \* ReadASN1Bytes(OCTET_STRING)
         LET f == Framed(x, 4) IN
         IF ~f.ok THEN Fail(st) ELSE Res(SetTop(st, DDrop(x, f.n)), TRUE, 0, f.c, 0)
    [] op.op = "rbits" ->                        \* ReadASN1BitString: s = bit length
         LET f == Framed(x, 3) IN
         IF BitsJudgeF(f, "BITS").v # "a" THEN Fail(st)
         ELSE Res(SetTop(st, DDrop(x, f.n)), TRUE, BitsLen(f.c), BitsBytes(f.c), 0)
    [] op.op = "rbitsbytes" ->                   \* ReadASN1BitStringAsBytes
         LET f == Framed(x, 3) IN
         IF BitsJudgeF(f, "BYTES").v # "a" THEN Fail(st)
         ELSE Res(SetTop(st, DDrop(x, f.n)), TRUE, 0, BitsBytes(f.c), 0)
    [] op.op = "rgtime" ->
         LET f == Framed(x, 24) IN
         IF ~f.ok THEN Fail(st)
         ELSE LET g == GTInfo(f.c) IN
              IF g.v = "r" THEN Fail(st) ELSE Res(SetTop(st, DDrop(x, f.n)), TRUE, 0, g.t, 0)
    [] op.op = "rnull" ->                        \* ReadASN1(&c, NULL): s = 1 iff c empty
         LET f == Framed(x, 5) IN
         IF ~f.ok THEN Fail(st)
         ELSE Res(SetTop(st, DDrop(x, f.n)), TRUE, IF f.c = <<>> THEN 1 ELSE 0, <<>>, 0)
    [] op.op = "peek" ->                         \* PeekASN1Tag: p = result
         Res(st, TRUE, 0, <<>>, IF Present(x, op.tag) THEN 1 ELSE 0)
    [] op.op \in {"ropt", "skipopt"} ->          \* ReadOptionalASN1 / SkipOptionalASN1
         IF ~Present(x, op.tag) THEN Res(st, TRUE, 0, <<>>, 0)
         ELSE LET f == Framed(x, op.tag) IN
              IF ~f.ok THEN Fail(st)
              ELSE Res(SetTop(st, DDrop(x, f.n)), TRUE, 0, IF op.op = "ropt" THEN f.c ELSE <<>>, 1)
    [] op.op = "roptint" ->                      \* ReadOptionalASN1Integer(out, tag, default)
         IF ~Present(x, op.tag) THEN Res(st, TRUE, op.s, op.v, 0)
         ELSE LET f == Framed(x, op.tag) IN
              IF ~f.ok THEN Fail(st)
              ELSE LET g == Framed(f.c, 2) IN
                   IF IntJudgeF(g, op.cls).v # "a" \/ g.n # Len(f.c) THEN Fail(st)
                   ELSE Res(SetTop(st, DDrop(x, f.n)), TRUE, IntSign(g.c), IntMag(g.c), 1)
    [] op.op = "roptoctet" ->                    \* ReadOptionalASN1OctetString(out, present, tag)
         IF ~Present(x, op.tag) THEN Res(st, TRUE, 0, <<>>, 0)
         ELSE LET f == Framed(x, op.tag) IN
              IF ~f.ok THEN Fail(st)
              ELSE LET g == Framed(f.c, 4) IN
                   IF ~g.ok \/ g.n # Len(f.c) THEN Fail(st)
                   ELSE Res(SetTop(st, DDrop(x, f.n)), TRUE, 0, g.c, 1)
    [] op.op = "roptbool" ->                     \* ReadOptionalASN1Boolean(out, default)
         IF ~Present(x, 1) THEN Res(st, TRUE, op.s, <<>>, 0)
         ELSE LET f == Framed(x, 1) IN
              IF BoolJudgeF(f).v # "a" THEN Fail(st)
              ELSE Res(SetTop(st, DDrop(x, f.n)), TRUE, IF f.c = <<255>> THEN 1 ELSE 0, <<>>, 1)

(* Run a read program; the observations are cut after the first failing read
   (the statement says nothing about the state of a String after a failed read). *)
RECURSIVE RunR(_, _, _)
RunR(st, r, i) ==
  IF i > Len(r) THEN <<>>
  ELSE LET res == RStep(st, r[i])
           obs == [ok |-> res.ok, s |-> res.s, v |-> res.v, p |-> res.p,
                   rest |-> IF res.ok THEN Len(Top(res.st)) ELSE 0,
                   depth |-> IF res.ok THEN Len(res.st) ELSE 0]
       IN IF res.ok THEN <<obs>> \o RunR(res.st, r, i + 1) ELSE <<obs>>

----------------------------------------------------------------------------
(* the matching read program *)
IntCls(op) == CASE op.op = "uint64" -> "U64" [] op.op = "bigint" -> "BIG" [] OTHER -> "S64"
IntTag(op) == CASE op.op = "enum" -> 10 [] op.op = "int64tag" -> op.tag [] OTHER -> 2

MirrorOp(op) ==
  CASE op.op = "u"     -> ROp("u", op.w, 0, "", <<>>, 0)
    [] op.op = "bytes" -> ROp("rbytes", Len(op.v), 0, "", <<>>, 0)
    [] op.op = "fill"  -> ROp("rbytes", op.w, 0, "", <<>>, 0)
    [] op.op = "open"  -> ROp("ropen", op.w, 0, "", <<>>, 0)
    [] op.op = "asn1"  -> ROp("rasn1", 0, op.tag, "", <<>>, 0)
    [] op.op = "close" -> ROp("rclose", 0, 0, "", <<>>, 0)
    [] op.op \in IntOps -> ROp("rint", 0, IntTag(op), IntCls(op), <<>>, 0)
    [] op.op = "bool"  -> ROp("rbool", 0, 0, "", <<>>, 0)
    [] op.op = "oid"   -> ROp("roid", 0, 0, "", <<>>, 0)
    [] op.op = "octet" -> ROp("roctet", 0, 0, "", <<>>, 0)
    [] op.op = "bits"  -> ROp("rbits", 0, 0, "", <<>>, 0)
    [] op.op = "gtime" -> ROp("rgtime", 0, 0, "", <<>>, 0)
    [] op.op = "null"  -> ROp("rnull", 0, 0, "", <<>>, 0)
Mirror(w) == [i \in 1..Len(w) |-> MirrorOp(w[i])]

\* the written value as a read of MirrorOp must return it (s, v)
WrittenS(op) == CASE op.op \in IntOps -> op.s [] op.op = "bool" -> op.s
                  [] op.op = "bits" -> 8 * Len(op.v) [] op.op = "null" -> 1
                  [] op.op = "close" -> 1 [] OTHER -> 0
WrittenV(op) == CASE op.op \in {"u", "bytes", "oid", "octet", "bits", "gtime"} -> op.v
                  [] op.op = "fill" -> [i \in 1..op.w |-> op.tag]
                  [] op.op \in IntOps -> op.v
                  [] OTHER -> <<>>

(* C21, first sentence, on the specification itself: for a complete error-free
   write program the mirror program reads everything back. *)
\* o == RunR(<<Out(Build(w))>>, Mirror(w), 1)
InverseObs(w, o) ==
    /\ Len(o) = Len(w)
    /\ \A i \in 1..Len(o) : o[i].ok /\ o[i].s = WrittenS(w[i]) /\ o[i].v = WrittenV(w[i])
    /\ o = <<>> \/ (DLast(o).rest = 0 /\ DLast(o).depth = 1)
InverseOK(w) ==
  LET b == Build(w) IN
  (~b.err /\ Depth(b) = 0) => InverseObs(w, RunR(<<Out(b)>>, Mirror(w), 1))

----------------------------------------------------------------------------
(* the optional-reader variant of the read program: absent probes before every
   item (so each probe is followed by further data, or by the end of input) and
   the optional reader in place of the plain one where the element is present *)
ProbeTag == 167        \* [7] constructed; the write menus never use this identifier

\* next = the identifier octet that follows, -1 at the end of a string, 0 when the
\* next octet is not an identifier (fixed-width data, a length prefix): no probes
\* there, because such an octet may coincide with a probed tag.
Probes(next) ==
  IF next = 0 THEN <<>>
  ELSE <<ROp("peek", 0, ProbeTag, "", <<>>, 0),
         ROp("roptint", 0, ProbeTag, "S64", <<5>>, 1),
         ROp("roptoctet", 0, ProbeTag, "", <<>>, 0),
         ROp("ropt", 0, ProbeTag, "", <<>>, 0),
         ROp("skipopt", 0, ProbeTag, "", <<>>, 0)>>
       \o (IF next # 1 THEN <<ROp("roptbool", 0, 0, "", <<>>, 1)>> ELSE <<>>)
       \* same tag number in another class / with the other constructed bit: still absent
       \o (IF next > 0 THEN <<ROp("peek", 0, (next + 128) % 256, "", <<>>, 0),
                               ROp("skipopt", 0, (next + 64) % 256, "", <<>>, 0),
                               ROp("ropt", 0, IF (next \div 32) % 2 = 1 THEN next - 32 ELSE next + 32, "", <<>>, 0)>>
           ELSE <<>>)

FirstTag(op) ==
  CASE op.op = "asn1" -> op.tag [] op.op \in IntOps -> IntTag(op) [] op.op = "bool" -> 1
    [] op.op = "oid" -> 6 [] op.op = "octet" -> 4 [] op.op = "bits" -> 3 [] op.op = "gtime" -> 24
    [] op.op = "null" -> 5 [] op.op = "close" -> -1 [] OTHER -> 0

IsCtx(tag) == tag >= 160 /\ tag <= 190        \* context-specific constructed, low tag

\* read ops for w[i..] in optional style
RECURSIVE OptFrom(_, _)
OptFrom(w, i) ==
  IF i > Len(w) THEN Probes(-1)
  ELSE LET op == w[i]
           pr == Probes(FirstTag(op)) IN
    IF /\ op.op = "asn1" /\ IsCtx(op.tag) /\ i + 2 <= Len(w) /\ w[i + 2].op = "close"
       /\ w[i + 1].op \in {"int64", "uint64", "bigint"}
      THEN pr \o <<ROp("roptint", 0, op.tag, IntCls(w[i + 1]), <<>>, 0)>> \o OptFrom(w, i + 3)
    ELSE IF /\ op.op = "asn1" /\ IsCtx(op.tag) /\ i + 2 <= Len(w) /\ w[i + 2].op = "close"
            /\ w[i + 1].op = "octet"
      THEN pr \o <<ROp("roptoctet", 0, op.tag, "", <<>>, 0)>> \o OptFrom(w, i + 3)
    ELSE IF op.op = "bool"
      THEN pr \o <<ROp("roptbool", 0, 0, "", <<>>, 1 - op.s)>> \o OptFrom(w, i + 1)
    ELSE IF op.op = "octet"
      THEN pr \o <<ROp("ropt", 0, 4, "", <<>>, 0)>> \o OptFrom(w, i + 1)
    ELSE IF op.op = "null"
      THEN pr \o <<ROp("skipopt", 0, 5, "", <<>>, 0)>> \o OptFrom(w, i + 1)
    ELSE pr \o <<MirrorOp(op)>> \o OptFrom(w, i + 1)
OptMirror(w) == OptFrom(w, 1)

(* C21, second sentence, on the specification itself: in the optional-style
   program every read succeeds, an absent probe changes nothing, and all input is
   consumed at the end. *)
\* r == OptMirror(w), o == RunR(<<Out(Build(w))>>, r, 1)
OptionalObs(r, o) ==
    /\ Len(o) = Len(r)
    /\ \A i \in 1..Len(o) : o[i].ok
    /\ \A i \in 2..Len(o) :
         ((r[i].op \in {"peek", "skipopt", "ropt"} /\ o[i].p = 0) \/ r[i].tag = ProbeTag)
            => (o[i].p = 0 /\ o[i].rest = o[i - 1].rest /\ o[i].depth = o[i - 1].depth)
    /\ DLast(o).rest = 0 /\ DLast(o).depth = 1
OptionalOK(w) ==
  LET b == Build(w) IN
  (~b.err /\ Depth(b) = 0) => LET r == OptMirror(w) IN OptionalObs(r, RunR(<<Out(b)>>, r, 1))
=============================================================================
