------------------------------- MODULE TLSHello -------------------------------
(* C29 - fingerprinted ClientHellos are sent exactly as configured (Role F).

   A fingerprint configuration cfg (the abstract image of tls.ClientFingerprintConfiguration
   plus the three tls.Config fields that influence the hello) determines the ClientHello:

       HelloOf(cfg)   handshake type 1, uint24 length, the configured version, the random
                      (literal / fresh / timestamp + fresh), session id, cipher suites and
                      compression methods as vectors, then the configured extensions'
                      encodings concatenated in the configured order behind a uint16 length
                      (no extension block at all when the concatenation is empty).

   Each built-in extension type is laid out by the SAME grammar entry that TLSWire.tla's
   ClientHello parser uses for that extension type, so "encodes a well-formed extension that
   the ClientHello parser reads back as the configured values" is checked inside TLC:
       Parse("clientHelloMsg", HelloOf(cfg)) = ExpectCH(cfg)
   for every generated configuration (TLSHelloGen.tla), and by the harness against the real
   clientHelloMsg.unmarshal.

   Symbols inside the demanded bytes (interpreted by the harness):
       -1   a fresh random byte: the next byte the client drew from Config.Rand
       -2   one byte of the 4-byte big-endian Unix time at which the hello was built

   Outcome demanded per configuration (field must):
       "send"    representable and built only from features every zcrypto build implements:
                 the hello MUST go out, byte for byte
       "either"  representable but using an identifier zcrypto may refuse as unimplemented
                 (unknown suite, compression other than null, unsupported curve / point format /
                 signature algorithm): refusing is allowed, sending anything but HelloOf(cfg) is not
       "refuse"  not representable (session id over 255 bytes, extension block over 2^16-1):
                 nothing may be sent                                                    *)
EXTENDS TLSWire

----------------------------------------------------------------------------
(* extension configurations: one uniform record shape
     kind   "null" "sni" "alpn" "reneg" "ems" "status" "sct" "curves" "points" "ticket" "sigalgs"
     a      sequence of byte strings (domain names / protocols / 2-byte identifiers)
     b      byte string (ticket / point formats)
     auto   Autopopulate (sni, ticket)                                                  *)
X(kind, a, b, auto) == [kind |-> kind, a |-> a, b |-> b, auto |-> auto]

TypOf(kind) == CASE kind = "sni" -> 0 [] kind = "alpn" -> 16 [] kind = "reneg" -> 65281 [] kind = "ems" -> 23
                 [] kind = "status" -> 5 [] kind = "sct" -> 18 [] kind = "curves" -> 10 [] kind = "points" -> 11
                 [] kind = "ticket" -> 35 [] kind = "sigalgs" -> 13

(* SNIExtension.Autopopulate: "the extension is filled from Config.ServerName; without a
   server name it is replaced by the null extension" (handshake_extensions.go)            *)
IsNull(e, cfg) == e.kind = "null" \/ (e.kind = "sni" /\ e.auto /\ cfg.serverName = <<>>)

(* the ClientHello fields an extension configuration stands for *)
FieldsOf(e, cfg) ==
  CASE e.kind = "sni"     -> [serverName |-> IF e.auto THEN cfg.serverName ELSE IF Len(e.a) >= 1 THEN e.a[1] ELSE <<>>]
    [] e.kind = "alpn"    -> [alpnProtocols |-> e.a]
    [] e.kind = "reneg"   -> [secureRenegotiationSupported |-> TRUE]
    [] e.kind = "ems"     -> [extendedMasterSecret |-> TRUE]
    [] e.kind = "status"  -> [ocspStapling |-> TRUE]
    [] e.kind = "sct"     -> [scts |-> TRUE]
    [] e.kind = "curves"  -> [supportedCurves |-> e.a]
    [] e.kind = "points"  -> [supportedPoints |-> e.b]
    [] e.kind = "ticket"  -> [ticketSupported |-> TRUE, sessionTicket |-> e.b]
    [] e.kind = "sigalgs" -> [supportedSignatureAlgorithms |-> e.a]

CHEntry(typ) == ClientHelloExts[CHOOSE i \in 1..Len(ClientHelloExts) : ClientHelloExts[i].typ = typ]
CHDefaults == DefSeq(Grammar("clientHelloMsg"))

(* the extension on the wire: type, uint16 length, extension_data by the parser's own grammar *)
ExtData(e, cfg) == LSeq(CHEntry(TypOf(e.kind)).g, FieldsOf(e, cfg) @@ CHDefaults)
ExtBytes(e, cfg) == IF IsNull(e, cfg) THEN <<>> ELSE BE(TypOf(e.kind), 2) \o Vec16(ExtData(e, cfg))

(* contents the extension's own grammar can express (vector bounds of the RFCs);
   a server_name list with more than one host_name is not expressible (RFC 6066 3:
   "MUST NOT contain more than one name of the same name_type")                          *)
RECURSIVE FitsG(_, _)
FitsSeq(gs, v) == \A i \in 1..Len(gs) : FitsG(gs[i], v)
FitsG(g, v) ==
  CASE g.k = "vec" -> Len(v[g.f]) >= g.m /\ Len(v[g.f]) < Pow256(g.n)
    [] g.k = "wrap" -> FitsSeq(g.sub, v) /\ Len(LSeq(g.sub, v)) < Pow256(g.n)
    [] g.k = "manyv" -> Len(v[g.f]) >= g.m /\ \A i \in 1..Len(v[g.f]) : FitsG(g.sub[1], [it |-> v[g.f][i]])
    [] g.k = "u" -> Len(v[g.f]) = g.n
    [] OTHER -> TRUE
ExtWellFormed(e, cfg) ==
  IsNull(e, cfg) \/
  /\ e.kind = "sni" /\ ~e.auto => Len(e.a) = 1
  /\ e.kind = "sni" => LET n == FieldsOf(e, cfg).serverName IN n # <<>> /\ n[Len(n)] # 46
  /\ FitsSeq(CHEntry(TypOf(e.kind)).g, FieldsOf(e, cfg) @@ CHDefaults)
  /\ Len(ExtData(e, cfg)) < 65536

----------------------------------------------------------------------------
(* cfg = [ver, its, random, sid, suites, comp, exts, serverName, force, cache]
     random ClientRandom, a byte string of ANY length;  its  InsertTimestamp
     force  Config.ForceSuites;  cache  Config.ClientSessionCache is set

   The random field, by the documentation of ClientFingerprintConfiguration (handshake_client.go):
     "if len == 32, it will specify the client random.  Otherwise, the field will be random except
      the top 4 bytes if InsertTimestamp is true"
   - a 32-byte ClientRandom is sent verbatim, WHATEVER InsertTimestamp says (the timestamp clause
     sits in the "otherwise" branch);
   - a ClientRandom of any other length (0, 1, 4, 28, 31, 33 ...) is not used at all: 32 fresh
     bytes, or the 4-byte Unix time followed by 28 fresh bytes when InsertTimestamp is set.
   The statement ("client random (or fresh randomness, with a timestamp prefix when requested)")
   says the same; nothing is left open here.                                             *)
RandomOf(cfg) == IF Len(cfg.random) = 32 THEN cfg.random
                 ELSE IF cfg.its THEN [i \in 1..32 |-> IF i <= 4 THEN -2 ELSE -1]
                 ELSE [i \in 1..32 |-> -1]

ExtBlock(cfg) == Flat([i \in 1..Len(cfg.exts) |-> ExtBytes(cfg.exts[i], cfg)])

HelloBody(cfg) ==
  cfg.ver \o RandomOf(cfg) \o Vec8(cfg.sid) \o Vec16(Flat(cfg.suites)) \o Vec8(cfg.comp) \o
  (IF ExtBlock(cfg) = <<>> THEN <<>> ELSE Vec16(ExtBlock(cfg)))
HelloOf(cfg) == <<1>> \o Vec24(HelloBody(cfg))

(* the value the ClientHello parser must read back *)
RECURSIVE MergeExts(_, _, _)
MergeExts(cfg, i, acc) == IF i > Len(cfg.exts) THEN acc
                          ELSE MergeExts(cfg, i + 1, IF IsNull(cfg.exts[i], cfg) THEN acc ELSE FieldsOf(cfg.exts[i], cfg) @@ acc)
ExpectCH(cfg) ==
  MergeExts(cfg, 1, NoV) @@
  [vers |-> cfg.ver, random |-> [i \in 1..32 |-> IF RandomOf(cfg)[i] < 0 THEN 0 ELSE RandomOf(cfg)[i]],
   sessionId |-> cfg.sid, cipherSuites |-> cfg.suites, compressionMethods |-> cfg.comp] @@ CHDefaults
Zeroed(bs) == [i \in 1..Len(bs) |-> IF bs[i] < 0 THEN 0 ELSE bs[i]]

DistinctKinds(cfg) == \A i, j \in 1..Len(cfg.exts) :
   (i # j /\ ~IsNull(cfg.exts[i], cfg) /\ ~IsNull(cfg.exts[j], cfg)) => cfg.exts[i].kind # cfg.exts[j].kind

(* Representable: HelloOf(cfg) is a ClientHello at all *)
Representable(cfg) ==
  /\ Len(cfg.ver) = 2 /\ Len(cfg.sid) < 256 /\ Len(cfg.comp) < 256 /\ 2 * Len(cfg.suites) < 65536
  /\ \A i \in 1..Len(cfg.exts) : ExtWellFormed(cfg.exts[i], cfg)
  /\ Len(ExtBlock(cfg)) < 65536
  /\ Len(HelloBody(cfg)) < 16777216

(* identifiers every zcrypto build implements (tls/cipher_suites.go implementedCipherSuites,
   defaultCurvePreferences, pointFormatUncompressed, supportedSKXSignatureAlgorithms) *)
CoreSuites == {<<192, 47>>, <<0, 47>>, <<192, 43>>, <<0, 156>>, <<192, 20>>}
CoreCurves == {<<0, 29>>, <<0, 23>>, <<0, 24>>, <<0, 25>>}
CoreSigAlgs == {<<4, 1>>, <<4, 3>>, <<5, 1>>, <<5, 3>>, <<6, 1>>, <<2, 1>>}
SeqSet(s) == {s[i] : i \in 1..Len(s)}
Core(cfg) ==
  /\ SeqSet(cfg.suites) \subseteq CoreSuites /\ cfg.suites # <<>>
  /\ cfg.comp = <<0>>
  /\ \A i \in 1..Len(cfg.exts) : LET e == cfg.exts[i] IN
       /\ e.kind = "curves" => SeqSet(e.a) \subseteq CoreCurves
       /\ e.kind = "points" => SeqSet(e.b) \subseteq {0}
       /\ e.kind = "sigalgs" => SeqSet(e.a) \subseteq CoreSigAlgs

Must(cfg) == IF ~Representable(cfg) THEN "refuse" ELSE IF Core(cfg) THEN "send" ELSE "either"

(* The read-back clause applies where the configured hello is a ClientHello the RFC grammar
   admits: no extension type twice (RFC 8446 4.2), at least one cipher suite and one
   compression method (RFC 5246 7.4.1.2).  Outside that, only the bytes are demanded.       *)
ReadBackOK(cfg) == Representable(cfg) /\ DistinctKinds(cfg) /\ Len(cfg.suites) >= 1 /\ Len(cfg.comp) >= 1

CaseOf(cfg) ==
  [cfg |-> cfg, must |-> Must(cfg),
   hello |-> IF Representable(cfg) THEN HelloOf(cfg) ELSE <<>>,
   readback |-> ReadBackOK(cfg),
   expect |-> IF ReadBackOK(cfg) THEN ExpectCH(cfg) ELSE NoV]

(* the specification's own obligation: the parser model reads the layout back *)
ReadsBack(cfg) == ReadBackOK(cfg) =>
  Parse("clientHelloMsg", Zeroed(HelloOf(cfg))) = [ok |-> TRUE, v |-> ExpectCH(cfg)]
=============================================================================
