--------------------------- MODULE JSONEnumJudge ---------------------------
(* C33 observation validator (U3): judges NDJSON observations recorded from the real
   MarshalJSON / UnmarshalJSON code against the A layer of JSONEnum.tla.  One line is
   printed per rejected observation; nothing stops at the first.

   record kinds
     enum   : type, base, st[], dec[], vk[], nm[]   one chunk of consecutive values
     table  : type, names[]                         name table of a name-keyed component
     struct : type, id, pat, rpat, val, st, dec, stable, keys
     doc    : type, id, edit, keys, st, stable                                         *)
EXTENDS JSONEnum, Json

CONSTANTS NeedEnumCoverage   \* TRUE: every value of every enumerated domain must be observed

Obs == ndJsonDeserialize("jsonenum_obs.ndjson")

Say(x) == PrintT(ToJson(x))   \* one line per message: a quoted JSON array

JudgeEnum(i, o) ==
  \A j \in 1..Len(o.st) :
     LET v == o.base + j - 1 IN
     /\ EnumElemOK(o.type, v, o.st[j], o.dec[j]) \/ Say(<<"REJECT", i, "enum", o.type, v, o.st[j], o.dec[j]>>)
     /\ ShapeOK(o.type, v, o.st[j], o.vk[j]) \/ Say(<<"DRIFT", i, "enum-shape", o.type, v>>)

JudgeTable(i, o) == Injective(o.names) \/ Say(<<"DRIFT", i, "table-not-injective", o.type>>)

JudgeStruct(i, o) ==
  /\ o.rpat = o.pat \/ Say(<<"CONCRETISE", i, o.type, o.id>>)
  /\ StructOK(o.type, o.pat, o.val, o.st, o.dec) \/ Say(<<"REJECT", i, "struct", o.type, o.id, o.st>>)
  /\ (o.st = StOK => o.stable = "yes") \/ Say(<<"DRIFT", i, "unstable-reencoding", o.type, o.id>>)

JudgeDoc(i, o) ==
  /\ DocOK(o.st, o.stable) \/ Say(<<"DOCNOTE", i, o.type, o.id, o.st, o.stable>>)
  /\ {o.keys[k] : k \in 1..Len(o.keys)} = DocKeys(o.type) \/ Say(<<"DRIFT", i, "doc-keys", o.type>>)

Judge(i) ==
  LET o == Obs[i] IN
  CASE o.k = "enum"   -> JudgeEnum(i, o)
    [] o.k = "table"  -> JudgeTable(i, o)
    [] o.k = "struct" -> JudgeStruct(i, o)
    [] o.k = "doc"    -> JudgeDoc(i, o)
    [] OTHER -> Say(<<"UNKNOWN-RECORD", i>>)

Covered(t) == UNION {o.base .. (o.base + Len(o.st) - 1) : o \in {Obs[i] : i \in {j \in 1..Len(Obs) : Obs[j].k = "enum" /\ Obs[j].type = t}}}

ASSUME \A i \in 1..Len(Obs) : Judge(i)
ASSUME NeedEnumCoverage => \A t \in EnumTypes : EnumDomain(t) \subseteq Covered(t) \/ Say(<<"UNCOVERED", t>>)
ASSUME Say(<<"JUDGED", Len(Obs)>>)
=============================================================================
