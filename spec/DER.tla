-------------------------------- MODULE DER --------------------------------
(* Shared foundation of C18 C19 C20 C21 C22: the DER subset of X.690 that
   zcrypto's two ASN.1 codecs (encoding/asn1, cryptobyte) implement, as pure
   operators over byte sequences (Seq(0..255)).  Constants-only module: it is
   EXTENDed by the generators (DERGen, CryptoByteGen, ASN1MarshalGen), by the
   observation validators (Trace_DER, ...) and by CryptoByte / ASN1Marshal.

   A layer of C19 ("strict decoding is canonical"):
     for an input s and a decoder class the operators XxxJudge return
       v   "a"  the decoder must accept,
           "r"  the decoder must reject,
           "o"  both are allowed (the value is outside what the codec documents
                as supported; IF it accepts, value and consumed bytes are fixed);
       why  the reason of a demanded rejection (part of a violation signature);
       n    the number of bytes consumed when accepting;
       the decoded value.
     "r" is demanded exactly where the statement demands it: the encoding is not
     the unique encoding Encode(Decode(x)), so no decoded value can re-encode to
     the consumed bytes (non-minimal INTEGER / length / tag / sub-identifier,
     non-zero padding bits, indefinite length, BOOLEAN other than 00/FF, time not
     in the library's own output form), or the element is malformed / truncated,
     or the value cannot be held by the fixed-width target (then no re-encoding of
     the returned value could reproduce the bytes).
     "a" is demanded only for canonical encodings of values inside the documented
     range of the target; this half is the primitive-type instance of C18 / C21
     (whatever Marshal / the Builder writes must be read back).

   TLC integers are 32 bit: every quantity that can exceed 2^31-1 (INTEGER
   contents, lengths of >= 4 octets, base-128 numbers of >= 5 octets) is kept as a
   byte sequence or flagged "big" and never multiplied out.                     *)
EXTENDS Integers, Sequences, FiniteSets, TLC

Byte == 0..255

DTake(s, n) == SubSeq(s, 1, n)
DDrop(s, n) == SubSeq(s, n + 1, Len(s))
DLast(s)    == s[Len(s)]
SetMin(S)   == CHOOSE x \in S : \A y \in S : x <= y

RECURSIVE Strip0(_)
Strip0(b) == IF b # <<>> /\ b[1] = 0 THEN Strip0(Tail(b)) ELSE b

----------------------------------------------------------------------------
(* big-endian and base-128 numbers *)

\* value of the big-endian octets s[p..q]; caller guarantees < 2^31
RECURSIVE BEVal(_, _, _)
BEVal(s, p, q) == IF q < p THEN 0 ELSE (BEVal(s, p, q - 1) * 256) + s[q]

\* minimal big-endian octets of v >= 0 (empty for 0)
RECURSIVE BEEnc(_)
BEEnc(v) == IF v = 0 THEN <<>> ELSE BEEnc(v \div 256) \o <<v % 256>>

\* index of the last octet of the base-128 group starting at p; 0 = unterminated
B128End(s, p) == LET Q == {q \in p..Len(s) : s[q] < 128} IN
                 IF Q = {} THEN 0 ELSE SetMin(Q)

\* the group s[p..q] (no leading 0x80) denotes a number < 2^31
B128Fits(s, p, q) == \/ q - p + 1 <= 4
                     \/ q - p + 1 = 5 /\ s[p] % 128 <= 7
\* ... a number < 2^28 (at most four octets)
B128Fits28(s, p, q) == q - p + 1 <= 4

RECURSIVE B128Val(_, _, _)
B128Val(s, p, q) == IF q < p THEN 0 ELSE (B128Val(s, p, q - 1) * 128) + (s[q] % 128)

\* base-128 digits of v >= 0, most significant first, without continuation bits
RECURSIVE B128Digits(_)
B128Digits(v) == IF v < 128 THEN <<v>> ELSE B128Digits(v \div 128) \o <<v % 128>>
B128Enc(v) == LET d == B128Digits(v) IN
              [i \in 1..Len(d) |-> IF i < Len(d) THEN d[i] + 128 ELSE d[i]]

----------------------------------------------------------------------------
(* identifier and length octets *)

BadId == [ok |-> FALSE, canon |-> FALSE, class |-> 0, cons |-> FALSE, high |-> FALSE,
          big |-> FALSE, tag |-> 0, n |-> 0, why |-> "truncated"]

\* identifier octets at the start of s
Ident(s) ==
  IF Len(s) = 0 THEN BadId
  ELSE LET b == s[1] IN
    IF b % 32 # 31
    THEN [ok |-> TRUE, canon |-> TRUE, class |-> b \div 64, cons |-> (b \div 32) % 2 = 1,
          high |-> FALSE, big |-> FALSE, tag |-> b % 32, n |-> 1, why |-> ""]
    ELSE LET q == B128End(s, 2) IN
      IF q = 0 THEN BadId
      ELSE LET nolead == s[2] # 128
               fits   == B128Fits(s, 2, q)
               v      == IF nolead /\ fits THEN B128Val(s, 2, q) ELSE -1
               canon  == nolead /\ (~fits \/ v >= 31)
           IN [ok |-> TRUE, canon |-> canon, class |-> b \div 64, cons |-> (b \div 32) % 2 = 1,
               high |-> TRUE, big |-> nolead /\ ~fits, tag |-> v, n |-> q,
               why |-> IF canon THEN "" ELSE "tag-nonminimal"]

BadHdr(w) == [ok |-> FALSE, id |-> BadId, lcanon |-> FALSE, lperm |-> FALSE, lbig |-> FALSE,
              len |-> 0, hlen |-> 0, why |-> w]

(* Header of the element at the start of s.
   lcanon: the length octets are the DER (minimal) form;
   lperm : the relaxation encoding/asn1 documents for AllowPermissiveParsing
           (long form used for a length < 128; a leading zero length octet is
           refused in both modes);
   lbig  : the length is >= 2^31 (never satisfiable by the inputs we build). *)
Hdr(s) ==
  LET id == Ident(s) IN
  IF ~id.ok THEN BadHdr("truncated")
  ELSE LET p == id.n + 1 IN
    IF p > Len(s) THEN BadHdr("truncated")
    ELSE IF s[p] < 128
      THEN [ok |-> TRUE, id |-> id, lcanon |-> TRUE, lperm |-> TRUE, lbig |-> FALSE,
            len |-> s[p], hlen |-> p, why |-> id.why]
    ELSE LET k == s[p] - 128 IN
      IF k = 0 THEN BadHdr("len-indefinite")
      ELSE IF p + k > Len(s) THEN BadHdr("truncated")
      ELSE LET f   == s[p + 1]
               nz  == f # 0
               big == k > 4 \/ (k = 4 /\ f >= 128)
               v   == IF nz /\ ~big THEN BEVal(s, p + 1, p + k) ELSE -1
               lc  == nz /\ (big \/ v >= 128)
           IN [ok |-> TRUE, id |-> id, lcanon |-> lc, lperm |-> nz, lbig |-> nz /\ big,
               len |-> v, hlen |-> p + k,
               why |-> IF id.why # "" THEN id.why
                       ELSE IF ~nz THEN "len-leading-zero"
                       ELSE IF ~lc THEN "len-nonminimal" ELSE ""]

Modes == {"strict", "perm"}

(* The element at the start of s under a mode, when `fill` further (virtual)
   content octets follow s: ok iff identifier and length octets are acceptable
   in that mode and the contents are completely present.  The generators use
   fill > 0 for long contents so that they need not be materialised. *)
ElemV(s, fill, mode) ==
  LET pad   == IF fill > 130 THEN 130 ELSE fill        \* header octets may lie in the fill
      h     == Hdr(s \o [x \in 1..pad |-> 0])
      hdrok == h.ok /\ h.id.canon /\ (IF mode = "strict" THEN h.lcanon ELSE h.lperm)
      full  == hdrok /\ ~h.lbig /\ h.len <= Len(s) + fill - h.hlen    \* (no sum: h.len may be 2^31-1)
      stop  == IF full THEN (IF h.hlen + h.len <= Len(s) THEN h.hlen + h.len ELSE Len(s)) ELSE 0
  IN [ok |-> full, h |-> h,
      content |-> IF full THEN SubSeq(s, h.hlen + 1, stop) ELSE <<>>,   \* the materialised part
      total |-> IF full THEN h.hlen + h.len ELSE 0,
      why |-> IF full THEN "" ELSE IF ~h.ok THEN h.why ELSE IF ~hdrok THEN h.why ELSE "truncated"]
Elem(s, mode) == ElemV(s, 0, mode)

\* DER header for class / constructed / tag number / content length (all < 2^31)
EncHdr(class, cons, tag, len) ==
  LET first == class * 64 + (IF cons THEN 32 ELSE 0)
      idoct == IF tag < 31 THEN <<first + tag>> ELSE <<first + 31>> \o B128Enc(tag)
      lenoct == IF len < 128 THEN <<len>> ELSE LET e == BEEnc(len) IN <<128 + Len(e)>> \o e
  IN idoct \o lenoct

\* DER element with a single identifier octet
TLV(tagbyte, content) ==
  <<tagbyte>> \o (IF Len(content) < 128 THEN <<Len(content)>>
                  ELSE LET e == BEEnc(Len(content)) IN <<128 + Len(e)>> \o e) \o content

----------------------------------------------------------------------------
(* INTEGER contents: two's complement, minimal *)

IntCanon(c) == /\ Len(c) >= 1
               /\ Len(c) >= 2 => ~(\/ c[1] = 0 /\ c[2] < 128
                                   \/ c[1] = 255 /\ c[2] >= 128)
IntWhy(c) == IF Len(c) = 0 THEN "int-empty" ELSE IF ~IntCanon(c) THEN "int-nonminimal" ELSE ""

\* big-endian increment / decrement of a magnitude
RECURSIVE AddOne(_)
AddOne(b) == IF b = <<>> THEN <<1>>
             ELSE IF DLast(b) < 255 THEN [b EXCEPT ![Len(b)] = @ + 1]
             ELSE AddOne(DTake(b, Len(b) - 1)) \o <<0>>
RECURSIVE SubOne(_)      \* b denotes a number > 0
SubOne(b) == IF DLast(b) > 0 THEN [b EXCEPT ![Len(b)] = @ - 1]
             ELSE SubOne(DTake(b, Len(b) - 1)) \o <<255>>
Invert(b) == [i \in 1..Len(b) |-> 255 - b[i]]

\* value of (any, also non-minimal) two's-complement contents c, Len(c) >= 1,
\* as sign and magnitude (big-endian, no leading zeros) = big.Int.Sign(), .Bytes()
IntSign(c) == IF c[1] >= 128 THEN -1 ELSE IF Strip0(c) = <<>> THEN 0 ELSE 1
IntMag(c)  == IF c[1] < 128 THEN Strip0(c) ELSE Strip0(AddOne(Invert(c)))

\* the DER contents of sign / magnitude
IntEnc(sign, mag) ==
  IF sign = 0 THEN <<0>>
  ELSE IF sign = 1 THEN (IF mag[1] >= 128 THEN <<0>> \o mag ELSE mag)
  ELSE LET m == Strip0(SubOne(mag))          \* -n-1
           inv == Invert(m)
       IN IF inv = <<>> \/ inv[1] < 128 THEN <<255>> \o inv ELSE inv

\* fixed-width targets
IntClasses == {"S8", "S16", "S32", "S64", "U8", "U16", "U32", "U64", "BIG"}
ClsBytes(cls) == CASE cls \in {"S8", "U8"} -> 1 [] cls \in {"S16", "U16"} -> 2
                   [] cls \in {"S32", "U32"} -> 4 [] cls \in {"S64", "U64"} -> 8
\* canonical contents c denote a value of the class
IntFits(c, cls) ==
  IF cls = "BIG" THEN TRUE
  ELSE IF cls \in {"S8", "S16", "S32", "S64"} THEN Len(c) <= ClsBytes(cls)
  ELSE /\ c[1] < 128
       /\ \/ Len(c) <= ClsBytes(cls)
          \/ Len(c) = ClsBytes(cls) + 1 /\ c[1] = 0

----------------------------------------------------------------------------
(* BOOLEAN *)
BoolCanon(c) == c = <<0>> \/ c = <<255>>
BoolWhy(c) == IF Len(c) # 1 THEN "bool-length" ELSE IF ~BoolCanon(c) THEN "bool-value" ELSE ""

----------------------------------------------------------------------------
(* OBJECT IDENTIFIER *)

RECURSIVE OidSplit(_, _)
OidSplit(c, p) == IF p > Len(c) THEN <<>>
                  ELSE LET q == B128End(c, p) IN
                       IF q = 0 THEN <<[p |-> p, q |-> 0]>>
                       ELSE <<[p |-> p, q |-> q]>> \o OidSplit(c, q + 1)

OidInfo(c) ==
  LET g      == OidSplit(c, 1)
      wf     == Len(c) >= 1 /\ \A i \in 1..Len(g) : g[i].q # 0
      canon  == wf /\ \A i \in 1..Len(g) : c[g[i].p] # 128
      fits31 == canon /\ \A i \in 1..Len(g) : B128Fits(c, g[i].p, g[i].q)
      fits28 == canon /\ \A i \in 1..Len(g) : B128Fits28(c, g[i].p, g[i].q)
      subs   == IF fits31 THEN [i \in 1..Len(g) |-> B128Val(c, g[i].p, g[i].q)] ELSE <<>>
      arcs   == IF fits31
                THEN (IF subs[1] < 80 THEN <<subs[1] \div 40, subs[1] % 40>>
                      ELSE <<2, subs[1] - 80>>) \o Tail(subs)
                ELSE <<>>
  IN [canon |-> canon, fits31 |-> fits31, fits28 |-> fits28, arcs |-> arcs,
      why |-> IF Len(c) = 0 THEN "oid-empty" ELSE IF ~wf THEN "oid-truncated"
              ELSE IF ~canon THEN "oid-leading-80" ELSE ""]

\* arcs: first in 0..2, second < 40 unless first = 2; everything < 2^31 - 80
OidEnc(arcs) ==
  LET RECURSIVE Rest(_)
      Rest(a) == IF a = <<>> THEN <<>> ELSE B128Enc(a[1]) \o Rest(Tail(a))
  IN B128Enc(arcs[1] * 40 + arcs[2]) \o Rest(DDrop(arcs, 2))

OidClasses == {"A31", "A28"}     \* sub-identifiers < 2^31 (encoding/asn1), < 2^28 (cryptobyte)

----------------------------------------------------------------------------
(* BIT STRING *)
BitsCanon(c) == /\ Len(c) >= 1
                /\ c[1] <= 7
                /\ Len(c) = 1 => c[1] = 0
                /\ Len(c) > 1 => DLast(c) % (2 ^ c[1]) = 0
BitsWhy(c) == IF Len(c) = 0 THEN "bits-empty"
              ELSE IF c[1] > 7 THEN "bits-pad-gt7"
              ELSE IF Len(c) = 1 /\ c[1] # 0 THEN "bits-pad-without-data"
              ELSE IF ~BitsCanon(c) THEN "bits-padding-nonzero" ELSE ""
BitsBytes(c) == Tail(c)
BitsLen(c)   == (Len(c) - 1) * 8 - c[1]
BitsEnc(bytes, bitlen) == <<(8 - (bitlen % 8)) % 8>> \o bytes

----------------------------------------------------------------------------
(* GeneralizedTime in the form both libraries write and demand back:
   YYYYMMDDHHMMSS followed by Z or by +hhmm / -hhmm with a non-zero offset
   (Go layout "20060102150405Z0700"). *)
IsDigit(x) == x >= 48 /\ x <= 57
D2(c, i)   == (c[i] - 48) * 10 + (c[i + 1] - 48)
Leap(y)    == y % 4 = 0 /\ (y % 100 # 0 \/ y % 400 = 0)
DaysIn(y, m) == IF m \in {4, 6, 9, 11} THEN 30
                ELSE IF m = 2 THEN (IF Leap(y) THEN 29 ELSE 28) ELSE 31

GTInfo(c) ==
  LET n     == Len(c)
      shape == n \in {15, 19} /\ \A i \in 1..14 : IsDigit(c[i])
      zed   == shape /\ n = 15 /\ c[15] = 90
      off   == shape /\ n = 19 /\ c[15] \in {43, 45} /\ \A i \in 16..19 : IsDigit(c[i])
      Y  == D2(c, 1) * 100 + D2(c, 3)
      Mo == D2(c, 5)
      Dd == D2(c, 7)
      hh == D2(c, 9)
      mi == D2(c, 11)
      ss == D2(c, 13)
      dateok == /\ Mo \in 1..12 /\ Dd >= 1 /\ Dd <= DaysIn(Y, Mo)
                /\ hh <= 23 /\ mi <= 59 /\ ss <= 59
      zh == D2(c, 16)
      zm == D2(c, 18)
      offsec == IF off THEN (IF c[15] = 45 THEN -1 ELSE 1) * (zh * 3600 + zm * 60) ELSE 0
      v == IF ~(zed \/ off) THEN "r"
           ELSE IF ~dateok THEN "r"
           ELSE IF zed THEN "a"
           ELSE IF zm >= 60 \/ offsec = 0 THEN "r"
           ELSE IF zh <= 23 THEN "a" ELSE "o"
  IN [v |-> v,
      why |-> IF v # "r" THEN ""
              ELSE IF ~(zed \/ off) THEN "time-shape"
              ELSE IF ~dateok THEN "time-field-range" ELSE "time-offset-noncanonical",
      t |-> IF v = "r" THEN <<>> ELSE <<Y, Mo, Dd, hh, mi, ss, offsec>>]

Two(v) == <<48 + ((v \div 10) % 10), 48 + (v % 10)>>
GTEnc(t) ==
  LET a == IF t[7] < 0 THEN -t[7] ELSE t[7] IN
  Two(t[1] \div 100) \o Two(t[1] % 100) \o Two(t[2]) \o Two(t[3]) \o Two(t[4]) \o Two(t[5]) \o Two(t[6])
  \o (IF a \div 60 = 0 THEN <<90>>        \* zone of less than a minute: Z (appendTimeCommon: offset/60 == 0)
      ELSE <<IF t[7] < 0 THEN 45 ELSE 43>> \o Two(a \div 3600) \o Two((a % 3600) \div 60))

----------------------------------------------------------------------------
(* UTCTime: YYMMDDhhmm[ss] followed by Z or a non-zero +hhmm / -hhmm.  Not part of
   the C19 statement; specified for C20 (both modes must decode a strictly valid
   UTCTime to the same instant) and as growth of C19:
     year window   YY >= 50 -> 19YY, YY < 50 -> 20YY  (RFC 5280, 4.1.2.5.1; both codecs)
     "a"  the form with seconds (the form both libraries write),
     "o"  the form without seconds: both libraries document that they accept it,
          although it cannot re-encode to itself (nore = TRUE: no re-encoding demanded),
     "r"  everything else.                                                          *)
UTInfo(c) ==
  LET n     == Len(c)
      secs  == n \in {13, 17}                       \* seconds present
      dl    == IF secs THEN 12 ELSE 10              \* number of leading digits
      shape == n \in {11, 13, 15, 17} /\ \A i \in 1..dl : IsDigit(c[i])
      zed   == shape /\ n = dl + 1 /\ c[n] = 90
      off   == shape /\ n = dl + 5 /\ c[dl + 1] \in {43, 45} /\ \A i \in (dl + 2)..n : IsDigit(c[i])
      yy == D2(c, 1)
      Y  == IF yy >= 50 THEN 1900 + yy ELSE 2000 + yy
      Mo == D2(c, 3)
      Dd == D2(c, 5)
      hh == D2(c, 7)
      mi == D2(c, 9)
      ss == IF secs THEN D2(c, 11) ELSE 0
      dateok == /\ Mo \in 1..12 /\ Dd >= 1 /\ Dd <= DaysIn(Y, Mo)
                /\ hh <= 23 /\ mi <= 59 /\ ss <= 59
      zh == D2(c, dl + 2)
      zm == D2(c, dl + 4)
      offsec == IF off THEN (IF c[dl + 1] = 45 THEN -1 ELSE 1) * (zh * 3600 + zm * 60) ELSE 0
      v == IF ~(zed \/ off) THEN "r"
           ELSE IF ~dateok THEN "r"
           ELSE IF off /\ (zm >= 60 \/ offsec = 0) THEN "r"
           ELSE IF off /\ zh > 23 THEN "o"
           ELSE IF secs THEN "a" ELSE "o"
  IN [v |-> v, nore |-> v # "r" /\ ~secs,
      why |-> IF v # "r" THEN ""
              ELSE IF ~(zed \/ off) THEN "time-shape"
              ELSE IF ~dateok THEN "time-field-range" ELSE "time-offset-noncanonical",
      t |-> IF v = "r" THEN <<>> ELSE <<Y, Mo, Dd, hh, mi, ss, offsec>>]
\* the encoding both libraries write (always with seconds); Y in 1950..2049
UTEnc(t) == DDrop(GTEnc(t), 2)
UTRoundTrip(c) == LET u == UTInfo(c) IN (u.v # "r" /\ ~u.nore) => UTEnc(u.t) = c

----------------------------------------------------------------------------
(* Judgements (C19 A layer).  s = complete input (element followed by any
   trailing bytes), tagbyte = the single identifier octet the reader expects. *)

Rej(w)  == [v |-> "r", why |-> w, n |-> 0]

\* element wrapper: the reader expects exactly identifier octet tagbyte
Framed(s, tagbyte) ==
  LET e == Elem(s, "strict") IN
  IF ~e.ok THEN [ok |-> FALSE, why |-> e.why, c |-> <<>>, n |-> 0]
  ELSE IF e.h.id.high \/ s[1] # tagbyte THEN [ok |-> FALSE, why |-> "tag-mismatch", c |-> <<>>, n |-> 0]
  ELSE [ok |-> TRUE, why |-> "", c |-> e.content, n |-> e.total]

\* Judgements take the framed element f == Framed(s, tagbyte) so that a caller
\* judging several classes frames only once.

\* INTEGER (or ENUMERATED / implicitly tagged integer) into a target class
IntJudgeF(f, cls) ==
  IF ~f.ok THEN Rej(f.why)
  ELSE IF ~IntCanon(f.c) THEN Rej(IntWhy(f.c))
  ELSE IF ~IntFits(f.c, cls) THEN Rej("int-out-of-range")
  ELSE [v |-> "a", why |-> "", n |-> f.n]
IntJudge(s, tagbyte, cls) == IntJudgeF(Framed(s, tagbyte), cls)
\* the value (defined when the contents are non-empty)
IntValueF(f) == [sign |-> IntSign(f.c), mag |-> IntMag(f.c)]
IntValue(s, tagbyte) == IntValueF(Framed(s, tagbyte))

BoolJudgeF(f) ==
  IF ~f.ok THEN Rej(f.why)
  ELSE IF ~BoolCanon(f.c) THEN Rej(BoolWhy(f.c))
  ELSE [v |-> "a", why |-> "", n |-> f.n]
BoolJudge(s, tagbyte) == BoolJudgeF(Framed(s, tagbyte))
BoolValue(s, tagbyte) == Framed(s, tagbyte).c = <<255>>

\* o == OidInfo(f.c) (only evaluated when f.ok)
OidJudgeF(f, o, cls) ==
  IF ~f.ok THEN Rej(f.why)
  ELSE IF ~o.canon THEN Rej(o.why)
  ELSE [v |-> IF (cls = "A31" /\ o.fits31) \/ (cls = "A28" /\ o.fits28) THEN "a" ELSE "o",
        why |-> "", n |-> f.n]
OidJudge(s, tagbyte, cls) == LET f == Framed(s, tagbyte) IN OidJudgeF(f, OidInfo(f.c), cls)
OidValue(s, tagbyte) == OidInfo(Framed(s, tagbyte).c).arcs     \* <<>> when some arc >= 2^31

\* cls "BITS": asn1.BitString;  "BYTES": whole bytes only (ReadASN1BitStringAsBytes)
BitsJudgeF(f, cls) ==
  IF ~f.ok THEN Rej(f.why)
  ELSE IF ~BitsCanon(f.c) THEN Rej(BitsWhy(f.c))
  ELSE IF cls = "BYTES" /\ f.c[1] # 0 THEN Rej("bits-not-whole-bytes")
  ELSE [v |-> "a", why |-> "", n |-> f.n]
BitsJudge(s, tagbyte, cls) == BitsJudgeF(Framed(s, tagbyte), cls)

\* g == GTInfo(f.c)
TimeJudgeF(f, g) ==
  IF ~f.ok THEN Rej(f.why)
  ELSE IF g.v = "r" THEN Rej(g.why) ELSE [v |-> g.v, why |-> "", n |-> f.n]
TimeJudge(s, tagbyte) == LET f == Framed(s, tagbyte) IN TimeJudgeF(f, GTInfo(f.c))
TimeValue(s, tagbyte) == GTInfo(Framed(s, tagbyte).c).t

\* u == UTInfo(f.c)
UTimeJudgeF(f, u) ==
  IF ~f.ok THEN Rej(f.why)
  ELSE IF u.v = "r" THEN Rej(u.why) ELSE [v |-> u.v, why |-> "", n |-> f.n]

(* Any element (tag / length header).  cls "ANY31": all classes, tag numbers
   < 2^31 supported (asn1.RawValue);  "LOW": single identifier octet only
   (cryptobyte documents high-tag-number form as unsupported -> rejected). *)
HdrJudgeE(e, cls) ==
  IF ~e.ok THEN Rej(e.why)
  ELSE IF cls = "LOW" /\ e.h.id.high THEN Rej("high-tag-unsupported")
  ELSE [v |-> IF e.h.id.big THEN "o" ELSE "a", why |-> "", n |-> e.total]
HdrJudgeV(s, fill, cls) == HdrJudgeE(ElemV(s, fill, "strict"), cls)
HdrJudge(s, cls) == HdrJudgeV(s, 0, cls)

----------------------------------------------------------------------------
(* Canonicity of the specification itself (checked by TLC wherever a value is
   judged "a" / "o"): re-encoding the decoded value gives the contents back. *)
IntRoundTrip(c)  == IntCanon(c) => IntEnc(IntSign(c), IntMag(c)) = c
OidRoundTrip(c)  == LET o == OidInfo(c) IN o.fits31 => OidEnc(o.arcs) = c
BitsRoundTrip(c) == BitsCanon(c) => BitsEnc(BitsBytes(c), BitsLen(c)) = c
TimeRoundTrip(c) == LET g == GTInfo(c) IN g.v # "r" => GTEnc(g.t) = c
HdrRoundTrip(s)  == LET h == Hdr(s) IN
  (h.ok /\ h.id.canon /\ h.lcanon /\ ~h.id.big /\ ~h.lbig) =>
     EncHdr(h.id.class, h.id.cons, h.id.tag, h.len) = DTake(s, h.hlen)

(* C20 at the design level: whatever the strict grammar accepts the permissive
   grammar accepts with the same contents and extent. *)
PermExtendsV(s, fill) == LET a == ElemV(s, fill, "strict") b == ElemV(s, fill, "perm") IN
  a.ok => (b.ok /\ b.content = a.content /\ b.total = a.total)
PermExtends(s) == PermExtendsV(s, 0)
=============================================================================
