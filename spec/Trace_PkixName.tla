---------------------------- MODULE Trace_PkixName ----------------------------
(* C22 observation validator (U3): seeded random Names (more values, longer and
   stranger strings than the generator's menu) were converted, marshalled, parsed,
   refilled and converted back by the real x509/pkix and encoding/asn1; one record
   per Name with every intermediate result projected to the abstract form:
     n       the Name (15 fields of PkixName.tla)     rdn    Name.ToRDNSequence()
     der     asn1.Marshal(rdn)                         parsed strict Unmarshal(der) (ok, rest)
     filled  fields after FillFromRDNSequence(parsed)  back   ToRDNSequence() of the refilled Name
     reder   asn1.Marshal(back)
   A disallowed record prints <<"REJECT", i, stage>>.                             *)
EXTENDS PkixName, Json

Recs == ndJsonDeserialize("name_obs.ndjson")

VARIABLE i
Init == i = 1
Next == \E j \in {2 * i, 2 * i + 1} : j <= Len(Recs) /\ i' = j
Spec == Init /\ [][Next]_i

Stage(x) ==
  IF x.panic THEN "panic"
  ELSE IF x.rdn # ToRDN(x.n) THEN "tordn"
  ELSE IF x.merr \/ x.der # EncRDN(x.rdn) THEN "marshal"
  ELSE IF x.uerr \/ x.rest # 0 \/ x.parsed # SortedRDN(x.rdn) THEN "parse"
  ELSE IF ~SameFields(x.filled, Fill(x.parsed)) \/ ~SameFields(x.filled, x.n) THEN "fill"
  ELSE IF x.back # Back(x.parsed) THEN "back"
  ELSE IF x.reder # x.der THEN "remarshal"
  ELSE ""

Judge == i <= Len(Recs) => Stage(Recs[i]) = "" \/ PrintT(<<"REJECT", i, Stage(Recs[i])>>)
=============================================================================
