------------------------------ MODULE GraphGen ------------------------------
(* C10 history generator (U2).  Every insertion history over the chosen universes with at most
   MaxOps insertions, of which at most MaxDups re-insert a certificate that is already in the
   graph (as a plain duplicate or as a root / non-root re-insertion; only in universes of at most
   DupCard certificates), each insertion being AddCert or AddRoot.  A history is printed when it cannot be extended: the sequence of
   operation codes
       2 * (catalogue index) + (1 if AddRoot else 0)
   The harness replays each history on a real verifier.Graph and records an observation after
   every insertion; the observations are judged by Trace_Graph.tla (A layer).  Because every
   prefix is observed, only maximal histories are printed.  (The same histories are behaviours
   of the B model GraphImpl.tla, which TLC checks separately to refine the A layer.)

   The catalogue itself is exported to graph_catalog.ndjson (one abstract certificate per line,
   line n = catalogue index n) by the ASSUME below.                                            *)
EXTENDS Graph, Json

CONSTANTS MCNames, ProductK, MaxOps, MaxDups, DupCard, MinNew

VARIABLES u, added, hist, dups
gvars == <<u, added, hist, dups>>

DupsAllowed == IF Cardinality(u) <= DupCard THEN MaxDups ELSE 0
\* nothing is printed for histories that insert fewer than all / MinNew certificates
Need == IF Cardinality(u) < MinNew THEN Cardinality(u) ELSE MinNew

ASSUME ndJsonSerialize("graph_catalog.ndjson", Catalog)

KSubsets(S, k) == {T \in SUBSET S : Cardinality(T) >= 1 /\ Cardinality(T) <= k}

InitG == /\ u \in {Universe(x) : x \in MCNames} \cup (IF ProductK = 0 THEN {} ELSE KSubsets(ProductIdx, ProductK))
         /\ added = {} /\ hist = <<>> /\ dups = 0

NextG == \E n \in u, r \in {0, 1} :
  /\ Len(hist) < MaxOps
  /\ (n \in added) => dups < DupsAllowed
  /\ added' = added \cup {n}
  /\ hist' = Append(hist, 2 * n + r)
  /\ dups' = IF n \in added THEN dups + 1 ELSE dups
  /\ UNCHANGED u

SpecG == InitG /\ [][NextG]_gvars

Maximal == \/ Len(hist) = MaxOps
           \/ (added = u /\ dups = DupsAllowed)

\* printed once per maximal history (hist is part of the state, so each is a distinct state)
Emit == (Maximal /\ Cardinality(added) >= Need) => PrintT(hist)
=============================================================================
