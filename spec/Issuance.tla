------------------------------ MODULE Issuance ------------------------------
(* C04 / C05 / C06 - A layer (constants only, pure operators, single source of truth).

   What x509.CreateCertificate / CreateCertificateRequest / CreateCRL /
   CreateRevocationList must produce, expressed as the abstract record that
   ParseCertificate / ParseCertificateRequest / ParseCRL / ParseRevocationList of the
   result has to report ("Expected"), plus the map  metadata field -> symbolic term over
   the DER sub-encodings ("Meta", C06).

   Conventions (shared with harness/lib/iss):
     * text      : ASCII strings; a string starting with "~" is hex(UTF-8 bytes) (TLC
                   I/O is not UTF-8 clean, so non-ASCII never passes through TLC raw)
     * bytes     : lower-case hex strings ("" = absent)   (serials, key ids, raw values)
     * IP        : sequence of byte values (length 4 or 16) - the 4-vs-16 rule needs them
     * times     : seconds after 2000-01-01T00:00:00Z (fits TLC's 32-bit integers from
                   1932 to 2068) + nanoseconds + zone offset in minutes
     * OIDs      : dotted strings
   An Expected record has the shape
       [outcome   |-> sequence of allowed outcomes ("ok" / "error"),
        unordered |-> names of fields compared as multisets (the statement fixes no order),
        open      |-> names of fields that are logged but not judged,
        allowed   |-> [field |-> sequence of allowed values]]
   and an observation  [outcome |-> .., val |-> [field |-> value]]  conforms iff Judge.   *)
EXTENDS Integers, Sequences, FiniteSets, TLC

-----------------------------------------------------------------------------
(* generic helpers *)

SeqRange(s) == {s[i] : i \in DOMAIN s}
CountIn(x, s) == Cardinality({i \in DOMAIN s : s[i] = x})
SameBag(a, b) == /\ Len(a) = Len(b)
                 /\ \A i \in DOMAIN a : CountIn(a[i], a) = CountIn(a[i], b)
SeqOfSet(S) == CHOOSE s \in [1..Cardinality(S) -> S] : SeqRange(s) = S
Has(s, x) == \E i \in DOMAIN s : s[i] = x
MapSeq(s, Op(_)) == [i \in DOMAIN s |-> Op(s[i])]
SelectSeqBy(s, Test(_)) == SelectSeq(s, Test)

(* Names are compared field by field; a multi-valued attribute is one RDN (a DER SET OF, whose
   element order is the encoder's), so its values are compared as a multiset. *)
NameListFields == {"c", "o", "ou", "l", "st", "street", "postal", "dc", "email",
                   "jl", "jst", "jc", "orgid", "extra"}
NameEq(a, b) == /\ a.cn = b.cn /\ a.sn = b.sn
                /\ \A f \in NameListFields : SameBag(a[f], b[f])
NameCount(x, s) == Cardinality({i \in DOMAIN s : NameEq(s[i], x)})
NameBagEq(a, b) == /\ Len(a) = Len(b)
                   /\ \A i \in DOMAIN a : NameCount(a[i], a) = NameCount(a[i], b)

(* The conformance relation between an Expected record and an observation. *)
ValEq(exp, f, x, y) ==
  IF Has(exp.names, f) THEN NameEq(x, y)
  ELSE IF Has(exp.nameBags, f) THEN NameBagEq(x, y)
  ELSE IF Has(exp.unordered, f) THEN SameBag(x, y)
  ELSE x = y
FieldOK(exp, obs, f) ==
  \/ Has(exp.open, f)
  \/ \E k \in DOMAIN exp.allowed[f] : ValEq(exp, f, exp.allowed[f][k], obs.val[f])
BadFields(exp, obs) ==
  IF ~Has(exp.outcome, obs.outcome) THEN {"outcome"}
  ELSE IF obs.outcome # "ok" THEN {}
  ELSE {f \in DOMAIN exp.allowed : ~FieldOK(exp, obs, f)}
Judge(exp, obs) == BadFields(exp, obs) = {}

One(v) == <<v>>

-----------------------------------------------------------------------------
(* signature algorithms and key types (x509.SignatureAlgorithm names as printed by String()) *)

KeyTypes == {"rsa2048", "rsa3072", "p224", "p256", "p384", "p521", "ed25519"}
Family(kt) == IF kt \in {"rsa1024", "rsa2048", "rsa3072"} THEN "rsa"
              ELSE IF kt = "ed25519" THEN "ed25519"
              ELSE IF kt \in {"dsa1024", "dsa2048"} THEN "dsa" ELSE "ecdsa"

SigAlgs == {"MD2-RSA", "MD5-RSA", "SHA1-RSA", "SHA256-RSA", "SHA384-RSA", "SHA512-RSA",
            "DSA-SHA1", "DSA-SHA256", "ECDSA-SHA1", "ECDSA-SHA256", "ECDSA-SHA384", "ECDSA-SHA512",
            "SHA256-RSAPSS", "SHA384-RSAPSS", "SHA512-RSAPSS", "Ed25519"}
AlgFamily(a) == CASE a \in {"MD2-RSA", "MD5-RSA", "SHA1-RSA", "SHA256-RSA", "SHA384-RSA", "SHA512-RSA",
                            "SHA256-RSAPSS", "SHA384-RSAPSS", "SHA512-RSAPSS"} -> "rsa"
                  [] a \in {"DSA-SHA1", "DSA-SHA256"} -> "dsa"
                  [] a \in {"ECDSA-SHA1", "ECDSA-SHA256", "ECDSA-SHA384", "ECDSA-SHA512"} -> "ecdsa"
                  [] a = "Ed25519" -> "ed25519"
                  [] OTHER -> "unknown"
AlgHash(a) == CASE a = "MD2-RSA" -> "md2"
                [] a = "MD5-RSA" -> "md5"
                [] a \in {"SHA1-RSA", "DSA-SHA1", "ECDSA-SHA1"} -> "sha1"
                [] a \in {"SHA256-RSA", "DSA-SHA256", "ECDSA-SHA256", "SHA256-RSAPSS"} -> "sha256"
                [] a \in {"SHA384-RSA", "ECDSA-SHA384", "SHA384-RSAPSS"} -> "sha384"
                [] a \in {"SHA512-RSA", "ECDSA-SHA512", "SHA512-RSAPSS"} -> "sha512"
                [] OTHER -> "none"
AlgPad(a) == IF a \in {"SHA256-RSAPSS", "SHA384-RSAPSS", "SHA512-RSAPSS"} THEN "pss"
             ELSE IF AlgFamily(a) = "rsa" THEN "pkcs1v15" ELSE "none"
(* the effective (scheme, hash, padding) triple of C03 *)
Eff(a) == <<AlgFamily(a), AlgHash(a), AlgPad(a)>>

(* "If 0 the default algorithm for the signing key will be used." *)
DefaultAlg(kt) == CASE Family(kt) = "rsa" -> "SHA256-RSA"
                    [] kt \in {"p224", "p256"} -> "ECDSA-SHA256"
                    [] kt = "p384" -> "ECDSA-SHA384"
                    [] kt = "p521" -> "ECDSA-SHA512"
                    [] kt = "ed25519" -> "Ed25519"
(* A requested algorithm is inside the documented domain iff it belongs to the signer's key
   family and has a hash the library can compute (MD2 cannot be signed with).  DSA keys are
   no crypto.Signer the creation APIs know, so DSA algorithms are never in the domain. *)
AlgInDomain(kt, a) == \/ a = "default"
                      \/ /\ a \in SigAlgs /\ AlgFamily(a) = Family(kt)
                         /\ Family(kt) \in {"rsa", "ecdsa", "ed25519"} /\ a # "MD2-RSA"
EffAlg(kt, a) == IF a = "default" THEN DefaultAlg(kt) ELSE a
PKAlgName(kt) == CASE Family(kt) = "rsa" -> "RSA" [] Family(kt) = "ecdsa" -> "ECDSA"
                   [] Family(kt) = "ed25519" -> "Ed25519" [] OTHER -> "DSA"

-----------------------------------------------------------------------------
(* names *)

NameFields == {"cn", "sn", "c", "o", "ou", "l", "st", "street", "postal", "dc", "email",
               "jl", "jst", "jc", "orgid", "extra"}
EmptyName == [cn |-> "", sn |-> "", c |-> <<>>, o |-> <<>>, ou |-> <<>>, l |-> <<>>, st |-> <<>>,
              street |-> <<>>, postal |-> <<>>, dc |-> <<>>, email |-> <<>>, jl |-> <<>>,
              jst |-> <<>>, jc |-> <<>>, orgid |-> <<>>, extra |-> <<>>]
(* Every attribute the marshaller knows is reported back in the field it came from; an empty
   CommonName / SerialNumber is "absent".  (Name <-> RDNSequence proper is C22.)  The order of
   multi-valued attributes inside one field is kept by the encoding (one RDN, SET OF in DER
   order): the statement does not fix it, so values are compared as multisets. *)
ExpectedName(n) == n

-----------------------------------------------------------------------------
(* IP addresses: "IPv4 addresses in 16-byte form" are encoded in 4 bytes *)

IsV4In16(ip) == /\ Len(ip) = 16 /\ \A i \in 1..10 : ip[i] = 0
                /\ ip[11] = 255 /\ ip[12] = 255
To4(ip) == IF IsV4In16(ip) THEN SubSeq(ip, 13, 16) ELSE ip
ExpIPs(ips) == [i \in DOMAIN ips |-> To4(ips[i])]

(* IP ranges of name constraints ([ip, mask]): address and mask of equal length (4 or 16), or
   an IPv4 network written with the 16-byte form of its address and a 4-byte mask
   (net.IPNet{IP: net.ParseIP("10.0.0.0"), Mask: net.CIDRMask(8, 32)} - a well-formed net.IPNet).
   The latter denotes the IPv4 network: reported as 4+4 bytes, or (equivalently) as 16+16 with
   the mask extended by ones. *)
NetInDomain(n) == \/ Len(n.ip) = Len(n.mask) /\ Len(n.ip) \in {4, 16}
                  \/ IsV4In16(n.ip) /\ Len(n.mask) = 4
MixedNet(n) == Len(n.ip) = 16 /\ Len(n.mask) = 4
Ones12 == [i \in 1..12 |-> 255]
NetAs4(n) == IF MixedNet(n) THEN [ip |-> To4(n.ip), mask |-> n.mask] ELSE n
NetAs16(n) == IF MixedNet(n) THEN [ip |-> n.ip, mask |-> Ones12 \o n.mask] ELSE n
ExpNets(nets) == IF \E i \in DOMAIN nets : MixedNet(nets[i])
                 THEN <<[i \in DOMAIN nets |-> NetAs4(nets[i])], [i \in DOMAIN nets |-> NetAs16(nets[i])]>>
                 ELSE <<nets>>

-----------------------------------------------------------------------------
(* extensions *)

OidOf(kind) == CASE kind = "ku" -> "2.5.29.15" [] kind = "eku" -> "2.5.29.37"
                 [] kind = "bc" -> "2.5.29.19" [] kind = "skid" -> "2.5.29.14"
                 [] kind = "akid" -> "2.5.29.35" [] kind = "aia" -> "1.3.6.1.5.5.7.1.1"
                 [] kind = "san" -> "2.5.29.17" [] kind = "policies" -> "2.5.29.32"
                 [] kind = "nc" -> "2.5.29.30" [] kind = "crldp" -> "2.5.29.31"
GenKinds == <<"ku", "eku", "bc", "skid", "akid", "aia", "san", "policies", "nc", "crldp">>

(* an extra extension: kind "raw" = (oid, crit, hex) verbatim; the other kinds describe a
   well-formed value of one of the extensions the library generates itself *)
ExtraRec(kind, crit, oid, hex, n, b, strs) ==
  [kind |-> kind, crit |-> crit, oid |-> oid, hex |-> hex, n |-> n, b |-> b, strs |-> strs]
HasExtra(t, kind) == \E i \in DOMAIN t.extras : t.extras[i].kind = kind
TheExtra(t, kind) == t.extras[CHOOSE i \in DOMAIN t.extras : t.extras[i].kind = kind]
ExtraOid(e) == IF e.kind = "raw" THEN e.oid ELSE OidOf(e.kind)

NCNonEmpty(t) == \/ t.pDNS # <<>> \/ t.xDNS # <<>> \/ t.pEmail # <<>> \/ t.xEmail # <<>>
                 \/ t.pIP # <<>> \/ t.xIP # <<>> \/ t.pDir # <<>> \/ t.xDir # <<>>
(* a generated extension is present iff its template fields are non-empty and no extra
   extension with the same OID was supplied ("Values override any extensions that would
   otherwise be produced based on the other fields") *)
FieldsSet(t, kind, akidSet) ==
  CASE kind = "ku" -> t.ku # 0
    [] kind = "eku" -> t.ekus # <<>> \/ t.uekus # <<>>
    [] kind = "bc" -> t.bc
    [] kind = "skid" -> t.skid # ""
    [] kind = "akid" -> akidSet
    [] kind = "aia" -> t.ocsp # <<>> \/ t.iurl # <<>>
    [] kind = "san" -> t.dns # <<>> \/ t.emails # <<>> \/ t.ips # <<>>
    [] kind = "policies" -> t.policies # <<>>
    [] kind = "nc" -> NCNonEmpty(t)
    [] kind = "crldp" -> t.crldp # <<>>
GenOids(t, akidSet) ==
  LET present(kind) == FieldsSet(t, kind, akidSet) /\ ~HasExtra(t, kind)
      ks == SelectSeq(GenKinds, present)
  IN  [i \in DOMAIN ks |-> OidOf(ks[i])]
ExtOids(t, akidSet) == GenOids(t, akidSet) \o [i \in DOMAIN t.extras |-> ExtraOid(t.extras[i])]
RawExtras(t) == LET raw(e) == e.kind = "raw"
                    rs == SelectSeq(t.extras, raw)
                IN  [i \in DOMAIN rs |-> [oid |-> rs[i].oid, crit |-> rs[i].crit, hex |-> rs[i].hex]]

-----------------------------------------------------------------------------
(* basic constraints and the MaxPathLen / MaxPathLenZero rule.
   Template: "an unset pathLenConstraint can be requested with either MaxPathLen == -1 or
   using the zero value for both MaxPathLen and MaxPathLenZero".
   Parsed:   "a positive non-zero MaxPathLen means that the field was specified, -1 means it
   was unset, and MaxPathLenZero being true mean that the field was explicitly set to zero.
   The case of MaxPathLen==0 with MaxPathLenZero==false should be treated equivalent to -1". *)
PathRec(m, z) == [mpl |-> m, z |-> z]
PathUnset == <<PathRec(-1, FALSE), PathRec(0, FALSE)>>
PathOf(m, z) == IF m > 0 THEN One(PathRec(m, FALSE))
                ELSE IF m = 0 /\ z THEN One(PathRec(0, TRUE))
                ELSE PathUnset
TemplatePathInDomain(t) == t.mpl >= -1

-----------------------------------------------------------------------------
(* the parent *)

SelfP(t) == t.parent.kind = "self"
EffSubject(t) == IF t.rawSubject # <<>> THEN t.rawSubject[1] ELSE t.subject
EffSubjKey(t) == IF SelfP(t) THEN t.signerKey ELSE t.subjKey

CertSign == 32       \* x509.KeyUsageCertSign
HasBit(n, bit) == (n \div bit) % 2 = 1

-----------------------------------------------------------------------------
(* C04: the parsed-field record of CreateCertificate(template, parent, pub, priv) *)

CertInDomain(t) == /\ AlgInDomain(t.signerKey, t.sigAlg)
                   /\ TemplatePathInDomain(t)
                   /\ \A i \in DOMAIN t.ips : Len(t.ips[i]) \in {4, 16}
                   /\ \A i \in DOMAIN t.pIP : NetInDomain(t.pIP[i])
                   /\ \A i \in DOMAIN t.xIP : NetInDomain(t.xIP[i])

Expected(t) ==
  LET ku     == IF HasExtra(t, "ku") THEN TheExtra(t, "ku").n ELSE t.ku
      bcx    == HasExtra(t, "bc")
      bcv    == IF bcx THEN TRUE ELSE t.bc
      ca     == IF bcx THEN TheExtra(t, "bc").b ELSE (t.bc /\ t.ca)
      path   == IF bcx THEN PathOf(TheExtra(t, "bc").n, TheExtra(t, "bc").n = 0)
                ELSE IF t.bc THEN PathOf(t.mpl, t.mplz)
                ELSE PathUnset            \* no extension: the parser's zero values
      skid   == IF HasExtra(t, "skid") THEN TheExtra(t, "skid").hex ELSE t.skid
      \* "The AuthorityKeyId will be taken from the SubjectKeyId of parent, if any, unless the
      \* resulting certificate is self-signed. Otherwise the value from template will be used."
      \* The property statement says "the template's ... key identifiers": both readings are
      \* allowed (left open, see design note).
      akids  == IF HasExtra(t, "akid") THEN {TheExtra(t, "akid").hex}
                ELSE {t.akid} \cup (IF ~SelfP(t) /\ t.parent.skid # "" THEN {t.parent.skid} ELSE {})
      akidSeq == SeqOfSet(akids)
      ekux   == HasExtra(t, "eku")
      sanx   == HasExtra(t, "san")
      aiax   == HasExtra(t, "aia")
      ncx    == HasExtra(t, "nc")
      indom  == CertInDomain(t)
      subj   == ExpectedName(EffSubject(t))
      iss    == IF SelfP(t) THEN subj ELSE ExpectedName(t.parent.subject)
      \* may the parent sign certificates?  (CheckSignatureFrom enforces RFC 5280 4.2.1.9 and the
      \* keyCertSign bit on top of the signature proper; where it may refuse, both are allowed.)
      canSign == IF SelfP(t) THEN bcv /\ ca /\ (ku = 0 \/ HasBit(ku, CertSign)) ELSE t.parent.canSign
      extOidVariants == { ExtOids(t, a # "") : a \in akids }
  IN
  [ outcome   |-> IF indom THEN <<"ok">> ELSE <<"ok", "error">>,
    unordered |-> <<"ekus", "uekus", "ocsp", "iurl", "dns", "emails", "ips", "policies", "crldp",
                    "pDNS", "xDNS", "pEmail", "xEmail", "pIP", "xIP",
                    "extOids", "rawExts">>,
    names     |-> <<"subject", "issuer">>,
    nameBags  |-> <<"pDir", "xDir">>,
    open      |-> IF indom THEN <<>> ELSE <<"sigAlg">>,
    allowed   |->
     [ serial    |-> One(t.serial),
       version   |-> One(3),
       subject   |-> One(subj),
       issuer    |-> One(iss),
       rawSubjVerbatim |-> IF t.rawSubject # <<>> THEN One(TRUE) ELSE <<TRUE, FALSE>>,
       nb        |-> One(t.nb.sec),           \* validity "to the second", as an instant
       na        |-> One(t.na.sec),
       ku        |-> One(ku),
       ekus      |-> One(IF ekux THEN TheExtra(t, "eku").strs ELSE t.ekus),
       uekus     |-> One(IF ekux THEN <<>> ELSE t.uekus),
       bcValid   |-> One(bcv),
       isCA      |-> One(ca),
       path      |-> path,
       skid      |-> One(skid),
       akid      |-> akidSeq,
       ocsp      |-> One(IF aiax THEN TheExtra(t, "aia").strs ELSE t.ocsp),
       iurl      |-> One(IF aiax THEN <<>> ELSE t.iurl),
       dns       |-> One(IF sanx THEN TheExtra(t, "san").strs ELSE t.dns),
       emails    |-> One(IF sanx THEN <<>> ELSE t.emails),
       ips       |-> One(IF sanx THEN <<>> ELSE ExpIPs(t.ips)),
       policies  |-> One(IF HasExtra(t, "policies") THEN TheExtra(t, "policies").strs ELSE t.policies),
       crldp     |-> One(IF HasExtra(t, "crldp") THEN TheExtra(t, "crldp").strs ELSE t.crldp),
       ncCrit    |-> One(IF ncx THEN TheExtra(t, "nc").crit ELSE (NCNonEmpty(t) /\ t.ncCrit)),
       pDNS      |-> One(IF ncx THEN TheExtra(t, "nc").strs ELSE t.pDNS),
       xDNS      |-> One(IF ncx THEN <<>> ELSE t.xDNS),
       pEmail    |-> One(IF ncx THEN <<>> ELSE t.pEmail),
       xEmail    |-> One(IF ncx THEN <<>> ELSE t.xEmail),
       pIP       |-> IF ncx THEN One(<<>>) ELSE ExpNets(t.pIP),
       xIP       |-> IF ncx THEN One(<<>>) ELSE ExpNets(t.xIP),
       pDir      |-> One(IF ncx THEN <<>> ELSE MapSeq(t.pDir, ExpectedName)),
       xDir      |-> One(IF ncx THEN <<>> ELSE MapSeq(t.xDir, ExpectedName)),
       extOids   |-> SeqOfSet(extOidVariants),
       rawExts   |-> One(RawExtras(t)),
       sigAlg    |-> One(EffAlg(t.signerKey, t.sigAlg)),
       pkAlg     |-> One(PKAlgName(EffSubjKey(t))),
       pkMatch   |-> One(TRUE),
       \* "The parsed certificate's signature verifies against the parent certificate."
       sigRaw    |-> One("ok"),
       sigFrom   |-> IF t.parent.form = "bare" THEN One("n/a")
                     ELSE IF canSign THEN One("ok") ELSE <<"ok", "constraint">>,
       selfSigned |-> One(SelfP(t)) ] ]

-----------------------------------------------------------------------------
(* C05: certificate requests *)

CSRInDomain(t) == /\ AlgInDomain(t.key, t.sigAlg)
                  /\ \A i \in DOMAIN t.ips : Len(t.ips[i]) \in {4, 16}

(* template: [subject, rawSubject, dns, emails, ips, extras (kinds "raw" and "san"), key, sigAlg] *)
ExpectedCSR(t) ==
  LET sanx  == HasExtra(t, "san")
      indom == CSRInDomain(t)
      sanGen == (t.dns # <<>> \/ t.emails # <<>> \/ t.ips # <<>>) /\ ~sanx
      oids  == (IF sanGen THEN <<OidOf("san")>> ELSE <<>>)
                 \o [i \in DOMAIN t.extras |-> ExtraOid(t.extras[i])]
      \* "There is no place for the critical flag in a CSR."
      raws  == LET r == RawExtras(t) IN [i \in DOMAIN r |-> [oid |-> r[i].oid, crit |-> FALSE, hex |-> r[i].hex]]
  IN
  [ outcome   |-> IF indom THEN <<"ok">> ELSE <<"ok", "error">>,
    unordered |-> <<"dns", "emails", "ips", "extOids", "rawExts">>,
    names     |-> <<"subject">>,
    nameBags  |-> <<>>,
    open      |-> IF indom THEN <<>> ELSE <<"sigAlg">>,
    allowed   |->
     [ version |-> One(0),
       subject |-> One(ExpectedName(EffSubject(t))),
       rawSubjVerbatim |-> IF t.rawSubject # <<>> THEN One(TRUE) ELSE <<TRUE, FALSE>>,
       dns     |-> One(IF sanx THEN TheExtra(t, "san").strs ELSE t.dns),
       emails  |-> One(IF sanx THEN <<>> ELSE t.emails),
       ips     |-> One(IF sanx THEN <<>> ELSE ExpIPs(t.ips)),
       extOids |-> One(oids),
       rawExts |-> One(raws),
       sigAlg  |-> One(EffAlg(t.key, t.sigAlg)),
       pkAlg   |-> One(PKAlgName(t.key)),
       pkMatch |-> One(TRUE),
       \* "Each created object verifies with the corresponding verification API"
       sigOK   |-> One("ok") ] ]

-----------------------------------------------------------------------------
(* C05: revocation entries, legacy CRLs (Certificate.CreateCRL) and v2 revocation lists *)

ReasonOid == "2.5.29.21"
CRLNumberOid == "2.5.29.20"

(* Revocation-list entry template: [serial, time, reason (-1 = nil pointer), extras: raw
   extensions of which one may carry ReasonOid ("user-supplied reason extension")].
   "When creating a CRL, a value of nil or zero will result in the reasonCode extension being
   omitted"; a non-zero code is synthesised; a user-supplied reason extension is dropped
   ("we'll synthesize that ourselves to ensure it is correct").  Parsed: -1 = no extension. *)
ExpReason(e) == IF e.reason > 0 THEN e.reason ELSE -1
NotReason(x) == x.oid # ReasonOid
PlainExt(x) == [oid |-> x.oid, crit |-> x.crit, hex |-> x.hex]
ExpRLEntry(e) == [serial |-> e.serial, time |-> e.time.sec, reason |-> ExpReason(e),
                  nReason |-> IF e.reason > 0 THEN 1 ELSE 0,    \* number of reasonCode extensions
                  exts |-> MapSeq(SelectSeq(e.extras, NotReason), PlainExt)]

(* revocation list template: [entries, number (hex of the big integer, "" = nil), thisUpdate,
   nextUpdate, extras (raw), sigAlg, issuer: [subject, skid, key, crlSign, canSign]] *)
RLInDomain(t) == /\ AlgInDomain(t.issuer.key, t.sigAlg)
                 /\ t.number # ""
                 /\ t.numberOctets <= 20
                 /\ t.issuer.crlSign
                 /\ t.issuer.skid # ""
                 /\ t.nextUpdate.sec > t.thisUpdate.sec     \* "NextUpdate must be greater than ThisUpdate"

ExpectedRL(t) ==
  LET indom == RLInDomain(t)
      ents  == [i \in DOMAIN t.entries |-> ExpRLEntry(t.entries[i])]
  IN
  \* outside the documented preconditions nothing is claimed about the content: the call may
  \* fail, or produce a list - which must still verify (C03: objects the library signs itself)
  [ outcome   |-> IF indom THEN <<"ok">> ELSE <<"ok", "error">>,
    unordered |-> <<"entries", "extOids", "rawExts">>,
    names     |-> <<"issuer">>,
    nameBags  |-> <<>>,
    open      |-> IF indom THEN <<>>
                  ELSE <<"issuer", "issuerIsSignerSubject", "thisUpdate", "nextUpdate", "number", "entries", "akid", "extOids", "rawExts", "sigAlg">>,
    allowed   |->
     [ \* the list names its SIGNER: the subject of the signing certificate, whoever issued that
       \* certificate (t.issuer.by: self-signed root, intermediate, cross-signed CA)
       issuer     |-> One(ExpectedName(t.issuer.subject)),
       issuerIsSignerSubject |-> One(TRUE),      \* byte for byte ("Correctly use the issuer's subject sequence")
       thisUpdate |-> One(t.thisUpdate.sec),
       nextUpdate |-> One(t.nextUpdate.sec),
       number     |-> One(t.number),
       entries    |-> One(ents),
       \* "entry order": the statement lists the revoked serials, not their order - the order
       \* actually observed is logged in field entriesInOrder and left open
       \* AuthorityKeyId: "populated from the authorityKeyIdentifier extension" - the key id
       \* proper or the raw extension value both satisfy that sentence (left open)
       akid       |-> <<t.issuer.skid, "wrapped:" \o t.issuer.skid>>,
       extOids    |-> One(<<OidOf("akid"), CRLNumberOid>> \o [i \in DOMAIN t.extras |-> ExtraOid(t.extras[i])]),
       rawExts    |-> One(RawExtras(t)),
       sigAlg     |-> One(EffAlg(t.issuer.key, t.sigAlg)),
       sigOK      |-> IF t.issuer.canSign THEN One("ok") ELSE <<"ok", "constraint">> ] ]

(* legacy CRL template: [entries: [serial, time, extras (raw, kept verbatim)], now, expiry,
   issuer: [subject, skid, key]]; always the signing key's default algorithm *)
ExpCRLEntry(e) == [serial |-> e.serial, time |-> e.time.sec,
                   exts |-> [i \in DOMAIN e.extras |-> [oid |-> e.extras[i].oid, crit |-> e.extras[i].crit,
                                                         hex |-> e.extras[i].hex]]]
ExpectedCRL(t) ==
  [ outcome   |-> <<"ok">>,
    unordered |-> <<"entries">>,
    names     |-> <<"issuer">>,
    nameBags  |-> <<>>,
    open      |-> <<>>,
    allowed   |->
     [ \* "a CRL, signed by this Certificate": the CRL issuer is this certificate's SUBJECT, not the
       \* name of whoever issued it
       issuer     |-> One(ExpectedName(t.issuer.subject)),
       thisUpdate |-> One(t.now.sec),
       nextUpdate |-> One(t.expiry.sec),
       entries    |-> One([i \in DOMAIN t.entries |-> ExpCRLEntry(t.entries[i])]),
       akid       |-> One(t.issuer.skid),
       sigAlg     |-> One(DefaultAlg(t.issuer.key)),
       sigOK      |-> One("ok") ] ]

-----------------------------------------------------------------------------
(* C06: metadata as symbolic terms over the sub-encodings of the input DER.

   part(p)          the exact sub-encoding p of the input, p in {cert, tbs, issuer, subject, spki}
   cat(a, b)        concatenation
   hash(h, a)       the named hash - interpreted by the harness with Go's crypto/*, never zcrypto
   tbsNoCT          canonical re-encoding of the TBS with the CT poison and SCT-list extensions
                    deleted (for a canonically encoded certificate: the same bytes with those
                    two extension elements cut out and the enclosing lengths recomputed; an
                    extension list that becomes empty disappears together with its [3] wrapper) *)
PartT(p) == [op |-> "part", name |-> p, h |-> "", args |-> <<>>]
CatT(a, b) == [op |-> "cat", name |-> "", h |-> "", args |-> <<a, b>>]
HashT(h, a) == [op |-> "hash", name |-> "", h |-> h, args |-> <<a>>]
TbsNoCT == [op |-> "tbsNoCT", name |-> "", h |-> "", args |-> <<>>]
(* the same, but an extension list that is (or becomes) empty is kept as an explicit empty
   [3] { SEQUENCE {} }.  The statement only demands that the fingerprint does not depend on the
   CT extensions; either rendering of "no extensions left" satisfies it, so both are allowed
   (the invariance itself is judged on certificate pairs, operator PairBad). *)
TbsNoCTKeepEmpty == [op |-> "tbsNoCTKeepEmpty", name |-> "", h |-> "", args |-> <<>>]

CTPoisonOid == "1.3.6.1.4.1.11129.2.4.3"
CTSCTOid == "1.3.6.1.4.1.11129.2.4.2"

(* metadata field |-> the allowed terms (the field must equal the value of one of them) *)
MetaTerms ==
  [ Raw                       |-> <<PartT("cert")>>,
    RawTBSCertificate         |-> <<PartT("tbs")>>,
    RawIssuer                 |-> <<PartT("issuer")>>,
    RawSubject                |-> <<PartT("subject")>>,
    RawSubjectPublicKeyInfo   |-> <<PartT("spki")>>,
    FingerprintMD5            |-> <<HashT("md5", PartT("cert"))>>,
    FingerprintSHA1           |-> <<HashT("sha1", PartT("cert"))>>,
    FingerprintSHA256         |-> <<HashT("sha256", PartT("cert"))>>,
    SPKIFingerprint           |-> <<HashT("sha256", PartT("spki"))>>,
    TBSCertificateFingerprint |-> <<HashT("sha256", PartT("tbs"))>>,
    SPKISubjectFingerprint    |-> <<HashT("sha256", CatT(PartT("spki"), PartT("subject")))>>,
    FingerprintNoCT           |-> <<HashT("sha256", TbsNoCT), HashT("sha256", TbsNoCTKeepEmpty)>> ]
(* FingerprintNoCT is only claimed for canonically encoded certificates *)
MetaCanonicalOnly == {"FingerprintNoCT"}

(* observation of one parsed certificate:
   [eq: [field |-> BOOLEAN] (zcrypto's field = the term's value), canonical, encVersion, version,
    issuerEqSubject, ownSigVerifies in {"yes","no","unknown"} (ideal verification under the
    certificate's own key, interpreted by the standard library), selfSigned,
    vpKnown, vp, nb, na (only when the difference fits 31 bits)] *)
MetaBad(o) ==
  {f \in DOMAIN o.eq : ~o.eq[f] /\ (o.canonical \/ f \notin MetaCanonicalOnly)}
    \cup (IF o.version # o.encVersion + 1 THEN {"Version"} ELSE {})
    \cup (IF o.ownSigVerifies = "unknown" THEN (IF o.selfSigned /\ ~o.issuerEqSubject THEN {"SelfSigned"} ELSE {})
          ELSE IF o.selfSigned # (o.issuerEqSubject /\ o.ownSigVerifies = "yes") THEN {"SelfSigned"} ELSE {})
    \cup (IF o.vpKnown /\ o.vp # o.na - o.nb THEN {"ValidityPeriod"} ELSE {})
MetaOK(o) == MetaBad(o) = {}

(* The no-CT law on abstract extension lists: deleting the CT extensions from a list into which
   they were inserted gives the original list, wherever they were inserted. *)
\* CT extensions are recognised by their OID alone: a poison that is not marked critical ("poisonnc")
\* and an SCT list that is ("sctc") are stripped like the usual forms
IsCT(x) == x \in {"poison", "sct", "sct0", "poisonnc", "sctc"}
NotCT(x) == ~IsCT(x)
StripCT(exts) == SelectSeq(exts, NotCT)
InsAt(s, pos, x) == SubSeq(s, 1, pos - 1) \o <<x>> \o SubSeq(s, pos, Len(s))

(* observation of a CT placement case: [c: [base, ct, sign], base: meta observation of the
   certificate without CT extensions, ct: of the same certificate with them, noctEqual:
   FingerprintNoCT(ct) = FingerprintNoCT(base)] *)
Prefixed(p, S) == {p \o f : f \in S}
PairBad(r) ==
  (IF r.noctEqual THEN {} ELSE {"FingerprintNoCT changed by the CT extensions"})
    \cup Prefixed("base.", MetaBad(r.base)) \cup Prefixed("ct.", MetaBad(r.ct))
    \cup (IF StripCT(r.c.ct) = r.c.base THEN {} ELSE {"case"})
    \* how the case was signed fixes the flag: genuinely self-signed / self-issued with a
    \* signature by another key / issued by another name
    \cup (IF r.base.selfSigned = (r.c.sign = "self") /\ r.ct.selfSigned = (r.c.sign = "self")
          THEN {} ELSE {"SelfSigned vs construction"})
PairOK(r) == PairBad(r) = {}

(* SelfSigned, the "issuer equals subject" dimension.  Equality is equality of the DER bytes:
   names that merely look alike are different names.  A case presents a certificate whose issuer
   relates to its subject as `rel` and whose signature does / does not verify under its own key. *)
NameRels == {"identical",       \* byte-identical
             "string-type",     \* same printed form, one attribute PrintableString on one side, UTF8String on the other
             "rdn-order",       \* same attributes, RDNs in another order
             "set-order",       \* same attributes, the values of a multi-valued RDN in another order
             "case",            \* differs in letter case only
             "trailing-space",  \* one value with a trailing space
             "one-attribute"}   \* one attribute value differs
RawNamesEqual(rel) == rel = "identical"
ExpSelfSigned(c) == RawNamesEqual(c.rel) /\ c.own
(* observation [c: [rel, own], o: meta observation of the certificate] *)
RelBad(r) ==
  MetaBad(r.o)
    \cup (IF r.o.selfSigned = ExpSelfSigned(r.c) THEN {} ELSE {"SelfSigned vs name relation"})
    \* the case was built as described (re-derived from the real certificate)
    \cup (IF r.o.issuerEqSubject = RawNamesEqual(r.c.rel) /\ (r.o.ownSigVerifies = "yes") = r.c.own THEN {} ELSE {"case"})
RelOK(r) == RelBad(r) = {}

=============================================================================
