----------------------------- MODULE GraphImpl -----------------------------
(* C10 B layer: implementation-shaped model of verifier/graph.go (Graph.AddCert / AddRoot),
   checked by TLC to refine the A layer of Graph.tla for every insertion order - with duplicate
   insertions and root / non-root re-insertions - of every universe of the catalogue, and of
   every universe of up to ProductK certificates of the full product over two names x two keys.

   Modelled as coded:
     * duplicate certificate -> early return (before anything is touched)
     * the node of the new certificate is created and indexed in nodesBySubject BEFORE the issuer
       search (this is how a self-signed certificate finds its own node)
     * the issuer is the FIRST node of nodesBySubject[issuer name], in node creation order, whose
       key verifies the signature
     * an edge without issuer goes to missingIssuerNode[issuer name] and (since 59a173b) to
       the parentsWithoutIssuer set of its child node; the fix-up removes it from both
     * the fix-up runs only when the insertion created a NEW node, looks only at
       missingIssuerNode[subject of the new node], and removes what it fixed
     * AddRoot = AddCert, then set the root flag of the edge                                  *)
EXTENDS Graph

CONSTANTS MCNames,      \* universe names explored
          ProductK      \* additionally: every subset of the product catalogue of size 1..ProductK

VARIABLES u,            \* the universe (set of catalogue indices) chosen in Init
          added, addedRoot,              \* A state: what was inserted / inserted as root
          nodes,        \* g.nodes: sequence of <<subj, key>> in creation order
          edges,        \* g.edges: set of catalogue indices
          issuer,       \* edge.issuer, meaningful for members of edges
          parents,      \* set of <<child node, issuer node, edge>>  (parentsBySubjectAndKey)
          children,     \* set of <<issuer node, child node, edge>>  (childrenBySubjectAndKey)
          missing,      \* set of <<issuer name, edge>>              (missingIssuerNode)
          noiss,        \* set of <<child node, edge>>               (parentsWithoutIssuer, 59a173b)
          root          \* set of edges with the root flag

bvars == <<u, added, addedRoot, nodes, edges, issuer, parents, children, missing, noiss, root>>

Cat(n) == Catalog[n]
MinOf(S) == CHOOSE x \in S : \A y \in S : x <= y

RECURSIVE SeqOf(_)
SeqOf(S) == IF S = {} THEN <<>> ELSE LET x == CHOOSE y \in S : TRUE IN <<x>> \o SeqOf(S \ {x})

\* the state after g.AddCert(Cat(n)), as a record of the changed components
AddCertRes(n) ==
  LET c      == Cat(n)
      nd     == NodeOf(c)
      isNew  == nd \notin RangeOf(nodes)
      nodes1 == IF isNew THEN Append(nodes, nd) ELSE nodes
      pot    == SelectSeq(nodes1, LAMBDA m : m[1] = c.iss)          \* nodesBySubject[RawIssuer]
      ok     == {i \in 1..Len(pot) : Verifies(pot[i][2], c)}
      is1    == IF ok = {} THEN NoNode ELSE pot[MinOf(ok)]            \* first verifying node
      miss1  == IF is1 = NoNode THEN missing \cup {<<c.iss, n>>} ELSE missing
      fix    == IF isNew THEN {m \in miss1 : m[1] = c.subj /\ Verifies(c.key, Cat(m[2]))} ELSE {}
      fixed  == {m[2] : m \in fix}
  IN IF n \in edges
     THEN [nodes |-> nodes, edges |-> edges, issuer |-> issuer, parents |-> parents,
           children |-> children, missing |-> missing, noiss |-> noiss]
     ELSE [nodes    |-> nodes1,
           edges    |-> edges \cup {n},
           issuer   |-> [x \in DOMAIN issuer |-> IF x \in fixed THEN nd ELSE IF x = n THEN is1 ELSE issuer[x]],
           parents  |-> parents \cup (IF is1 = NoNode THEN {} ELSE {<<nd, is1, n>>})
                                \cup {<<NodeOf(Cat(x)), nd, x>> : x \in fixed},
           children |-> children \cup (IF is1 = NoNode THEN {} ELSE {<<is1, nd, n>>})
                                 \cup {<<nd, NodeOf(Cat(x)), x>> : x \in fixed},
           missing  |-> miss1 \ fix,
           \* added next to missingIssuerNode, removed by the fix-up
           noiss    |-> (IF is1 = NoNode THEN noiss \cup {<<nd, n>>} ELSE noiss)
                          \ {<<NodeOf(Cat(x)), x>> : x \in fixed}]

Apply(r) == /\ nodes' = r.nodes /\ edges' = r.edges /\ issuer' = r.issuer
            /\ parents' = r.parents /\ children' = r.children /\ missing' = r.missing
            /\ noiss' = r.noiss

AddCert(n) == /\ Apply(AddCertRes(n))
              /\ added' = added \cup {n}
              /\ UNCHANGED <<u, addedRoot, root>>

AddRoot(n) == /\ Apply(AddCertRes(n))
              /\ root' = root \cup {n}
              /\ added' = added \cup {n} /\ addedRoot' = addedRoot \cup {n}
              /\ UNCHANGED u

KSubsets(S, k) == {T \in SUBSET S : Cardinality(T) >= 1 /\ Cardinality(T) <= k}

InitB == /\ u \in {Universe(x) : x \in MCNames} \cup (IF ProductK = 0 THEN {} ELSE KSubsets(ProductIdx, ProductK))
         /\ added = {} /\ addedRoot = {}
         /\ nodes = <<>> /\ edges = {} /\ parents = {} /\ children = {} /\ missing = {} /\ noiss = {} /\ root = {}
         /\ issuer = [x \in u |-> NoNode]

NextB == \E n \in u : AddCert(n) \/ AddRoot(n)

SpecB == InitB /\ [][NextB]_bvars

\* projection of the B state to an observation record of Graph.tla
ObsOfB ==
  [certs    |-> SeqOf({Cat(n) : n \in added}),
   roots    |-> SeqOf({Cat(n).id : n \in addedRoot}),
   nodes    |-> nodes,
   nodeidx  |-> nodes,
   edges    |-> SeqOf({[id |-> Cat(n).id, child |-> NodeOf(Cat(n)), issuer |-> issuer[n],
                        root |-> n \in root, found |-> TRUE, isroot |-> n \in root] : n \in edges}),
   parents  |-> SeqOf({[node |-> t[1], other |-> t[2], edges |-> <<Cat(t[3]).id>>] : t \in parents}),
   children |-> SeqOf({[node |-> t[1], other |-> t[2], edges |-> <<Cat(t[3]).id>>] : t \in children}),
   missing  |-> SeqOf({[name |-> t[1], edges |-> <<Cat(t[2]).id>>] : t \in missing}),
   noissuer |-> SeqOf({[node |-> t[1], edges |-> <<Cat(t[2]).id>>] : t \in noiss}),
   findnode |-> [i \in 1..Len(nodes) |-> TRUE]]

\* B => A : every reachable state is a graph of (added, addedRoot)
Refines == GraphReasons(ObsOfB) = {}

\* "any two insertion orders of the same certificates produce the same graph" is a consequence
\* of Refines when Cands is at most a singleton; the cfg with key aliases shows the exception.

\* used by the key-alias configuration (CONSTANT Alias <- MCAlias)
MCAlias == {<<"E1", "E2">>}
=============================================================================
