----------------------------- MODULE PkixNameGen -----------------------------
(* C22 case generator (U1 + U2).  Two families of states:
     "name1" every one of the 15 fields alone with every value sequence of the menu;
     "name"  a Name built field by field (increasing field index, at most MAXPOP
             populated fields from FIELDS, value sequences from a menu with
             printable / needs-UTF8 / special-character / empty strings, one or two
             values per field);   TLC checks NameRoundTrip on it and prints
             ToRDN(n), its DER encoding and the fields a refill must give;
     "rdn"   an arbitrary RDN sequence (up to MAXRDN RDNs of one or two attributes
             from a menu including an OID the converter does not know and repeated
             attribute types); prints its DER, the parsed (SET-sorted) sequence and
             Fill of it.                                                          *)
EXTENDS PkixName

CONSTANTS FAMILIES, FIELDS, MAXPOP, MAXRDN

VARIABLES fam, nm, last, r
vars == <<fam, nm, last, r>>

S1 == <<97, 98>>              \* "ab"        PrintableString
S2 == <<195, 169>>            \* "é"         needs UTF8String
S3 == <<32, 44, 43, 34, 92, 60, 62, 59, 35>>   \* ` ,+"\<>;#`  special characters, leading space
S4 == <<>>                    \* ""
S5 == <<97, 64, 98>>          \* "a@b"       '@' is not printable -> UTF8String
S6 == <<35, 120>>             \* "#x"
Singles == {<<S1>>, <<S2>>, <<S3>>, <<S5>>, <<S6>>}
Multis  == {<<S1>>, <<S2>>, <<S3>>, <<S4>>, <<S1, S1>>, <<S2, S1>>, <<S6, S3>>, <<S1, S4>>}
Values(i) == IF i \in SingleFields THEN Singles ELSE Multis

UnknownOid == <<1, 2, 3, 4>>
ATVs == {<<FieldOid[1], S1>>, <<FieldOid[1], S2>>, <<FieldOid[9], S1>>, <<FieldOid[4], S3>>, <<FieldOid[15], S1>>,
         <<FieldOid[10], S1>>, <<UnknownOid, S1>>, <<FieldOid[2], S5>>, <<FieldOid[11], S4>>}
RDNs == {<<a>> : a \in ATVs} \cup {<<a, b>> : a \in ATVs, b \in {<<FieldOid[1], S1>>, <<FieldOid[4], S1>>, <<UnknownOid, S2>>}}

Init == /\ fam \in FAMILIES /\ nm = EmptyName /\ last = 0 /\ r = <<>>
Pop == Cardinality({i \in 1..NFields : nm[i] # <<>>})
Next ==
  /\ UNCHANGED fam
  /\ \/ /\ fam = "name" /\ Pop < MAXPOP /\ UNCHANGED r
        /\ \E i \in FIELDS : i > last /\ last' = i /\ \E v \in Values(i) : nm' = [nm EXCEPT ![i] = v]
     \/ /\ fam = "name1" /\ Pop < 1 /\ UNCHANGED r            \* every field alone
        /\ \E i \in 1..NFields : last' = i /\ \E v \in Values(i) : nm' = [nm EXCEPT ![i] = v]
     \/ /\ fam = "rdn" /\ Len(r) < MAXRDN /\ UNCHANGED <<nm, last>>
        /\ \E x \in RDNs : r' = Append(r, x)
Spec == Init /\ [][Next]_vars

NameTuple(n) == [i \in 1..NFields |-> NormField(n, i)]

Emit ==
  CASE fam \in {"name", "name1"} ->
         LET rd == ToRDN(nm) IN
         /\ Assert(NameRoundTrip(nm), <<"NameRoundTrip fails on the specification", nm>>)
         /\ PrintT([k |-> "name", n |-> NameTuple(nm), rdn |-> rd, der |-> EncRDN(rd),
                    parsed |-> SortedRDN(rd), filled |-> NameTuple(Fill(SortedRDN(rd)))])
    [] fam = "rdn" ->
         LET s == SortedRDN(r) IN
         PrintT([k |-> "rdn", n |-> NameTuple(EmptyName), rdn |-> r, der |-> EncRDN(r),
                 parsed |-> s, filled |-> NameTuple(Fill(s))])
=============================================================================
