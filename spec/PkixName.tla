------------------------------ MODULE PkixName ------------------------------
(* C22: pkix.Name <-> RDNSequence <-> DER (A layer; constants-only, over
   ASN1Marshal.tla).

   A Name is modelled over exactly the fields Name.ToRDNSequence emits, in the
   converter's order:  n[i] = the values of field i (a sequence of strings = octet
   sequences); CommonName (1) and SerialNumber (15) hold at most one value.
   An RDNSequence is a sequence of RDNs, an RDN a sequence of <<oid, value>>.

     ToRDN(n)      one RDN per non-empty field holding all its values (CommonName /
                   SerialNumber: when the string is non-empty), in field order
     RDNType       the ASN.1 type of pkix.RDNSequence: SEQUENCE OF SET OF SEQUENCE
                   {OID, string}; EncRDN = Enc(RDNType, .) of ASN1Marshal (string type
                   selection PrintableString / UTF8String, DER order inside each SET)
     SortedRDN(r)  r as strict Unmarshal returns it (members of each SET in DER order)
     Fill(r)       FillFromRDNSequence: every string value appended to the field of its
                   OID in sequence order (multi-valued RDNs flattened)

   C22, first sentence:   Fill(SortedRDN(ToRDN(n))) has the same values in each field
                          as n (NameRoundTrip; up to the order inside one field,
                          because DER orders the SET)
        second sentence:  a Name filled from a parsed sequence converts back to that
                          sequence: Back(r) = r.                                   *)
EXTENDS ASN1Marshal

NFields == 15
FieldName == <<"CommonName", "EmailAddress", "OrganizationalUnit", "Organization", "StreetAddress",
               "Locality", "Province", "PostalCode", "Country", "DomainComponent",
               "JurisdictionLocality", "JurisdictionProvince", "JurisdictionCountry",
               "OrganizationIDs", "SerialNumber">>
FieldOid == <<<<2, 5, 4, 3>>, <<1, 2, 840, 113549, 1, 9, 1>>, <<2, 5, 4, 11>>, <<2, 5, 4, 10>>, <<2, 5, 4, 9>>,
              <<2, 5, 4, 7>>, <<2, 5, 4, 8>>, <<2, 5, 4, 17>>, <<2, 5, 4, 6>>, <<0, 9, 2342, 19200300, 100, 1, 25>>,
              <<1, 3, 6, 1, 4, 1, 311, 60, 2, 1, 1>>, <<1, 3, 6, 1, 4, 1, 311, 60, 2, 1, 2>>,
              <<1, 3, 6, 1, 4, 1, 311, 60, 2, 1, 3>>, <<2, 5, 4, 97>>, <<2, 5, 4, 5>>>>
SingleFields == {1, 15}

EmptyName == [i \in 1..NFields |-> <<>>]

\* field i contributes an RDN iff it has values (a single-valued field: a non-empty string)
Emits(n, i) == IF i \in SingleFields THEN n[i] # <<>> /\ n[i][1] # <<>> ELSE n[i] # <<>>
RDNOf(n, i) == [k \in 1..Len(n[i]) |-> <<FieldOid[i], n[i][k]>>]
RECURSIVE ToRDNFrom(_, _)
ToRDNFrom(n, i) == IF i > NFields THEN <<>>
                   ELSE (IF Emits(n, i) THEN <<RDNOf(n, i)>> ELSE <<>>) \o ToRDNFrom(n, i + 1)
ToRDN(n) == ToRDNFrom(n, 1)

ATVType == T("struct", NoParams, <<T("oid", NoParams, <<>>), T("str", NoParams, <<>>)>>)
RDNSetType == T("setof", NoParams, <<ATVType>>)
RDNType == T("seqof", NoParams, <<RDNSetType>>)
EncRDN(r) == Enc(RDNType, r)
EncATV(a) == EncField(ATVType, a)

\* the members of one SET in DER order (stable for equal encodings)
RECURSIVE InsertATV(_, _)
InsertATV(x, s) == IF s = <<>> THEN <<x>>
                   ELSE IF BytesLess(EncATV(s[1]), EncATV(x)) THEN <<s[1]>> \o InsertATV(x, Tail(s))
                   ELSE <<x>> \o s
RECURSIVE SortATVs(_)
SortATVs(s) == IF s = <<>> THEN <<>> ELSE InsertATV(s[1], SortATVs(Tail(s)))
SortedRDN(r) == [i \in 1..Len(r) |-> SortATVs(r[i])]

FieldOf(oid) == IF \E i \in 1..NFields : FieldOid[i] = oid
                THEN CHOOSE i \in 1..NFields : FieldOid[i] = oid ELSE 0
\* all <<oid, value>> of r in sequence order
RECURSIVE Flatten(_)
Flatten(r) == IF r = <<>> THEN <<>> ELSE r[1] \o Flatten(Tail(r))
RECURSIVE FillFrom(_, _)
FillFrom(n, atvs) ==
  IF atvs = <<>> THEN n
  ELSE LET i == FieldOf(atvs[1][1]) IN
       FillFrom(IF i = 0 THEN n
                ELSE IF i \in SingleFields THEN [n EXCEPT ![i] = <<atvs[1][2]>>]     \* the last one wins
                ELSE [n EXCEPT ![i] = Append(@, atvs[1][2])],
                Tail(atvs))
Fill(r) == FillFrom(EmptyName, Flatten(r))

\* the same values in a field, in any order
RECURSIVE RemoveOne(_, _)
RemoveOne(s, x) == IF s = <<>> THEN <<>> ELSE IF s[1] = x THEN Tail(s) ELSE <<s[1]>> \o RemoveOne(Tail(s), x)
RECURSIVE SameBag(_, _)
SameBag(a, b) == IF a = <<>> THEN b = <<>>
                 ELSE Len(a) = Len(b) /\ (\E k \in 1..Len(b) : b[k] = a[1]) /\ SameBag(Tail(a), RemoveOne(b, a[1]))
\* a single-valued field holding "" is the absent field
NormField(n, i) == IF i \in SingleFields /\ n[i] = <<<<>>>> THEN <<>> ELSE n[i]
SameFields(a, b) == \A i \in 1..NFields : SameBag(NormField(a, i), NormField(b, i))

NameRoundTrip(n) == SameFields(Fill(SortedRDN(ToRDN(n))), n)

\* second sentence: ToRDNSequence of a Name filled from r is r itself
Back(r) == r
=============================================================================
