------------------------------ MODULE JSONEnum ------------------------------
(* C33: JSON encodings of zcrypto value types round-trip.

   Statement: "For every value of the JSON-serialisable protocol and key-parameter types
   (TLS version, cipher suite, compression method, curve, point format, signature-and-hash,
   client auth type, key usage, public-key and signature algorithm names, RSA/DH/ECDH
   parameters and points, general names, name constraints, names, fingerprints, CT
   digitally-signed values), decoding the encoded JSON succeeds and yields an equal value,
   and neither step panics."

   A layer (this module, constants only):
     * per type the DOMAIN of values for which the statement demands a successful and
       faithful round trip, and the wider UNIVERSE that is probed for "never panics";
     * the oracle RoundTrip(v) = v  (decode o encode is the identity on the domain);
     * for structured types the member list with presence states, the patterns that are
       values of the type (InDomain) and the notion of equality of abstract values.
   Abstract values are made of strings, sequences and records only (TLC compares them
   structurally); the Go harness projects real values to them and never judges.

   B level (predictions, never verdicts): document shapes (value-keyed documents repeat
   the value; name tables of name-keyed types are injective), document edits (omitted /
   null members decode without panic and re-encode stably).                           *)
EXTENDS Integers, Sequences, FiniteSets, TLC

----------------------------------------------------------------------------
(* Status of one observation (encode, then decode of the encoding). *)
StOK == 0   StEncErr == 1   StDecErr == 2   StEncPanic == 3   StDecPanic == 4
NoPanic(st) == st \notin {StEncPanic, StDecPanic}

(* The oracle. *)
RoundTrip(v) == v

----------------------------------------------------------------------------
(* Enumerated types.  Domain = the values of the type in the sense of the statement:
   every bit pattern for the fixed-width wire types (their JSON form carries the number),
   the declared constants for the Go int types that are closed enumerations
   (tls/common.go ClientAuthType iota block; x509/x509.go SignatureAlgorithm,
   PublicKeyAlgorithm < total_key_algorithms; x509/certificate_type.go), and the nine
   RFC 5280 bits for KeyUsage.  Values of the Go int types outside the declared constants
   are probed for panics only (left open: the statement does not say whether an
   undeclared integer is "a value of the type").  x509.UnknownSignatureAlgorithm (0) is
   excluded too: its encoding has an empty OID and the repository's own test
   (x509/json_test.go TestSignatureAlgorithmJSON, "Should fail on unrecognized algorithm")
   pins the decode error as intended behaviour - it is the "no algorithm" marker, not an
   algorithm name.                                                                    *)
EnumTypes == {"tls.TLSVersion", "tls.CipherSuiteID", "tls.CurveID", "json.TLSCurveID",
              "tls.SignatureAndHash", "ct.DigitallySigned.algs",
              "tls.CompressionMethod", "tls.PointFormat",
              "tls.ClientAuthType", "x509.KeyUsage", "x509.PublicKeyAlgorithm",
              "x509.SignatureAlgorithm", "x509.CertificateType"}

EnumDomain(t) ==
  CASE t \in {"tls.TLSVersion", "tls.CipherSuiteID", "tls.CurveID", "json.TLSCurveID",
              "tls.SignatureAndHash", "ct.DigitallySigned.algs"}   -> 0..65535
    [] t \in {"tls.CompressionMethod", "tls.PointFormat"}          -> 0..255
    [] t = "tls.ClientAuthType"                                     -> 0..4
    [] t = "x509.KeyUsage"                                          -> 0..511
    [] t = "x509.PublicKeyAlgorithm"                                -> 0..5
    [] t = "x509.SignatureAlgorithm"                                -> 1..16
    [] t = "x509.CertificateType"                                   -> 0..3

(* Listed in the statement; x509.CertificateType is an addition that the statement does
   not name (it is checked all the same: it has both codec halves).                    *)

EnumElemOK(t, v, st, dec) ==
  /\ NoPanic(st)
  /\ v \in EnumDomain(t) => (st = StOK /\ dec = RoundTrip(v))

(* B level: documents of these types repeat the numeric value under a key. *)
ValueKeyed == {"tls.TLSVersion", "tls.CipherSuiteID", "tls.CurveID", "json.TLSCurveID",
               "tls.CompressionMethod", "tls.PointFormat", "x509.KeyUsage"}
ShapeOK(t, v, st, vk) == (t \in ValueKeyed /\ st \in {StOK, StDecErr, StDecPanic} /\ v \in EnumDomain(t)) => vk = v

Injective(names) == \A i, j \in 1..Len(names) : names[i] = names[j] => i = j

----------------------------------------------------------------------------
(* Structured types: members and their presence states.  The first state listed is the
   "populated" one.  A pattern is a function member -> state.                          *)
M(n, s) == [n |-> n, s |-> s]
BigS  == <<"set", "nil">>           \* *big.Int member
ListS == <<"one", "nil", "two">>    \* slice member: one element, nil, two elements
List2 == <<"one", "nil">>
Kinds == <<"common_name", "serial_number", "country", "locality", "province", "street_address",
           "organization", "organizational_unit", "postal_code", "domain_component",
           "email_address", "given_name", "surname", "jurisdiction_country",
           "jurisdiction_locality", "jurisdiction_province", "organization_id">>
NCLists == <<"permitted_dns", "permitted_email", "permitted_uri", "permitted_ip", "permitted_dir",
             "permitted_edi", "permitted_rid", "excluded_dns", "excluded_email", "excluded_uri",
             "excluded_ip", "excluded_dir", "excluded_edi", "excluded_rid">>

StructTypes == {"json.ECPoint", "json.DHParams", "json.ECDHParams", "json.RSAPublicKey",
                "json.RSAClientParams", "pkix.Name", "pkix.EDIPartyName", "pkix.OtherName",
                "pkix.Extension", "pkix.AttributeTypeAndValue", "x509.GeneralNames",
                "x509.GeneralSubtreeIP", "x509.NameConstraints", "x509.CertificateFingerprint",
                "ct.SHA256Hash", "ct.DigitallySigned"}

Members(t) ==
  CASE t = "json.ECPoint" -> <<M("x", BigS), M("y", BigS)>>
    [] t = "json.DHParams" -> <<M("prime", BigS), M("generator", BigS), M("server_public", BigS),
                                M("server_private", BigS), M("client_public", BigS),
                                M("client_private", BigS), M("session_key", BigS)>>
    [] t = "json.ECDHParams" -> <<M("curve_id", <<"set", "zero">>),
                                  M("server_public", <<"xy", "nil", "x">>), M("server_private", BigS),
                                  M("client_public", <<"xy", "nil", "x">>), M("client_private", BigS)>>
    [] t = "json.RSAPublicKey" -> <<M("key", <<"e65537", "nil", "e3", "ebig">>)>>
    [] t = "json.RSAClientParams" -> <<M("length", <<"set", "zero">>), M("pms", BigS)>>
    [] t = "pkix.Name" -> <<M("form", <<"fields", "parsed">>)>> \o [i \in 1..Len(Kinds) |-> M(Kinds[i], List2)]
    [] t = "pkix.EDIPartyName" -> <<M("name_assigner", <<"set", "empty">>), M("party_name", <<"set", "empty">>)>>
    [] t = "pkix.OtherName" -> <<M("id", BigS), M("value", BigS)>>
    [] t = "pkix.Extension" -> <<M("id", BigS), M("critical", <<"true", "false">>), M("value", BigS)>>
    [] t = "pkix.AttributeTypeAndValue" -> <<M("type", BigS), M("value", <<"str", "empty", "nil", "other">>)>>
    [] t = "x509.GeneralNames" -> <<M("directory_names", ListS), M("dns_names", ListS), M("edi_party_names", ListS),
                                    M("email_addresses", ListS), M("ip_addresses", ListS), M("other_names", ListS),
                                    M("registered_ids", ListS), M("uris", ListS)>>
    [] t = "x509.GeneralSubtreeIP" -> <<M("family", <<"v4", "v6">>), M("prefix", <<"mid", "zero", "full">>),
                                        M("host", <<"zero", "nonzero">>)>>
    [] t = "x509.NameConstraints" -> <<M("critical", <<"true", "false">>)>> \o [i \in 1..Len(NCLists) |-> M(NCLists[i], List2)]
    [] t = "x509.CertificateFingerprint" -> <<M("len", <<"l32", "l0", "l16", "l20", "l64">>)>>
    [] t = "ct.SHA256Hash" -> <<M("content", <<"random", "zero">>)>>
    [] t = "ct.DigitallySigned" -> <<M("hash", <<"known", "unknown">>), M("sig", <<"known", "unknown">>),
                                     M("siglen", <<"l72", "l0", "l1", "l65535">>)>>

SeqToSet(s) == {s[i] : i \in 1..Len(s)}

RECURSIVE Prod(_)
Prod(ms) == IF ms = <<>> THEN {<<>>}
            ELSE {(Head(ms).n :> s) @@ f : s \in SeqToSet(Head(ms).s), f \in Prod(Tail(ms))}

RECURSIVE SubsUpTo(_, _)
SubsUpTo(S, b) == IF b = 0 THEN {{}}
                  ELSE LET P == SubsUpTo(S, b - 1) IN P \cup {X \cup {x} : X \in P, x \in S}

(* The pattern of t in which exactly the members with index in S are in their first
   alternative state (s[2]) and all others are populated (s[1]). *)
PatOff(t, S) ==
  LET ms == Members(t)
      idx(n) == CHOOSE i \in DOMAIN ms : ms[i].n = n
  IN [n \in {ms[i].n : i \in DOMAIN ms} |-> IF idx(n) \in S THEN ms[idx(n)].s[2] ELSE ms[idx(n)].s[1]]

(* Patterns of t.  Small types (bound >= member count): the full product of all states.
   Large types: both ends of the presence lattice - at most `bound` members away from
   populated, or at most `bound` members populated - over the first two states.        *)
Patterns(t, bound) ==
  LET n == Len(Members(t)) IN
  IF bound >= n THEN Prod(Members(t))
  ELSE LET near == SubsUpTo(1..n, bound) IN
       {PatOff(t, S) : S \in near} \cup {PatOff(t, (1..n) \ S) : S \in near}

(* A pattern that makes no sense as a combination (host bits outside a full mask). *)
Feasible(t, p) == t = "x509.GeneralSubtreeIP" => ~(p.prefix = "full" /\ p.host = "nonzero")

(* InDomain: the pattern describes a value of the type in the sense of the statement.
   Narrowings, each with its reason:
     - required big-integer members (ECPoint.X, DHParams.Prime/Generator, RSA key pointer):
       a nil required member is not a parameter set / point; only "no panic" is demanded.
       ECPoint.Y = nil IS a value (json/ecdhe.go: "Not present for x25519").
     - OtherName / Extension with an empty OID, AttributeTypeAndValue whose Value is not a
       string: not representable in the JSON form by design; only "no panic".
     - presence states unknown to this module (random driver): only "no panic".        *)
Known(t, p) == \A i \in 1..Len(Members(t)) :
                  LET m == Members(t)[i] IN m.n \in DOMAIN p /\ p[m.n] \in SeqToSet(m.s) \cup {"two"}
PointOK(s) == s \in {"nil", "xy", "x"}
InDomain(t, p) ==
  /\ Known(t, p)
  /\ CASE t = "json.ECPoint" -> p.x = "set"
       [] t = "json.DHParams" -> p.prime = "set" /\ p.generator = "set"
       [] t = "json.ECDHParams" -> PointOK(p.server_public) /\ PointOK(p.client_public)
       [] t = "json.RSAPublicKey" -> p.key # "nil"
       [] t = "pkix.OtherName" -> p.id = "set"
       [] t = "pkix.Extension" -> p.id = "set"
       [] t = "pkix.AttributeTypeAndValue" -> p.value \in {"str", "empty"}
       [] OTHER -> TRUE

(* Equality of abstract values.  For a distinguished name the statement can be read in
   several ways: the value of a Name is its typed fields / the RDN sequence it was parsed
   from (val.attrs), or what it puts on the wire (val.wire = ToRDNSequence; a Name built
   from typed fields does not emit GivenName / Surname); and the decoded value can be read
   through its typed fields (dec.fields) or its Names attribute list (dec.names).  Every
   combination is allowed.                                                             *)
EqualAbs(t, val, dec) ==
  IF t = "pkix.Name"
  THEN \E want \in {val.attrs, val.wire} : dec.fields = want \/ dec.names = want
  ELSE dec = val

StructOK(t, pat, val, st, dec) ==
  /\ NoPanic(st)
  /\ InDomain(t, pat) => (st = StOK /\ EqualAbs(t, val, dec))

----------------------------------------------------------------------------
(* B level: object shapes (top-level JSON members) used for the document-edit cases. *)
DocKeys(t) ==
  CASE t = "json.ECPoint" -> {"x", "y"}
    [] t = "json.DHParams" -> {"prime", "generator", "server_public", "server_private",
                               "client_public", "client_private", "session_key"}
    [] t = "json.ECDHParams" -> {"curve_id", "server_public", "server_private", "client_public", "client_private"}
    [] t = "json.RSAPublicKey" -> {"exponent", "modulus", "length"}
    [] t = "json.RSAClientParams" -> {"length", "encrypted_pre_master_secret"}
    [] t = "pkix.Name" -> SeqToSet(Kinds)
    [] t = "pkix.EDIPartyName" -> {"name_assigner", "party_name"}
    [] t = "pkix.OtherName" -> {"id", "value"}
    [] t = "pkix.Extension" -> {"id", "critical", "value"}
    [] t = "pkix.AttributeTypeAndValue" -> {"type", "value"}
    [] t = "x509.GeneralNames" -> {"directory_names", "dns_names", "edi_party_names", "email_addresses",
                                   "ip_addresses", "other_names", "registered_ids", "uniform_resource_identifiers"}
    [] t = "x509.GeneralSubtreeIP" -> {"cidr", "begin", "end", "mask"}
    [] t = "x509.NameConstraints" -> {"critical", "permitted_names", "permitted_email_addresses", "permitted_uris",
                                      "permitted_ip_addresses", "permitted_directory_names", "permitted_edi_party_names",
                                      "permitted_registred_id", "excluded_names", "excluded_email_addresses",
                                      "excluded_uris", "excluded_ip_addresses", "excluded_directory_names",
                                      "excluded_edi_party_names", "excluded_registred_id"}
    [] OTHER -> {}
DocTypes == {t \in StructTypes : DocKeys(t) # {}}

(* Document edits: every member of a set S of at most `bound` members is omitted or set to
   null, the others are kept; plus the two extreme documents (all omitted, all null).   *)
EditOf(t, S, g) == [k \in DocKeys(t) |-> IF k \in S THEN g[k] ELSE "keep"]
DocEdits(t, bound) ==
  LET ks == DocKeys(t) IN
  UNION {{EditOf(t, S, g) : g \in [S -> {"omit", "null"}]} : S \in SubsUpTo(ks, bound)}
  \cup {[k \in ks |-> "omit"], [k \in ks |-> "null"]}

DocOK(st, stable) == NoPanic(st) /\ (st = StOK => stable = "yes")
=============================================================================
