--------------------------- MODULE Trace_Issuance ---------------------------
(* C04 / C05 / C06 observation validator (U3, function style - no state).
   The harness ran the real code on templates of its own (rapid-generated, far outside the
   boundary representatives TLC enumerates) and logged, per line,
       {"t": template, "obs": observation, "hasStd": b, "std": observation of crypto/x509 on the
        same DER, "stdFields": the fields that observer can see}
   TLC evaluates Expected* of Issuance.tla on the logged template and judges both
   observations.  One line of JSON {"reject": i, "bad": fields, "std": fields of the std observer} is
   printed per rejected record; <<"JUDGED", n>> proves the log was read. *)
EXTENDS Issuance, Json, SequencesExt

CONSTANT Kind      \* "cert" | "csr" | "crl" | "rl" | "mixed" | "meta" | "metapair" | "metarel" | "metamixed"

Log == ndJsonDeserialize("iss_obs.ndjson")

\* Kind "mixed": every record names its own kind in field "kind"
K(r) == IF Kind = "mixed" THEN r.kind ELSE Kind
Exp(r) == CASE K(r) = "cert" -> Expected(r.t)
            [] K(r) = "csr"  -> ExpectedCSR(r.t)
            [] K(r) = "crl"  -> ExpectedCRL(r.t)
            [] K(r) = "rl"   -> ExpectedRL(r.t)

StdBadE(e, r) == IF r.hasStd /\ r.obs.outcome = "ok"
                 THEN {f \in SeqRange(r.stdFields) \cap DOMAIN e.allowed : ~FieldOK(e, r.std, f)}
                 ELSE {}

\* Expected is evaluated once per record (LET), not once per field
JudgeRec(i, r) == LET e == Exp(r)
                      b == BadFields(e, r.obs)
                      sb == StdBadE(e, r)
                  IN (b = {} /\ sb = {}) \/ PrintT(ToJson([reject |-> i, bad |-> SetToSeq(b), std |-> SetToSeq(sb)]))

JudgeLine(i) == LET r == Log[i] IN
  IF Kind = "metamixed"     \* the record's shape says what it is: relation case / CT pair / single certificate
  THEN LET b == IF "o" \in DOMAIN r THEN RelBad(r) ELSE IF "base" \in DOMAIN r THEN PairBad(r) ELSE MetaBad(r)
       IN  b = {} \/ PrintT(ToJson([reject |-> i, bad |-> SetToSeq(b), std |-> <<>>]))
  ELSE IF Kind = "metarel"
  THEN RelOK(r) \/ PrintT(ToJson([reject |-> i, bad |-> SetToSeq(RelBad(r)), std |-> <<>>]))
  ELSE IF Kind = "metapair"
  THEN PairOK(r) \/ PrintT(ToJson([reject |-> i, bad |-> SetToSeq(PairBad(r)), std |-> <<>>]))
  ELSE IF Kind = "meta"
  THEN MetaOK(r) \/ PrintT(ToJson([reject |-> i, bad |-> SetToSeq(MetaBad(r)), std |-> <<>>]))
  ELSE JudgeRec(i, r)

ASSUME \A i \in DOMAIN Log : JudgeLine(i)
ASSUME PrintT(<<"JUDGED", Len(Log)>>)
=============================================================================
