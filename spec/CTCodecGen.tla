------------------------------ MODULE CTCodecGen ------------------------------
(* C16 case generator (U2, constant level): every combination of field length classes
   {0, 1, typical, max, max+1} x versions x entry types x algorithm ids for the CT structures,
   each with the layout CTCodec.tla demands (or the demanded error), and the verification
   matrix object x log key type x mutation with the verdict the ideal-signature rule demands, and the
   verifier histories: every short sequence of verify operations on one verifier object per key type.
   Output: ctcodec_cases.ndjson (one JSON record per case) next to the spec.              *)
EXTENDS CTCodec, Json, SequencesExt

CONSTANTS Extra,    \* further length classes for the 16-bit fields (thorough tier)
          SeqFull,  \* verifier histories: every sequence of 1..SeqFull operations over the whole alphabet
          SeqRed    \* ... and every sequence of SeqFull+1..SeqRed operations over ReducedOps

TS0 == <<0, 0, 0, 0, 0, 0, 0, 0>>
TSM == <<255, 255, 255, 255, 255, 255, 255, 255>>
TS1 == <<1, 2, 3, 4, 5, 6, 7, 200>>

ExtClasses  == {0, 1, Max16, Max16 + 1} \cup Extra
SigClasses  == {0, 1, 72, Max16, Max16 + 1, 70000} \cup Extra
CertClasses == {0, 1, 1000, Max24, Max24 + 1}

Want(lay) == [ok |-> lay.ok, cs |-> lay.cs, len |-> IF lay.ok THEN ChunksLen(lay.cs) ELSE -1]
Case(kind, val, lay) == [kind |-> kind, val |-> val, want |-> Want(lay)]

DSVals == { [h |-> h, s |-> s, sig |-> Fld(n, 7)] : h \in {0, 4, 6, 255}, s \in {0, 1, 3, 255}, n \in SigClasses }
DSCases == { Case("ds", v, DSLayout(v)) : v \in DSVals }

SCTVals == { [ver |-> ver, logid |-> Fld(32, 100), ts |-> ts, ext |-> Fld(en, 3),
              ds |-> [h |-> a[1], s |-> a[2], sig |-> Fld(sn, 9)]] :
               ver \in {0, 1, 255}, ts \in {TS0, TSM, TS1}, en \in ExtClasses,
               sn \in {0, 72, Max16, Max16 + 1}, a \in {<<4, 3>>, <<4, 1>>, <<0, 0>>} }
SCTCases == { Case("sct", v, SCTLayout(v)) : v \in SCTVals }

\* structures that zcrypto only reads: the layout of every representable value must
\* deserialise to that value
LeafVals == { [ver |-> 0, ltype |-> 0, ts |-> ts, etype |-> et, cert |-> Fld(cn, 21), ikh |-> Fld(32, 50),
               ext |-> Fld(en, 5)] :
               ts \in {TS0, TS1}, et \in {0, 1}, cn \in CertClasses, en \in ExtClasses }
LeafCases == { Case("leaf", v, LeafLayout(v)) : v \in {x \in LeafVals : LeafLayout(x).ok} }

CertSeqs == { <<>>, <<Fld(1, 1)>>, <<Fld(300, 2)>>, <<Fld(300, 2), Fld(1, 3)>>,
              <<Fld(70000, 4), Fld(300, 5), Fld(2, 6)>>, <<Fld(Max24 - 3, 8)>> }
ChainVals == { [kind |-> k, pre |-> Fld(pn, 40), certs |-> cs] : k \in {"x509", "precert"}, pn \in {1, 500}, cs \in CertSeqs }
ChainCases == { Case("chain", v, ChainLayout(v)) : v \in {x \in ChainVals : ChainLayout(x).ok /\ (x.kind = "precert" \/ x.pre.n = 1)} }

SigInVals == { [ver |-> ver, ts |-> ts, etype |-> et, cert |-> Fld(cn, 21), ikh |-> Fld(32, 50), ext |-> Fld(en, 5)] :
                ver \in {0, 1}, ts \in {TS0, TS1}, et \in {0, 1, 2}, cn \in CertClasses, en \in ExtClasses }
SigInCases == { Case("sigin-sct", v, SCTSigInput(v)) : v \in SigInVals }

STHVals == { [ver |-> ver, ts |-> ts, size |-> sz, root |-> Fld(32, r)] :
              ver \in {0, 1, 255}, ts \in {TS0, TSM, TS1}, sz \in {TS0, TSM, TS1}, r \in {0, 77} }
STHCases == { Case("sigin-sth", v, STHSigInput(v)) : v \in STHVals }

----------------------------------------------------------------------------
(* verification matrix *)
BaseSCT(et) == [ver |-> 0, ts |-> TS1, etype |-> et, cert |-> Fld(600, 11), ikh |-> Fld(32, 60), ext |-> Fld(5, 31)]
BaseSTH == [ver |-> 0, ts |-> TS1, size |-> <<0, 0, 0, 0, 0, 1, 2, 3>>, root |-> Fld(32, 90)]

Bump(b) == <<(b[1] + 1) % 256>> \o Tail(b)
MutVal(x, m) ==
  CASE m = "ts"        -> [x EXCEPT !.ts = Bump(@)]
    [] m = "ext-len"   -> [x EXCEPT !.ext = Fld(@.n + 1, @.s)]
    [] m = "ext-byte"  -> [x EXCEPT !.ext = Fld(@.n, @.s + 1)]
    [] m = "cert-byte" -> [x EXCEPT !.cert = Fld(@.n, @.s + 1)]
    [] m = "cert-len"  -> [x EXCEPT !.cert = Fld(@.n - 1, @.s)]
    [] m = "ikh"       -> [x EXCEPT !.ikh = Fld(32, @.s + 1)]
    [] m = "etype"     -> [x EXCEPT !.etype = 1 - @]
    [] m = "ver"       -> [x EXCEPT !.ver = 1]
    [] m = "size"      -> [x EXCEPT !.size = Bump(@)]
    [] m = "root"      -> [x EXCEPT !.root = Fld(32, @.s + 1)]
    [] OTHER           -> x

SigMut(m) == CASE m = "sig-flip" -> "flip" [] m = "sig-empty" -> "empty" [] m = "sig-trailing" -> "trailing"
               [] m = "sig-malleable" -> "malleable" [] OTHER -> "none"
\* algorithm ids of a genuine signature by a key of this type: hash sha256(4); ecdsa(3) / rsa(1)
Algs(key, m) == LET s == IF key = "P" THEN 3 ELSE 1 IN
                CASE m = "alg-sig"  -> <<4, 4 - s>>
                  [] m = "alg-hash" -> <<5, s>>
                  [] OTHER          -> <<4, s>>
VerKey(key, m) == CASE m = "key-other" -> key \o "other"
                    [] m = "key-type"  -> IF key = "P" THEN "R" ELSE "P"
                    [] OTHER           -> key

VCase(obj, key, m) ==
  LET gen == IF obj = "sth" THEN BaseSTH ELSE BaseSCT(IF obj = "sct-cert" THEN 0 ELSE 1)
      lay == IF obj = "sth" THEN STHSigInput(gen) ELSE SCTSigInput(gen)
  IN  [kind |-> "verify", obj |-> obj, key |-> key, mut |-> m, demand |-> VerifyDemand(m),
       signed |-> Want(lay), presented |-> MutVal(gen, m), sigmut |-> SigMut(m),
       algs |-> Algs(key, m), verkey |-> VerKey(key, m)]

VCasesOK == UNION { { VCase(c[1], c[2], m) : m \in MutsOf(c[1], c[2]) } :
                    c \in {"sct-cert", "sct-precert", "sth"} \X {"P", "R"} }

----------------------------------------------------------------------------
(* verifier histories: per key type one record with the operation table (every operation with the bytes
   that were signed, the presented object, the signing key, the algorithm ids and the signature mutation)
   and every sequence of operation indices to be applied to ONE ct.SignatureVerifier *)
Other(key) == IF key = "P" THEN "R" ELSE "P"
SigAlgOf(key) == IF key = "P" THEN 3 ELSE 1
HOp(key, op) ==
  LET m    == op.mut
      gen  == IF op.obj = "sth" THEN BaseSTH ELSE BaseSCT(IF op.obj = "sct-cert" THEN 0 ELSE 1)
      lay  == IF op.obj = "sth" THEN STHSigInput(gen) ELSE SCTSigInput(gen)
      skey == CASE m = "foreign-key" -> key \o "other" [] m = "foreign-type" -> Other(key) [] OTHER -> key
      sa   == SigAlgOf(IF m = "foreign-type" THEN Other(key) ELSE key)
  IN  [obj |-> op.obj, mut |-> m, demand |-> VerifyDemand(m), signed |-> Want(lay), presented |-> MutVal(gen, m),
       sigmut |-> SigMut(m), signkey |-> skey,
       algs |-> CASE m = "alg-sig" -> <<4, 4 - sa>> [] m = "alg-unsup" -> <<4, 2>> [] m = "alg-hash" -> <<5, sa>>
                  [] OTHER -> <<4, sa>>]

SeqsOver(alphabet, lo, hi) == UNION { [1..k -> alphabet] : k \in lo..hi }
HSeqs == SeqsOver(1..Len(VerifierOps), 1, SeqFull) \cup SeqsOver(ReducedOps, SeqFull + 1, SeqRed)
HCase(key) == [kind |-> "vseq", key |-> key, ops |-> [i \in 1..Len(VerifierOps) |-> HOp(key, VerifierOps[i])],
               seqs |-> SetToSeq(HSeqs)]
HCases == <<HCase("P"), HCase("R")>>

AllCases == HCases \o SetToSeq(DSCases) \o SetToSeq(SCTCases) \o SetToSeq(LeafCases) \o SetToSeq(ChainCases)
            \o SetToSeq(SigInCases) \o SetToSeq(STHCases) \o SetToSeq(VCasesOK)

ASSUME ndJsonSerialize("ctcodec_cases.ndjson", AllCases)
ASSUME PrintT(<<"CASES", Len(AllCases), Cardinality(DSCases), Cardinality(SCTCases), Cardinality(LeafCases),
                Cardinality(ChainCases), Cardinality(SigInCases), Cardinality(STHCases), Cardinality(VCasesOK),
                Len(VerifierOps), Cardinality(HSeqs)>>)
=============================================================================
