-------------------------------- MODULE PKI --------------------------------
(* Shared foundation: abstract X.509 certificates and the relations between them.

   CONSTANTS-FREE operator module (no CONSTANT, no VARIABLE): EXTEND or INSTANCE it
   freely.  Used by ChainBuilder (C07), CertPool (C08), Graph/Walk/Verifier (C10-C12).

   An abstract certificate is a record whose field names are exactly the JSON keys of
   harness/lib/pki.Cert, so that ToJson(cert) is the concretiser's input:

     id      string   identity of the certificate (= its DER bytes / SHA-256 fingerprint;
                      two records with different id are different certificates even if
                      every other field agrees - the concretiser derives the serial from id)
     subj    string   abstract subject name    (raw subject DER  = function of subj)
     key     string   abstract subject key     (SubjectPublicKeyInfo = function of key)
     iss     string   abstract issuer name     (raw issuer DER)
     skey    string   abstract key the signature was really made with
                      ("bad signature" = skey differs from the key of the named issuer)
     ver     1..3     X.509 version (1 and 2 carry no extensions at all)
     bc      BOOLEAN  basicConstraints extension present
     ca      BOOLEAN  its cA flag              (meaningful only if bc)
     pathlen Int      pathLenConstraint, -1 = absent (meaningful only if bc /\ ca)
     nb, na  Int      notBefore / notAfter, seconds after 2020-01-01T00:00:00Z
     eku     Seq(STRING)  extended key usages ("any","server","client","msgc","nsgc","unk",...);
                      <<>> = extension absent
     skid, akid  string   abstract key whose identifier is used as subject / authority key
                      identifier, "" = extension absent
     ku      Int      keyUsage bits (0 = extension absent; 32 = keyCertSign, as in Go)
     dns     Seq(..)  DNS SANs, cn: common-name override (used by Hostname / C09; opaque here)

   Ideal cryptography: a signature made with key k verifies under public key k' iff
   k = k' (Dolev-Yao).  The harness realises keys as real Ed25519/ECDSA/RSA keys.      *)
EXTENDS Integers, Sequences, FiniteSets

NoPathLen    == -1
KUCertSign   == 32        \* x509.KeyUsageCertSign
KUDigitalSig == 1
MaxIntermediateCount == 10   \* x509/verify.go maxIntermediateCount (B layer only)

\* A certificate with default attributes: v3 CA without path length, no EKU, no key ids,
\* valid over [nb, na].
MkCert(id, subj, key, iss, skey) ==
  [id |-> id, subj |-> subj, key |-> key, iss |-> iss, skey |-> skey,
   ver |-> 3, bc |-> TRUE, ca |-> TRUE, pathlen |-> NoPathLen, nb |-> 0, na |-> 1000,
   eku |-> <<>>, skid |-> "", akid |-> "", ku |-> 0, dns |-> <<>>, cn |-> ""]

----------------------------------------------------------------------------
(* Links between two certificates *)

NameLink(p, c)   == c.iss = p.subj            \* raw issuer of c = raw subject of p
SigOk(p, c)      == c.skey = p.key            \* c's signature verifies under p's public key
SigOkKey(k, c)   == c.skey = k                \* ... under an abstract key k (graph nodes)
\* "links each certificate to the next by issuer name and a valid signature"
Issues(p, c)     == NameLink(p, c) /\ SigOk(p, c)

SelfIssued(c)    == c.iss = c.subj
SelfSigned(c)    == SelfIssued(c) /\ c.skey = c.key      \* Certificate.SelfSigned as parsed
SameSubjectAndKey(a, b) == a.subj = b.subj /\ a.key = b.key
SameCert(a, b)   == a.id = b.id

\* basicConstraints says CA (what "a CA certificate" means in the statements)
IsCACert(c)      == c.bc /\ c.ca

\* The extra conditions Certificate.CheckSignatureFrom puts on the *parent* before it even
\* looks at the signature (RFC 5280 4.2.1.9 rule and the keyCertSign rule).  Implementation
\* detail used by B layers; the A layers only demand Issues.
MaySign(p) == /\ ~(p.ver = 3 /\ ~p.bc)
              /\ ~(p.bc /\ ~p.ca)
              /\ (p.ku = 0 \/ (p.ku \div KUCertSign) % 2 = 1)
IssuesChecked(p, c) == Issues(p, c) /\ MaySign(p)

----------------------------------------------------------------------------
(* Chains: non-empty sequences of certificates, leaf first *)

Ids(ch)          == [i \in 1..Len(ch) |-> ch[i].id]
NoRepeat(ch)     == \A i, j \in 1..Len(ch) : ch[i].id = ch[j].id => i = j
NoRepeatSubjKey(ch) == \A i, j \in 1..Len(ch) : SameSubjectAndKey(ch[i], ch[j]) => i = j
Linked(ch)       == \A i \in 1..(Len(ch) - 1) : Issues(ch[i + 1], ch[i])
Intermediates(ch) == 2..(Len(ch) - 1)             \* positions strictly between leaf and root

\* Number of intermediates below position i (i >= 2): every one, as the code counts, or only
\* the non-self-issued ones, as RFC 5280 6.1.4(l) counts.  The statements say "within their
\* path-length limits" without choosing, so A layers use the weaker (RFC) count.
BelowAll(ch, i)  == i - 2
BelowRFC(ch, i)  == Cardinality({j \in 2..(i - 1) : ~SelfIssued(ch[j])})
HasPathLen(c)    == c.bc /\ c.pathlen >= 0
PathLenOkAll(ch, i) == HasPathLen(ch[i]) => BelowAll(ch, i) <= ch[i].pathlen
PathLenOkRFC(ch, i) == HasPathLen(ch[i]) => BelowRFC(ch, i) <= ch[i].pathlen

\* "uses only CA certificates within their path-length limits as intermediates"
IntermediatesOk(ch) == \A i \in Intermediates(ch) : IsCACert(ch[i]) /\ PathLenOkRFC(ch, i)

----------------------------------------------------------------------------
(* Extended key usage.  usages = the acceptable usages requested (<<>> means <<"server">>);
   a chain satisfies the request iff some requested usage is supported by every certificate
   of the chain; "any" among the requested usages accepts every chain.  A certificate
   supports u iff it has no EKU extension, lists "any", lists u, or (u = "server") lists one
   of the two server-gated-crypto usages (the permissive reading; dropping that equivalence
   only returns fewer chains). *)
SeqToSet(s)      == {s[i] : i \in 1..Len(s)}
EffectiveUsages(usages) == IF Len(usages) = 0 THEN {"server"} ELSE SeqToSet(usages)
Supports(c, u)   == \/ Len(c.eku) = 0
                    \/ "any" \in SeqToSet(c.eku)
                    \/ u \in SeqToSet(c.eku)
                    \/ u = "server" /\ SeqToSet(c.eku) \cap {"msgc", "nsgc"} # {}
EKUOk(ch, usages) == LET us == EffectiveUsages(usages) IN
                     \/ "any" \in us
                     \/ \E u \in us : \A i \in 1..Len(ch) : Supports(ch[i], u)

----------------------------------------------------------------------------
(* Validity windows *)
MaxOf(S) == CHOOSE x \in S : \A y \in S : y <= x
MinOf(S) == CHOOSE x \in S : \A y \in S : x <= y
ChainLower(ch) == MaxOf({ch[i].nb : i \in 1..Len(ch)})     \* common window = [lower, upper]
ChainUpper(ch) == MinOf({ch[i].na : i \in 1..Len(ch)})
ValidAt(c, t)  == c.nb <= t /\ t <= c.na

\* Classification of a chain at time t: "current" (window contains t), "expired" (window
\* non-empty, t outside: it precedes or follows), "never" (window empty).  The statements do
\* not say whether the end points belong to the window; both conventions are offered and a
\* checker must accept an implementation that follows ONE of them throughout:
\*   "open"   lower < t < upper, empty iff lower >= upper     (what x509.FilterByDate codes)
\*   "closed" lower <= t <= upper, empty iff lower > upper
Readings == {"open", "closed"}
DateClassW(reading, lo, hi, t) ==
  IF reading = "open"
  THEN IF lo < t /\ t < hi THEN "current" ELSE IF lo < hi THEN "expired" ELSE "never"
  ELSE IF lo <= t /\ t <= hi THEN "current" ELSE IF lo <= hi THEN "expired" ELSE "never"
DateClass(reading, ch, t) == DateClassW(reading, ChainLower(ch), ChainUpper(ch), t)

\* Partition of a sequence of chains, keeping order (as FilterByDate does)
RECURSIVE SelectClass(_, _, _, _)
SelectClass(reading, chains, t, cls) ==
  IF chains = <<>> THEN <<>>
  ELSE LET rest == SelectClass(reading, Tail(chains), t, cls) IN
       IF DateClass(reading, Head(chains), t) = cls THEN <<Head(chains)>> \o rest ELSE rest
Partition(reading, chains, t) ==
  [current |-> SelectClass(reading, chains, t, "current"),
   expired |-> SelectClass(reading, chains, t, "expired"),
   never   |-> SelectClass(reading, chains, t, "never")]

\* every boundary of every certificate, +-1 s
BoundaryTimes(certs) == UNION {{c.nb - 1, c.nb, c.nb + 1, c.na - 1, c.na, c.na + 1} : c \in certs}

----------------------------------------------------------------------------
(* The chain predicate of C07 (also the skeleton of C11's permitted paths):
   starts at leaf, ends in roots, linked by issuer name and valid signature, intermediates
   are CAs within their path-length limits, no certificate repeated, EKU request satisfied.
   roots: a SET of certificates. *)
ValidChain(ch, leaf, roots, usages) ==
  /\ Len(ch) >= 1
  /\ SameCert(ch[1], leaf)
  /\ \E r \in roots : SameCert(ch[Len(ch)], r)
  /\ Linked(ch)
  /\ IntermediatesOk(ch)
  /\ NoRepeat(ch)
  /\ EKUOk(ch, usages)

\* which clause fails first (diagnostics for replay files; "" = valid)
WhyInvalid(ch, leaf, roots, usages) ==
  IF Len(ch) < 1 THEN "empty"
  ELSE IF ~SameCert(ch[1], leaf) THEN "start"
  ELSE IF ~\E r \in roots : SameCert(ch[Len(ch)], r) THEN "end-not-root"
  ELSE IF \E i \in 1..(Len(ch) - 1) : ~NameLink(ch[i + 1], ch[i]) THEN "name-link"
  ELSE IF \E i \in 1..(Len(ch) - 1) : ~SigOk(ch[i + 1], ch[i]) THEN "signature"
  ELSE IF \E i \in Intermediates(ch) : ~IsCACert(ch[i]) THEN "intermediate-not-ca"
  ELSE IF \E i \in Intermediates(ch) : ~PathLenOkRFC(ch, i) THEN "path-length"
  ELSE IF ~NoRepeat(ch) THEN "repeat"
  ELSE IF ~EKUOk(ch, usages) THEN "eku"
  ELSE ""

\* lookup in a sequence of certificates by id (0 = absent)
IndexOfId(certs, id) == IF \E i \in 1..Len(certs) : certs[i].id = id
                        THEN CHOOSE i \in 1..Len(certs) : certs[i].id = id ELSE 0
=============================================================================
