-------------------------------- MODULE Walk --------------------------------
(* C11 - chain walking (verifier/walk.go) returns exactly the permitted root-terminated paths.

   A layer (this module, constants only).  A walk graph is a set E of edge records
       [id, child, issuer, root, ca, pathlen, selfissued]
   (child/issuer are <<subj, key>> nodes, issuer = NoNode for a dangling edge; ca/pathlen/
   selfissued are attributes of the certificate) and a start edge.  The statement, clause by clause:

     "each path that starts at that certificate"        p[1] = start
     "follows issuer edges"                              p[i+1].child = p[i].issuer
     "stops at the first root edge"                      p[Len(p)].root, no earlier p[i].root
     "never revisits a (subject, key) pair"              the p[i].child are pairwise different
     "uses only CA certificates within path-length limits before the root"
                                                         1 < i < Len(p) => p[i].ca /\ PathLenOk
     "has at most the documented maximum length"         Len(p) <= MaxLen
     "returns no other chains and no duplicates"         Required \subseteq returned \subseteq Permitted,
                                                         returned without repetition

   Where the statement can be read two ways both readings are allowed (BUILDERS rule 1):
   Permitted is computed with the lenient reading, Required with the strict one.
     (a) path-length counting: strict = every certificate between the start and the CA counts
         (as coded); lenient = self-issued certificates do not count (RFC 5280 6.1.4 (l)).
     (b) the root edge's own path-length limit: strict = applies (as coded); lenient = "before the
         root" means the limit of the root itself is not consulted.
     (c) a path whose final root edge has an issuer that is a node already on the path: lenient =
         it is a path (the walk "stops at the first root edge", the root's own issuer is
         irrelevant); strict = not required (the code skips edges whose issuer node is on the path).
   NOT open (coordinator's ruling, 2026-09-22): a path whose final root edge has NO issuer in the
   graph is required - the walk stops AT the root edge and never needs the root's issuer.  The
   real walk reaches edges only through the parent maps, which index edges by a known issuer, so
   it misses these paths: known finding C11-root-edge-issuer-absent; such a missing path is
   reported under its own clause "missing:root-edge-issuer-absent", any other under "missing-chain".
   MaxLen = 9 certificates is the coded limit (`maxIntermediateCount`, tested against the chain
   length before extending).                                                                 *)
EXTENDS Graph

MaxLen == 9
MaxOfSet(S) == CHOOSE x \in S : \A y \in S : y <= x

Childs(p) == {p[i].child : i \in 1..Len(p)}

\* number of certificates strictly between the start and the next certificate
Between(p, lenient) ==
  IF lenient THEN Cardinality({i \in 2..Len(p) : ~p[i].selfissued}) ELSE Len(p) - 1

\* may e extend the path p (p ends in a non-root edge whose issuer is e's child)?
OkNext(p, e, lenient) ==
  /\ e.child \notin Childs(p)                                     \* no (subject, key) twice
  /\ (~e.root => e.ca)                                            \* intermediates are CAs
  /\ (e.pathlen >= 0 /\ ~(lenient /\ e.root)) => Between(p, lenient) <= e.pathlen
  /\ (~lenient /\ e.root) => (e.issuer = NoNode \/ e.issuer \notin Childs(p))   \* reading (c)

RECURSIVE Ext(_, _, _)
Ext(E, p, lenient) ==
  LET last == p[Len(p)] IN
  IF last.root THEN {p}
  ELSE IF last.issuer = NoNode \/ Len(p) >= MaxLen THEN {}
  ELSE UNION {Ext(E, Append(p, e), lenient) : e \in {x \in E : x.child = last.issuer /\ OkNext(p, x, lenient)}}

IdsOf(p) == [i \in 1..Len(p) |-> p[i].id]
Permitted(E, start) == {IdsOf(p) : p \in Ext(E, <<start>>, TRUE)}
Required(E, start)  == {IdsOf(p) : p \in Ext(E, <<start>>, FALSE)}

(* ---- why a returned chain (sequence of edge records) is not a permitted path ------------ *)
ChainReasons(E, start, ch) ==
  LET n == Len(ch)
      revisits == {<<i, j>> \in (1..n) \X (1..n) : i < j /\ ch[i].child = ch[j].child}
  IN
  {w \in {"wrong-start", "not-issuer-edge", "not-root-terminated", "through-root",
          "revisit-adjacent-self-signed", "revisit", "non-ca", "pathlen", "too-long"} :
     CASE w = "wrong-start"         -> n = 0 \/ ch[1] # start
       [] w = "not-issuer-edge"     -> \E i \in 1..(n-1) : ch[i].issuer = NoNode \/ ch[i+1].child # ch[i].issuer
       [] w = "not-root-terminated" -> n > 0 /\ ~ch[n].root
       [] w = "through-root"        -> \E i \in 1..(n-1) : ch[i].root
       \* the only repetition is a certificate directly following a certificate that is signed
       \* by its own (subject, key)
       [] w = "revisit-adjacent-self-signed" ->
              revisits # {} /\ \A r \in revisits : r[2] = r[1] + 1 /\ ch[r[1]].issuer = ch[r[1]].child
       [] w = "revisit"             ->
              \E r \in revisits : ~(r[2] = r[1] + 1 /\ ch[r[1]].issuer = ch[r[1]].child)
       [] w = "non-ca"              -> \E i \in 2..(n-1) : ~ch[i].ca
       [] w = "pathlen"             -> \E i \in 2..n : /\ ch[i].pathlen >= 0 /\ ~(i = n /\ ch[i].root)
                                                       /\ Between(SubSeq(ch, 1, i-1), TRUE) > ch[i].pathlen
       [] w = "too-long"            -> n > MaxLen}

(* ---- judge of one walk result ---------------------------------------------------------- *)
\* E: edge records of the observed graph; start: the start edge record; chains: sequence of
\* sequences of certificate ids as returned.  Returns the set of violated clauses.
WalkReasons2(E, start, chains, perm, req) ==
  LET all   == E \cup {start}
      known(ch) == \A i \in 1..Len(ch) : \E e \in all : e.id = ch[i]
      rec(ch)   == [i \in 1..Len(ch) |-> CHOOSE e \in all : e.id = ch[i]]
      ret   == RangeOf(chains)
      extra == ret \ perm
      missing == req \ ret
      \* the missing path ends (after at least one step) in a root edge without issuer in the graph
      dang(p) == Len(p) >= 2 /\ LET e == CHOOSE x \in all : x.id = p[Len(p)] IN e.root /\ e.issuer = NoNode
  IN (IF NoDup(chains) THEN {} ELSE {"duplicate-chain"})
     \cup (IF \E p \in missing : ~dang(p) THEN {"missing-chain"} ELSE {})
     \cup (IF \E p \in missing : dang(p) THEN {"missing:root-edge-issuer-absent"} ELSE {})
     \cup UNION {IF known(ch) THEN {"extra:" \o w : w \in ChainReasons(E, start, rec(ch))} \cup
                                    (IF ChainReasons(E, start, rec(ch)) = {} THEN {"extra:unclassified"} ELSE {})
                 ELSE {"extra:unknown-certificate"} : ch \in extra}

WalkReasons(E, start, chains) == WalkReasons2(E, start, chains, Permitted(E, start), Required(E, start))

(* ---- observation format (recorded by harness cmd/c11) -----------------------------------
   [edges  |-> sequence of [id, child, issuer, root, ca, pathlen, selfissued]   (observed graph)
    nodes  |-> sequence of <<subj, key>>                                        (observed graph)
    start  |-> [id, child, iss, skey, ca, pathlen, selfissued, ingraph]
    chains |-> sequence of sequences of ids
    closed |-> BOOLEAN  (the channel was closed after the consumer drained it; TRUE for sync)
    panic  |-> STRING   ("" = none)
    modes  |-> sequence of strings: the calls that produced exactly this result ]
   For a start certificate that is not in the graph the start edge is synthesised with the issuer
   being "the first verifying node": any node with the issuer name whose key verifies (or none if
   there is none) is allowed - the observation is accepted if some choice explains it.         *)
StartEdges(o) ==
  LET E == RangeOf(o.edges) IN
  IF o.start.ingraph
  THEN {e \in E : e.id = o.start.id}
  ELSE LET c == o.start
           cands == {n \in RangeOf(o.nodes) : n[1] = c.iss /\ Verifies(n[2], c)}
           mk(n) == [id |-> c.id, child |-> c.child, issuer |-> n, root |-> FALSE, ca |-> c.ca,
                     pathlen |-> c.pathlen, selfissued |-> c.selfissued]
       IN IF cands = {} THEN {mk(NoNode)} ELSE {mk(n) : n \in cands}

\* [why |-> violated clauses, open |-> number of paths the lenient reading permits, the strict
\*  one does not require, and the walk did not return]
WalkObsJudge(o) ==
  LET E  == RangeOf(o.edges)
      SE == StartEdges(o)
      js == {LET perm == Permitted(E, s)
                 req  == Required(E, s) IN
             [why  |-> WalkReasons2(E, s, o.chains, perm, req),
              open |-> Cardinality(perm \ RangeOf(o.chains)),
              nreq |-> Cardinality(req),
              ndang |-> Cardinality({p \in req : Len(p) >= 2 /\ \E e \in E : e.id = p[Len(p)] /\ e.issuer = NoNode}),
              maxlen |-> IF req = {} THEN 0 ELSE MaxOfSet({Len(p) : p \in req})] : s \in SE}
      base == (IF o.panic # "" THEN {"panic"} ELSE {}) \cup (IF o.closed THEN {} ELSE {"channel-not-closed"})
      good == {j \in js : j.why = {}}
      pick == IF good # {} THEN CHOOSE j \in good : TRUE ELSE CHOOSE j \in js : TRUE
  IN IF SE = {} THEN [why |-> base \cup {"start-edge-not-in-graph"}, open |-> 0, nreq |-> 0, ndang |-> 0, maxlen |-> 0]
     ELSE [why |-> base \cup pick.why, open |-> pick.open, nreq |-> pick.nreq, ndang |-> pick.ndang, maxlen |-> pick.maxlen]

WalkObsReasons(o) == WalkObsJudge(o).why

\* coverage tags computed from the input side (graph and start) only
WalkCover(o, j) ==
  {w \in {"required-path", "two-required-paths", "no-path", "synthesised-start-with-path", "optional-path",
          "path-of-max-length", "path-of-4", "path-to-root-without-issuer"} :
     CASE w = "required-path"      -> j.nreq >= 1
       [] w = "two-required-paths" -> j.nreq >= 2
       [] w = "no-path"            -> j.nreq = 0
       [] w = "synthesised-start-with-path" -> ~o.start.ingraph /\ j.nreq >= 1
       [] w = "optional-path"      -> j.why = {} /\ j.open > 0
       [] w = "path-of-max-length" -> j.maxlen = MaxLen
       [] w = "path-of-4"          -> j.maxlen >= 4
       [] w = "path-to-root-without-issuer" -> j.ndang >= 1}
=============================================================================
