------------------------------ MODULE CRLGen ------------------------------
(* C14 case generator (U2, constant level).  TLC enumerates every entry list up to
   MaxLen over the serial universe below x every query serial, evaluates the A layer
   (CRL.tla) and writes one JSON line per case with the demanded result:

     crl_universe.ndjson  one line: the serial universe (index -> content octets)
     crl_lookup.ndjson    {"e":[[serialIdx,time],..],"q":serialIdx,"rev":b,"t":time,
                           "ct":[allowed cached times]}
     crl_meta.ndjson      {"crl":{...},"meta":{...}}    list-level cases

   The harness never computes an expected value: it concretises the case (DER CRL through
   Go's standard library, query certificate through lib/pki), runs the real code and
   compares with "rev"/"t"/"ct"/"meta". *)
EXTENDS CRL, TLC, Json, SequencesExt, FiniteSetsExt

CONSTANTS MaxLen,      \* longest entry list
          USize,       \* how many serials of the universe are used (prefix)
          MaxLenB,     \* a second (length, universe) pair enumerated in the same run,
          USizeB,      \* e.g. shorter lists over the whole universe; 0, 0 = none
          Times,       \* set of revocation times
          LemmaLen,    \* lists up to this length are used for the cache lemma
          MaxExt,      \* longest list of non-number extensions
          MetaOnly     \* TRUE: only write the meta cases

Rep(b, n) == [i \in 1..n |-> b]

(* Serial universe, most discriminating first.  Each pair is chosen so that a plausible
   wrong comparison identifies two different serials:
     10 / 16        decimal "16" vs hex "10" keys (cache keyed by Text(16))
     1 / -1         comparison of magnitudes only
     0 / 2^64       truncation to 64 bits;  1 / 2^64+1 likewise
     255 / -1       content octets FF vs 00 FF (sign handling)
     2^158, -2^64, 2^159 (21 octets)  wide values *)
Universe == <<
  <<10>>, <<16>>, <<1>>, <<255>>, <<0>>,
  <<1>> \o Rep(0, 8),                  \* 2^64
  <<0, 255>>,                          \* 255
  <<1>> \o Rep(0, 7) \o <<1>>,         \* 2^64 + 1
  <<64>> \o Rep(0, 19),                \* 2^158
  <<255>> \o Rep(0, 8),                \* -2^64
  <<0, 128>> \o Rep(0, 19),            \* 2^159
  <<128>> \o Rep(0, 19)                \* -2^159
>>

ListsOver(u, n) == UNION {[1..k -> (1..u) \X Times] : k \in 0..n}

Abs(l) == [i \in 1..Len(l) |-> [s |-> Universe[l[i][1]], t |-> l[i][2]]]

LookupCase(l, q) ==
  LET e  == Abs(l)
      r  == Lookup(e, Universe[q])
      ca == CachedAllowed(e, Universe[q]) IN
  [e |-> l, q |-> q, rev |-> r.rev, t |-> r.t, ct |-> SetToSeq({x.t : x \in ca})]

LookupCases == {LookupCase(l, q) : l \in ListsOver(USize, MaxLen), q \in 1..USize}
               \cup {LookupCase(l, q) : l \in ListsOver(USizeB, MaxLenB), q \in 1..USizeB}

\* the lemma that the usual overwrite cache satisfies clause (4) - checked over the
\* lists up to LemmaLen
LemmaHolds == \A l \in ListsOver(USize, LemmaLen), q \in 1..USize : CacheLemma(Abs(l), Universe[q])

----------------------------------------------------------------------------
(* list-level cases *)
NumVals == << <<0>>, <<1>>, <<0, 255>>, <<127, 255, 255, 255>>, <<0, 128, 0, 0, 0>>,
              <<127>> \o Rep(255, 7),           \* 2^63 - 1
              <<0, 128>> \o Rep(0, 7),          \* 2^63: does not fit
              <<1>> \o Rep(0, 19) >>            \* 20 octets (RFC 5280 maximum)

\* extension menu: CRL number variants, authority key id, issuing distribution point
\* (critical in practice), delta indicator (critical), a private arc in both flavours
X(oid, crit, val) == [oid |-> oid, crit |-> crit, val |-> val]
NumExts == {X(CRLNumberOID, FALSE, IntDER(NumVals[i])) : i \in 1..Len(NumVals)}
OtherMenu == {X("2.5.29.35", FALSE, <<48, 0>>),
              X("2.5.29.28", TRUE,  <<48, 0>>),
              X("2.5.29.27", TRUE,  <<2, 1, 1>>),
              X("1.3.6.1.4.1.99999.1", TRUE,  <<5, 0>>),
              X("1.3.6.1.4.1.99999.1", FALSE, <<4, 1, 7>>),
              X("1.3.6.1.4.1.99999.2", FALSE, <<5, 0>>)}
ExtMenu == NumExts \cup OtherMenu

Distinct(l) == \A i, j \in 1..Len(l) : (l[i].oid = l[j].oid /\ l[i].crit = l[j].crit) => i = j
SeqsUpTo(S, n) == UNION {[1..k -> S] : k \in 0..n}

\* every ordered selection of up to MaxExt other extensions, with a CRL number extension
\* in every position (or none)
PutAt(l, k, e) == SubSeq(l, 1, k) \o <<e>> \o SubSeq(l, k + 1, Len(l))
ExtLists ==
  LET base == {l \in SeqsUpTo(OtherMenu, MaxExt) : Distinct(l)} IN
  base \cup UNION {{PutAt(l, k, n) : k \in 0..Len(l), n \in NumExts} : l \in base}

MetaCase(iss, tu, nu, xs) ==
  LET c == [issuer |-> iss, thisUpdate |-> tu, nextUpdate |-> nu, exts |-> xs] IN
  [crl |-> c, meta |-> Meta(c)]

\* 2051-01-01 = 978393600 s after 2020-01-01: forces GeneralizedTime in the DER
TimeCombos == {0, 86400, 978393600} \X {NoTime, 172800, 978393601}
FewExtLists == {<<>>, <<X(CRLNumberOID, FALSE, IntDER(<<1>>))>>,
                <<X("2.5.29.28", TRUE, <<48, 0>>), X(CRLNumberOID, FALSE, IntDER(<<0, 255>>)),
                  X("2.5.29.35", FALSE, <<48, 0>>)>>}
MetaCases ==
  {MetaCase(iss, tc[1], tc[2], xs) : iss \in {"N1", "N2"}, tc \in TimeCombos, xs \in FewExtLists}
  \cup {MetaCase("N1", 86400, 172800, xs) : xs \in ExtLists}

ASSUME MetaOnly \/ LemmaHolds
ASSUME MetaOnly \/ ndJsonSerialize("crl_lookup.ndjson", SetToSeq(LookupCases))
ASSUME ndJsonSerialize("crl_universe.ndjson", <<[universe |-> Universe]>>)
ASSUME ndJsonSerialize("crl_meta.ndjson", SetToSeq(MetaCases))
ASSUME PrintT(<<"CASES", IF MetaOnly THEN 0 ELSE Cardinality(LookupCases), Cardinality(MetaCases)>>)

\* a trivial behaviour spec so that TLC has something to run after the ASSUMEs
VARIABLE done
Init == done = TRUE
Next == UNCHANGED done
Spec == Init /\ [][Next]_done
=============================================================================
