--------------------------- MODULE Trace_TLSConn ---------------------------
(* C34 trace validator (U3): executions recorded from a real tls.Conn (harness cmd/c34) are accepted
   iff they satisfy the A layer of TLSConn.tla.  Many traces per file, separated by "reset".

   events (one JSON object per line, merged from per-goroutine logs by a monotonic time stamp;
   a "cs" stamp is taken before the call, a "ce" stamp after it returned):
     {"ev":"reset","id":n}
     {"ev":"cs","g":g,"k":k,"call":c [,"w":id,"len":n,"loop":b]}   a call of goroutine g starts (Write: payload id/length;
                                                              loop: the payload is handed over in many small Writes)
     {"ev":"ce","g":g,"k":k,"call":c,"cls":class [,"runs":[..]]}   it ended (Read: the runs it returned)
     {"ev":"pw","w":id,"len":n,"k":order}                     the peer starts writing a payload
     {"ev":"pr","runs":[..]}                                  the peer's reader returned these runs
     {"ev":"pclose"} {"ev":"phr"}                             the peer closed first / sent HelloRequest and will refuse
                                                              the renegotiation (it may not have read everything)
     {"ev":"dblw","n":n}                                      n > 1 transport writes of the connection in flight at once
     {"ev":"final","peerdone":b}                              transport down, deadlines expired, watchdog elapsed
     other events ("phs","pwe","preof","expire","down") carry no obligation.                         *)
EXTENDS TLSConn, TLC, Json

Trace == ndJsonDeserialize("tlsconn_trace.ndjson")

VARIABLES l,        \* next line
          writes,   \* CUT writes started: id -> [g, k, len]
          pred,     \* id -> set of write ids that had returned success when this write started
          okW,      \* write ids whose Write returned success
          recv,     \* runs received by the peer, in order
          sent,     \* peer writes started: id -> [k, len]
          claimed,  \* runs returned by Reads of the CUT
          floor,    \* goroutine -> position of the last byte returned by Reads that ended before its open Read started
          maxEnd,   \* position of the last byte returned by any ended Read
          open,     \* calls that started and have not ended: set of <<g, k>>
          pclosed

tvars == <<l, writes, pred, okW, recv, sent, claimed, floor, maxEnd, open, pclosed>>

Empty == [x \in {} |-> 0]
Ext(f, k, v) == [x \in DOMAIN f \cup {k} |-> IF x = k THEN v ELSE f[x]]

TraceInit ==
  /\ l = 1 /\ writes = Empty /\ pred = Empty /\ okW = {} /\ recv = <<>> /\ sent = Empty /\ claimed = <<>>
  /\ floor = Empty /\ maxEnd = <<0, 0>> /\ open = {} /\ pclosed = FALSE
  /\ TLCSet(1, 1)

RECURSIVE PeerRunsOK(_, _)
PeerRunsOK(rv, runs) ==
  IF runs = <<>> THEN TRUE
  ELSE LET r == Head(runs) IN
       /\ ToPeerRunOK(rv, writes, r)
       /\ RealTimeOK(rv, writes, [v \in DOMAIN writes |-> [w \in DOMAIN writes |-> v \in pred[w]]], r)
       /\ PeerRunsOK(Append(rv, r), Tail(runs))

RECURSIVE ReadRunsOK(_, _, _)
ReadRunsOK(cl, fl, runs) ==
  IF runs = <<>> THEN TRUE
  ELSE LET r == Head(runs) IN
       /\ FromPeerRunOK(cl, sent, r)
       /\ FloorOK(sent, fl, r)
       /\ ReadRunsOK(Append(cl, r), PosLast(sent, r), Tail(runs))

MaxPos(p, q) == IF Before(sent, p, q) THEN q ELSE p

TraceNext ==
  /\ l <= Len(Trace)
  /\ l' = l + 1
  /\ LET e == Trace[l] IN
     CASE e.ev = "reset" ->
            /\ writes' = Empty /\ pred' = Empty /\ okW' = {} /\ recv' = <<>> /\ sent' = Empty /\ claimed' = <<>>
            /\ floor' = Empty /\ maxEnd' = <<0, 0>> /\ open' = {} /\ pclosed' = FALSE
       [] e.ev = "cs" ->
            /\ <<e.g, e.k>> \notin open
            /\ open' = open \cup {<<e.g, e.k>>}
            /\ IF e.call \in {"Write", "Write2"}
               THEN /\ e.w \notin DOMAIN writes
                    /\ writes' = Ext(writes, e.w, [g |-> e.g, k |-> e.k, len |-> e.len, loop |-> e.loop])
                    /\ pred' = Ext(pred, e.w, okW)
               ELSE UNCHANGED <<writes, pred>>
            /\ floor' = IF e.call = "Read" THEN Ext(floor, e.g, maxEnd) ELSE floor
            /\ UNCHANGED <<okW, recv, sent, claimed, maxEnd, pclosed>>
       [] e.ev = "ce" ->
            /\ <<e.g, e.k>> \in open
            /\ open' = open \ {<<e.g, e.k>>}
            /\ okW' = IF e.call \in {"Write", "Write2"} /\ e.cls = "ok" THEN okW \cup {e.w} ELSE okW
            /\ IF e.call = "Read"
               THEN /\ ReadRunsOK(claimed, floor[e.g], e.runs)
                    /\ claimed' = claimed \o e.runs
                    /\ maxEnd' = IF e.runs = <<>> THEN maxEnd
                                 ELSE MaxPos(maxEnd, PosLast(sent, e.runs[Len(e.runs)]))
               ELSE UNCHANGED <<claimed, maxEnd>>
            /\ UNCHANGED <<writes, pred, recv, sent, floor, pclosed>>
       [] e.ev = "pw" ->
            /\ e.w \notin DOMAIN sent
            /\ sent' = Ext(sent, e.w, [k |-> e.k, len |-> e.len])
            /\ UNCHANGED <<writes, pred, okW, recv, claimed, floor, maxEnd, open, pclosed>>
       [] e.ev = "pr" ->
            /\ PeerRunsOK(recv, e.runs)
            /\ recv' = recv \o e.runs
            /\ UNCHANGED <<writes, pred, okW, sent, claimed, floor, maxEnd, open, pclosed>>
       [] e.ev \in {"pclose", "phr"} ->      \* "phr": the peer asks for a renegotiation, which a zcrypto peer then
                                            \* refuses with a fatal alert - it ends the connection like a close
            /\ pclosed' = TRUE
            /\ UNCHANGED <<writes, pred, okW, recv, sent, claimed, floor, maxEnd, open>>
       [] e.ev = "dblw" ->                   \* the scheduler saw e.n goroutines inside transport Write at once
            /\ NoOverlap(e.n)
            /\ UNCHANGED <<writes, pred, okW, recv, sent, claimed, floor, maxEnd, open, pclosed>>
       [] e.ev = "final" ->
            /\ AllEnded(open)
            /\ NoHole(claimed, sent)
            /\ (~pclosed /\ e.peerdone) => \A w \in okW : Delivered(recv, writes, w)
            /\ IF \A w \in DOMAIN writes : writes[w].loop \/ WriteAtomic(recv, w) THEN TRUE
               ELSE PrintT(<<"NONATOMIC", l>>)                        \* observation only, never a rejection
            /\ UNCHANGED <<writes, pred, okW, recv, sent, claimed, floor, maxEnd, open, pclosed>>
       [] OTHER ->
            UNCHANGED <<writes, pred, okW, recv, sent, claimed, floor, maxEnd, open, pclosed>>

TraceSpec == TraceInit /\ [][TraceNext]_tvars

HWM == TLCSet(1, IF l > TLCGet(1) THEN l ELSE TLCGet(1))
Accepted == \/ TLCGet(1) = Len(Trace) + 1
            \/ PrintT(<<"HWM", TLCGet(1)>>) /\ FALSE

\* observation (not a verdict): every Write arrived as one contiguous piece
\* (a "loop" write is one payload handed over in many Write calls by the harness: not one Write)
AtomicObs == \A w \in DOMAIN writes : writes[w].loop \/ WriteAtomic(recv, w)
=============================================================================
