---------------------------- MODULE Issuance5Gen ----------------------------
(* C05 case generator (U2): certificate requests, legacy CRLs and v2 revocation lists with the
   Expected records of Issuance.tla (ExpectedCSR / ExpectedCRL / ExpectedRL).  Uses the value
   pools of IssuanceGen.  Group in {"csr", "crl", "rl"}. *)
EXTENDS IssuanceGen

-----------------------------------------------------------------------------
(* certificate requests *)
Quick5 == Group \in {"c05quick", "rlquick"}
QTimes == IF Quick5 THEN { T(662774400, 0, 0), T(Y2050 - 1, 500, -720), T(Y2050, 0, 0), T(700000000, 999999999, 330) } ELSE Times
CSRBase == [subject |-> N("csr.example"), rawSubject |-> <<>>, dns |-> <<>>, emails |-> <<>>, ips |-> <<>>,
            extras |-> <<>>, key |-> "ed25519", sigAlg |-> "default"]
CSRExtras == { <<>>, <<XRaw("1.3.6.1.4.1.99999.42", FALSE, "0500")>>, <<Override("san")>>,
               <<XRaw("1.3.6.1.4.1.99999.43", TRUE, "04030a0b0c"), Override("san"), XRaw("2.5.29.15", TRUE, "03020780")>> }
CSRTemplates ==
  { [CSRBase EXCEPT !.subject = s, !.rawSubject = r] : s \in Names, r \in {<<>>, <<NameFull>>, <<NameSpecial>>} }
  \cup { [CSRBase EXCEPT !.dns = d, !.emails = e, !.ips = i, !.extras = x] :
           d \in DNSLists, e \in EmailLists, i \in IPLists, x \in CSRExtras }
  \* every key type x every requested algorithm, with and without extensions
  \cup { [CSRBase EXCEPT !.key = k, !.sigAlg = a, !.dns = d] :
           k \in KeyTypes, a \in SigAlgs \cup {"default", "bogus"}, d \in IF Quick5 THEN {<<"a.example">>} ELSE {<<>>, <<"a.example">>} }
CSRCases == { [t |-> t, exp |-> ExpectedCSR(t)] : t \in CSRTemplates }

-----------------------------------------------------------------------------
(* issuers *)
\* by: <<>> = the signer is self-signed; <<name>> = the signer is an intermediate / cross-signed CA issued
\* under that other name (its own issuer # its subject)
IssuerRec(subject, skid, key, crlSign, canSign) ==
  [subject |-> subject, skid |-> skid, key |-> key, crlSign |-> crlSign, canSign |-> canSign, by |-> <<>>]
IssuerBase == IssuerRec([N("CRL Issuer") EXCEPT !.o = <<"Issuing Org">>], "a1a2a3a4a5", "ed25519", TRUE, TRUE)
IssuerVariants == { IssuerBase,
                    [IssuerBase EXCEPT !.subject = NameFull], [IssuerBase EXCEPT !.subject = NameSpecial],
                    [IssuerBase EXCEPT !.skid = "000102030405060708090a0b0c0d0e0f10111213"],
                    [IssuerBase EXCEPT !.skid = ""],              \* outside the preconditions (v2)
                    [IssuerBase EXCEPT !.crlSign = FALSE],        \* outside the preconditions (v2)
                    [IssuerBase EXCEPT !.canSign = FALSE],        \* issuer that is no CA
                    \* the signer dimension: intermediate, cross-signed, multi-RDN / UTF-8 subjects
                    [IssuerBase EXCEPT !.by = <<N("Root CA")>>],
                    [IssuerBase EXCEPT !.by = <<[N("CRL Issuer") EXCEPT !.o = <<"Another Org">>]>>],
                    [IssuerBase EXCEPT !.subject = NameFull, !.by = <<NameSpecial>>],
                    [IssuerBase EXCEPT !.subject = NameSpecial, !.by = <<NameFull>>, !.skid = "0102"] }

-----------------------------------------------------------------------------
(* v2 revocation lists *)
ReasonExt(code) == XRaw(ReasonOid, FALSE, IF code = 5 THEN "0a0105" ELSE "0a0101")
OtherEntryExt == XRaw("2.5.29.24", FALSE, "180f32303230303130313030303030305a")    \* invalidityDate
UserExts == [none |-> <<>>, reason |-> <<ReasonExt(5)>>, other |-> <<OtherEntryExt>>,
             both |-> <<OtherEntryExt, ReasonExt(5)>>, same |-> <<ReasonExt(1)>>]
RLEntry(serial, time, reason, extras) == [serial |-> serial, time |-> time, reason |-> reason, extras |-> extras]
EntrySerials == <<"01", "8000000000000000", "010000000000000001", "7fffffffffffffffffffffffffffffffffffffff">>
Reasons == {-1, 0, 1, 9}
\* every entry class alone, with every serial class
SingleEntries == { <<RLEntry(EntrySerials[i], T(700000000, 0, 0), r, UserExts[u])>> :
                     i \in 1..4, r \in Reasons \cup {10}, u \in DOMAIN UserExts }
\* lists of length <= MaxEntries over reason x user-extension classes, serial class by position
EClasses == Reasons \X {"none", "reason", "both"}
MaxEntries == IF Group \in {"rlquick", "c05quick"} THEN 2 ELSE 3
EntryLists == { [i \in DOMAIN l |-> RLEntry(EntrySerials[i], T(700000000 + i, 0, 0), l[i][1], UserExts[l[i][2]])] :
                  l \in UNION { [1..n -> EClasses] : n \in 0..MaxEntries } }
RLBase == [entries |-> <<>>, number |-> "01", numberOctets |-> 1,
           thisUpdate |-> T(662774400, 0, 0), nextUpdate |-> T(663379200, 0, 0),
           extras |-> <<>>, sigAlg |-> "default", issuer |-> IssuerBase]
Numbers == { <<"00", 1>>, <<"01", 1>>, <<"7f", 1>>, <<"80", 2>>, <<"8000000000000000", 9>>,
             <<"7fffffffffffffffffffffffffffffffffffffff", 20>>,
             <<"ffffffffffffffffffffffffffffffffffffffff", 21>>,      \* exceeds 20 octets
             <<"", 0>> }                                                \* nil
RLTemplates ==
  { [RLBase EXCEPT !.entries = e] : e \in SingleEntries }
  \cup { [RLBase EXCEPT !.entries = l] : l \in EntryLists }
  \cup { [RLBase EXCEPT !.number = n[1], !.numberOctets = n[2], !.entries = e] :
           n \in Numbers, e \in {<<>>, <<RLEntry("01", T(700000000, 0, 0), 1, <<>>)>>} }
  \cup { [RLBase EXCEPT !.thisUpdate = a, !.nextUpdate = b] : a \in QTimes, b \in QTimes }
  \cup { [RLBase EXCEPT !.issuer = i, !.extras = x] : i \in IssuerVariants,
           x \in {<<>>, <<XRaw("2.5.29.28", TRUE, "3000")>>, <<XRaw("1.3.6.1.4.1.99999.42", FALSE, "0500"), XRaw("2.5.29.28", TRUE, "3000")>>} }
  \cup { [RLBase EXCEPT !.issuer = [IssuerBase EXCEPT !.key = k], !.sigAlg = a, !.entries = e] :
           k \in KeyTypes, a \in SigAlgs \cup {"default", "bogus"},
           e \in IF Quick5 THEN {<<RLEntry("01", T(700000000, 0, 0), 1, <<>>)>>} ELSE {<<>>, <<RLEntry("01", T(700000000, 0, 0), 1, <<>>)>>} }
RLCases == { [t |-> t, exp |-> ExpectedRL(t)] : t \in RLTemplates }

-----------------------------------------------------------------------------
(* legacy CRLs *)
CRLEntry(serial, time, extras) == [serial |-> serial, time |-> time, extras |-> extras]
CRLEntryLists == { <<>> }
  \cup { <<CRLEntry(EntrySerials[i], t, UserExts[u])>> : i \in 1..4, t \in QTimes, u \in DOMAIN UserExts }
  \cup { <<CRLEntry("01", T(700000000, 0, 0), <<>>), CRLEntry("8000000000000000", T(Y2050, 0, 0), UserExts["both"]),
           CRLEntry("02", T(700000000, 500, 60), UserExts["reason"])>> }
CRLBase == [entries |-> <<>>, now |-> T(662774400, 0, 0), expiry |-> T(663379200, 0, 0), issuer |-> IssuerBase]
CRLTemplates ==
  { [CRLBase EXCEPT !.entries = e, !.issuer = i] : e \in CRLEntryLists,
      i \in {IssuerBase, [IssuerBase EXCEPT !.skid = ""], [IssuerBase EXCEPT !.subject = NameFull, !.by = <<N("Root CA")>>]} }
  \cup { [CRLBase EXCEPT !.now = a, !.expiry = b] : a \in QTimes, b \in QTimes }
  \cup { [CRLBase EXCEPT !.issuer = [i EXCEPT !.key = k], !.entries = e] : i \in IssuerVariants, k \in KeyTypes,
           e \in IF Quick5 THEN {<<CRLEntry("01", T(700000000, 0, 0), <<>>)>>} ELSE {<<>>, <<CRLEntry("01", T(700000000, 0, 0), <<>>)>>} }
CRLCases == { [t |-> t, exp |-> ExpectedCRL(t)] : t \in CRLTemplates }

All5 == Group \in {"c05", "c05quick"}
Cases5 == CASE Group = "csr" -> CSRCases
            [] Group \in {"rl", "rlquick"} -> RLCases
            [] Group = "crl" -> CRLCases
            [] OTHER -> {}
ASSUME All5 \/ ndJsonSerialize("iss_cases.ndjson", SetToSeq(Cases5))
ASSUME All5 \/ PrintT(<<"CASES", Cardinality(Cases5)>>)
\* one run for all three object kinds
ASSUME ~All5 \/ ndJsonSerialize("iss_cases_csr.ndjson", SetToSeq(CSRCases))
ASSUME ~All5 \/ ndJsonSerialize("iss_cases_rl.ndjson", SetToSeq(RLCases))
ASSUME ~All5 \/ ndJsonSerialize("iss_cases_crl.ndjson", SetToSeq(CRLCases))
ASSUME ~All5 \/ PrintT(<<"CASES", Cardinality(CSRCases), Cardinality(RLCases), Cardinality(CRLCases)>>)
=============================================================================
