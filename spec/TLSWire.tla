------------------------------- MODULE TLSWire -------------------------------
(* C30 (and the ClientHello part of C29): wire layouts of the TLS handshake messages
   and of the two session-state encodings, as byte-sequence-building operators (Role F).

   A message type is described ONCE, by a grammar (a sequence of nodes of the TLS
   presentation language: fixed fields, length-prefixed vectors, lists, extension
   blocks).  Two generic operators interpret a grammar:

       LSeq(grammar, v)        the bytes that encode the abstract value v
       PSeq(grammar, bytes)    the abstract value encoded by bytes, or failure

   The grammars transcribe RFC 5246 (7.4.x), RFC 5077 (3.3), RFC 6066, RFC 7301,
   RFC 6962 (3.3.1), RFC 7627, RFC 5746, RFC 8446 (4.x) field by field; the session
   states follow the struct comments in tls/ticket.go.  The names of the fields of an
   abstract value are the names of the Go struct fields, so that the harness can move
   values in and out of the real structs generically.  Abstract field values:
       integers (uint8/16/32/64)   big-endian byte sequences of the field's width
       []byte, string              byte sequences
       bool                        BOOLEAN
       []uint16-like               sequences of 2-byte sequences
       [][]byte, []string          sequences of byte sequences
       struct / []struct           records / sequences of records
   Fields that are not part of the encoding (raw, serverKeyExchangeMsg.digest,
   clientHelloMsg.sctEnabled / unknownExtensions, sessionState.usedOldKey) are not part of
   the abstract value.

   Inside TLC (TLSWireCheck.tla): PSeq(LSeq(v)) = v for every generated value, and the truncation
   clause.  "Message types whose encoding has no optional tail": the encoding of a handshake
   message is  msg_type(1) + uint24 length + body  and the header's length is authoritative for the
   body, so a strict prefix of a valid encoding always has fewer body bytes than its own header
   announces.  A type HAS an optional tail iff its grammar ends in an extension block that may be
   omitted altogether (ClientHello, ServerHello: "optionally followed by extension data" - both
   the code and crypto/tls's own test treat a hello cut in front of the extensions as acceptable);
   every other type - including the ones whose body is one opaque field (ServerKeyExchange,
   ClientKeyExchange, Finished), for which only the header says where the body ends - has none, and
   no strict prefix of a valid encoding may be accepted.  TLC checks on the specification that
   Parse (which enforces the header length) rejects every strict prefix for those types, and that
   for the two hellos a valid body really has a strict prefix that is a valid body.               *)
EXTENDS Integers, Sequences, FiniteSets, TLC

----------------------------------------------------------------------------
(* bytes *)
Pow256(k) == CASE k = 0 -> 1 [] k = 1 -> 256 [] k = 2 -> 65536 [] k = 3 -> 16777216
BE(n, w) == [i \in 1..w |-> (n \div Pow256(w - i)) % 256]
Num(bs) == CASE Len(bs) = 0 -> 0
             [] Len(bs) = 1 -> bs[1]
             [] Len(bs) = 2 -> bs[1] * 256 + bs[2]
             [] Len(bs) = 3 -> bs[1] * 65536 + bs[2] * 256 + bs[3]
TakeB(s, k) == SubSeq(s, 1, k)
DropB(s, k) == SubSeq(s, k + 1, Len(s))
Zeros(n) == [i \in 1..n |-> 0]
RECURSIVE Flat(_)
Flat(ss) == IF Len(ss) = 0 THEN <<>> ELSE Head(ss) \o Flat(Tail(ss))
Vec8(b)  == BE(Len(b), 1) \o b
Vec16(b) == BE(Len(b), 2) \o b
Vec24(b) == BE(Len(b), 3) \o b
NoV == <<>>          \* the empty function: no fields

----------------------------------------------------------------------------
(* grammar nodes *)
Node(k, f, n, m, sub, c, tab) == [k |-> k, f |-> f, n |-> n, m |-> m, sub |-> sub, c |-> c, tab |-> tab]
U(f, n)        == Node("u", f, n, 0, <<>>, <<>>, <<>>)        \* n bytes, fixed
Bool(f)        == Node("bool", f, 1, 0, <<>>, <<>>, <<>>)     \* one byte 0/1
C(c)           == Node("c", "", 0, 0, <<>>, c, <<>>)          \* constant bytes
Vec(f, n, m)   == Node("vec", f, n, m, <<>>, <<>>, <<>>)      \* opaque f<m..2^(8n)-1>
Rest(f)        == Node("rest", f, 0, 0, <<>>, <<>>, <<>>)     \* opaque to the end of the enclosing region
Wrap(n, sub)   == Node("wrap", "", n, 0, sub, <<>>, <<>>)     \* n-byte length prefix around a sub-grammar
ManyV(f, item, m) == Node("manyv", f, 0, m, <<item>>, <<>>, <<>>)  \* >= m items (one anonymous field "it") to the end of the region
ManyR(f, sub, m)  == Node("manyr", f, 0, m, sub, <<>>, <<>>)       \* >= m records to the end of the region
Rec(f, sub)    == Node("rec", f, 0, 0, sub, <<>>, <<>>)       \* a nested struct
CertList13(f)  == Node("certlist13", f, 0, 0, <<>>, <<>>, <<>>)    \* RFC 8446 4.4.2 certificate_list (see below)
CertFlags      == Node("certflags", "", 0, 0, <<>>, <<>>, <<>>)    \* derived booleans of certificateMsgTLS13
(* extension block: u16-length-prefixed list of (type u16, opaque data<0..2^16-1>).
   tab = sequence of entries; omit: the whole block is absent when no extension is present
   (ClientHello / ServerHello); unk: "" = unknown extensions are ignored, otherwise the name
   of the field that collects them verbatim.                                            *)
Exts(tab, omit, unk) == Node("exts", unk, IF omit THEN 1 ELSE 0, 0, <<>>, <<>>, tab)
(* entry: typ; pk/pf say when the extension is present in the encoding of v:
     "flag"      v[pf] = TRUE            "nonempty"  v[pf] # <<>>
     "nonzero"   v[pf] is not all-zero   "nonzerorec" v[pf].group is not zero
   g = grammar of extension_data; last = must be the last extension (pre_shared_key).   *)
E(typ, pk, pf, g, last) == [typ |-> typ, pk |-> pk, pf |-> pf, g |-> g, last |-> last]

U16List(f, n, m) == Wrap(n, <<ManyV(f, U("it", 2), m)>>)
VecList(f, n, w, mi, m) == Wrap(n, <<ManyV(f, Vec("it", w, mi), m)>>)

----------------------------------------------------------------------------
(* defaults: the value of every field when nothing encodes it *)
RECURSIVE DefSeq(_), DefTab(_)
DefTab(tab) == IF Len(tab) = 0 THEN NoV
               ELSE (IF Head(tab).pk = "flag" THEN Head(tab).pf :> FALSE ELSE NoV) @@ DefSeq(Head(tab).g) @@ DefTab(Tail(tab))
EmptyCert == [certs |-> <<>>, ocsp |-> <<>>, scts |-> <<>>]
DefG(g) == CASE g.k = "u" -> g.f :> Zeros(g.n)
             [] g.k = "bool" -> g.f :> FALSE
             [] g.k \in {"vec", "rest", "manyv", "manyr"} -> g.f :> <<>>
             [] g.k = "wrap" -> DefSeq(g.sub)
             [] g.k = "rec" -> g.f :> DefSeq(g.sub)
             [] g.k = "certlist13" -> g.f :> EmptyCert
             [] g.k = "certflags" -> [ocspStapling |-> FALSE, scts |-> FALSE]
             [] g.k = "exts" -> (IF g.f = "" THEN NoV ELSE g.f :> <<>>) @@ DefTab(g.tab)
             [] OTHER -> NoV
DefSeq(gs) == IF Len(gs) = 0 THEN NoV ELSE DefG(Head(gs)) @@ DefSeq(Tail(gs))

----------------------------------------------------------------------------
(* RFC 8446 4.4.2:
     struct { opaque cert_data<1..2^24-1>; Extension extensions<0..2^16-1>; } CertificateEntry;
     CertificateEntry certificate_list<0..2^24-1>;
   zcrypto's Certificate value carries an OCSP staple and SCTs for the leaf only:
     status_request (5):  CertificateStatus { status_type = ocsp(1); opaque response<1..2^24-1> }
     signed_certificate_timestamp (18): SerializedSCT sct_list<1..2^16-1>, each opaque<1..2^16-1>  *)
LeafExts(c) ==
  (IF c.ocsp # <<>> THEN BE(5, 2) \o Vec16(<<1>> \o Vec24(c.ocsp)) ELSE <<>>) \o
  (IF c.scts # <<>> THEN BE(18, 2) \o Vec16(Vec16(Flat([j \in 1..Len(c.scts) |-> Vec16(c.scts[j])]))) ELSE <<>>)
LCert13(c) ==
  Vec24(Flat([i \in 1..Len(c.certs) |->
                Vec24(c.certs[i]) \o Vec16(IF i = 1 THEN LeafExts(c) ELSE <<>>)]))

----------------------------------------------------------------------------
(* Layout *)
PresentE(e, v) ==
  CASE e.pk = "flag" -> v[e.pf]
    [] e.pk = "nonempty" -> v[e.pf] # <<>>
    [] e.pk = "nonzero" -> v[e.pf] # Zeros(Len(v[e.pf]))
    [] e.pk = "nonzerorec" -> v[e.pf].group # <<0, 0>>

RECURSIVE LG(_, _), LSeq(_, _), LTab(_, _)
LSeq(gs, v) == IF Len(gs) = 0 THEN <<>> ELSE LG(Head(gs), v) \o LSeq(Tail(gs), v)
LTab(tab, v) == IF Len(tab) = 0 THEN <<>>
                ELSE (IF PresentE(Head(tab), v) THEN BE(Head(tab).typ, 2) \o Vec16(LSeq(Head(tab).g, v)) ELSE <<>>)
                     \o LTab(Tail(tab), v)
LG(g, v) ==
  CASE g.k = "u" -> v[g.f]
    [] g.k = "bool" -> IF v[g.f] THEN <<1>> ELSE <<0>>
    [] g.k = "c" -> g.c
    [] g.k = "vec" -> BE(Len(v[g.f]), g.n) \o v[g.f]
    [] g.k = "rest" -> v[g.f]
    [] g.k = "wrap" -> LET b == LSeq(g.sub, v) IN BE(Len(b), g.n) \o b
    [] g.k = "manyv" -> IF g.sub[1].k = "u"
                        THEN LET w == g.sub[1].n IN      \* fixed-width items: no recursion (lists of 2^15 items)
                             [k \in 1..(Len(v[g.f]) * w) |-> v[g.f][((k - 1) \div w) + 1][((k - 1) % w) + 1]]
                        ELSE Flat([i \in 1..Len(v[g.f]) |-> LG(g.sub[1], [it |-> v[g.f][i]])])
    [] g.k = "manyr" -> Flat([i \in 1..Len(v[g.f]) |-> LSeq(g.sub, v[g.f][i])])
    [] g.k = "rec" -> LSeq(g.sub, v[g.f])
    [] g.k = "certlist13" -> LCert13(v[g.f])
    [] g.k = "certflags" -> <<>>
    [] g.k = "exts" -> LET b == LTab(g.tab, v) \o (IF g.f = "" THEN <<>> ELSE Flat(v[g.f]))
                       IN IF g.n = 1 /\ b = <<>> THEN <<>> ELSE Vec16(b)

----------------------------------------------------------------------------
(* Parse.  A result is [ok, v, rest].                                                  *)
Fail == [ok |-> FALSE, v |-> NoV, rest |-> <<>>]
Ok(v, rest) == [ok |-> TRUE, v |-> v, rest |-> rest]

(* generic walk over an extension list: returns the sequence of <<typ, data, whole>> or failure *)
RECURSIVE SplitExts(_, _)
SplitExts(s, acc) ==
  IF Len(s) = 0 THEN [ok |-> TRUE, xs |-> acc]
  ELSE IF Len(s) < 4 THEN [ok |-> FALSE, xs |-> <<>>]
  ELSE LET l == Num(SubSeq(s, 3, 4)) IN
       IF Len(s) < 4 + l THEN [ok |-> FALSE, xs |-> <<>>]
       ELSE SplitExts(DropB(s, 4 + l),
                      Append(acc, [typ |-> Num(SubSeq(s, 1, 2)), data |-> SubSeq(s, 5, 4 + l), whole |-> TakeB(s, 4 + l)]))

RECURSIVE SplitVecs(_, _, _, _)
(* region s = items opaque<mi..>, each with a w-byte length prefix *)
SplitVecs(s, w, mi, acc) ==
  IF Len(s) = 0 THEN [ok |-> TRUE, xs |-> acc]
  ELSE IF Len(s) < w THEN [ok |-> FALSE, xs |-> <<>>]
  ELSE LET l == Num(TakeB(s, w)) IN
       IF Len(s) < w + l \/ l < mi THEN [ok |-> FALSE, xs |-> <<>>]
       ELSE SplitVecs(DropB(s, w + l), w, mi, Append(acc, SubSeq(s, w + 1, w + l)))

(* the leaf extensions of a TLS 1.3 certificate entry *)
RECURSIVE PLeafExts(_, _, _)
PLeafExts(xs, c, seen) ==
  IF Len(xs) = 0 THEN [ok |-> TRUE, c |-> c]
  ELSE LET x == Head(xs) IN
       IF x.typ = 5 THEN
         IF 5 \in seen \/ Len(x.data) < 4 \/ x.data[1] # 1 THEN [ok |-> FALSE, c |-> c]
         ELSE LET l == Num(SubSeq(x.data, 2, 4)) IN
              IF l = 0 \/ Len(x.data) # 4 + l THEN [ok |-> FALSE, c |-> c]
              ELSE PLeafExts(Tail(xs), [c EXCEPT !.ocsp = SubSeq(x.data, 5, 4 + l)], seen \cup {5})
       ELSE IF x.typ = 18 THEN
         IF 18 \in seen \/ Len(x.data) < 2 \/ Num(TakeB(x.data, 2)) # Len(x.data) - 2 THEN [ok |-> FALSE, c |-> c]
         ELSE LET r == SplitVecs(DropB(x.data, 2), 2, 1, <<>>) IN
              IF ~r.ok \/ Len(r.xs) = 0 THEN [ok |-> FALSE, c |-> c]
              ELSE PLeafExts(Tail(xs), [c EXCEPT !.scts = r.xs], seen \cup {18})
       ELSE PLeafExts(Tail(xs), c, seen)

RECURSIVE PEntries13(_, _, _)
PEntries13(s, c, idx) ==
  IF Len(s) = 0 THEN [ok |-> TRUE, c |-> c]
  ELSE IF Len(s) < 3 THEN [ok |-> FALSE, c |-> c]
  ELSE LET l == Num(TakeB(s, 3)) IN
       IF l = 0 \/ Len(s) < 3 + l + 2 THEN [ok |-> FALSE, c |-> c]
       ELSE LET cert == SubSeq(s, 4, 3 + l)
                s2 == DropB(s, 3 + l)
                el == Num(TakeB(s2, 2))
            IN IF Len(s2) < 2 + el THEN [ok |-> FALSE, c |-> c]
               ELSE LET xs == SplitExts(SubSeq(s2, 3, 2 + el), <<>>)
                        c1 == [c EXCEPT !.certs = Append(@, cert)]
                    IN IF ~xs.ok THEN [ok |-> FALSE, c |-> c]
                       ELSE IF idx = 1
                            THEN LET r == PLeafExts(xs.xs, c1, {}) IN
                                 IF ~r.ok THEN [ok |-> FALSE, c |-> c] ELSE PEntries13(DropB(s2, 2 + el), r.c, idx + 1)
                            ELSE PEntries13(DropB(s2, 2 + el), c1, idx + 1)

PCert13(s) ==
  IF Len(s) < 3 THEN Fail
  ELSE LET l == Num(TakeB(s, 3)) IN
       IF Len(s) < 3 + l THEN Fail
       ELSE LET r == PEntries13(SubSeq(s, 4, 3 + l), EmptyCert, 1) IN
            IF r.ok THEN [ok |-> TRUE, c |-> r.c, rest |-> DropB(s, 3 + l)] ELSE Fail

RECURSIVE PG(_, _, _), PSeq(_, _, _), PManyR(_, _, _), PExtList(_, _, _, _, _)
PSeq(gs, s, acc) ==
  IF Len(gs) = 0 THEN Ok(acc, s)
  ELSE LET r == PG(Head(gs), s, acc) IN
       IF ~r.ok THEN Fail ELSE PSeq(Tail(gs), r.rest, r.v @@ acc)

PManyR(gs, s, acc) ==
  IF Len(s) = 0 THEN [ok |-> TRUE, xs |-> acc]
  ELSE LET r == PSeq(gs, s, NoV) IN
       IF ~r.ok \/ Len(r.rest) >= Len(s) THEN [ok |-> FALSE, xs |-> <<>>]
       ELSE PManyR(gs, r.rest, Append(acc, r.v))

(* RFC 8446 4.2: "There MUST NOT be more than one extension of the same type in a given
   extension block"; unknown extension types are ignored (or collected).                *)
PExtList(g, xs, acc, seen, i) ==
  IF i > Len(xs) THEN Ok(acc, <<>>)
  ELSE LET x == xs[i]
           cands == {j \in 1..Len(g.tab) : g.tab[j].typ = x.typ}
           good == {j \in cands : LET r == PSeq(g.tab[j].g, x.data, NoV) IN r.ok /\ r.rest = <<>>}
       IN IF cands = {} THEN
            PExtList(g, xs, IF g.f = "" THEN acc ELSE (g.f :> Append(acc[g.f], x.whole)) @@ acc, seen, i + 1)
          ELSE IF x.typ \in seen \/ good = {} THEN Fail
          ELSE LET j == CHOOSE a \in good : \A b \in good : a <= b
                   e == g.tab[j]
                   r == PSeq(e.g, x.data, NoV)
               IN IF e.last /\ i # Len(xs) THEN Fail
                  ELSE PExtList(g, xs, r.v @@ (IF e.pk = "flag" THEN e.pf :> TRUE ELSE NoV) @@ acc, seen \cup {x.typ}, i + 1)

PG(g, s, acc) ==
  CASE g.k = "u" -> IF Len(s) < g.n THEN Fail ELSE Ok(g.f :> TakeB(s, g.n), DropB(s, g.n))
    [] g.k = "bool" -> IF Len(s) < 1 \/ s[1] \notin {0, 1} THEN Fail ELSE Ok(g.f :> (s[1] = 1), DropB(s, 1))
    [] g.k = "c" -> IF Len(s) >= Len(g.c) /\ TakeB(s, Len(g.c)) = g.c THEN Ok(NoV, DropB(s, Len(g.c))) ELSE Fail
    [] g.k = "vec" -> IF Len(s) < g.n THEN Fail
                      ELSE LET l == Num(TakeB(s, g.n)) IN
                           IF Len(s) < g.n + l \/ l < g.m THEN Fail
                           ELSE Ok(g.f :> SubSeq(s, g.n + 1, g.n + l), DropB(s, g.n + l))
    [] g.k = "rest" -> Ok(g.f :> s, <<>>)
    [] g.k = "wrap" -> IF Len(s) < g.n THEN Fail
                       ELSE LET l == Num(TakeB(s, g.n)) IN
                            IF Len(s) < g.n + l THEN Fail
                            ELSE LET r == PSeq(g.sub, SubSeq(s, g.n + 1, g.n + l), NoV) IN
                                 IF r.ok /\ r.rest = <<>> THEN Ok(r.v, DropB(s, g.n + l)) ELSE Fail
    [] g.k = "manyv" ->
         LET it == g.sub[1] IN
         IF it.k = "u" THEN
           IF Len(s) % it.n # 0 \/ Len(s) \div it.n < g.m THEN Fail
           ELSE Ok(g.f :> [i \in 1..(Len(s) \div it.n) |-> SubSeq(s, (i - 1) * it.n + 1, i * it.n)], <<>>)
         ELSE LET r == SplitVecs(s, it.n, it.m, <<>>) IN
              IF r.ok /\ Len(r.xs) >= g.m THEN Ok(g.f :> r.xs, <<>>) ELSE Fail
    [] g.k = "manyr" -> LET r == PManyR(g.sub, s, <<>>) IN
                        IF r.ok /\ Len(r.xs) >= g.m THEN Ok(g.f :> r.xs, <<>>) ELSE Fail
    [] g.k = "rec" -> LET r == PSeq(g.sub, s, NoV) IN IF r.ok THEN Ok(g.f :> r.v, r.rest) ELSE Fail
    [] g.k = "certlist13" -> LET r == PCert13(s) IN IF r.ok THEN Ok(g.f :> r.c, r.rest) ELSE Fail
    [] g.k = "certflags" -> Ok([ocspStapling |-> acc.certificate.ocsp # <<>>, scts |-> acc.certificate.scts # <<>>], s)
    [] g.k = "exts" ->
         IF g.n = 1 /\ Len(s) = 0 THEN Ok(DefG(g), <<>>)
         ELSE IF Len(s) < 2 THEN Fail
         ELSE LET l == Num(TakeB(s, 2)) IN
              IF Len(s) < 2 + l THEN Fail
              ELSE LET xs == SplitExts(SubSeq(s, 3, 2 + l), <<>>) IN
                   IF ~xs.ok THEN Fail
                   ELSE LET r == PExtList(g, xs.xs, DefG(g), {}, 1) IN
                        IF r.ok THEN Ok(r.v, DropB(s, 2 + l)) ELSE Fail

----------------------------------------------------------------------------
(* The message types.  hdr = handshake type byte, or -1 for the session states (no header). *)

SigAlgs(f)   == U16List(f, 2, 1)           \* SignatureScheme supported_signature_algorithms<2..2^16-2>
ALPNList(f)  == VecList(f, 2, 1, 1, 1)      \* ProtocolName protocol_name_list<2..2^16-1>, each opaque<1..2^8-1>
SCTList(f)   == VecList(f, 2, 2, 1, 1)      \* SerializedSCT sct_list<1..2^16-1>, each opaque<1..2^16-1>
CAList(f, m) == VecList(f, 2, 2, 1, m)      \* DistinguishedName<1..2^16-1>

ClientHelloExts == <<
  E(0,  "nonempty", "serverName", <<Wrap(2, <<C(<<0>>), Vec("serverName", 2, 1)>>)>>, FALSE),       \* RFC 6066 3
  E(5,  "flag", "ocspStapling", <<C(<<1, 0, 0, 0, 0>>)>>, FALSE),                                   \* RFC 6066 8: ocsp, no responders, no extensions
  E(10, "nonempty", "supportedCurves", <<U16List("supportedCurves", 2, 1)>>, FALSE),                \* RFC 8422 5.1.1 / RFC 8446 4.2.7
  E(11, "nonempty", "supportedPoints", <<Vec("supportedPoints", 1, 1)>>, FALSE),                    \* RFC 8422 5.1.2
  E(35, "flag", "ticketSupported", <<Rest("sessionTicket")>>, FALSE),                               \* RFC 5077 3.2
  E(13, "nonempty", "supportedSignatureAlgorithms", <<SigAlgs("supportedSignatureAlgorithms")>>, FALSE),
  E(50, "nonempty", "supportedSignatureAlgorithmsCert", <<SigAlgs("supportedSignatureAlgorithmsCert")>>, FALSE),
  E(65281, "flag", "secureRenegotiationSupported", <<Vec("secureRenegotiation", 1, 0)>>, FALSE),    \* RFC 5746 3.2
  E(16, "nonempty", "alpnProtocols", <<ALPNList("alpnProtocols")>>, FALSE),                         \* RFC 7301 3.1
  E(40, "flag", "extendedRandomEnabled", <<Wrap(2, <<Vec("extendedRandom", 2, 0)>>)>>, FALSE),      \* not IANA assigned; as zcrypto marshals it
  E(23, "flag", "extendedMasterSecret", <<>>, FALSE),                                               \* RFC 7627 5.1
  E(18, "flag", "scts", <<>>, FALSE),                                                               \* RFC 6962 3.3.1
  E(43, "nonempty", "supportedVersions", <<U16List("supportedVersions", 1, 1)>>, FALSE),            \* RFC 8446 4.2.1
  E(44, "nonempty", "cookie", <<Vec("cookie", 2, 1)>>, FALSE),                                      \* RFC 8446 4.2.2
  E(51, "nonempty", "keyShares",
    <<Wrap(2, <<ManyR("keyShares", <<U("group", 2), Vec("data", 2, 1)>>, 0)>>)>>, FALSE),           \* RFC 8446 4.2.8
  E(42, "flag", "earlyData", <<>>, FALSE),                                                          \* RFC 8446 4.2.10
  E(45, "nonempty", "pskModes", <<Vec("pskModes", 1, 1)>>, FALSE),                                  \* RFC 8446 4.2.9
  E(41, "nonempty", "pskIdentities",
    <<Wrap(2, <<ManyR("pskIdentities", <<Vec("label", 2, 1), U("obfuscatedTicketAge", 4)>>, 1)>>),
      VecList("pskBinders", 2, 1, 32, 1)>>, TRUE)                                                   \* RFC 8446 4.2.11, must be last
>>

ServerHelloExts == <<
  E(5,  "flag", "ocspStapling", <<>>, FALSE),
  E(35, "flag", "ticketSupported", <<>>, FALSE),
  E(65281, "flag", "secureRenegotiationSupported", <<Vec("secureRenegotiation", 1, 0)>>, FALSE),
  E(16, "nonempty", "alpnProtocol", <<Wrap(2, <<Vec("alpnProtocol", 1, 1)>>)>>, FALSE),
  E(18, "nonempty", "scts", <<SCTList("scts")>>, FALSE),
  E(43, "nonzero", "supportedVersion", <<U("supportedVersion", 2)>>, FALSE),
  E(51, "nonzerorec", "serverShare", <<Rec("serverShare", <<U("group", 2), Vec("data", 2, 1)>>)>>, FALSE),
  E(41, "flag", "selectedIdentityPresent", <<U("selectedIdentity", 2)>>, FALSE),
  E(44, "nonempty", "cookie", <<Vec("cookie", 2, 1)>>, FALSE),
  E(51, "nonzero", "selectedGroup", <<U("selectedGroup", 2)>>, FALSE),                              \* HelloRetryRequest form
  E(11, "nonempty", "supportedPoints", <<Vec("supportedPoints", 1, 1)>>, FALSE),
  E(23, "flag", "extendedMasterSecret", <<>>, FALSE)
>>

Grammar(t) ==
  CASE t = "clientHelloMsg" ->
         << U("vers", 2), U("random", 32), Vec("sessionId", 1, 0), U16List("cipherSuites", 2, 1),
            Vec("compressionMethods", 1, 1), Exts(ClientHelloExts, TRUE, "") >>
    [] t = "serverHelloMsg" ->
         << U("vers", 2), U("random", 32), Vec("sessionId", 1, 0), U("cipherSuite", 2), U("compressionMethod", 1),
            Exts(ServerHelloExts, TRUE, "unknownExtensions") >>
    [] t = "encryptedExtensionsMsg" ->
         << Exts(<<E(16, "nonempty", "alpnProtocol", <<Wrap(2, <<Vec("alpnProtocol", 1, 1)>>)>>, FALSE)>>, FALSE, "") >>
    [] t \in {"endOfEarlyDataMsg", "serverHelloDoneMsg", "helloRequestMsg"} -> <<>>
    [] t = "keyUpdateMsg" -> << Bool("updateRequested") >>
    [] t = "newSessionTicketMsgTLS13" ->
         << U("lifetime", 4), U("ageAdd", 4), Vec("nonce", 1, 0), Vec("label", 2, 1),
            Exts(<<E(42, "nonzero", "maxEarlyData", <<U("maxEarlyData", 4)>>, FALSE)>>, FALSE, "") >>
    [] t = "certificateRequestMsgTLS13" ->
         << C(<<0>>),
            Exts(<< E(5, "flag", "ocspStapling", <<>>, FALSE),
                    E(18, "flag", "scts", <<>>, FALSE),
                    E(13, "nonempty", "supportedSignatureAlgorithms", <<SigAlgs("supportedSignatureAlgorithms")>>, FALSE),
                    E(50, "nonempty", "supportedSignatureAlgorithmsCert", <<SigAlgs("supportedSignatureAlgorithmsCert")>>, FALSE),
                    E(47, "nonempty", "certificateAuthorities", <<CAList("certificateAuthorities", 1)>>, FALSE) >>, FALSE, "") >>
    [] t = "certificateMsg" -> << VecList("certificates", 3, 3, 1, 0) >>
    [] t = "certificateMsgTLS13" -> << C(<<0>>), CertList13("certificate"), CertFlags >>
    [] t = "serverKeyExchangeMsg" -> << Rest("key") >>
    [] t = "certificateStatusMsg" -> << C(<<1>>), Vec("response", 3, 1) >>
    [] t = "clientKeyExchangeMsg" -> << Rest("ciphertext") >>
    [] t = "finishedMsg" -> << Rest("verifyData") >>
    [] t = "certificateRequestMsg_12" ->     \* RFC 5246 7.4.4
         << Vec("certificateTypes", 1, 1), SigAlgs("supportedSignatureAlgorithms"), CAList("certificateAuthorities", 0) >>
    [] t = "certificateRequestMsg_10" ->     \* RFC 2246 / 4346 7.4.4
         << Vec("certificateTypes", 1, 1), CAList("certificateAuthorities", 0) >>
    [] t = "certificateVerifyMsg_12" -> << U("signatureAlgorithm", 2), Vec("signature", 2, 0) >>
    [] t = "certificateVerifyMsg_10" -> << Vec("signature", 2, 0) >>
    [] t = "newSessionTicketMsg" -> << U("lifetimeHint", 4), Vec("ticket", 2, 0) >>   \* RFC 5077 3.3
    [] t = "sessionState" ->
         << U("vers", 2), U("cipherSuite", 2), U("createdAt", 8), Vec("masterSecret", 2, 1),
            VecList("certificates", 3, 3, 1, 0) >>
    [] t = "sessionStateTLS13" ->
         << C(<<3, 4, 0>>), U("cipherSuite", 2), U("createdAt", 8), Vec("resumptionSecret", 1, 1),
            CertList13("certificate") >>

Hdr(t) ==
  CASE t = "helloRequestMsg" -> 0 [] t = "clientHelloMsg" -> 1 [] t = "serverHelloMsg" -> 2
    [] t \in {"newSessionTicketMsg", "newSessionTicketMsgTLS13"} -> 4
    [] t = "endOfEarlyDataMsg" -> 5 [] t = "encryptedExtensionsMsg" -> 8
    [] t \in {"certificateMsg", "certificateMsgTLS13"} -> 11
    [] t = "serverKeyExchangeMsg" -> 12
    [] t \in {"certificateRequestMsg_12", "certificateRequestMsg_10", "certificateRequestMsgTLS13"} -> 13
    [] t = "serverHelloDoneMsg" -> 14
    [] t \in {"certificateVerifyMsg_12", "certificateVerifyMsg_10"} -> 15
    [] t = "clientKeyExchangeMsg" -> 16 [] t = "finishedMsg" -> 20
    [] t = "certificateStatusMsg" -> 22 [] t = "keyUpdateMsg" -> 24
    [] t \in {"sessionState", "sessionStateTLS13"} -> -1

Types == { "clientHelloMsg", "serverHelloMsg", "encryptedExtensionsMsg", "endOfEarlyDataMsg", "serverHelloDoneMsg",
           "helloRequestMsg", "keyUpdateMsg", "newSessionTicketMsgTLS13", "certificateRequestMsgTLS13",
           "certificateMsg", "certificateMsgTLS13", "serverKeyExchangeMsg", "certificateStatusMsg",
           "clientKeyExchangeMsg", "finishedMsg", "certificateRequestMsg_12", "certificateRequestMsg_10",
           "certificateVerifyMsg_12", "certificateVerifyMsg_10", "newSessionTicketMsg", "sessionState",
           "sessionStateTLS13" }

Body(t, v) == LSeq(Grammar(t), v)
(* RFC 5246 7.4: struct { HandshakeType msg_type; uint24 length; body } Handshake;       *)
Layout(t, v) == IF Hdr(t) = -1 THEN Body(t, v) ELSE <<Hdr(t)>> \o Vec24(Body(t, v))

BodyParse(t, s) == LET r == PSeq(Grammar(t), s, NoV) IN
                   IF r.ok /\ r.rest = <<>> THEN [ok |-> TRUE, v |-> r.v] ELSE [ok |-> FALSE, v |-> NoV]
Parse(t, s) ==
  IF Hdr(t) = -1 THEN BodyParse(t, s)
  ELSE IF Len(s) < 4 \/ s[1] # Hdr(t) \/ Num(SubSeq(s, 2, 4)) # Len(s) - 4 THEN [ok |-> FALSE, v |-> NoV]
  ELSE BodyParse(t, DropB(s, 4))

(* Validity of an abstract value = what the Go struct can express on the wire at all:
   dependent fields are at their defaults when their extension is absent, and every
   vector respects the bounds of the grammar (checked by encoding and parsing back in the
   generator, which filters on Parse(Layout(v)).ok).  Message specific side conditions: *)
Valid(t, v) ==
  CASE t = "clientHelloMsg" ->
         /\ ~v.ticketSupported => v.sessionTicket = <<>>
         /\ ~v.secureRenegotiationSupported => v.secureRenegotiation = <<>> /\ <<0, 255>> \notin {v.cipherSuites[i] : i \in 1..Len(v.cipherSuites)}
         /\ ~v.extendedRandomEnabled => v.extendedRandom = <<>>
         /\ (v.pskIdentities = <<>>) = (v.pskBinders = <<>>)
         /\ v.serverName # <<>> => v.serverName[Len(v.serverName)] # 46          \* "An SNI value may not include a trailing dot"
    [] t = "serverHelloMsg" ->
         /\ ~v.secureRenegotiationSupported => v.secureRenegotiation = <<>>
         /\ ~v.selectedIdentityPresent => v.selectedIdentity = <<0, 0>>
         /\ v.serverShare.group = <<0, 0>> => v.serverShare.data = <<>>
         /\ ~(v.serverShare.group # <<0, 0>> /\ v.selectedGroup # <<0, 0>>)
    [] t = "certificateMsgTLS13" ->
         /\ v.ocspStapling = (v.certificate.ocsp # <<>>) /\ v.scts = (v.certificate.scts # <<>>)
         /\ (v.certificate.ocsp # <<>> \/ v.certificate.scts # <<>>) => v.certificate.certs # <<>>
    [] t = "sessionStateTLS13" ->
         (v.certificate.ocsp # <<>> \/ v.certificate.scts # <<>>) => v.certificate.certs # <<>>
    [] OTHER -> TRUE

(* the optional tail: an extension block that is omitted altogether when empty, at the very end *)
HasOptionalTail(t) == LET g == Grammar(t) IN Len(g) > 0 /\ g[Len(g)].k = "exts" /\ g[Len(g)].n = 1
(* the body is one opaque field to the end of the message: only the header delimits it *)
OpaqueBody(t) == LET g == Grammar(t) IN Len(g) > 0 /\ g[Len(g)].k = "rest"

(* Grammar-level prefix-freeness of a set of bodies: no strict prefix of a valid body is
   itself a valid body.                                                                *)
PrefixFreeOn(t, vals) ==
  \A v \in vals : LET b == Body(t, v) IN \A k \in 0..(Len(b) - 1) : ~BodyParse(t, TakeB(b, k)).ok
=============================================================================
