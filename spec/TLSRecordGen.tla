----------------------------- MODULE TLSRecordGen -----------------------------
(* C25, U2: cases for the harness, all computed by the operators of TLSRecord.tla.

   Part "sched"  fault schedules: K application records (1..MaxRec) produced by one of three
                 write plans, then close_notify; every sequence of <= MaxFaults applicable faults
                 (modify i / drop i / duplicate i right behind itself or at the end / swap i j)
                 on the K+1 records in flight; with the demanded outcome (bytes delivered, how
                 Read may end).  The concretisation knobs that the model abstracts from (which
                 byte of a record is modified and how, TCP segmentation, read buffer size) rotate
                 with the case number.
   Part "pad"    CBC padding: every payload tail of <= 4 bytes over {00,01,02,03,0F,10,FF} at the
                 payload lengths that matter, with Padding(payload).
   Part "fmt"    record formats: for each record class a short sequence of records (content type,
                 plaintext length classes 0/1/block-1/block/block+1/big) with the Terms of every
                 admissible encoding.                                                     *)
EXTENDS TLSRecord, TLC, Json, SequencesExt

CONSTANTS Parts, MaxRec, MaxFaults, AllPlans, Out      \* Parts: subset of {"sched","pad","fmt","seqfmt","long","combos"}; Out: file name prefix

----------------------------------------------------------------------------
(* schedules *)
Sizes == <<1, 2, 100, 16384, 317, 16383>>
SizeAt(i) == Sizes[(i % Len(Sizes)) + 1]
(* plan "singles": K writes of one record each; "big": one write cut into K records by the
   2^14 limit; "split": TLS 1.0 CBC 1/n-1 splitting, every write gives records of 1 and n-1 bytes *)
WritesOf(plan, K, c) ==
  CASE plan = "singles" -> [i \in 1..K |-> <<SizeAt(c + i)>>]
    [] plan = "big" -> << [i \in 1..K |-> IF i < K THEN MaxPlain ELSE SizeAt(c)] >>
    [] plan = "split" -> [i \in 1..(K \div 2) |-> <<1, SizeAt(c + i)>>]
PlanOK(plan, K) == plan # "split" \/ K % 2 = 0

Faults1(n) == {Fault("modify", i, 0) : i \in 1..n} \cup {Fault("drop", i, 0) : i \in 1..n}
              \cup {Fault("dup", i, i) : i \in 1..n} \cup {Fault("dup", i, n) : i \in 1..n}
              \cup {Fault("swap", i, j) : i \in 1..n, j \in 1..n}
FaultSeqs(w) ==
  {<<>>} \cup {<<f>> : f \in {g \in Faults1(Len(w)) : Applicable(w, g)}}
  \cup (IF MaxFaults < 2 THEN {}
        ELSE UNION {{<<f, g>> : g \in {h \in Faults1(Len(ApplyFault(w, f))) : Applicable(ApplyFault(w, f), h)}} :
                      f \in {g \in Faults1(Len(w)) : Applicable(w, g)}})

ModClasses == <<"type", "vers", "len-up", "len-down", "first", "mid", "last", "dropbyte", "addbyte", "cut-header", "cut-body">>
SegClasses == <<"whole", "bytes", "records", "halves", "odd">>
ReadSizes == <<1, 100, 16384, 70000, 5>>
Plans == <<"singles", "big", "split">>

SchedParams ==   \* <<K, fault sequence>>, ordered
  SetToSeq(UNION {{<<K, fs>> : fs \in FaultSeqs(SenderRecords([i \in 1..K |-> <<1>>], TRUE))} : K \in 1..MaxRec})

SchedCase(c, K, fs, plan) ==
  LET writes == WritesOf(plan, K, c)
      w0 == SenderRecords(writes, TRUE)
      w1 == ApplyFaults(w0, fs)
      o == Outcome(w1)
  IN [id |-> c, K |-> K, plan |-> plan, writes |-> writes, faults |-> fs,
      mod |-> ModClasses[(c % Len(ModClasses)) + 1], seg |-> SegClasses[(c % Len(SegClasses)) + 1],
      readsz |-> ReadSizes[(c % Len(ReadSizes)) + 1],
      lens |-> [i \in 1..Len(w0) |-> w0[i].len],
      bytes |-> o.bytes, accepted |-> o.accepted, ends |-> SetToSeq(o.ends),
      total |-> SumLens(w0)]

SchedCases ==
  LET ps == SchedParams IN
  IF AllPlans
  THEN LET jobs == SetToSeq({<<c, Plans[k]>> : c \in 1..Len(ps), k \in 1..3} \cap
                             {x \in (1..Len(ps)) \X {"singles", "big", "split"} : PlanOK(x[2], ps[x[1]][1])})
       IN [i \in 1..Len(jobs) |-> [ok |-> TRUE, v |-> SchedCase(jobs[i][1], ps[jobs[i][1]][1], ps[jobs[i][1]][2], jobs[i][2])]]
  ELSE [c \in 1..Len(ps) |->
         LET pl == Plans[(c % 3) + 1] IN
         [ok |-> TRUE, v |-> SchedCase(c, ps[c][1], ps[c][2], IF PlanOK(pl, ps[c][1]) THEN pl ELSE "singles")]]

----------------------------------------------------------------------------
(* padding *)
PadBytes == {0, 1, 2, 3, 15, 16, 255}
Tails(n) == [1..n -> PadBytes]
PadParams ==
  {[tail |-> t, L |-> Len(t), fill |-> 85] : t \in UNION {Tails(n) : n \in 1..4}}
  \cup {[tail |-> t, L |-> 16, fill |-> f] : t \in UNION {Tails(n) : n \in 1..3}, f \in {85, 0}}
  \cup {[tail |-> t, L |-> L, fill |-> f] : t \in UNION {Tails(n) : n \in 1..2}, L \in {17, 32, 255, 256, 257, 300},
                                            f \in {85, 0}}
  \cup {[tail |-> <<>>, L |-> 0, fill |-> 0]}
PayloadOf(p) == [i \in 1..p.L |-> IF i <= p.L - Len(p.tail) THEN (IF p.fill = 0 THEN p.tail[Len(p.tail)] ELSE p.fill)   \* fill 0 = repeat the last byte
                                  ELSE p.tail[i - (p.L - Len(p.tail))]]
PadCases == LET ps == SetToSeq(PadParams) IN
  [i \in 1..Len(ps) |-> [tail |-> ps[i].tail, L |-> ps[i].L, payload |-> PayloadOf(ps[i]),
                         toRemove |-> Padding(PayloadOf(ps[i])).toRemove, good |-> Padding(PayloadOf(ps[i])).good]]

----------------------------------------------------------------------------
(* record formats *)
RP(cls, ver, bc, mach, s13) == [cls |-> cls, ver |-> ver, bc |-> bc, mach |-> mach, suite13 |-> s13]
(* [rp, suite (a real suite id of that class), keyLen, ivLen] *)
FmtClasses == <<
  [rp |-> RP("stream", 769, "", "sha1", 0), suite |-> 5, keyLen |-> 16, ivLen |-> 0],
  [rp |-> RP("stream", 771, "", "sha1", 0), suite |-> 49169, keyLen |-> 16, ivLen |-> 0],
  [rp |-> RP("cbc", 769, "aes", "sha1", 0), suite |-> 47, keyLen |-> 16, ivLen |-> 16],
  [rp |-> RP("cbc", 769, "3des", "sha1", 0), suite |-> 10, keyLen |-> 24, ivLen |-> 8],
  [rp |-> RP("cbc", 770, "aes", "sha1", 0), suite |-> 53, keyLen |-> 32, ivLen |-> 16],
  [rp |-> RP("cbc", 771, "aes", "sha256", 0), suite |-> 60, keyLen |-> 16, ivLen |-> 16],
  [rp |-> RP("cbc", 771, "3des", "sha1", 0), suite |-> 49170, keyLen |-> 24, ivLen |-> 8],
  [rp |-> RP("gcm12", 771, "", "", 0), suite |-> 156, keyLen |-> 16, ivLen |-> 4],
  [rp |-> RP("gcm12", 771, "", "", 0), suite |-> 49200, keyLen |-> 32, ivLen |-> 4],
  [rp |-> RP("tls13", 772, "", "", 4865), suite |-> 4865, keyLen |-> 16, ivLen |-> 12],
  [rp |-> RP("tls13", 772, "", "", 4866), suite |-> 4866, keyLen |-> 32, ivLen |-> 12]
>>
(* sequences of (content type, plaintext length) *)
FmtSeqs == <<
  << <<23, 1>>, <<23, 15>>, <<23, 16>>, <<21, 2>> >>,
  << <<22, 17>>, <<23, 0>>, <<23, 300>>, <<23, 31>> >>,
  << <<23, 16384>>, <<23, 32>>, <<20, 1>> >>,
  << <<23, 11>>, <<23, 12>>, <<23, 13>>, <<23, 47>> >>
>>
Options(rp, n) == IF rp.cls = "cbc" THEN PadChoices(rp, n) ELSE IF rp.cls = "tls13" THEN 0..16 ELSE {0}
RECURSIVE SkipBefore(_, _, _)
SkipBefore(rp, sq, i) == IF i = 1 THEN 0 ELSE SkipBefore(rp, sq, i - 1) + sq[i - 1][2] + HLen(rp.mach)
FmtCase(fc, sq) ==
  [rp |-> fc.rp, suite |-> fc.suite, keyLen |-> fc.keyLen, ivLen |-> fc.ivLen,
   recs |-> [i \in 1..Len(sq) |->
     [typ |-> sq[i][1], n |-> sq[i][2], binds |-> BindsOf(fc.rp, i),
      options |-> LET os == SetToSeq(Options(fc.rp, sq[i][2])) IN
        [k \in 1..Len(os) |-> [opt |-> os[k],
                               term |-> RecordTerm(fc.rp, i, sq[i][1], sq[i][2],
                                                   IF fc.rp.cls = "stream" THEN SkipBefore(fc.rp, sq, i) ELSE 0,
                                                   os[k], fc.keyLen, fc.ivLen)]]]]]
FmtCases == FlatSeq([a \in 1..Len(FmtClasses) |-> [b \in 1..Len(FmtSeqs) |-> FmtCase(FmtClasses[a], FmtSeqs[b])]])

----------------------------------------------------------------------------
(* sequence-number boundaries at function level: halfConn is put at a sequence number S on a carry
   boundary (hook setter), two records are protected; demanded: the record bytes with the 8-octet S
   resp. S+1 in MAC input / additional data / nonce, and the sequence number afterwards.  At 2^64-1
   ("sequence numbers do not wrap") the record may be refused; if it is produced it must be the right
   one and nothing may follow.                                                                    *)
B8(a, b, c, d, e, f, g, h) == <<a, b, c, d, e, f, g, h>>
SeqBoundaries == << Zero8, B8(0,0,0,0,0,0,0,255), B8(0,0,0,0,0,0,255,255), B8(0,0,0,0,0,255,255,255),
                    B8(0,0,0,0,255,255,255,255), B8(0,255,255,255,255,255,255,255), B8(0,0,0,0,0,0,1,255),
                    B8(255,255,255,255,255,255,255,254), Max8 >>
SeqFmtCase(fc, start) ==
  LET nums == IF start = Max8 THEN <<start>> ELSE <<start, SeqInc(start)>>
      lens == <<13, 20>>
  IN [rp |-> fc.rp, suite |-> fc.suite, keyLen |-> fc.keyLen, ivLen |-> fc.ivLen, start |-> start,
      recs |-> [i \in 1..Len(nums) |->
        [typ |-> 23, n |-> lens[i], num |-> nums[i], last |-> nums[i] = Max8,
         after |-> IF nums[i] = Max8 THEN <<>> ELSE SeqInc(nums[i]),
         binds |-> BindsOf(fc.rp, i),
         options |-> LET os == SetToSeq(Options(fc.rp, lens[i])) IN
           [k \in 1..Len(os) |-> [opt |-> os[k],
                                  term |-> RecordTermS(fc.rp, i, nums[i], 23, lens[i],
                                                       IF fc.rp.cls = "stream" /\ i = 2 THEN lens[1] + HLen(fc.rp.mach) ELSE 0,
                                                       os[k], fc.keyLen, fc.ivLen)]]]]]
SeqFmtCases == FlatSeq([a \in 1..Len(FmtClasses) |-> [b \in 1..Len(SeqBoundaries) |-> SeqFmtCase(FmtClasses[a], SeqBoundaries[b])]])

(* long streams: 600 one-record writes, faults between records whose distance is a multiple of, or next
   to, 255 / 256 - where a sequence number that loses its carry would repeat                       *)
LongK == 600
LongFaults ==
  UNION {{ Fault("swap", i, i + 254), Fault("swap", i, i + 255), Fault("swap", i, i + 256), Fault("swap", i, i + 510),
           Fault("dup", i, i + 253), Fault("dup", i, i + 254), Fault("dup", i, i + 255), Fault("dup", i, i + 256),
           Fault("dup", i, i + 509), Fault("dup", i, i + 510) } : i \in {2, 3, 41, 90}}
(* Outcome without recursion over the wire (the schedules above are 4 records long, these 601; constant
   evaluation happens on TLC's main thread with a small stack): the receiver accepts the longest prefix
   of records that are authentic and in place, up to and including the first close_notify in it.
   OutcomeNR = Outcome is asserted on every short schedule.                                          *)
SumLensNR(rs) == FoldSeq(LAMBDA x, acc : acc + x.len, 0, rs)
OutcomeNR(w) ==
  LET good(i) == w[i].auth /\ w[i].seq = i
      P == {p \in 0..Len(w) : \A i \in 1..p : good(i)}
      p == CHOOSE x \in P : \A y \in P : y <= x
      closes == {i \in 1..p : w[i].close}
  IN IF closes # {}
     THEN LET c == CHOOSE x \in closes : \A y \in closes : x <= y IN
          [bytes |-> SumLensNR(SubSeq(w, 1, c - 1)), accepted |-> c, ends |-> {"eof"}]
     ELSE [bytes |-> SumLensNR(SubSeq(w, 1, p)), accepted |-> p,
           ends |-> IF p < Len(w) THEN {"error"} ELSE {"eof", "error"}]

LongCase(c, fs) ==
  LET writes == [i \in 1..LongK |-> <<3>>]
      w0 == [i \in 1..(LongK + 1) |-> Rec(i, IF i <= LongK THEN 3 ELSE 0, i = LongK + 1)]
      w1 == ApplyFaults(w0, fs)
      o == OutcomeNR(w1)
  IN [id |-> 100000 + c, K |-> LongK, plan |-> "singles", writes |-> writes, faults |-> fs,
      mod |-> "mid", seg |-> SegClasses[(c % Len(SegClasses)) + 1], readsz |-> <<100, 16384, 70000>>[(c % 3) + 1],
      lens |-> [i \in 1..Len(w0) |-> w0[i].len],
      bytes |-> o.bytes, accepted |-> o.accepted, ends |-> SetToSeq(o.ends), total |-> 3 * LongK]
LongCases == LET fs == <<<<>>>> \o [i \in 1..Cardinality(LongFaults) |-> <<SetToSeq(LongFaults)[i]>>]
             IN [c \in 1..Len(fs) |-> LongCase(c, fs[c])]

----------------------------------------------------------------------------
(* the combinations two zcrypto endpoints negotiate (server side: tls/cipher_suites.go cipherSuites;
   RSA-authenticated suites with an RSA server key, ECDSA ones with an ECDSA key; TLS 1.2-only suites at
   TLS 1.2 only; the three TLS 1.3 suites with either key).  Used as a coverage obligation only:
   negotiation itself is C24's subject.                                                  *)
RsaSuites    == {5, 10, 47, 53, 49169, 49170, 49171, 49172}
RsaSuites12  == {60, 156, 157, 49191, 49199, 49200, 52392}
EcSuites     == {49159, 49161, 49162}
EcSuites12   == {49187, 49195, 49196, 52393}
ExpectedCombos ==
  {<<v, s, "rsa">> : v \in {769, 770, 771}, s \in RsaSuites} \cup {<<771, s, "rsa">> : s \in RsaSuites12}
  \cup {<<v, s, "ecdsa">> : v \in {769, 770, 771}, s \in EcSuites} \cup {<<771, s, "ecdsa">> : s \in EcSuites12}
  \cup {<<772, s, k>> : s \in {4865, 4866, 4867}, k \in {"rsa", "ecdsa"}}

FileOf(part) == Out \o part \o ".ndjson"
DoPart(part) ==
  CASE part = "sched" -> LET cs == SchedCases IN
         /\ \A i \in 1..Len(cs) : Assert(FragmentationOK(cs[i].v.writes), <<"plan violates the record size limit", i>>)
         /\ \A i \in 1..Len(cs) : LET w == ApplyFaults(SenderRecords(cs[i].v.writes, TRUE), cs[i].v.faults) IN
                                    Assert(OutcomeNR(w) = Outcome(w), <<"OutcomeNR differs from Outcome", i>>)
         /\ ndJsonSerialize(FileOf(part), [i \in 1..Len(cs) |-> cs[i].v])
         /\ PrintT(ToJson([part |-> "sched", cases |-> Len(cs),
                           errors |-> Cardinality({i \in 1..Len(cs) : cs[i].v.ends = <<"error">>}),
                           clean |-> Cardinality({i \in 1..Len(cs) : cs[i].v.ends = <<"eof">>})]))
    [] part = "pad" -> LET cs == PadCases IN
         /\ ndJsonSerialize(FileOf(part), cs)
         /\ PrintT(ToJson([part |-> "pad", cases |-> Len(cs),
                           good |-> Cardinality({i \in 1..Len(cs) : cs[i].good = 255})]))
    [] part = "fmt" -> LET cs == FmtCases IN
         /\ \A i \in 1..Len(cs) : \A j \in 1..Len(cs[i].recs) : \A k \in 1..Len(cs[i].recs[j].options) :
              WellFormed(cs[i].recs[j].options[k].term)
         /\ ndJsonSerialize(FileOf(part), cs)
         /\ PrintT(ToJson([part |-> "fmt", cases |-> Len(cs)]))
    [] part = "seqfmt" -> LET cs == SeqFmtCases IN
         /\ \A i \in 1..Len(cs) : \A j \in 1..Len(cs[i].recs) : \A k \in 1..Len(cs[i].recs[j].options) :
              WellFormed(cs[i].recs[j].options[k].term)
         /\ ndJsonSerialize(FileOf(part), cs)
         /\ PrintT(ToJson([part |-> "seqfmt", cases |-> Len(cs)]))
    [] part = "long" -> LET cs == LongCases IN
         /\ \A i \in 1..Len(cs) : Assert(Len(cs[i].faults) = 0 \/ Applicable([k \in 1..(LongK + 1) |-> Rec(k, 3, FALSE)], cs[i].faults[1]), <<"fault not applicable", i>>)
         /\ ndJsonSerialize(FileOf(part), cs)
         /\ PrintT(ToJson([part |-> "long", cases |-> Len(cs),
                           errors |-> Cardinality({i \in 1..Len(cs) : cs[i].ends = <<"error">>})]))
    [] part = "combos" ->
         /\ ndJsonSerialize(FileOf(part), SetToSeq({[ver |-> c[1], suite |-> c[2], key |-> c[3]] : c \in ExpectedCombos}))
         /\ PrintT(ToJson([part |-> "combos", cases |-> Cardinality(ExpectedCombos)]))
ASSUME \A part \in Parts : DoPart(part)
=============================================================================
