----------------------------- MODULE TLSRecordGen -----------------------------
(* C25, U2: cases for the harness, all computed by the operators of TLSRecord.tla.

   Part "sched"  fault schedules: K application records (1..MaxRec) produced by one of three
                 write plans, then close_notify; every sequence of <= MaxFaults applicable faults
                 (modify i / drop i / duplicate i right behind itself or at the end / swap i j)
                 on the K+1 records in flight; with the demanded outcome (bytes delivered, how
                 Read may end).  The concretisation knobs that the model abstracts from (which
                 byte of a record is modified and how, TCP segmentation, read buffer size) rotate
                 with the case number.
   Part "pad"    CBC padding: every payload tail of <= 4 bytes over {00,01,02,03,0F,10,FF} at the
                 payload lengths that matter, with Padding(payload).
   Part "fmt"    record formats: for each record class a short sequence of records (content type,
                 plaintext length classes 0/1/block-1/block/block+1/big) with the Terms of every
                 admissible encoding.                                                     *)
EXTENDS TLSRecord, TLC, Json, SequencesExt

CONSTANTS Parts, MaxRec, MaxFaults, AllPlans, Out      \* Parts: subset of {"sched","pad","fmt","combos"}; Out: file name prefix

----------------------------------------------------------------------------
(* schedules *)
Sizes == <<1, 2, 100, 16384, 317, 16383>>
SizeAt(i) == Sizes[(i % Len(Sizes)) + 1]
(* plan "singles": K writes of one record each; "big": one write cut into K records by the
   2^14 limit; "split": TLS 1.0 CBC 1/n-1 splitting, every write gives records of 1 and n-1 bytes *)
WritesOf(plan, K, c) ==
  CASE plan = "singles" -> [i \in 1..K |-> <<SizeAt(c + i)>>]
    [] plan = "big" -> << [i \in 1..K |-> IF i < K THEN MaxPlain ELSE SizeAt(c)] >>
    [] plan = "split" -> [i \in 1..(K \div 2) |-> <<1, SizeAt(c + i)>>]
PlanOK(plan, K) == plan # "split" \/ K % 2 = 0

Faults1(n) == {Fault("modify", i, 0) : i \in 1..n} \cup {Fault("drop", i, 0) : i \in 1..n}
              \cup {Fault("dup", i, i) : i \in 1..n} \cup {Fault("dup", i, n) : i \in 1..n}
              \cup {Fault("swap", i, j) : i \in 1..n, j \in 1..n}
FaultSeqs(w) ==
  {<<>>} \cup {<<f>> : f \in {g \in Faults1(Len(w)) : Applicable(w, g)}}
  \cup (IF MaxFaults < 2 THEN {}
        ELSE UNION {{<<f, g>> : g \in {h \in Faults1(Len(ApplyFault(w, f))) : Applicable(ApplyFault(w, f), h)}} :
                      f \in {g \in Faults1(Len(w)) : Applicable(w, g)}})

ModClasses == <<"type", "vers", "len-up", "len-down", "first", "mid", "last", "dropbyte", "addbyte", "cut-header", "cut-body">>
SegClasses == <<"whole", "bytes", "records", "halves", "odd">>
ReadSizes == <<1, 100, 16384, 70000, 5>>
Plans == <<"singles", "big", "split">>

SchedParams ==   \* <<K, fault sequence>>, ordered
  SetToSeq(UNION {{<<K, fs>> : fs \in FaultSeqs(SenderRecords([i \in 1..K |-> <<1>>], TRUE))} : K \in 1..MaxRec})

SchedCase(c, K, fs, plan) ==
  LET writes == WritesOf(plan, K, c)
      w0 == SenderRecords(writes, TRUE)
      w1 == ApplyFaults(w0, fs)
      o == Outcome(w1)
  IN [id |-> c, K |-> K, plan |-> plan, writes |-> writes, faults |-> fs,
      mod |-> ModClasses[(c % Len(ModClasses)) + 1], seg |-> SegClasses[(c % Len(SegClasses)) + 1],
      readsz |-> ReadSizes[(c % Len(ReadSizes)) + 1],
      lens |-> [i \in 1..Len(w0) |-> w0[i].len],
      bytes |-> o.bytes, accepted |-> o.accepted, ends |-> SetToSeq(o.ends),
      total |-> SumLens(w0)]

SchedCases ==
  LET ps == SchedParams IN
  IF AllPlans
  THEN LET jobs == SetToSeq({<<c, Plans[k]>> : c \in 1..Len(ps), k \in 1..3} \cap
                             {x \in (1..Len(ps)) \X {"singles", "big", "split"} : PlanOK(x[2], ps[x[1]][1])})
       IN [i \in 1..Len(jobs) |-> [ok |-> TRUE, v |-> SchedCase(jobs[i][1], ps[jobs[i][1]][1], ps[jobs[i][1]][2], jobs[i][2])]]
  ELSE [c \in 1..Len(ps) |->
         LET pl == Plans[(c % 3) + 1] IN
         [ok |-> TRUE, v |-> SchedCase(c, ps[c][1], ps[c][2], IF PlanOK(pl, ps[c][1]) THEN pl ELSE "singles")]]

----------------------------------------------------------------------------
(* padding *)
PadBytes == {0, 1, 2, 3, 15, 16, 255}
Tails(n) == [1..n -> PadBytes]
PadParams ==
  {[tail |-> t, L |-> Len(t), fill |-> 85] : t \in UNION {Tails(n) : n \in 1..4}}
  \cup {[tail |-> t, L |-> 16, fill |-> f] : t \in UNION {Tails(n) : n \in 1..3}, f \in {85, 0}}
  \cup {[tail |-> t, L |-> L, fill |-> f] : t \in UNION {Tails(n) : n \in 1..2}, L \in {17, 32, 255, 256, 257, 300},
                                            f \in {85, 0}}
  \cup {[tail |-> <<>>, L |-> 0, fill |-> 0]}
PayloadOf(p) == [i \in 1..p.L |-> IF i <= p.L - Len(p.tail) THEN (IF p.fill = 0 THEN p.tail[Len(p.tail)] ELSE p.fill)   \* fill 0 = repeat the last byte
                                  ELSE p.tail[i - (p.L - Len(p.tail))]]
PadCases == LET ps == SetToSeq(PadParams) IN
  [i \in 1..Len(ps) |-> [tail |-> ps[i].tail, L |-> ps[i].L, payload |-> PayloadOf(ps[i]),
                         toRemove |-> Padding(PayloadOf(ps[i])).toRemove, good |-> Padding(PayloadOf(ps[i])).good]]

----------------------------------------------------------------------------
(* record formats *)
RP(cls, ver, bc, mach, s13) == [cls |-> cls, ver |-> ver, bc |-> bc, mach |-> mach, suite13 |-> s13]
(* [rp, suite (a real suite id of that class), keyLen, ivLen] *)
FmtClasses == <<
  [rp |-> RP("stream", 769, "", "sha1", 0), suite |-> 5, keyLen |-> 16, ivLen |-> 0],
  [rp |-> RP("stream", 771, "", "sha1", 0), suite |-> 49169, keyLen |-> 16, ivLen |-> 0],
  [rp |-> RP("cbc", 769, "aes", "sha1", 0), suite |-> 47, keyLen |-> 16, ivLen |-> 16],
  [rp |-> RP("cbc", 769, "3des", "sha1", 0), suite |-> 10, keyLen |-> 24, ivLen |-> 8],
  [rp |-> RP("cbc", 770, "aes", "sha1", 0), suite |-> 53, keyLen |-> 32, ivLen |-> 16],
  [rp |-> RP("cbc", 771, "aes", "sha256", 0), suite |-> 60, keyLen |-> 16, ivLen |-> 16],
  [rp |-> RP("cbc", 771, "3des", "sha1", 0), suite |-> 49170, keyLen |-> 24, ivLen |-> 8],
  [rp |-> RP("gcm12", 771, "", "", 0), suite |-> 156, keyLen |-> 16, ivLen |-> 4],
  [rp |-> RP("gcm12", 771, "", "", 0), suite |-> 49200, keyLen |-> 32, ivLen |-> 4],
  [rp |-> RP("tls13", 772, "", "", 4865), suite |-> 4865, keyLen |-> 16, ivLen |-> 12],
  [rp |-> RP("tls13", 772, "", "", 4866), suite |-> 4866, keyLen |-> 32, ivLen |-> 12]
>>
(* sequences of (content type, plaintext length) *)
FmtSeqs == <<
  << <<23, 1>>, <<23, 15>>, <<23, 16>>, <<21, 2>> >>,
  << <<22, 17>>, <<23, 0>>, <<23, 300>>, <<23, 31>> >>,
  << <<23, 16384>>, <<23, 32>>, <<20, 1>> >>,
  << <<23, 11>>, <<23, 12>>, <<23, 13>>, <<23, 47>> >>
>>
Options(rp, n) == IF rp.cls = "cbc" THEN PadChoices(rp, n) ELSE IF rp.cls = "tls13" THEN 0..16 ELSE {0}
RECURSIVE SkipBefore(_, _, _)
SkipBefore(rp, sq, i) == IF i = 1 THEN 0 ELSE SkipBefore(rp, sq, i - 1) + sq[i - 1][2] + HLen(rp.mach)
FmtCase(fc, sq) ==
  [rp |-> fc.rp, suite |-> fc.suite, keyLen |-> fc.keyLen, ivLen |-> fc.ivLen,
   recs |-> [i \in 1..Len(sq) |->
     [typ |-> sq[i][1], n |-> sq[i][2], binds |-> BindsOf(fc.rp, i),
      options |-> LET os == SetToSeq(Options(fc.rp, sq[i][2])) IN
        [k \in 1..Len(os) |-> [opt |-> os[k],
                               term |-> RecordTerm(fc.rp, i, sq[i][1], sq[i][2],
                                                   IF fc.rp.cls = "stream" THEN SkipBefore(fc.rp, sq, i) ELSE 0,
                                                   os[k], fc.keyLen, fc.ivLen)]]]]]
FmtCases == FlatSeq([a \in 1..Len(FmtClasses) |-> [b \in 1..Len(FmtSeqs) |-> FmtCase(FmtClasses[a], FmtSeqs[b])]])

----------------------------------------------------------------------------
(* the combinations two zcrypto endpoints negotiate (server side: tls/cipher_suites.go cipherSuites;
   RSA-authenticated suites with an RSA server key, ECDSA ones with an ECDSA key; TLS 1.2-only suites at
   TLS 1.2 only; the three TLS 1.3 suites with either key).  Used as a coverage obligation only:
   negotiation itself is C24's subject.                                                  *)
RsaSuites    == {5, 10, 47, 53, 49169, 49170, 49171, 49172}
RsaSuites12  == {60, 156, 157, 49191, 49199, 49200, 52392}
EcSuites     == {49159, 49161, 49162}
EcSuites12   == {49187, 49195, 49196, 52393}
ExpectedCombos ==
  {<<v, s, "rsa">> : v \in {769, 770, 771}, s \in RsaSuites} \cup {<<771, s, "rsa">> : s \in RsaSuites12}
  \cup {<<v, s, "ecdsa">> : v \in {769, 770, 771}, s \in EcSuites} \cup {<<771, s, "ecdsa">> : s \in EcSuites12}
  \cup {<<772, s, k>> : s \in {4865, 4866, 4867}, k \in {"rsa", "ecdsa"}}

FileOf(part) == Out \o part \o ".ndjson"
DoPart(part) ==
  CASE part = "sched" -> LET cs == SchedCases IN
         /\ \A i \in 1..Len(cs) : Assert(FragmentationOK(cs[i].v.writes), <<"plan violates the record size limit", i>>)
         /\ ndJsonSerialize(FileOf(part), [i \in 1..Len(cs) |-> cs[i].v])
         /\ PrintT(ToJson([part |-> "sched", cases |-> Len(cs),
                           errors |-> Cardinality({i \in 1..Len(cs) : cs[i].v.ends = <<"error">>}),
                           clean |-> Cardinality({i \in 1..Len(cs) : cs[i].v.ends = <<"eof">>})]))
    [] part = "pad" -> LET cs == PadCases IN
         /\ ndJsonSerialize(FileOf(part), cs)
         /\ PrintT(ToJson([part |-> "pad", cases |-> Len(cs),
                           good |-> Cardinality({i \in 1..Len(cs) : cs[i].good = 255})]))
    [] part = "fmt" -> LET cs == FmtCases IN
         /\ \A i \in 1..Len(cs) : \A j \in 1..Len(cs[i].recs) : \A k \in 1..Len(cs[i].recs[j].options) :
              WellFormed(cs[i].recs[j].options[k].term)
         /\ ndJsonSerialize(FileOf(part), cs)
         /\ PrintT(ToJson([part |-> "fmt", cases |-> Len(cs)]))
    [] part = "combos" ->
         /\ ndJsonSerialize(FileOf(part), SetToSeq({[ver |-> c[1], suite |-> c[2], key |-> c[3]] : c \in ExpectedCombos}))
         /\ PrintT(ToJson([part |-> "combos", cases |-> Cardinality(ExpectedCombos)]))
ASSUME \A part \in Parts : DoPart(part)
=============================================================================
