----------------------------- MODULE TLSHelloGen -----------------------------
(* C29 generator: fingerprint configurations with the demanded hello, and the check
   ReadsBack on every one of them.

   Extension lists: every kind with every content class alone; every ordered pair and triple of
   distinct kinds; ordered 4-lists of distinct kinds (all 7920 when AllQuads, otherwise a
   TLC-seeded random subset of NQuads); session id lengths 0/1/32/255/256, random modes
   (ClientRandom of 0/1/4/28/31/32/33 bytes x InsertTimestamp off/on), versions, suite and
   compression classes, ForceSuites, Config.ClientSessionCache set.                       *)
EXTENDS TLSHello, Json, SequencesExt, Randomization

CONSTANTS AllQuads, NQuads, Out

F(n, tag) == [i \in 1..n |-> 97 + ((tag + i) % 26)]

Kinds == <<"sni", "alpn", "reneg", "ems", "status", "sct", "curves", "points", "ticket", "sigalgs", "null">>
Primary(k) ==
  CASE k = "null" -> X("null", <<>>, <<>>, FALSE)
    [] k = "sni" -> X("sni", <<F(11, 1)>>, <<>>, FALSE)
    [] k = "alpn" -> X("alpn", <<F(2, 2), F(8, 3)>>, <<>>, FALSE)
    [] k = "curves" -> X("curves", <<<<0, 29>>, <<0, 23>>, <<0, 24>>>>, <<>>, FALSE)
    [] k = "points" -> X("points", <<>>, <<0>>, FALSE)
    [] k = "ticket" -> X("ticket", <<>>, <<>>, FALSE)
    [] k = "sigalgs" -> X("sigalgs", <<<<4, 1>>, <<5, 1>>, <<2, 1>>>>, <<>>, FALSE)
    [] OTHER -> X(k, <<>>, <<>>, FALSE)

(* content classes beyond the primary one; "bad" ones are not expressible, "noncore" ones use
   identifiers zcrypto may refuse *)
Others == <<
  X("sni", <<F(1, 4)>>, <<>>, FALSE), X("sni", <<F(255, 5)>>, <<>>, FALSE), X("sni", <<>>, <<>>, TRUE),
  X("sni", <<>>, <<>>, FALSE), X("sni", <<F(5, 6), F(7, 7)>>, <<>>, FALSE),
  X("alpn", <<F(1, 8)>>, <<>>, FALSE), X("alpn", <<F(2, 9), F(255, 10)>>, <<>>, FALSE), X("alpn", <<F(8, 11), F(2, 12), F(3, 13)>>, <<>>, FALSE),
  X("alpn", <<>>, <<>>, FALSE),
  X("curves", <<<<0, 29>>>>, <<>>, FALSE), X("curves", <<<<0, 25>>, <<0, 24>>, <<0, 23>>, <<0, 29>>>>, <<>>, FALSE),
  X("curves", <<<<0, 99>>>>, <<>>, FALSE), X("curves", <<>>, <<>>, FALSE),
  X("points", <<>>, <<0, 0>>, FALSE), X("points", <<>>, <<1>>, FALSE), X("points", <<>>, <<>>, FALSE),
  X("ticket", <<>>, F(1, 14), FALSE), X("ticket", <<>>, F(300, 15), FALSE), X("ticket", <<>>, F(48, 16), TRUE),
  X("ticket", <<>>, F(65531, 17), FALSE), X("ticket", <<>>, F(65535, 18), FALSE),
  X("sigalgs", <<<<4, 1>>>>, <<>>, FALSE), X("sigalgs", <<<<4, 3>>, <<4, 1>>>>, <<>>, FALSE), X("sigalgs", <<<<6, 1>>, <<6, 3>>, <<5, 1>>, <<5, 3>>, <<4, 1>>, <<4, 3>>, <<2, 1>>>>, <<>>, FALSE),
  X("sigalgs", <<<<8, 4>>>>, <<>>, FALSE), X("sigalgs", <<>>, <<>>, FALSE)
>>

Cfg(ver, its, random, sid, suites, comp, exts, serverName, force, cache) ==
  [ver |-> ver, its |-> its, random |-> random, sid |-> sid, suites |-> suites, comp |-> comp, exts |-> exts,
   serverName |-> serverName, force |-> force, cache |-> cache]
BaseSuites == <<<<192, 47>>, <<0, 47>>>>
Sids == <<<<>>, F(1, 20), F(32, 21), F(255, 22)>>
(* random modes: ClientRandom length x InsertTimestamp, the whole product *)
RandLens == <<0, 1, 4, 28, 31, 32, 33>>
RModes == [k \in 1..14 |-> [its |-> k > 7, r |-> F(RandLens[((k - 1) % 7) + 1], 23 + k)]]
(* the i-th extension list gets the session id / random classes in rotation *)
Rot(i, exts) == Cfg(<<3, 3>>, RModes[(i % 14) + 1].its, RModes[(i % 14) + 1].r, Sids[(i % 4) + 1], BaseSuites, <<0>>, exts, <<>>, FALSE, FALSE)

KindIdx == 1..Len(Kinds)
Pairs   == {<<a, b>> \in KindIdx \X KindIdx : a # b}
Triples == {<<a, b, c>> \in KindIdx \X KindIdx \X KindIdx : a # b /\ a # c /\ b # c}
Quads   == {<<a, b, c, d>> \in KindIdx \X KindIdx \X KindIdx \X KindIdx :
              a # b /\ a # c /\ a # d /\ b # c /\ b # d /\ c # d}
ListOf(t) == [i \in 1..Len(t) |-> Primary(Kinds[t[i]])]
TupleSeq == SetToSeq(Pairs) \o SetToSeq(Triples) \o SetToSeq(IF AllQuads THEN Quads ELSE RandomSubset(NQuads, Quads))

Grid ==   \* session id x random mode x (no extension / two extensions)
  SetToSeq({ Cfg(<<3, 3>>, RModes[r].its, RModes[r].r, sid, BaseSuites, <<0>>, exts, <<>>, FALSE, FALSE) :
               r \in 1..Len(RModes), sid \in {<<>>, F(1, 20), F(32, 21), F(255, 22), F(256, 26)},
               exts \in {<<>>, <<Primary("sni"), Primary("ticket")>>} })

Special == <<
  Cfg(<<3, 1>>, FALSE, <<>>, <<>>, BaseSuites, <<0>>, <<Primary("sni")>>, <<>>, FALSE, FALSE),
  Cfg(<<3, 4>>, FALSE, <<>>, <<>>, BaseSuites, <<0>>, <<Primary("reneg")>>, <<>>, FALSE, FALSE),
  Cfg(<<255, 255>>, FALSE, <<>>, <<>>, BaseSuites, <<0>>, <<>>, <<>>, FALSE, FALSE),
  Cfg(<<3, 0>>, FALSE, F(32, 27), <<>>, BaseSuites, <<0>>, <<>>, <<>>, FALSE, FALSE),
  \* suites
  Cfg(<<3, 3>>, FALSE, <<>>, <<>>, <<>>, <<0>>, <<Primary("ems")>>, <<>>, FALSE, FALSE),
  Cfg(<<3, 3>>, FALSE, <<>>, <<>>, <<<<192, 47>>>>, <<0>>, <<>>, <<>>, FALSE, FALSE),
  Cfg(<<3, 3>>, FALSE, <<>>, <<>>, <<<<192, 47>>, <<18, 52>>>>, <<0>>, <<>>, <<>>, FALSE, FALSE),
  Cfg(<<3, 3>>, FALSE, <<>>, <<>>, <<<<192, 47>>, <<18, 52>>>>, <<0>>, <<>>, <<>>, TRUE, FALSE),
  Cfg(<<3, 3>>, FALSE, <<>>, <<>>, [i \in 1..300 |-> <<(i % 200) + 1, (i * 7) % 250>>], <<0>>, <<Primary("sct")>>, <<>>, TRUE, FALSE),
  Cfg(<<3, 3>>, FALSE, <<>>, <<>>, <<<<192, 43>>, <<0, 156>>, <<192, 20>>, <<192, 47>>, <<0, 47>>>>, <<0>>, <<Primary("curves"), Primary("points")>>, <<>>, FALSE, FALSE),
  Cfg(<<3, 3>>, FALSE, <<>>, <<>>, [i \in 1..200 |-> <<<<192, 47>>, <<0, 47>>, <<192, 43>>, <<0, 156>>, <<192, 20>>>>[(i % 5) + 1]], <<0>>, <<Primary("status")>>, <<>>, FALSE, FALSE),
  \* compression
  Cfg(<<3, 3>>, FALSE, <<>>, <<>>, BaseSuites, <<>>, <<>>, <<>>, FALSE, FALSE),
  Cfg(<<3, 3>>, FALSE, <<>>, <<>>, BaseSuites, <<1>>, <<>>, <<>>, FALSE, FALSE),
  Cfg(<<3, 3>>, FALSE, <<>>, <<>>, BaseSuites, <<0, 1>>, <<>>, <<>>, FALSE, FALSE),
  \* Autopopulate with a configured server name
  Cfg(<<3, 3>>, FALSE, <<>>, <<>>, BaseSuites, <<0>>, <<X("sni", <<>>, <<>>, TRUE), Primary("alpn")>>, F(13, 28), FALSE, FALSE),
  Cfg(<<3, 3>>, FALSE, <<>>, <<>>, BaseSuites, <<0>>, <<Primary("alpn"), X("sni", <<>>, <<>>, TRUE)>>, <<>>, FALSE, FALSE),
  \* a configured server name next to an explicit SNI extension
  Cfg(<<3, 3>>, FALSE, <<>>, <<>>, BaseSuites, <<0>>, <<Primary("sni")>>, F(13, 29), FALSE, FALSE),
  \* Config.ClientSessionCache set
  Cfg(<<3, 3>>, FALSE, <<>>, <<>>, BaseSuites, <<0>>, <<Primary("sni")>>, <<>>, FALSE, TRUE),
  Cfg(<<3, 3>>, FALSE, F(32, 30), F(32, 31), BaseSuites, <<0>>, <<Primary("sni"), Primary("ticket"), Primary("reneg")>>, <<>>, FALSE, TRUE),
  \* extension block beyond 2^16-1
  Cfg(<<3, 3>>, FALSE, <<>>, <<>>, BaseSuites, <<0>>, <<X("ticket", <<>>, F(65531, 32), FALSE), Primary("reneg")>>, <<>>, FALSE, FALSE),
  \* two extensions of the same kind: not a well-formed hello (RFC 8446 4.2)
  Cfg(<<3, 3>>, FALSE, <<>>, <<>>, BaseSuites, <<0>>, <<Primary("ems"), Primary("ems")>>, <<>>, FALSE, FALSE)
>>

Configs ==
  [i \in 1..Len(Kinds) |-> Rot(i, <<Primary(Kinds[i])>>)] \o
  [i \in 1..Len(Others) |-> Rot(i, <<Others[i]>>)] \o
  [i \in 1..Len(Others) |-> Rot(i + 1, <<Primary("ems"), Others[i], Primary("sct")>>)] \o
  [i \in 1..Len(TupleSeq) |-> Rot(i, ListOf(TupleSeq[i]))] \o
  Grid \o Special

Cases == [i \in 1..Len(Configs) |-> CaseOf(Configs[i])]

ASSUME LET cs == Cases IN
  /\ \A i \in 1..Len(cs) : Assert(ReadsBack(cs[i].cfg), <<"the ClientHello parser model does not read the layout back", i>>)
  /\ ndJsonSerialize(Out, cs)
  /\ PrintT(ToJson([cases |-> Len(cs),
                    send |-> Cardinality({i \in 1..Len(cs) : cs[i].must = "send"}),
                    either |-> Cardinality({i \in 1..Len(cs) : cs[i].must = "either"}),
                    refuse |-> Cardinality({i \in 1..Len(cs) : cs[i].must = "refuse"})]))
=============================================================================
