---------------------------- MODULE IssuanceGen ----------------------------
(* C04 / C05 case generator (U2).  TLC enumerates templates over boundary classes
   (absent / empty / one / several / special / maximal): exhaustively inside every
   interacting group, and all value pairs of every two fields elsewhere, and writes each
   template together with the Expected record of Issuance.tla to iss_cases.ndjson.
   Constant-level: no behaviour, the enumeration happens while the ASSUME is evaluated. *)
EXTENDS Issuance, Json, SequencesExt

CONSTANTS Group,      \* which family of cases to write
          Chunk, Chunks \* chunking of the pair enumeration: this run writes chunk Chunk of Chunks

-----------------------------------------------------------------------------
(* value pools *)

T(sec, nsec, zone) == [sec |-> sec, nsec |-> nsec, zone |-> zone]
\* seconds after 2000-01-01T00:00:00Z
Y1950 == -1577836800     \* 1950-01-01T00:00:00Z : first instant UTCTime can express
Y2050 == 1577923200      \* 2050-01-01T00:00:00Z : first instant that needs GeneralizedTime
Times == { T(0, 0, 0), T(662774400, 0, 0),                       \* 2000-01-01, 2021-01-01
           T(Y1950, 0, 0), T(Y1950 - 1, 0, 0),                   \* both sides of the UTCTime lower bound
           T(Y2050 - 1, 0, 0), T(Y2050, 0, 0),                   \* both sides of the upper bound
           T(700000000, 999999999, 0),                           \* sub-second part is dropped
           T(700000000, 0, 330), T(Y2050 - 1, 500, -720) }       \* zones: same instant in UTC

N(cn) == [EmptyName EXCEPT !.cn = cn]
NameFull == [cn |-> "full.example", sn |-> "SN-0042", c |-> <<"US">>, o |-> <<"Org One", "Another Org">>,
             ou |-> <<"Unit">>, l |-> <<"Ann Arbor">>, st |-> <<"Michigan">>, street |-> <<"1 Main St">>,
             postal |-> <<"48109">>, dc |-> <<"example", "com">>, email |-> <<"ca@example.com">>,
             jl |-> <<"Locality">>, jst |-> <<"Delaware">>, jc |-> <<"US">>, orgid |-> <<"NTRUS-12345">>,
             extra |-> <<>>]
\* "~" strings are hex(UTF-8): "Zoe (with diaeresis) & Co, *.example", quotes, backslash, comma, plus
NameSpecial == [EmptyName EXCEPT !.cn = "~5a6fc3ab202620436f2c202a2e6578616d706c65",
                                 !.o = <<"a\"b\\c,d+e;f<g>h#i=j", "~e6b58be8af95">>,
                                 !.ou = <<" leading and trailing ">>]
NameExtra == [EmptyName EXCEPT !.cn = "extra", !.extra = <<[oid |-> "1.2.3.4.5", v |-> "custom attr"],
                                                            [oid |-> "2.5.4.12", v |-> "Title"]>>]
NameLong == [EmptyName EXCEPT !.cn = "a-common-name-of-exactly-sixty-four-characters-0123456789abcdefgh",
                              !.o = <<"", "x">>]
Names == {EmptyName, N("leaf.example"), NameFull, NameSpecial, NameExtra, NameLong}

Serials == {"01", "7f", "80", "8000000000000000", "010000000000000001",
            "7fffffffffffffffffffffffffffffffffffffff", "00"}

IP4 == <<10, 0, 0, 1>>
IP4in16 == <<0, 0, 0, 0, 0, 0, 0, 0, 0, 0, 255, 255, 192, 0, 2, 7>>
IP6 == <<32, 1, 13, 184, 0, 0, 0, 0, 0, 0, 0, 0, 0, 0, 0, 1>>
IP6zero == <<0, 0, 0, 0, 0, 0, 0, 0, 0, 0, 0, 0, 0, 0, 0, 0>>
IP6compat == <<0, 0, 0, 0, 0, 0, 0, 0, 0, 0, 0, 0, 10, 0, 0, 1>>    \* ::10.0.0.1 is NOT an IPv4 address
IPLists == {<<>>, <<IP4>>, <<IP4in16>>, <<IP6>>, <<IP4, IP4in16, IP6, IP6zero, IP6compat>>,
            <<<<255, 255, 255, 255>>, <<0, 0, 0, 0>>>>}
DNSLists == {<<>>, <<"a.example">>, <<"a.example", "*.b.example", "xn--bcher-kva.example", "a.example">>}
EmailLists == {<<>>, <<"user@example.com">>}

Net(ip, mask) == [ip |-> ip, mask |-> mask]
Net4 == Net(<<10, 0, 0, 0>>, <<255, 0, 0, 0>>)
Net6 == Net(<<32, 1, 13, 184, 0, 0, 0, 0, 0, 0, 0, 0, 0, 0, 0, 0>>,
            <<255, 255, 255, 255, 0, 0, 0, 0, 0, 0, 0, 0, 0, 0, 0, 0>>)

\* 10.0.0.0/8 with the address in 16-byte form and a 4-byte mask
Net4in16 == Net(<<0, 0, 0, 0, 0, 0, 0, 0, 0, 0, 255, 255, 10, 0, 0, 0>>, <<255, 0, 0, 0>>)

X(kind, crit, oid, hex, n, b, strs) == ExtraRec(kind, crit, oid, hex, n, b, strs)
XRaw(oid, crit, hex) == X("raw", crit, oid, hex, 0, FALSE, <<>>)
\* one well-formed overriding value per extension the library generates itself
Override(kind) ==
  CASE kind = "ku"       -> X("ku", TRUE, "", "", 6, FALSE, <<>>)
    [] kind = "eku"      -> X("eku", FALSE, "", "", 0, FALSE, <<"codeSigning", "timeStamping">>)
    [] kind = "bc"       -> X("bc", TRUE, "", "", 3, TRUE, <<>>)
    [] kind = "skid"     -> X("skid", FALSE, "", "0badc0de", 0, FALSE, <<>>)
    [] kind = "akid"     -> X("akid", FALSE, "", "feedface", 0, FALSE, <<>>)
    [] kind = "aia"      -> X("aia", FALSE, "", "", 0, FALSE, <<"http://override.example/ocsp">>)
    [] kind = "san"      -> X("san", FALSE, "", "", 0, FALSE, <<"override.example", "o2.example">>)
    [] kind = "policies" -> X("policies", FALSE, "", "", 0, FALSE, <<"1.3.6.1.4.1.99999.7">>)
    [] kind = "nc"       -> X("nc", TRUE, "", "", 0, FALSE, <<".override.example">>)
    [] kind = "crldp"    -> X("crldp", FALSE, "", "", 0, FALSE, <<"http://override.example/crl">>)

ParentRec(kind, form, subject, skid, canSign) ==
  [kind |-> kind, form |-> form, subject |-> subject, skid |-> skid, canSign |-> canSign]
ParentCA == ParentRec("issued", "parsed", [N("Parent CA") EXCEPT !.o = <<"Parent Org">>], "a1a2a3a4", TRUE)
ParentSelf == ParentRec("self", "parsed", EmptyName, "", TRUE)
Parents == { ParentSelf, ParentCA,
             ParentRec("issued", "parsed", NameFull, "", TRUE),
             ParentRec("issued", "parsed", N("Not A CA"), "b1b2", FALSE),
             ParentRec("issued", "bare", NameSpecial, "c1c2c3", TRUE) }

Base ==
  [ serial |-> "2a", subject |-> N("leaf.example"), rawSubject |-> <<>>,
    nb |-> T(662774400, 0, 0), na |-> T(725846400, 0, 0),
    ku |-> 0, ekus |-> <<>>, uekus |-> <<>>,
    bc |-> FALSE, ca |-> FALSE, mpl |-> 0, mplz |-> FALSE,
    skid |-> "", akid |-> "",
    ocsp |-> <<>>, iurl |-> <<>>, dns |-> <<>>, emails |-> <<>>, ips |-> <<>>,
    policies |-> <<>>, crldp |-> <<>>,
    ncCrit |-> FALSE, pDNS |-> <<>>, xDNS |-> <<>>, pEmail |-> <<>>, xEmail |-> <<>>,
    pIP |-> <<>>, xIP |-> <<>>, pDir |-> <<>>, xDir |-> <<>>,
    extras |-> <<>>,
    sigAlg |-> "default", signerKey |-> "ed25519", subjKey |-> "ed25519",
    parent |-> ParentCA ]

\* every field with its boundary classes (used for the all-pairs family)
FieldVals ==
  [ serial   |-> Serials,
    subject  |-> Names,
    rawSubject |-> {<<>>, <<NameFull>>, <<EmptyName>>},
    nb       |-> Times,
    na       |-> Times,
    ku       |-> {0, 1, 5, 96, 128, 256, 511},
    ekus     |-> {<<>>, <<"serverAuth">>, <<"any">>,
                  <<"serverAuth", "clientAuth", "codeSigning", "emailProtection", "timeStamping", "ocspSigning">>},
    uekus    |-> {<<>>, <<"1.3.6.1.4.1.99999.1">>, <<"2.999.2147483647.1", "1.2.840.113556.1.4.9999">>},
    bc       |-> BOOLEAN, ca |-> BOOLEAN, mpl |-> {-1, 0, 1, 255}, mplz |-> BOOLEAN,
    skid     |-> {"", "01", "000102030405060708090a0b0c0d0e0f10111213"},
    akid     |-> {"", "f0f1f2f3f4f5f6f7f8f9fafbfcfdfeff00010203"},
    ocsp     |-> {<<>>, <<"http://ocsp.example">>, <<"http://ocsp1.example/a?b=c", "http://ocsp2.example">>},
    iurl     |-> {<<>>, <<"http://ca.example/ca.crt">>},
    dns      |-> DNSLists, emails |-> EmailLists, ips |-> IPLists,
    policies |-> {<<>>, <<"2.23.140.1.2.1">>, <<"2.5.29.32.0", "1.3.6.1.4.1.99999.3.1", "2.23.140.1.1">>},
    crldp    |-> {<<>>, <<"http://crl.example/1.crl">>, <<"http://crl.example/1.crl", "ldap://crl.example/cn=x">>},
    ncCrit   |-> BOOLEAN,
    pDNS     |-> {<<>>, <<".example">>, <<"a.example", "b.example">>}, xDNS |-> {<<>>, <<"bad.example">>},
    pEmail   |-> {<<>>, <<"example.com">>}, xEmail |-> {<<>>, <<"user@bad.example">>},
    pIP      |-> {<<>>, <<Net4>>, <<Net4, Net6>>, <<Net4in16>>}, xIP |-> {<<>>, <<Net6>>, <<Net6, Net4in16>>},
    pDir     |-> {<<>>, <<[N("") EXCEPT !.o = <<"Permitted Org">>]>>}, xDir |-> {<<>>, <<NameFull>>},
    extras   |-> {<<>>, <<XRaw("1.3.6.1.4.1.99999.42", FALSE, "0500")>>,
                  <<XRaw("1.3.6.1.4.1.99999.43", TRUE, "04030a0b0c"), XRaw("1.3.6.1.4.1.99999.42", FALSE, "")>>,
                  <<Override("ku")>>, <<Override("san"), Override("bc")>>},
    sigAlg   |-> {"default"},
    signerKey |-> {"ed25519", "p256", "rsa2048"},
    subjKey  |-> {"ed25519", "p384", "rsa2048"},
    parent   |-> Parents ]

FieldSeq == <<"serial", "subject", "rawSubject", "nb", "na", "ku", "ekus", "uekus", "bc", "ca", "mpl", "mplz",
              "skid", "akid", "ocsp", "iurl", "dns", "emails", "ips", "policies", "crldp", "ncCrit",
              "pDNS", "xDNS", "pEmail", "xEmail", "pIP", "xIP", "pDir", "xDir", "extras",
              "signerKey", "subjKey", "parent">>
ASSUME SeqRange(FieldSeq) \cup {"sigAlg"} = DOMAIN Base /\ DOMAIN FieldVals = DOMAIN Base

-----------------------------------------------------------------------------
(* families of templates *)

\* each value of each field once
Singles == UNION { { [Base EXCEPT ![f] = v] : v \in FieldVals[f] } : f \in DOMAIN FieldVals }

\* basic-constraints group, exhaustive, with and without a KeyUsage, self-signed and issued
GroupBC == { [Base EXCEPT !.bc = b, !.ca = c, !.mpl = m, !.mplz = z, !.ku = k, !.parent = p] :
               b \in BOOLEAN, c \in BOOLEAN, m \in {-1, 0, 1, 2, 255}, z \in BOOLEAN,
               k \in {0, 96, 1}, p \in {ParentSelf, ParentCA} }

\* SAN group, exhaustive
GroupSAN == { [Base EXCEPT !.dns = d, !.emails = e, !.ips = i] :
               d \in DNSLists, e \in EmailLists, i \in IPLists }

\* name-constraint group: every presence pattern of the eight kinds x critical
GroupNC == { [Base EXCEPT !.bc = TRUE, !.ca = TRUE, !.ncCrit = cr,
                          !.pDNS = IF b[1] THEN <<".example">> ELSE <<>>,
                          !.xDNS = IF b[2] THEN <<"bad.example", "worse.example">> ELSE <<>>,
                          !.pEmail = IF b[3] THEN <<"example.com">> ELSE <<>>,
                          !.xEmail = IF b[4] THEN <<"user@bad.example">> ELSE <<>>,
                          !.pIP = IF b[5] THEN <<Net4>> ELSE <<>>,
                          !.xIP = IF b[6] THEN <<Net6, Net4>> ELSE <<>>,
                          !.pDir = IF b[7] THEN <<[N("") EXCEPT !.o = <<"Permitted Org">>]>> ELSE <<>>,
                          !.xDir = IF b[8] THEN <<NameFull>> ELSE <<>>] :
               b \in [1..8 -> BOOLEAN], cr \in BOOLEAN }

\* extra-extension override group: for every extension the library generates, an overriding
\* extra extension meets a template whose own fields for it are set / unset; plus unrelated ones
Rich == [Base EXCEPT !.ku = 5, !.ekus = <<"serverAuth">>, !.uekus = <<"1.3.6.1.4.1.99999.1">>,
                     !.bc = TRUE, !.ca = TRUE, !.mpl = 1,
                     !.skid = "0102", !.akid = "0304", !.ocsp = <<"http://ocsp.example">>,
                     !.iurl = <<"http://ca.example/ca.crt">>, !.dns = <<"a.example">>, !.ips = <<IP4>>,
                     !.policies = <<"2.23.140.1.2.1">>, !.crldp = <<"http://crl.example/1.crl">>,
                     !.pDNS = <<".example">>, !.xIP = <<Net4>>, !.ncCrit = TRUE]
GroupExtras ==
  { [b EXCEPT !.extras = x] :
      b \in {Base, Rich, [Rich EXCEPT !.parent = ParentSelf]},
      x \in { <<Override(k)>> : k \in SeqRange(GenKinds) }
            \cup { <<XRaw("1.3.6.1.4.1.99999.42", c, "0500"), Override(k)>> : k \in SeqRange(GenKinds), c \in BOOLEAN }
            \cup { [i \in 1..Len(GenKinds) |-> Override(GenKinds[i])] }
            \* maximal: every generated extension present plus unrelated extra ones
            \cup { <<XRaw("1.3.6.1.4.1.99999.42", c, "0500")>> : c \in BOOLEAN }
            \cup { <<XRaw("1.3.6.1.4.1.99999.43", TRUE, "04030a0b0c"), XRaw("1.3.6.1.4.1.99999.42", FALSE, "")>> }
            \cup { <<>> } }

\* key / algorithm group: every signer key type x every requested algorithm (inside and outside
\* the documented domain), and every signer x subject key type
GroupKeys ==
  { [Base EXCEPT !.signerKey = sk, !.sigAlg = a, !.parent = p] :
      sk \in KeyTypes, a \in SigAlgs \cup {"default", "bogus"}, p \in {ParentSelf, ParentCA} }
  \cup { [Base EXCEPT !.signerKey = sk, !.subjKey = uk] : sk \in KeyTypes, uk \in KeyTypes }

\* key-identifier group
GroupKID ==
  { [Base EXCEPT !.skid = s, !.akid = a, !.parent = p] :
      s \in {"", "0102030405"}, a \in {"", "f0f1f2f3"},
      p \in Parents \cup {ParentRec("issued", "parsed", N("leaf.example"), "d1d2", TRUE)} }

\* validity group
GroupTime == { [Base EXCEPT !.nb = x, !.na = y] : x \in Times, y \in Times }

\* names group
GroupNames == { [Base EXCEPT !.subject = s, !.rawSubject = r, !.parent = p] :
                  s \in Names, r \in {<<>>, <<NameFull>>, <<NameSpecial>>}, p \in Parents }

Groups == GroupBC \cup GroupSAN \cup GroupExtras \cup GroupKeys \cup GroupKID \cup GroupTime \cup GroupNames

\* all value pairs of every two fields (the rest at the base value), chunked
NF == Len(FieldSeq)
PairIdx == SetToSeq({p \in (1..NF) \X (1..NF) : p[1] < p[2]})
MyPairs == {PairIdx[k] : k \in {k \in DOMAIN PairIdx : k % Chunks = Chunk}}
Pairs == UNION { { [Base EXCEPT ![FieldSeq[p[1]]] = v, ![FieldSeq[p[2]]] = w] :
                     v \in FieldVals[FieldSeq[p[1]]], w \in FieldVals[FieldSeq[p[2]]] } : p \in MyPairs }

Templates == CASE Group = "singles" -> Singles
               [] Group = "bc"      -> GroupBC
               [] Group = "san"     -> GroupSAN
               [] Group = "nc"      -> GroupNC
               [] Group = "extras"  -> GroupExtras
               [] Group = "keys"    -> GroupKeys
               [] Group = "kid"     -> GroupKID
               [] Group = "time"    -> GroupTime
               [] Group = "names"   -> GroupNames
               [] Group = "groups"  -> Groups
               [] Group = "all"     -> Singles \cup Groups \cup GroupNC
               [] Group = "pairs"   -> Pairs
               [] OTHER -> {}

Cases == { [t |-> t, exp |-> Expected(t)] : t \in Templates }

-----------------------------------------------------------------------------
(* C06: CT placement cases - every extension list without repetition up to MaxExt over the
   kinds, every insertion position of the poison / an SCT list / an empty SCT list / both,
   every way of signing *)
CTKinds == IF Group = "metaquick" THEN {"ku", "san", "custom"} ELSE {"ku", "bc", "san", "skid", "custom"}
MaxExt == IF Group = "metaquick" THEN 3 ELSE 4
ExtLists == { l \in UNION { [1..k -> CTKinds] : k \in 0..MaxExt } :
                \A i, j \in DOMAIN l : i # j => l[i] # l[j] }
Inserted(l) == { InsAt(l, p, x) : p \in 1..(Len(l) + 1), x \in {"poison", "sct", "sct0", "poisonnc", "sctc"} }
               \cup { InsAt(InsAt(l, p, "poison"), q, "sct") : p \in 1..(Len(l) + 1), q \in 1..(Len(l) + 2) }
CTCasesOK == UNION { { [base |-> l, ct |-> c, sign |-> s] : c \in Inserted(l), s \in {"self", "selfissued-bad", "issued"} } :
                      l \in ExtLists }
MetaGroup == Group \in {"meta", "metaquick"}

IsCaseGroup == Group \notin {"meta", "metaquick", "csr", "crl", "rl", "rlquick", "c05", "c05quick"}
ASSUME ~IsCaseGroup \/ ndJsonSerialize("iss_cases.ndjson", SetToSeq(Cases))
ASSUME ~IsCaseGroup \/ PrintT(<<"CASES", Cardinality(Cases)>>)
ASSUME ~MetaGroup \/ ndJsonSerialize("iss_cases.ndjson", SetToSeq(CTCasesOK))
ASSUME ~MetaGroup \/ JsonSerialize("iss_meta_terms.json", MetaTerms)
\* the law itself, on the abstract lists: deletion undoes insertion at every position
ASSUME ~MetaGroup \/ \A l \in ExtLists : \A c \in Inserted(l) : StripCT(c) = l
\* SelfSigned: every relation between issuer and subject name x own signature verifies or not x key type
RelCases == { [rel |-> r, own |-> o, key |-> k] : r \in NameRels, o \in BOOLEAN, k \in {"ed25519", "p256", "rsa2048"} }
ASSUME ~MetaGroup \/ \A c \in RelCases : ExpSelfSigned(c) <=> (c.rel = "identical" /\ c.own)
ASSUME ~MetaGroup \/ ndJsonSerialize("iss_rel_cases.ndjson", SetToSeq(RelCases))
ASSUME ~MetaGroup \/ PrintT(<<"RELCASES", Cardinality(RelCases)>>)
ASSUME ~MetaGroup \/ PrintT(<<"CASES", Cardinality(CTCasesOK)>>)
=============================================================================
