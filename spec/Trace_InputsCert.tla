-------------------------- MODULE Trace_InputsCert --------------------------
(* C02 observation validator (U3): what the harness observed when it applied every
   operation program of InputsCert.tla to real certificates the parser accepted.

   One record summarises the n >= 1 accepted (certificate, mode) pairs of one subject:
   a shape of InputsCert!Shapes ("src": "shape") or a mutation program of
   Inputs!Programs on kind cert ("src": "mut").  Monotone-safe summary: os / same are
   unions, ms the maximum; a rejected summary is re-run and judged pair by pair.

   record: { "src", "x", "v" (shape), "p" (mutation program), "n", "acc" (accepted
             pairs), "nprog" (operation programs applied to each accepted pair),
             "r": [ { "op", "a", "os": [outcomes], "same": [..], "ms": max } ... ] }   *)
EXTENDS InputsCert, Json

CONSTANTS ObsFile, Depth

Obs == ndJsonDeserialize(ObsFile)
Reject(i, j, why) == PrintT(<<"REJECT", i, j, why>>)
SeqSet(s) == { s[x] : x \in DOMAIN s }

JudgeOp(i, rec, j) ==
  LET r == rec.r[j]
      o == O(r.op, r.a)
  IN /\ (o \in Ops \/ Reject(i, j, "op"))
     /\ o \in Ops =>
          /\ (SeqSet(r.os) \subseteq OpOutcomes(o) \/ Reject(i, j, "outcome"))
          /\ (r.ms <= TimeLimitMs \/ Reject(i, j, "time"))
          /\ (SeqSet(r.same) \subseteq { "same", "n/a" } \/ Reject(i, j, "json-differs"))

JudgeRecord(i) ==
  LET rec == Obs[i] IN
  /\ (IF rec.src = "shape" THEN Sh(rec.x, rec.v) \in Shapes ELSE WellFormed("cert", rec.p)) \/ Reject(i, 0, "subject")
  \* shapes: every operation program on a fresh copy; mutated certificates: the one program
  \* applying every operation once (JSON check first and last)
  /\ (rec.acc = 0 \/ rec.nprog = (IF rec.src = "shape" THEN Cardinality(OpPrograms(Depth)) ELSE 1)
        \/ Reject(i, 0, "programs"))
  /\ (rec.acc = 0 \/ { O(rec.r[j].op, rec.r[j].a) : j \in DOMAIN rec.r } = Ops \/ Reject(i, 0, "ops"))
  /\ \A j \in DOMAIN rec.r : JudgeOp(i, rec, j)

ASSUME \A i \in DOMAIN Obs : JudgeRecord(i)
ASSUME PrintT(<<"JUDGED", Len(Obs)>>)
=============================================================================
