----------------------------- MODULE CertPoolGen -----------------------------
(* C08 generator (U1 + U2): the A-layer pool machine over three pool slots, explored exhaustively
   by TLC (invariants below), emitting for every reachable state one shortest history that
   reaches it together with EVERY operation enabled there and the observer results the
   specification demands afterwards (transition coverage: every operation from every reachable
   state).  hist is hidden from the fingerprint by VIEW, so each pool state is expanded once.

   Slots 1 and 2 start as empty pools, slot 3 as a nil *CertPool; Sum stores its NEW pool in
   the target slot.  AddCert / AppendCertsFromPEM are only applied to non-nil pools. *)
EXTENDS CertPool, TLC, Json, SequencesExt

CONSTANTS NC,        \* pool certificates used: PoolCerts[1..NC]
          MaxDepth,  \* bound on the length of the emitted histories
          OutU       \* file the universe is written to

U == SubSeq(PoolCerts, 1, NC)
Slots == 1..3

VARIABLES pools, hist
vars == <<pools, hist>>
\* (the depth is part of the view: with several workers TLC does not visit states in strict breadth-first
\*  order, and a depth bound on a hidden variable would make the explored set depend on scheduling)
View == <<pools, Len(hist)>>
\* for runs whose depth bound is not binding (the whole state space is explored): one visit per pool state
ViewPools == pools

Blk(k, i) == [k |-> k, c |-> i]           \* c = index in U (0 for blocks without certificate)
PEMInputs ==
  {<<Blk("c", i)>> : i \in 1..NC}
  \cup {<<Blk("c", 1), Blk("c", 2)>>,
        <<Blk("c", 2), Blk("t", IF NC >= 3 THEN 3 ELSE 1), Blk("c", 1), Blk("c", 2)>>,
        <<Blk("g", 0), Blk("b", 0), Blk("c", NC), Blk("g", 0)>>,
        <<Blk("b", 0)>>, <<Blk("t", 1)>>, <<Blk("g", 0)>>, <<>>}
BlocksOf(bs) == [i \in 1..Len(bs) |-> [k |-> bs[i].k, c |-> IF bs[i].c = 0 THEN NilPool[1] ELSE U[bs[i].c]]]

SumOps == {<<1, 2, 3>>, <<2, 1, 3>>, <<1, 1, 3>>, <<3, 1, 2>>, <<1, 3, 3>>, <<3, 3, 1>>, <<3, 2, 3>>}

Ops(ps) ==
  {[op |-> "add", p |-> p, c |-> i] : p \in {q \in Slots : ~IsNil(ps[q])}, i \in 1..NC}
  \cup {[op |-> "pem", p |-> p, blocks |-> b] : p \in {q \in Slots : ~IsNil(ps[q])}, b \in PEMInputs}
  \cup {[op |-> "sum", a |-> t[1], b |-> t[2], to |-> t[3]] : t \in SumOps}

Apply(ps, o) ==
  CASE o.op = "add" -> [ps EXCEPT ![o.p] = AddCertStep(ps[o.p], U[o.c])]
    [] o.op = "pem" -> [ps EXCEPT ![o.p] = AppendPEMStep(ps[o.p], BlocksOf(o.blocks))]
    [] o.op = "sum" -> [ps EXCEPT ![o.to] = SumStep(ps[o.a], ps[o.b])]

\* what every observer must return in a state
Expect(ps) ==
  [s \in Slots |->
     IF IsNil(ps[s]) THEN [nil |-> TRUE, size |-> SizeOf(ps[s]), certs |-> <<>>, subjects |-> <<>>,
                           contains |-> [i \in 1..NC |-> Contains(ps[s], U[i])],
                           covers |-> <<>>]
     ELSE [nil |-> FALSE, size |-> SizeOf(ps[s]), certs |-> CertificatesOf(ps[s]), subjects |-> SubjectsOf(ps[s]),
           contains |-> [i \in 1..NC |-> Contains(ps[s], U[i])],
           covers |-> [q \in Slots |-> Covers(ps[s], ps[q])]]]

Init == pools = <<<<>>, <<>>, NilPool>> /\ hist = <<>>
Next == \E o \in Ops(pools) : /\ Len(hist) < MaxDepth
                              /\ pools' = Apply(pools, o)
                              /\ hist' = Append(hist, o)
Spec == Init /\ [][Next]_vars

\* A-layer invariants (U1): duplicate-free, and every pool only holds universe certificates
Inv == \A s \in Slots : NoDup(pools[s])
\* a pool only grows by appending: first-insertion order is never disturbed (Sum targets get a new pool)
IsPrefixOf(a, b) == Len(a) <= Len(b) /\ SubSeq(b, 1, Len(a)) = a
Monotone == [][\A s \in Slots : \/ IsNil(pools[s]) \/ IsPrefixOf(pools[s], pools'[s])
                               \/ \E t \in SumOps : t[3] = s /\ pools'[s] = SumStep(pools[t[1]], pools[t[2]])]_vars

Emit == LET os == SetToSeq(Ops(pools)) IN
        PrintT(ToJson([hist |-> hist,
                       steps |-> [i \in 1..Len(os) |-> [op |-> os[i], exp |-> Expect(Apply(pools, os[i]))]]]))

ASSUME ndJsonSerialize(OutU, AllPoolCerts)
=============================================================================
