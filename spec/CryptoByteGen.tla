---------------------------- MODULE CryptoByteGen ----------------------------
(* C21 program generator (U1 + U2).  A state is a write program (a sequence of
   Builder calls, well nested); TLC explores every program within the bounds and,
   for each complete one (all children closed),
     - checks the two sentences of the property on the specification itself
       (InverseObs, OptionalObs asserted inside Emit),
     - prints the program with the bytes the Builder must produce and two read
       programs (the matching one and the optional-reader variant with absent
       probes before every element) together with the result each read must give.
   Two menus explored in the same run:
     "small"  few representative items, programs up to S_ITEMS items, nesting S_DEPTH
     "large"  many boundary values per item kind, up to L_ITEMS items, nesting L_DEPTH
     "bounds" content-length boundaries of every kind of child (initial states, no successors):
              [outer child] [inner child] fill(n) close [trailer] [close] for n in B_SIZES with every
              inner / outer kind, and for the big sizes B_BIG (65535, 65536: the 2- / 3-octet DER
              length and the 16-bit prefix limit) with a reduced choice of frames.  The demanded
              header octets come from DER.tla (TLV) / BEFixed; a child one octet too long for its
              prefix must make the Builder fail.  Long byte strings are printed compactly
              (length, first and last 16 octets, the repeated middle octet). *)
EXTENDS CryptoByte

CONSTANTS MENUS, S_ITEMS, S_DEPTH, L_ITEMS, L_DEPTH, B_SIZES, B_BIG

VARIABLES menu, w, d, n
vars == <<menu, w, d, n>>

P(op, wd, tag, v, s) == WOp(op, wd, tag, v, s)
Rep(k, b) == [i \in 1..k |-> b]
Close == P("close", 0, 0, <<>>, 0)
IntW(op, s, v) == P(op, 0, 0, v, s)

SmallPrims ==
  {P("u", 1, 0, <<171>>, 0), P("u", 2, 0, <<1, 2>>, 0), P("bytes", 0, 0, <<1, 2, 3>>, 0),
   IntW("int64", -1, <<1>>), IntW("uint64", 1, <<128>>), P("bool", 0, 0, <<>>, 1),
   P("oid", 0, 0, <<1, 2, 840, 113549>>, 0), P("octet", 0, 0, <<1, 2>>, 0), P("null", 0, 0, <<>>, 0),
   P("fill", 128, 7, <<>>, 0)}
SmallOpens == {P("open", 1, 0, <<>>, 0), P("open", 2, 0, <<>>, 0), P("asn1", 0, 48, <<>>, 0), P("asn1", 0, 160, <<>>, 0)}

LargePrims ==
  {P("u", 1, 0, <<0>>, 0), P("u", 1, 0, <<255>>, 0), P("u", 2, 0, <<255, 255>>, 0), P("u", 2, 0, <<0, 1>>, 0),
   P("u", 3, 0, <<255, 255, 255>>, 0), P("u", 3, 0, <<1, 2, 3>>, 0), P("u", 4, 0, <<1, 2, 3, 4>>, 0), P("u", 4, 0, <<128, 0, 0, 0>>, 0),
   P("bytes", 0, 0, <<>>, 0), P("bytes", 0, 0, <<9>>, 0),
   P("fill", 127, 7, <<>>, 0), P("fill", 128, 7, <<>>, 0), P("fill", 255, 7, <<>>, 0), P("fill", 256, 7, <<>>, 0),
   IntW("int64", 0, <<>>), IntW("int64", 1, <<127>>), IntW("int64", 1, <<128>>), IntW("int64", -1, <<128>>), IntW("int64", -1, <<129>>),
   IntW("int64", 1, <<255>>), IntW("int64", 1, <<1, 0>>), IntW("int64", 1, <<127, 255>>), IntW("int64", 1, <<128, 0>>),
   IntW("int64", 1, <<127, 255, 255, 255>>), IntW("int64", 1, <<128, 0, 0, 0>>), IntW("int64", -1, <<128, 0, 0, 0>>), IntW("int64", -1, <<128, 0, 0, 1>>),
   IntW("int64", 1, <<127>> \o Rep(7, 255)), IntW("int64", -1, <<128>> \o Rep(7, 0)),
   IntW("uint64", 0, <<>>), IntW("uint64", 1, <<128>>), IntW("uint64", 1, <<128>> \o Rep(7, 0)), IntW("uint64", 1, Rep(8, 255)),
   IntW("bigint", 0, <<>>), IntW("bigint", -1, <<1>>), IntW("bigint", 1, <<1>> \o Rep(8, 0)), IntW("bigint", -1, <<1>> \o Rep(8, 0)),
   IntW("bigint", 1, <<128>> \o Rep(15, 0)), IntW("bigint", -1, <<128>> \o Rep(15, 0)), IntW("bigint", -1, <<128>> \o Rep(14, 0) \o <<1>>),
   IntW("enum", 0, <<>>), IntW("enum", 1, <<5>>), IntW("enum", -1, <<1>>), IntW("enum", 1, <<1, 0>>),
   P("int64tag", 0, 130, <<1, 44>>, 1), P("int64tag", 0, 130, <<129>>, -1),
   P("bool", 0, 0, <<>>, 1), P("bool", 0, 0, <<>>, 0),
   P("oid", 0, 0, <<1, 2>>, 0), P("oid", 0, 0, <<0, 0>>, 0), P("oid", 0, 0, <<2, 999, 3>>, 0), P("oid", 0, 0, <<2, 5, 4, 3>>, 0),
   P("oid", 0, 0, <<1, 2, 840, 113549, 1, 1, 11>>, 0), P("oid", 0, 0, <<1, 39, 16383>>, 0), P("oid", 0, 0, <<1, 2, 16384>>, 0),
   P("oid", 0, 0, <<1, 2, 268435455>>, 0), P("oid", 0, 0, <<1, 2, 268435456>>, 0), P("oid", 0, 0, <<1, 2, 2147483647>>, 0),
   P("oid", 0, 0, <<2, 2147483567>>, 0), P("oid", 0, 0, <<2, 268435375>>, 0), P("oid", 0, 0, <<2, 268435376>>, 0),
   P("octet", 0, 0, <<>>, 0), P("octet", 0, 0, <<1, 2>>, 0), P("octet", 0, 0, Rep(130, 3), 0),
   P("bits", 0, 0, <<>>, 0), P("bits", 0, 0, <<128>>, 0), P("bits", 0, 0, <<255, 1>>, 0),
   P("gtime", 0, 0, <<2024, 2, 29, 12, 34, 56, 0>>, 0), P("gtime", 0, 0, <<1999, 12, 31, 23, 59, 59, 5400>>, 0),
   P("gtime", 0, 0, <<0, 1, 1, 0, 0, 0, 0>>, 0), P("gtime", 0, 0, <<9999, 12, 31, 23, 59, 59, -3600>>, 0),
   P("null", 0, 0, <<>>, 0)}
LargeOpens == {P("open", 1, 0, <<>>, 0), P("open", 2, 0, <<>>, 0), P("open", 3, 0, <<>>, 0), P("open", 4, 0, <<>>, 0),
               P("asn1", 0, 48, <<>>, 0), P("asn1", 0, 49, <<>>, 0), P("asn1", 0, 4, <<>>, 0),
               P("asn1", 0, 160, <<>>, 0), P("asn1", 0, 163, <<>>, 0), P("asn1", 0, 128, <<>>, 0)}

Prims    == IF menu = "small" THEN SmallPrims ELSE LargePrims
Opens    == IF menu = "small" THEN SmallOpens ELSE LargeOpens
MaxItems == IF menu = "small" THEN S_ITEMS ELSE IF menu = "large" THEN L_ITEMS ELSE 0
MaxDepth == IF menu = "small" THEN S_DEPTH ELSE IF menu = "large" THEN L_DEPTH ELSE 0

\* "bounds" programs
BFrames   == {P("open", 1, 0, <<>>, 0), P("open", 2, 0, <<>>, 0), P("open", 3, 0, <<>>, 0),
              P("asn1", 0, 48, <<>>, 0), P("asn1", 0, 4, <<>>, 0), P("asn1", 0, 160, <<>>, 0)}
BBigInner == {P("open", 2, 0, <<>>, 0), P("open", 3, 0, <<>>, 0), P("asn1", 0, 48, <<>>, 0), P("asn1", 0, 4, <<>>, 0)}
BBigOuter == {P("asn1", 0, 48, <<>>, 0), P("open", 3, 0, <<>>, 0)}
Trailers  == {<<>>, <<P("u", 1, 0, <<171>>, 0)>>}
BProg(outer, inner, k, tr) ==
  outer \o <<inner, P("fill", k, 7, <<>>, 0), Close>> \o tr \o (IF outer = <<>> THEN <<>> ELSE <<Close>>)
BoundsPrograms ==
  {BProg(o, i, k, tr) : o \in {<<>>} \cup {<<f>> : f \in BFrames}, i \in BFrames, k \in B_SIZES, tr \in Trailers}
  \cup {BProg(o, i, k, tr) : o \in {<<>>} \cup {<<f>> : f \in BBigOuter}, i \in BBigInner, k \in B_BIG, tr \in Trailers}

Init == /\ menu \in MENUS
        /\ IF menu = "bounds" THEN w \in BoundsPrograms /\ d = 0 /\ n = 99
           ELSE w = <<>> /\ d = 0 /\ n = 0
Next ==
  /\ UNCHANGED menu
  /\ \/ /\ n < MaxItems /\ \E p \in Prims : w' = Append(w, p)
        /\ n' = n + 1 /\ UNCHANGED d
     \/ /\ n < MaxItems /\ d < MaxDepth /\ \E o \in Opens : w' = Append(w, o)
        /\ n' = n + 1 /\ d' = d + 1
     \/ /\ d > 0 /\ w' = Append(w, Close) /\ d' = d - 1 /\ UNCHANGED n
Spec == Init /\ [][Next]_vars

Complete == d = 0 /\ w # <<>>

\* compact printing: ops and observations as tuples (tools/props/derlib.py -> NDJSON);
\* octet strings longer than 300 as <<"big", length, first 16, last 16, middle octet>>
\* (middle octet = the octet all octets between head and tail are equal to, else -1)
Blob(b) == IF Len(b) <= 300 THEN b
           ELSE <<"big", Len(b), SubSeq(b, 1, 16), SubSeq(b, Len(b) - 15, Len(b)),
                  IF \A k \in 17..(Len(b) - 16) : b[k] = b[17] THEN b[17] ELSE -1>>
TW(op) == <<op.op, op.w, op.tag, op.v, op.s>>
TR(op) == <<op.op, op.w, op.tag, op.cls, op.v, op.s>>
TO(o)  == <<o.ok, o.s, Blob(o.v), o.p, o.rest, o.depth>>
Tup(seq, F(_)) == [i \in 1..Len(seq) |-> F(seq[i])]

(* one invariant per complete program: the two design-level lemmas (a failure is a
   TLC assertion error = machinery problem) and the printed case *)
Emit == Complete =>
  LET b == Build(w)
      out == IF b.err THEN <<>> ELSE Out(b)
      r1 == IF b.err THEN <<>> ELSE Mirror(w)
      r2 == IF b.err THEN <<>> ELSE OptMirror(w)
      o1 == RunR(<<out>>, r1, 1)
      o2 == RunR(<<out>>, r2, 1)
  IN /\ b.err \/ Assert(InverseObs(w, o1), <<"InverseOK fails on the specification", w>>)
     /\ b.err \/ Assert(OptionalObs(r2, o2), <<"OptionalOK fails on the specification", w>>)
     /\ PrintT([w |-> Tup(w, TW), err |-> b.err, bytes |-> Blob(out),
                r1 |-> Tup(r1, TR), o1 |-> Tup(o1, TO),
                r2 |-> Tup(r2, TR), o2 |-> Tup(o2, TO)])
=============================================================================
