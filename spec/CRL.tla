------------------------------- MODULE CRL -------------------------------
(* C14: crl.CheckCRLForCert - revocation lookup in a parsed CRL, linear and cached.

   A layer only (Role F, transcribed function).  Pure operators; used by
     CRLGen.tla    - exhaustive case generator (TLC emits every small case with the
                     result demanded here; the Go harness replays it on the real code)
     Trace_CRL.tla - validator of observations recorded from the real code on large
                     random CRLs.

   Numbers.  TLC integers are 32 bit, serial numbers are up to 20 octets and may be
   negative.  A serial number is therefore the *content octets of its DER INTEGER*
   (two's complement, big endian, minimal): <<0>> = 0, <<255>> = -1, <<0,255>> = 255,
   <<1,0,0,0,0,0,0,0,0>> = 2^64.  Minimal two's complement is canonical, so equality
   of serial numbers is equality of these sequences.  CRL numbers likewise.
   Times are whole seconds after 2020-01-01T00:00:00Z (< 2^31).

   Statement (properties.jsonl C14), clause by clause:
   (1) "reports a certificate as revoked exactly when its serial number appears among
        the CRL's revoked entries"                               -> Lookup(..).rev
   (2) "with the revocation time of the first such entry"        -> Lookup(..).t
   (3) "copies the CRL's issuer, update times, CRL number and extension
        classification"                                          -> Meta
   (4) "Supplying a cache built from the same entries gives the same revoked flag and
        time as the linear search"                               -> CachedAllowed
       Left open: which duplicate's time the cache returns when duplicates of one
       serial carry different times (a map keeps one of them; the statement fixes only
       the linear search) -> CachedAllowed is a *set*.
   Nothing is demanded about RevocationTime of a certificate that is not revoked, nor
   about the issuer of the certificate (the statement matches on the serial only). *)
EXTENDS Integers, Sequences, FiniteSets

NoTime == -1

\* an entry is [s |-> serial (byte sequence), t |-> time]
Matches(entries, s) == {i \in 1..Len(entries) : entries[i].s = s}

FirstIdx(entries, s) ==
  LET M == Matches(entries, s) IN
  IF M = {} THEN 0 ELSE CHOOSE i \in M : \A j \in M : i <= j

\* clauses (1) and (2)
Lookup(entries, s) ==
  LET i == FirstIdx(entries, s) IN
  IF i = 0 THEN [rev |-> FALSE, t |-> NoTime]
           ELSE [rev |-> TRUE,  t |-> entries[i].t]

\* clause (4): what a lookup through "a cache built from the same entries" may return
TimesOf(entries, s) == {entries[i].t : i \in Matches(entries, s)}
CachedAllowed(entries, s) ==
  IF Matches(entries, s) = {} THEN {[rev |-> FALSE, t |-> NoTime]}
  ELSE {[rev |-> TRUE, t |-> x] : x \in TimesOf(entries, s)}

\* A cache as callers build it (crl_test.go: one map slot per serial, later entries
\* overwrite earlier ones).  Used only for the TLC-checked lemma below.
LastIdx(entries, s) ==
  LET M == Matches(entries, s) IN
  IF M = {} THEN 0 ELSE CHOOSE i \in M : \A j \in M : j <= i
MapCacheLookup(entries, s) ==
  LET i == LastIdx(entries, s) IN
  IF i = 0 THEN [rev |-> FALSE, t |-> NoTime]
           ELSE [rev |-> TRUE,  t |-> entries[i].t]

\* Lemma (checked by TLC on every generated case): the overwrite cache is allowed, the
\* linear search is allowed, and both coincide whenever duplicates agree on the time.
CacheLemma(entries, s) ==
  LET ca == CachedAllowed(entries, s)
      lk == Lookup(entries, s) IN
  /\ MapCacheLookup(entries, s) \in ca
  /\ lk \in ca
  /\ Cardinality(TimesOf(entries, s)) <= 1 => ca = {lk}

----------------------------------------------------------------------------
(* clause (3): list-level data.
   crl == [issuer |-> name id, thisUpdate |-> time, nextUpdate |-> time or NoTime,
           exts |-> sequence of [oid |-> dotted string, crit |-> BOOLEAN, val |-> bytes]]
   The CRL number extension value is the DER of an INTEGER with a short length octet
   (02 len content); the number reported is the content octets, so that the spec does
   not depend on 32-bit arithmetic. *)
CRLNumberOID == "2.5.29.20"

IsNumberExt(e) == e.oid = CRLNumberOID
NumberExts(exts) == SelectSeq(exts, IsNumberExt)
OtherExts(exts)  == SelectSeq(exts, LAMBDA e : ~IsNumberExt(e))

IntDER(content) == <<2, Len(content)>> \o content
IntContent(der) == SubSeq(der, 3, Len(der))

\* "extension classification": every extension other than the CRL number goes to the
\* critical or the non-critical list of unknown extensions, in list order.
UnknownCritical(exts)    == SelectSeq(OtherExts(exts), LAMBDA e : e.crit)
UnknownNonCritical(exts) == SelectSeq(OtherExts(exts), LAMBDA e : ~e.crit)

\* hasNum = FALSE: the statement does not say what is reported for a CRL without a
\* number (nothing to copy) -> not compared.  More than one CRL number extension is
\* malformed (RFC 5280 5.2.3) -> not generated.  A number wider than 8 octets cannot be
\* held by the result type (Go int) -> numFits = FALSE, not compared (left open).
Meta(crl) ==
  LET ne == NumberExts(crl.exts) IN
  [issuer     |-> crl.issuer,
   thisUpdate |-> crl.thisUpdate,
   nextUpdate |-> crl.nextUpdate,
   hasNum     |-> Len(ne) = 1,
   num        |-> IF Len(ne) = 1 THEN IntContent(ne[1].val) ELSE <<>>,
   numFits    |-> Len(ne) = 1 /\ Len(IntContent(ne[1].val)) <= 8,
   unkCrit    |-> UnknownCritical(crl.exts),
   unkNon     |-> UnknownNonCritical(crl.exts)]

=============================================================================
