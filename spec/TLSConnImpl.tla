---------------------------- MODULE TLSConnImpl ----------------------------
(* C34 B layer: implementation-shaped model of the locking in /repo/tls/conn.go.

   One action per lock acquisition / atomic operation / blocking transport operation of the real
   code; the local code that follows such an operation (up to the next one) is part of the same
   action.  Goroutines run programs over
       Read Write Write2 Handshake ConnState SetDeadline CloseWrite Close
   (Write2 = a Write whose payload is cut into two records by writeRecordLocked).

     c.handshakeMutex  hsMu      c.in.Mutex  inMu      c.out.Mutex  outMu
     c.activeCall      ac = [c |-> closed bit, n |-> number of Writes in flight]
                       (Load and CompareAndSwap are separate actions: wr_load/wr_cas, cl_load/cl_cas)
     c.handshakeStatus status (atomic)       c.handshakeErr  hsErr
     c.in.err / c.out.err  inErr / outErr    c.closeNotifySent  cnSent
     c.input (unread rest of the last application record)  inLeft

   Handshake (conn.go handshake()): hs_lock takes handshakeMutex and returns at once when
   handshakeErr is set or the handshake is complete; otherwise hs_inlock takes c.in and the
   handshake runs through the transport stages HsShape while holding both
       "wl" record written by WriteRecord while not buffering: takes c.out around the transport write
       "wf" c.flush(): transport write WITHOUT c.out (conn.go flush has no lock of its own)
       "r"  transport read
   then hs_store (atomic store of handshakeStatus), hs_unl_in, hs_unl_hs (deferred unlocks).

   Deliberate abstractions (each named where it is made):
     A1 buffered WriteRecord calls during the handshake (c.out taken and released without blocking)
        are folded into the neighbouring stage action;
     A2 the peer is honest: no malformed records, hence no sendAlert for bad records; the c.in -> c.out
        nesting of the read path is represented by the KeyUpdate answer ("ku", handleKeyUpdate) and by
        the no_renegotiation alert ("hr" with Reneg = FALSE);
     A3 post-handshake messages (handlePostHandshakeMessage): NewSessionTicket "hs" and KeyUpdate without
        request "kun" (c.in only), KeyUpdate(update_requested) "ku", HelloRequest "hr" -> handleRenegotiation
        (handshakeMutex taken while c.in is held, then handshakeStatus := 0, then a handshake holding both;
        RenegOK says whether the peer goes through with it - a zcrypto server never does);
     A4 retryCount / maxUselessRecords are not counted (the peer sends at most MaxPeer records);
     A5 the transport is reliable and ordered; "may block" = the enabling action is simply not taken
        (no fairness on the transport in the safety configuration).

   Data races are predicted as two simultaneously enabled actions of different goroutines whose
   access sets (Acc) conflict and that hold no common lock (LocksAt); field groups:
     VERS  fields written by the handshake and constant afterwards (vers, cipherSuite, peerCertificates ...)
     HSK   handshakeErr, handshakes (written by handshake() after the handshake function returned)
     IN    c.in halfConn, rawInput, input, hand, retryCount
     OUT   c.out halfConn (cipher, seq, err), tmp, closeNotifySent, closeNotifyErr
     OUTB  buffering, sendBuf, bytesSent

   Mut is a set of model-level mutations used to show that the invariants are not vacuous
   (design-level self test; empty in the real configurations).                                   *)
EXTENDS TLSConn, TLC, Json

CONSTANTS G,          \* goroutine ids, a set of naturals > 0
          Progs,      \* set of program assignments: functions G -> sequence of call names
          HsShape,    \* sequence over {"wl","wf","r"}
          MaxPeer,    \* number of records the peer may send after the handshake
          PeerKinds,  \* subset of {"d1","d2","hs","ku"}
          Reneg,      \* BOOLEAN: Config.Renegotiation allows renegotiation (else HelloRequest is refused by an alert)
          RenegOK,    \* BOOLEAN: the peer may go through with a renegotiation (a zcrypto server never does)
          Record,     \* BOOLEAN: keep the schedule history (generation only)
          GenMin,     \* generation only: the peer does not close / no deadline expires before this many
                      \* schedule events (random simulation would otherwise mostly close at once)
          Mut,        \* set of model mutations
          Targets,    \* directed schedules: the branches looked for ({} otherwise)
          WitLen      \* directed schedules: bound on the number of controllable events

Calls == {"Read", "Write", "Write2", "Handshake", "ConnState", "SetDeadline", "CloseWrite", "Close"}

VARIABLES prog, ci, pc,            \* program, index of the current call, control point
          x,                       \* value loaded from activeCall by Write / Close
          frag,                    \* records still to be written by the current Write
          hsok,                    \* result of the Handshake() sub-call
          hsMu, inMu, outMu,       \* lock holders (0 = free)
          ac, status, hsErr, hsI, inErr, outErr, cnSent, inLeft,
          netClosed, peerClosed, inQ, peerN, rdl, wdl,
          midW, atomicOK,          \* monitor of record-level atomicity of Write (observation)
          rn,                      \* goroutine that runs a renegotiation inside Read (0 = none)
          sealN, wireN, pend, seqOK,  \* record sequence monitor: records sealed / put on the wire so far,
                                   \* number of the sealed record each goroutine still has to write
          hist,                    \* schedule history (controllable events only; generation)
          tags                     \* branches of interest taken so far (generation of directed schedules)

ctl   == <<prog, ci, pc, x, frag, hsok>>
locks == <<hsMu, inMu, outMu>>
conn  == <<ac, status, hsErr, hsI, inErr, outErr, cnSent, inLeft>>
net   == <<netClosed, peerClosed, inQ, peerN, rdl, wdl>>
mon   == <<midW, atomicOK>>
ext   == <<rn, sealN, wireN, pend, seqOK>>
vars  == <<ctl, locks, conn, net, mon, ext, hist, tags>>

Cur(g) == IF ci[g] <= Len(prog[g]) THEN prog[g][ci[g]] ELSE "none"
Log(e) == hist' = (IF Record THEN Append(hist, e) ELSE hist) /\ UNCHANGED tags
NoLog  == UNCHANGED <<hist, tags>>
\* only the first branch of interest on a path is remembered (directed-schedule runs stop there)
Tag(t) == tags' = (IF Record /\ t \in Targets /\ tags = {} THEN {t} ELSE tags) /\ UNCHANGED hist
LogT(e, t) == /\ hist' = (IF Record THEN Append(hist, e) ELSE hist)
              /\ tags' = (IF Record /\ t \in Targets /\ tags = {} THEN {t} ELSE tags)

Goto(g, l) == pc' = [pc EXCEPT ![g] = l]
EndCall(g) == /\ pc' = [pc EXCEPT ![g] = "idle"]
              /\ ci' = [ci EXCEPT ![g] = @ + 1]
X0 == [c |-> FALSE, n |-> 0]

----------------------------------------------------------------------------
(* record sequence monitor: a record gets its number when it is sealed (halfConn.encrypt increments
   c.out.seq) and must reach the wire in that order - the peer authenticates the sequence number *)

SqSame      == UNCHANGED <<sealN, wireN, pend, seqOK>>
SealU(g)    == /\ sealN' = sealN + 1 /\ pend' = [pend EXCEPT ![g] = sealN + 1] /\ UNCHANGED <<wireN, seqOK>>
WireU(g)    == /\ wireN' = wireN + 1 /\ seqOK' = (seqOK /\ pend[g] = wireN + 1)
               /\ pend' = [pend EXCEPT ![g] = 0] /\ UNCHANGED sealN
WireSealU(g) == /\ wireN' = wireN + 1 /\ seqOK' = (seqOK /\ pend[g] = wireN + 1)
                /\ sealN' = sealN + 1 /\ pend' = [pend EXCEPT ![g] = sealN + 1]
DropU(g)    == /\ wireN' = wireN + 1 /\ pend' = [pend EXCEPT ![g] = 0] /\ UNCHANGED <<sealN, seqOK>>   \* failed write
\* flush(): the records buffered during the handshake are written at once, without c.out
FlushU      == /\ sealN' = sealN + 1 /\ wireN' = wireN + 1 /\ seqOK' = (seqOK /\ sealN = wireN) /\ UNCHANGED pend

----------------------------------------------------------------------------
(* transport readiness *)

WFail   == netClosed \/ peerClosed # "no" \/ wdl = "expired"
WOk     == ~WFail
RFail   == netClosed \/ rdl = "expired" \/ (inQ = <<>> /\ peerClosed # "no")
ROk     == ~netClosed /\ rdl # "expired" /\ inQ # <<>>
HsRFail == netClosed \/ rdl = "expired" \/ peerClosed # "no"
HsROk   == ~HsRFail

Stage == IF hsI <= Len(HsShape) THEN HsShape[hsI] ELSE "done"
StageLabel(s) == CASE s = "wl" -> "hs_wl_lock" [] s = "wf" -> "hs_wf" [] s = "r" -> "hs_r"
                   [] OTHER -> "hs_store"

\* which lock closeNotify takes ("cn_in": mutation of DESIGN 9.1)
CnUsesIn == "cn_in" \in Mut
\* mutation ku_nolock: the KeyUpdate reply is sealed and sent, and the sending keys rotated, without c.out
KuNoLock == "ku_nolock" \in Mut
AlNoLock == "al_nolock" \in Mut

----------------------------------------------------------------------------
(* enabling condition of the single action available at each control point *)

Guard(g) ==
  CASE pc[g] = "idle"       -> Cur(g) # "none"
    [] pc[g] = "hs_lock"    -> hsMu = 0
    [] pc[g] = "hs_inlock"  -> inMu = 0
    [] pc[g] = "hs_wl_lock" -> outMu = 0
    [] pc[g] = "hs_wl_w"    -> TRUE            \* WOk or WFail
    [] pc[g] = "hs_wf"      -> TRUE
    [] pc[g] = "hs_r"       -> HsROk \/ HsRFail
    [] pc[g] = "rd_lock"    -> inMu = 0
    [] pc[g] = "rd_net"     -> ROk \/ RFail
    [] pc[g] = "rd_ku_lock" -> KuNoLock \/ outMu = 0
    [] pc[g] = "rd_al_lock" -> AlNoLock \/ outMu = 0
    [] pc[g] = "rn_lock"    -> hsMu = 0
    [] pc[g] = "wr_outlock" -> outMu = 0
    [] pc[g] = "cn_lock"    -> IF CnUsesIn THEN inMu = 0 ELSE outMu = 0
    [] pc[g] = "cs_lock"    -> "cs_nolock" \in Mut \/ hsMu = 0
    [] OTHER                -> TRUE

\* shared-memory accesses performed by the action available at the control point of g (field group, write?)
\* OUTB = c.buffering, c.sendBuf, c.bytesSent: read by every record write (c.write, under c.out) and
\* written by the handshake WITHOUT c.out ("c.buffering = true", flush()).  The buffered WriteRecord calls
\* folded into a stage (A1) take c.out themselves and are not part of the prediction.
Acc(l, g) ==
  CASE l = "hs_lock"    -> {<<"HSK", FALSE>>}
    [] l = "hs_wl_lock" -> {<<"OUT", TRUE>>, <<"OUTB", TRUE>>, <<"VERS", TRUE>>}
    [] l = "hs_wl_w"    -> {<<"OUT", TRUE>>, <<"OUTB", TRUE>>, <<"VERS", TRUE>>}
    [] l = "hs_wf"      -> {<<"OUTB", TRUE>>, <<"VERS", TRUE>>}
    \* a renegotiation that the peer refuses never gets as far as writing c.vers / c.buffering
    [] l = "hs_r"       -> IF rn = g /\ ~RenegOK THEN {<<"IN", TRUE>>}
                           ELSE {<<"IN", TRUE>>, <<"OUTB", TRUE>>, <<"VERS", TRUE>>}
    [] l = "hs_unl_in"  -> {<<"HSK", TRUE>>}
    [] l = "rn_unl"     -> {<<"HSK", TRUE>>}
    [] l = "rd_lock"    -> {<<"IN", TRUE>>, <<"VERS", FALSE>>}
    [] l = "rd_net"     -> {<<"IN", TRUE>>, <<"VERS", FALSE>>}
    [] l = "rd_ku_lock" -> {<<"IN", TRUE>>, <<"OUT", TRUE>>, <<"OUTB", TRUE>>, <<"VERS", FALSE>>}
    [] l = "rd_ku_w"    -> {<<"OUT", TRUE>>, <<"OUTB", TRUE>>}
    [] l = "rd_al_lock" -> {<<"IN", TRUE>>, <<"OUT", TRUE>>, <<"OUTB", TRUE>>, <<"VERS", FALSE>>}
    [] l = "rd_al_w"    -> {<<"OUT", TRUE>>, <<"OUTB", TRUE>>}
    [] l = "wr_cas"     -> IF "wr_vers_early" \in Mut THEN {<<"VERS", FALSE>>} ELSE {}
    \* Write reads c.vers and seals a record only after it saw handshakeComplete() under c.out
    [] l = "wr_outlock" -> IF status = 1 THEN {<<"OUT", TRUE>>, <<"OUTB", TRUE>>, <<"VERS", FALSE>>} ELSE {<<"OUT", FALSE>>}
    [] l = "wr_net"     -> {<<"OUT", TRUE>>, <<"OUTB", TRUE>>, <<"VERS", FALSE>>}
    [] l = "cn_lock"    -> {<<"OUT", TRUE>>, <<"OUTB", TRUE>>, <<"VERS", FALSE>>}
    [] l = "cn_net"     -> {<<"OUT", TRUE>>, <<"OUTB", TRUE>>}
    [] l = "cs_read"    -> {<<"VERS", FALSE>>}
    [] OTHER            -> {}

Conflict(A, B) == \E a \in A, b \in B : a[1] = b[1] /\ (a[2] \/ b[2])

\* locks held while the accesses of the action at a control point are performed (for a lock
\* acquisition: including the lock being acquired).  Defined from the control point, not from the
\* holder variables, so that a mutation that bypasses a lock shows.
CnLockName == IF CnUsesIn THEN "in" ELSE "out"
LocksAt(l) ==
  CASE l \in {"hs_lock", "hs_unl_hs"} -> {"hs"}
    [] l \in {"hs_inlock", "hs_wf", "hs_r", "hs_store", "hs_unl_in"} -> {"hs", "in"}
    [] l \in {"hs_wl_lock", "hs_wl_w"} -> {"hs", "in", "out"}
    [] l \in {"rd_lock", "rd_net", "rd_unl"} -> {"in"}
    [] l \in {"rd_ku_lock", "rd_ku_w"} -> IF KuNoLock THEN {"in"} ELSE {"in", "out"}
    [] l \in {"rd_al_lock", "rd_al_w"} -> IF AlNoLock THEN {"in"} ELSE {"in", "out"}
    [] l \in {"rn_lock", "rn_unl"} -> {"hs", "in"}
    [] l \in {"wr_outlock", "wr_net", "wr_unl"} -> {"out"}
    [] l \in {"cn_lock", "cn_net", "cn_unl"} -> {CnLockName}
    [] l \in {"cs_lock", "cs_read"} -> IF "cs_nolock" \in Mut THEN {} ELSE {"hs"}
    [] OTHER -> {}

----------------------------------------------------------------------------
(* call start *)

Start(g) ==
  /\ pc[g] = "idle" /\ Cur(g) # "none"
  /\ LET c == Cur(g) IN
     Goto(g, CASE c \in {"Read", "Handshake"} -> "hs_lock"
               [] c \in {"Write", "Write2"}  -> "wr_load"
               [] c = "ConnState"            -> "cs_lock"
               [] c = "SetDeadline"          -> "sd"
               [] c = "CloseWrite"           -> "cw_chk"
               [] c = "Close"                -> "cl_load")
  /\ Log([t |-> "s", g |-> g])
  /\ UNCHANGED <<prog, ci, x, frag, hsok, locks, conn, net, mon, ext>>

----------------------------------------------------------------------------
(* Handshake() as called by Handshake, Read and Write *)

\* after the handshake sub-call: continue the calling method
AfterHs(g, ok) ==
  CASE Cur(g) = "Handshake" -> EndCall(g)
    [] Cur(g) = "Read"      -> IF ok THEN Goto(g, "rd_lock") /\ UNCHANGED ci ELSE EndCall(g)
    [] OTHER                -> Goto(g, IF ok THEN "wr_outlock" ELSE "wr_dec") /\ UNCHANGED ci

HsLock(g) ==
  /\ pc[g] = "hs_lock" /\ hsMu = 0
  /\ hsMu' = g
  /\ IF hsErr \/ status = 1
     THEN Goto(g, "hs_unl_hs") /\ hsok' = [hsok EXCEPT ![g] = ~hsErr]
     ELSE Goto(g, "hs_inlock") /\ UNCHANGED hsok
  /\ NoLog /\ UNCHANGED <<prog, ci, x, frag, inMu, outMu, conn, net, mon, ext>>

HsInLock(g) ==
  /\ pc[g] = "hs_inlock" /\ inMu = 0
  /\ inMu' = g
  /\ hsI' = 1
  /\ Goto(g, StageLabel(HsShape[1]))
  /\ NoLog /\ UNCHANGED <<prog, ci, x, frag, hsok, hsMu, outMu, ac, status, hsErr, inErr, outErr, cnSent, inLeft, net, mon, ext>>

\* a stage succeeded: next stage
HsAdvance(g) ==
  /\ hsI' = hsI + 1
  /\ Goto(g, IF hsI + 1 <= Len(HsShape) THEN StageLabel(HsShape[hsI + 1]) ELSE "hs_store")
  /\ UNCHANGED <<hsErr, hsok>>

\* a stage failed: handshakeErr is set and the deferred unlocks run
HsFail(g) ==
  /\ hsErr' = TRUE
  /\ hsok' = [hsok EXCEPT ![g] = FALSE]
  /\ Goto(g, IF rn = g THEN "rn_unl" ELSE "hs_unl_in")
  /\ hsI' = 0

HsFailTag == IF hsI > 1 THEN Tag("hs_fail") ELSE NoLog

HsWlLock(g) ==
  /\ pc[g] = "hs_wl_lock" /\ outMu = 0
  /\ outMu' = g
  /\ Goto(g, "hs_wl_w")
  /\ SealU(g)
  /\ NoLog /\ UNCHANGED <<prog, ci, x, frag, hsok, hsMu, inMu, conn, net, mon, rn>>

HsWlW(g) ==
  /\ pc[g] = "hs_wl_w"
  /\ outMu' = 0
  /\ \/ WOk   /\ HsAdvance(g) /\ Log([t |-> "w", g |-> g]) /\ UNCHANGED outErr /\ WireU(g)
     \/ WFail /\ HsFail(g) /\ HsFailTag /\ UNCHANGED outErr /\ DropU(g)
  /\ UNCHANGED <<prog, ci, x, frag, hsMu, inMu, ac, status, inErr, cnSent, inLeft, net, mon, rn>>

HsWf(g) ==
  /\ pc[g] = "hs_wf"
  /\ \/ WOk   /\ HsAdvance(g) /\ Log([t |-> "w", g |-> g]) /\ FlushU
     \/ WFail /\ HsFail(g) /\ HsFailTag /\ SqSame
  /\ UNCHANGED <<prog, ci, x, frag, locks, ac, status, inErr, outErr, cnSent, inLeft, net, mon, rn>>

HsR(g) ==
  /\ pc[g] = "hs_r"
  /\ \/ HsROk /\ (rn = g => RenegOK) /\ HsAdvance(g) /\ Log([t |-> "r", g |-> g]) /\ UNCHANGED inErr
     \/ HsRFail /\ HsFail(g) /\ HsFailTag /\ inErr' = (inErr \/ rdl # "expired")   \* a timeout is temporary
     \/ \* the peer answers the renegotiation ClientHello with a fatal alert
        rn = g /\ HsROk /\ HsFail(g) /\ Log([t |-> "r", g |-> g]) /\ inErr' = TRUE
  /\ UNCHANGED <<prog, ci, x, frag, locks, ac, status, outErr, cnSent, inLeft, net, mon, ext>>

HsStore(g) ==
  /\ pc[g] = "hs_store"
  /\ status' = 1
  /\ hsok' = [hsok EXCEPT ![g] = TRUE]
  /\ Goto(g, IF rn = g THEN "rn_unl" ELSE "hs_unl_in")
  /\ NoLog /\ UNCHANGED <<prog, ci, x, frag, locks, ac, hsErr, hsI, inErr, outErr, cnSent, inLeft, net, mon, ext>>

HsUnlIn(g) ==
  /\ pc[g] = "hs_unl_in"
  /\ inMu' = 0
  /\ Goto(g, "hs_unl_hs")
  /\ NoLog /\ UNCHANGED <<prog, ci, x, frag, hsok, hsMu, outMu, conn, net, mon, ext>>

HsUnlHs(g) ==
  /\ pc[g] = "hs_unl_hs"
  /\ hsMu' = 0
  /\ AfterHs(g, hsok[g])
  /\ hsok' = [hsok EXCEPT ![g] = FALSE]
  /\ NoLog /\ UNCHANGED <<prog, x, frag, inMu, outMu, conn, net, mon, ext>>

----------------------------------------------------------------------------
(* Read *)

\* c.in.Lock(); then the loop "for c.input.Len() == 0 { readRecord ... }" up to its first
\* transport read
RdLock(g) ==
  /\ pc[g] = "rd_lock" /\ inMu = 0
  /\ inMu' = g
  /\ IF inLeft > 0
     THEN /\ inLeft' = inLeft - 1 /\ Goto(g, "rd_unl")      \* served from c.input
          /\ UNCHANGED <<inErr, inQ>>
          /\ Tag("rd_left")
     ELSE /\ UNCHANGED <<inLeft, inErr, inQ>>
          /\ Goto(g, IF inErr THEN "rd_unl" ELSE "rd_net")    \* readRecord returns c.in.err at once
          /\ IF inErr THEN Tag("rd_inerr") ELSE NoLog
  /\ UNCHANGED <<prog, ci, x, frag, hsok, hsMu, outMu, ac, status, hsErr, hsI, outErr, cnSent,
                 netClosed, peerClosed, peerN, rdl, wdl, mon, ext>>

\* transport read inside readRecord, and the handling of the record up to the next blocking point
RdNet(g) ==
  /\ pc[g] = "rd_net"
  /\ \/ /\ ROk
        /\ inQ' = Tail(inQ)
        /\ LET k == Head(inQ) e == [t |-> "r", g |-> g] IN
           IF k = "ku" /\ outMu # 0 THEN LogT(e, "ku_wait")
           ELSE IF k = "bad" /\ outMu # 0 THEN LogT(e, "bad_wait")
           ELSE IF k = "hr" /\ hsMu # 0 THEN LogT(e, "rn_wait")
           ELSE IF k = "hr" THEN LogT(e, "rn") ELSE Log(e)
        \* mutation rn_store_early: handshakeStatus is reset before handshakeMutex is taken
        /\ status' = IF Head(inQ) = "hr" /\ Reneg /\ "rn_store_early" \in Mut THEN 0 ELSE status
        /\ LET k == Head(inQ) IN
           CASE k = "d1" -> Goto(g, "rd_unl") /\ UNCHANGED <<inLeft, inErr>>
             [] k = "d2" -> Goto(g, "rd_unl") /\ inLeft' = 1 /\ UNCHANGED inErr
             [] k \in {"hs", "kun"} -> Goto(g, "rd_net") /\ UNCHANGED <<inLeft, inErr>>   \* ticket / KeyUpdate
                                                               \* without request: c.in only, loop
             [] k = "hr" -> Goto(g, IF Reneg THEN "rn_lock" ELSE "rd_al_lock") /\ UNCHANGED <<inLeft, inErr>>
             \* a record that fails authentication: sendAlert(bad_record_mac) takes c.out while c.in is held,
             \* then the error sticks in c.in.err (set here already: nobody can see it before c.in is released)
             [] k = "bad" -> Goto(g, "rd_al_lock") /\ inErr' = TRUE /\ UNCHANGED inLeft
             [] k = "ku" -> Goto(g, "rd_ku_lock") /\ UNCHANGED <<inLeft, inErr>>
             [] k = "cn" -> Goto(g, "rd_unl") /\ inErr' = TRUE /\ UNCHANGED inLeft   \* io.EOF
     \/ \* the close-notify alert was delivered together with the last application record: Read
        \* returns the data and io.EOF at once (conn.go Read, "if a close-notify alert is waiting")
        /\ ROk /\ Head(inQ) = "d1" /\ Len(inQ) > 1 /\ inQ[2] = "cn"
        /\ inQ' = Tail(Tail(inQ))
        /\ inErr' = TRUE
        /\ Goto(g, "rd_unl")
        /\ LogT([t |-> "r", g |-> g], "peek")
        /\ UNCHANGED <<inLeft, status>>
     \/ /\ RFail
        /\ inErr' = (inErr \/ netClosed \/ rdl # "expired")   \* a timeout is temporary
        /\ Goto(g, "rd_unl")
        /\ (IF ~netClosed /\ rdl = "expired" THEN Tag("rd_timeout") ELSE NoLog) /\ UNCHANGED <<inQ, inLeft, status>>
  /\ UNCHANGED <<prog, ci, x, frag, hsok, locks, ac, hsErr, hsI, outErr, cnSent,
                 netClosed, peerClosed, peerN, rdl, wdl, mon, ext>>

\* handleKeyUpdate with updateRequested: c.out taken while c.in is held
RdKuLock(g) ==
  /\ pc[g] = "rd_ku_lock"
  /\ IF KuNoLock THEN UNCHANGED outMu ELSE outMu = 0 /\ outMu' = g
  /\ Goto(g, "rd_ku_w")
  /\ SealU(g)
  /\ NoLog /\ UNCHANGED <<prog, ci, x, frag, hsok, hsMu, inMu, conn, net, mon, rn>>

RdKuW(g) ==
  /\ pc[g] = "rd_ku_w"
  /\ IF KuNoLock THEN UNCHANGED outMu ELSE outMu' = 0
  /\ \/ WOk   /\ Log([t |-> "w", g |-> g]) /\ UNCHANGED outErr /\ WireU(g)
     \/ WFail /\ NoLog /\ outErr' = TRUE /\ DropU(g)             \* "surface the error at the next write"
  /\ Goto(g, "rd_net")
  /\ UNCHANGED <<prog, ci, x, frag, hsok, hsMu, inMu, ac, status, hsErr, hsI, inErr, cnSent, inLeft, net, mon, rn>>

\* HelloRequest with Config.Renegotiation = RenegotiateNever: sendAlert(no_renegotiation) takes c.out
\* while c.in is held; sendAlertLocked leaves the alert as the permanent c.out.err; Read returns it
\* (mutation al_nolock: sendAlertLocked instead of sendAlert - the alert is sealed and sent without c.out)
RdAlLock(g) ==
  /\ pc[g] = "rd_al_lock"
  /\ IF AlNoLock THEN UNCHANGED outMu ELSE outMu = 0 /\ outMu' = g
  /\ Goto(g, "rd_al_w")
  /\ SealU(g)
  /\ NoLog /\ UNCHANGED <<prog, ci, x, frag, hsok, hsMu, inMu, conn, net, mon, rn>>

RdAlW(g) ==
  /\ pc[g] = "rd_al_w"
  /\ IF AlNoLock THEN UNCHANGED outMu ELSE outMu' = 0
  /\ \/ WOk   /\ Log([t |-> "w", g |-> g]) /\ WireU(g)
     \/ WFail /\ NoLog /\ DropU(g)
  /\ outErr' = TRUE
  /\ Goto(g, "rd_unl")
  /\ UNCHANGED <<prog, ci, x, frag, hsok, hsMu, inMu, ac, status, hsErr, hsI, inErr, cnSent, inLeft, net, mon, rn>>

\* handleRenegotiation (RenegotiateFreelyAsClient): handshakeMutex is taken WHILE c.in is held - the
\* only place where the lock order handshakeMutex < in is reversed; then handshakeStatus is reset and a
\* full handshake runs holding both.  It cannot deadlock against handshake() because a goroutine that
\* holds handshakeMutex waits for c.in only if it saw handshakeStatus = 0, which is stored only after
\* handshakeMutex was acquired here.
RnLock(g) ==
  /\ pc[g] = "rn_lock" /\ hsMu = 0
  /\ hsMu' = g
  /\ rn' = g
  /\ status' = 0
  /\ hsI' = 1
  /\ Goto(g, StageLabel(HsShape[1]))
  /\ NoLog /\ UNCHANGED <<prog, ci, x, frag, hsok, inMu, outMu, ac, hsErr, inErr, outErr, cnSent, inLeft, net, mon,
                           sealN, wireN, pend, seqOK>>

\* deferred handshakeMutex.Unlock of handleRenegotiation; Read goes on (c.in still held) or returns the error
RnUnl(g) ==
  /\ pc[g] = "rn_unl"
  /\ hsMu' = 0
  /\ rn' = 0
  /\ Goto(g, IF hsok[g] THEN "rd_net" ELSE "rd_unl")
  /\ hsok' = [hsok EXCEPT ![g] = FALSE]
  /\ NoLog /\ UNCHANGED <<prog, ci, x, frag, inMu, outMu, conn, net, mon, sealN, wireN, pend, seqOK>>

RdUnl(g) ==
  /\ pc[g] = "rd_unl"
  /\ inMu' = 0
  /\ EndCall(g)
  /\ NoLog /\ UNCHANGED <<prog, x, frag, hsok, hsMu, outMu, conn, net, mon, ext>>

----------------------------------------------------------------------------
(* Write *)

WrLoad(g) ==
  /\ pc[g] = "wr_load"
  /\ x' = [x EXCEPT ![g] = ac]
  /\ Goto(g, "wr_cas")
  /\ NoLog /\ UNCHANGED <<prog, ci, frag, hsok, locks, conn, net, mon, ext>>

WrCas(g) ==
  /\ pc[g] = "wr_cas"
  /\ IF x[g].c THEN EndCall(g) /\ UNCHANGED ac                       \* net.ErrClosed
     ELSE IF ac = x[g] THEN /\ ac' = [ac EXCEPT !.n = @ + 1]
                            /\ Goto(g, "hs_lock") /\ UNCHANGED ci
     ELSE Goto(g, "wr_load") /\ UNCHANGED <<ci, ac>>
  /\ x' = [x EXCEPT ![g] = X0]
  /\ (IF x[g].c THEN Tag("wr_closed") ELSE NoLog)
  /\ UNCHANGED <<prog, frag, hsok, locks, status, hsErr, hsI, inErr, outErr, cnSent, inLeft, net, mon, ext>>

WrOutLock(g) ==
  /\ pc[g] = "wr_outlock" /\ outMu = 0
  /\ outMu' = g
  /\ IF outErr \/ status # 1 \/ cnSent
     THEN Goto(g, "wr_unl") /\ UNCHANGED frag
     ELSE Goto(g, "wr_net") /\ frag' = [frag EXCEPT ![g] = IF Cur(g) = "Write2" THEN 2 ELSE 1]
  /\ (IF ~outErr /\ status = 1 /\ cnSent THEN Tag("wr_shutdown") ELSE NoLog)
  /\ (IF outErr \/ status # 1 \/ cnSent THEN SqSame ELSE SealU(g))
  /\ UNCHANGED <<prog, ci, x, hsok, hsMu, inMu, conn, net, mon, rn>>

WrNet(g) ==
  /\ pc[g] = "wr_net"
  /\ \/ /\ WOk
        /\ Log([t |-> "w", g |-> g])
        /\ atomicOK' = (atomicOK /\ midW \in {0, g})
        /\ frag' = [frag EXCEPT ![g] = @ - 1]
        /\ midW' = IF frag[g] > 1 THEN g ELSE 0
        /\ Goto(g, IF frag[g] > 1 THEN "wr_net" ELSE "wr_unl")
        /\ (IF frag[g] > 1 THEN WireSealU(g) ELSE WireU(g))
        /\ UNCHANGED outErr
     \/ /\ WFail
        /\ (IF ~netClosed /\ peerClosed = "no" THEN Tag("wr_timeout") ELSE NoLog)
        /\ outErr' = TRUE
        /\ midW' = IF midW = g THEN 0 ELSE midW
        /\ Goto(g, "wr_unl")
        /\ DropU(g)
        /\ UNCHANGED <<frag, atomicOK>>
  /\ UNCHANGED <<prog, ci, x, hsok, locks, ac, status, hsErr, hsI, inErr, cnSent, inLeft, net, rn>>

WrUnl(g) ==
  /\ pc[g] = "wr_unl"
  /\ outMu' = 0
  /\ Goto(g, "wr_dec")
  /\ NoLog /\ UNCHANGED <<prog, ci, x, frag, hsok, hsMu, inMu, conn, net, mon, ext>>

WrDec(g) ==
  /\ pc[g] = "wr_dec"
  /\ ac' = [ac EXCEPT !.n = @ - 1]
  /\ EndCall(g)
  /\ x' = [x EXCEPT ![g] = X0]                \* (the local is dead: keep the state space small)
  /\ NoLog /\ UNCHANGED <<prog, frag, hsok, locks, status, hsErr, hsI, inErr, outErr, cnSent, inLeft, net, mon, ext>>

----------------------------------------------------------------------------
(* Close, CloseWrite, closeNotify *)

ClLoad(g) ==
  /\ pc[g] = "cl_load"
  /\ x' = [x EXCEPT ![g] = ac]
  /\ Goto(g, "cl_cas")
  /\ NoLog /\ UNCHANGED <<prog, ci, frag, hsok, locks, conn, net, mon, ext>>

ClCas(g) ==
  /\ pc[g] = "cl_cas"
  /\ IF x[g].c THEN EndCall(g) /\ UNCHANGED ac /\ x' = [x EXCEPT ![g] = X0]   \* net.ErrClosed
     ELSE IF ac = x[g] THEN /\ ac' = [ac EXCEPT !.c = TRUE] /\ UNCHANGED x
                            \* "if x != 0": a Write is in flight - skip the close-notify
                            /\ Goto(g, IF x[g].n # 0 THEN "cl_netclose" ELSE "cl_chk") /\ UNCHANGED ci
     ELSE Goto(g, "cl_load") /\ UNCHANGED <<ci, ac, x>>
  /\ (IF x[g].c THEN Tag("cl_twice") ELSE IF ac = x[g] /\ x[g].n # 0 THEN Tag("cdw") ELSE NoLog)
  /\ UNCHANGED <<prog, frag, hsok, locks, status, hsErr, hsI, inErr, outErr, cnSent, inLeft, net, mon, ext>>

ClChk(g) ==
  /\ pc[g] = "cl_chk"
  /\ Goto(g, IF status = 1 THEN "cn_lock" ELSE "cl_netclose")
  /\ NoLog /\ UNCHANGED <<prog, ci, x, frag, hsok, locks, conn, net, mon, ext>>

CwChk(g) ==
  /\ pc[g] = "cw_chk"
  /\ IF status = 1 THEN Goto(g, "cn_lock") /\ UNCHANGED ci ELSE EndCall(g)   \* errEarlyCloseWrite
  /\ (IF status = 1 THEN NoLog ELSE Tag("early_cw"))
  /\ UNCHANGED <<prog, x, frag, hsok, locks, conn, net, mon, ext>>

AfterCn(g) == IF Cur(g) = "Close" THEN Goto(g, "cl_netclose") /\ UNCHANGED ci ELSE EndCall(g)

CnLock(g) ==
  /\ pc[g] = "cn_lock"
  /\ IF CnUsesIn THEN inMu = 0 /\ inMu' = g /\ UNCHANGED outMu
                 ELSE outMu = 0 /\ outMu' = g /\ UNCHANGED inMu
  /\ IF cnSent THEN Goto(g, "cn_unl") /\ UNCHANGED wdl /\ SqSame
     ELSE Goto(g, "cn_net") /\ wdl' = "set" /\ SealU(g)       \* SetWriteDeadline(now + 5s)
  /\ NoLog /\ UNCHANGED <<prog, ci, x, frag, hsok, hsMu, conn, netClosed, peerClosed, inQ, peerN, rdl, mon, rn>>

CnNet(g) ==
  /\ pc[g] = "cn_net"
  /\ \/ WOk /\ Log([t |-> "w", g |-> g]) /\ atomicOK' = (atomicOK /\ midW = 0) /\ WireU(g)
     \/ WFail /\ Tag("cn_fail") /\ UNCHANGED atomicOK /\ DropU(g)
  /\ cnSent' = TRUE
  /\ wdl' = "expired"                                          \* SetWriteDeadline(now)
  /\ Goto(g, "cn_unl")
  /\ UNCHANGED <<prog, ci, x, frag, hsok, locks, ac, status, hsErr, hsI, inErr, outErr, inLeft,
                 netClosed, peerClosed, inQ, peerN, rdl, midW, rn>>

CnUnl(g) ==
  /\ pc[g] = "cn_unl"
  /\ IF CnUsesIn THEN inMu' = 0 /\ UNCHANGED outMu ELSE outMu' = 0 /\ UNCHANGED inMu
  /\ AfterCn(g)
  /\ NoLog /\ UNCHANGED <<prog, x, frag, hsok, hsMu, conn, net, mon, ext>>

ClNetClose(g) ==
  /\ pc[g] = "cl_netclose"
  /\ netClosed' = TRUE
  /\ EndCall(g)
  /\ x' = [x EXCEPT ![g] = X0]
  /\ NoLog /\ UNCHANGED <<prog, frag, hsok, locks, conn, peerClosed, inQ, peerN, rdl, wdl, mon, ext>>

----------------------------------------------------------------------------
(* ConnectionState, SetDeadline *)

CsLock(g) ==
  /\ pc[g] = "cs_lock"
  /\ IF "cs_nolock" \in Mut THEN UNCHANGED hsMu ELSE hsMu = 0 /\ hsMu' = g
  /\ Goto(g, "cs_read")
  /\ NoLog /\ UNCHANGED <<prog, ci, x, frag, hsok, inMu, outMu, conn, net, mon, ext>>

CsRead(g) ==
  /\ pc[g] = "cs_read"
  /\ IF "cs_nolock" \in Mut THEN UNCHANGED hsMu ELSE hsMu' = 0
  /\ EndCall(g)
  /\ NoLog /\ UNCHANGED <<prog, x, frag, hsok, inMu, outMu, conn, net, mon, ext>>

Sd(g) ==
  /\ pc[g] = "sd"
  /\ rdl' = "set" /\ wdl' = "set"
  /\ EndCall(g)
  /\ NoLog /\ UNCHANGED <<prog, x, frag, hsok, locks, conn, netClosed, peerClosed, inQ, peerN, mon, ext>>

----------------------------------------------------------------------------
(* transport / peer *)

PeerSend ==
  /\ status = 1 /\ peerClosed = "no" /\ ~netClosed /\ peerN < MaxPeer
  /\ \E k \in PeerKinds :
       /\ inQ' = Append(inQ, k)
       /\ Log([t |-> "ps", k |-> k])
  /\ peerN' = peerN + 1
  /\ UNCHANGED <<ctl, locks, conn, netClosed, peerClosed, rdl, wdl, mon, ext>>

PeerClose ==
  /\ peerClosed = "no"
  /\ Record => Len(hist) >= GenMin
  /\ \E m \in {"cn", "abort"} :
       /\ peerClosed' = m
       /\ inQ' = IF m = "cn" /\ status = 1 THEN Append(inQ, "cn") ELSE inQ
       /\ Log([t |-> "pc", m |-> m])
  /\ UNCHANGED <<ctl, locks, conn, netClosed, peerN, rdl, wdl, mon, ext>>

Expire ==
  /\ rdl = "set" \/ wdl = "set"
  /\ Record => Len(hist) >= GenMin
  /\ rdl' = IF rdl = "set" THEN "expired" ELSE rdl
  /\ wdl' = IF wdl = "set" THEN "expired" ELSE wdl
  /\ Log([t |-> "x"])
  /\ UNCHANGED <<ctl, locks, conn, netClosed, peerClosed, inQ, peerN, mon, ext>>

Net == PeerSend \/ PeerClose \/ Expire

----------------------------------------------------------------------------

Step(g) ==
  \/ Start(g)
  \/ HsLock(g) \/ HsInLock(g) \/ HsWlLock(g) \/ HsWlW(g) \/ HsWf(g) \/ HsR(g) \/ HsStore(g)
  \/ HsUnlIn(g) \/ HsUnlHs(g)
  \/ RdLock(g) \/ RdNet(g) \/ RdKuLock(g) \/ RdKuW(g) \/ RdAlLock(g) \/ RdAlW(g) \/ RnLock(g) \/ RnUnl(g) \/ RdUnl(g)
  \/ WrLoad(g) \/ WrCas(g) \/ WrOutLock(g) \/ WrNet(g) \/ WrUnl(g) \/ WrDec(g)
  \/ ClLoad(g) \/ ClCas(g) \/ ClChk(g) \/ CwChk(g) \/ CnLock(g) \/ CnNet(g) \/ CnUnl(g) \/ ClNetClose(g)
  \/ CsLock(g) \/ CsRead(g) \/ Sd(g)

AllDone == \A g \in G : pc[g] = "idle" /\ Cur(g) = "none"

Init ==
  /\ prog \in Progs
  /\ ci = [g \in G |-> 1]
  /\ pc = [g \in G |-> "idle"]
  /\ x = [g \in G |-> [c |-> FALSE, n |-> 0]]
  /\ frag = [g \in G |-> 0]
  /\ hsok = [g \in G |-> FALSE]
  /\ hsMu = 0 /\ inMu = 0 /\ outMu = 0
  /\ ac = [c |-> FALSE, n |-> 0]
  /\ status = 0 /\ hsErr = FALSE /\ hsI = 0 /\ inErr = FALSE /\ outErr = FALSE /\ cnSent = FALSE
  /\ inLeft = 0
  /\ netClosed = FALSE /\ peerClosed = "no" /\ inQ = <<>> /\ peerN = 0 /\ rdl = "none" /\ wdl = "none"
  /\ midW = 0 /\ atomicOK = TRUE
  /\ rn = 0 /\ sealN = 0 /\ wireN = 0 /\ pend = [g \in G |-> 0] /\ seqOK = TRUE
  /\ hist = <<>>
  /\ tags = {}

Next == (\E g \in G : Step(g)) \/ Net

Spec == Init /\ [][Next]_vars

\* liveness: per-goroutine weak fairness, no fairness for the transport
FairSpec == Spec /\ \A g \in G : WF_vars(Step(g))

----------------------------------------------------------------------------
(* properties *)

TypeOK ==
  /\ \A g \in G : pc[g] \in {"idle", "hs_lock", "hs_inlock", "hs_wl_lock", "hs_wl_w", "hs_wf", "hs_r", "hs_store",
        "hs_unl_in", "hs_unl_hs", "rd_lock", "rd_net", "rd_ku_lock", "rd_ku_w", "rd_al_lock", "rd_al_w", "rn_lock", "rn_unl", "rd_unl", "wr_load", "wr_cas",
        "wr_outlock", "wr_net", "wr_unl", "wr_dec", "cl_load", "cl_cas", "cl_chk", "cw_chk", "cn_lock", "cn_net",
        "cn_unl", "cl_netclose", "cs_lock", "cs_read", "sd"}
  /\ hsMu \in G \cup {0} /\ inMu \in G \cup {0} /\ outMu \in G \cup {0}
  /\ ac.n \in 0..Cardinality(G)
  /\ status \in {0, 1} /\ inLeft \in 0..1

\* critical sections by control point (independent of the holder variables, so that a model
\* mutation that bypasses a lock is seen)
InHs(g)  == pc[g] \in {"hs_inlock", "hs_wl_lock", "hs_wl_w", "hs_wf", "hs_r", "hs_store", "hs_unl_in", "hs_unl_hs", "cs_read",
                       "rn_unl"}
InIn(g)  == pc[g] \in {"hs_wl_lock", "hs_wl_w", "hs_wf", "hs_r", "hs_store", "hs_unl_in", "rd_net", "rd_ku_lock", "rd_ku_w",
                       "rd_al_lock", "rd_al_w", "rn_lock", "rn_unl", "rd_unl"}
InOut(g) == pc[g] \in {"hs_wl_w", "rd_ku_w", "rd_al_w", "wr_net", "wr_unl", "cn_net", "cn_unl"}

Mutex == \A g, h \in G : g # h =>
            /\ ~(InHs(g) /\ InHs(h))
            /\ ~(InIn(g) /\ InIn(h))
            /\ ~(InOut(g) /\ InOut(h))

\* the holder variables agree with the control points
Holders == /\ \A g \in G : InIn(g) => inMu = g
           /\ \A g \in G : pc[g] \in {"hs_wl_w", "wr_net", "wr_unl"} \cup (IF KuNoLock THEN {} ELSE {"rd_ku_w"})
                                       \cup (IF AlNoLock THEN {} ELSE {"rd_al_w"})
                              => outMu = g
           /\ \A g \in G : (InHs(g) /\ pc[g] # "cs_read") => hsMu = g

\* lock order: handshakeMutex < in < out (a goroutine that waits for a lock holds only smaller ones)
LockOrder == \A g \in G :
  /\ pc[g] \in {"hs_lock", "cs_lock"} => (inMu # g /\ outMu # g)
  /\ pc[g] \in {"hs_inlock", "rd_lock"} => outMu # g
  /\ (pc[g] = "cn_lock" /\ ~CnUsesIn) => (inMu # g /\ hsMu # g)
  /\ pc[g] = "wr_outlock" => (inMu # g /\ hsMu # g)

\* predicted data-race freedom: no two goroutines have conflicting actions enabled together
NoRace == \A g, h \in G :
  (g # h /\ Guard(g) /\ Guard(h) /\ LocksAt(pc[g]) \cap LocksAt(pc[h]) = {})
     => ~Conflict(Acc(pc[g], g), Acc(pc[h], h))

\* fields are constant after the handshake: nobody is inside the handshake once status = 1
\* except for the deferred unlocks
HsFieldsStable == status = 1 => \A g \in G : pc[g] \notin {"hs_wl_lock", "hs_wl_w", "hs_wf", "hs_r", "hs_store"}

\* Close during Write as coded: closeNotify is reached from Close only when no Write was in flight
\* at the compare-and-swap
CloseDuringWrite == \A g \in G : (Cur(g) = "Close" /\ pc[g] \in {"cl_chk", "cn_lock", "cn_net", "cn_unl"}) => x[g].n = 0

\* activeCall counts exactly the Writes between their CAS and their decrement
InWrite(g) == Cur(g) \in {"Write", "Write2"} /\ pc[g] \notin {"idle", "wr_load", "wr_cas"}
ActiveCallExact == ac.n = Cardinality({g \in G : InWrite(g)})

\* no goroutine is stuck once the transport is down: some goroutine can move unless all are done
NoStuck == (netClosed \/ peerClosed # "no") => (AllDone \/ \E g \in G : Guard(g))
\* stronger: there is never a cycle of goroutines waiting for locks (deadlock without the transport)
LockWait(g) == ~Guard(g) /\ pc[g] \in {"hs_lock", "hs_inlock", "hs_wl_lock", "rd_lock", "rd_ku_lock", "rd_al_lock",
                                        "rn_lock", "wr_outlock", "cn_lock", "cs_lock"}
TransportWait(g) == ~Guard(g) /\ pc[g] \in {"rd_net", "hs_r"}
NoLockDeadlock == (\E g \in G : LockWait(g)) => \E g \in G : Guard(g) \/ TransportWait(g)

WriteAtomicB == atomicOK

\* records reach the wire in the order in which they were sealed (the peer's MAC check depends on it)
SeqOK == seqOK

Safety == TypeOK /\ Mutex /\ Holders /\ LockOrder /\ NoRace /\ HsFieldsStable /\ CloseDuringWrite
          /\ ActiveCallExact /\ NoStuck /\ NoLockDeadlock /\ SeqOK

\* liveness
PeerClosedLeadsToDone == (peerClosed # "no") ~> AllDone
NetClosedLeadsToDone  == netClosed ~> AllDone
DeadlinesLeadToDone   == <>[](rdl = "expired" /\ wdl = "expired") => <>AllDone

----------------------------------------------------------------------------
(* schedule export (U2): printed when a behaviour has run every program to its end *)

\* directed schedules: for every state in which a behaviour first takes one of the branches Targets
\* (within WitLen controllable events) one schedule that leads there; exploration stops at the
\* branch, the harness runs the rest of the programs freely
\* The history is hidden from the fingerprint (VIEW WitView): TLC keeps, for every state that
\* first takes the branch, the history of the path on which it found that state.
WitView == <<ctl, locks, conn, net, mon, ext, tags>>
WitBound == tags = {} /\ Len(hist) <= WitLen
WitEmit == tags # {} => PrintT(ToJson([progs |-> [i \in 1..Cardinality(G) |-> prog[i]], ev |-> hist,
                                        tag |-> CHOOSE t \in tags : TRUE]))
AllTags == {"bad_wait", "ku_wait", "rn", "rn_wait", "peek", "cdw", "wr_shutdown", "wr_closed", "cn_fail", "hs_fail", "rd_left", "rd_inerr", "cl_twice",
            "early_cw", "rd_timeout", "wr_timeout"}
Emit == AllDone => PrintT(ToJson([progs |-> [i \in 1..Cardinality(G) |-> prog[i]], ev |-> hist]))
=============================================================================
