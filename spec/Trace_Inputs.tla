---------------------------- MODULE Trace_Inputs ----------------------------
(* C01 observation validator (U3, function style): what the harness observed while
   feeding concretised inputs to the real entry points is judged against the A layer
   of Inputs.tla.

   One record summarises the n >= 1 concrete inputs obtained from one mutation
   program (over the seeds it applies to) that share seed class and "a final
   Truncate removed bytes"; n = 1 is a single input.  The summary is monotone-safe:
   os is the UNION of the outcomes seen, ms / kib the MAXIMUM, len the MINIMUM input
   length, so a summary that is accepted implies that each of its members would be.
   A rejected summary with n > 1 is re-run and judged input by input.

   record: { "k": kind, "p": [mutations], "sw": 0 | 1 (1 = byte-level sweep inputs of
             one seed; no program), "sc": "gen"|"file", "cut": min bytes cut (0 = none),
             "n": inputs merged, "len": min input length,
             "g": [ { "e": [indexes into EpSeq[k], 0-based], "m": mode, "os": [outcomes],
                      "ms": max wall ms, "kib": max KiB allocated } ... ] }
   Outcomes logged by the harness: "ok", "err", "panic", "timeout", "fatal", and "notrun"
   (Inputs!NotRun: the call was not made, see there).

   Output: <<"REJECT", record, group, reason, entry point or "*">> per rejected group
   (group 0 = the record itself; "*" = every entry point of the group),
   <<"JUDGED", records>> at the end.                                      *)
EXTENDS Inputs, Json

CONSTANTS ObsFile,    \* name of the NDJSON file of observations (next to the module)
          EpsFile     \* JSON object kind -> sequence of entry-point names: the order the
                      \* group members "e" index into (written by the driver from the model
                      \* export, so that the names are not repeated in every record)

Obs == ndJsonDeserialize(ObsFile)
EpSeq == JsonDeserialize(EpsFile)

Reject(i, j, why, ep) == PrintT(<<"REJECT", i, j, why, ep>>)

SeqSet(s) == { s[x] : x \in DOMAIN s }

JudgeGroup(i, rec, j) ==
  LET g == rec.g[j]
      os == SeqSet(g.os)
      eps == { EpSeq[rec.k][x + 1] : x \in SeqSet(g.e) }
      allowed(ep) == IF rec.sw > 0 THEN Outcomes ELSE Allowed(rec.k, rec.p, ep, rec.sc, rec.cut, rec.len)
  IN /\ (os \subseteq (Outcomes \cup NotRun) \/ Reject(i, j, "outcome", "*"))
     /\ (g.ms <= TimeLimitMs \/ Reject(i, j, "time", "*"))
     /\ (g.kib <= AllocLimitKiB(rec.len) \/ Reject(i, j, "alloc", "*"))
     /\ \A ep \in eps :
          ((os \cap Outcomes) \subseteq allowed(ep) \/
             Reject(i, j, IF allowed(ep) = { "ok" } THEN "narrow-ok" ELSE "narrow-err", ep))

(* every entry point of the kind was run in every mode: nothing is silently skipped *)
Complete(rec) ==
  UNION { { <<EpSeq[rec.k][x + 1], rec.g[j].m>> : x \in SeqSet(rec.g[j].e) } : j \in DOMAIN rec.g }
    = EntryPoints[rec.k] \X Modes

JudgeRecord(i) ==
  LET rec == Obs[i] IN
  /\ (rec.k \in Kinds \/ Reject(i, 0, "kind", "*"))
  /\ rec.k \in Kinds =>
       /\ (rec.sw > 0 \/ WellFormed(rec.k, rec.p) \/ Reject(i, 0, "program", "*"))
       /\ (Complete(rec) \/ Reject(i, 0, "eps", "*"))
       /\ \A j \in DOMAIN rec.g : JudgeGroup(i, rec, j)

ASSUME \A i \in DOMAIN Obs : JudgeRecord(i)
ASSUME PrintT(<<"JUDGED", Len(Obs)>>)
=============================================================================
