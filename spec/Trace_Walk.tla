----------------------------- MODULE Trace_Walk -----------------------------
(* C11 observation validator (U3, function style).  Each line of walk_obs.ndjson is
     [obs |-> <walk observation of Walk.tla>, case |-> <how to reproduce it>]
   recorded from the real Graph.WalkChains / WalkChainsAsync.  A line is accepted iff
   WalkObsReasons(obs) = {} (A layer of Walk.tla).  For every rejected line one JSON line
   {"i": line, "why": [violated clauses]} is printed; for every accepted line on which the walk
   omitted paths that only the lenient reading permits, {"i": line, "open": count} (information
   for the design note, not a verdict).  The last line printed is <<"JUDGED", n>>.            *)
EXTENDS Walk, Json

Recs == ndJsonDeserialize("walk_obs.ndjson")

ASSUME \A i \in 1..Len(Recs) :
         LET j == WalkObsJudge(Recs[i].obs) IN
         /\ j.why = {} \/ PrintT(ToJson([i |-> i, why |-> j.why]))
         /\ (j.why # {} \/ j.open = 0) \/ PrintT(ToJson([i |-> i, open |-> j.open]))
ASSUME PrintT(<<"JUDGED", Len(Recs)>>)
=============================================================================
