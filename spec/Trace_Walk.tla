----------------------------- MODULE Trace_Walk -----------------------------
(* C11 observation validator (U3, function style).  Each line of walk_obs.ndjson is
     [obs |-> <walk observation of Walk.tla>, case |-> <how to reproduce it>]
   recorded from the real Graph.WalkChains / WalkChainsAsync.  A line is accepted iff
   WalkObsReasons(obs) = {} (A layer of Walk.tla).  For every rejected line one JSON line
   {"i": line, "why": [violated clauses]} is printed; for every accepted line on which the walk
   omitted paths that only the lenient reading permits, {"i": line, "open": count} (information
   for the design note, not a verdict); then {"cover": [...]}, the union of the input-side
   coverage tags (WalkCover), and finally <<"JUDGED", n>>.                                    *)
EXTENDS Walk, Json

Recs == ndJsonDeserialize("walk_obs.ndjson")

\* one line per observation: verdict, lenient-latitude count, input-side coverage tags
ASSUME \A i \in 1..Len(Recs) :
         LET j == WalkObsJudge(Recs[i].obs) IN
         PrintT(ToJson([i |-> i, verdict |-> j.why, open |-> IF j.why = {} THEN j.open ELSE 0,
                        cover |-> WalkCover(Recs[i].obs, j)]))
ASSUME PrintT(<<"JUDGED", Len(Recs)>>)
=============================================================================
