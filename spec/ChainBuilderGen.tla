--------------------------- MODULE ChainBuilderGen ---------------------------
(* C07 case generator (U2) and design-level check B => A (U1), constant level.

   Modes (constant Modes, a set of strings):
     "topo"    every universe of leaf + M further certificates over Names x Keys x issuer name x
               signing key (bad signatures, shared subjects/keys, loops, cross-signs, re-issued
               certificates all fall out of the product), every root/intermediate/both role
               assignment, default attributes
     "kind"    fixed topologies x every assignment of {v1, v3 without basicConstraints, v3 non-CA,
               CA, CA pathlen 0, CA pathlen 1} to every certificate
     "window"  fixed topologies x every assignment of validity windows x every boundary time +-1 s
     "eku"     fixed topologies x every assignment of EKU extensions x requested usages
     "keyid"   fixed topologies x every assignment of subject/authority key identifiers
     "ku"      fixed topologies x keyUsage of every certificate
     "name"    leaf names x requested DNS name x window (the err = nil clause)
     "zerotime" long-lived certificates for calls with VerifyOptions.CurrentTime left zero
   Output: file OutU (distinct certificates = harness/lib/pki.Cert records) and file OutC
   (cases referring to certificates by id).                              *)
EXTENDS ChainBuilder, Json, SequencesExt

CONSTANTS Modes,      \* subset of {"topo","kind","window","eku","keyid","ku","name"}
          Names, Keys, \* topo mode: abstract names / keys besides the leaf's N1 / K1
          M,          \* topo mode: number of certificates besides the leaf
          Ordered,    \* topo mode: TRUE = slots in non-decreasing tuple order only (no permutations)
          Topos,      \* attribute modes: names of the fixed topologies to use
          BigTopos,   \* attribute modes: topologies used by the cheap dimensions only
          OutU, OutC  \* output file names (universe, cases)

----------------------------------------------------------------------------
(* certificates of the generator *)

Leaf0(id, iss, skey) ==
  [MkCert(id, "N1", "K1", iss, skey) EXCEPT !.ca = FALSE, !.dns = <<"a.example">>]

WithId(c, suffix) == [c EXCEPT !.id = c.id \o suffix]

----------------------------------------------------------------------------
(* topo mode *)

Tuples   == Names \X Keys \X Names \X Keys
TupleSeq == SetToSeq(Tuples)
NT       == Len(TupleSeq)
SlotCert(s, k) == LET t == TupleSeq[k] IN
  MkCert("s" \o ToString(s) \o "-" \o t[1] \o t[2] \o t[3] \o t[4], t[1], t[2], t[3], t[4])

TopoLeaves == {Leaf0("L-" \o iss \o skey, iss, skey) : iss \in {"N1", "N2"}, skey \in {"K1", "K2"}}
RoleSet    == {"r", "i", "b"}

SlotChoices(m) == IF Ordered
                  THEN {f \in [1..m -> 1..NT] : \A s \in 1..(m - 1) : f[s] <= f[s + 1]}
                  ELSE [1..m -> 1..NT]

PickSeq(certs, roles, wanted) ==
  LET idx == SelectSeq([i \in 1..Len(certs) |-> i], LAMBDA i : roles[i] \in wanted)
  IN [j \in 1..Len(idx) |-> certs[idx[j]]]

TopoCases(m) ==
  {LET others == [s \in 1..m |-> SlotCert(s, f[s])] IN
   [certs  |-> <<lf>> \o others,
    roots  |-> PickSeq(others, roles, {"r", "b"}),
    inters |-> PickSeq(others, roles, {"i", "b"}),
    leaf   |-> lf, usages |-> <<>>, dns |-> "", times |-> <<500>>, mode |-> "topo"]
   : lf \in TopoLeaves, f \in SlotChoices(m), roles \in [1..m -> RoleSet]}

----------------------------------------------------------------------------
(* fixed topologies: certs (leaf first), r / i = positions that go to Roots / Intermediates *)

C(id, s, k, is, sk) == MkCert(id, s, k, is, sk)
LeafT(is, sk)       == Leaf0("L", is, sk)

TopoRaw(name) ==
  CASE name = "line3" ->
         [certs |-> <<LeafT("N2", "K2"), C("I", "N2", "K2", "N3", "K3"), C("R", "N3", "K3", "N3", "K3")>>,
          r |-> {3}, i |-> {2}]
    [] name = "line4" ->
         [certs |-> <<LeafT("N2", "K2"), C("I1", "N2", "K2", "N3", "K3"), C("I2", "N3", "K3", "N4", "K4"),
                      C("R", "N4", "K4", "N4", "K4")>>,
          r |-> {4}, i |-> {2, 3}]
    [] name = "line5" ->
         [certs |-> <<LeafT("N2", "K2"), C("I1", "N2", "K2", "N3", "K3"), C("I2", "N3", "K3", "N4", "K4"),
                      C("I3", "N4", "K4", "N5", "K5"), C("R", "N5", "K5", "N5", "K5")>>,
          r |-> {5}, i |-> {2, 3, 4}]
    \* two cross-signed roots: the issuing CA exists as two certificates under different roots
    [] name = "cross" ->
         [certs |-> <<LeafT("N2", "K2"), C("Ia", "N2", "K2", "N3", "K3"), C("Ib", "N2", "K2", "N4", "K4"),
                      C("R1", "N3", "K3", "N3", "K3"), C("R2", "N4", "K4", "N4", "K4")>>,
          r |-> {4, 5}, i |-> {2, 3}]
    \* self-issued key rollover: new-with-old is a self-issued (not self-signed) intermediate
    [] name = "rollover" ->
         [certs |-> <<LeafT("N2", "K2"), C("NwO", "N2", "K2", "N2", "K3"), C("Rold", "N2", "K3", "N2", "K3")>>,
          r |-> {3}, i |-> {2}]
    \* rollover below another CA: a self-issued certificate with a path-length limit above it
    [] name = "rollover4" ->
         [certs |-> <<LeafT("N2", "K2"), C("NwO", "N2", "K2", "N2", "K3"), C("I2", "N2", "K3", "N4", "K4"),
                      C("R", "N4", "K4", "N4", "K4")>>,
          r |-> {4}, i |-> {2, 3}]
    \* two CAs sharing a subject with different keys (one of them did not sign the leaf)
    [] name = "shared" ->
         [certs |-> <<LeafT("N2", "K2"), C("Ix", "N2", "K5", "N3", "K3"), C("Ia", "N2", "K2", "N3", "K3"),
                      C("R", "N3", "K3", "N3", "K3")>>,
          r |-> {4}, i |-> {2, 3}]
    \* cross-signed loop A <-> B plus a self-signed root for B's subject and key
    [] name = "loop" ->
         [certs |-> <<LeafT("N2", "K2"), C("A", "N2", "K2", "N3", "K3"), C("B", "N3", "K3", "N2", "K2"),
                      C("R", "N3", "K3", "N3", "K3")>>,
          r |-> {4}, i |-> {2, 3}]
    \* loop whose only exit is one step further: L <- A <- B <- A ... and B <- R
    [] name = "loop5" ->
         [certs |-> <<LeafT("N2", "K2"), C("A", "N2", "K2", "N3", "K3"), C("B", "N3", "K3", "N2", "K2"),
                      C("B2", "N3", "K3", "N4", "K4"), C("R", "N4", "K4", "N4", "K4")>>,
          r |-> {5}, i |-> {2, 3, 4}]
    \* re-issued intermediate rejoining at X: the per-call cache of buildChains is hit
    [] name = "rejoin" ->
         [certs |-> <<LeafT("N2", "K2"), C("I1", "N2", "K2", "N3", "K3"), C("I2", "N2", "K2", "N3", "K3"),
                      C("X", "N3", "K3", "N4", "K4"), C("R", "N4", "K4", "N4", "K4")>>,
          r |-> {5}, i |-> {2, 3, 4}]
    \* a pool member with the issuer's KEY (and key id) but another NAME
    [] name = "akidtrap" ->
         [certs |-> <<LeafT("N2", "K2"), C("Z", "N9", "K2", "N3", "K3"), C("I", "N2", "K2", "N3", "K3"),
                      C("R", "N3", "K3", "N3", "K3")>>,
          r |-> {4}, i |-> {2, 3}]
    \* a pool member with the issuer's NAME signed leaf with a bad signature, the root also in Intermediates
    [] name = "badsig" ->
         [certs |-> <<LeafT("N2", "K7"), C("I", "N2", "K2", "N3", "K3"), C("R", "N3", "K3", "N3", "K3")>>,
          r |-> {3}, i |-> {2, 3}]

\* ids are prefixed with the topology name so that they identify certificates globally
Topo(name) == LET raw == TopoRaw(name) IN
  [raw EXCEPT !.certs = [p \in 1..Len(raw.certs) |-> [raw.certs[p] EXCEPT !.id = name \o "/" \o @]]]

TopoCase(tp, certs, usages, dns, times, mode) ==
  [certs |-> certs,
   roots  |-> PickSeq(certs, [p \in 1..Len(certs) |-> IF p \in tp.r THEN "r" ELSE "-"], {"r"}),
   inters |-> PickSeq(certs, [p \in 1..Len(certs) |-> IF p \in tp.i THEN "i" ELSE "-"], {"i"}),
   leaf |-> certs[1], usages |-> usages, dns |-> dns, times |-> times, mode |-> mode]

\* apply attribute a[p] to certificate p of the topology
Assign(tp, a, Apply(_, _)) == [p \in 1..Len(tp.certs) |-> Apply(tp.certs[p], a[p])]

----------------------------------------------------------------------------
(* kind: version / basicConstraints / cA / pathLenConstraint *)
Kinds == {"v1", "nobc", "notca", "ca", "ca0", "ca1"}
NoExt(c) == [c EXCEPT !.bc = FALSE, !.ca = FALSE, !.pathlen = NoPathLen, !.eku = <<>>, !.skid = "",
                      !.akid = "", !.ku = 0, !.dns = <<>>]
ApplyKind(c, k) ==
  WithId(CASE k = "v1"    -> [NoExt(c) EXCEPT !.ver = 1, !.cn = IF c.dns # <<>> THEN c.dns[1] ELSE ""]
           [] k = "nobc"  -> [c EXCEPT !.bc = FALSE, !.ca = FALSE, !.pathlen = NoPathLen]
           [] k = "notca" -> [c EXCEPT !.bc = TRUE, !.ca = FALSE, !.pathlen = NoPathLen]
           [] k = "ca"    -> [c EXCEPT !.bc = TRUE, !.ca = TRUE, !.pathlen = NoPathLen]
           [] k = "ca0"   -> [c EXCEPT !.bc = TRUE, !.ca = TRUE, !.pathlen = 0]
           [] k = "ca1"   -> [c EXCEPT !.bc = TRUE, !.ca = TRUE, !.pathlen = 1], "." \o k)
KindCases(ts) ==
  UNION {{TopoCase(Topo(n), Assign(Topo(n), a, ApplyKind), <<>>, "", <<500>>, "kind")
          : a \in [1..Len(Topo(n).certs) -> Kinds]} : n \in ts}

----------------------------------------------------------------------------
(* window: validity windows and every boundary time *)
Windows == {"w", "a", "b", "c", "n"}
WinNB(w) == CASE w = "w" -> 0   [] w = "a" -> 100 [] w = "b" -> 200 [] w = "c" -> 150 [] w = "n" -> 260
WinNA(w) == CASE w = "w" -> 1000 [] w = "a" -> 200 [] w = "b" -> 300 [] w = "c" -> 250 [] w = "n" -> 240
ApplyWindow(c, w) == WithId([c EXCEPT !.nb = WinNB(w), !.na = WinNA(w)], "." \o w)
TimesOf(certs) == SetToSeq(BoundaryTimes(SeqToSet(certs)))
WindowCases(ts) ==
  UNION {{LET cs == Assign(Topo(n), a, ApplyWindow) IN
          TopoCase(Topo(n), cs, <<>>, "", TimesOf(cs), "window")
          : a \in [1..Len(Topo(n).certs) -> Windows]} : n \in ts}

----------------------------------------------------------------------------
(* eku: EKU extension of every certificate x requested usages *)
EKUs == {<<>>, <<"server">>, <<"client">>, <<"any">>, <<"msgc">>, <<"unk">>, <<"client", "server">>}
EKUTag(e) == IF e = <<>> THEN "none" ELSE IF Len(e) = 2 THEN "cs" ELSE e[1]
Requests == {<<>>, <<"server">>, <<"client">>, <<"client", "server">>, <<"any">>, <<"email">>,
             <<"email", "any">>, <<"server", "server">>}
ApplyEKU(c, e) == WithId([c EXCEPT !.eku = e], "." \o EKUTag(e))
EKUCases(ts) ==
  UNION {{TopoCase(Topo(n), Assign(Topo(n), a, ApplyEKU), u, "", <<500>>, "eku")
          : a \in [1..Len(Topo(n).certs) -> EKUs], u \in Requests} : n \in ts}

----------------------------------------------------------------------------
(* keyid: subject key id in {absent, own key, foreign}; authority key id in {absent, the signing
   key, foreign}.  "foreign" = K2, the key id of the leaf's real issuer in every topology, or
   KX where the certificate's own / signing key already is K2. *)
KeyIdModes == {"-", "ok", "x"} \X {"-", "ok", "x"}
Foreign(k) == IF k = "K2" THEN "KX" ELSE "K2"
ApplyKeyId(c, m) ==
  WithId([c EXCEPT !.skid = CASE m[1] = "-" -> "" [] m[1] = "ok" -> c.key [] m[1] = "x" -> Foreign(c.key),
                   !.akid = CASE m[2] = "-" -> "" [] m[2] = "ok" -> c.skey [] m[2] = "x" -> Foreign(c.skey)],
         "." \o m[1] \o m[2])
KeyIdCases(ts) ==
  UNION {{TopoCase(Topo(n), Assign(Topo(n), a, ApplyKeyId), <<>>, "", <<500>>, "keyid")
          : a \in [1..Len(Topo(n).certs) -> KeyIdModes]} : n \in ts}

----------------------------------------------------------------------------
(* ku: keyUsage extension of every certificate *)
KUs == {0, KUCertSign, KUDigitalSig, KUCertSign + KUDigitalSig}
ApplyKU(c, k) == WithId([c EXCEPT !.ku = k], ".ku" \o ToString(k))
KUCases(ts) ==
  UNION {{TopoCase(Topo(n), Assign(Topo(n), a, ApplyKU), <<>>, "", <<500>>, "ku")
          : a \in [1..Len(Topo(n).certs) -> KUs]} : n \in ts}

----------------------------------------------------------------------------
(* name: the err = nil clause.  Leaf with SANs / without SAN but with a common name. *)
LeafNames == {"san-a", "san-b", "san-ab", "cn-a", "cn-b", "san-b-cn-a"}
ApplyLeafName(c, n) ==
  WithId(CASE n = "san-a"  -> [c EXCEPT !.dns = <<"a.example">>]
           [] n = "san-b"  -> [c EXCEPT !.dns = <<"b.example">>]
           [] n = "san-ab" -> [c EXCEPT !.dns = <<"b.example", "a.example">>]
           [] n = "cn-a"   -> [c EXCEPT !.dns = <<>>, !.cn = "a.example"]
           [] n = "cn-b"   -> [c EXCEPT !.dns = <<>>, !.cn = "b.example"]
           [] n = "san-b-cn-a" -> [c EXCEPT !.dns = <<"b.example">>, !.cn = "a.example"], "." \o n)
NameCases(ts) ==
  UNION {{LET tp == Topo(n)
              cs == [p \in 1..Len(tp.certs) |->
                       IF p = 1 THEN ApplyLeafName(ApplyWindow(tp.certs[1], w), ln) ELSE tp.certs[p]]
          IN TopoCase(tp, cs, u, d, <<50, 150, 100, 200>>, "name")
          : ln \in LeafNames, d \in {"", "a.example", "b.example", "c.example"}, w \in {"a", "n"},
            u \in {<<>>, <<"any">>}} : n \in ts \cap {"line3", "cross", "badsig"}}

----------------------------------------------------------------------------
(* zerotime: certificates valid from 2020 to 2088 for calls that leave VerifyOptions.CurrentTime zero
   ("if zero, the current time is used"); the driver substitutes the wall clock for the time 0 *)
ApplyLong(c, w) == WithId([c EXCEPT !.nb = 0, !.na = 2145000000], ".long")
ZeroCases(ts) ==
  {TopoCase(Topo(n), Assign(Topo(n), [p \in 1..Len(Topo(n).certs) |-> "z"], ApplyLong), <<>>, "", <<0>>, "zerotime")
   : n \in ts}

\* (operators with a parameter: TLC evaluates parameterless constant definitions eagerly at
\*  start-up, which would build every mode's case set whether selected or not)
Cases(modes) ==
         (IF "topo" \in modes THEN TopoCases(M) ELSE {})
   \cup  (IF "kind" \in modes THEN KindCases(Topos \cup BigTopos) ELSE {})
   \cup  (IF "window" \in modes THEN WindowCases(Topos) ELSE {})
   \cup  (IF "eku" \in modes THEN EKUCases(Topos) ELSE {})
   \cup  (IF "keyid" \in modes THEN KeyIdCases(Topos) ELSE {})
   \cup  (IF "ku" \in modes THEN KUCases(Topos) ELSE {})
   \cup  (IF "name" \in modes THEN NameCases(Topos \cup BigTopos) ELSE {})
   \cup  (IF "zerotime" \in modes THEN ZeroCases(Topos) ELSE {})

IdSeq(certs) == [i \in 1..Len(certs) |-> certs[i].id]
CaseOut(cs) == [certs |-> IdSeq(cs.certs), roots |-> IdSeq(cs.roots), inters |-> IdSeq(cs.inters),
                leaf |-> cs.leaf.id, usages |-> cs.usages, dns |-> cs.dns, times |-> cs.times,
                mode |-> cs.mode, drift |-> cs.mode # "zerotime"]

\* ids identify certificates: the generator must never give two different records one id
IdsUnique(universe) == \A a, b \in universe : a.id = b.id => a = b

\* non-trivial case: some other certificate is a candidate parent of the leaf (by name or by key)
NonTrivial(cs) == \E i \in 2..Len(cs.certs) : NameLink(cs.certs[i], cs.leaf) \/ SigOk(cs.certs[i], cs.leaf)

\* one B-model evaluation per case: [sound (U1: B => A at every time), chains (B returns some), nontrivial]
Facts(cs) == LET cands == BCandidates(cs) IN
  [sound  |-> BSoundCase(cs, cands, cs.times),
   chains |-> SelectSeq(cands, LAMBDA ch : EKUOk(ch, cs.usages)) # <<>>,
   cands  |-> cands # <<>>,
   nontrivial |-> NonTrivial(cs)]

\* (everything under one LET, operators with a parameter: see Cases)
Run(dummy) ==
  LET cases    == Cases(Modes)
      caseSeq  == SetToSeq(cases)
      universe == UNION {SeqToSet(cs.certs) : cs \in cases}
      facts    == {<<cs, Facts(cs)>> : cs \in cases}
      unsound  == {x \in facts : ~x[2].sound}
  IN /\ Assert(IdsUnique(universe), "two different certificates share an id")
     \* U1: the implementation-shaped model only returns what the property allows
     /\ \A x \in unsound : PrintT(<<"B-UNSOUND", CaseOut(x[1])>>)
     /\ Assert(unsound = {}, "B layer returns something the A layer forbids")
     \* vacuity guards: the B model does return chains and (in large configurations) does refuse
     /\ Assert(\E x \in facts : x[2].chains, "vacuous generator configuration: B never returns a chain")
     \* (only where refusals are certain: non-CA intermediates, unsupported usages, arbitrary topologies)
     /\ Assert(Cardinality(cases) > 100 /\ Modes \cap {"kind", "eku", "topo"} # {} => \E x \in facts : ~x[2].chains,
               "vacuous generator configuration: B never refuses")
     /\ ndJsonSerialize(OutU, SetToSeq(universe))
     /\ ndJsonSerialize(OutC, [i \in 1..Len(caseSeq) |-> CaseOut(caseSeq[i])])
     /\ PrintT(<<"GENERATED", Len(caseSeq), Cardinality(universe),
                  Cardinality({x \in facts : x[2].nontrivial}), Cardinality({x \in facts : x[2].chains})>>)

ASSUME Run(0)
=============================================================================
