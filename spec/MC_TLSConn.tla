----------------------------- MODULE MC_TLSConn -----------------------------
(* Model-checking instances of TLSConnImpl: goroutine sets, handshake shapes and program menus.
   A menu gives each goroutine a set of programs; Init picks one program per goroutine, so one TLC
   run covers every combination. *)
EXTENDS TLSConnImpl

G3 == {1, 2, 3}
G2 == {1, 2}

\* transport stages of the handshake as seen from the connection under test
ShapeClient12 == <<"wl", "r", "wf", "r">>   \* ClientHello | ServerHello..Done | CKX,CCS,Finished (flush) | CCS,Finished
ShapeClient13 == <<"wl", "r", "wf">>        \* ClientHello | ServerHello..Finished | CCS,Finished (flush)
ShapeServer12 == <<"r", "wf", "r", "wf">>
ShapeServer13 == <<"r", "wf", "r">>
ShapeShort    == <<"wl", "r">>

Combos(m) == {f \in [DOMAIN m -> UNION {m[g] : g \in DOMAIN m}] : \A g \in DOMAIN m : f[g] \in m[g]}

\* the prototype of DESIGN.md section 6
ProgsProto == {[g \in G3 |-> CASE g = 1 -> <<"Read", "Read", "ConnState">>
                               [] g = 2 -> <<"Write", "Write", "CloseWrite">>
                               [] g = 3 -> <<"ConnState", "Close">>]}

ReaderMenuQ == {<<"Read", "Read", "ConnState">>, <<"Read", "Close">>, <<"Handshake", "Read">>}
WriterMenuQ == {<<"Write", "Write2", "CloseWrite">>, <<"Write2", "Write">>, <<"SetDeadline", "Write", "Write">>}
CloserMenuQ == {<<"ConnState", "Close">>, <<"CloseWrite", "Close">>, <<"ConnState", "SetDeadline", "ConnState">>,
                <<"Close", "Write">>}
ProgsQuick == Combos([g \in G3 |-> CASE g = 1 -> ReaderMenuQ [] g = 2 -> WriterMenuQ [] g = 3 -> CloserMenuQ])

ReaderMenuT == ReaderMenuQ \cup {<<"Read", "SetDeadline", "Read">>, <<"Read", "Read", "Read">>,
                                 <<"ConnState", "Read", "CloseWrite">>, <<"Read", "Write">>}
WriterMenuT == WriterMenuQ \cup {<<"Handshake", "Write", "Close">>, <<"Write", "Read">>,
                                 <<"Write2", "Write2", "Write2">>, <<"Write", "ConnState", "Close">>}
CloserMenuT == CloserMenuQ \cup {<<"Close", "Close">>, <<"ConnState", "CloseWrite", "Read">>,
                                 <<"Handshake", "Close", "Read">>, <<"SetDeadline", "Close">>,
                                 <<"Read", "Close", "Write">>, <<"CloseWrite", "Write", "Close">>}
ProgsThorough == Combos([g \in G3 |-> CASE g = 1 -> ReaderMenuT [] g = 2 -> WriterMenuT [] g = 3 -> CloserMenuT])

\* quick tier: 4 combinations
ProgsQ == Combos([g \in G3 |-> CASE g = 1 -> {<<"Read", "Read">>, <<"Handshake", "Read">>}
                                 [] g = 2 -> {<<"Write", "Write2">>, <<"Write2", "CloseWrite">>}
                                 [] g = 3 -> {<<"ConnState", "Close">>}])
ProgsLive2 == Combos([g \in G2 |-> CASE g = 1 -> {<<"Read", "ConnState">>, <<"Write2", "Read">>}
                                     [] g = 2 -> {<<"Write", "Close">>, <<"SetDeadline", "CloseWrite">>}])

\* directed schedules (TLSConn_wit.cfg): programs with calls left after the branch of interest
ProgsWit == Combos([g \in G3 |-> CASE g = 1 -> {<<"Read", "Read">>, <<"Read", "Write">>}
                                   [] g = 2 -> {<<"Write", "Read">>, <<"CloseWrite", "Write", "Close">>,
                                                <<"SetDeadline", "Write2", "Read">>}
                                   [] g = 3 -> {<<"Close", "Read">>, <<"ConnState", "Close", "Write">>,
                                                <<"Handshake", "Read", "Close">>}])

ProgsWitQ == Combos([g \in G3 |-> CASE g = 1 -> {<<"Read", "Read">>}
                                    [] g = 2 -> {<<"Write", "Read">>, <<"CloseWrite", "Write", "Close">>}
                                    [] g = 3 -> {<<"Close", "Read">>, <<"ConnState", "Close", "Write">>}])

\* read-path post-handshake messages: HelloRequest (TLS <= 1.2 client) and KeyUpdate (TLS 1.3)
ProgsRn == Combos([g \in G3 |-> CASE g = 1 -> {<<"Read">>, <<"Read", "Read">>}
                                  [] g = 2 -> {<<"Write", "Write">>, <<"ConnState", "Write">>}
                                  [] g = 3 -> {<<"ConnState", "Close">>, <<"Handshake", "ConnState">>}])
ProgsKu == Combos([g \in G3 |-> CASE g = 1 -> {<<"Read", "Read">>}
                                  [] g = 2 -> {<<"Write", "Write2">>, <<"Write", "CloseWrite">>}
                                  [] g = 3 -> {<<"ConnState", "Close">>, <<"Write">>}])

ProgsRnQ == Combos([g \in G3 |-> CASE g = 1 -> {<<"Read">>}
                                   [] g = 2 -> {<<"ConnState", "Write">>}
                                   [] g = 3 -> {<<"Handshake", "ConnState">>, <<"ConnState", "Close">>}])
ProgsKuQ == Combos([g \in G3 |-> CASE g = 1 -> {<<"Read", "Read">>}
                                   [] g = 2 -> {<<"Write", "Write2">>}
                                   [] g = 3 -> {<<"ConnState", "Close">>, <<"Write">>}])
KuTags == {"ku_wait", "bad_wait"}
RnTags == {"rn", "rn_wait", "bad_wait"}
BadTags == {"bad_wait"}

\* generation: programs over all call kinds, any role on any goroutine
AnyMenu == ReaderMenuT \cup WriterMenuT \cup CloserMenuT
ProgsGen3 == [G3 -> AnyMenu]
ProgsGen2 == [G2 -> AnyMenu]

\* small instance for the model-mutation self test
ProgsMut == Combos([g \in G3 |-> CASE g = 1 -> {<<"Read", "Read">>, <<"Handshake", "Read">>}
                                   [] g = 2 -> {<<"Write", "Write2">>, <<"Write2", "CloseWrite">>}
                                   [] g = 3 -> {<<"ConnState", "Close">>, <<"CloseWrite", "ConnState">>}])
=============================================================================
