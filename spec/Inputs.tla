------------------------------- MODULE Inputs -------------------------------
(* C01 / C02 (role P): the INPUT MODEL of every zcrypto entry point that decodes
   untrusted bytes, and what the property allows a parser to do with an input.

   A layer only (constants-only module, EXTENDed by InputsGen, Trace_Inputs and
   InputsCert):

     Kinds            artifact kinds (what a byte string claims to be)
     Enc[k]           encoding family of a kind: DER tree, binary record layout
                      (TLS presentation language / little-endian stores), JSON
     EntryPoints[k]   the real entry points every input of that kind is fed to
                      (names are resolved by the harness; an unknown name is a
                      machinery problem), Native[k] the ones that accept the
                      unmutated artifact
     Nodes[k]         the structure tree of the artifact as NAMED node classes.  DER
                      nodes carry a path of selector steps the harness resolves on
                      the real seed; binary kinds carry a layout (Schema) from which
                      the harness parses the seed and from which the node set is
                      derived here
     Muts[k]          mutation operators applicable per node class
     Programs         mutation programs (sequences of mutations) to a depth
     Allowed          what the property allows as the outcome of Parse

   The statement of C01: every entry point "returns either a value or an error for
   every input, without panicking, looping forever, or allocating memory far beyond
   the input size", in both parsing modes.  Hence
        outcome \in {"ok","err"}     /\  time bound  /\  allocation bound.
   Narrowed predictions (justified next to NarrowOK / NarrowErr) only sharpen
   {"ok","err"} where the model knows the answer; they never add outcomes.        *)
EXTENDS Naturals, Sequences, FiniteSets, TLC

Modes == {"strict", "permissive"}       \* encoding/asn1.AllowPermissiveParsing off / on
Outcomes == {"ok", "err"}                \* the only outcomes the property allows
(* "notrun" is not an outcome of the code: the harness logs it for a call it did not
   make because the same entry point had already hung / killed the worker three times in
   this run (each further one costs a watchdog period).  It is accepted here; the
   driver insists that such an entry point ends the run with a reproduced violation. *)
NotRun == {"notrun"}

-----------------------------------------------------------------------------
(* Node classes.  n: name, t: node type, path: selector steps (DER), reg: region
   (coarse part of the artifact, used to classify findings).

   DER selector steps (resolved by harness/lib/dertree on the parsed seed):
     "k"     k-th child (0-based)            "L"    last child
     "vk"    k-th child not counting a leading [0] (TBSCertificate version)
     "ck"    first child with context tag k
     "b"     first child that is a universal BOOLEAN
     "w"     content of an OCTET STRING / BIT STRING re-parsed as DER
     "x:oid" child SEQUENCE whose first child is OBJECT IDENTIFIER oid
     "d:first" / "d:mid" / "d:last"   first / middle / last descendant (pre-order); the node
             itself if it is primitive *)

Nd(n, t, path, reg) == [n |-> n, t |-> t, path |-> path, reg |-> reg]

AlgIdNodes(p, path, reg) ==
  { Nd(p, "algid", path, reg),
    Nd(p \o ".oid", "oid", path \o <<"0">>, reg),
    Nd(p \o ".params", "any", path \o <<"1">>, reg) }

NameNodes(p, path, reg) ==
  { Nd(p, "name", path, reg),
    Nd(p \o ".rdn", "set", path \o <<"0">>, reg),
    Nd(p \o ".atv", "seq", path \o <<"0", "0">>, reg),
    Nd(p \o ".atv.oid", "oid", path \o <<"0", "0", "0">>, reg),
    Nd(p \o ".atv.value", "str", path \o <<"0", "0", "1">>, reg),
    Nd(p \o ".lastrdn", "set", path \o <<"L">>, reg),
    Nd(p \o ".lastvalue", "str", path \o <<"L", "0", "1">>, reg) }

SpkiNodes(p, path, reg) ==
  { Nd(p, "spki", path, reg), Nd(p \o ".key", "bits", path \o <<"1">>, reg),
    Nd(p \o ".key.inner", "any", path \o <<"1", "w">>, reg),      \* RSAPublicKey SEQUENCE
    Nd(p \o ".key.n", "int", path \o <<"1", "w", "0">>, reg),
    Nd(p \o ".key.e", "int", path \o <<"1", "w", "1">>, reg) }
  \cup AlgIdNodes(p \o ".alg", path \o <<"0">>, reg)

(* Extensions zcrypto interprets (x509/x509.go parseCertificate, extensions.go,
   qc_statements.go, tor_service_descriptor.go) plus one it does not. *)
ExtOID == [ bc |-> "2.5.29.19", ku |-> "2.5.29.15", eku |-> "2.5.29.37", san |-> "2.5.29.17",
            ian |-> "2.5.29.18", skid |-> "2.5.29.14", akid |-> "2.5.29.35",
            aia |-> "1.3.6.1.5.5.7.1.1", crldp |-> "2.5.29.31", policies |-> "2.5.29.32",
            nc |-> "2.5.29.30", sctlist |-> "1.3.6.1.4.1.11129.2.4.2",
            qc |-> "1.3.6.1.5.5.7.1.3", tor |-> "2.23.140.1.31", cabforg |-> "2.23.140.3.1",
            poison |-> "1.3.6.1.4.1.11129.2.4.3", unknown |-> "1.3.6.1.4.1.99999.1" ]
ExtNames == DOMAIN ExtOID

ExtNodes(p, base, x) ==
  LET e == base \o << "x:" \o ExtOID[x] >>
      q == p \o "ext." \o x
      r == p \o "ext." \o x
  IN { Nd(q, "ext", e, r), Nd(q \o ".oid", "oid", e \o <<"0">>, r),
       Nd(q \o ".critical", "bool", e \o <<"b">>, r),
       Nd(q \o ".value", "octets", e \o <<"L">>, r),
       Nd(q \o ".inner", "any", e \o <<"L", "w">>, r),
       Nd(q \o ".inner.first", "any", e \o <<"L", "w", "d:first">>, r),
       Nd(q \o ".inner.mid", "any", e \o <<"L", "w", "d:mid">>, r),
       Nd(q \o ".inner.last", "any", e \o <<"L", "w", "d:last">>, r) }

TbsNodes(p, tb) ==
  { Nd(p \o "tbs", "seq", tb, p \o "tbs"),
    Nd(p \o "tbs.version", "explicit", tb \o <<"c0">>, p \o "tbs.version"),
    Nd(p \o "tbs.version.int", "int", tb \o <<"c0", "0">>, p \o "tbs.version"),
    Nd(p \o "tbs.serial", "int", tb \o <<"v0">>, p \o "tbs.serial"),
    Nd(p \o "tbs.validity", "seq", tb \o <<"v3">>, p \o "tbs.validity"),
    Nd(p \o "tbs.validity.notBefore", "time", tb \o <<"v3", "0">>, p \o "tbs.validity"),
    Nd(p \o "tbs.validity.notAfter", "time", tb \o <<"v3", "1">>, p \o "tbs.validity"),
    Nd(p \o "tbs.issuerUID", "bits", tb \o <<"c1">>, p \o "tbs.uid"),
    Nd(p \o "tbs.subjectUID", "bits", tb \o <<"c2">>, p \o "tbs.uid"),
    Nd(p \o "tbs.extsw", "explicit", tb \o <<"c3">>, p \o "tbs.exts"),
    Nd(p \o "tbs.exts", "seq", tb \o <<"c3", "0">>, p \o "tbs.exts"),
    Nd(p \o "tbs.exts.first", "ext", tb \o <<"c3", "0", "0">>, p \o "tbs.exts"),
    Nd(p \o "tbs.exts.last", "ext", tb \o <<"c3", "0", "L">>, p \o "tbs.exts") }
  \cup AlgIdNodes(p \o "tbs.sigalg", tb \o <<"v1">>, p \o "tbs.sigalg")
  \cup NameNodes(p \o "tbs.issuer", tb \o <<"v2">>, p \o "tbs.issuer")
  \cup NameNodes(p \o "tbs.subject", tb \o <<"v4">>, p \o "tbs.subject")
  \cup SpkiNodes(p \o "tbs.spki", tb \o <<"v5">>, p \o "tbs.spki")
  \cup UNION { ExtNodes(p, tb \o <<"c3", "0">>, x) : x \in ExtNames }

CertNodes ==
  { Nd("cert", "seq", <<>>, "cert"), Nd("sig", "bits", <<"2">>, "sig") }
  \cup TbsNodes("", <<"0">>)
  \cup AlgIdNodes("sigalg", <<"1">>, "sigalg")

TbsOnlyNodes == TbsNodes("", <<>>)

CsrNodes ==
  { Nd("csr", "seq", <<>>, "csr"), Nd("info", "seq", <<"0">>, "info"),
    Nd("info.version", "int", <<"0", "0">>, "info.version"),
    Nd("info.attrs", "explicit", <<"0", "c0">>, "info.attrs"),
    Nd("info.attrs.attr", "seq", <<"0", "c0", "0">>, "info.attrs"),
    Nd("info.attrs.attr.oid", "oid", <<"0", "c0", "0", "0">>, "info.attrs"),
    Nd("info.attrs.attr.values", "set", <<"0", "c0", "0", "1">>, "info.attrs"),
    Nd("info.attrs.exts", "seq", <<"0", "c0", "0", "1", "0">>, "info.attrs"),
    Nd("info.attrs.exts.ext", "ext", <<"0", "c0", "0", "1", "0", "0">>, "info.attrs"),
    Nd("info.attrs.exts.ext.value", "octets", <<"0", "c0", "0", "1", "0", "0", "L">>, "info.attrs"),
    Nd("info.attrs.exts.ext.inner", "any", <<"0", "c0", "0", "1", "0", "0", "L", "w">>, "info.attrs"),
    Nd("sig", "bits", <<"2">>, "sig") }
  \cup NameNodes("info.subject", <<"0", "1">>, "info.subject")
  \cup SpkiNodes("info.spki", <<"0", "2">>, "info.spki")
  \cup AlgIdNodes("sigalg", <<"1">>, "sigalg")

CrlNodes ==
  { Nd("crl", "seq", <<>>, "crl"), Nd("tbs", "seq", <<"0">>, "tbs"),
    Nd("tbs.version", "int", <<"0", "0">>, "tbs.version"),
    Nd("tbs.thisUpdate", "time", <<"0", "3">>, "tbs.times"),
    Nd("tbs.nextUpdate", "time", <<"0", "4">>, "tbs.times"),
    Nd("tbs.revoked", "seq", <<"0", "5">>, "tbs.revoked"),
    Nd("tbs.revoked.entry", "seq", <<"0", "5", "0">>, "tbs.revoked"),
    Nd("tbs.revoked.entry.serial", "int", <<"0", "5", "0", "0">>, "tbs.revoked"),
    Nd("tbs.revoked.entry.time", "time", <<"0", "5", "0", "1">>, "tbs.revoked"),
    Nd("tbs.revoked.entry.exts", "seq", <<"0", "5", "0", "2">>, "tbs.revoked"),
    Nd("tbs.revoked.entry.ext", "ext", <<"0", "5", "0", "2", "0">>, "tbs.revoked"),
    Nd("tbs.revoked.entry.ext.inner", "any", <<"0", "5", "0", "2", "0", "L", "w">>, "tbs.revoked"),
    Nd("tbs.revoked.last", "seq", <<"0", "5", "L">>, "tbs.revoked"),
    Nd("tbs.extsw", "explicit", <<"0", "c0">>, "tbs.exts"),
    Nd("tbs.exts", "seq", <<"0", "c0", "0">>, "tbs.exts"),
    Nd("tbs.exts.akid", "ext", <<"0", "c0", "0", "x:2.5.29.35">>, "tbs.exts"),
    Nd("tbs.exts.akid.inner", "any", <<"0", "c0", "0", "x:2.5.29.35", "L", "w">>, "tbs.exts"),
    Nd("tbs.exts.number", "ext", <<"0", "c0", "0", "x:2.5.29.20">>, "tbs.exts"),
    Nd("tbs.exts.number.inner", "int", <<"0", "c0", "0", "x:2.5.29.20", "L", "w">>, "tbs.exts"),
    Nd("sig", "bits", <<"2">>, "sig") }
  \cup AlgIdNodes("tbs.sigalg", <<"0", "1">>, "tbs.sigalg")
  \cup NameNodes("tbs.issuer", <<"0", "2">>, "tbs.issuer")
  \cup AlgIdNodes("sigalg", <<"1">>, "sigalg")

SpkiOnlyNodes == SpkiNodes("spki", <<>>, "spki")

Pkcs1PubNodes == { Nd("key", "seq", <<>>, "key"), Nd("key.n", "int", <<"0">>, "key"),
                   Nd("key.e", "int", <<"1">>, "key") }
Pkcs1PrivNodes ==
  { Nd("key", "seq", <<>>, "key"), Nd("key.version", "int", <<"0">>, "key.version"),
    Nd("key.n", "int", <<"1">>, "key.pub"), Nd("key.e", "int", <<"2">>, "key.pub"),
    Nd("key.d", "int", <<"3">>, "key.priv"), Nd("key.p", "int", <<"4">>, "key.priv"),
    Nd("key.q", "int", <<"5">>, "key.priv"), Nd("key.dp", "int", <<"6">>, "key.crt"),
    Nd("key.dq", "int", <<"7">>, "key.crt"), Nd("key.qinv", "int", <<"8">>, "key.crt") }
Pkcs8Nodes ==
  { Nd("p8", "seq", <<>>, "p8"), Nd("p8.version", "int", <<"0">>, "p8.version"),
    Nd("p8.key", "octets", <<"2">>, "p8.key"), Nd("p8.key.inner", "any", <<"2", "w">>, "p8.key"),
    Nd("p8.key.inner.first", "any", <<"2", "w", "d:first">>, "p8.key"),
    Nd("p8.key.inner.mid", "any", <<"2", "w", "d:mid">>, "p8.key"),
    Nd("p8.key.inner.last", "any", <<"2", "w", "d:last">>, "p8.key") }
  \cup AlgIdNodes("p8.alg", <<"1">>, "p8.alg")
EcPrivNodes ==
  { Nd("ec", "seq", <<>>, "ec"), Nd("ec.version", "int", <<"0">>, "ec.version"),
    Nd("ec.d", "octets", <<"1">>, "ec.d"), Nd("ec.params", "explicit", <<"c0">>, "ec.params"),
    Nd("ec.params.oid", "oid", <<"c0", "0">>, "ec.params"),
    Nd("ec.pub", "explicit", <<"c1">>, "ec.pub"), Nd("ec.pub.bits", "bits", <<"c1", "0">>, "ec.pub") }

OcspReqNodes ==
  { Nd("req", "seq", <<>>, "req"), Nd("req.tbs", "seq", <<"0">>, "req.tbs"),
    Nd("req.list", "seq", <<"0", "0">>, "req.list"), Nd("req.list.req", "seq", <<"0", "0", "0">>, "req.list"),
    Nd("req.certid", "seq", <<"0", "0", "0", "0">>, "req.certid"),
    Nd("req.certid.nameHash", "octets", <<"0", "0", "0", "0", "1">>, "req.certid"),
    Nd("req.certid.keyHash", "octets", <<"0", "0", "0", "0", "2">>, "req.certid"),
    Nd("req.certid.serial", "int", <<"0", "0", "0", "0", "3">>, "req.certid") }
  \cup AlgIdNodes("req.certid.hash", <<"0", "0", "0", "0", "0">>, "req.certid")

OcspRespNodes ==
  LET b == <<"1", "0", "1", "w">> IN         \* BasicOCSPResponse inside responseBytes
  { Nd("resp", "seq", <<>>, "resp"), Nd("resp.status", "int", <<"0">>, "resp.status"),
    Nd("resp.bytesw", "explicit", <<"1">>, "resp.bytes"), Nd("resp.bytes", "seq", <<"1", "0">>, "resp.bytes"),
    Nd("resp.type", "oid", <<"1", "0", "0">>, "resp.bytes"),
    Nd("resp.octets", "octets", <<"1", "0", "1">>, "resp.bytes"),
    Nd("basic", "seq", b, "basic"), Nd("basic.tbs", "seq", b \o <<"0">>, "basic.tbs"),
    Nd("basic.tbs.first", "any", b \o <<"0", "0">>, "basic.tbs"),
    Nd("basic.tbs.responder", "any", b \o <<"0", "c1">>, "basic.tbs"),
    Nd("basic.tbs.responderKey", "any", b \o <<"0", "c2">>, "basic.tbs"),
    Nd("basic.tbs.d.first", "any", b \o <<"0", "d:first">>, "basic.tbs"),
    Nd("basic.tbs.d.mid", "any", b \o <<"0", "d:mid">>, "basic.tbs"),
    Nd("basic.tbs.d.last", "any", b \o <<"0", "d:last">>, "basic.tbs"),
    Nd("basic.sig", "bits", b \o <<"2">>, "basic.sig"),
    Nd("basic.certsw", "explicit", b \o <<"c0">>, "basic.certs"),
    Nd("basic.certs", "seq", b \o <<"c0", "0">>, "basic.certs"),
    Nd("basic.certs.cert", "seq", b \o <<"c0", "0", "0">>, "basic.certs"),
    Nd("basic.certs.cert.spki", "spki", b \o <<"c0", "0", "0", "0", "v5">>, "basic.certs"),
    Nd("basic.certs.cert.sig", "bits", b \o <<"c0", "0", "0", "2">>, "basic.certs") }
  \cup AlgIdNodes("basic.sigalg", b \o <<"1">>, "basic.sigalg")

(* A free-standing DER value for the generic decoders (asn1.Unmarshal into a menu
   of Go types, ct/asn1, cryptobyte readers). *)
ValueNodes ==
  { Nd("val", "seq", <<>>, "val"), Nd("val.int", "int", <<"0">>, "val"),
    Nd("val.bool", "bool", <<"1">>, "val"), Nd("val.oid", "oid", <<"2">>, "val"),
    Nd("val.bits", "bits", <<"3">>, "val"), Nd("val.octets", "octets", <<"4">>, "val"),
    Nd("val.str", "str", <<"5">>, "val"), Nd("val.time", "time", <<"6">>, "val"),
    Nd("val.seq", "seq", <<"7">>, "val"), Nd("val.set", "set", <<"8">>, "val"),
    Nd("val.explicit", "explicit", <<"c0">>, "val"), Nd("val.implicit", "any", <<"c1">>, "val"),
    Nd("val.last", "any", <<"L">>, "val") }

-----------------------------------------------------------------------------
(* Binary layouts.  A layout is a sequence of fields
     [n, t, w, le, rep, sub, body]
   t = "u"      unsigned integer of w bytes (le: little endian)
       "fixed"  w opaque bytes
       "vec"    w-byte length word (byte count) followed by that many bytes, whose
                layout is body (<<>> = opaque); rep: body repeats until exhausted;
                sub # "": the bytes are a DER artifact of kind sub
       "count"  w-byte element COUNT; the next field of the layout repeats count times
       "group"  body in sequence; rep: repeats until the input is exhausted
       "rest"   all remaining bytes (opaque)
   The harness parses every seed with the layout and must re-serialise it to the
   identical bytes before any mutation is judged (concretisation check).          *)
Fld(n, t, w, le, rep, sub, body) == [n |-> n, t |-> t, w |-> w, le |-> le, rep |-> rep, sub |-> sub, body |-> body]
U(n, w) == Fld(n, "u", w, FALSE, FALSE, "", <<>>)
ULE(n, w) == Fld(n, "u", w, TRUE, FALSE, "", <<>>)
Fx(n, w) == Fld(n, "fixed", w, FALSE, FALSE, "", <<>>)
Op(n, w) == Fld(n, "vec", w, FALSE, FALSE, "", <<>>)              \* opaque vector
Vec(n, w, body) == Fld(n, "vec", w, FALSE, FALSE, "", body)
VecRep(n, w, body) == Fld(n, "vec", w, FALSE, TRUE, "", body)
VecDer(n, w, sub) == Fld(n, "vec", w, FALSE, FALSE, sub, <<>>)
Grp(n, body) == Fld(n, "group", 0, FALSE, FALSE, "", body)
GrpRep(n, body) == Fld(n, "group", 0, FALSE, TRUE, "", body)
Rest(n) == Fld(n, "rest", 0, FALSE, FALSE, "", <<>>)

TlsExts(n) == VecRep(n, 2, << U("type", 2), Op("data", 2) >>)
TlsMsg(body) == << U("type", 1), Vec("body", 3, body) >>
CertEntry13 == << VecDer("cert", 3, "cert"), TlsExts("exts") >>

Layout ==
  [ sct |-> << U("version", 1), Fx("logid", 32), U("timestamp", 8), Op("exts", 2),
               U("hash", 1), U("sigalg", 1), Op("sig", 2) >>,
    ds |-> << U("hash", 1), U("sigalg", 1), Op("sig", 2) >>,
    mtlx509 |-> << U("version", 1), U("leaftype", 1), U("timestamp", 8), U("entrytype", 2),
                   VecDer("cert", 3, "cert"), Op("exts", 2) >>,
    mtlprecert |-> << U("version", 1), U("leaftype", 1), U("timestamp", 8), U("entrytype", 2),
                      Fx("issuerKeyHash", 32), VecDer("tbs", 3, "tbs"), Op("exts", 2) >>,
    chain |-> << VecRep("list", 3, << VecDer("cert", 3, "cert") >>) >>,
    prechain |-> << VecDer("precert", 3, "cert"), VecRep("list", 3, << VecDer("cert", 3, "cert") >>) >>,
    \* Chrome CRLSet: uint16le header length, JSON header, then per issuer
    \* SHA-256(SPKI), uint32le serial count, serials as uint8-length strings
    crlset |-> << Fld("header", "vec", 2, TRUE, FALSE, "json", <<>>),
                  GrpRep("entry", << Fx("spki", 32), Fld("nserials", "count", 4, TRUE, FALSE, "", <<>>),
                                     Op("serial", 1) >>) >>,
    \* Microsoft disallowedcert.sst: version, "CERT", elements (id, encoding, length,
    \* value); id 32 = certificate, id 0 + 8 zero bytes = end marker (parses as an
    \* element with encoding 0 and length 0).  The value of a certificate element is a
    \* DER certificate (the synthetic seeds put a certificate element first)
    sst |-> << ULE("version", 4), Fx("magic", 4),
               GrpRep("elem", << ULE("id", 4), ULE("enc", 4),
                                 Fld("value", "vec", 4, TRUE, FALSE, "cert", <<>>) >>) >>,
    tlsClientHello |-> TlsMsg(<< U("vers", 2), Fx("random", 32), Op("sessionId", 1), Op("suites", 2),
                                 Op("compression", 1), TlsExts("exts") >>),
    tlsServerHello |-> TlsMsg(<< U("vers", 2), Fx("random", 32), Op("sessionId", 1), U("suite", 2),
                                 U("compression", 1), TlsExts("exts") >>),
    tlsEncryptedExtensions |-> TlsMsg(<< TlsExts("exts") >>),
    tlsEndOfEarlyData |-> TlsMsg(<<>>),
    tlsKeyUpdate |-> TlsMsg(<< U("update", 1) >>),
    tlsNewSessionTicket13 |-> TlsMsg(<< U("lifetime", 4), U("ageAdd", 4), Op("nonce", 1), Op("label", 2),
                                        TlsExts("exts") >>),
    tlsCertificateRequest13 |-> TlsMsg(<< Op("context", 1), TlsExts("exts") >>),
    tlsCertificate |-> TlsMsg(<< VecRep("list", 3, << VecDer("cert", 3, "cert") >>) >>),
    tlsCertificate13 |-> TlsMsg(<< Op("context", 1), VecRep("list", 3, CertEntry13) >>),
    tlsServerKeyExchange |-> TlsMsg(<< Rest("params") >>),
    tlsCertificateStatus |-> TlsMsg(<< U("statusType", 1), VecDer("response", 3, "ocspresp") >>),
    tlsServerHelloDone |-> TlsMsg(<<>>),
    tlsClientKeyExchange |-> TlsMsg(<< Rest("ciphertext") >>),
    tlsFinished |-> TlsMsg(<< Rest("verifyData") >>),
    tlsCertificateRequest |-> TlsMsg(<< Op("types", 1), Op("sigalgs", 2),
                                        VecRep("cas", 2, << VecDer("dn", 2, "name") >>) >>),
    tlsCertificateVerify |-> TlsMsg(<< U("alg", 2), Op("sig", 2) >>),
    tlsNewSessionTicket |-> TlsMsg(<< U("lifetime", 4), Op("ticket", 2) >>),
    tlsHelloRequest |-> TlsMsg(<<>>),
    tlsSessionState |-> << U("vers", 2), U("suite", 2), U("createdAt", 8), Op("masterSecret", 2),
                           VecRep("certs", 3, << VecDer("cert", 3, "cert") >>) >>,
    tlsSessionState13 |-> << U("version", 2), U("revision", 1), U("suite", 2), U("createdAt", 8),
                             Op("secret", 1), VecRep("list", 3, CertEntry13) >> ]

BinKinds == DOMAIN Layout
TlsKinds == { k \in BinKinds : Len(k) > 3 /\ SubSeq(k, 1, 3) = "tls" }

(* node classes of a layout: one per field, named by the dotted path of field names;
   for fields inside a repeating body the FIRST instance is addressed, and the class
   "<name>#last" addresses the last instance. *)
RECURSIVE LayoutNodes(_, _, _, _)
LayoutNodes(fields, prefix, reg, inrep) ==
  UNION { LET f == fields[i]
              nm == IF prefix = "" THEN f.n ELSE prefix \o "." \o f.n
              rg == IF reg = "" THEN f.n ELSE reg
              ty == IF f.t = "vec" /\ f.sub # "" THEN "vecder"
                    ELSE IF f.t = "vec" /\ f.body = <<>> THEN "opaque"
                    ELSE f.t
          IN { Nd(nm, ty, <<nm>>, rg) }
             \cup (IF inrep THEN { Nd(nm \o "#last", ty, <<nm \o "#last">>, rg) } ELSE {})
             \cup LayoutNodes(f.body, nm, rg, f.rep)
        : i \in 1..Len(fields) }

(* TLS messages share the header: region of everything below body is the field name *)
BinNodes(k) ==
  IF k \in TlsKinds /\ Len(Layout[k]) = 2 /\ Layout[k][2].n = "body"
  THEN { Nd("type", "u", <<"type">>, "type"), Nd("body", "vec", <<"body">>, "body") }
       \cup LayoutNodes(Layout[k][2].body, "body", "", FALSE)
  ELSE LayoutNodes(Layout[k], "", "", FALSE)

-----------------------------------------------------------------------------
(* JSON kind: Mozilla OneCRL.  Node classes are JSON pointers into the first entry of
   each flavour (issuer/serial entries and subject/pubKeyHash entries). *)
JsonNodes ==
  { Nd("doc", "jobj", <<>>, "doc"), Nd("data", "jarr", <<"data">>, "data"),
    Nd("entry", "jobj", <<"data", "0">>, "entry"),
    Nd("entry.issuerName", "jb64der", <<"data", "0", "issuerName">>, "entry.issuerName"),
    Nd("entry.serialNumber", "jb64", <<"data", "0", "serialNumber">>, "entry.serialNumber"),
    Nd("entry.enabled", "jbool", <<"data", "0", "enabled">>, "entry.meta"),
    Nd("entry.schema", "jnum", <<"data", "0", "schema">>, "entry.meta"),
    Nd("entry.last_modified", "jnum", <<"data", "0", "last_modified">>, "entry.meta"),
    Nd("entry.details", "jobj", <<"data", "0", "details">>, "entry.details"),
    Nd("entry.details.created", "jstr", <<"data", "0", "details", "created">>, "entry.details"),
    Nd("entry.id", "jstr", <<"data", "0", "id">>, "entry.meta"),
    Nd("sentry", "jobj", <<"data", "L">>, "sentry"),
    Nd("sentry.subject", "jb64der", <<"data", "L", "subject">>, "sentry.subject"),
    Nd("sentry.pubKeyHash", "jb64", <<"data", "L", "pubKeyHash">>, "sentry.pubKeyHash") }

-----------------------------------------------------------------------------
(* Kinds, encodings, entry points *)
DerKinds == { "cert", "tbs", "csr", "crl", "spki", "pkcs1pub", "pkcs1priv", "pkcs8", "ecpriv",
              "ocspreq", "ocspresp", "name", "value" }
JsonKinds == { "onecrl" }
Kinds == DerKinds \cup BinKinds \cup JsonKinds

Enc == [ k \in Kinds |-> IF k \in DerKinds THEN "der" ELSE IF k \in JsonKinds THEN "json" ELSE "bin" ]

NameOnlyNodes == NameNodes("name", <<>>, "name")

Nodes == TLCEval([ k \in Kinds |-> TLCEval(
  CASE k = "cert" -> CertNodes [] k = "tbs" -> TbsOnlyNodes [] k = "csr" -> CsrNodes
    [] k = "crl" -> CrlNodes [] k = "spki" -> SpkiOnlyNodes [] k = "pkcs1pub" -> Pkcs1PubNodes
    [] k = "pkcs1priv" -> Pkcs1PrivNodes [] k = "pkcs8" -> Pkcs8Nodes [] k = "ecpriv" -> EcPrivNodes
    [] k = "ocspreq" -> OcspReqNodes [] k = "ocspresp" -> OcspRespNodes
    [] k = "name" -> NameOnlyNodes [] k = "value" -> ValueNodes
    [] k = "onecrl" -> JsonNodes
    [] OTHER -> BinNodes(k)) ])

(* Generic decoders every input is also fed to, whatever it claims to be. *)
GenericEPs == { "asn1.Unmarshal/menu", "ctasn1.Unmarshal/menu", "cryptobyte/readers" }

TlsNative == [ k \in TlsKinds |->
  CASE k = "tlsClientHello" -> "clientHelloMsg" [] k = "tlsServerHello" -> "serverHelloMsg"
    [] k = "tlsEncryptedExtensions" -> "encryptedExtensionsMsg" [] k = "tlsEndOfEarlyData" -> "endOfEarlyDataMsg"
    [] k = "tlsKeyUpdate" -> "keyUpdateMsg" [] k = "tlsNewSessionTicket13" -> "newSessionTicketMsgTLS13"
    [] k = "tlsCertificateRequest13" -> "certificateRequestMsgTLS13" [] k = "tlsCertificate" -> "certificateMsg"
    [] k = "tlsCertificate13" -> "certificateMsgTLS13" [] k = "tlsServerKeyExchange" -> "serverKeyExchangeMsg"
    [] k = "tlsCertificateStatus" -> "certificateStatusMsg" [] k = "tlsServerHelloDone" -> "serverHelloDoneMsg"
    [] k = "tlsClientKeyExchange" -> "clientKeyExchangeMsg" [] k = "tlsFinished" -> "finishedMsg"
    [] k = "tlsCertificateRequest" -> "certificateRequestMsg" [] k = "tlsCertificateVerify" -> "certificateVerifyMsg"
    [] k = "tlsNewSessionTicket" -> "newSessionTicketMsg" [] k = "tlsHelloRequest" -> "helloRequestMsg"
    [] k = "tlsSessionState" -> "sessionState" [] k = "tlsSessionState13" -> "sessionStateTLS13" ]

(* Native[k]: entry points whose own format k is. *)
Native == [ k \in Kinds |->
  CASE k = "cert" -> { "x509.ParseCertificate", "x509.ParseCertificates", "ctx509.ParseCertificate",
                       "ctx509.ParseCertificates" }
    [] k = "tbs" -> { "x509.ParseTBSCertificate", "ctx509.ParseTBSCertificate" }
    [] k = "csr" -> { "x509.ParseCertificateRequest" }
    [] k = "crl" -> { "x509.ParseCRL", "x509.ParseDERCRL", "x509.ParseRevocationList",
                      "ctx509.ParseCRL", "ctx509.ParseDERCRL" }
    [] k = "spki" -> { "x509.ParsePKIXPublicKey" }
    [] k = "pkcs1pub" -> { "x509.ParsePKCS1PublicKey" }
    [] k = "pkcs1priv" -> { "x509.ParsePKCS1PrivateKey", "ctx509.ParsePKCS1PrivateKey" }
    [] k = "pkcs8" -> { "x509.ParsePKCS8PrivateKey" }
    [] k = "ecpriv" -> { "x509.ParseECPrivateKey", "ctx509.ParseECPrivateKey" }
    [] k = "ocspreq" -> { "ocsp.ParseRequest" }
    [] k = "ocspresp" -> { "ocsp.ParseResponse" }
    [] k = "name" -> { "asn1.Unmarshal/RDNSequence" }
    [] k = "value" -> {}
    [] k = "sct" -> { "ct.DeserializeSCT", "x509ct.DeserializeSCT" }
    [] k = "ds" -> { "ct.UnmarshalDigitallySigned", "x509ct.UnmarshalDigitallySigned" }
    [] k \in { "mtlx509", "mtlprecert" } -> { "ct.ReadMerkleTreeLeaf" }
    [] k = "chain" -> { "ct.UnmarshalX509ChainArray" }
    [] k = "prechain" -> { "ct.UnmarshalPrecertChainArray" }
    [] k = "crlset" -> { "google.Parse" }
    [] k = "sst" -> { "microsoft.Parse" }
    [] k = "onecrl" -> { "mozilla.Parse" }
    [] OTHER -> { "tls." \o TlsNative[k] \o ".unmarshal" } ]

(* Other entry points an input of kind k is additionally fed to (neighbouring
   formats: the forked parsers, the PEM-or-DER variants, every other TLS message
   decoder).  No prediction is ever made for these. *)
Foreign == [ k \in Kinds |->
  CASE k = "cert" -> { "x509.ParseTBSCertificate", "x509.ParseCertificateRequest", "x509.ParseDERCRL" }
    [] k = "tbs" -> { "x509.ParseCertificate" }
    [] k = "spki" -> { "x509.ParsePKCS1PublicKey", "ctx509.ParsePKIXPublicKey" }   \* fork: no Ed25519 / X25519
    [] k = "pkcs1priv" -> { "x509.ParsePKCS8PrivateKey", "x509.ParseECPrivateKey" }
    \* the ct fork knows no Ed25519 keys: run, not predicted
    [] k = "pkcs8" -> { "x509.ParsePKCS1PrivateKey", "x509.ParseECPrivateKey", "ctx509.ParsePKCS8PrivateKey" }
    [] k = "ecpriv" -> { "x509.ParsePKCS8PrivateKey", "x509.ParsePKCS1PrivateKey" }
    [] k = "ocspreq" -> { "ocsp.ParseResponse" }
    \* with an issuer / subject certificate the verdict depends on who signed the seed
    [] k = "ocspresp" -> { "ocsp.ParseRequest", "ocsp.ParseResponse/issuer", "ocsp.ParseResponseForCert" }
    [] k \in { "mtlx509", "mtlprecert" } -> { "ct.DeserializeSCT" }
    [] k = "sct" -> { "ct.ReadMerkleTreeLeaf", "ct.UnmarshalDigitallySigned" }
    [] k = "chain" -> { "ct.UnmarshalPrecertChainArray" }
    [] k = "prechain" -> { "ct.UnmarshalX509ChainArray" }
    [] k \in TlsKinds -> { "tls.*.unmarshal" }          \* every handshake message decoder
    [] OTHER -> {} ]

EntryPoints == TLCEval([ k \in Kinds |-> TLCEval(Native[k] \cup Foreign[k] \cup GenericEPs) ])

-----------------------------------------------------------------------------
(* Mutation operators.  A mutation is [op, n, a]: operator, node class, argument
   (always a string).  Families classify findings. *)
CONSTANT NestDepths     \* e.g. {"10","1000"} (quick) / {"10","1000","100000"} (thorough)

M(op, n, a) == [op |-> op, n |-> n, a |-> a]

DerNodeTypes == { "seq", "set", "int", "oid", "bits", "octets", "bool", "time", "str", "any",
                  "algid", "name", "spki", "explicit", "ext" }

KeyShapes ==
  { "ed25519:len0", "ed25519:len31", "ed25519:len33", "ed25519:unusedbits",
    "x25519:len0", "x25519:len31", "x25519:len33",
    "ecp256:offcurve", "ecp256:short", "ecp256:infinity", "ecp256:compressed", "ecp256:noparams",
    "ecp256:badcurve", "ecp256:explicitparams", "ecp384:wrongsize",
    "rsa:n0", "rsa:nneg", "rsa:n1", "rsa:neven", "rsa:e0", "rsa:eneg", "rsa:e1", "rsa:ehuge", "rsa:nhuge",
    "rsa:trailing", "rsa:notseq",
    "dsa:zeroparams", "dsa:noparams", "dsa:yneg", "dsa:y0", "dsa:ok",
    "unknown:oid" }

SigAlgs == { "ed25519", "ecdsa-sha256", "ecdsa-sha1", "sha256-rsa", "sha1-rsa", "md5-rsa", "md2-rsa",
             "rsa-pss-sha256", "rsa-pss-badparams", "dsa-sha1", "dsa-sha256", "unknown" }

(* operator x argument menus per DER node type *)
(* Truncate cuts the whole artifact (every enclosing length then exceeds the data);
   CutLocal cuts INSIDE: everything after the cut point is removed and the enclosing
   lengths are recomputed, so only the node's own header still claims its original
   length - the case of an inner TLV reaching past the end of the buffer it is parsed
   from (sub-slices of enclosing contents, explicit tags, wrapped OCTET STRINGs). *)
DerCommon ==
  { <<"Truncate", a>> : a \in { "in-tag", "in-len", "in-body", "at-end" } }
  \cup { <<"CutLocal", a>> : a \in { "after-header", "in-body", "at-end" } }
  \cup { <<"LenPlus", a>> : a \in { "1", "200" } }
  \cup { <<"LenMinus", "1">>, <<"LenIndefinite", "-">>, <<"EmptyBody", "-">>, <<"DupNode", "-">>,
         <<"DropNode", "-">>, <<"SwapSiblings", "-">> }
  \cup { <<"LenHuge", a>> : a \in { "256m", "i32max", "u32max", "i64max", "u64max" } }
  \cup { <<"LenNonMinimal", a>> : a \in { "long", "pad4" } }
  \cup { <<"Retag", a>> : a \in { "universal", "context", "contextprim", "application", "high", "highhuge" } }
  \cup { <<"ByteNoise", a>> : a \in { "1", "3" } }

DerOps(t) ==
  DerCommon
  \cup (IF t \in { "int" } THEN { <<"NegInt", "-1">>, <<"NegInt", "big">>, <<"ZeroInt", "-">>,
                                  <<"HugeInt", "256">>, <<"HugeInt", "8192">> } ELSE {})
  \cup (IF t \in { "seq", "any", "name", "explicit", "set" } THEN { <<"Nest", d>> : d \in NestDepths } ELSE {})
  \cup (IF t = "spki" THEN { <<"KeyShape", s>> : s \in KeyShapes } ELSE {})
  \cup (IF t = "algid" THEN { <<"AlgMismatch", s>> : s \in SigAlgs } ELSE {})
  \cup (IF t = "name" THEN { <<"SelfIssue", "-">> } ELSE {})
  \cup (IF t = "time" THEN { <<"TimeShape", a>> : a \in { "generalized", "utc-nosec", "year0000", "feb30",
                                                          "offset", "fraction", "empty" } } ELSE {})
  \cup (IF t = "bits" THEN { <<"BitsShape", a>> : a \in { "unused8", "unused7", "nounusedbyte", "zeros" } } ELSE {})
  \cup (IF t = "oid" THEN { <<"OidShape", a>> : a \in { "arc-huge", "lead80", "unterminated", "first3" } } ELSE {})
  \cup (IF t = "bool" THEN { <<"BoolShape", a>> : a \in { "01", "two-bytes" } } ELSE {})
  \cup (IF t = "str" THEN { <<"StrShape", a>> : a \in { "bmp-odd", "utf8-bad", "printable-bad", "t61", "universal-bad" } } ELSE {})

(* SelfIssue only makes sense where there is an issuer next to a subject; AlgMismatch
   on signature-algorithm identifiers (not on the SPKI algorithm, which KeyShape owns). *)
DerOpAllowed(k, nd, o) ==
  /\ (o[1] = "SelfIssue" => nd.n \in { "tbs.issuer" } /\ k \in { "cert", "tbs" })
  /\ (o[1] = "AlgMismatch" => nd.n \in { "tbs.sigalg", "sigalg", "basic.sigalg" })

(* DropTail: the artifact ends at an ELEMENT BOUNDARY - everything after this element is
   removed at every level, enclosing length words recomputed - so that a terminator / end
   marker / the remaining list items are simply absent (SST without end marker, CRLSet
   ending after an issuer block, TLS vectors ending after an item). *)
InnerDerHows == { "empty", "short3", "truncated", "noise", "notder", "shortkey-selfissued", "nested" }

BinOps(t) ==
  CASE t = "u" -> { <<"ZeroInt", "-">>, <<"HugeInt", "ff">>, <<"IntDelta", "+1">>, <<"IntDelta", "-1">>,
                    <<"Truncate", "in-body">>, <<"Truncate", "at-end">>, <<"DropNode", "-">>,
                    <<"DupNode", "-">>, <<"ByteNoise", "1">> }
    [] t = "fixed" -> { <<"Truncate", "in-body">>, <<"Truncate", "at-end">>, <<"DropNode", "-">>,
                        <<"DupNode", "-">>, <<"ByteNoise", "1">>, <<"ByteNoise", "3">>, <<"ZeroInt", "-">> }
    [] t = "count" -> { <<"CountHuge", "max">>, <<"CountHuge", "i32max">>, <<"CountHuge", "256m">>, <<"LenPlus", "1">>, <<"LenMinus", "1">>,
                        <<"ZeroInt", "-">>, <<"Truncate", "in-body">>, <<"Truncate", "at-end">> }
    [] t \in { "vec", "opaque", "vecder" } ->
         { <<"DropTail", "-">>, <<"Truncate", "in-len">>, <<"Truncate", "in-body">>, <<"Truncate", "at-end">>,
           <<"LenPlus", "1">>, <<"LenPlus", "200">>, <<"LenMinus", "1">>, <<"CountHuge", "max">>,
           <<"CountHuge", "i32max">>, <<"CountHuge", "256m">>, <<"EmptyBody", "-">>, <<"DropNode", "-">>, <<"DupNode", "-">>,
           <<"SwapSiblings", "-">>, <<"ByteNoise", "1">>, <<"ByteNoise", "3">>, <<"Grow", "64k">> }
         \cup (IF t = "opaque" THEN { <<"InnerLen", a>> : a \in { "1:+1", "1:-1", "1:max", "2:+1", "2:-1", "2:max",
                                                               "2:zero" } } ELSE {})
         \cup (IF t = "vecder" THEN { <<"InnerDER", a>> : a \in InnerDerHows } ELSE {})
    [] t = "group" -> { <<"DropTail", "-">>, <<"Truncate", "at-end">>, <<"DropNode", "-">>, <<"DupNode", "-">>, <<"SwapSiblings", "-">>, <<"Truncate", "in-body">>,
                        <<"Repeat", "1000">> }
    [] t = "rest" -> { <<"Truncate", "in-body">>, <<"EmptyBody", "-">>, <<"ByteNoise", "3">>,
                       <<"InnerLen", "1:max">>, <<"InnerLen", "2:max">>, <<"InnerLen", "2:+1">>, <<"Grow", "64k">> }
    [] OTHER -> {}

JsonOps(t) ==
  { <<"Truncate", "in-body">>, <<"Truncate", "at-end">>, <<"DropNode", "-">>, <<"DupNode", "-">>,
    <<"JsonNull", "-">>, <<"ByteNoise", "1">>, <<"ByteNoise", "3">> }
  \cup { <<"JsonType", a>> : a \in { "num", "str", "obj", "arr", "bool" } }
  \cup (IF t \in { "jarr", "jobj" } THEN { <<"EmptyBody", "-">> } \cup { <<"Nest", d>> : d \in NestDepths } ELSE {})
  \cup (IF t = "jnum" THEN { <<"HugeInt", "1e400">>, <<"HugeInt", "2^63">>, <<"NegInt", "-1">>, <<"HugeInt", "float">> } ELSE {})
  \cup (IF t \in { "jb64", "jb64der", "jstr" } THEN { <<"EmptyBody", "-">>, <<"StrShape", "b64-bad">>, <<"Grow", "64k">> } ELSE {})
  \cup (IF t = "jb64der" THEN { <<"InnerDER", a>> : a \in InnerDerHows \ { "shortkey-selfissued" } } ELSE {})

Muts == TLCEval([ k \in Kinds |-> TLCEval(
  UNION { LET ops == IF Enc[k] = "der" THEN { o \in DerOps(nd.t) : DerOpAllowed(k, nd, o) }
                     ELSE IF Enc[k] = "json" THEN JsonOps(nd.t) ELSE BinOps(nd.t)
          IN { M(o[1], nd.n, o[2]) : o \in ops }
        : nd \in Nodes[k] }) ])

NodeOf(k, n) == CHOOSE nd \in Nodes[k] : nd.n = n

Family(op) ==
  CASE op \in { "Truncate", "CutLocal", "DropTail" } -> "truncate"
    [] op \in { "LenPlus", "LenMinus", "LenHuge", "LenNonMinimal", "LenIndefinite", "InnerLen" } -> "length"
    [] op \in { "CountHuge", "Repeat", "Grow" } -> "count"
    [] op = "Retag" -> "tag"
    [] op \in { "EmptyBody", "DupNode", "DropNode", "SwapSiblings", "JsonNull", "JsonType" } -> "structure"
    [] op \in { "NegInt", "ZeroInt", "HugeInt", "IntDelta", "TimeShape", "BitsShape", "OidShape", "BoolShape",
                "StrShape" } -> "value"
    [] op = "KeyShape" -> "keyshape"
    [] op = "AlgMismatch" -> "alg"
    [] op = "SelfIssue" -> "selfissue"
    [] op = "Nest" -> "nest"
    [] op = "InnerDER" -> "inner"
    [] op = "ByteNoise" -> "noise"
    [] OTHER -> "other"

(* Context mutations: they do not damage the encoding, they steer the parser into a
   rarely taken path (self-signature check, another verification algorithm, a key of
   unusual shape).  The depth-2 product pairs every context mutation with every
   mutation, and a reduced structural set with itself. *)
IsContext(m) == m.op \in { "SelfIssue", "AlgMismatch", "KeyShape" }

(* reduced set for the structural x structural part of the depth-2 product: one
   argument per operator, core node classes only (no per-extension classes) *)
ReducedArg(m) ==
  \/ m.op \in { "LenMinus", "LenIndefinite", "EmptyBody", "DupNode", "DropNode", "SwapSiblings", "ZeroInt",
                "JsonNull", "SelfIssue" }
  \/ m.op = "Truncate" /\ m.a = "in-body"
  \/ m.op = "CutLocal" /\ m.a = "after-header"
  \/ m.op = "DropTail"
  \/ m.op = "LenPlus" /\ m.a = "1"
  \/ m.op = "LenHuge" /\ m.a = "u32max"
  \/ m.op = "CountHuge" /\ m.a = "max"
  \/ m.op = "Retag" /\ m.a = "context"
  \/ m.op = "NegInt" /\ m.a \in { "-1" }
  \/ m.op = "InnerDER" /\ m.a \in { "short3", "shortkey-selfissued" }
  \/ m.op = "InnerLen" /\ m.a = "2:max"
IsCoreNodeRec(nd) ==
  /\ ~(Len(nd.reg) > 4 /\ SubSeq(nd.reg, 1, 4) = "ext.")
  /\ ~(Len(nd.n) > 5 /\ SubSeq(nd.n, Len(nd.n) - 4, Len(nd.n)) = "#last")
CoreNames == TLCEval([ k \in Kinds |-> TLCEval({ nd.n : nd \in { x \in Nodes[k] : IsCoreNodeRec(x) } }) ])
IsCoreNode(k, n) == n \in CoreNames[k]
(* the reduced set lives on the structural node classes (containers, integers, bit /
   octet strings, length-carrying binary fields), not on leaf atoms *)
StructuralTypes == { "seq", "set", "explicit", "algid", "name", "spki", "ext", "bits", "octets", "int",
                     "vec", "vecder", "opaque", "group", "count", "u", "jobj", "jarr", "jb64der" }
StructNames == TLCEval([ k \in Kinds |-> TLCEval({ nd.n : nd \in { x \in Nodes[k] : IsCoreNodeRec(x) /\ x.t \in StructuralTypes } }) ])
Reduced == TLCEval([ k \in Kinds |-> TLCEval({ m \in Muts[k] : ReducedArg(m) /\ m.n \in StructNames[k] }) ])
Context == TLCEval([ k \in Kinds |-> TLCEval({ m \in Muts[k] : IsContext(m) }) ])

(* second mutation after a context mutation: every mutation of a core node class (the
   per-extension classes add nothing to a key / algorithm / self-issue context); for the
   kind "tbs", whose tree is the certificate's, only the reduced set *)
AfterContext == TLCEval([ x \in Kinds |-> TLCEval(IF x = "tbs" THEN Reduced[x] ELSE { m \in Muts[x] : IsCoreNode(x, m.n) }) ])
After(k) == AfterContext[k]
(* the mutations that may follow m1 in a depth-2 program *)
Next2(k, m1) ==
  (IF IsContext(m1) THEN { x \in After(k) : ~IsContext(x) \/ x.n # m1.n } ELSE {})
  \cup (IF m1 \in Reduced[k] THEN { x \in Reduced[k] : x.n # m1.n } ELSE {})
CanFollow(k, m1, m2) == m2 \in Next2(k, m1)

Programs1(k) == { <<>> } \cup { <<m>> : m \in Muts[k] }
Programs2(k) == UNION { { <<a, b>> : b \in Next2(k, a) } : a \in Context[k] \cup Reduced[k] }
Programs(k, depth) == IF depth <= 1 THEN Programs1(k) ELSE Programs1(k) \cup Programs2(k)

WellFormed(k, prog) ==
  /\ k \in Kinds
  /\ Len(prog) <= 2
  /\ \A i \in 1..Len(prog) : prog[i] \in Muts[k]

(* Cases whose length words / counts claim gigabytes are executed in a child process
   with an address-space limit so that an out-of-memory kill is an observation. *)
NeedsIsolation(prog) ==
  \E i \in 1..Len(prog) : prog[i].op \in { "LenHuge", "CountHuge", "Repeat" }
                          \/ (prog[i].op = "InnerLen" /\ prog[i].a \in { "1:max", "2:max" })
                          \/ (prog[i].op = "Nest" /\ prog[i].a \notin { "10", "1000" })

Regions(k, prog) == { NodeOf(k, prog[i].n).reg : i \in 1..Len(prog) }
Families(prog) == { Family(prog[i].op) : i \in 1..Len(prog) }

-----------------------------------------------------------------------------
(* What the property allows.

   An observation of one call is [ep, mode, o, ms, kib] for an input of len bytes:
   o is what the harness saw ("ok", "err", "panic", "timeout", "fatal"), ms the wall
   time, kib the heap allocated during the call in KiB.                           *)

TimeLimitMs == 5000          \* >= 1000 x the normal latency of any of these calls
(* "allocating memory far beyond the input size": deliberately loose,
   alloc <= 64*len + 64 MiB, so that a bounded 2^24-byte buffer taken from a 3-byte
   length word is not judged; only allocations scaling with a 32/64-bit length word
   are.  In KiB to stay inside TLC's 32-bit integers. *)
AllocLimitKiB(len) == (len \div 16) + 65536 + 1

Totality(obs, len) ==
  /\ obs.o \in Outcomes
  /\ obs.ms <= TimeLimitMs
  /\ obs.kib <= AllocLimitKiB(len)

(* Narrowed predictions.

   NarrowOK: "returns a value" for the artifact the entry point exists to parse - an
   unmutated seed generated by the standard library (seed class "gen"), fed to a
   native entry point.  This is also the concretisation check of the seeds.  Seeds
   read from files of the repository ("file") are not predicted (several are
   deliberately malformed test vectors).

   NarrowErr: a DER artifact is one TLV; after cutting cut > 0 bytes off the end of an
   otherwise consistently encoded artifact the outermost length exceeds the data, so
   a length-checking decoder (anchors: parseTagAndLength / invalidLength, String.read)
   must report an error (len is the number of bytes left).  Only for DER kinds, native entry points, programs whose
   last operator is Truncate and that contain no length-changing operator.        *)
LengthChanging(m) == Family(m.op) \in { "length", "count", "inner", "nest" }
                     \/ m.op \in { "Retag", "ByteNoise", "KeyShape", "DropNode", "EmptyBody", "DupNode", "CutLocal" }

NarrowOK(k, prog, ep, seedclass) ==
  prog = <<>> /\ seedclass = "gen" /\ ep \in Native[k]

NarrowErr(k, prog, ep, cut, len) ==
  /\ Enc[k] = "der" /\ ep \in Native[k] /\ Len(prog) >= 1 /\ cut > 0
  /\ len > 0           \* the empty input is not a truncated TLV (ParseCertificates: no certificates)
  /\ prog[Len(prog)].op = "Truncate"
  /\ \A i \in 1..(Len(prog) - 1) : ~LengthChanging(prog[i])

Allowed(k, prog, ep, seedclass, cut, len) ==
  IF NarrowOK(k, prog, ep, seedclass) THEN { "ok" }
  ELSE IF NarrowErr(k, prog, ep, cut, len) THEN { "err" }
  ELSE Outcomes

=============================================================================
