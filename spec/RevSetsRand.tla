---------------------------- MODULE RevSetsRand ----------------------------
(* C15, second direction: the harness draws seeded random revocation sets that are far larger
   than the enumerated ones (dozens of entries, several issuers, random serial octets of 1-20
   octets, several blocked keys, random query certificates) and writes them, as abstract
   records only, to revsets_models.ndjson:

     {"fmt":..,"set":{entries,bkeys,bsubj},"var":{strip,bfirst,nprops},"queries":[cert..]}

   TLC evaluates RevSets.tla on each of them - wire term, demanded parse result, verdict per
   query - and writes revsets_cases.ndjson in the format of RevSetsGen.tla (with the case's
   own query list).  The harness then encodes, parses and checks exactly as for the
   enumerated cases.  The oracle stays in the specification. *)
EXTENDS RevSets, TLC, Json

Models == ndJsonDeserialize("revsets_models.ndjson")

Case(m) ==
  [fmt |-> m.fmt, set |-> m.set, var |-> m.var, wire |-> WireOf(m.fmt, m.set, m.var),
   parsed |-> ParsedOf(m.fmt, m.set), queries |-> m.queries,
   checks |-> [q \in 1..Len(m.queries) |-> Verdict(AllowedOf(m.fmt, m.set, m.queries[q]))]]

Cases == [i \in 1..Len(Models) |-> Case(Models[i])]

ASSUME ndJsonSerialize("revsets_cases.ndjson", Cases)
ASSUME PrintT(<<"CASES", Len(Cases)>>)

VARIABLE done
Init == done = TRUE
Next == UNCHANGED done
Spec == Init /\ [][Next]_done
=============================================================================
