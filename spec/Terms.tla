------------------------------- MODULE Terms -------------------------------
(* Symbolic byte-string terms (Role T of DESIGN.md: term algebra with ideal
   cryptography).  A term denotes a byte string; HMAC and hash are uninterpreted
   symbols whose interpretation is the Go standard library in the harness
   (harness/lib/term).  The specification owns only the STRUCTURE: what is
   concatenated, truncated, xor-ed, length-prefixed, and which primitive is applied
   to which operands.

   Every term is a record of one uniform shape (so that TLC never compares records
   with different field sets and Json export is regular):

     [op, a, n, s, b]   op : operator name
                        a  : sequence of sub-terms
                        n  : a natural number parameter
                        s  : a string parameter
                        b  : a sequence of bytes (0..255)

     lit   b               literal bytes
     str   s               the ASCII bytes of s
     var   s=name n=len    a byte string of length n chosen by the harness (seeded);
                           equal names denote equal strings within one case
     rep   n b=<<x>>       n copies of byte x
     cat   a               concatenation
     take  a=<<t>> n       first n bytes of t   (all of t if shorter)
     drop  a=<<t>> n       t without its first n bytes
     last  a=<<t>> n       last n bytes of t
     xor   a=<<x,y>>       bytewise xor of two strings of equal length
     hmac  s=h a=<<k,m>>   HMAC-h(key k, message m)
     hash  s=h a=<<m>>     h(m)
     u8/u16/u24/u32  n     big-endian unsigned integer of 1/2/3/4 bytes
     u64   n               big-endian unsigned integer of 8 bytes (n < 2^31)
   Symmetric primitives used by the record layer (also uninterpreted; interpretation =
   crypto/aes, crypto/des, crypto/cipher, crypto/rc4 of the Go standard library):
     aead  s=alg a=<<key,nonce,aad,pt>>   AEAD-seal: ciphertext followed by the 16-byte tag (alg "aesgcm")
     cbc   s=alg a=<<key,iv,pt>>          CBC encryption of a whole number of blocks (alg "aes", "3des")
     rc4   a=<<key,data>> n=skip          data xor the RC4 keystream of key from offset skip
*)
EXTENDS Naturals, Sequences

Term(op, a, n, s, b) == [op |-> op, a |-> a, n |-> n, s |-> s, b |-> b]

Lit(bs)      == Term("lit", <<>>, 0, "", bs)
Str(s)       == Term("str", <<>>, 0, s, <<>>)
Var(name, n) == Term("var", <<>>, n, name, <<>>)
Rep(n, x)    == Term("rep", <<>>, n, "", <<x>>)
Cat(ts)      == Term("cat", ts, 0, "", <<>>)
Take(t, n)   == Term("take", <<t>>, n, "", <<>>)
Drop(t, n)   == Term("drop", <<t>>, n, "", <<>>)
Last(t, n)   == Term("last", <<t>>, n, "", <<>>)
Xor(x, y)    == Term("xor", <<x, y>>, 0, "", <<>>)
Hmac(h, k, m) == Term("hmac", <<k, m>>, 0, h, <<>>)
Hash(h, m)   == Term("hash", <<m>>, 0, h, <<>>)
U8(n)        == Term("u8", <<>>, n, "", <<>>)
U16(n)       == Term("u16", <<>>, n, "", <<>>)
U24(n)       == Term("u24", <<>>, n, "", <<>>)
U32(n)       == Term("u32", <<>>, n, "", <<>>)
U64(n)       == Term("u64", <<>>, n, "", <<>>)
Aead(alg, key, nonce, aad, pt) == Term("aead", <<key, nonce, aad, pt>>, 0, alg, <<>>)
Cbc(alg, key, iv, pt) == Term("cbc", <<key, iv, pt>>, 0, alg, <<>>)
Rc4(key, skip, data) == Term("rc4", <<key, data>>, skip, "", <<>>)
Empty        == Lit(<<>>)

(* Output sizes of the hash functions that occur in TLS key derivation. *)
HLen(h) == CASE h = "md5" -> 16 [] h = "sha1" -> 20 [] h = "sha256" -> 32 [] h = "sha384" -> 48

(* Length of ASCII strings used as labels: TLA+ has no string length, so the labels
   of the RFCs are listed with their lengths. *)
StrLen(s) ==
  CASE s = "" -> 0
    [] s = "master secret" -> 13
    [] s = "key expansion" -> 13
    [] s = "client finished" -> 15
    [] s = "server finished" -> 15
    [] s = "extended master secret" -> 22
    [] s = "tls13 " -> 6
    [] s = "key" -> 3
    [] s = "iv" -> 2
    [] s = "finished" -> 8
    [] s = "exporter" -> 8
    [] s = "derived" -> 7
    [] s = "ext binder" -> 10
    [] s = "res binder" -> 10
    [] s = "c e traffic" -> 11
    [] s = "e exp master" -> 12
    [] s = "c hs traffic" -> 12
    [] s = "s hs traffic" -> 12
    [] s = "c ap traffic" -> 12
    [] s = "s ap traffic" -> 12
    [] s = "exp master" -> 10
    [] s = "res master" -> 10
    [] s = "traffic upd" -> 11
    [] s = "resumption" -> 10
    [] s = "EXPORTER-verif-label" -> 20

Min2(x, y) == IF x < y THEN x ELSE y
Monus(x, y) == IF x > y THEN x - y ELSE 0

RECURSIVE TermLen(_)
RECURSIVE SumLen(_)
SumLen(ts) == IF Len(ts) = 0 THEN 0 ELSE TermLen(Head(ts)) + SumLen(Tail(ts))
TermLen(t) ==
  CASE t.op = "lit"  -> Len(t.b)
    [] t.op = "str"  -> StrLen(t.s)
    [] t.op = "var"  -> t.n
    [] t.op = "rep"  -> t.n
    [] t.op = "cat"  -> SumLen(t.a)
    [] t.op = "take" -> Min2(t.n, TermLen(t.a[1]))
    [] t.op = "last" -> Min2(t.n, TermLen(t.a[1]))
    [] t.op = "drop" -> Monus(TermLen(t.a[1]), t.n)
    [] t.op = "xor"  -> TermLen(t.a[1])
    [] t.op = "hmac" -> HLen(t.s)
    [] t.op = "hash" -> HLen(t.s)
    [] t.op = "u8"   -> 1
    [] t.op = "u16"  -> 2
    [] t.op = "u24"  -> 3
    [] t.op = "u32"  -> 4
    [] t.op = "u64"  -> 8
    [] t.op = "aead" -> TermLen(t.a[4]) + 16
    [] t.op = "cbc"  -> TermLen(t.a[3])
    [] t.op = "rc4"  -> TermLen(t.a[2])

(* Sub(t, from, n): n bytes of t starting at offset from (0-based). *)
Sub(t, from, n) == Take(Drop(t, from), n)

(* Length-prefixed vectors of the TLS presentation language. *)
Vec8(t)  == Cat(<<U8(TermLen(t)), t>>)
Vec16(t) == Cat(<<U16(TermLen(t)), t>>)
Vec24(t) == Cat(<<U24(TermLen(t)), t>>)

(* Well-formedness: xor operands have equal length, integers fit. *)
RECURSIVE WellFormed(_)
WellFormed(t) ==
  /\ \A i \in 1..Len(t.a) : WellFormed(t.a[i])
  /\ t.op = "xor" => TermLen(t.a[1]) = TermLen(t.a[2])
  /\ t.op = "u8"  => t.n < 256
  /\ t.op = "u16" => t.n < 65536
  /\ t.op = "u24" => t.n < 16777216
  /\ t.op = "cbc" => TermLen(t.a[3]) % (IF t.s = "3des" THEN 8 ELSE 16) = 0 /\ TermLen(t.a[2]) = (IF t.s = "3des" THEN 8 ELSE 16)
  /\ t.op = "aead" => TermLen(t.a[2]) = 12
=============================================================================
