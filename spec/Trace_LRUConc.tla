--------------------------- MODULE Trace_LRUConc ---------------------------
(* C35, concurrent use: histories of overlapping Put/Get calls recorded from several
   goroutines sharing one real tls.NewLRUClientSessionCache are accepted iff they are
   linearizable with respect to the A layer of LRU.tla: every call takes effect atomically
   at some point between its "call" and its "ret" event (the silent action Lin), and returns
   what the A layer returns at that point.  The log order is the real-time order (events are
   appended under the recorder's lock: "call" before the call starts, "ret" after it returned,
   so logged intervals only ever contain the true ones - no false alarm).

   events: {"ev":"reset","cap":c}
           {"ev":"call","g":n,"op":"put","k":s,"v":n} {"ev":"call","g":n,"op":"get","k":s,"v":0}
           {"ev":"ret","g":n,"rv":n,"ok":b}                                                    *)
EXTENDS LRU

Trace == ndJsonDeserialize("lru_conc.ndjson")
G == 1..4

VARIABLES l, tq, tcap, pend
cvars == <<l, tq, tcap, pend>>

None == [op |-> "none", k |-> "", v |-> 0, done |-> FALSE, rv |-> 0, ok |-> FALSE]

CInit == l = 1 /\ tq = <<>> /\ tcap = 1 /\ pend = [g \in G |-> None] /\ TLCSet(1, 1)

Consume ==
  /\ l <= Len(Trace)
  /\ l' = l + 1
  /\ LET e == Trace[l] IN
     CASE e.ev = "reset" -> /\ \A g \in G : pend[g].op = "none"
                            /\ tq' = <<>> /\ tcap' = e.cap /\ UNCHANGED pend
       [] e.ev = "call"  -> /\ pend[e.g].op = "none"
                            /\ pend' = [pend EXCEPT ![e.g] = [op |-> e.op, k |-> e.k, v |-> e.v,
                                                               done |-> FALSE, rv |-> 0, ok |-> FALSE]]
                            /\ UNCHANGED <<tq, tcap>>
       [] e.ev = "ret"   -> /\ pend[e.g].op # "none" /\ pend[e.g].done
                            /\ pend[e.g].op = "get" => (pend[e.g].rv = e.rv /\ pend[e.g].ok = e.ok)
                            /\ pend' = [pend EXCEPT ![e.g] = None]
                            /\ UNCHANGED <<tq, tcap>>

\* the linearization point of a pending call (silent)
Lin(g) ==
  /\ pend[g].op # "none" /\ ~pend[g].done
  /\ UNCHANGED <<l, tcap>>
  /\ IF pend[g].op = "put"
     THEN /\ tq' = PutStep(tq, tcap, pend[g].k, pend[g].v)
          /\ pend' = [pend EXCEPT ![g].done = TRUE]
     ELSE /\ tq' = GetStep(tq, pend[g].k)
          /\ pend' = [pend EXCEPT ![g].done = TRUE, ![g].rv = GetRes(tq, pend[g].k).v,
                                   ![g].ok = GetRes(tq, pend[g].k).ok]

CNext == Consume \/ \E g \in G : Lin(g)
CSpec == CInit /\ [][CNext]_cvars

HWM == TLCSet(1, IF l > TLCGet(1) THEN l ELSE TLCGet(1))
CInv == AInv(tq, tcap)
Accepted == \/ TLCGet(1) = Len(Trace) + 1
            \/ PrintT(<<"HWM", TLCGet(1)>>) /\ FALSE
=============================================================================
