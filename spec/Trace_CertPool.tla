--------------------------- MODULE Trace_CertPool ---------------------------
(* C08 trace validator (U3): histories recorded from real x509.CertPool objects are accepted
   iff they are behaviours of the A layer of CertPool.tla.  Many traces per file, separated by
   "reset" events.  Events (p, q, a, b, to are slot numbers 1..3; slot 3 starts nil):
     {"ev":"reset"}
     {"ev":"add","p":p,"c":id}
     {"ev":"pem","p":p,"blocks":[{"k":"c"|"t"|"b"|"g","c":id|""}...]}
     {"ev":"sum","a":a,"b":b,"to":to}
     {"ev":"obs","p":p,"size":n,"certs":[ids],"subjects":[names],"has":[ids],"hasnot":[ids]}
     {"ev":"covers","p":p,"q":q,"res":bool}
     {"ev":"parents","p":p,"child":id,"idxs":[0-based indices]}                          *)
EXTENDS CertPool, TLC, Json

Trace == ndJsonDeserialize("certpool_trace.ndjson")

VARIABLES l, tp
tvars == <<l, tp>>

Fresh == <<<<>>, <<>>, NilPool>>
TraceInit == l = 1 /\ tp = Fresh /\ TLCSet(1, 1)

Blocks(bs) == [i \in 1..Len(bs) |-> [k |-> bs[i].k, c |-> IF bs[i].k \in {"c", "t"} THEN CertById(bs[i].c) ELSE NilPool[1]]]

TraceNext ==
  /\ l <= Len(Trace)
  /\ l' = l + 1
  /\ LET e == Trace[l] IN
     CASE e.ev = "reset" -> tp' = Fresh
       [] e.ev = "add"   -> ~IsNil(tp[e.p]) /\ tp' = [tp EXCEPT ![e.p] = AddCertStep(tp[e.p], CertById(e.c))]
       [] e.ev = "pem"   -> ~IsNil(tp[e.p]) /\ tp' = [tp EXCEPT ![e.p] = AppendPEMStep(tp[e.p], Blocks(e.blocks))]
       [] e.ev = "sum"   -> tp' = [tp EXCEPT ![e.to] = SumStep(tp[e.a], tp[e.b])]
       [] e.ev = "obs"   -> /\ ~IsNil(tp[e.p])
                            /\ e.size = SizeOf(tp[e.p])
                            /\ e.certs = CertificatesOf(tp[e.p])
                            /\ e.subjects = SubjectsOf(tp[e.p])
                            /\ \A i \in 1..Len(e.has) : Contains(tp[e.p], CertById(e.has[i]))
                            /\ \A i \in 1..Len(e.hasnot) : ~Contains(tp[e.p], CertById(e.hasnot[i]))
                            /\ UNCHANGED tp
       [] e.ev = "covers" -> /\ ~IsNil(tp[e.p]) /\ e.res = Covers(tp[e.p], tp[e.q]) /\ UNCHANGED tp
       [] e.ev = "parents" -> /\ ~IsNil(tp[e.p]) /\ ParentsOk(tp[e.p], CertById(e.child), e.idxs) /\ UNCHANGED tp

TraceSpec == TraceInit /\ [][TraceNext]_tvars

HWM == TLCSet(1, IF l > TLCGet(1) THEN l ELSE TLCGet(1))
TraceInv == \A s \in 1..3 : NoDup(tp[s])
Accepted == \/ TLCGet(1) = Len(Trace) + 1
            \/ PrintT(<<"HWM", TLCGet(1)>>) /\ FALSE
=============================================================================
