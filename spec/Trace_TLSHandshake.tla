------------------------- MODULE Trace_TLSHandshake -------------------------
(* Observation validator (U3, function style): every record the Go harnesses logged from real
   zcrypto handshakes (harness/cmd/c24, c27, c28, c31, c32 through harness/lib/tlsh) is judged by
   the A-layer operators of TLSHandshake.tla.  One line <<"REJECT", i, facts-as-JSON>> is printed
   per problem of a rejected record (i = 1-based line of tlshs_obs.ndjson); <<"JUDGED", n>> proves
   that the whole file was read. *)
EXTENDS TLSHandshake, Json

CONSTANT Prop   \* which judge: "C24", "C27", "C28", "C31", "C32"

Obs == ndJsonDeserialize("tlshs_obs.ndjson")

One(kind, facts) == IF kind = "ok" THEN {} ELSE {facts}
Problems(o) == CASE Prop = "C24" -> IF Judge24(o) = "ok" THEN {} ELSE {Facts24(o)}
                 [] Prop = "C31" -> IF "times" \in DOMAIN o       \* an automatic-rotation history
                                    THEN (IF Judge31A(o) = "ok" THEN {} ELSE {Facts31A(o)})
                                    ELSE IF Judge31(o) = "ok" THEN {} ELSE {Facts31(o)}
                 [] Prop = "C27" -> IF "steps" \in DOMAIN o THEN Problems27H(o)       \* a multi-step history
                                    ELSE IF Judge27(o) = "ok" THEN {} ELSE {Facts27(o)}
                 [] Prop = "C27H" -> Problems27H(o)
                 [] Prop = "C28" -> Problems28(o)
                 [] Prop = "C32" -> IF Judge32(o) = "ok" THEN {} ELSE {Facts32(o)}

ASSUME \A i \in 1..Len(Obs) : \A p \in Problems(Obs[i]) : PrintT(<<"REJECT", i, ToJson(p)>>)
\* B-level comparison with the machine's flights: reported as model drift, never as a violation
ASSUME Prop = "C24" =>
         \A i \in 1..Len(Obs) : Drift24(Obs[i]) = "ok"
              \/ PrintT(<<"DRIFT", i, Drift24(Obs[i]), Obs[i].obs.ctypes, Obs[i].obs.stypes>>)
ASSUME PrintT(<<"JUDGED", Len(Obs)>>)
=============================================================================
