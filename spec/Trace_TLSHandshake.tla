------------------------- MODULE Trace_TLSHandshake -------------------------
(* Observation validator (U3, function style): every record the Go harnesses logged from real
   zcrypto handshakes (harness/cmd/c24, c27, c28, c31, c32 through harness/lib/tlsh) is judged by
   the A-layer operators of TLSHandshake.tla.  One line <<"REJECT", i, facts-as-JSON>> is printed
   per rejected record (i = 1-based line of tlshs_obs.ndjson); <<"JUDGED", n>> proves that the
   whole file was read. *)
EXTENDS TLSHandshake, Json

CONSTANT Prop   \* which judge: "C24", "C27", "C28", "C31", "C32"

Obs == ndJsonDeserialize("tlshs_obs.ndjson")

Kind(o)  == CASE Prop = "C24" -> Judge24(o)
              [] Prop = "C31" -> Judge31(o)
Facts(o) == CASE Prop = "C24" -> Facts24(o)
              [] Prop = "C31" -> Facts31(o)

ASSUME \A i \in 1..Len(Obs) :
         Kind(Obs[i]) = "ok" \/ PrintT(<<"REJECT", i, ToJson(Facts(Obs[i]))>>)
ASSUME PrintT(<<"JUDGED", Len(Obs)>>)
=============================================================================
