---------------------------- MODULE VerifierGen ----------------------------
(* C12 case generator (U2, constant level).  For every configuration (certificates in the graph,
   root set) below and every start certificate - in the graph, or left out of it so that the
   start edge is synthesised:
     TimeCases: every verification time at a validity boundary of any certificate of the
                configuration (nb-1, nb, nb+1, na-2, na-1, na, na+1; na-1 is the
                valid-at-expiration instant), no name, no revocation sets
     RevCases:  three representative times x (names {matching, other} without sets, no name x 15
                non-nil revocation-set contents, one time x mismatching name x the 15 contents);
                the 16 contents are built relative to the start certificate (nil, empty, OneCRL lists it /
                a sibling serial / under another issuer, OneCRL blocks its (subject,key) / the
                subject with another key, CRLSet lists it under its issuer key / another key / a
                sibling serial, CRLSet blocks the issuer key / another key / the certificate's
                own key, and three combinations where both sets are supplied and only one lists it)
   exported to verify_cases.ndjson; the catalogue to graph_catalog.ndjson.  The harness runs
   the real Verifier.Verify and Graph.WalkChains; Trace_Verifier.tla judges the results.     *)
EXTENDS Verifier, Json

CONSTANT ConfigNames

SX == INSTANCE SequencesExt
SeqOfSet(S) == SX!SetToSeq(S)
Cat(n) == Catalog[n]

Config(x) ==
  CASE x = "times"      -> [certs |-> Ids({"tr", "ti", "ti2", "tl", "tl2"}), roots |-> Ids({"tr"})]
    [] x = "times-vae"  -> [certs |-> Ids({"tr", "ti", "ti3", "tl", "tl2"}), roots |-> Ids({"tr"})]
    [] x = "times-x"    -> [certs |-> Ids({"tr", "ts", "trs", "ti", "tl"}), roots |-> Ids({"tr", "ts"})]
    [] x = "times-ir"   -> [certs |-> Ids({"tr", "ti", "ti2", "tl", "tl2"}), roots |-> Ids({"tr", "ti"})]
    [] x = "times-nr"   -> [certs |-> Ids({"tr", "ti", "tl"}), roots |-> {}]
    [] x = "times-re"   -> [certs |-> Ids({"tre", "ti", "tl", "tl2"}), roots |-> Ids({"tre"})]
    [] x = "times-eq"   -> [certs |-> Ids({"tr", "ti4", "ti", "tl"}), roots |-> Ids({"tr"})]
    [] x = "selfx"      -> [certs |-> Universe("selfx"), roots |-> Ids({"r"})]
    [] x = "cross"      -> [certs |-> Universe("cross"), roots |-> Ids({"r", "s"})]
    [] x = "rollover"   -> [certs |-> Universe("rollover"), roots |-> Ids({"ao"})]

Times(S) == UNION {{Cat(n).nb - 1, Cat(n).nb, Cat(n).nb + 1, Cat(n).na - 2, Cat(n).na - 1, Cat(n).na,
                    Cat(n).na + 1} : n \in S}

NoOne == [has |-> FALSE, blocked |-> <<>>, listed |-> <<>>]
NoSet == [has |-> FALSE, blocked |-> <<>>, listed |-> <<>>]
One(b, l) == [has |-> TRUE, blocked |-> b, listed |-> l]
RevOf(k, c) ==
  CASE k = 1  -> [onecrl |-> NoOne, crlset |-> NoSet]
    [] k = 2  -> [onecrl |-> One(<<>>, <<>>), crlset |-> One(<<>>, <<>>)]
    [] k = 3  -> [onecrl |-> One(<<>>, << <<c.iss, c.serial>> >>), crlset |-> NoSet]
    [] k = 4  -> [onecrl |-> One(<<>>, << <<c.iss, c.serial + 1>> >>), crlset |-> NoSet]
    [] k = 5  -> [onecrl |-> One(<<>>, << <<"ZZ", c.serial>> >>), crlset |-> NoSet]
    [] k = 6  -> [onecrl |-> One(<< <<c.subj, c.key>> >>, <<>>), crlset |-> NoSet]
    [] k = 7  -> [onecrl |-> One(<< <<c.subj, "K8">> >>, <<>>), crlset |-> NoSet]
    [] k = 8  -> [onecrl |-> NoOne, crlset |-> One(<<>>, << <<c.skey, c.serial>> >>)]
    [] k = 9  -> [onecrl |-> NoOne, crlset |-> One(<<>>, << <<"K8", c.serial>> >>)]
    [] k = 10 -> [onecrl |-> NoOne, crlset |-> One(<<>>, << <<c.skey, c.serial + 1>> >>)]
    [] k = 11 -> [onecrl |-> NoOne, crlset |-> One(<<c.skey>>, <<>>)]
    [] k = 12 -> [onecrl |-> One(<<>>, <<>>), crlset |-> One(<<"K8">>, <<>>)]
    [] k = 13 -> [onecrl |-> NoOne, crlset |-> One(<<c.key>>, <<>>)]
    [] k = 14 -> [onecrl |-> One(<<>>, << <<c.iss, c.serial>> >>), crlset |-> One(<<>>, <<>>)]
    [] k = 15 -> [onecrl |-> One(<< <<c.subj, c.key>> >>, <<>>), crlset |-> One(<<"K8">>, << <<"K8", c.serial>> >>)]
    [] k = 16 -> [onecrl |-> One(<<>>, << <<"ZZ", c.serial>> >>), crlset |-> One(<<>>, << <<c.skey, c.serial>> >>)]

Case(cf, s, ing, t, name, k) ==
  [add |-> SeqOfSet(IF ing THEN cf.certs ELSE cf.certs \ {s}), roots |-> SeqOfSet(cf.roots \ (IF ing THEN {} ELSE {s})),
   start |-> s, t |-> t, name |-> name,
   onecrl |-> RevOf(k, Cat(s)).onecrl, crlset |-> RevOf(k, Cat(s)).crlset]

TimeCases(cf) == {Case(cf, s, ing, t, "", 1) : s \in cf.certs, ing \in BOOLEAN, t \in Times(cf.certs)}
\* names and revocation sets are independent clauses: names x no sets, no name x every set, and
\* one time with a mismatching name x every set (instead of the full product)
RevCases(cf)  == UNION {
    {Case(cf, s, TRUE, t, name, 1) : t \in {Cat(s).nb + 1, Cat(s).na - 1, Cat(s).na + 1},
                                     name \in {"a.example", "b.example"}}
    \cup {Case(cf, s, TRUE, t, "", k) : t \in {Cat(s).nb + 1, Cat(s).na - 1, Cat(s).na + 1}, k \in 2..16}
    \cup {Case(cf, s, TRUE, Cat(s).nb + 1, "b.example", k) : k \in 2..16} : s \in cf.certs}

AllCases == UNION {TimeCases(Config(x)) \cup RevCases(Config(x)) : x \in ConfigNames}
CaseSeq == SeqOfSet(AllCases)

ASSUME ndJsonSerialize("graph_catalog.ndjson", Catalog)
ASSUME ndJsonSerialize("verify_cases.ndjson", CaseSeq)
ASSUME PrintT(<<"CASES", Len(CaseSeq)>>)
=============================================================================
