------------------------------ MODULE Trace_Perm ------------------------------
(* C20 observation validator (U3): every input was decoded by the real code in
   strict mode and in permissive mode (encoding/asn1.AllowPermissiveParsing off /
   on); one NDJSON record per (input, entry point):
       s_ok s_n s_dig s_f   strict : accepted?, bytes consumed, digest of the decoded value,
                            digests of its named parts (record part name -> digest)
       p_ok p_n p_dig p_f   permissive
   The property (A layer):  s_ok => p_ok /\ p_n = s_n /\ p_dig = s_dig
   "permissive mode only turns some strict-mode failures into successes".
   The grammar-level counterpart (the relaxations DER.tla specifies are monotone:
   PermExtends) is an invariant of DERGen.tla.
   All records are judged in the single initial state; a disallowed record prints
   <<"REJECT", i, what, differing parts>>; <<"COUNTS", source, n, strict-accepted, relaxed>> tells the driver
   whether the implication was exercised (antecedent true) and whether the permissive
   mode accepted anything the strict mode refused (relaxations reached).            *)
EXTENDS Naturals, Sequences, FiniteSets, TLC, Json

Obs == ndJsonDeserialize("perm_obs.ndjson")

What(r) == IF ~r.s_ok THEN ""
           ELSE IF r.p_panic THEN "permissive-panics"
           ELSE IF ~r.p_ok THEN "permissive-rejects"
           ELSE IF r.p_n # r.s_n THEN "consumed-differs"
           ELSE IF r.p_dig # r.s_dig THEN "value-differs" ELSE ""

VARIABLE x
Init == x = 0
Next == x' = x
Spec == Init /\ [][Next]_x

\* the named parts of the decoded value whose digests differ (or exist in one mode only)
Differing(r) == LET ks == DOMAIN r.s_f  kp == DOMAIN r.p_f IN
  {k \in ks \cup kp : k \notin ks \/ k \notin kp \/ r.s_f[k] # r.p_f[k]}

Srcs == {"der", "struct", "cert"}
Judge == /\ \A i \in 1..Len(Obs) :
              What(Obs[i]) = "" \/ PrintT(<<"REJECT", i, What(Obs[i]),
                                            IF What(Obs[i]) = "value-differs" THEN Differing(Obs[i]) ELSE {}>>)
         /\ \A s \in Srcs :
              PrintT(<<"COUNTS", s, Cardinality({i \in 1..Len(Obs) : Obs[i].src = s}),
                       Cardinality({i \in 1..Len(Obs) : Obs[i].src = s /\ Obs[i].s_ok}),
                       Cardinality({i \in 1..Len(Obs) : Obs[i].src = s /\ ~Obs[i].s_ok /\ Obs[i].p_ok})>>)
=============================================================================
