-------------------------- MODULE Trace_ChainBuilder --------------------------
(* C07 observation validator (U3, function style): results the REAL Certificate.Verify /
   ValidateWithStupidDetail produced are judged by the A layer of ChainBuilder.tla.

   Inputs (written by the harness / the generator, next to this module):
     FU  the universe as one JSON object: id -> abstract certificate (harness/lib/pki.Cert)
     FC  cases            [certs, roots, inters : Seq(id), leaf : id, usages, dns, times, mode, drift]
     FO  observations     [case : line number in c07_cases, api : "verify" | "stupid", t,
                           current, expired, never : Seq(Seq(id)), err : STRING, panic, trusted : BOOLEAN]
   Output (stdout), parsed by tools/props/C07.py:
     <<"REJECT", i, reason>>      observation i breaks ChainsOk / ErrOk (reason = first broken clause)
     <<"DATEREJECT", reading, i>> observation i breaks DatesOk under that end-point convention
     <<"DATEVERDICT", ok, readings-that-accept-everything>>
     <<"DRIFT", i>>               observation i differs from the B layer's prediction (a note, never a verdict)
     <<"JUDGED", n, chains, nonEmpty>>                                                   *)
EXTENDS ChainBuilder, Json, FiniteSetsExt

CONSTANTS FU, FC, FO     \* file names: universe, cases, observations

\* The universe arrives as ONE JSON object {id: certificate, ...} (the driver re-formats the generator's /
\* harness' one-certificate-per-line file): TLC reads an object as a record, i.e. a function from ids,
\* with logarithmic lookup.  (Building that function in TLA+ from a sequence costs |U|^2 comparisons.)
ById == ndJsonDeserialize(FU)[1]
CS   == ndJsonDeserialize(FC)
OBS  == ndJsonDeserialize(FO)
\* a certificate Verify returned that is not part of the universe at all
Bogus == MkCert("?", "?n", "?k", "?i", "?s")
Resolve(id)     == IF id \in DOMAIN ById THEN ById[id] ELSE Bogus
ResolveSeq(ids) == [i \in 1..Len(ids) |-> Resolve(ids[i])]
ResolveChains(chs) == [i \in 1..Len(chs) |-> ResolveSeq(chs[i])]

CaseOf(o) == LET c == CS[o.case] IN
  [certs |-> ResolveSeq(c.certs), roots |-> ResolveSeq(c.roots), inters |-> ResolveSeq(c.inters),
   leaf |-> Resolve(c.leaf), dns |-> c.dns, drift |-> c.drift,
   \* ValidateWithStupidDetail never passes key usages on
   usages |-> IF o.api = "stupid" THEN <<>> ELSE c.usages]

ObsOf(o) == [t |-> o.t, current |-> ResolveChains(o.current), expired |-> ResolveChains(o.expired),
             never |-> ResolveChains(o.never), err |-> o.err, panic |-> o.panic]

ErrClass(e) == IF e \in {"nil", "hostname", "expired", "never", "usage"} THEN e ELSE "chain"

\* everything TLC has to say about one observation, computed in one pass
Verdict(raw) ==
  LET cs == CaseOf(raw)
      o  == ObsOf(raw)
      reason == IF raw.panic THEN "panic"
                ELSE IF ~ChainsOk(cs, o) THEN "chain:" \o FirstBadChain(cs, o)
                ELSE IF ~ErrOk(cs, o) THEN WhyErrBad(cs, o)
                \* Validation.BrowserTrusted is documented as "Verify returned no error"
                ELSE IF raw.api = "stupid" /\ raw.trusted /\ Len(o.current) = 0 THEN "trusted-without-current-chain"
                ELSE ""
      \* drift: compared once per case (at its first time), Verify only
      drift == /\ cs.drift /\ raw.api = "verify" /\ ~raw.panic /\ raw.t = CS[raw.case].times[1]
               /\ LET b == BVerify(cs, raw.t) IN
                  \/ ~SameMultiset(IdsOfChains(o.current), IdsOfChains(b.current))
                  \/ ~SameMultiset(IdsOfChains(o.expired), IdsOfChains(b.expired))
                  \/ ~SameMultiset(IdsOfChains(o.never), IdsOfChains(b.never))
                  \/ ErrClass(o.err) # ErrClass(b.err)
  IN [reason |-> reason,
      dateBad |-> {r \in Readings : ~raw.panic /\ ~DatesOk(r, o)},
      drift   |-> drift,
      nchains |-> Len(o.current) + Len(o.expired) + Len(o.never)]

N == Len(OBS)

Judge(dummy) ==
  LET vs       == {<<i, Verdict(OBS[i])>> : i \in 1..N}
      okRead   == {r \in Readings : \A x \in vs : r \notin x[2].dateBad}
      nchains  == FoldSet(LAMBDA x, acc : acc + x[2].nchains, 0, vs)
      nonEmpty == Cardinality({x \in vs : x[2].nchains > 0})
  IN /\ \A x \in vs : x[2].reason = "" \/ PrintT(<<"REJECT", x[1], x[2].reason>>)
     /\ \A x \in vs : \A r \in x[2].dateBad : PrintT(<<"DATEREJECT", r, x[1]>>)
     \* the implementation must follow ONE end-point convention throughout
     /\ PrintT(<<"DATEVERDICT", okRead # {}, okRead>>)
     /\ \A x \in vs : ~x[2].drift \/ PrintT(<<"DRIFT", x[1]>>)
     /\ PrintT(<<"JUDGED", N, nchains, nonEmpty>>)

ASSUME Judge(0)
=============================================================================
