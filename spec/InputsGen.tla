----------------------------- MODULE InputsGen -----------------------------
(* C01 generator (U1 + U2): the mutation programs of Inputs.tla as a state machine.

   State: the artifact kind, the mutation program built so far, and - after the
   final Parse action - the parsing mode and an outcome the property allows.
   Actions are the mutation operators (one step appends one applicable mutation,
   following the pruned depth-2 product of Inputs!Programs) and Parse.

   TLC explores every reachable state, i.e. every (kind, program) to the depth,
   every mode and every allowed outcome; the invariant says that the only outcomes
   are a value or an error; every program is exported once (Emit) for the harness
   to concretise on real seeds.  The module also exports the structure model
   (kinds, encodings, node classes with their selector paths, binary layouts,
   entry points) that the harness interprets - the harness has no table of its own. *)
EXTENDS Inputs, Json, SequencesExt

CONSTANTS GenKinds,     \* subset of Kinds explored by this run (chunking)
          Depth         \* 1 or 2

VARIABLES kind, prog, phase, mode, outcome
vars == <<kind, prog, phase, mode, outcome>>

Init == /\ kind \in GenKinds /\ prog = <<>> /\ phase = "build" /\ mode = "-" /\ outcome = "-"

Mutate ==
  /\ phase = "build" /\ Len(prog) < Depth
  /\ \E m \in (IF Len(prog) = 0 THEN Muts[kind] ELSE Next2(kind, prog[1])) :
       prog' = Append(prog, m)
  /\ UNCHANGED <<kind, phase, mode, outcome>>

(* Parse: the artifact is handed to the entry points of its kind in one of the modes;
   the specification only says which outcomes are allowed.  (Seed class and the
   number of bytes cut are facts of the concrete run; here the unnarrowed and the
   narrowed sets are both explored by quantifying over them.) *)
AllowedAny(k, p) ==
  UNION { Allowed(k, p, ep, sc, cut, len) : ep \in EntryPoints[k], sc \in { "gen", "file" }, cut \in { 0, 1 },
                                            len \in { 0, 1 } }

Parse ==
  /\ phase = "build"
  /\ \E md \in Modes, o \in AllowedAny(kind, prog) :
         /\ mode' = md /\ outcome' = o
  /\ phase' = "parsed"
  /\ UNCHANGED <<kind, prog>>

Next == Mutate \/ Parse
Spec == Init /\ [][Next]_vars

TypeOK == /\ kind \in Kinds /\ phase \in { "build", "parsed" }
          /\ WellFormed(kind, prog)
          /\ Len(prog) = 2 => CanFollow(kind, prog[1], prog[2])
OutcomeInRange == phase = "parsed" => outcome \in Outcomes /\ mode \in Modes

Emit == phase = "build" =>
  PrintT(ToJson([ k |-> kind, p |-> prog, iso |-> NeedsIsolation(prog),
                  reg |-> SetToSeq(Regions(kind, prog)), fam |-> SetToSeq(Families(prog)) ]))

ModelExport ==
  [ kinds |-> SetToSeq({ [ k |-> k, enc |-> Enc[k], native |-> SetToSeq(Native[k]),
                           eps |-> SetToSeq(EntryPoints[k]), nodes |-> SetToSeq(Nodes[k]),
                           layout |-> IF k \in BinKinds THEN Layout[k] ELSE <<>>,
                           nmuts |-> Cardinality(Muts[k]) ] : k \in Kinds }),
    modes |-> SetToSeq(Modes), timelimit_ms |-> TimeLimitMs ]

ASSUME JsonSerialize("inputs_model.json", ModelExport)

(* the declarative program sets of Inputs.tla and the reachable states of this machine
   must agree: the driver compares these counts with the number of exported programs *)
ASSUME \A k \in GenKinds : PrintT(<<"NPROGRAMS", k, Cardinality(Programs(k, Depth))>>)
=============================================================================
