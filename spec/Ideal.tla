-------------------------------- MODULE Ideal --------------------------------
(* C03 - ideal signature functionality (A layer, constants only).

   A signature is the term  sig(k, e, m)  where k is the signing key, m the signed bytes and
   e = the effective (scheme, hash, padding) triple of the algorithm.  Verification is term
   equality:   Verify(pk(k'), alg', m', s)  <=>  s = sig(k', Eff(alg'), m').
   Hence a signature verifies iff it is a genuine one for exactly this key, these bytes and this
   effective algorithm, and every change of one of the four arguments to something that is not
   itself a valid signature makes verification fail.  What zcrypto owns - and what is judged -
   is the binding of (key, message, algorithm) to the primitive; the primitives themselves are
   symbols interpreted by the Go standard library.

   Two readings of "the claimed algorithm" are allowed where they differ (left open): the
   label reading (the scheme is part of the label) and the dispatch reading (the verifier picks
   the scheme from the key type, the label only contributes hash and padding).               *)
EXTENDS Issuance

-----------------------------------------------------------------------------
VKeyTypes == {"rsa1024", "rsa2048", "rsa3072", "p224", "p256", "p384", "p521", "ed25519", "dsa1024", "dsa2048"}
VAlgs == SigAlgs \ {"MD2-RSA"}
(* algorithms a key type can produce genuine signatures for *)
CanSign(kt, a) == /\ a \in VAlgs /\ AlgFamily(a) = Family(kt)
                  \* a 1024-bit modulus has no room for SHA-512 with a 64-byte salt (RFC 8017, 9.1.1)
                  /\ ~(kt = "rsa1024" /\ a = "SHA512-RSAPSS")

(* effective triple under the dispatch reading: scheme from the key, hash and (for RSA keys)
   padding from the label *)
EffK(kt, a) == <<Family(kt), AlgHash(a), IF Family(kt) = "rsa" THEN (IF AlgPad(a) = "pss" THEN "pss" ELSE "pkcs1v15") ELSE "none">>
(* Ed25519 signs the message itself: a label with a hash makes the verifier feed the digest *)

SigT(k, e, m) == [k |-> k, e |-> e, m |-> m, wrap |-> "genuine"]
Mangled(s, how) == [s EXCEPT !.wrap = how]       \* any byte-level change of a signature value

-----------------------------------------------------------------------------
(* mutations: target x class.  "none" = the unmutated tuple *)
Targets == {"none", "msg", "sig", "key", "alg"}
MsgMuts == {"flip-first", "flip-middle", "flip-last", "truncate", "extend", "empty"}
(* byte-level classes *)
SigByteMuts == {"flip-first", "flip-middle", "flip-last", "truncate", "extend", "zero", "empty", "reencode",
                "resalt",     \* a genuine PSS signature with another salt length than the algorithm identifier fixes
                "badpad"}     \* the RSA private operation on an encoded message with one padding byte changed
(* algebraic classes: values the verification equation cannot tell from the genuine one unless the
   range checks of the scheme are made - none of them is a valid signature.
   DSA / ECDSA signatures are pairs (r, s) in [1, order-1]^2 (order = q resp. n): *)
PairMuts == {"s-plus-order",   \* (r, s + k*order), k = 1..3        same residue of s
             "r-plus-order",   \* (r + order, s)
             "s-zero", "r-zero", "s-order", "r-order",          \* the excluded boundary values
             "s-neg", "r-neg"}  \* a negative INTEGER: -x, or x re-encoded without its sign octet
(* RSA signatures are integers in [0, N-1] written in exactly k = |N| octets: *)
RSAMuts == {"plus-modulus",    \* s + N: same residue (k octets when it fits, else k + 1)
            "zero-prepended",  \* 00 || s
            "zero-removed"}    \* s without its leading zero octet (for a genuine s that has one)
(* ECDSA malleability: (r, n - s) verifies wherever (r, s) does - it IS itself a valid signature of
   the same key on the same bytes, so the statement says nothing about it: left open *)
MalleableMuts == {"s-complement"}
SigMuts == SigByteMuts \cup PairMuts \cup RSAMuts \cup MalleableMuts
KeyMuts == {"other-same-type", "other-type"}
AlgMuts == SigAlgs \cup {"bogus"}          \* the claimed algorithm replaced by this one
MutsOf(target) == CASE target = "none" -> {"none"} [] target = "msg" -> MsgMuts [] target = "sig" -> SigMuts
                    [] target = "key" -> KeyMuts [] target = "alg" -> AlgMuts

(* "reencode" (non-minimal DER of the same (r, s)) exists only for DER-wrapped signatures *)
DERWrapped(kt) == Family(kt) \in {"ecdsa", "dsa"}
Applicable(c) == /\ CanSign(c.kt, c.alg)
                 /\ c.mut \in MutsOf(c.target)
                 /\ (c.mut = "reencode" => DERWrapped(c.kt))
                 /\ (c.mut = "resalt" => AlgPad(c.alg) = "pss")
                 /\ (c.mut = "badpad" => AlgPad(c.alg) = "pkcs1v15")
                 /\ (c.target = "sig" /\ c.mut \in PairMuts => DERWrapped(c.kt))
                 /\ (c.target = "sig" /\ c.mut \in RSAMuts => Family(c.kt) = "rsa")
                 /\ (c.target = "sig" /\ c.mut \in MalleableMuts => Family(c.kt) = "ecdsa")
                 /\ (c.target = "alg" => c.mut # c.alg)

(* the verification tuple a case presents: genuine = sig(K, Eff(alg), M) *)
OtherKeyType(kt) == IF Family(kt) = "rsa" THEN "p256" ELSE "rsa2048"
Tuple(c, eff(_, _)) ==
  LET g == SigT("K", eff(c.kt, c.alg), "M") IN
  [ k   |-> IF c.target = "key" THEN "K2" ELSE "K",
    kt  |-> IF c.target = "key" /\ c.mut = "other-type" THEN OtherKeyType(c.kt) ELSE c.kt,
    alg |-> IF c.target = "alg" THEN c.mut ELSE c.alg,
    m   |-> IF c.target = "msg" THEN "M'" ELSE "M",
    s   |-> IF c.target = "sig" THEN Mangled(g, c.mut) ELSE g ]
IdealVerify(t, eff(_, _)) == t.s = SigT(t.k, eff(t.kt, t.alg), t.m)

EffLabel(kt, a) == Eff(a)
(* the set of verdicts the property allows for a case *)
Malleable(c) == c.target = "sig" /\ c.mut \in MalleableMuts
AllowedAccept(c) == IF Malleable(c) THEN {TRUE, FALSE}
                    ELSE { IdealVerify(Tuple(c, EffLabel), EffLabel), IdealVerify(Tuple(c, EffK), EffK) }
Judged(c) == Cardinality(AllowedAccept(c)) = 1

(* observation: [c: case, accept: BOOLEAN (the verification API returned nil), stdAccept in
   {"yes","no","n/a"} (the standard library's verifier on the same mutated tuple)].
   A mutated tuple the standard library accepts as well is "itself a valid signature". *)
IdealBad(o) ==
  IF o.accept \in AllowedAccept(o.c) THEN {}
  ELSE IF o.accept /\ o.stdAccept = "yes" /\ o.c.target # "none" THEN {}
  ELSE {IF o.accept THEN "accepted a non-genuine signature" ELSE "rejected a genuine signature"}

(* the theorem TLC checks on the enumeration: accept <=> unmutated, except label-only changes
   under the dispatch reading *)
LabelOnly(c) == c.target = "alg" /\ EffK(c.kt, c.mut) = EffK(c.kt, c.alg)
AcceptIffUnmutated(c) ==
  /\ (c.target = "none" => AllowedAccept(c) = {TRUE})
  /\ (c.target # "none" /\ ~LabelOnly(c) /\ ~Malleable(c) => AllowedAccept(c) = {FALSE})
  /\ (LabelOnly(c) \/ Malleable(c) => AllowedAccept(c) = {TRUE, FALSE})

-----------------------------------------------------------------------------
(* second machine: objects the library signs itself.
   "Objects the library signs itself (certificates, CSRs, CRLs, revocation lists, OCSP
   responses) verify with their own verification API for every signature algorithm the signing
   API accepts."  Acceptance table transcribed from signingParamsForPublicKey. *)
ObjKinds == {"cert", "csr", "crl", "rl", "ocsp"}
Accepts(obj, kt, a) ==
  CASE obj = "crl"  -> a = "default" /\ Family(kt) \in {"rsa", "ecdsa", "ed25519"}
    [] obj = "ocsp" -> Family(kt) \in {"rsa", "ecdsa"} /\ (a = "default" \/ (AlgInDomain(kt, a) /\ AlgPad(a) # "pss"))
    [] OTHER        -> AlgInDomain(kt, a)
(* observation [obj, kt, alg, outcome in {"ok","error"}, sigOK in {"ok","fail","constraint","n/a"}] *)
SelfBad(o) ==
  (IF o.outcome = "ok" /\ o.sigOK # "ok" THEN {"created object does not verify"} ELSE {})
    \cup (IF o.outcome = "error" /\ Accepts(o.obj, o.kt, o.alg) THEN {"algorithm of the acceptance table refused"} ELSE {})
=============================================================================
