------------------------------ MODULE CertPool ------------------------------
(* C08: x509.CertPool behaves as a fingerprint-keyed ordered set.

   "After any sequence of AddCert, AppendCertsFromPEM and Sum operations, a pool contains
    exactly the distinct (by SHA-256 fingerprint) certificates added, in first-insertion order;
    Size, Contains, Covers, Certificates and Subjects agree with that set.  Parent lookup during
    verification only ever returns pool members whose signature over the child verifies."

   A layer: a pool is a duplicate-free SEQUENCE of abstract certificates (PKI.tla; the id of a
   certificate stands for its fingerprint).  Pure step functions and observers below are the
   single source of truth for the exhaustive generator (CertPoolGen.tla), the trace validator
   (Trace_CertPool.tla) and the chain builder's model (ChainBuilder.tla).
   NilPool stands for a nil *CertPool (allowed as receiver/argument of Sum, argument of Covers).

   Constants-free operator module. *)
EXTENDS PKI

\* (a pseudo-certificate rather than a string, so that TLC never compares a record with a string)
NilPool   == <<MkCert("nil", "nil", "nil", "nil", "nil")>>
IsNil(p)  == Len(p) = 1 /\ p[1].id = "nil"
Certs(p)  == IF IsNil(p) THEN <<>> ELSE p

----------------------------------------------------------------------------
(* membership is by certificate identity (fingerprint), never by subject, key or key id *)
InPool(pool, c) == \E i \in 1..Len(Certs(pool)) : Certs(pool)[i].id = c.id     \* CertPool.Contains
NoDup(pool)     == \A i, j \in 1..Len(Certs(pool)) : Certs(pool)[i].id = Certs(pool)[j].id => i = j

(* steps *)
AddCertStep(pool, c) == IF InPool(pool, c) THEN pool ELSE Append(pool, c)

RECURSIVE AddAllStep(_, _)
AddAllStep(pool, cs) == IF cs = <<>> THEN pool ELSE AddAllStep(AddCertStep(pool, Head(cs)), Tail(cs))

\* PEM input = sequence of blocks [k, c]:
\*   "c" a CERTIFICATE block holding certificate c        -> added
\*   "t" a block of another type holding certificate c    -> skipped
\*   "b" a CERTIFICATE block whose bytes do not parse     -> skipped
\*   "g" text that is no PEM block at all                 -> skipped
\* (CERTIFICATE blocks carrying PEM headers are left open: the statement does not mention them.)
RECURSIVE PEMCerts(_)
PEMCerts(blocks) == IF blocks = <<>> THEN <<>>
                    ELSE (IF Head(blocks).k = "c" THEN <<Head(blocks).c>> ELSE <<>>) \o PEMCerts(Tail(blocks))
AppendPEMStep(pool, blocks) == AddAllStep(pool, PEMCerts(blocks))

\* Sum returns a NEW pool: the receiver's certificates, then the other pool's, first insertion wins
SumStep(p, q) == AddAllStep(AddAllStep(<<>>, Certs(p)), Certs(q))

(* observers *)
SizeOf(pool)        == Len(Certs(pool))
Contains(pool, c)   == InPool(pool, c)
Covers(pool, other) == \A i \in 1..Len(Certs(other)) : InPool(pool, Certs(other)[i])
CertificatesOf(pool) == [i \in 1..Len(pool) |-> pool[i].id]
SubjectsOf(pool)     == [i \in 1..Len(pool) |-> pool[i].subj]

\* "Parent lookup ... only ever returns pool members whose signature over the child verifies":
\* idxs = the 0-based indices findVerifiedParents returned
ParentsOk(pool, child, idxs) ==
  \A k \in 1..Len(idxs) : /\ idxs[k] >= 0 /\ idxs[k] < Len(pool)
                          /\ SigOk(pool[idxs[k] + 1], child)

----------------------------------------------------------------------------
(* B layer: CertPool.findVerifiedParents as coded - candidates by authority key id when the
   child has one and some pool member carries it as subject key id, else by raw issuer name;
   kept iff CheckSignatureFrom succeeds.  Result: 1-based pool indices in insertion order. *)
Indices(n) == [i \in 1..n |-> i]
BFindParents(pool, c) ==
  LET idx    == Indices(Len(pool))
      bySkid == IF c.akid = "" THEN <<>>
                ELSE SelectSeq(idx, LAMBDA i : pool[i].skid = c.akid)
      byName == SelectSeq(idx, LAMBDA i : pool[i].subj = c.iss)
      cand   == IF Len(bySkid) > 0 THEN bySkid ELSE byName
  IN SelectSeq(cand, LAMBDA i : IssuesChecked(pool[i], c))

----------------------------------------------------------------------------
(* The certificate universe used by CertPoolGen / Trace_CertPool (a sequence; the harness
   concretises exactly these records): certificates sharing a subject (u1, u2, u4), sharing a key
   and key id (u1, u3, u4), a re-issued certificate (u4 = u1 with another validity), a
   certificate without key id (u5, version 1); and children whose parent lookup goes through the
   key-id index, the name index, a misleading key id, a foreign key id and a bad signature. *)
WithKeyIds(c, skid, akid) == [c EXCEPT !.skid = skid, !.akid = akid]
PoolCerts == <<
  WithKeyIds(MkCert("u1", "N1", "K1", "N1", "K1"), "K1", ""),
  WithKeyIds(MkCert("u2", "N1", "K2", "N1", "K2"), "K2", ""),
  WithKeyIds(MkCert("u3", "N2", "K1", "N1", "K1"), "K1", "K1"),
  [WithKeyIds(MkCert("u4", "N1", "K1", "N1", "K1"), "K1", "") EXCEPT !.na = 2000],
  [MkCert("u5", "N3", "K3", "N3", "K3") EXCEPT !.ver = 1, !.bc = FALSE, !.ca = FALSE] >>
ChildCerts == <<
  WithKeyIds(MkCert("x1", "C1", "K8", "N1", "K1"), "", "K1"),   \* key-id index -> u1, u3, u4; name N1 -> u1, u4
  WithKeyIds(MkCert("x2", "C2", "K8", "N1", "K2"), "", ""),     \* name index -> u1, u2, u4; signature -> u2
  WithKeyIds(MkCert("x3", "C3", "K8", "N1", "K1"), "", "K2"),   \* misleading key id -> u2 only; signature fails
  WithKeyIds(MkCert("x4", "C4", "K8", "N2", "K1"), "", "K9"),   \* unknown key id -> name index -> u3
  WithKeyIds(MkCert("x5", "C5", "K8", "N1", "K7"), "", "K1"),   \* bad signature
  WithKeyIds(MkCert("x6", "C6", "K8", "N3", "K3"), "", "") >>   \* issued by the v1 certificate u5
AllPoolCerts == PoolCerts \o ChildCerts
CertById(id) == AllPoolCerts[CHOOSE i \in 1..Len(AllPoolCerts) : AllPoolCerts[i].id = id]
=============================================================================
