--------------------------- MODULE Trace_Verifier ---------------------------
(* C12 observation validator (U3, function style).  Each line of verify_obs.ndjson is
     [obs |-> <Verify observation of Verifier.tla>, case |-> <how to reproduce it>]
   recorded from the real Verifier.Verify (and Graph.WalkChains on the same graph).  A line is
   accepted iff VerifyReasons(obs) = {}; for every rejected line {"i": line, "why": [...]} is
   printed, then {"cover": [...]} - the union of the input-side coverage tags (VerifyCover) -
   and finally <<"JUDGED", n>>.                                                              *)
EXTENDS Verifier, Json

Recs == ndJsonDeserialize("verify_obs.ndjson")

ASSUME \A i \in 1..Len(Recs) :
         LET w == VerifyReasons(Recs[i].obs) IN w = {} \/ PrintT(ToJson([i |-> i, why |-> w]))
ASSUME PrintT(ToJson([cover |-> UNION {VerifyCover(Recs[i].obs) : i \in 1..Len(Recs)}]))
ASSUME PrintT(<<"JUDGED", Len(Recs)>>)
=============================================================================
