--------------------------- MODULE ChainBuilderMC ---------------------------
(* C07, U1 proper: TLC model-checks  B => A  (the implementation-shaped chain builder of
   ChainBuilder.tla only returns what the property layer allows) over EVERY PKI that can be
   built by adding up to M certificates to a leaf, each certificate being any (subject, key,
   issuer name, signing key) over Names x Keys in any role (root / intermediate / both).  Bad
   signatures, shared subjects and keys, self-issued and self-signed certificates, loops,
   cross-signs and re-issued certificates (same tuple in two slots) all fall out of the product.

   One state = one PKI with its pools (pool order = insertion order).  The invariant Sound is the
   refinement obligation; Emit prints every state as a case for the replay on the real
   Certificate.Verify (U2), with the B model's facts about it.                              *)
EXTENDS ChainBuilder, Json, SequencesExt

CONSTANTS Names, Keys,  \* abstract names / keys (the leaf is N1 / K1)
          M,            \* certificates besides the leaf
          OutU          \* file the certificate universe is written to

Leaf0(id, iss, skey) ==
  [MkCert(id, "N1", "K1", iss, skey) EXCEPT !.ca = FALSE, !.dns = <<"a.example">>]
Leaves  == {Leaf0("L-" \o iss \o skey, iss, skey) : iss \in {"N1", "N2"}, skey \in {"K1", "K2"}}
Tuples  == Names \X Keys \X Names \X Keys
SlotCert(s, t) == MkCert("s" \o ToString(s) \o "-" \o t[1] \o t[2] \o t[3] \o t[4], t[1], t[2], t[3], t[4])
RoleSet == {"r", "i", "b"}

VARIABLES leaf, others, roles
vars == <<leaf, others, roles>>

Init == leaf \in Leaves /\ others = <<>> /\ roles = <<>>
Next == /\ Len(others) < M
        /\ \E t \in Tuples, r \in RoleSet :
             /\ others' = Append(others, SlotCert(Len(others) + 1, t))
             /\ roles' = Append(roles, r)
        /\ UNCHANGED leaf
Spec == Init /\ [][Next]_vars

Pick(wanted) == LET idx == SelectSeq([i \in 1..Len(others) |-> i], LAMBDA i : roles[i] \in wanted)
                IN [j \in 1..Len(idx) |-> others[idx[j]]]
CaseOf == [certs |-> <<leaf>> \o others, roots |-> Pick({"r", "b"}), inters |-> Pick({"i", "b"}),
           leaf |-> leaf, usages |-> <<>>, dns |-> "", times |-> <<0, 500, 1000>>]

\* the refinement obligation, at every boundary class of the (common) validity window
Sound == LET cs == CaseOf IN BSoundCase(cs, BCandidates(cs), cs.times)

IdSeq(certs) == [i \in 1..Len(certs) |-> certs[i].id]
Emit == LET cs    == CaseOf
            cands == BCandidates(cs)
        IN PrintT(ToJson([certs |-> IdSeq(cs.certs), roots |-> IdSeq(cs.roots), inters |-> IdSeq(cs.inters),
                          leaf |-> cs.leaf.id, usages |-> cs.usages, dns |-> cs.dns, times |-> <<500>>,
                          mode |-> "topo", drift |-> TRUE,
                          bchains |-> cands # <<>>,
                          nontrivial |-> \E i \in 1..Len(others) : NameLink(others[i], leaf) \/ SigOk(others[i], leaf)]))

ASSUME ndJsonSerialize(OutU, SetToSeq(Leaves \cup {SlotCert(s, t) : s \in 1..M, t \in Tuples}))
=============================================================================
