---------------------------- MODULE RevSetsGen ----------------------------
(* C15 case generator (U2, constant level).  For each wire format, TLC enumerates every
   revocation set with up to MaxEntries (issuer, serial) entries over 2 issuers x NSerials
   serials x the blocked-key options, and for each writes one JSON line

     {"fmt":..,"set":{..},"var":{..},"wire":term,"parsed":{..},"checks":[v1,..,vQ]}

   where wire is the byte term of the well-formed encoding (RevSets.tla section 3), parsed
   the structure the parser must deliver (section 2) and checks[q] the verdict for query
   certificate q (1 must be reported, 0 must not, 2 left open; section 1) to
   revsets_cases_<format>.ndjson.  The query universe is written once to
   revsets_queries.ndjson. *)
EXTENDS RevSets, TLC, Json, SequencesExt, FiniteSetsExt

CONSTANTS Formats,      \* subset of {"crlset", "onecrl", "sst"}; one case file per format
          MaxEntries,
          NSerials,     \* 1..4: how many serials of the universe may be listed
          AllVariants   \* TRUE: every encoding variant of every set; FALSE: one per set

Rep(b, n) == [i \in 1..n |-> b]

\* 1; 128 (content 00 80: leading zero octet); 2^64+1 (equals 1 after truncation to 64
\* bits); 2^159-1 (20 octets).  Unlisted is only ever asked for, never listed.
SerialU == << <<1>>, <<0, 128>>, <<1>> \o Rep(0, 7) \o <<1>>, <<127>> \o Rep(255, 19) >>
Unlisted == <<2>>

I1 == [n |-> "N1", k |-> "K1"]
I2 == [n |-> "N2", k |-> "K2"]

EntryVals  == {[iss |-> i, s |-> SerialU[j]] : i \in {I1, I2}, j \in 1..NSerials}
EntryLists == UNION {[1..k -> EntryVals] : k \in 0..MaxEntries}

\* blocked options: none / the key of issuer I1 / the key of a leaf (own-key case) / both kinds
BKeyOpts(f)  == IF f = "crlset" THEN {<<>>, <<"K1">>, <<"KS1">>, <<"KS1", "K2">>} ELSE {<<>>}
BSubjOpts(f) == IF f = "onecrl" THEN {<<>>, <<[subj |-> "S1", key |-> "KS1"]>>} ELSE {<<>>}

Sets(f) == {[entries |-> e, bkeys |-> bk, bsubj |-> bs] : e \in EntryLists, bk \in BKeyOpts(f), bs \in BSubjOpts(f)}

(* query certificates: issuer (name, key) pairs - the two listed CAs, a CA with I1's name
   but I2's key and one with I2's name but I1's key (name / key collisions: CRLSets go by
   the key, OneCRL and the Microsoft store by the name), an unrelated CA; every listed serial and one that is
   never listed; leaf (subject, key) pairs around the blocked one *)
IssuerPairs == {<<"N1", "K1">>, <<"N2", "K2">>, <<"N1", "K2">>, <<"N2", "K1">>, <<"N3", "K3">>}
LeafPairs   == {<<"S1", "KS1">>, <<"S1", "KS2">>, <<"S2", "KS1">>}
QSerials    == {SerialU[j] : j \in 1..NSerials} \cup {Unlisted}
Queries == SetToSeq({[iname |-> ip[1], ikey |-> ip[2], serial |-> s, subj |-> lp[1], skey |-> lp[2]] :
                       ip \in IssuerPairs, s \in QSerials, lp \in LeafPairs})

Variants(f) ==
  CASE f = "crlset" -> {[strip |-> b, bfirst |-> FALSE, nprops |-> 0] : b \in BOOLEAN}
    [] f = "onecrl" -> {[strip |-> b, bfirst |-> c, nprops |-> 0] : b \in BOOLEAN, c \in BOOLEAN}
    [] f = "sst"    -> {[strip |-> FALSE, bfirst |-> FALSE, nprops |-> n] : n \in 0..2}

Case(f, set, v) ==
  [fmt |-> f, set |-> set, var |-> v, wire |-> WireOf(f, set, v), parsed |-> ParsedOf(f, set),
   checks |-> [q \in 1..Len(Queries) |-> Verdict(AllowedOf(f, set, Queries[q]))]]

\* cases as a sequence (never a set: terms are heterogeneous tuples)
CasesOf(f) ==
  LET ss == SetToSeq(Sets(f))
      vs == SetToSeq(Variants(f)) IN
  IF AllVariants
  THEN [i \in 1..(Len(ss) * Len(vs)) |-> Case(f, ss[((i - 1) \div Len(vs)) + 1], vs[((i - 1) % Len(vs)) + 1])]
  ELSE [i \in 1..Len(ss) |-> Case(f, ss[i], vs[(i % Len(vs)) + 1])]

\* sanity of the A layer itself, checked by TLC on every generated set: a listed entry is
\* always reported for a certificate of that issuer and serial, in every format
ListedIsReported ==
  \A f \in Formats : \A s \in Sets(f) : \A i \in 1..Len(s.entries) :
    LET c == [iname |-> s.entries[i].iss.n, ikey |-> s.entries[i].iss.k, serial |-> s.entries[i].s,
              subj |-> "S2", skey |-> "KS2"] IN
    CRLSetRevokes(s, c) /\ OneCRLRevokes(s, c) /\ SSTRevokes(s, c)

ASSUME ListedIsReported
ASSUME ndJsonSerialize("revsets_queries.ndjson", <<[queries |-> Queries]>>)
ASSUME \A f \in Formats :
         LET cs == CasesOf(f) IN
         /\ ndJsonSerialize("revsets_cases_" \o f \o ".ndjson", cs)
         /\ PrintT(<<"CASES", f, Len(cs), Len(Queries)>>)

VARIABLE done
Init == done = TRUE
Next == UNCHANGED done
Spec == Init /\ [][Next]_done
=============================================================================
