-------------------------- MODULE Trace_ASN1Marshal --------------------------
(* C18 observation validator (U3): seeded random deeper struct types (built with
   reflect.StructOf) and values were marshalled, strictly unmarshalled and
   re-marshalled by the real encoding/asn1; TLC judges what happened:
       enc  = Enc(t, v)                 Marshal's bytes are the specified ones
       no error, rest = 0               strict Unmarshal consumes all bytes
       dec  = v  (SET OF up to order)   and yields an equal value
       re   = enc                       re-marshalling reproduces the bytes
   One record per case; records are states of an index tree; a disallowed record
   prints <<"REJECT", i, stage>>.                                                *)
EXTENDS ASN1Marshal, Json

Recs == ndJsonDeserialize("asn1_obs.ndjson")

VARIABLE i
Init == i = 1
Next == \E j \in {2 * i, 2 * i + 1} : j <= Len(Recs) /\ i' = j
Spec == Init /\ [][Next]_i

ParamsOf(x) == [opt |-> x[1], hasdef |-> x[2], def |-> x[3], explicit |-> x[4], tag |-> x[5],
                class |-> x[6], set |-> x[7], omit |-> x[8], st |-> x[9], tt |-> x[10]]
RECURSIVE TypeOf(_)
TypeOf(x) == T(x[1], ParamsOf(x[2]), [k \in 1..Len(x[3]) |-> TypeOf(x[3][k])])

Stage(r) ==
  LET t == TypeOf(r.t) IN
  IF r.panic THEN "panic"
  ELSE IF r.merr THEN "marshal-error"
  ELSE IF r.enc # Enc(t, r.v) THEN "marshal-bytes"
  ELSE IF r.uerr THEN "unmarshal-error"
  ELSE IF r.rest # 0 THEN "rest"
  ELSE IF ~SameValue(t, r.v, r.dec) THEN "value"
  ELSE IF r.rerr THEN "remarshal-error"
  ELSE IF r.re # r.enc THEN "remarshal-bytes"
  ELSE ""

Judge == i <= Len(Recs) => Stage(Recs[i]) = "" \/ PrintT(<<"REJECT", i, Stage(Recs[i])>>)
=============================================================================
