----------------------------- MODULE HostnameGen -----------------------------
(* C09 case generator (U2): hosts x certificates with the verdict Hostname.tla demands.

   Families (constant Families):
     "pairs"    every host x every single DNS SAN over Sigma1 (letters of both cases, '.', '*'),
                both up to L1 tokens, hosts restricted to those starting with a token of Heads
                (chunking for parallel generation; also applies to "alpha")
     "variants" hosts up to L2 x patterns up to L1 over Sigma1 x {common name without SAN,
                common name suppressed by a SAN extension, second SAN, SAN with IP entries only,
                SAN with an e-mail entry only}
     "alpha"    hosts over the full token alphabet Sigma2 (digits, '-', brackets, ':', non-ASCII
                bytes, IP literal tokens) up to L3 tokens, plain / bracketed / with trailing dot,
                x certificates derived from the host (itself, lower-cased, unbracketed, first
                label starred, as IP SAN in 4- and 16-byte form, another IP, common name ...)
     "dots"     names with one, two, three trailing dots and interior / leading empty labels on the host
                and on the SAN / common-name side, with and without '*' labels
   Output: file Out, one case per line: [host, cert, want, path, ipg].                        *)
EXTENDS Hostname, TLC, Json, SequencesExt

CONSTANTS Families, Sigma1, Heads, L1, L2, Sigma2, L3, Out

Strings(sigma, n) == UNION {[1..k -> sigma] : k \in 0..n}
Chars(toks)       == ExpSeq(toks)

NoName  == <<"z", "z">>                     \* a name that matches nothing generated here
Cert(hasSAN, dns, ips, cn, other) == [hasSAN |-> hasSAN, dns |-> dns, ips |-> ips, cn |-> cn, other |-> other]
Case(h, c) == LET d == Decide(h, c) IN [host |-> h, cert |-> c, want |-> d.want, path |-> d.path, ipg |-> d.ipg]

\* a common name must be valid UTF-8 to be encodable
CNOk(s) == \A i \in 1..Len(s) : s[i] # "xFF"

----------------------------------------------------------------------------
(* every case set takes a dummy parameter: TLC evaluates parameterless constant definitions eagerly
   at start-up, which would build every family whether selected or not *)
PairCases(d) ==
  {Case(Chars(h), Cert(TRUE, <<Chars(p)>>, <<>>, NoName, FALSE))
   : h \in {x \in Strings(Sigma1, L1) : x = <<>> \/ x[1] \in Heads}, p \in Strings(Sigma1, L1)}

VariantCerts(p) ==
  {Cert(FALSE, <<>>, <<>>, p, FALSE),                        \* no SAN: common name decides
   Cert(TRUE, <<NoName>>, <<>>, p, FALSE),                   \* SAN present: common name ignored
   Cert(TRUE, <<NoName, p>>, <<>>, NoName, FALSE),           \* second SAN
   Cert(TRUE, <<>>, <<<<1, 2, 3, 4>>>>, p, FALSE),           \* SAN with IP entries only
   Cert(TRUE, <<>>, <<>>, p, TRUE)}                          \* SAN with an e-mail entry only
VariantCases(d) ==
  {Case(Chars(h), c)
   : h \in Strings(Sigma1, L2), c \in UNION {VariantCerts(Chars(p)) : p \in Strings(Sigma1, L1)}}

----------------------------------------------------------------------------
(* dots: one, two and three trailing dots and interior / leading empty labels, on either side, against
   wildcard-free and wildcard names; as DNS SAN and as common name *)
DotBases    == {<<"a">>, <<"a", ".", "b">>, <<"*", ".", "b">>, <<"a", ".", "*">>, <<"*">>}
DotSuffixes == {<<>>, <<".">>, <<".", ".">>, <<".", ".", ".">>}
DotNames    == {b \o x : b \in DotBases, x \in DotSuffixes}
               \cup {<<"a", ".", ".", "b">>, <<"*", ".", ".", "b">>, <<".", "a">>, <<".", "a", ".", "b">>,
                     <<"a", ".", ".", "b", ".">>, <<".">>, <<".", ".">>}
DotCases(d) ==
  {Case(h, c) : h \in DotNames,
                c \in UNION {{Cert(TRUE, <<p>>, <<>>, NoName, FALSE), Cert(FALSE, <<>>, <<>>, p, FALSE),
                              Cert(TRUE, <<NoName, p>>, <<>>, p, FALSE)} : p \in DotNames}}

----------------------------------------------------------------------------
GroupsToBytes(g) == [i \in 1..16 |-> IF i % 2 = 1 THEN g[(i + 1) \div 2] \div 256 ELSE g[i \div 2] % 256]
IsMapped(g)      == SubSeq(g, 1, 6) = <<0, 0, 0, 0, 0, 65535>>
Bytes4(g)        == <<g[7] \div 256, g[7] % 256, g[8] \div 256, g[8] % 256>>
StarFirst(s)     == LET ls == SplitOn(s, ".") IN
                    IF Len(ls) = 1 THEN <<"*">> ELSE <<"*", ".">> \o SubSeq(s, Len(ls[1]) + 2, Len(s))

AlphaHosts(d) ==
  UNION {{Chars(s), <<"[">> \o Chars(s) \o <<"]">>, Chars(s) \o <<".">>, <<"[">> \o Chars(s) \o <<"]", ".">>}
         : s \in {x \in Strings(Sigma2, L3) : x = <<>> \/ x[1] \in Heads}}

AlphaCerts(h) ==
  LET cand == Unbracket(h)
      g    == IF IsIP(cand) THEN IPGroups(cand) ELSE Mapped(<<1, 2, 3, 4>>)
      ip16 == GroupsToBytes(g)
      ip4  == IF IsMapped(g) THEN Bytes4(g) ELSE <<1, 2, 3, 4>>
  IN {Cert(TRUE, <<h>>, <<>>, NoName, FALSE),
      Cert(TRUE, <<Lower(h)>>, <<>>, NoName, FALSE),
      Cert(TRUE, <<cand>>, <<>>, NoName, FALSE),
      Cert(TRUE, <<StarFirst(h)>>, <<>>, NoName, FALSE),
      Cert(TRUE, <<h>>, <<ip16>>, NoName, FALSE),
      Cert(TRUE, <<h>>, <<ip4>>, NoName, FALSE),
      Cert(TRUE, <<h, cand>>, <<<<1, 2, 3, 5>>, GroupsToBytes(<<0, 0, 0, 0, 0, 0, 0, 2>>)>>, NoName, FALSE)}
     \cup (IF CNOk(h)
           THEN {Cert(TRUE, <<>>, <<<<1, 2, 3, 4>>>>, h, FALSE),
                 Cert(FALSE, <<>>, <<>>, h, FALSE),
                 Cert(FALSE, <<>>, <<>>, Lower(cand), FALSE),
                 Cert(TRUE, <<>>, <<>>, h, TRUE)}
           ELSE {})
AlphaCases(d) == UNION {{Case(h, c) : c \in AlphaCerts(h)} : h \in AlphaHosts(d)}

----------------------------------------------------------------------------
Cases(fams) == (IF "pairs" \in fams THEN PairCases(0) ELSE {})
        \cup   (IF "variants" \in fams THEN VariantCases(0) ELSE {})
        \cup   (IF "alpha" \in fams THEN AlphaCases(0) ELSE {})
        \cup   (IF "dots" \in fams THEN DotCases(0) ELSE {})

Run(fams) ==
  LET cases == Cases(fams)
      count(w) == Cardinality({c \in cases : c.want = w})
      paths == {c.path : c \in {x \in cases : x.want # "open"}}
  IN /\ ndJsonSerialize(Out, SetToSeq(cases))
     /\ PrintT(<<"GENERATED", Cardinality(cases), count("accept"), count("reject"), count("open")>>)
     /\ PrintT(<<"PATHS", paths>>)

ASSUME Run(Families)
=============================================================================
