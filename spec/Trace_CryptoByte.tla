--------------------------- MODULE Trace_CryptoByte ---------------------------
(* C21 observation validator (U3): programs executed on the real cryptobyte
   Builder / String (seeded random, long, nested) are judged against
   CryptoByte.tla.  One NDJSON record per program:
     w     write ops (tuples op, w, tag, v, s)      err / bytes  what Builder.Bytes() gave
     r     read ops (tuples op, w, tag, cls, v, s)  o            what each String call returned
                                                                 (ok, s, v, p, rest, depth), cut
                                                                 after the first failing read
   A record is allowed iff Build(w) gives the same error flag and bytes and RunR gives the
   same observations.  Records are states of an index tree (all workers share the work);
   a disallowed record prints <<"REJECT", i, stage, op, field, want ok, want present>>.                        *)
EXTENDS CryptoByte, Json

Progs == ndJsonDeserialize("cb_obs.ndjson")

VARIABLE i
Init == i = 1
Next == \E j \in {2 * i, 2 * i + 1} : j <= Len(Progs) /\ i' = j
Spec == Init /\ [][Next]_i

WRec(t) == WOp(t[1], t[2], t[3], t[4], t[5])
RRec(t) == ROp(t[1], t[2], t[3], t[4], t[5], t[6])
ObsT(o) == <<o.ok, o.s, o.v, o.p, o.rest, o.depth>>

FieldDiff(want, got) ==
  IF want[1] # got[1] THEN "ok"
  ELSE IF ~want[1] THEN ""
  ELSE IF want[2] # got[2] \/ want[3] # got[3] THEN "value"
  ELSE IF want[4] # got[4] THEN "present"
  ELSE IF want[5] # got[5] \/ want[6] # got[6] THEN "rest" ELSE ""

Check(rec) ==
  LET w == [k \in 1..Len(rec.w) |-> WRec(rec.w[k])]
      r == [k \in 1..Len(rec.r) |-> RRec(rec.r[k])]
      b == Build(w)
  IN IF rec.panic THEN <<"run", "", "panic", FALSE, 0>>
     ELSE IF b.err # rec.err THEN <<"build", "", "err", FALSE, 0>>
     ELSE IF b.err THEN <<>>
     ELSE IF Depth(b) # 0 THEN <<"trace", "", "unbalanced", FALSE, 0>>
     ELSE IF Out(b) # rec.bytes THEN <<"build", "", "bytes", FALSE, 0>>
     ELSE LET want == RunR(<<Out(b)>>, r, 1)
              n == IF Len(want) < Len(rec.o) THEN Len(want) ELSE Len(rec.o)
              bad == {k \in 1..n : FieldDiff(ObsT(want[k]), rec.o[k]) # ""}
          IN IF bad # {} THEN LET k == SetMin(bad) IN
                  <<"read", r[k].op, FieldDiff(ObsT(want[k]), rec.o[k]), want[k].ok, want[k].p>>
             ELSE IF Len(want) # Len(rec.o) THEN <<"read", "", "count", FALSE, 0>>
             ELSE <<>>

Judge == i <= Len(Progs) =>
           LET p == Check(Progs[i]) IN p = <<>> \/ PrintT(<<"REJECT", i, p[1], p[2], p[3], p[4], p[5]>>)
=============================================================================
