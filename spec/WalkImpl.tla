------------------------------ MODULE WalkImpl ------------------------------
(* C11 B layer.

   (1) The depth-first walk itself is the operator Dfs of WalkDfs.tla.

   (2) The producer / buffered channel / consumer processes of WalkChainsAsync: the walk goroutine
       sends each chain it finds (blocking while the buffer of size K is full) and closes the
       channel when the walk is over; the consumer receives until the channel is closed and
       drained.  TLC checks, for every interleaving, K in 1..3 and 0..MaxChains chains:
         ChanSafety   received ++ buffered = the chains sent so far, in order (nothing lost,
                      duplicated or reordered); nothing is sent after close
         Done         when the consumer sees the closed, drained channel it has all chains
         Liveness     under weak fairness of both processes the channel is eventually closed
                      and the consumer terminates                                            *)
EXTENDS Integers, Sequences

CONSTANTS MaxChains, MaxK

VARIABLES nch,        \* number of chains the walk finds (chosen in Init)
          cap,        \* channel capacity
          sent,     \* chains sent so far (the walk emits chain sent+1 next)
          chan,     \* buffered channel contents
          closed,   \* close(out) executed
          recvd,    \* what the consumer has received
          cdone     \* the consumer left its `for chain := range ch` loop
cvars == <<nch, cap, sent, chan, closed, recvd, cdone>>

InitC == /\ nch \in 0..MaxChains /\ cap \in 1..MaxK
         /\ sent = 0 /\ chan = <<>> /\ closed = FALSE /\ recvd = <<>> /\ cdone = FALSE

\* producer: found <- soFar  (blocks while the buffer is full)
Send == /\ ~closed /\ sent < nch /\ Len(chan) < cap
        /\ chan' = Append(chan, sent + 1) /\ sent' = sent + 1
        /\ UNCHANGED <<nch, cap, closed, recvd, cdone>>
\* producer: close(out) after continueWalking returned
Close == /\ ~closed /\ sent = nch
         /\ closed' = TRUE
         /\ UNCHANGED <<nch, cap, sent, chan, recvd, cdone>>
\* consumer: one iteration of range
Recv == /\ ~cdone /\ chan # <<>>
        /\ recvd' = Append(recvd, Head(chan)) /\ chan' = Tail(chan)
        /\ UNCHANGED <<nch, cap, sent, closed, cdone>>
RangeEnd == /\ ~cdone /\ chan = <<>> /\ closed
            /\ cdone' = TRUE
            /\ UNCHANGED <<nch, cap, sent, chan, closed, recvd>>

Producer == Send \/ Close
Consumer == Recv \/ RangeEnd
NextC == Producer \/ Consumer
SpecC == InitC /\ [][NextC]_cvars /\ WF_cvars(Producer) /\ WF_cvars(Consumer)

ChanSafety == /\ recvd \o chan = [i \in 1..sent |-> i]
              /\ Len(chan) <= cap
              /\ closed => sent = nch
Done == cdone => (recvd = [i \in 1..nch |-> i] /\ closed)
Liveness == <>(closed /\ cdone)
=============================================================================
