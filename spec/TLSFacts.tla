------------------------------ MODULE TLSFacts ------------------------------
(* Environment / tree facts the TLS handshake specification takes as given (DESIGN.md 3.1:
   "hardware facts are read and passed to the spec as constants").  This committed copy holds
   the values of the reference machine; every run of tools/check overwrites the scratch copy
   with what `c24 facts` reads from the tree under test (TLC configuration files cannot carry
   sequence-valued constants, hence a module). *)
HasAESHW == FALSE       \* tls.hasAESGCMHardwareSupport
DefaultLegacy == <<52392, 52393, 49199, 49200, 49195, 49196, 49171, 49161, 49172, 49162, 156, 157, 47, 53, 49170, 10>>
Default13 == <<4867, 4865, 4866>>
=============================================================================
