------------------------------- MODULE LRU -------------------------------
(* C35: tls.NewLRUClientSessionCache as a bounded LRU map.

   A layer  - the property itself: a recency-ordered sequence of (key, value)
              with pure step functions PutStep / GetStep / GetRes.  These are the
              single source of truth used by (1) the lock-step refinement check of
              the B layer, (2) the exhaustive history generator, (3) the trace
              validator Trace_LRU.
   B layer  - the implementation's shape (tls/common.go lruSessionCache):
              container/list of *entry elements + map key -> element, with the
              "relabel the back element" eviction.  Checked to refine A.          *)
EXTENDS Naturals, Sequences, FiniteSets, TLC, Json

CONSTANTS Keys,     \* set of strings
          Vals,     \* set of naturals > 0 (identities of non-nil sessions)
          Caps,     \* set of capacities to explore
          MaxOps    \* history bound for the generator

NilV == 0           \* the nil *ClientSessionState

----------------------------------------------------------------------------
(* A layer *)

IdxOf(s, k) == IF \E i \in 1..Len(s) : s[i].k = k
               THEN CHOOSE i \in 1..Len(s) : s[i].k = k ELSE 0
Without(s, i) == SubSeq(s, 1, i - 1) \o SubSeq(s, i + 1, Len(s))
Ent(k, v) == [k |-> k, v |-> v]

\* "A Put with a nil session removes that key's entry and has no other effect";
\* otherwise insert-or-update, most recent first, evicting the least recently
\* used entry only when a NEW key meets a full cache.
PutStep(s, cap, k, v) ==
  LET i == IdxOf(s, k) IN
  IF v = NilV THEN (IF i = 0 THEN s ELSE Without(s, i))
  ELSE IF i # 0 THEN <<Ent(k, v)>> \o Without(s, i)
  ELSE IF Len(s) < cap THEN <<Ent(k, v)>> \o s
  ELSE <<Ent(k, v)>> \o SubSeq(s, 1, Len(s) - 1)

GetRes(s, k) == LET i == IdxOf(s, k) IN
  IF i = 0 THEN [v |-> NilV, ok |-> FALSE] ELSE [v |-> s[i].v, ok |-> TRUE]

\* a successful Get is a use
GetStep(s, k) == LET i == IdxOf(s, k) IN
  IF i = 0 THEN s ELSE <<s[i]>> \o Without(s, i)

NoDupKeys(s) == \A i, j \in 1..Len(s) : s[i].k = s[j].k => i = j
AInv(s, cap) == Len(s) <= cap /\ NoDupKeys(s) /\ \A i \in 1..Len(s) : s[i].v # NilV

=============================================================================
