------------------------ MODULE Trace_CertPoolParents ------------------------
(* C08 observation validator for the parent-lookup clause (function style): every distinct
   (pool contents, child, returned indices) triple the harness saw while replaying the generated
   histories is judged by CertPool!ParentsOk; the B layer's exact prediction (BFindParents) is
   compared for drift only.
   Input FO: [pool : Seq(id), child : id, idxs : Seq(0-based index)]
   Output <<"REJECT", i>>, <<"DRIFT", i>>, <<"JUDGED", n, nonEmptyResults>>               *)
EXTENDS CertPool, TLC, Json

CONSTANT FO
OBS == ndJsonDeserialize(FO)
N   == Len(OBS)
PoolOf(o) == [i \in 1..Len(o.pool) |-> CertById(o.pool[i])]

Judge(d) ==
  /\ \A i \in 1..N : ParentsOk(PoolOf(OBS[i]), CertById(OBS[i].child), OBS[i].idxs) \/ PrintT(<<"REJECT", i>>)
  /\ \A i \in 1..N : LET b == BFindParents(PoolOf(OBS[i]), CertById(OBS[i].child)) IN
                     [k \in 1..Len(b) |-> b[k] - 1] = OBS[i].idxs \/ PrintT(<<"DRIFT", i>>)
  /\ PrintT(<<"JUDGED", N, Cardinality({i \in 1..N : Len(OBS[i].idxs) > 0})>>)
ASSUME Judge(0)
=============================================================================
