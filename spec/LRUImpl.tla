------------------------------ MODULE LRUImpl ------------------------------
(* C35 B layer: implementation-shaped model of tls/common.go lruSessionCache, checked in
   lock step against the A layer of LRU.tla (refinement). *)
EXTENDS LRU

----------------------------------------------------------------------------
(* B layer: list elements have identities; the map points at elements. *)

VARIABLES cap,    \* capacity chosen in Init
          q,      \* A state
          els,    \* B: element id -> [k, v]   (the *lruSessionCacheEntry)
          order,  \* B: sequence of element ids, front first (container/list)
          m,      \* B: function from a set of keys to element ids
          last    \* last operation and its B-result (for the refinement check)

varsB == <<cap, q, els, order, m, last>>

Ids == 1..5
FreeId(o) == CHOOSE i \in Ids : \A j \in 1..Len(o) : o[j] # i   \* a fresh allocation (garbage is reusable)
PosOf(o, id) == CHOOSE i \in 1..Len(o) : o[i] = id
MoveFront(o, id) == <<id>> \o Without(o, PosOf(o, id))

BPut(k, v) ==
  IF k \in DOMAIN m THEN
       IF v = NilV
       THEN /\ order' = Without(order, PosOf(order, m[k]))
            /\ m' = [x \in (DOMAIN m) \ {k} |-> m[x]]
            /\ UNCHANGED els
       ELSE /\ els' = [els EXCEPT ![m[k]] = Ent(k, v)]
            /\ order' = MoveFront(order, m[k])
            /\ UNCHANGED m
  ELSE IF v = NilV THEN UNCHANGED <<els, order, m>>      \* nil Put of an absent key: no effect
  ELSE IF Len(order) < cap
       THEN LET n == FreeId(order) IN
            /\ els' = [els EXCEPT ![n] = Ent(k, v)]
            /\ order' = <<n>> \o order
            /\ m' = [x \in (DOMAIN m) \cup {k} |-> IF x = k THEN n ELSE m[x]]
       ELSE LET e == order[Len(order)] IN        \* relabel the back element
            /\ els' = [els EXCEPT ![e] = Ent(k, v)]
            /\ order' = MoveFront(order, e)
            /\ m' = [x \in ((DOMAIN m) \ {els[e].k}) \cup {k} |-> IF x = k THEN e ELSE m[x]]

BGet(k) ==
  IF k \in DOMAIN m
  THEN /\ order' = MoveFront(order, m[k])
       /\ last' = [op |-> "get", k |-> k, v |-> els[m[k]].v, ok |-> TRUE]
       /\ UNCHANGED <<els, m>>
  ELSE /\ last' = [op |-> "get", k |-> k, v |-> NilV, ok |-> FALSE]
       /\ UNCHANGED <<els, order, m>>

InitB == /\ cap \in Caps
         /\ q = <<>> /\ order = <<>> /\ m = <<>>
         /\ els = [i \in Ids |-> Ent("", NilV)]
         /\ last = [op |-> "init"]

NextB == \/ \E k \in Keys, v \in Vals \cup {NilV} :
              /\ BPut(k, v) /\ q' = PutStep(q, cap, k, v)
              /\ last' = [op |-> "put", k |-> k, v |-> v] /\ UNCHANGED cap
         \/ \E k \in Keys :
              /\ BGet(k) /\ q' = GetStep(q, k) /\ UNCHANGED cap

SpecB == InitB /\ [][NextB]_varsB

Proj == [i \in 1..Len(order) |-> els[order[i]]]

Refines == /\ Proj = q
           /\ AInv(q, cap)
           /\ last.op = "get" => (last.v = GetRes(q, last.k).v /\ last.ok = GetRes(q, last.k).ok)
\* NB: for "get" the comparison is against the A state AFTER the refresh, which does not
\* change membership or values, so GetRes is the same before and after.

BInv == /\ DOMAIN m = {Proj[i].k : i \in 1..Len(order)}
        /\ \A k \in DOMAIN m : els[m[k]].k = k
        /\ Len(order) <= cap

=============================================================================
