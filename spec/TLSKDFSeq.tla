------------------------------ MODULE TLSKDFSeq ------------------------------
(* C26, use-after-mutation dimension.

   Several derivation functions return a closure (the RFC 5705 / RFC 8446 7.5 exporters) or are
   handed an object the caller goes on using (the live transcript hash, the finishedHash, the
   slices holding secrets and randoms).  Both handshake state machines keep writing to the
   transcript after they created the exporter.  The RFCs define every value over the inputs AS
   THEY WERE WHEN THE VALUE WAS DERIVED (RFC 8446 7.1/7.5: exporter_master_secret covers
   ClientHello...server Finished whatever is hashed later), so:

     a program  [create with inputs I] ; [the caller mutates what it owns] ; [use / read]
     must yield the bytes of I at creation time.

   A case is a straight-line program (steps) for the harness to execute IN THAT ORDER on the real
   functions, plus the observations with the admissible terms:
     - the TRANSCRIPT a value covers is always the transcript at creation time (strict);
     - a byte slice the caller OVERWRITES after handing it in (every byte xor FF) may be seen by a
       closure either as it was or as it is now: the statement does not say whether inputs are
       copied, both are admitted (and listed), nothing else is;
     - a result that was returned stays what it was (no aliasing with later calls);
     - the functions do not disturb the caller's transcript.

   steps  [op, obj, res, fn, args, n, m]
     tnew   obj            n = TLS 1.3 suite            a fresh transcript hash
     fhnew  obj            n = suite, m = version        a fresh TLS 1.0-1.2 finishedHash
     write  obj args=<<v>>                               the caller hashes variable v
     call   res fn args (obj = transcript / finishedHash if the function takes one)
     invoke res obj=closure args=<<label, ctx | "">> n = length
     over   args=<<v>>                                   the caller overwrites its slice v
     obs    res                                          read result res now
     tsum   obj res                                      read the caller's transcript sum         *)
EXTENDS TLSKDF

St(op, obj, res, fn, args, n, m) == [op |-> op, obj |-> obj, res |-> res, fn |-> fn, args |-> args, n |-> n, m |-> m]
TNew(o, suite)      == St("tnew", o, "", "", <<>>, suite, 0)
FhNew(o, ver, suite) == St("fhnew", o, "", "", <<>>, suite, ver)
Write(o, v)         == St("write", o, "", "", <<v>>, 0, 0)
Call(res, fn, o, args, n, m) == St("call", o, res, fn, args, n, m)
Invoke(res, f, label, ctx, n) == St("invoke", f, res, "", <<label, ctx>>, n, 0)
Over(v)             == St("over", "", "", "", <<v>>, 0, 0)
Obs(res)            == St("obs", "", res, "", <<>>, 0, 0)
TSum(o, res)        == St("tsum", o, res, "", <<>>, 0, 0)

Flipped(t) == Xor(t, Rep(TermLen(t), 255))          \* what "over" leaves in the caller's slice
Exp(name, allowed) == [name |-> name, allowed |-> allowed]
VarDecl(name, n) == [name |-> name, n |-> n]
SeqIf(c, s) == IF c THEN s ELSE <<>>

----------------------------------------------------------------------------
(* TLS 1.3 exporter: created on the transcript ClientHello..server Finished (tr1); the handshake
   then hashes more (tr2, tr3) before and between the uses.                                      *)
Exp13Seq(suite, mutT, ovw, cl, n) ==
  LET h == Suite13Of(suite).h
      master == Var("master", HLen(h))   tr1 == Var("tr1", 57)   ctx == Var("ctx", IF cl < 0 THEN 0 ELSE cl)
      E(ms, label) == Exporter13(h, ms, tr1, label, ctx, n)
      Both(label) == <<E(master, label)>> \o SeqIf(ovw, <<E(Flipped(master), label)>>)
  IN [fn |-> "exp13-seq", suite |-> suite, ver |-> 772,
      vars |-> <<VarDecl("master", HLen(h)), VarDecl("tr1", 57), VarDecl("tr2", 33), VarDecl("tr3", 5),
                 VarDecl("label", 12), VarDecl("label2", 9), VarDecl("ctx", IF cl < 0 THEN 0 ELSE cl)>>,
      steps |-> <<TNew("t", suite), Write("t", "tr1"), Call("f", "exporter13", "t", <<"master">>, 0, 0)>>
                \o SeqIf(mutT, <<Write("t", "tr2")>>) \o SeqIf(ovw, <<Over("master")>>)
                \o <<Invoke("o1", "f", "label", IF cl < 0 THEN "" ELSE "ctx", n), Obs("o1"), Write("t", "tr3"),
                     Invoke("o2", "f", "label2", IF cl < 0 THEN "" ELSE "ctx", n), Obs("o2"), Obs("o1"), TSum("t", "s")>>,
      expect |-> <<Exp("o1", Both(Var("label", 12))), Exp("o2", Both(Var("label2", 9))), Exp("o1", Both(Var("label", 12))),
                   Exp("s", <<Hash(h, Cat(<<tr1>> \o SeqIf(mutT, <<Var("tr2", 33)>>) \o <<Var("tr3", 5)>>))>>)>>]

(* Derive-Secret / Finished on a live transcript: the returned bytes cover the transcript of the
   moment of the call and stay what they are; the transcript is left as the caller wrote it.     *)
Live13Seq(fn, suite, ovw) ==
  LET h == Suite13Of(suite).h
      sec == Var("secret", HLen(h))   tr1 == Var("tr1", 57)   tr12 == Cat(<<Var("tr1", 57), Var("tr2", 33)>>)
      F(s, msgs) == IF fn = "derive13" THEN DeriveSecret(h, s, Var("label", 12), msgs) ELSE Finished13(h, s, msgs)
      args == IF fn = "derive13" THEN <<"secret", "label">> ELSE <<"secret">>
  IN [fn |-> "live13-seq", suite |-> suite, ver |-> 772,
      vars |-> <<VarDecl("secret", HLen(h)), VarDecl("tr1", 57), VarDecl("tr2", 33), VarDecl("label", 12)>>,
      steps |-> <<TNew("t", suite), Write("t", "tr1"), Call("d1", fn, "t", args, 0, 0), Obs("d1"), Write("t", "tr2")>>
                \o SeqIf(ovw, <<Over("secret")>>)
                \o <<Call("d2", fn, "t", args, 0, 0), Obs("d2"), Obs("d1"), TSum("t", "s")>>,
      expect |-> <<Exp("d1", <<F(sec, tr1)>>), Exp("d2", <<F(IF ovw THEN Flipped(sec) ELSE sec, tr12)>>),
                   Exp("d1", <<F(sec, tr1)>>), Exp("s", <<Hash(h, tr12)>>)>>]

(* RFC 5705 exporter closure of TLS 1.0-1.2: ovw = the inputs the caller overwrites afterwards *)
Pick(name, n, flip) == IF flip THEN Flipped(Var(name, n)) ELSE Var(name, n)
Ekm12Seq(ver, suite, ovw, cl, n) ==
  LET ctx == Var("ctx", IF cl < 0 THEN 0 ELSE cl)
      E(fm, fc, fs) == Exporter(ver, suite, Pick("ms", 48, fm), Pick("cr", 32, fc), Pick("sr", 32, fs), Var("label", 20), cl >= 0, ctx, n)
      allowed == [i \in 1..8 |-> E(i > 4, ((i - 1) % 4) > 1, (i % 2) = 0)]      \* every choice of old/new per input
      keep == {i \in 1..8 : ((i > 4) => "ms" \in ovw) /\ ((((i - 1) % 4) > 1) => "cr" \in ovw) /\ (((i % 2) = 0) => "sr" \in ovw)}
      alw == LET RECURSIVE Sel(_) Sel(i) == IF i > 8 THEN <<>> ELSE (IF i \in keep THEN <<allowed[i]>> ELSE <<>>) \o Sel(i + 1) IN Sel(1)
  IN [fn |-> "ekm12-seq", suite |-> suite, ver |-> ver,
      vars |-> <<VarDecl("ms", 48), VarDecl("cr", 32), VarDecl("sr", 32), VarDecl("label", 20), VarDecl("ctx", IF cl < 0 THEN 0 ELSE cl)>>,
      steps |-> <<Call("f", "ekm12", "", <<"ms", "cr", "sr">>, suite, ver)>>
                \o SeqIf("ms" \in ovw, <<Over("ms")>>) \o SeqIf("cr" \in ovw, <<Over("cr")>>) \o SeqIf("sr" \in ovw, <<Over("sr")>>)
                \o <<Invoke("o1", "f", "label", IF cl < 0 THEN "" ELSE "ctx", n), Obs("o1"),
                     Invoke("o2", "f", "label", IF cl < 0 THEN "" ELSE "ctx", n), Obs("o2"), Obs("o1")>>,
      expect |-> <<Exp("o1", alw), Exp("o2", alw), Exp("o1", alw)>>]

(* TLS 1.0-1.2 finishedHash: verify_data covers what was hashed when it was computed *)
Fh12Seq(ver, suite) ==
  LET ms == Var("ms", 48)   tr1 == Var("tr1", 57)   tr12 == Cat(<<Var("tr1", 57), Var("tr2", 33)>>) IN
  [fn |-> "fh12-seq", suite |-> suite, ver |-> ver,
   vars |-> <<VarDecl("ms", 48), VarDecl("tr1", 57), VarDecl("tr2", 33)>>,
   steps |-> <<FhNew("fh", ver, suite), Write("fh", "tr1"), Call("c1", "clientsum", "fh", <<"ms">>, 0, 0),
               Call("s1", "serversum", "fh", <<"ms">>, 0, 0), Obs("c1"), Write("fh", "tr2"),
               Call("c2", "clientsum", "fh", <<"ms">>, 0, 0), Over("ms"), Obs("c2"), Obs("c1"), Obs("s1"),
               Call("u", "fhsum", "fh", <<>>, 0, 0), Obs("u")>>,
   expect |-> <<Exp("c1", <<Finished(ver, suite, ms, "client", tr1)>>), Exp("c2", <<Finished(ver, suite, ms, "client", tr12)>>),
                Exp("c1", <<Finished(ver, suite, ms, "client", tr1)>>), Exp("s1", <<Finished(ver, suite, ms, "server", tr1)>>),
                Exp("u", <<TranscriptSum(ver, suite, tr12)>>)>>]

(* returned key material stays what it was when the inputs are overwritten and the function is
   called again (results named k.1 .. k.6 / tk.1, tk.2)                                          *)
Keys12Seq(ver, suite) ==
  LET s == SuiteOf(suite)
      kb == KeyBlock(ver, suite, Var("ms", 48), Var("cr", 32), Var("sr", 32), s.mac, s.key, s.iv)
      kb2 == KeyBlock(ver, suite, Flipped(Var("ms", 48)), Flipped(Var("cr", 32)), Flipped(Var("sr", 32)), s.mac, s.key, s.iv)
      nm(p, i) == CASE i = 1 -> p \o ".1" [] i = 2 -> p \o ".2" [] i = 3 -> p \o ".3" [] i = 4 -> p \o ".4" [] i = 5 -> p \o ".5" [] i = 6 -> p \o ".6"
  IN [fn |-> "keys12-seq", suite |-> suite, ver |-> ver,
      vars |-> <<VarDecl("ms", 48), VarDecl("cr", 32), VarDecl("sr", 32)>>,
      steps |-> <<Call("k", "keys12", "", <<"ms", "cr", "sr">>, suite, ver), Over("ms"), Over("cr"), Over("sr"),
                  Call("j", "keys12", "", <<"ms", "cr", "sr">>, suite, ver)>>
                \o [i \in 1..6 |-> Obs(nm("k", i))] \o [i \in 1..6 |-> Obs(nm("j", i))],
      expect |-> [i \in 1..6 |-> Exp(nm("k", i), <<kb[i]>>)] \o [i \in 1..6 |-> Exp(nm("j", i), <<kb2[i]>>)]]

Traffic13Seq(suite) ==
  LET h == Suite13Of(suite).h
      a == TrafficKey(suite, Var("secret", HLen(h)))   b == TrafficKey(suite, Flipped(Var("secret", HLen(h))))
  IN [fn |-> "traffic13-seq", suite |-> suite, ver |-> 772,
      vars |-> <<VarDecl("secret", HLen(h))>>,
      steps |-> <<Call("tk", "traffickey", "", <<"secret">>, suite, 0), Over("secret"),
                  Call("tj", "traffickey", "", <<"secret">>, suite, 0), Obs("tk.1"), Obs("tk.2"), Obs("tj.1"), Obs("tj.2")>>,
      expect |-> <<Exp("tk.1", <<a[1]>>), Exp("tk.2", <<a[2]>>), Exp("tj.1", <<b[1]>>), Exp("tj.2", <<b[2]>>)>>]

SeqCases ==
  LET Ids13 == {4865, 4866, 4867}
      A == {Exp13Seq(s, mt, ov, cl, n) : s \in Ids13, mt \in BOOLEAN, ov \in BOOLEAN, cl \in {-1, 0, 7}, n \in {0, 1, 32, 49}}
      B == {Live13Seq(fn, s, ov) : fn \in {"derive13", "fin13"}, s \in Ids13, ov \in BOOLEAN}
      C == {Ekm12Seq(v, s, ov, cl, n) : v \in {769, 771}, s \in {47, 157}, ov \in SUBSET {"ms", "cr", "sr"}, cl \in {-1, 5}, n \in {1, 32, 49}} 
      D == {Fh12Seq(v, s) : v \in {769, 770, 771}, s \in {47, 157, 49199}}
      K == {Keys12Seq(v, s) : v \in {769, 771}, s \in {47, 157, 49199, 5}}
      T == {Traffic13Seq(s) : s \in Ids13}
  IN {c \in A \cup B \cup C \cup D \cup K \cup T : c.fn \in {"exp13-seq", "live13-seq", "traffic13-seq"} \/ ~SuiteOf(c.suite).t12 \/ c.ver = 771}
=============================================================================
