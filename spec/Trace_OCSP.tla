---------------------------- MODULE Trace_OCSP ----------------------------
(* C13 observation validator (U3, function style).  The harness builds responses with
   CreateResponse from seeded random templates (random serial octets, times, reasons,
   hashes, extensions) in random scenarios (signer x embedded certificate x verifying
   issuer x key types), parses them with ParseResponse and records

     {"t":template,"sc":scenario,"kt":[..],"accepted":b,"fields":{..},
      "label":algorithm the response is labelled with,"wellsigned":b}
   (label / wellsigned are read off the DER with the standard library only: does the
   signature verify under the signing key with the labelled algorithm)

   TLC evaluates the A layer (OCSP.tla): the verdict of the scenario and, where the
   response was accepted, the field map.  One REJECT line per forbidden observation. *)
EXTENDS OCSP, TLC, Json

Obs == ndJsonDeserialize("ocsp_obs.ndjson")

OK(o) ==
  LET v == ScVerdict(o.sc)
      w == Expected(o.t, SubjectOf(o.sc.responder), o.sc.embedded # "none", SignerType(o.sc, o.kt)) IN
  /\ v = "accept" => o.accepted
  /\ v = "reject" => ~o.accepted
  /\ o.accepted => o.fields = w
  /\ o.wellsigned /\ o.label = SigAlgOf(o.t, SignerType(o.sc, o.kt))

Judge(i) == OK(Obs[i]) \/ PrintT(<<"REJECT", i, ScVerdict(Obs[i].sc),
                                  ToJson(Expected(Obs[i].t, SubjectOf(Obs[i].sc.responder), Obs[i].sc.embedded # "none", SignerType(Obs[i].sc, Obs[i].kt)))>>)

ASSUME \A i \in DOMAIN Obs : Judge(i)
ASSUME PrintT(<<"JUDGED", Len(Obs)>>)

VARIABLE done
Init == done = TRUE
Next == UNCHANGED done
Spec == Init /\ [][Next]_done
=============================================================================
