---------------------------- MODULE ChainBuilder ----------------------------
(* C07: Certificate.Verify returns only valid chains and partitions them by date.

   A layer (the property; only disagreement of the REAL code with this layer is a violation):
     ChainsOk   every returned chain satisfies PKI!ValidChain
     DatesOk    every returned chain sits in the bucket its common validity window demands,
                under ONE end-point convention (PKI!Readings) for the whole run
     ErrOk      err = nil  =>  at least one current chain /\ the requested DNS name matches
   Nothing here demands completeness (that every valid chain is returned): the statement
   does not.

   B layer (implementation-shaped, x509/verify.go as coded): BVerify = buildChains with its
   per-call cache keyed by intermediate index, AKID-then-name candidate lookup
   (CertPool.findVerifiedParents + CheckSignatureFrom), isValid, checkChainForKeyUsage,
   FilterByDate.  TLC checks B => A on every generated PKI; the real code is compared with B
   only for MODEL-DRIFT notes.

   Constants-free operator module.  A "case" is a record
     [certs  : Seq(cert)   the PKI, leaf first
      roots  : Seq(cert)   Roots pool in insertion order
      inters : Seq(cert)   Intermediates pool in insertion order
      leaf   : cert, usages : Seq(STRING), dns : STRING]
   an "observation" of one call at time t is
     [t, current, expired, never : Seq(chain), err : STRING, panic : BOOLEAN]           *)
EXTENDS CertPool, TLC

----------------------------------------------------------------------------
(* A layer *)

\* DNS names in this module are "simple": lower-case, no wildcard, no trailing dot, not an IP
\* literal, so that the matching rule of Hostname.tla (C09) degenerates to equality.  The
\* generator only uses such names.  SAN present => CN ignored.
NameMatches(host, c) == IF Len(c.dns) > 0 THEN host \in SeqToSet(c.dns) ELSE c.cn = host

AllChains(o) == o.current \o o.expired \o o.never
RootSet(cs)  == SeqToSet(cs.roots)

ChainsOk(cs, o) ==
  \A i \in 1..Len(AllChains(o)) : ValidChain(AllChains(o)[i], cs.leaf, RootSet(cs), cs.usages)

FirstBadChain(cs, o) ==
  LET all == AllChains(o)
      bad == {i \in 1..Len(all) : ~ValidChain(all[i], cs.leaf, RootSet(cs), cs.usages)}
  IN IF bad = {} THEN "" ELSE WhyInvalid(all[MinOf(bad)], cs.leaf, RootSet(cs), cs.usages)

DatesOk(reading, o) ==
  /\ \A i \in 1..Len(o.current) : DateClass(reading, o.current[i], o.t) = "current"
  /\ \A i \in 1..Len(o.expired) : DateClass(reading, o.expired[i], o.t) = "expired"
  /\ \A i \in 1..Len(o.never)   : DateClass(reading, o.never[i], o.t) = "never"

ErrOk(cs, o) ==
  o.err = "nil" => /\ Len(o.current) > 0
                   /\ cs.dns # "" => NameMatches(cs.dns, cs.leaf)

WhyErrBad(cs, o) == IF Len(o.current) = 0 THEN "nil-error-without-current-chain"
                    ELSE "nil-error-with-name-mismatch"

----------------------------------------------------------------------------
(* B layer: x509/verify.go as coded *)

InChainById(ch, c)    == \E i \in 1..Len(ch) : ch[i].id = c.id             \* CertificateInChain
SubjKeyInChain(ch, c) == \E i \in 1..Len(ch) : SameSubjectAndKey(ch[i], c)

\* CertPool.Contains (InPool) and CertPool.findVerifiedParents (BFindParents) are modelled in CertPool.tla

\* Certificate.isValid(certType, currentChain) = nil
BIsValid(c, isIntermediate, cur) ==
  /\ isIntermediate => IsCACert(c)
  /\ ~(c.bc /\ c.pathlen >= 0 /\ Len(cur) - 1 > c.pathlen)
  /\ Len(cur) <= MaxIntermediateCount

RECURSIVE BBuild(_, _, _, _, _), BInter(_, _, _, _, _, _), BRootChains(_, _, _)

BRootChains(cur, R, ks) ==
  IF ks = <<>> THEN <<>>
  ELSE LET r == R[Head(ks)] IN
       (IF BIsValid(r, FALSE, cur) /\ ~InChainById(cur, r) THEN <<Append(cur, r)>> ELSE <<>>)
       \o BRootChains(cur, R, Tail(ks))

\* the loop over possibleIntermediates, threading chains and the shared cache map
BInter(cur, ks, chains, cache, R, I) ==
  IF ks = <<>> THEN [chains |-> chains, cache |-> cache]
  ELSE LET k == Head(ks)
           x == I[k]
       IN IF InPool(R, x) \/ SubjKeyInChain(cur, x) \/ ~BIsValid(x, TRUE, cur)
          THEN BInter(cur, Tail(ks), chains, cache, R, I)
          ELSE IF k \in DOMAIN cache
          THEN BInter(cur, Tail(ks), chains \o cache[k], cache, R, I)
          ELSE LET r  == BBuild(x, Append(cur, x), cache, R, I)
                   c2 == [j \in (DOMAIN r.cache) \cup {k} |-> IF j = k THEN r.chains ELSE r.cache[j]]
               IN BInter(cur, Tail(ks), chains \o r.chains, c2, R, I)

\* Certificate.buildChains(cache, currentChain, opts)
BBuild(c, cur, cache, R, I) ==
  LET first == IF Len(cur) = 1 /\ InPool(R, c) THEN <<<<c>>>> ELSE <<>>
      roots == BRootChains(cur, R, BFindParents(R, c))
  IN BInter(cur, BFindParents(I, c), first \o roots, cache, R, I)

EmptyCache == [j \in {} |-> <<>>]

\* candidate chains of Verify before the EKU filter
BCandidates(cs) ==
  IF InPool(cs.roots, cs.leaf) THEN <<<<cs.leaf>>>>
  ELSE BBuild(cs.leaf, <<cs.leaf>>, EmptyCache, cs.roots, cs.inters).chains

\* chains that survive checkChainForKeyUsage (the coded rule coincides with PKI!EKUOk)
BChains(cs) == SelectSeq(BCandidates(cs), LAMBDA ch : EKUOk(ch, cs.usages))

\* full predicted result of Verify at time t, given cands = BCandidates(cs) (computed once per case:
\* chain building does not depend on the time)
BResult(cs, cands, t) ==
  LET chains == SelectSeq(cands, LAMBDA ch : EKUOk(ch, cs.usages))
      p      == Partition("open", chains, t)
  IN IF chains = <<>>
     THEN [t |-> t, current |-> <<>>, expired |-> <<>>, never |-> <<>>, panic |-> FALSE,
           err |-> IF cands = <<>> THEN "chain" ELSE "usage"]
     ELSE [t |-> t, current |-> p.current, expired |-> p.expired, never |-> p.never, panic |-> FALSE,
           err |-> IF p.current = <<>> THEN (IF p.expired # <<>> THEN "expired" ELSE "never")
                   ELSE IF cs.dns # "" /\ ~NameMatches(cs.dns, cs.leaf) THEN "hostname"
                   ELSE "nil"]
BVerify(cs, t) == BResult(cs, BCandidates(cs), t)

\* B => A for one case at all its times (U1 obligation, checked on every generated case)
BSoundCase(cs, cands, times) ==
  \A k \in 1..Len(times) :
     LET o == BResult(cs, cands, times[k]) IN ChainsOk(cs, o) /\ DatesOk("open", o) /\ ErrOk(cs, o)

\* multiset equality of two sequences of chains (projected to ids), for drift only
CountIn(s, x)   == Cardinality({i \in 1..Len(s) : s[i] = x})
SameMultiset(a, b) == /\ Len(a) = Len(b)
                      /\ \A i \in 1..Len(a) : CountIn(a, a[i]) = CountIn(b, a[i])
IdsOfChains(chs) == [i \in 1..Len(chs) |-> Ids(chs[i])]
=============================================================================
