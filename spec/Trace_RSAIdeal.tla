--------------------------- MODULE Trace_RSAIdeal ---------------------------
(* C23 trace validator (U3): runs recorded from the real implementations (zcrypto rsa = Z,
   crypto/rsa = S; seeded random parameters, wider than the generated runs: every hash, every
   message / salt / key-buffer length) are accepted iff every observed outcome is one the
   ideal functionality of RSAIdeal.tla allows, and the two implementations agree wherever
   the specification demands it.  Many runs per file, separated by "reset" events.

   events  {"ev":"reset","bits":b}
           {"ev":"produce","op":..,"impl":..,"hash":..,"dlen":n,"mlen":n,"label":s,"smode":..,"sn":n,"out":"ok"|"error"}
           {"ev":"mutate","mut":m}
           {"ev":"consume","op":..,"impl":..,"hash":..,"dlen":n,"label":s,"smode":..,"sn":n,"key":..,"digest":..,
            "keylen":n,"out":o,"pay":digest of the returned bytes}                        *)
EXTENDS RSAIdeal, Json

Trace == ndJsonDeserialize("rsa_trace.ndjson")

VARIABLES l, tbits, tobj, last
tvars == <<l, tbits, tobj, last>>

None == [scheme |-> "none", hash |-> "", dlen |-> 0, label |-> "", mlen |-> 0, slen |-> 0, mut |-> "none"]
NoLast == [op |-> "", impl |-> "", par |-> <<>>, out |-> "", pay |-> ""]

TraceInit == l = 1 /\ tbits = 0 /\ tobj = None /\ last = NoLast /\ TLCSet(1, 1)

HL(e) == IF e.hash = "" THEN 0 ELSE HLen(e.hash)

ProduceOK(e) ==
  CASE e.op = "EncPKCS1"  -> EncPKCS1OK(tbits, e.mlen)
    [] e.op = "EncOAEP"   -> EncOAEPOK(tbits, HL(e), e.mlen)
    [] e.op = "SignPKCS1" -> SignPKCS1OK(tbits, e.hash, e.dlen)
    [] e.op = "SignPSS"   -> SignPSSOK(tbits, HL(e), e.smode, e.sn)

Produced(e) ==
  CASE e.op = "EncPKCS1"  -> [None EXCEPT !.scheme = "pkcs1enc", !.mlen = e.mlen]
    [] e.op = "EncOAEP"   -> [None EXCEPT !.scheme = "oaep", !.mlen = e.mlen, !.hash = e.hash, !.label = e.label]
    [] e.op = "SignPKCS1" -> [None EXCEPT !.scheme = "pkcs1sig", !.hash = e.hash, !.dlen = e.dlen]
    [] e.op = "SignPSS"   -> [None EXCEPT !.scheme = "pss", !.hash = e.hash, !.dlen = e.dlen,
                                          !.slen = SaltLen(tbits, HL(e), e.smode, e.sn)]

SameKey(e) == e.key = "same"
\* the digest handed to the verifier is the signed one iff same id and same length
SameDigest(e) == e.digest = "same" /\ e.dlen = tobj.dlen

Allowed(e) ==
  CASE e.op = "DecPKCS1"      -> DecPKCS1(tobj.scheme, tobj.mut, SameKey(e))
    [] e.op = "DecOAEP"       -> DecOAEP(tbits, tobj.scheme, tobj.mut, SameKey(e), e.hash = tobj.hash, e.label = tobj.label, HL(e))
    [] e.op = "DecSessionKey" -> DecSessionKey(tbits, tobj.scheme, tobj.mut, SameKey(e), tobj.mlen, e.keylen)
    [] e.op = "VerPKCS1"      -> VerPKCS1(tobj.scheme, tobj.mut, SameKey(e), e.hash = tobj.hash, SameDigest(e))
    [] e.op = "VerPSS"        -> VerPSS(tobj.scheme, tobj.mut, SameKey(e), e.hash = tobj.hash, SameDigest(e),
                                        e.smode, e.sn, tobj.slen, HL(e))

Par(e) == <<e.hash, e.dlen, e.label, e.smode, e.sn, e.key, e.digest, e.keylen>>

TraceNext ==
  /\ l <= Len(Trace)
  /\ l' = l + 1
  /\ LET e == Trace[l] IN
     CASE e.ev = "reset" -> tbits' = e.bits /\ tobj' = None /\ last' = NoLast
       [] e.ev = "produce" ->
            /\ e.out = IF ProduceOK(e) THEN "ok" ELSE "error"
            /\ tobj' = IF ProduceOK(e) THEN Produced(e) ELSE None
            /\ UNCHANGED <<tbits, last>>
       [] e.ev = "mutate" -> tobj.scheme # "none" /\ tobj' = [tobj EXCEPT !.mut = e.mut] /\ UNCHANGED <<tbits, last>>
       [] e.ev = "consume" ->
            /\ tobj.scheme # "none"
            /\ e.out \in Allowed(e)
            /\ (last.op = e.op /\ last.par = Par(e) /\ last.impl # e.impl /\ MustAgree(tobj.mut))
                  => (e.out = last.out /\ e.pay = last.pay)
            /\ last' = [op |-> e.op, impl |-> e.impl, par |-> Par(e), out |-> e.out, pay |-> e.pay]
            /\ UNCHANGED <<tbits, tobj>>

TraceSpec == TraceInit /\ [][TraceNext]_tvars

HWM == TLCSet(1, IF l > TLCGet(1) THEN l ELSE TLCGet(1))
Accepted == \/ TLCGet(1) = Len(Trace) + 1
            \/ PrintT(<<"HWM", TLCGet(1)>>) /\ FALSE
=============================================================================
