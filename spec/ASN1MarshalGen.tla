--------------------------- MODULE ASN1MarshalGen ---------------------------
(* C18 case generator (U1 + U2).  A state is a struct schema with a value: a
   sequence of (field type, field value) pairs drawn from a menu; TLC explores all
   sequences up to the bound and, for every schema inside the documented domain
   (InDomain: every omittable field can be told from what may follow it),
     - prints type, value and Enc(type, value) = the bytes Marshal must produce
       (and, by the statement of C18, Unmarshal must turn back into the value),
     - checks on the first value of each schema that Enc is injective over all
       menu values of that schema (EncInjective; design-level lemma).
   Menus: "large" (every parameter combination, several values each; short
   schemas), "small" (few field types; longer schemas, more interaction) and
   "times" (time fields with / without the utc / generalized override, explicit and
   implicit tags x instants around both ends of the UTCTime range x zone offsets). *)
EXTENDS ASN1Marshal

CONSTANTS MENUS, S_FIELDS, L_FIELDS, T_FIELDS

VARIABLES menu, fs        \* fs: sequence of <<type, value>>
vars == <<menu, fs>>

P == NoParams
Opt(p)        == [p EXCEPT !.opt = TRUE]
Def(p, s, m)  == [p EXCEPT !.opt = TRUE, !.hasdef = TRUE, !.def = <<s, m>>]
Tag(p, n)     == [p EXCEPT !.tag = n]
Expl(p, n)    == [p EXCEPT !.tag = n, !.explicit = TRUE]
Cls(p, c)     == [p EXCEPT !.class = c]
St(p, s)      == [p EXCEPT !.st = s]
Tt(p, s)      == [p EXCEPT !.tt = s]

I(p)   == T("int", p, <<>>)
Str(p) == T("str", p, <<>>)

Ints   == {<<0, <<>>>>, <<1, <<5>>>>, <<-1, <<129>>>>, <<1, <<128, 0, 0, 0>>>>}
EnumInts == {<<0, <<>>>>, <<1, <<5>>>>, <<-1, <<129>>>>, <<1, <<127, 255, 255, 255>>>>}   \* Enumerated is read back as int32
Bools  == {TRUE, FALSE}
PStrs  == {<<>>, <<97, 32, 98>>}                    \* "", "a b"
AStrs  == {<<>>, <<97, 98>>, <<97, 42>>, <<195, 169>>}   \* "", "ab", "a*", "é"  (auto string type)
Oids   == {<<1, 2, 3>>, <<2, 5, 4, 3>>}
BitsV  == {<<<<>>, 0>>, <<<<160>>, 3>>, <<<<255, 1>>, 16>>}
Times  == {<<2024, 2, 29, 12, 34, 56, 0>>, <<2050, 1, 1, 0, 0, 0, 0>>, <<1949, 12, 31, 23, 59, 59, 0>>,
           <<1999, 6, 1, 1, 2, 3, 3600>>}
UTimes == {<<2024, 2, 29, 12, 34, 56, 0>>, <<1999, 6, 1, 1, 2, 3, -5400>>}
Octs   == {<<>>, <<1, 2>>}
FillO(k) == [i \in 1..k |-> 7]
LenOcts == {FillO(127), FillO(128), FillO(255), FillO(256)}      \* DER length-form boundaries
Raws   == {<<0, 5, FALSE, <<>>>>, <<2, 1, TRUE, <<4, 0>>>>, <<1, 40, FALSE, <<7>>>>}
IntSeqs == {<<>>, <<<<1, <<5>>>>>>, <<<<1, <<1, 44>>>>, <<-1, <<1>>>>, <<1, <<5>>>>>>}
Inner  == T("struct", P, <<I(P), T("bool", Opt(P), <<>>)>>)
InnerV == {<<<<1, <<5>>>>, FALSE>>, <<<<0, <<>>>>, TRUE>>}

\* <<type, set of values>>
LargeMenu == {
  <<I(P), Ints>>, <<I(Opt(P)), Ints>>, <<I(Def(P, 1, <<5>>)), Ints>>, <<I(Expl(P, 0)), Ints>>, <<I(Tag(P, 1)), Ints>>,
  <<I(Expl(Opt(P), 2)), Ints>>, <<I(Cls(Tag(P, 3), "app")), Ints>>, <<I(Cls(Tag(P, 4), "priv")), Ints>>,
  <<I(Cls(Expl(P, 5), "app")), Ints>>, <<I(Cls(Expl(P, 5), "priv")), Ints>>,
  <<I(Expl(Def(P, 0, <<>>), 6)), Ints>>, <<I(Tag(P, 31)), Ints>>, <<I(Expl(P, 200)), Ints>>,
  <<T("bigint", P, <<>>), Ints \cup {<<1, <<1, 0, 0, 0, 0, 0, 0, 0, 0>>>>, <<-1, <<1, 0, 0, 0, 0, 0, 0, 0, 0>>>>}>>,
  <<T("enum", P, <<>>), EnumInts>>, <<T("enum", Opt(P), <<>>), EnumInts>>,
  <<T("bool", P, <<>>), Bools>>, <<T("bool", Opt(P), <<>>), Bools>>,
  <<T("flag", Opt(P), <<>>), Bools>>, <<T("flag", Expl(Opt(P), 7), <<>>), Bools>>,
  <<Str(P), AStrs>>, <<Str(St(P, "ia5")), {<<>>, <<97, 64, 98>>}>>, <<Str(St(P, "printable")), PStrs \cup {<<42>>}>>,
  <<Str(St(P, "numeric")), {<<>>, <<49, 32, 50>>}>>, <<Str(St(P, "utf8")), AStrs>>,
  <<Str(St(Tag(Opt(P), 8), "utf8")), AStrs>>, <<Str(Tag(P, 8)), PStrs>>, <<Str(Expl(P, 9)), AStrs>>,
  <<T("oid", P, <<>>), Oids>>, <<T("oid", Opt(P), <<>>), Oids \cup {<<>>}>>,
  <<T("bits", P, <<>>), BitsV>>, <<T("bits", Tag(Opt(P), 10), <<>>), BitsV>>,
  <<T("time", P, <<>>), Times>>, <<T("time", Tt(P, "generalized"), <<>>), Times>>, <<T("time", Tt(P, "utc"), <<>>), UTimes>>,
  <<T("time", Expl(P, 11), <<>>), Times>>, <<T("time", Tag(P, 11), <<>>), UTimes>>,
  <<T("octets", P, <<>>), Octs \cup LenOcts>>, <<T("octets", Tag(Opt(P), 12), <<>>), Octs>>,
  <<T("octets", Expl(P, 16), <<>>), {FillO(125), FillO(126), FillO(251), FillO(252)}>>,   \* the wrapper crosses the boundary
  <<T("raw", P, <<>>), Raws>>,
  <<T("seqof", P, <<I(P)>>), IntSeqs>>, <<T("seqof", [Opt(P) EXCEPT !.omit = TRUE], <<I(P)>>), IntSeqs>>,
  <<T("seqof", [P EXCEPT !.set = TRUE], <<I(P)>>), IntSeqs>>, <<T("setof", P, <<I(P)>>), IntSeqs>>,
  <<T("seqof", Expl(P, 13), <<Str(P)>>), {<<>>, <<<<97>>, <<195, 169>>, <<>>>>}>>,
  <<T("seqof", P, <<Inner>>), {<<>>, <<<<<<1, <<5>>>>, TRUE>>, <<<<0, <<>>>>, FALSE>>>>}>>,
  <<Inner, InnerV>>, <<[Inner EXCEPT !.p = Expl(P, 14)], InnerV>>, <<[Inner EXCEPT !.p = Opt(P)], InnerV \cup {<<<<0, <<>>>>, FALSE>>}>>,
  <<[Inner EXCEPT !.p = Tag(P, 15)], InnerV>>, <<[Inner EXCEPT !.p = [P EXCEPT !.set = TRUE]], InnerV>>
}
SmallMenu == {
  <<I(P), {<<0, <<>>>>, <<-1, <<129>>>>}>>, <<I(Opt(P)), {<<0, <<>>>>, <<1, <<5>>>>}>>,
  <<I(Def(P, 1, <<5>>)), {<<1, <<5>>>>, <<0, <<>>>>}>>, <<I(Expl(Opt(P), 2)), {<<0, <<>>>>, <<1, <<5>>>>}>>,
  <<T("bool", Opt(P), <<>>), Bools>>, <<Str(P), {<<>>, <<195, 169>>}>>, <<Str(St(Tag(Opt(P), 8), "utf8")), {<<>>, <<97>>}>>,
  <<T("oid", Opt(P), <<>>), {<<>>, <<1, 2, 3>>}>>, <<T("time", P, <<>>), {<<2024, 2, 29, 12, 34, 56, 0>>, <<2050, 1, 1, 0, 0, 0, 0>>}>>,
  <<T("octets", Tag(Opt(P), 12), <<>>), Octs>>, <<T("raw", P, <<>>), {<<0, 5, FALSE, <<>>>>}>>,
  <<T("seqof", [Opt(P) EXCEPT !.omit = TRUE], <<I(P)>>), {<<>>, <<<<1, <<5>>>>>>}>>,
  <<[Inner EXCEPT !.p = Opt(P)], {<<<<0, <<>>>>, FALSE>>, <<<<1, <<5>>>>, TRUE>>}>>
}
(* "times": instants around both ends of the UTCTime range x zone offsets.  For each boundary
   B (1950-01-01 00:00:00, 2050-01-01 00:00:00), each d in Deltas and each offset: the time whose
   LOCAL fields are B + d, and the time whose UTC fields are B + d (local = B + d + offset). *)
Deltas  == {-43200, -3600, -1, 0, 1, 3600, 43200}
Offsets == {-43200, -18000, -1800, 0, 1800, 18000, 50400,       \* -12:00 -05:00 -00:30 Z +00:30 +05:00 +14:00
            -59, 30, 1172}                                     \* zones with a sub-minute part: -0:00:59 +0:00:30 +0:19:32
LocalAt(yb, rel, off) ==        \* local fields = Jan 1 of yb, 00:00:00, plus rel seconds (|rel| < 3 days)
  LET day == IF rel >= 0 THEN rel \div 86400 ELSE -((86399 - rel) \div 86400)
      sod == rel - (day * 86400)
      ymd == IF day >= 0 THEN <<yb, 1, 1 + day>> ELSE <<yb - 1, 12, 32 + day>>
  IN <<ymd[1], ymd[2], ymd[3], sod \div 3600, (sod % 3600) \div 60, sod % 60, off>>
BoundaryTimes == {LocalAt(yb, dl, off) : yb \in {1950, 2050}, dl \in Deltas, off \in Offsets}
                 \cup {LocalAt(yb, dl + off, off) : yb \in {1950, 2050}, dl \in Deltas, off \in Offsets}
TimesMenu == {
  <<T("time", P, <<>>), BoundaryTimes>>, <<T("time", Tt(P, "generalized"), <<>>), BoundaryTimes>>,
  <<T("time", Tt(P, "utc"), <<>>), BoundaryTimes>>, <<T("time", Expl(P, 11), <<>>), BoundaryTimes>>,
  \* under an implicit tag the decoder cannot tell the two time types apart: UTCTime range only
  <<T("time", Tag(P, 11), <<>>), {v \in BoundaryTimes : InUTCRange(v)}>>
}
Menu == IF menu = "small" THEN SmallMenu ELSE IF menu = "times" THEN TimesMenu ELSE LargeMenu
MaxF == IF menu = "small" THEN S_FIELDS ELSE IF menu = "times" THEN T_FIELDS ELSE L_FIELDS

Init == menu \in MENUS /\ fs = <<>>
Next == /\ UNCHANGED menu
        /\ Len(fs) < MaxF
        /\ \E e \in Menu : \E v \in e[2] : fs' = Append(fs, <<e[1], v>>)
Spec == Init /\ [][Next]_vars

----------------------------------------------------------------------------
(* the documented domain: every field that may be omitted starts with an identifier
   the decoder cannot confuse with what may follow (up to the next mandatory field) *)
StringTags == {12, 18, 19, 20, 22, 27, 30}
AnyId == -1
\* identifiers (class * 1000 + tag number) a field's encoding may start with / the decoder takes for it
Ids(t) ==
  IF t.k = "raw" THEN {AnyId}
  ELSE IF t.p.tag >= 0 THEN {ClassNo(t.p) * 1000 + t.p.tag}
  ELSE IF t.k = "str" THEN StringTags
  ELSE IF t.k = "time" THEN {23, 24}
  ELSE {UniversalTag(t, <<>>)}
Clash(a, b) == AnyId \in a \/ AnyId \in b \/ a \cap b # {}
Omittable(t) == t.p.opt \/ t.p.omit
InDomain(types) ==
  \A i \in 1..Len(types) : Omittable(types[i]) =>
     \A j \in (i + 1)..Len(types) :
        (\A k \in (i + 1)..(j - 1) : Omittable(types[k])) => ~Clash(Ids(types[i]), Ids(types[j]))

Types  == [i \in 1..Len(fs) |-> fs[i][1]]
Values == [i \in 1..Len(fs) |-> fs[i][2]]
Schema == T("struct", P, Types)

\* compact printing (tuples)
PT(p) == <<p.opt, p.hasdef, p.def, p.explicit, p.tag, p.class, p.set, p.omit, p.st, p.tt>>
RECURSIVE TT(_)
TT(t) == <<t.k, PT(t.p),
           IF t.k = "struct" THEN [i \in 1..Len(t.sub) |-> TT(t.sub[i])]
           ELSE IF t.k \in SliceKinds THEN <<TT(t.sub[1])>> ELSE <<>>>>

\* all menu values of the current schema (for the injectivity lemma)
ValSets == [i \in 1..Len(fs) |-> (CHOOSE e \in Menu : e[1] = fs[i][1])[2]]
RECURSIVE Product(_)
Product(sets) == IF sets = <<>> THEN {<<>>}
                 ELSE {<<x>> \o r : x \in sets[1], r \in Product(Tail(sets))}
FirstValues == \A i \in 1..Len(fs) : fs[i][2] = (CHOOSE v \in ValSets[i] : TRUE)

Emit == (fs # <<>> /\ InDomain(Types)) =>
  /\ FirstValues => Assert(EncInjective(Schema, Product(ValSets)), <<"Enc not injective on the schema", Types>>)
  /\ PrintT([t |-> TT(Schema), v |-> Values, enc |-> Enc(Schema, Values)])
=============================================================================
