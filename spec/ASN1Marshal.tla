----------------------------- MODULE ASN1Marshal -----------------------------
(* C18 / C22: the Go-value algebra of encoding/asn1 and the bytes Marshal must
   produce for it (A layer; constants-only, over DER.tla).

   Types   T(k, p, sub)   k    kind: "int" "bigint" "enum" "bool" "flag" "str" "oid" "bits"
                               "time" "octets" "raw" "struct" "seqof" "setof"
                               ("setof" = a slice type whose name ends in SET)
                          p    field parameters (the `asn1:"..."` tag): opt, hasdef/def,
                               explicit, tag (-1 = none), class "ctx"/"app"/"priv", set,
                               omit (omitempty), st (string type), tt (time type)
                          sub  <<element type>> (seqof / setof), field types (struct), <<>>
   Values  int/bigint/enum <<sign, magnitude>>, bool/flag BOOLEAN, str/octets octets,
           oid arcs, bits <<octets, bit length>>, time <<Y, M, D, h, m, s, offset s>>,
           raw <<class, tag, constructed, octets>>, struct / seqof / setof sequences.

   Enc(t, v) is the encoding the package documents for value v of a field of type t;
   it is the oracle for Marshal's bytes.  The statement of C18 then fixes the rest:
   strict Unmarshal(Enc(t, v)) must consume everything and give v back (SET OF up to
   order), and marshalling that result must give Enc(t, v) again.  So the expected
   decoded value is v itself; what the specification has to guarantee is that the
   domain is one on which this is possible at all, i.e. that Enc is injective on the
   values of a schema (optional fields distinguishable): EncInjective, checked by
   TLC for every generated schema.                                              *)
EXTENDS DER

NoParams == [opt |-> FALSE, hasdef |-> FALSE, def |-> <<0, <<>>>>, explicit |-> FALSE, tag |-> -1,
             class |-> "ctx", set |-> FALSE, omit |-> FALSE, st |-> "", tt |-> ""]
T(k, p, sub) == [k |-> k, p |-> p, sub |-> sub]

IntKinds   == {"int", "bigint", "enum"}
SliceKinds == {"seqof", "setof"}

----------------------------------------------------------------------------
(* strings *)
IsPrintableChar(b) ==     \* isPrintable(b, rejectAsterisk, rejectAmpersand)
  \/ (b >= 97 /\ b <= 122) \/ (b >= 65 /\ b <= 90) \/ (b >= 48 /\ b <= 57)
  \/ (b >= 39 /\ b <= 41) \/ (b >= 43 /\ b <= 47)
  \/ b \in {32, 58, 61, 63}
AllPrintable(s) == \A i \in 1..Len(s) : s[i] < 128 /\ IsPrintableChar(s[i])
StrTag(p, s) == CASE p.st = "ia5" -> 22 [] p.st = "printable" -> 19 [] p.st = "numeric" -> 18
                  [] p.st = "utf8" -> 12
                  [] OTHER -> IF AllPrintable(s) THEN 19 ELSE 12

(* times.  A time value is <<Y, M, D, h, m, s, offset seconds>>: the fields in the time's own zone.
   Marshal writes those local fields (appendTimeCommon: t.Date(), t.Clock(), then Z or +-hhmm), and a
   UTCTime can only carry a year of 1950..2049 in its two digits, which the decoder reads back in that
   window.  Hence the rule the library implements and documents (outsideUTCRange: "year < 1950 ||
   year >= 2050" of t.Year()) is about the year in the time's OWN zone; it is the only rule under
   which tag and body agree and the instant survives the round trip (with the UTC year, 2050-01-01
   01:00 +0500 would be written as UTCTime "500101010000+0500" and read back as 1950).  Enc therefore
   takes t[1], the local year, for tag and body alike; no second reading is allowed. *)
InUTCRange(t) == t[1] >= 1950 /\ t[1] < 2050
TimeTag(p, t) == IF p.tt = "generalized" \/ ~InUTCRange(t) THEN 24 ELSE 23
UTCEnc(t) == LET g == GTEnc(t) IN DDrop(g, 2)      \* two-digit year, rest identical

\* the same instant with offset 0 ("times up to the second": equal instants)
ShiftDay(y, m, d, k) ==
  IF k = 0 THEN <<y, m, d>>
  ELSE IF k = 1 THEN (IF d < DaysIn(y, m) THEN <<y, m, d + 1>> ELSE IF m < 12 THEN <<y, m + 1, 1>> ELSE <<y + 1, 1, 1>>)
  ELSE (IF d > 1 THEN <<y, m, d - 1>> ELSE IF m > 1 THEN <<y, m - 1, DaysIn(y, m - 1)>> ELSE <<y - 1, 12, 31>>)
\* Both time types carry the zone as +-hhmm: the part of a zone offset below one minute cannot be
\* written (appendTimeCommon divides by 60, truncating towards zero; under a minute it writes Z), so
\* the instant that survives is the one of the local fields in the zone truncated to whole minutes.
\* For whole-minute zones (every zone a time read from DER can have) this is the time's own instant.
ZoneMin(off) == LET a == IF off < 0 THEN -off ELSE off IN (IF off < 0 THEN -1 ELSE 1) * ((a \div 60) * 60)
ToUTC(t) ==
  LET sod == (t[4] * 3600) + (t[5] * 60) + t[6] - ZoneMin(t[7])          \* -14 h .. +38 h
      k   == IF sod < 0 THEN -1 ELSE IF sod >= 86400 THEN 1 ELSE 0
      s2  == sod - (k * 86400)
      ymd == ShiftDay(t[1], t[2], t[3], k)
  IN <<ymd[1], ymd[2], ymd[3], s2 \div 3600, (s2 % 3600) \div 60, s2 % 60, 0>>

----------------------------------------------------------------------------
(* zero values (what `optional` without a default omits) *)
RECURSIVE IsZero(_, _)
IsZero(t, v) ==
  CASE t.k \in {"int", "enum"} -> v[1] = 0
    [] t.k = "bigint" -> FALSE          \* the zero *big.Int is nil; values are never nil
    [] t.k \in {"bool", "flag"} -> v = FALSE
    [] t.k \in {"str", "octets", "oid"} -> v = <<>>
    [] t.k = "bits" -> v[1] = <<>> /\ v[2] = 0
    [] t.k = "raw" -> v[1] = 0 /\ v[2] = 0 /\ ~v[3] /\ v[4] = <<>>
    [] t.k \in SliceKinds -> v = <<>>
    [] t.k = "struct" -> \A i \in 1..Len(v) : IsZero(t.sub[i], v[i])
    [] t.k = "time" -> FALSE            \* the zero time.Time is not in the value menus

UniversalTag(t, v) ==
  CASE t.k = "bool" -> 1 [] t.k = "flag" -> 1 [] t.k \in {"int", "bigint"} -> 2 [] t.k = "bits" -> 3
    [] t.k = "octets" -> 4 [] t.k = "oid" -> 6 [] t.k = "enum" -> 10
    [] t.k = "str" -> StrTag(t.p, v) [] t.k = "time" -> TimeTag(t.p, v)
    [] t.k = "setof" -> 17
    [] t.k \in {"struct", "seqof"} -> IF t.p.set THEN 17 ELSE 16
Compound(t) == t.k \in {"struct", "seqof", "setof"}
ClassNo(p) == CASE p.class = "app" -> 1 [] p.class = "priv" -> 3 [] OTHER -> 2

(* bytewise order of two encodings (bytes.Compare) *)
RECURSIVE BytesLess(_, _)
BytesLess(a, b) == IF a = <<>> THEN b # <<>>
                   ELSE IF b = <<>> THEN FALSE
                   ELSE IF a[1] # b[1] THEN a[1] < b[1]
                   ELSE BytesLess(Tail(a), Tail(b))
\* insertion sort of a sequence of encodings
RECURSIVE InsertEnc(_, _)
InsertEnc(x, s) == IF s = <<>> THEN <<x>>
                   ELSE IF BytesLess(s[1], x) THEN <<s[1]>> \o InsertEnc(x, Tail(s))
                   ELSE <<x>> \o s
RECURSIVE SortEncs(_)
SortEncs(s) == IF s = <<>> THEN <<>> ELSE InsertEnc(s[1], SortEncs(Tail(s)))
RECURSIVE Concat(_)
Concat(s) == IF s = <<>> THEN <<>> ELSE s[1] \o Concat(Tail(s))

RECURSIVE EncField(_, _), EncBody(_, _)
EncBody(t, v) ==
  CASE t.k \in IntKinds -> IntEnc(v[1], v[2])
    [] t.k = "bool"   -> IF v THEN <<255>> ELSE <<0>>
    [] t.k = "flag"   -> <<>>
    [] t.k \in {"str", "octets"} -> v
    [] t.k = "oid"    -> OidEnc(v)
    [] t.k = "bits"   -> BitsEnc(v[1], v[2])
    [] t.k = "time"   -> IF TimeTag(t.p, v) = 24 THEN GTEnc(v) ELSE UTCEnc(v)
    [] t.k = "struct" -> Concat([i \in 1..Len(v) |-> EncField(t.sub[i], v[i])])
    [] t.k \in SliceKinds ->
         \* elements are marshalled without field parameters
         LET es == [i \in 1..Len(v) |-> EncField([t.sub[1] EXCEPT !.p = NoParams], v[i])] IN
         IF t.k = "setof" \/ t.p.set THEN Concat(SortEncs(es)) ELSE Concat(es)

EncField(t, v) ==
  LET p == t.p IN
  IF t.k \in SliceKinds /\ v = <<>> /\ p.omit THEN <<>>
  ELSE IF p.opt /\ p.hasdef /\ t.k \in {"int", "enum"} /\ v = p.def THEN <<>>
  ELSE IF p.opt /\ ~p.hasdef /\ IsZero(t, v) THEN <<>>
  ELSE IF t.k = "raw" THEN EncHdr(v[1], v[3], v[2], Len(v[4])) \o v[4]
  ELSE LET body == EncBody(t, v)
           utag == UniversalTag(t, v)
       IN IF p.tag < 0 THEN EncHdr(0, Compound(t), utag, Len(body)) \o body
          ELSE IF p.explicit
            THEN LET inner == EncHdr(0, Compound(t), utag, Len(body)) \o body IN
                 EncHdr(ClassNo(p), TRUE, p.tag, Len(inner)) \o inner
          ELSE EncHdr(ClassNo(p), Compound(t), p.tag, Len(body)) \o body

\* Marshal(v) of a top-level struct value
Enc(t, v) == EncField(t, v)

(* Enc is injective on a set of values of one schema: the documented domain
   ("optional fields distinguishable").  SET OF values are equal up to order. *)
RECURSIVE SameValue(_, _, _), SameBagV(_, _, _)
DropAt(s, k) == SubSeq(s, 1, k - 1) \o SubSeq(s, k + 1, Len(s))
\* the same members up to order (members compared with SameValue)
SameBagV(t, a, b) ==
  IF a = <<>> THEN b = <<>>
  ELSE \E k \in 1..Len(b) : SameValue(t, a[1], b[k]) /\ SameBagV(t, Tail(a), DropAt(b, k))
SameValue(t, a, b) ==
  CASE t.k = "struct" -> \A i \in 1..Len(a) : SameValue(t.sub[i], a[i], b[i])
    [] t.k = "setof" \/ (t.k = "seqof" /\ t.p.set) ->
         Len(a) = Len(b) /\ SameBagV([t.sub[1] EXCEPT !.p = NoParams], a, b)
    [] t.k = "time" -> ToUTC(a) = ToUTC(b)
    [] t.k = "seqof" -> Len(a) = Len(b) /\ \A i \in 1..Len(a) : SameValue([t.sub[1] EXCEPT !.p = NoParams], a[i], b[i])
    [] OTHER -> a = b
EncInjective(t, vals) ==
  \A a \in vals, b \in vals : Enc(t, a) = Enc(t, b) => SameValue(t, a, b)
=============================================================================
