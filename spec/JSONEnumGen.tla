---------------------------- MODULE JSONEnumGen ----------------------------
(* C33 case generator (U2): presence patterns of the structured types and document edits,
   enumerated from the member tables of JSONEnum.tla and exported as NDJSON.            *)
EXTENDS JSONEnum, Json, SequencesExt

CONSTANTS PatBound,   \* types with > 8 members: bound on members away from the populated / empty end
          MidBound,   \* the same for types with exactly 8 members (99 = full product of all states)
          DocBound    \* bound on edited members per document (documents with > 5 members)

BoundOf(t) == IF Len(Members(t)) > 8 THEN PatBound ELSE IF Len(Members(t)) = 8 THEN MidBound ELSE 99

PatCases(t) == {[type |-> t, pat |-> p] : p \in {q \in Patterns(t, BoundOf(t)) : Feasible(t, q)}}
DocCases(t) == {[type |-> t, edit |-> e] :
                  e \in DocEdits(t, IF Cardinality(DocKeys(t)) > 5 THEN DocBound ELSE 7)}

Number(s) == [i \in 1..Len(s) |-> s[i] @@ ("id" :> i)]

AllPat == UNION {PatCases(t) : t \in StructTypes}
AllDoc == UNION {DocCases(t) : t \in DocTypes}

ASSUME ndJsonSerialize("jsonenum_patterns.ndjson", Number(SetToSeq(AllPat)))
ASSUME ndJsonSerialize("jsonenum_docs.ndjson", Number(SetToSeq(AllDoc)))
ASSUME PrintT(<<"GENERATED", Cardinality(AllPat), Cardinality(AllDoc)>>)
=============================================================================
