---------------------------- MODULE RSAIdealGen ----------------------------
(* C23 run generator (U2).  An abstract run is

       produce (by Z or S)  ;  [mutate]  ;  consume by Z  ;  consume by S

   over one key class: every producer variant x every mutation x every consumer variant
   that applies to the produced object, each step annotated with the set of outcomes the
   ideal functionality of RSAIdeal.tla allows.  Both consumers see the same object, so the
   four combinations "Z/S produced, Z/S consumed" are all exercised, and where the
   prediction is a set the second consumer must agree with the first (field agree).
   For key classes whose public exponent exceeds crypto/rsa's documented limit the runs
   are Z-only.  A second action class applies the public-key operations to malformed
   public keys.  TLC enumerates the runs as behaviours (one run = one behaviour). *)
EXTENDS RSAIdeal, Json, SequencesExt

CONSTANTS Sizes,      \* modulus sizes in bits
          PrimeCounts,
          Pres,       \* subset of {"pre", "nopre"}: Precompute() called / precomputed values stripped
          ExpSel,     \* subset of Exps
          GenHashes,  \* hash functions used for OAEP / PSS / PKCS#1 v1.5 signatures
          Cover       \* "full": every key class; "oa": an orthogonal selection (every pair of
                      \* (size, primes), (size, exponent), (primes, exponent) occurs)

VARIABLES kc, obj, steps, phase
vars == <<kc, obj, steps, phase>>

EnumOf(S) == SetToSeq(S)     \* a fixed enumeration of S
IndexIn(s, x) == CHOOSE i \in 1..Len(s) : s[i] = x
SizeSeq == EnumOf(Sizes)  PrimeSeq == EnumOf(PrimeCounts)  PreSeq == EnumOf(Pres)  ExpSeq == EnumOf(ExpSel)

Classes == [bits : Sizes, primes : PrimeCounts, pre : Pres, exp : ExpSel]
Selected(c) ==
  \/ Cover = "full"
  \/ LET i == IndexIn(SizeSeq, c.bits) j == IndexIn(PrimeSeq, c.primes)
         p == IndexIn(PreSeq, c.pre)   e == IndexIn(ExpSeq, c.exp) IN
     /\ e = ((i + j) % Len(ExpSeq)) + 1
     /\ p = ((i + 2 * j) % Len(PreSeq)) + 1

NoObj == [scheme |-> "none", hash |-> "", hlen |-> 0, label |-> "", mlen |-> 0, slen |-> 0, mut |-> "none"]

Step(op, impl) == [op |-> op, impl |-> impl, hash |-> "", dlen |-> 0, mlen |-> 0, label |-> "", smode |-> "", sn |-> 0,
                   mut |-> "", key |-> "same", digest |-> "same", keylen |-> 0, bad |-> "", forge |-> "",
                   exp |-> <<>>, agree |-> FALSE]
SetSeq(S) == EnumOf(S)

Impls == IF SApplicable(kc.exp) THEN {"Z", "S"} ELSE {"Z"}
OtherHash(h) == CHOOSE g \in GenHashes : g # h

ProdResult(ok) == IF ok THEN <<"ok">> ELSE <<"error">>

(* ---- producers ---- *)
MsgLen(class, max) == CASE class = "empty" -> 0
                        [] class = "short" -> IF max < 5 THEN (IF max < 0 THEN 0 ELSE max) ELSE 5
                        [] class = "max" -> IF max < 0 THEN 0 ELSE max
                        [] class = "over" -> IF max < 0 THEN 1 ELSE max + 1

ProduceEncPKCS1 ==
  \E impl \in Impls, mc \in {"empty", "short", "max", "over"} :
    LET ml == MsgLen(mc, K(kc.bits) - 11)  ok == EncPKCS1OK(kc.bits, ml) IN
    /\ obj' = [NoObj EXCEPT !.scheme = IF ok THEN "pkcs1enc" ELSE "none", !.mlen = ml]
    /\ steps' = Append(steps, [Step("EncPKCS1", impl) EXCEPT !.mlen = ml, !.exp = ProdResult(ok)])
    /\ phase' = IF ok THEN "mutate" ELSE "done"

ProduceEncOAEP ==
  \E impl \in Impls, h \in GenHashes, lab \in {"", "L1"}, mc \in {"short", "max", "over"} :
    LET ml == MsgLen(mc, K(kc.bits) - 2 * HLen(h) - 2)  ok == EncOAEPOK(kc.bits, HLen(h), ml) IN
    /\ obj' = [NoObj EXCEPT !.scheme = IF ok THEN "oaep" ELSE "none", !.mlen = ml, !.hash = h, !.hlen = HLen(h), !.label = lab]
    /\ steps' = Append(steps, [Step("EncOAEP", impl) EXCEPT !.mlen = ml, !.hash = h, !.label = lab, !.exp = ProdResult(ok)])
    /\ phase' = IF ok THEN "mutate" ELSE "done"

ProduceSignPKCS1 ==
  \E impl \in Impls, h \in GenHashes \cup {"raw", "md5sha1"} :
    LET dl == IF h = "raw" THEN 24 ELSE HLen(h)  ok == SignPKCS1OK(kc.bits, h, dl) IN
    /\ obj' = [NoObj EXCEPT !.scheme = IF ok THEN "pkcs1sig" ELSE "none", !.hash = h, !.hlen = dl]
    /\ steps' = Append(steps, [Step("SignPKCS1", impl) EXCEPT !.hash = h, !.dlen = dl, !.exp = ProdResult(ok)])
    /\ phase' = IF ok THEN "mutate" ELSE "done"

ProduceSignPSS ==
  \E impl \in Impls, h \in GenHashes, sm \in {"auto", "eqhash", "n"} :
    LET n == IF sm = "n" THEN 7 ELSE 0
        ok == SignPSSOK(kc.bits, HLen(h), sm, n)
        sl == SaltLen(kc.bits, HLen(h), sm, n) IN
    /\ obj' = [NoObj EXCEPT !.scheme = IF ok THEN "pss" ELSE "none", !.hash = h, !.hlen = HLen(h), !.slen = IF ok THEN sl ELSE 0]
    /\ steps' = Append(steps, [Step("SignPSS", impl) EXCEPT !.hash = h, !.dlen = HLen(h), !.smode = sm, !.sn = n, !.exp = ProdResult(ok)])
    /\ phase' = IF ok THEN "mutate" ELSE "done"

(* forged objects (only where S can take part: the genuine encoding a forged signature starts
   from is taken from the standard library) *)
ProduceForgeEnc ==
  \E f \in ForgedEnc :
    /\ SApplicable(kc.exp)
    /\ f = "b0" => kc.bits % 8 # 1       \* 01 02 .. would not be below a modulus 01 xx ..
    /\ obj' = [NoObj EXCEPT !.scheme = "forgedenc", !.mlen = 16]
    /\ steps' = Append(steps, [Step("ForgeEnc", "-") EXCEPT !.forge = f, !.mlen = 16, !.exp = <<"ok">>])
    /\ phase' = "consume"

ProduceForgeSig ==
  \E f \in ForgedSig, h \in GenHashes :
    /\ SApplicable(kc.exp)
    /\ SignPKCS1OK(kc.bits, h, HLen(h))
    /\ K(kc.bits) >= PrefixLen(h) + HLen(h) + 11 + 4       \* room for the "trail" garbage
    /\ obj' = [NoObj EXCEPT !.scheme = "forgedsig", !.hash = h, !.hlen = HLen(h)]
    /\ steps' = Append(steps, [Step("ForgeSig", "-") EXCEPT !.forge = f, !.hash = h, !.dlen = HLen(h), !.exp = <<"ok">>])
    /\ phase' = "consume"

ProduceForgePSS ==
  \E f \in ForgedPSS, h \in GenHashes, sm \in {"eqhash", "n"} :
    LET n == IF sm = "n" THEN 7 ELSE 0
        sl == SaltLen(kc.bits, HLen(h), sm, n) IN
    /\ SApplicable(kc.exp)
    /\ SignPSSOK(kc.bits, HLen(h), sm, n)
    /\ PSSPadLen(kc.bits, HLen(h), sl) >= 2
    /\ obj' = [NoObj EXCEPT !.scheme = "forgedpss", !.hash = h, !.hlen = HLen(h), !.slen = sl]
    /\ steps' = Append(steps, [Step("ForgePSS", "-") EXCEPT !.forge = f, !.hash = h, !.dlen = HLen(h), !.smode = sm, !.sn = n,
                                                           !.exp = <<"ok">>])
    /\ phase' = "consume"

ProduceForgeOAEP ==
  \E f \in ForgedOAEP \cup {"genuine"}, h \in GenHashes, lab \in {"", "L1"} :
    /\ EncOAEPOK(kc.bits, HLen(h), 5)
    /\ OAEPPadLen(kc.bits, HLen(h), 5) >= 1
    /\ obj' = [NoObj EXCEPT !.scheme = IF f = "genuine" THEN "oaep" ELSE "forgedoaep", !.mlen = 5, !.hash = h,
                            !.hlen = HLen(h), !.label = lab]
    /\ steps' = Append(steps, [Step("ForgeOAEP", "-") EXCEPT !.forge = f, !.hash = h, !.label = lab, !.mlen = 5, !.exp = <<"ok">>])
    /\ phase' = "consume"

Produce == /\ phase = "produce" /\ UNCHANGED kc
           /\ (ProduceEncPKCS1 \/ ProduceEncOAEP \/ ProduceSignPKCS1 \/ ProduceSignPSS \/ ProduceForgeEnc \/ ProduceForgeSig
                 \/ ProduceForgePSS \/ ProduceForgeOAEP)

(* ---- mutation of the stored ciphertext / signature ---- *)
Mutate == /\ phase = "mutate" /\ UNCHANGED kc
          /\ \E m \in Muts :
               /\ obj' = [obj EXCEPT !.mut = m]
               /\ steps' = IF m = "none" THEN steps ELSE Append(steps, [Step("Mutate", "-") EXCEPT !.mut = m])
               /\ phase' = "consume"

(* ---- consumers: by Z, then (if the class admits S) by S on the same object ---- *)
Twin(s, set) ==
  LET e == SetSeq(set) IN
  IF SApplicable(kc.exp)
  THEN <<[s EXCEPT !.impl = "Z", !.exp = e], [s EXCEPT !.impl = "S", !.exp = e, !.agree = MustAgree(obj.mut)]>>
  ELSE <<[s EXCEPT !.impl = "Z", !.exp = e]>>

ConsumeDecPKCS1 ==
  \E key \in (IF obj.scheme = "pkcs1enc" THEN {"same", "other"} ELSE {"same"}) :
    /\ obj.scheme \in {"pkcs1enc", "oaep", "forgedenc"}
    /\ steps' = steps \o Twin([Step("DecPKCS1", "Z") EXCEPT !.key = key], DecPKCS1(obj.scheme, obj.mut, key = "same"))

ConsumeDecSessionKey ==
  \E kl \in {"match", "other"} :
    LET keylen == IF kl = "match" THEN obj.mlen ELSE obj.mlen + 1 IN
    /\ obj.scheme \in {"pkcs1enc", "forgedenc"}
    /\ keylen > 0                  \* an empty key buffer cannot show whether it was overwritten
    /\ steps' = steps \o Twin([Step("DecSessionKey", "Z") EXCEPT !.keylen = keylen],
                              DecSessionKey(kc.bits, obj.scheme, obj.mut, TRUE, obj.mlen, keylen))

ConsumeDecOAEP ==
  \E hs \in {"same", "other"}, ls \in {"same", "other"} :
    LET h == IF obj.scheme \in {"oaep", "forgedoaep"} THEN (IF hs = "same" THEN obj.hash ELSE OtherHash(obj.hash)) ELSE SetSeq(GenHashes)[1]
        lab == IF ls = "same" THEN obj.label ELSE "L2" IN
    /\ obj.scheme \in {"oaep", "pkcs1enc", "forgedoaep"}
    /\ obj.scheme \in {"pkcs1enc", "forgedoaep"} => (hs = "same" /\ ls = "same")     \* one variant
    /\ steps' = steps \o Twin([Step("DecOAEP", "Z") EXCEPT !.hash = h, !.label = lab],
                              DecOAEP(kc.bits, obj.scheme, obj.mut, TRUE, h = obj.hash, lab = obj.label, HLen(h)))

(* verification variants: the accepting baseline and one deviation at a time *)
ConsumeVerPKCS1 ==
  \E dev \in {"none", "hash", "digest", "key"} :
    LET cross == obj.scheme = "pss"
        h == IF dev = "hash" THEN OtherHash(obj.hash) ELSE obj.hash
        samehash == dev # "hash" IN
    /\ obj.scheme \in {"pkcs1sig", "pss", "forgedsig"}
    /\ (cross \/ obj.scheme = "forgedsig") => dev = "none"
    /\ (dev = "hash" => obj.hash \in GenHashes)
    /\ steps' = steps \o Twin([Step("VerPKCS1", "Z") EXCEPT !.hash = h, !.dlen = IF h = "raw" THEN 24 ELSE HLen(h),
                                                          !.digest = IF dev = "digest" THEN "other" ELSE "same",
                                                          !.key = IF dev = "key" THEN "other" ELSE "same"],
                              VerPKCS1(obj.scheme, obj.mut, dev # "key", samehash, dev # "digest"))

ConsumeVerPSS ==
  \E dev \in {"none", "hash", "digest", "key", "eqhash", "exact", "wrong"} :
    LET cross == obj.scheme = "pkcs1sig"
        h == IF cross THEN SetSeq(GenHashes)[1] ELSE IF dev = "hash" THEN OtherHash(obj.hash) ELSE obj.hash
        vmode == CASE dev = "eqhash" -> "eqhash" [] dev \in {"exact", "wrong"} -> "n" [] OTHER -> "auto"
        vn == CASE dev = "exact" -> obj.slen [] dev = "wrong" -> obj.slen + 1 [] OTHER -> 0 IN
    /\ obj.scheme \in {"pss", "pkcs1sig", "forgedpss"}
    /\ cross => dev = "none"
    /\ obj.scheme = "forgedpss" => dev \in {"none", "exact", "eqhash"}
    /\ dev = "exact" => obj.slen > 0          \* SaltLength 0 is the "auto" constant
    /\ steps' = steps \o Twin([Step("VerPSS", "Z") EXCEPT !.hash = h, !.dlen = HLen(h), !.smode = vmode, !.sn = vn,
                                                        !.digest = IF dev = "digest" THEN "other" ELSE "same",
                                                        !.key = IF dev = "key" THEN "other" ELSE "same"],
                              VerPSS(obj.scheme, obj.mut, dev # "key", h = obj.hash, dev # "digest", vmode, vn, obj.slen, HLen(h)))

Consume == /\ phase = "consume" /\ UNCHANGED <<kc, obj>> /\ phase' = "done"
           /\ (ConsumeDecPKCS1 \/ ConsumeDecSessionKey \/ ConsumeDecOAEP \/ ConsumeVerPKCS1 \/ ConsumeVerPSS)

(* ---- malformed public keys (Z only; crypto/rsa's key type cannot even hold most of them) ---- *)
BadKey == /\ phase = "produce" /\ kc = CHOOSE c \in {d \in Classes : Selected(d)} : TRUE
          /\ UNCHANGED <<kc, obj>> /\ phase' = "done"
          /\ \E op \in PubOps, bad \in BadKeys :
               steps' = Append(steps, [Step(op, "Z") EXCEPT !.bad = bad, !.hash = SetSeq(GenHashes)[1],
                                                          !.dlen = HLen(SetSeq(GenHashes)[1]), !.mlen = 5,
                                                          !.exp = SetSeq(Malformed(bad))])

Init == /\ kc \in {c \in Classes : Selected(c)} /\ obj = NoObj /\ steps = <<>> /\ phase = "produce"
Next == Produce \/ Mutate \/ Consume \/ BadKey
Spec == Init /\ [][Next]_vars

(* The predictions never depend on the implementation label: both consumers of a run carry
   the same allowed set (checked on every generated run). *)
ImplIndependent ==
  \A i, j \in 1..Len(steps) :
     (steps[i].op = steps[j].op /\ steps[i].impl # steps[j].impl /\ steps[i].op \notin {"Mutate"} /\ i > 1 /\ j > 1)
        => steps[i].exp = steps[j].exp
Emit == phase = "done" => PrintT(ToJson([kc |-> kc, steps |-> steps]))
=============================================================================
