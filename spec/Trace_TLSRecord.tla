--------------------------- MODULE Trace_TLSRecord ---------------------------
(* C25, U3: executions recorded from two real zcrypto endpoints (random write sizes with the
   real fragmentation - dynamic record sizing, 1/n-1 splitting -, random multi-fault schedules,
   random TCP segmentation and read sizes) are accepted iff they are behaviours of the channel
   of TLSRecord.tla.  Many traces per file, separated by "reset".

   events
     {"ev":"reset"}
     {"ev":"write","n":N,"recs":[[lo,hi],...]}  one Write(N) and the records it put on the wire;
                                                [lo,hi] = the plaintext lengths compatible with the
                                                ciphertext length (exact except for CBC padding)
     {"ev":"close"}                             the sender closed: one alert record
     {"ev":"fault","kind":k,"i":i,"j":j}        the network changed the records in flight
     {"ev":"end","total":T,"match":b,"end":e}   the receiver read T bytes in all, b = they equal the
                                                first T bytes written, then Read ended with e
                                                ("eof" | "error")                          *)
EXTENDS TLSRecord, TLC, Json

Trace == ndJsonDeserialize("rec_trace.ndjson")

VARIABLES l, ns, rs, wire
tvars == <<l, ns, rs, wire>>
(* ns: sizes of the writes; rs: the sender's application records [w, lo, hi]; wire: in flight *)

TraceInit == l = 1 /\ ns = <<>> /\ rs = <<>> /\ wire = <<>> /\ TLCSet(1, 1)

Max2(a, b) == IF a > b THEN a ELSE b
RECURSIVE SumLo(_), SumHi(_)
SumLo(x) == IF Len(x) = 0 THEN 0 ELSE Max2(Head(x)[1], 1) + SumLo(Tail(x))
SumHi(x) == IF Len(x) = 0 THEN 0 ELSE Min2(Head(x)[2], MaxPlain) + SumHi(Tail(x))
(* a Write(n) may be cut into records in ANY way, but every record carries 1..MaxPlain bytes
   and together they carry exactly the n bytes                                           *)
WriteOK(e) ==
  /\ Len(e.recs) >= 1
  /\ \A i \in 1..Len(e.recs) : e.recs[i][2] >= 1 /\ e.recs[i][1] <= MaxPlain
  /\ SumLo(e.recs) <= e.n /\ e.n <= SumHi(e.recs)

(* most bytes the first k application records can carry: whole writes count exactly *)
RECURSIVE SumHiOf(_)
SumHiOf(T) == IF T = {} THEN 0 ELSE LET i == CHOOSE x \in T : TRUE IN Min2(rs[i].hi, MaxPlain) + SumHiOf(T \ {i})
RECURSIVE HiBytes(_, _)
HiBytes(k, w) ==
  IF w > Len(ns) THEN 0
  ELSE LET idx == {i \in 1..Len(rs) : rs[i].w = w}
           inside == {i \in idx : i <= k}
       IN (IF inside = idx THEN ns[w]
           ELSE SumHiOf(inside))
          + HiBytes(k, w + 1)
RECURSIVE SumNs(_)
SumNs(x) == IF Len(x) = 0 THEN 0 ELSE Head(x) + SumNs(Tail(x))

EndOK(e) ==
  LET o == Outcome(wire)
      apps == IF o.accepted > Len(rs) THEN Len(rs) ELSE o.accepted     \* accepted application records
  IN /\ e.match
     /\ e.end \in o.ends
     /\ e.total <= HiBytes(apps, 1)
     /\ (o.ends = {"eof"} /\ e.end = "eof") => e.total = SumNs(ns)
     \* every application record is still in its place, untouched: everything written must arrive
     /\ (Len(wire) >= Len(rs) /\ \A i \in 1..Len(rs) : wire[i].auth /\ wire[i].seq = i) => e.total = SumNs(ns)

TraceNext ==
  /\ l <= Len(Trace)
  /\ l' = l + 1
  /\ LET e == Trace[l] IN
     CASE e.ev = "reset" -> ns' = <<>> /\ rs' = <<>> /\ wire' = <<>>
       [] e.ev = "write" ->
            /\ WriteOK(e)
            /\ ns' = Append(ns, e.n)
            /\ rs' = rs \o [i \in 1..Len(e.recs) |-> [w |-> Len(ns) + 1, lo |-> e.recs[i][1], hi |-> e.recs[i][2]]]
            /\ wire' = wire \o [i \in 1..Len(e.recs) |-> Rec(Len(rs) + i, 0, FALSE)]
       [] e.ev = "close" -> wire' = Append(wire, Rec(Len(rs) + 1, 0, TRUE)) /\ UNCHANGED <<ns, rs>>
       [] e.ev = "fault" -> LET f == Fault(e.kind, e.i, e.j) IN
            /\ Applicable(wire, f) /\ wire' = ApplyFault(wire, f) /\ UNCHANGED <<ns, rs>>
       [] e.ev = "end" -> EndOK(e) /\ UNCHANGED <<ns, rs, wire>>

TraceSpec == TraceInit /\ [][TraceNext]_tvars
HWM == TLCSet(1, IF l > TLCGet(1) THEN l ELSE TLCGet(1))
Accepted == \/ TLCGet(1) = Len(Trace) + 1
            \/ PrintT(<<"HWM", TLCGet(1)>>) /\ FALSE
=============================================================================
