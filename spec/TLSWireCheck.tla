---------------------------- MODULE TLSWireCheck ----------------------------
(* C30: value generator and the checks TLC performs on the specification itself.

   For every message type a base value (everything optional absent, every vector at its
   minimum) and a list of VARIANTS (partial values: one field, or a flag together with the
   fields it governs, set to another class: empty / one / several / maximal, integers at
   0 / 1 / all-ones / high bit).  Generated values:
       the base, the base with one variant, the base with two variants of different fields
       (for the types in PairTypes; big variants only alone), and for ClientHello / ServerHello a second
       base with every extension present.
   A candidate is kept iff Fits (every vector within the bounds its length prefix and the
   RFC minimum allow, the message within 2^24) and Valid (TLSWire.tla).

   Checked here by TLC:
     RoundTrip   Parse(t, Layout(t, v)) = v          for every kept value of every type
     Truncation  which types have an optional tail (only the hellos: an extension block that may be
                 omitted), that for every other type no strict prefix of a valid encoding parses, and
                 that the hellos' tail really is optional
   Exported (wire_cases_<type>.ndjson): [t, v, bytes, pf] for the harness.               *)
EXTENDS TLSWire, Json, SequencesExt

CONSTANTS TypesToDo,     \* subset of Types handled by this TLC process
          PairTypes,     \* the types for which pairs of variants are generated too
          OutPrefix      \* file name prefix

F(n, tag) == [i \in 1..n |-> 65 + ((tag + i) % 26)]
FF(n) == [i \in 1..n |-> 255]

----------------------------------------------------------------------------
(* Fits: structural representability, mirrors LG *)
FitCert(c) ==
  /\ \A i \in 1..Len(c.certs) : Len(c.certs[i]) >= 1 /\ Len(c.certs[i]) < 16777216
  /\ Len(c.ocsp) < 16777216
  /\ \A j \in 1..Len(c.scts) : Len(c.scts[j]) >= 1 /\ Len(c.scts[j]) < 65536
  /\ Len(LeafExts(c)) < 65536
  /\ Len(LCert13(c)) - 3 < 16777216

RECURSIVE FitG(_, _), FitSeq(_, _)
FitSeq(gs, v) == \A i \in 1..Len(gs) : FitG(gs[i], v)
FitG(g, v) ==
  CASE g.k = "u" -> Len(v[g.f]) = g.n
    [] g.k = "vec" -> Len(v[g.f]) >= g.m /\ Len(v[g.f]) < Pow256(g.n)
    [] g.k = "wrap" -> FitSeq(g.sub, v) /\ Len(LSeq(g.sub, v)) < Pow256(g.n)
    [] g.k = "manyv" -> Len(v[g.f]) >= g.m /\ \A i \in 1..Len(v[g.f]) : FitG(g.sub[1], [it |-> v[g.f][i]])
    [] g.k = "manyr" -> Len(v[g.f]) >= g.m /\ \A i \in 1..Len(v[g.f]) : FitSeq(g.sub, v[g.f][i])
    [] g.k = "rec" -> FitSeq(g.sub, v[g.f])
    [] g.k = "certlist13" -> FitCert(v[g.f])
    [] g.k = "exts" ->
         /\ \A i \in 1..Len(g.tab) : PresentE(g.tab[i], v) =>
               FitSeq(g.tab[i].g, v) /\ Len(LSeq(g.tab[i].g, v)) < 65536
         /\ g.f # "" => \A i \in 1..Len(v[g.f]) :
               LET x == v[g.f][i] IN
               /\ Len(x) >= 4 /\ Num(SubSeq(x, 3, 4)) = Len(x) - 4
               /\ \A j \in 1..Len(g.tab) : g.tab[j].typ # Num(SubSeq(x, 1, 2))
         /\ Len(LTab(g.tab, v)) + (IF g.f = "" THEN 0 ELSE Len(Flat(v[g.f]))) < 65536
    [] OTHER -> TRUE

Fits(t, v) == FitSeq(Grammar(t), v) /\ (Hdr(t) # -1 => Len(Body(t, v)) < 16777216)

----------------------------------------------------------------------------
(* bases and variants *)
V(d)  == [big |-> FALSE, d |-> d]
VB(d) == [big |-> TRUE, d |-> d]
KS(g, n, tag) == [group |-> g, data |-> F(n, tag)]
PSK(n, tag, age) == [label |-> F(n, tag), obfuscatedTicketAge |-> age]
Cert(cs, o, s) == [certs |-> cs, ocsp |-> o, scts |-> s]
U32s == << <<0, 0, 0, 1>>, <<255, 255, 255, 255>>, <<128, 0, 0, 0>> >>
U64s == << <<0, 0, 0, 0, 0, 0, 0, 1>>, <<255, 255, 255, 255, 255, 255, 255, 255>>, <<128, 0, 0, 0, 0, 0, 0, 0>>, <<0, 0, 0, 0, 94, 11, 225, 0>> >>
Many16(n, tag) == [i \in 1..n |-> <<((tag + i) % 200) + 1, (i * 7) % 250>>]

Base(t) ==
  (CASE t = "clientHelloMsg" -> [vers |-> <<3, 3>>, random |-> F(32, 1), cipherSuites |-> <<<<192, 47>>>>, compressionMethods |-> <<0>>]
     [] t = "serverHelloMsg" -> [vers |-> <<3, 3>>, random |-> F(32, 2), cipherSuite |-> <<192, 47>>]
     [] t = "newSessionTicketMsgTLS13" -> [label |-> F(1, 3)]
     [] t \in {"certificateRequestMsg_12"} -> [certificateTypes |-> <<1>>, supportedSignatureAlgorithms |-> <<<<4, 1>>>>]
     [] t \in {"certificateRequestMsg_10"} -> [certificateTypes |-> <<1>>]
     [] t = "certificateStatusMsg" -> [response |-> F(1, 4)]
     [] t = "sessionState" -> [vers |-> <<3, 3>>, masterSecret |-> F(48, 5)]
     [] t = "sessionStateTLS13" -> [resumptionSecret |-> F(32, 6)]
     [] OTHER -> NoV) @@ DefSeq(Grammar(t))

CHVariants == <<
  V([vers |-> <<3, 1>>]), V([vers |-> <<255, 255>>]), V([random |-> FF(32)]), V([random |-> Zeros(32)]),
  V([sessionId |-> F(1, 7)]), V([sessionId |-> F(32, 8)]), V([sessionId |-> F(255, 9)]),
  V([cipherSuites |-> Many16(2, 1)]), V([cipherSuites |-> Many16(300, 2)]), VB([cipherSuites |-> Many16(32767, 3)]),
  V([cipherSuites |-> <<<<192, 47>>, <<0, 255>>>>, secureRenegotiationSupported |-> TRUE]),
  V([compressionMethods |-> <<0, 1>>]), V([compressionMethods |-> F(255, 10)]),
  V([serverName |-> F(1, 11)]), V([serverName |-> F(11, 12)]), V([serverName |-> F(255, 13)]),
  VB([serverName |-> F(65526, 14)]), VB([serverName |-> F(65527, 14)]),
  V([ocspStapling |-> TRUE]),
  V([supportedCurves |-> <<<<0, 29>>>>]), V([supportedCurves |-> <<<<0, 29>>, <<0, 23>>, <<17, 236>>>>]),
  V([supportedPoints |-> <<0>>]), V([supportedPoints |-> F(255, 15)]),
  V([ticketSupported |-> TRUE]), V([ticketSupported |-> TRUE, sessionTicket |-> F(1, 16)]),
  V([ticketSupported |-> TRUE, sessionTicket |-> F(300, 17)]), VB([ticketSupported |-> TRUE, sessionTicket |-> F(65531, 18)]),
  V([supportedSignatureAlgorithms |-> <<<<4, 3>>>>]), V([supportedSignatureAlgorithms |-> Many16(5, 4)]),
  V([supportedSignatureAlgorithmsCert |-> <<<<8, 4>>>>]), V([supportedSignatureAlgorithmsCert |-> Many16(3, 5)]),
  V([secureRenegotiationSupported |-> TRUE]), V([secureRenegotiationSupported |-> TRUE, secureRenegotiation |-> F(12, 19)]),
  V([secureRenegotiationSupported |-> TRUE, secureRenegotiation |-> F(255, 20)]),
  V([alpnProtocols |-> <<F(1, 21)>>]), V([alpnProtocols |-> <<F(2, 22), F(255, 23)>>]), V([alpnProtocols |-> <<F(8, 24), F(2, 25), F(3, 26)>>]),
  V([extendedRandomEnabled |-> TRUE]), V([extendedRandomEnabled |-> TRUE, extendedRandom |-> F(32, 27)]),
  V([extendedMasterSecret |-> TRUE]), V([scts |-> TRUE]),
  V([supportedVersions |-> <<<<3, 4>>>>]), V([supportedVersions |-> <<<<3, 4>>, <<3, 3>>, <<3, 2>>, <<3, 1>>>>]),
  V([supportedVersions |-> Many16(127, 6)]),
  V([cookie |-> F(1, 28)]), V([cookie |-> F(300, 29)]), VB([cookie |-> F(65529, 30)]),
  V([keyShares |-> <<KS(<<0, 29>>, 32, 31)>>]), V([keyShares |-> <<KS(<<0, 23>>, 65, 32), KS(<<0, 29>>, 32, 33)>>]),
  V([keyShares |-> <<KS(<<17, 236>>, 1, 34)>>]), VB([keyShares |-> <<KS(<<17, 236>>, 1216, 35), KS(<<0, 29>>, 32, 36)>>]),
  V([earlyData |-> TRUE]),
  V([pskModes |-> <<1>>]), V([pskModes |-> <<1, 0>>]), V([pskModes |-> F(255, 37)]),
  V([pskIdentities |-> <<PSK(1, 38, <<0, 0, 0, 0>>)>>, pskBinders |-> <<F(32, 39)>>]),
  V([pskIdentities |-> <<PSK(120, 40, <<255, 255, 255, 255>>), PSK(7, 41, <<0, 1, 2, 3>>)>>, pskBinders |-> <<F(32, 42), F(48, 43)>>]),
  V([pskIdentities |-> <<PSK(16, 44, <<128, 0, 0, 0>>)>>, pskBinders |-> <<F(255, 45)>>])
>>

CHFull ==
  [ serverName |-> F(11, 50), ocspStapling |-> TRUE, supportedCurves |-> <<<<0, 29>>, <<0, 23>>>>, supportedPoints |-> <<0>>,
    ticketSupported |-> TRUE, sessionTicket |-> F(40, 51), supportedSignatureAlgorithms |-> Many16(4, 7),
    supportedSignatureAlgorithmsCert |-> Many16(2, 8), secureRenegotiationSupported |-> TRUE, secureRenegotiation |-> F(12, 52),
    alpnProtocols |-> <<F(2, 53), F(8, 54)>>, extendedMasterSecret |-> TRUE, scts |-> TRUE,
    supportedVersions |-> <<<<3, 4>>, <<3, 3>>>>, cookie |-> F(9, 55), keyShares |-> <<KS(<<0, 29>>, 32, 56)>>, earlyData |-> TRUE,
    pskModes |-> <<1>>, pskIdentities |-> <<PSK(30, 57, <<0, 0, 1, 0>>)>>, pskBinders |-> <<F(32, 58)>>, sessionId |-> F(32, 59) ]

Unk(typ, n, tag) == BE(typ, 2) \o Vec16(F(n, tag))
SHVariants == <<
  V([vers |-> <<3, 4>>]), V([vers |-> <<255, 255>>]), V([random |-> FF(32)]),
  V([sessionId |-> F(1, 7)]), V([sessionId |-> F(32, 8)]), V([sessionId |-> F(255, 9)]),
  V([cipherSuite |-> <<19, 1>>]), V([cipherSuite |-> <<255, 255>>]), V([compressionMethod |-> <<1>>]), V([compressionMethod |-> <<255>>]),
  V([ocspStapling |-> TRUE]), V([ticketSupported |-> TRUE]),
  V([secureRenegotiationSupported |-> TRUE]), V([secureRenegotiationSupported |-> TRUE, secureRenegotiation |-> F(24, 10)]),
  V([secureRenegotiationSupported |-> TRUE, secureRenegotiation |-> F(255, 11)]),
  V([alpnProtocol |-> F(1, 12)]), V([alpnProtocol |-> F(2, 13)]), V([alpnProtocol |-> F(255, 14)]),
  V([scts |-> <<F(1, 15)>>]), V([scts |-> <<F(47, 16), F(119, 17)>>]), VB([scts |-> <<F(65527, 18)>>]),
  V([supportedVersion |-> <<3, 4>>]), V([supportedVersion |-> <<255, 255>>]), V([supportedVersion |-> <<0, 1>>]),
  V([serverShare |-> KS(<<0, 29>>, 32, 19)]), V([serverShare |-> KS(<<0, 23>>, 65, 20)]), V([serverShare |-> KS(<<255, 255>>, 1, 21)]),
  VB([serverShare |-> KS(<<17, 236>>, 1120, 22)]),
  V([selectedIdentityPresent |-> TRUE]), V([selectedIdentityPresent |-> TRUE, selectedIdentity |-> <<0, 1>>]),
  V([selectedIdentityPresent |-> TRUE, selectedIdentity |-> <<255, 255>>]),
  V([cookie |-> F(1, 23)]), V([cookie |-> F(300, 24)]), VB([cookie |-> F(65529, 25)]),
  V([selectedGroup |-> <<0, 23>>]), V([selectedGroup |-> <<255, 255>>]),
  V([supportedPoints |-> <<0>>]), V([supportedPoints |-> F(255, 26)]),
  V([extendedMasterSecret |-> TRUE]),
  V([unknownExtensions |-> <<Unk(65000, 0, 27)>>]), V([unknownExtensions |-> <<Unk(65000, 5, 28), Unk(17, 1, 29)>>])
>>
SHFull ==
  [ sessionId |-> F(32, 60), ocspStapling |-> TRUE, ticketSupported |-> TRUE, secureRenegotiationSupported |-> TRUE,
    secureRenegotiation |-> F(24, 61), alpnProtocol |-> F(2, 62), scts |-> <<F(47, 63)>>, supportedVersion |-> <<3, 4>>,
    serverShare |-> KS(<<0, 29>>, 32, 64), selectedIdentityPresent |-> TRUE, selectedIdentity |-> <<0, 0>>, cookie |-> F(9, 65),
    supportedPoints |-> <<0>>, extendedMasterSecret |-> TRUE, unknownExtensions |-> <<Unk(65000, 0, 66)>> ]

CertVariants(f) == <<
  V(f :> Cert(<<F(1, 1)>>, <<>>, <<>>)), V(f :> Cert(<<F(300, 2), F(1, 3), F(77, 4)>>, <<>>, <<>>)),
  V(f :> Cert(<<F(30, 5)>>, F(1, 6), <<>>)), V(f :> Cert(<<F(30, 7), F(20, 8)>>, F(500, 9), <<>>)),
  V(f :> Cert(<<F(30, 10)>>, <<>>, <<F(1, 11)>>)), V(f :> Cert(<<F(30, 12), F(9, 13)>>, F(40, 14), <<F(47, 15), F(119, 16)>>)),
  VB(f :> Cert(<<F(65536, 17)>>, <<>>, <<>>)), VB(f :> Cert(<<F(10, 18)>>, F(65500, 19), <<>>)),
  VB(f :> Cert(<<F(10, 20)>>, F(70000, 21), <<>>))
>>
WithFlags(vs) == [i \in 1..Len(vs) |->
  [big |-> vs[i].big, d |-> vs[i].d @@ [ocspStapling |-> vs[i].d.certificate.ocsp # <<>>, scts |-> vs[i].d.certificate.scts # <<>>]]]

Variants(t) ==
  CASE t = "clientHelloMsg" -> CHVariants
    [] t = "serverHelloMsg" -> SHVariants
    [] t = "encryptedExtensionsMsg" -> << V([alpnProtocol |-> F(1, 1)]), V([alpnProtocol |-> F(2, 2)]), V([alpnProtocol |-> F(255, 3)]) >>
    [] t = "keyUpdateMsg" -> << V([updateRequested |-> TRUE]) >>
    [] t = "newSessionTicketMsgTLS13" ->
         [i \in 1..3 |-> V([lifetime |-> U32s[i]])] \o [i \in 1..3 |-> V([ageAdd |-> U32s[i]])] \o [i \in 1..3 |-> V([maxEarlyData |-> U32s[i]])] \o
         << V([nonce |-> F(1, 1)]), V([nonce |-> F(8, 2)]), V([nonce |-> F(255, 3)]),
            V([label |-> F(2, 4)]), V([label |-> F(300, 5)]), VB([label |-> F(65535, 6)]) >>
    [] t = "certificateRequestMsgTLS13" ->
         << V([ocspStapling |-> TRUE]), V([scts |-> TRUE]),
            V([supportedSignatureAlgorithms |-> <<<<8, 4>>>>]), V([supportedSignatureAlgorithms |-> Many16(9, 1)]),
            V([supportedSignatureAlgorithmsCert |-> <<<<4, 1>>>>]), V([supportedSignatureAlgorithmsCert |-> Many16(4, 2)]),
            V([certificateAuthorities |-> <<F(1, 3)>>]), V([certificateAuthorities |-> <<F(90, 4), F(33, 5), F(2, 6)>>]),
            VB([certificateAuthorities |-> <<F(65527, 7)>>]) >>
    [] t = "certificateMsg" ->
         << V([certificates |-> <<F(1, 1)>>]), V([certificates |-> <<F(300, 2), F(1, 3), F(77, 4)>>]),
            V([certificates |-> [i \in 1..20 |-> F(i, i)]]), VB([certificates |-> <<F(65536, 5), F(3, 6)>>]) >>
    [] t = "certificateMsgTLS13" -> WithFlags(CertVariants("certificate"))
    [] t = "serverKeyExchangeMsg" -> << V([key |-> F(1, 1)]), V([key |-> F(133, 2)]), VB([key |-> F(65536, 3)]) >>
    [] t = "certificateStatusMsg" -> << V([response |-> F(2, 1)]), V([response |-> F(500, 2)]), VB([response |-> F(65536, 3)]) >>
    [] t = "clientKeyExchangeMsg" -> << V([ciphertext |-> F(1, 1)]), V([ciphertext |-> F(66, 2)]), V([ciphertext |-> F(258, 3)]), VB([ciphertext |-> F(65536, 4)]) >>
    [] t = "finishedMsg" -> << V([verifyData |-> F(12, 1)]), V([verifyData |-> F(32, 2)]), V([verifyData |-> F(36, 5)]), V([verifyData |-> F(48, 3)]), V([verifyData |-> F(1, 4)]) >>
    [] t = "certificateRequestMsg_12" ->
         << V([certificateTypes |-> <<1, 64>>]), V([certificateTypes |-> F(255, 1)]),
            V([supportedSignatureAlgorithms |-> Many16(12, 2)]), V([supportedSignatureAlgorithms |-> <<<<255, 255>>>>]),
            V([certificateAuthorities |-> <<F(1, 3)>>]), V([certificateAuthorities |-> <<F(90, 4), F(33, 5), F(2, 6)>>]),
            V([certificateAuthorities |-> [i \in 1..40 |-> F(i, i)]]), VB([certificateAuthorities |-> <<F(65533, 7)>>]) >>
    [] t = "certificateRequestMsg_10" ->
         << V([certificateTypes |-> <<1, 64>>]), V([certificateTypes |-> F(255, 1)]),
            V([certificateAuthorities |-> <<F(1, 3)>>]), V([certificateAuthorities |-> <<F(90, 4), F(33, 5), F(2, 6)>>]),
            VB([certificateAuthorities |-> <<F(65533, 7)>>]) >>
    [] t = "certificateVerifyMsg_12" ->
         << V([signatureAlgorithm |-> <<8, 4>>]), V([signatureAlgorithm |-> <<255, 255>>]),
            V([signature |-> F(1, 1)]), V([signature |-> F(256, 2)]), VB([signature |-> F(65535, 3)]) >>
    [] t = "certificateVerifyMsg_10" -> << V([signature |-> F(1, 1)]), V([signature |-> F(256, 2)]), VB([signature |-> F(65535, 3)]) >>
    [] t = "newSessionTicketMsg" ->
         [i \in 1..3 |-> V([lifetimeHint |-> U32s[i]])] \o
         << V([ticket |-> F(1, 1)]), V([ticket |-> F(200, 2)]), VB([ticket |-> F(65535, 3)]) >>
    [] t = "sessionState" ->
         [i \in 1..4 |-> V([createdAt |-> U64s[i]])] \o
         << V([vers |-> <<3, 1>>]), V([vers |-> <<255, 255>>]), V([cipherSuite |-> <<192, 47>>]), V([cipherSuite |-> <<255, 255>>]),
            V([masterSecret |-> F(1, 1)]), V([masterSecret |-> F(300, 2)]), VB([masterSecret |-> F(65535, 3)]),
            V([certificates |-> <<F(1, 4)>>]), V([certificates |-> <<F(500, 5), F(20, 6)>>]), VB([certificates |-> <<F(65536, 7)>>]) >>
    [] t = "sessionStateTLS13" ->
         [i \in 1..4 |-> V([createdAt |-> U64s[i]])] \o
         << V([cipherSuite |-> <<19, 1>>]), V([cipherSuite |-> <<255, 255>>]),
            V([resumptionSecret |-> F(1, 1)]), V([resumptionSecret |-> F(48, 2)]), V([resumptionSecret |-> F(255, 3)]) >> \o
         CertVariants("certificate")
    [] OTHER -> <<>>

Bases(t) == CASE t = "clientHelloMsg" -> <<Base(t), CHFull @@ Base(t)>>
              [] t = "serverHelloMsg" -> <<Base(t), SHFull @@ Base(t)>>
              [] OTHER -> <<Base(t)>>

Candidates(t) ==
  LET vs == Variants(t)
      bs == Bases(t)
      n == Len(vs)
  IN {bs[b] : b \in 1..Len(bs)}
     \cup {vs[i].d @@ bs[b] : i \in 1..n, b \in 1..Len(bs)}
     \cup (IF t \in PairTypes THEN {vs[i].d @@ vs[j].d @@ bs[1] :
                             <<i, j>> \in {p \in (1..n) \X (1..n) :
                                             /\ p[1] < p[2] /\ ~vs[p[1]].big /\ ~vs[p[2]].big
                                             /\ DOMAIN vs[p[1]].d \cap DOMAIN vs[p[2]].d = {}}}
           ELSE {})

Values(t) == {v \in Candidates(t) : Fits(t, v) /\ Valid(t, v)}

----------------------------------------------------------------------------
(* checks on the specification itself *)
(* the types with an optional tail, as documented in TLSWire.tla *)
OptionalTailTypes == {"clientHelloMsg", "serverHelloMsg"}
FileOf(t) == OutPrefix \o t \o ".ndjson"
BodyOf(t, lay) == IF Hdr(t) = -1 THEN lay ELSE DropB(lay, 4)

CheckType(t) ==
  LET vals == SetToSeq(Values(t))                                   \* each value and its layout are computed once
      lay == [i \in 1..Len(vals) |-> Layout(t, vals[i])]
      small == {i \in 1..Len(vals) : Len(lay[i]) <= 164}
      \* RoundTrip: parsing the layout gives the value back
      rt == \A i \in 1..Len(vals) : Parse(t, lay[i]) = [ok |-> TRUE, v |-> vals[i]]
      \* message level: no strict prefix of a valid encoding is a valid encoding (Parse enforces the header length)
      pfmsg == \A i \in small : \A k \in 0..(Len(lay[i]) - 1) : ~Parse(t, TakeB(lay[i], k)).ok
      \* body level (grammar only): does some valid body have a strict prefix that is a valid body?
      bodypf == \A i \in small : LET b == BodyOf(t, lay[i]) IN \A k \in 0..(Len(b) - 1) : ~BodyParse(t, TakeB(b, k)).ok
      pf == ~HasOptionalTail(t)
      cases == [i \in 1..Len(vals) |-> [t |-> t, v |-> vals[i], bytes |-> lay[i], pf |-> pf, opaque |-> OpaqueBody(t)]]
  IN
  /\ Assert(Fits(t, Base(t)) /\ Valid(t, Base(t)), <<"base value not valid", t>>)
  /\ Assert(rt, <<"Parse(Layout(v)) # v", t>>)
  /\ Assert(HasOptionalTail(t) = (t \in OptionalTailTypes), <<"optional-tail classification", t>>)
  /\ Assert(pf => pfmsg, <<"a strict prefix of a valid encoding parses", t>>)
  /\ Assert(HasOptionalTail(t) => ~bodypf, <<"the optional tail is not optional", t>>)
  /\ Assert(small # {}, <<"no small values", t>>)
  /\ ndJsonSerialize(FileOf(t), cases)
  /\ PrintT(ToJson([wire |-> t, candidates |-> Cardinality(Candidates(t)), values |-> Len(vals),
                      small |-> Cardinality(small), pf |-> pf]))

(* The per-type work is hung on a tiny state graph so that TLC's workers share it:
   stage 0 --(pick a type)--> stage 1 --> stage 2; the invariant does the work at stage 2,
   evaluated by whichever worker dequeued the stage-1 state.                            *)
VARIABLES stage, typ
Init == stage = 0 /\ typ = ""
Next == \/ stage = 0 /\ stage' = 1 /\ typ' \in TypesToDo
        \/ stage = 1 /\ stage' = 2 /\ typ' = typ
Spec == Init /\ [][Next]_<<stage, typ>>
Checked == stage = 2 => CheckType(typ)
ASSUME TypesToDo \subseteq Types
=============================================================================
