------------------------------- MODULE DERGen -------------------------------
(* C19 / C20 case generator (U1 + U2).  The state space is the prefix tree of all
   short encodings: a state is one (kind, octet string); TLC explores it
   exhaustively (breadth first, all workers) and

     - checks in every state the specification's own canonicity (invariant
       SpecCanon: Accept(x) => Encode(Decode(x)) = x for every typed content,
       every header) and the design-level C20 lemma (SpecPermExtends),
     - prints for every state the judgement DER.tla demands for that input
       (invariant Emit -> one printed record per case: accept / reject / either per
       decoder class, reason, consumed bytes, decoded value).

   kind   octets enumerated
   int bool oid bits   contents: every string over 0..255 of length <= X_FULL and every
                       string over the boundary alphabet A14 of length <= X_MAX;
                       int / oid also long contents up to INT_LONG / OID_LONG octets
                       (two A14 octets + filler: width and arc-size boundaries)
   time                GeneralizedTime: field menus (TIMEMENU) + single-octet mutations
   utc                 UTCTime: two-digit years on both sides of the 1950-2049 window and of
                       Go's own 1969-2068 pivot x seconds present / absent x zone forms
   len                 length octets behind each identifier octet of LEN_IDS: all first octets; the
                       following octets full alphabet while the header is at most
                       LEN_FULL octets long, A14 up to LEN_MAX; every prefix is
                       a (truncated) case of its own; fill variants len-1, len, len+1
   tag                 identifier octets: all first octets, high-tag-number form
                       continued likewise (TAG_FULL / TAG_MAX)                      *)
EXTENDS DER

CONSTANTS KINDS, LEN_IDS, INT_FULL, INT_MAX, INT_LONG, OID_FULL, OID_MAX, OID_LONG, BITS_FULL, BITS_MAX,
          BOOL_FULL, BOOL_MAX, LEN_FULL, LEN_MAX, LEN_SMALL, TAG_FULL, TAG_MAX, TIMEMENU

A14  == {0, 1, 39, 40, 79, 80, 127, 128, 129, 191, 192, 254, 255, 31}
Full == 0..255

VARIABLES kind, c, aux
vars == <<kind, c, aux>>

InA14(s) == \A i \in 1..Len(s) : s[i] \in A14
(* octets that may follow s: the enumerated strings are exactly
   Full^(<= full)  \cup  A14^(<= max)   (a prefix-closed set) *)
Octets(s, full, max) ==
  IF Len(s) + 1 <= full THEN Full
  ELSE IF Len(s) + 1 <= max /\ InA14(s) THEN A14 ELSE {}

(* long INTEGER contents (width boundaries of the fixed-width targets): two A14
   octets followed by filler octets 0x55 up to INT_LONG octets *)
IntLong(s) ==
  IF /\ Len(s) >= 2 /\ Len(s) < INT_LONG /\ InA14(SubSeq(s, 1, 2))
     /\ \A i \in 3..Len(s) : s[i] = 85
  THEN {85} ELSE {}
(* long OID sub-identifiers (the 2^28 / 2^31 limits): one A14 octet, an A14
   continuation octet, filler continuation octets 0xD5, a terminator *)
OidLong(s) ==
  IF /\ Len(s) >= 2 /\ Len(s) < OID_LONG /\ InA14(SubSeq(s, 1, 2)) /\ s[2] >= 128
     /\ \A i \in 3..Len(s) : s[i] = 213
  THEN {213, 0, 127} ELSE {}

----------------------------------------------------------------------------
(* GeneralizedTime menus *)
Four(v) == Two(v \div 100) \o Two(v % 100)
Zones == {<<90>>,                         \* Z
          <<43, 48, 48, 48, 48>>,         \* +0000
          <<45, 48, 48, 48, 48>>,         \* -0000
          <<43, 48, 49, 48, 48>>,         \* +0100
          <<45, 48, 49, 51, 48>>,         \* -0130
          <<43, 50, 51, 53, 57>>,         \* +2359
          <<45, 50, 52, 48, 48>>,         \* -2400
          <<43, 50, 52, 51, 48>>,         \* +2430
          <<43, 50, 53, 48, 48>>,         \* +2500
          <<43, 48, 48, 54, 48>>,         \* +0060
          <<45, 48, 49, 54, 48>>,         \* -0160
          <<>>,                           \* no zone
          <<122>>,                        \* z
          <<43, 48, 49>>,                 \* +01
          <<90, 48>>,                     \* Z0
          <<46, 53, 90>>,                 \* .5Z
          <<43, 48, 49, 58, 48, 48>>}     \* +01:00
QuickZones == {<<90>>, <<43, 48, 48, 48, 48>>, <<43, 48, 49, 48, 48>>, <<45, 50, 52, 48, 48>>,
               <<43, 48, 48, 54, 48>>, <<>>, <<46, 53, 90>>}
Q == TIMEMENU = "quick"
TimeField(stage) ==     \* the strings that may be appended after `stage` fields
  CASE stage = 0 -> {Four(y) : y \in IF Q THEN {0, 1900, 2000, 2023} ELSE {0, 1, 1900, 1999, 2000, 2023, 2024, 2100, 9999}}
    [] stage = 1 -> {Two(m) : m \in IF Q THEN {0, 2, 12, 13} ELSE {0, 1, 2, 4, 12, 13}}
    [] stage = 2 -> {Two(d) : d \in IF Q THEN {0, 28, 29, 31, 32} ELSE {0, 1, 28, 29, 30, 31, 32}}
    [] stage = 3 -> {Two(h) : h \in IF Q THEN {23, 24} ELSE {0, 23, 24}}
    [] stage = 4 -> {Two(n) : n \in IF Q THEN {59, 60} ELSE {0, 59, 60}}
    [] stage = 5 -> {Two(x) : x \in IF Q THEN {59, 60} ELSE {0, 59, 60}}
    [] stage = 6 -> IF Q THEN QuickZones ELSE Zones
    [] OTHER -> {}
\* UTCTime: YY MM DD hh mm [ss] zone
UTField(stage) ==
  CASE stage = 0 -> {Two(y) : y \in {0, 49, 50, 51, 52, 68, 69, 99}}
    [] stage = 1 -> {Two(m) : m \in IF Q THEN {1, 2, 13} ELSE {0, 1, 2, 12, 13}}
    [] stage = 2 -> {Two(d) : d \in IF Q THEN {1, 29, 31} ELSE {0, 1, 28, 29, 30, 31, 32}}
    [] stage = 3 -> {Two(h) : h \in IF Q THEN {0, 23} ELSE {0, 23, 24}}
    [] stage = 4 -> {Two(n) : n \in IF Q THEN {0, 59} ELSE {0, 59, 60}}
    [] stage = 5 -> {<<>>} \cup {Two(x) : x \in IF Q THEN {0, 59} ELSE {0, 59, 60}}     \* seconds absent / present
    [] stage = 6 -> IF Q THEN QuickZones ELSE Zones
    [] OTHER -> {}
TimeBase == Four(2024) \o Two(2) \o Two(29) \o Two(12) \o Two(34) \o Two(56) \o <<90>>
TimeMutants == {[TimeBase EXCEPT ![i] = r] : i \in 1..15, r \in {47, 58, 32, 0, 255, 65, 43}}

----------------------------------------------------------------------------
Init == /\ kind \in KINDS
        /\ c = <<>>
        /\ aux \in (IF kind = "len" THEN LEN_IDS ELSE {0})

\* length octets: all single octets; long forms 0x80+k followed by k octets: full
\* alphabet when the whole header (1 + k octets) is <= LEN_FULL long, else A14 while
\* <= LEN_MAX, the four octets {00, 01, 80, FF} while <= LEN_SMALL; longer forms get two
\* octets from that set; every proper prefix is a state (and a truncated case) too
LenNext ==
  IF c = <<>> THEN Full
  ELSE IF c[1] <= 128 \/ Len(c) >= c[1] - 128 + 1 THEN {}
  ELSE IF c[1] - 128 + 1 <= LEN_FULL THEN Full
  ELSE IF c[1] - 128 + 1 <= LEN_MAX THEN (IF InA14(Tail(c)) THEN A14 ELSE {})
  ELSE IF c[1] - 128 + 1 <= LEN_SMALL THEN {0, 1, 128, 255}
  ELSE IF Len(c) < 3 THEN {0, 1, 128, 255} ELSE {}

\* identifier octets: all single octets; high-tag-number form continued with the
\* full alphabet up to TAG_FULL octets in total, A14 (after A14 octets) up to TAG_MAX
TagNext ==
  IF c = <<>> THEN Full
  ELSE IF c[1] % 32 # 31 \/ (Len(c) > 1 /\ DLast(c) < 128) \/ Len(c) >= TAG_MAX THEN {}
  ELSE IF Len(c) + 1 <= TAG_FULL THEN Full
  ELSE IF InA14(Tail(c)) THEN A14 ELSE {}

Next ==
  /\ UNCHANGED kind
  /\ \/ /\ kind = "int"  /\ \E b \in Octets(c, INT_FULL, INT_MAX) \cup IntLong(c) : c' = Append(c, b)
        /\ UNCHANGED aux
     \/ /\ kind = "bool" /\ \E b \in Octets(c, BOOL_FULL, BOOL_MAX) : c' = Append(c, b)
        /\ UNCHANGED aux
     \/ /\ kind = "oid"  /\ \E b \in Octets(c, OID_FULL, OID_MAX) \cup OidLong(c) : c' = Append(c, b)
        /\ UNCHANGED aux
     \/ /\ kind = "bits" /\ \E b \in Octets(c, BITS_FULL, BITS_MAX) : c' = Append(c, b)
        /\ UNCHANGED aux
     \/ /\ kind = "time" /\ aux < 7 /\ \E f \in TimeField(aux) : c' = c \o f
        /\ aux' = aux + 1
     \/ /\ kind = "time" /\ aux = 0 /\ c' \in TimeMutants /\ aux' = 8
     \/ /\ kind = "utc"  /\ aux < 7 /\ \E f \in UTField(aux) : c' = c \o f
        /\ aux' = aux + 1
     \/ /\ kind = "len"  /\ \E b \in LenNext : c' = Append(c, b)
        /\ UNCHANGED aux
     \/ /\ kind = "tag"  /\ \E b \in TagNext : c' = Append(c, b)
        /\ UNCHANGED aux

Spec == Init /\ [][Next]_vars

----------------------------------------------------------------------------
(* cases.  vs = the verdicts per decoder class in the order of the XxxClassSeq
   below (the harness carries the same order; printed compactly on purpose) *)
IntClassSeq  == <<"S8", "S16", "S32", "S64", "U8", "U16", "U32", "U64", "BIG">>
OidClassSeq  == <<"A31", "A28">>
BitsClassSeq == <<"BITS", "BYTES">>
HdrClassSeq  == <<"ANY31", "LOW">>
Trails == IF InA14(c) THEN {<<>>, <<5, 0>>} ELSE {<<>>}

IntCase(tr) ==
  LET s == TLV(2, c) \o tr
      f == Framed(s, 2)
      big == IntJudgeF(f, "BIG")
  IN [k |-> "int", b |-> s, n |-> big.n, why |-> big.why,
      vs |-> [i \in 1..Len(IntClassSeq) |-> IntJudgeF(f, IntClassSeq[i]).v],
      sign |-> IF big.v = "a" THEN IntSign(c) ELSE 0,
      mag |-> IF big.v = "a" THEN IntMag(c) ELSE <<>>]

BoolCase(tr) ==
  LET s == TLV(1, c) \o tr
      j == BoolJudge(s, 1)
  IN [k |-> "bool", b |-> s, n |-> j.n, why |-> j.why, v |-> j.v, bv |-> c = <<255>>]

OidCase(tr) ==
  LET s == TLV(6, c) \o tr
      f == Framed(s, 6)
      o == OidInfo(c)
      j == OidJudgeF(f, o, "A31")
  IN [k |-> "oid", b |-> s, n |-> j.n, why |-> j.why,
      vs |-> [i \in 1..Len(OidClassSeq) |-> OidJudgeF(f, o, OidClassSeq[i]).v],
      arcs |-> IF j.v = "r" THEN <<>> ELSE o.arcs]

BitsCase(tr) ==
  LET s == TLV(3, c) \o tr
      f == Framed(s, 3)
      j == BitsJudgeF(f, "BITS")
  IN [k |-> "bits", b |-> s, n |-> j.n, why |-> j.why,
      vs |-> [i \in 1..Len(BitsClassSeq) |-> BitsJudgeF(f, BitsClassSeq[i]).v],
      bytes |-> IF j.v = "a" THEN BitsBytes(c) ELSE <<>>,
      bl |-> IF j.v = "a" THEN BitsLen(c) ELSE 0]

TimeCase(tr) ==
  LET s == TLV(24, c) \o tr
      g == GTInfo(c)
      j == TimeJudgeF(Framed(s, 24), g)
  IN [k |-> "time", b |-> s, n |-> j.n, why |-> j.why, v |-> j.v, t |-> g.t]

UTimeCase(tr) ==
  LET s == TLV(23, c) \o tr
      u == UTInfo(c)
      j == UTimeJudgeF(Framed(s, 23), u)
  IN [k |-> "utc", b |-> s, n |-> j.n, why |-> j.why, v |-> j.v, t |-> u.t, nore |-> u.nore]

\* lenient (BER) value of complete length octets when < 2^17, else -1
Lenient(l) == IF l[1] < 128 THEN l[1]
              ELSE LET k == l[1] - 128
                       d == Strip0(Tail(l)) IN
                   IF k = 0 \/ Len(l) # k + 1 THEN -1
                   ELSE IF Len(d) > 3 \/ (Len(d) = 3 /\ d[1] > 1) THEN -1
                   ELSE BEVal(d, 1, Len(d))
Fills(l) == LET v == Lenient(l) IN
            IF v < 0 THEN {0, 3} ELSE {v, v + 1} \cup (IF v > 0 THEN {v - 1} ELSE {})

\* header s followed by `fill` zero octets supplied by the harness
HdrCase(s, fill) ==
  LET e == ElemV(s, fill, "strict")
      a == HdrJudgeE(e, "ANY31")
  IN [k |-> "hdr", b |-> s, fill |-> fill, n |-> a.n, why |-> a.why,
      vs |-> [i \in 1..Len(HdrClassSeq) |-> HdrJudgeE(e, HdrClassSeq[i]).v],
      class |-> IF a.v = "r" THEN 0 ELSE e.h.id.class,
      cons |-> IF a.v = "r" THEN FALSE ELSE e.h.id.cons,
      tag |-> IF a.v = "r" THEN 0 ELSE e.h.id.tag,
      clen |-> IF a.v = "r" THEN 0 ELSE e.h.len]

\* Printing the record itself is ~5x faster than PrintT(ToJson(rec)) (TLC's pretty
\* printer is slow on long strings); tools/props/derlib.py converts the TLA+ value
\* syntax to NDJSON.
Out(rec) == PrintT(rec)

Emit ==
  CASE kind = "int"  -> \A tr \in Trails : Out(IntCase(tr))
    [] kind = "bool" -> \A tr \in Trails : Out(BoolCase(tr))
    [] kind = "oid"  -> \A tr \in Trails : Out(OidCase(tr))
    [] kind = "bits" -> \A tr \in Trails : Out(BitsCase(tr))
    [] kind = "time" -> aux \in {7, 8} => \A tr \in Trails : Out(TimeCase(tr))
    [] kind = "utc"  -> aux = 7 => Out(UTimeCase(<<>>))
    [] kind = "len"  -> c # <<>> => \A f \in Fills(c) : Out(HdrCase(<<aux>> \o c, f))
    [] kind = "tag"  -> c # <<>> => Out(HdrCase(c \o <<0>>, 0)) /\ Out(HdrCase(c \o <<2>>, 2))
                                    /\ Out(HdrCase(c \o <<2>>, 1))

(* the specification's own canonicity: whatever it accepts re-encodes to itself *)
SpecCanon ==
  CASE kind = "int"  -> IntRoundTrip(c)
    [] kind = "bool" -> TRUE
    [] kind = "oid"  -> OidRoundTrip(c)
    [] kind = "bits" -> BitsRoundTrip(c)
    [] kind = "time" -> aux \in {7, 8} => TimeRoundTrip(c)
    [] kind = "utc"  -> aux = 7 => UTRoundTrip(c)
    [] kind = "len"  -> c # <<>> => HdrRoundTrip(<<aux>> \o c)
    [] kind = "tag"  -> c # <<>> => HdrRoundTrip(c \o <<2>>)

(* C20, design level: the permissive grammar extends the strict one *)
SpecPermExtends ==
  CASE kind = "len" -> c # <<>> => \A f \in Fills(c) : PermExtendsV(<<aux>> \o c, f)
    [] kind = "tag" -> c # <<>> => PermExtendsV(c \o <<2>>, 2)
    [] OTHER -> TRUE
=============================================================================
