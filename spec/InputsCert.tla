----------------------------- MODULE InputsCert -----------------------------
(* C02 (role P): operations on any certificate the parser accepted are total, and
   JSON serialisation is deterministic.

   Extends the input model of Inputs.tla (kind "cert") by
     Shapes       valid-but-unusual CONTENT shapes of the extensions zcrypto
                  interprets: a shape is [x, v] - extension name and a sequence of
                  items, each item a sequence of tokens of the extension's small
                  grammar (e.g. policies: one item per PolicyInformation, one token
                  per qualifier; SAN: one item, one token per GeneralName)
     Ops          post-parse operations with their arguments
     OpPrograms   sequences of operations applied to one parsed certificate
   and states what the property allows:
     every operation returns (a value or an error), and serialising the certificate
     to JSON twice yields identical bytes.

   The harness builds a real certificate per shape (standard-library issuance with
   the shaped extension as an extra extension), parses it with zcrypto in both modes
   and, where it is accepted, applies each operation program to a freshly parsed
   copy; the mutated certificates of C01 (Inputs!Programs("cert", d)) that are
   accepted go through the same programs.                                          *)
EXTENDS Inputs

Tok(S, lo, hi) == UNION { [1..m -> S] : m \in lo..hi }      \* token sequences of length lo..hi

GN == { "other", "email", "dns", "x400", "dir", "edi", "uri", "ip4", "ip6", "ipbad", "rid",
        "dns-empty", "dns-nul", "uri-bad", "dir-empty", "other-nonexplicit" }

(* policy qualifiers: CPS URI, user notices with / without explicit text and with /
   without a notice reference (organisation + numbers), an unknown qualifier *)
Qual == { "cps", "un-text", "un-ref", "un-both", "un-empty", "un-text-bmp", "un-ref-nonumbers", "unknown" }

Sh(x, v) == [x |-> x, v |-> v]

PolicyShapes ==
  { Sh("policies", <<q>>) : q \in Tok(Qual, 0, 3) }
  \cup { Sh("policies", <<q1, q2>>) : q1 \in Tok(Qual, 0, 1), q2 \in Tok(Qual, 1, 2) }
  \cup { Sh("policies", << <<>>, <<>>, <<"un-both">> >>) }
SanShapes == { Sh(x, <<g>>) : x \in { "san", "ian" }, g \in Tok(GN, 0, 2) }
NcShapes == { Sh("nc", <<p, e>>) : p \in Tok(GN \cup { "min1", "max0" }, 0, 1), e \in Tok(GN, 0, 1) }
             \cup { Sh("nc", <<p, <<>> >>) : p \in Tok({ "dns", "ip4", "ipbad", "dir", "edi", "rid", "min1" }, 2, 2) }
AiaShapes == { Sh("aia", <<a>>) : a \in Tok({ "ocsp-uri", "issuers-uri", "ocsp-dns", "ocsp-dir", "unknown-uri", "ocsp-empty" }, 0, 2) }
CrldpShapes == { Sh("crldp", <<c>>) :
                 c \in Tok({ "full-uri", "full-two", "full-dir", "full-dns", "relative", "reasons-only", "issuer-only", "empty" }, 0, 2) }
QcShapes == { Sh("qc", <<q>>) : q \in Tok({ "compliance", "limit", "limit-neg", "retention", "sscd", "pds", "pds-empty", "types",
                                            "types-empty", "legislation", "syntax-v2", "unknown", "noinfo" }, 0, 2) }
TorShapes == { Sh("tor", <<t>>) : t \in Tok({ "sha256", "sha1", "unknown-alg", "bits-unused", "hash-empty", "onion-empty" }, 0, 2) }
CabfShapes == { Sh("cabforg", << <<c>> >>) : c \in { "state", "nostate", "empty" } }
SctShapes == { Sh("sctlist", <<s>>) : s \in Tok({ "v1", "v1-ext", "sig-empty", "v1-rsa" }, 0, 2) }
BcShapes == { Sh("bc", << <<b>> >>) : b \in { "ca", "ca-len0", "ca-len5", "notca", "empty", "len-neg", "notca-len" } }
KidShapes == { Sh("skid", << <<k>> >>) : k \in { "20", "0", "64" } }
             \cup { Sh("akid", << <<k>> >>) : k \in { "keyid", "all", "empty", "issuer-only", "serial-only" } }
KuShapes == { Sh("ku", << <<k>> >>) : k \in { "digsig", "all9", "none", "long" } }
            \cup { Sh("eku", <<e>>) : e \in Tok({ "server", "client", "any", "unknown", "apple", "ms" }, 0, 2) }
SubjectShapes == { Sh("subject", << <<s>> >>) : s \in { "cn-only", "empty", "multi-cn", "cn-ip", "cn-wild", "cn-nul", "all-attrs",
                                                       "multi-valued-rdn", "unknown-attr" } }

(* Name collisions: names that are DISTINCT AS BYTES BUT EQUAL UNDER A PLAUSIBLE NORMALISATION
   (ASCII case folding, a trailing dot, the same host inside a URI, an IP address written as
   text) or exact duplicates, spread over the subject CN and the SAN - the inputs on which a
   collection built from a map, or sorted with a normalising comparison, loses its order.
   A shape is [x |-> "names", v |-> <<cn tokens (0 or 1), SAN tokens>>]. *)
NameVar == { "base", "upper", "m1", "m2", "m3", "m4", "dot", "dup", "uri-base", "uri-upper", "ip-text", "ip" }
NameShapes ==
  { Sh("names", <<c, n>>) : c \in Tok({ "base", "upper", "dot" }, 0, 1),
                            n \in Tok(NameVar, 2, 2) \cup { <<"base", "upper", "m1">>,
                                                         <<"base", "upper", "m1", "m2", "m3", "m4">>,
                                                         <<"uri-base", "uri-upper", "base", "upper">>,
                                                         <<"email-base", "email-upper", "base", "dot">> } }

Shapes == NameShapes \cup PolicyShapes \cup SanShapes \cup NcShapes \cup AiaShapes \cup CrldpShapes \cup QcShapes \cup TorShapes
          \cup CabfShapes \cup SctShapes \cup BcShapes \cup KidShapes \cup KuShapes \cup SubjectShapes

-----------------------------------------------------------------------------
(* Post-parse operations.  CheckSignatureFrom takes a candidate parent: the
   certificate itself, its real issuer, an unrelated root, or a certificate carrying
   the ISSUER'S NAME with a public key of the given shape (Inputs!KeyShapes) - that
   is "any candidate parent" a chain builder would try. *)
ParentClasses == { "self", "issuer", "unrelated" } \cup { "named:" \o s : s \in KeyShapes }
ChildClasses == { "ed25519", "ecdsa", "rsa", "rsapss" }
CertSigAlgs == { "0", "1", "2", "3", "4", "5", "6", "7", "8", "9", "10", "11", "12", "13", "14", "15", "16", "17", "99" }
Hosts == { "", "a.example.com", "*.example.com", "A.EXAMPLE.COM.", "192.0.2.1", "[2001:db8::1]", "xn--bcher-kva.example",
           "a..b", ".", "*", "very-long" }

O(op, a) == [op |-> op, a |-> a]
Ops == { O("MarshalJSON2", "-"), O("CollectAllNames", "-"), O("PoolAddCert", "-"), O("GraphAddCert", "-"),
         O("GraphAddRoot", "-"), O("JsonifyExtensions", "-"), O("ParsedNames", "-"), O("Fingerprints", "-") }
       \cup { O("CheckSignatureFrom", p) : p \in ParentClasses }
       \* the certificate as the PARENT of a child naming it as issuer, signed with the given algorithm
       \cup { O("ParentCheckSignatureFrom", c) : c \in ChildClasses }
       \cup { O("CheckSignature", a) : a \in CertSigAlgs }
       \cup { O("VerifyHostname", h) : h \in Hosts }

(* operation programs: every single operation; at depth 2 every operation followed by
   the JSON determinism check (an operation must not disturb later serialisation) and
   the JSON check followed by every operation *)
OpPrograms(depth) ==
  { <<o>> : o \in Ops }
  \cup (IF depth >= 2 THEN { <<o, O("MarshalJSON2", "-")>> : o \in Ops } \cup { <<O("MarshalJSON2", "-"), o>> : o \in Ops }
        ELSE {})

OpWellFormed(prog) == Len(prog) \in 1..2 /\ \A i \in 1..Len(prog) : prog[i] \in Ops

(* What the property allows for one applied operation: it completes (value or error),
   within the time limit; MarshalJSON2 additionally reports whether both
   serialisations were byte-identical, which must be the case whenever both
   succeeded. *)
(* "skip": the candidate parent of that key shape is not itself a certificate the
   parser accepts, so the operation does not exist for it. *)
(* "notrun" (Inputs!NotRun): the harness did not apply the operation because it had already
   hung / killed the worker three times in this run. *)
OpOutcomes(o) == (IF o.op = "CheckSignatureFrom" /\ o.a \notin { "self", "issuer", "unrelated" }
                  THEN Outcomes \cup { "skip" } ELSE Outcomes) \cup NotRun

OpAllowed(o, res) ==
  /\ res.o \in OpOutcomes(o)
  /\ res.ms <= TimeLimitMs
  /\ res.same \in { "same", "n/a" }

=============================================================================
