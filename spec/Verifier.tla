------------------------------ MODULE Verifier ------------------------------
(* C12 - Verifier.Verify (verifier/verifier.go) reports a consistent view of the walked chains.

   A layer (constants only): a judge over one observation of Verify.  The statement, clause by
   clause ("the chains the graph walk finds" = what Graph.WalkChains returns for the same graph
   and certificate, recorded next to the result; whether THAT set is right is property C11):

     "current, expired and never-valid chains that partition the chains the graph walk finds"
           current ++ expired ++ never = walked (as multisets), and each chain sits in the class
           its validity window puts it in:  lower = max NotBefore, upper = min NotAfter over the
           chain;  current iff lower < t < upper;  expired iff not current and lower < upper;
           never-valid otherwise                                   (x509/verify.go FilterByDate)
     "valid-at-expiration chains that are those valid one second before the certificate's expiry"
           vae = the walked chains with lower < NotAfter(c) - 1 < upper
     "parents equal to the distinct second certificates of the relevant chains"
           relevant = vae if the certificate is expired at t, else current; no repetition
     "an expired flag"       expired = ~(NotBefore(c) < t < NotAfter(c))
     "a certificate type"    root if c was added as a root; else intermediate if c is a CA with at
                             least one parent; else leaf if it has a parent; else unknown
     "a name error"          none when no name is given; otherwise an error iff the name does not
                             match (hostname rules are property C09; the cases here use exact
                             lower-case DNS SAN entries only, so "matches" = name is a SAN entry)
     "an in-revocation-set flag that is set exactly when the supplied OneCRL or CRLSet lists the
      certificate"
           OneCRL lists c: an entry blocks (subject, key) of c, or lists (issuer name, serial) of c.
           CRLSet lists c: for some issuer of c, the set blocks the issuer's key or lists
           (issuer key, serial of c).  The CRLSet is keyed by the issuer key, and the result only
           knows issuers through chains, so two readings are allowed (rule 1): `must` uses the
           reported parents (as coded), `may` uses the second certificate of ANY walked chain;
           when no walked chain has a second certificate the issuer is unknown and any entry with
           c's serial / any blocked key makes both answers acceptable.                       *)
EXTENDS Walk

Count(s, x) == Cardinality({i \in 1..Len(s) : s[i] = x})
BagEq(s1, s2) == \A x \in RangeOf(s1) \cup RangeOf(s2) : Count(s1, x) = Count(s2, x)
MaxOf(S) == CHOOSE x \in S : \A y \in S : y <= x
MinOfS(S) == CHOOSE x \in S : \A y \in S : x <= y

Cert(o, x)     == CHOOSE c \in RangeOf(o.certs) : c.id = x
Known(o, ch)   == \A i \in 1..Len(ch) : \E c \in RangeOf(o.certs) : c.id = ch[i]
Lower(o, ch)   == MaxOf({Cert(o, ch[i]).nb : i \in 1..Len(ch)})
Upper(o, ch)   == MinOfS({Cert(o, ch[i]).na : i \in 1..Len(ch)})
ValidAt(o, ch, t) == Lower(o, ch) < t /\ t < Upper(o, ch)
Class(o, ch)   == IF ValidAt(o, ch, o.t) THEN "current"
                  ELSE IF Lower(o, ch) < Upper(o, ch) THEN "expired" ELSE "never"
C0(o)          == Cert(o, o.start)
Exp(o)         == ~(C0(o).nb < o.t /\ o.t < C0(o).na)
\* what the statement demands, computed from the walked chains only
SpecCurrent(o) == SelectSeq(o.walked, LAMBDA ch : ValidAt(o, ch, o.t))
SpecVAE(o)     == SelectSeq(o.walked, LAMBDA ch : ValidAt(o, ch, C0(o).na - 1))
SpecParents(o) == {ch[2] : ch \in {x \in RangeOf(IF Exp(o) THEN SpecVAE(o) ELSE SpecCurrent(o)) : Len(x) >= 2}}
SpecType(o)    == IF o.isroot THEN "root"
                  ELSE IF C0(o).ca /\ SpecParents(o) # {} THEN "intermediate"
                  ELSE IF SpecParents(o) # {} THEN "leaf" ELSE "unknown"
NameMatches(o) == o.name \in RangeOf(C0(o).dns)
OneLists(o)    == o.onecrl.has /\ (\/ <<C0(o).subj, C0(o).key>> \in RangeOf(o.onecrl.blocked)
                                   \/ <<C0(o).iss, C0(o).serial>> \in RangeOf(o.onecrl.listed))
SetHit(o, p)   == o.crlset.has /\ (\/ Cert(o, p).key \in RangeOf(o.crlset.blocked)
                                   \/ <<Cert(o, p).key, C0(o).serial>> \in RangeOf(o.crlset.listed))
AnyIssuer(o)   == {ch[2] : ch \in {x \in RangeOf(o.walked) : Len(x) >= 2}}
MustRev(o)     == OneLists(o) \/ \E p \in SpecParents(o) : SetHit(o, p)
MayRev(o)      == \/ MustRev(o)
                  \/ \E p \in AnyIssuer(o) : SetHit(o, p)
                  \/ (AnyIssuer(o) = {} /\ o.crlset.has /\
                      (o.crlset.blocked # <<>> \/ \E e \in RangeOf(o.crlset.listed) : e[2] = C0(o).serial))
WalkedKnown(o) == \A i \in 1..Len(o.walked) : Known(o, o.walked[i]) /\ Len(o.walked[i]) > 0

VerifyReasons(o) ==
  LET r   == o.res
      all == r.current \o r.expired \o r.never
  IN
  IF o.panic # "" THEN {"panic"}
  ELSE IF ~WalkedKnown(o) THEN {"walked-unknown-certificate"}
  ELSE
  {w \in {"partition", "class", "vae", "parents", "expired-flag", "type", "name-error", "name",
          "in-revocation-set"} :
     CASE w = "partition"    -> ~BagEq(all, o.walked)
       [] w = "class"        -> \/ \E i \in 1..Len(r.current) : Known(o, r.current[i]) /\ Class(o, r.current[i]) # "current"
                                \/ \E i \in 1..Len(r.expired) : Known(o, r.expired[i]) /\ Class(o, r.expired[i]) # "expired"
                                \/ \E i \in 1..Len(r.never)   : Known(o, r.never[i]) /\ Class(o, r.never[i]) # "never"
       [] w = "vae"          -> ~BagEq(r.vae, SpecVAE(o))
       [] w = "parents"      -> ~(NoDup(r.parents) /\ RangeOf(r.parents) = SpecParents(o))
       [] w = "expired-flag" -> r.isexpired # Exp(o)
       [] w = "type"         -> r.type # SpecType(o)
       [] w = "name-error"   -> r.nameerr # (o.name # "" /\ ~NameMatches(o))
       [] w = "name"         -> r.name # o.name
       [] w = "in-revocation-set" -> ~((MustRev(o) => r.inrev) /\ (r.inrev => MayRev(o)))}

(* Coverage tags of an observation, computed from the INPUT side (walked chains, times, names,
   revocation sets) - never from the result under test.  The driver requires every tag to occur
   in a run (otherwise the run is vacuous for that clause). *)
VerifyCover(o) ==
  IF o.panic # "" \/ ~WalkedKnown(o) THEN {} ELSE
  {w \in {"chain-current", "chain-expired", "chain-never", "vae", "no-vae-but-chains", "parents",
          "two-parents", "cert-expired", "cert-valid", "type-root", "type-intermediate", "type-leaf",
          "type-unknown", "name-none", "name-match", "name-mismatch", "rev-must", "rev-must-not",
          "rev-open", "expired-with-parents"} :
     CASE w = "chain-current" -> \E ch \in RangeOf(o.walked) : Class(o, ch) = "current"
       [] w = "chain-expired" -> \E ch \in RangeOf(o.walked) : Class(o, ch) = "expired"
       [] w = "chain-never"   -> \E ch \in RangeOf(o.walked) : Class(o, ch) = "never"
       [] w = "vae"           -> SpecVAE(o) # <<>>
       [] w = "no-vae-but-chains" -> SpecVAE(o) = <<>> /\ o.walked # <<>>
       [] w = "parents"       -> SpecParents(o) # {}
       [] w = "two-parents"   -> Cardinality(SpecParents(o)) >= 2
       [] w = "cert-expired"  -> Exp(o)
       [] w = "cert-valid"    -> ~Exp(o)
       [] w = "type-root"     -> SpecType(o) = "root"
       [] w = "type-intermediate" -> SpecType(o) = "intermediate"
       [] w = "type-leaf"     -> SpecType(o) = "leaf"
       [] w = "type-unknown"  -> SpecType(o) = "unknown"
       [] w = "name-none"     -> o.name = ""
       [] w = "name-match"    -> o.name # "" /\ NameMatches(o)
       [] w = "name-mismatch" -> o.name # "" /\ ~NameMatches(o)
       [] w = "rev-must"      -> MustRev(o)
       [] w = "rev-must-not"  -> (o.onecrl.has \/ o.crlset.has) /\ ~MayRev(o)
       [] w = "rev-open"      -> MayRev(o) /\ ~MustRev(o)
       [] w = "expired-with-parents" -> Exp(o) /\ SpecParents(o) # {}}
=============================================================================
