------------------------------ MODULE Verifier ------------------------------
(* C12 - Verifier.Verify (verifier/verifier.go) reports a consistent view of the walked chains.

   A layer (constants only): a judge over one observation of Verify.  The statement, clause by
   clause ("the chains the graph walk finds" = what Graph.WalkChains returns for the same graph
   and certificate, recorded next to the result; whether THAT set is right is property C11):

     "current, expired and never-valid chains that partition the chains the graph walk finds"
           current ++ expired ++ never = walked (as multisets), and each chain sits in the class
           its validity window puts it in:  lower = max NotBefore, upper = min NotAfter over the
           chain;  current iff lower < t < upper;  expired iff not current and lower < upper;
           never-valid otherwise                                   (x509/verify.go FilterByDate)
     "valid-at-expiration chains that are those valid one second before the certificate's expiry"
           vae = the walked chains with lower < NotAfter(c) - 1 < upper
     "parents equal to the distinct second certificates of the relevant chains"
           relevant = vae if the certificate is expired at t, else current; no repetition
     "an expired flag"       expired = ~(NotBefore(c) < t < NotAfter(c))
     "a certificate type"    root if c was added as a root; else intermediate if c is a CA with at
                             least one parent; else leaf if it has a parent; else unknown
     "a name error"          none when no name is given; otherwise an error iff the name does not
                             match (hostname rules are property C09; the cases here use exact
                             lower-case DNS SAN entries only, so "matches" = name is a SAN entry)
     "an in-revocation-set flag that is set exactly when the supplied OneCRL or CRLSet lists the
      certificate"
           OneCRL lists c: an entry blocks (subject, key) of c, or lists (issuer name, serial) of c.
           CRLSet lists c: for some issuer of c, the set blocks the issuer's key or lists
           (issuer key, serial of c).  The CRLSet is keyed by the issuer key, and the result only
           knows issuers through chains, so two readings are allowed (rule 1): `must` uses the
           reported parents (as coded), `may` uses the second certificate of ANY walked chain;
           when no walked chain has a second certificate the issuer is unknown and any entry with
           c's serial / any blocked key makes both answers acceptable.                       *)
EXTENDS Walk

Count(s, x) == Cardinality({i \in 1..Len(s) : s[i] = x})
BagEq(s1, s2) == \A x \in RangeOf(s1) \cup RangeOf(s2) : Count(s1, x) = Count(s2, x)
MaxOf(S) == CHOOSE x \in S : \A y \in S : y <= x
MinOfS(S) == CHOOSE x \in S : \A y \in S : x <= y

VerifyReasons(o) ==
  LET C        == RangeOf(o.certs)
      cert(x)  == CHOOSE c \in C : c.id = x
      c0       == cert(o.start)
      known(ch)== \A i \in 1..Len(ch) : \E c \in C : c.id = ch[i]
      lower(ch)== MaxOf({cert(ch[i]).nb : i \in 1..Len(ch)})
      upper(ch)== MinOfS({cert(ch[i]).na : i \in 1..Len(ch)})
      validAt(ch, t) == lower(ch) < t /\ t < upper(ch)
      class(ch)== IF validAt(ch, o.t) THEN "current" ELSE IF lower(ch) < upper(ch) THEN "expired" ELSE "never"
      r        == o.res
      all      == r.current \o r.expired \o r.never
      allknown == \A i \in 1..Len(o.walked) : known(o.walked[i]) /\ Len(o.walked[i]) > 0
      exp      == ~(c0.nb < o.t /\ o.t < c0.na)
      rel      == IF exp THEN r.vae ELSE r.current
      wantPar  == {ch[2] : ch \in {x \in RangeOf(rel) : Len(x) >= 2}}
      pars     == RangeOf(r.parents)
      wantType == IF o.isroot THEN "root"
                  ELSE IF c0.ca /\ wantPar # {} THEN "intermediate"
                  ELSE IF wantPar # {} THEN "leaf" ELSE "unknown"
      \* revocation sets
      oneLists == o.onecrl.has /\ (\/ <<c0.subj, c0.key>> \in RangeOf(o.onecrl.blocked)
                                   \/ <<c0.iss, c0.serial>> \in RangeOf(o.onecrl.listed))
      hit(p)   == o.crlset.has /\ (\/ cert(p).key \in RangeOf(o.crlset.blocked)
                                   \/ <<cert(p).key, c0.serial>> \in RangeOf(o.crlset.listed))
      anyIss   == {ch[2] : ch \in {x \in RangeOf(o.walked) : Len(x) >= 2}}
      must     == oneLists \/ \E p \in wantPar : hit(p)
      may      == must \/ (\E p \in anyIss : hit(p))
                       \/ (anyIss = {} /\ o.crlset.has /\
                           (o.crlset.blocked # <<>> \/ \E e \in RangeOf(o.crlset.listed) : e[2] = c0.serial))
  IN
  IF o.panic # "" THEN {"panic"}
  ELSE IF ~allknown THEN {"walked-unknown-certificate"}
  ELSE
  {w \in {"partition", "class", "vae", "parents", "expired-flag", "type", "name-error", "name",
          "in-revocation-set"} :
     CASE w = "partition"    -> ~BagEq(all, o.walked)
       [] w = "class"        -> \/ \E i \in 1..Len(r.current) : known(r.current[i]) /\ class(r.current[i]) # "current"
                                \/ \E i \in 1..Len(r.expired) : known(r.expired[i]) /\ class(r.expired[i]) # "expired"
                                \/ \E i \in 1..Len(r.never)   : known(r.never[i]) /\ class(r.never[i]) # "never"
       [] w = "vae"          -> ~BagEq(r.vae, SelectSeq(o.walked, LAMBDA ch : validAt(ch, c0.na - 1)))
       [] w = "parents"      -> ~(NoDup(r.parents) /\ pars = wantPar)
       [] w = "expired-flag" -> r.isexpired # exp
       [] w = "type"         -> r.type # wantType
       [] w = "name-error"   -> r.nameerr # (o.name # "" /\ o.name \notin RangeOf(c0.dns))
       [] w = "name"         -> r.name # o.name
       [] w = "in-revocation-set" -> ~((must => r.inrev) /\ (r.inrev => may))}
=============================================================================
