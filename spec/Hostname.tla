------------------------------ MODULE Hostname ------------------------------
(* C09: Certificate.VerifyHostname follows the documented matching rules.

   "VerifyHostname accepts a host exactly when it is an IP literal (optionally bracketed) equal
    to one of the certificate's IP SANs, or a DNS name that case-insensitively matches a DNS SAN
    label by label (ignoring one trailing dot, '*' matching any single label), falling back to
    the subject common name only when the certificate has no SAN extension."

   Strings are sequences of CHARACTERS, a character being a one-character TLA+ string or one
   of the byte tokens below (TLC cannot look inside a string).  Generators compose hosts from
   TOKENS; Exp(token) is the character sequence of a token, so that multi-character IP
   literals can be used as single generator tokens.

   A certificate is  [hasSAN : BOOLEAN,        subjectAltName extension present
                      dns    : Seq(Seq(char)),  its dNSName entries, verbatim
                      ips    : Seq(Seq(0..255)),its iPAddress entries (4 or 16 bytes)
                      cn     : Seq(char)]       subject common name

   Verdict(host, cert) \in {"accept", "reject", "open"}.  "open" = the statement does not pin
   the answer down (an empty label under a '*' label or against an empty literal label, the
   empty name against itself, non-ASCII case folding); such cases are never judged.  A label
   count that differs after removing ONE trailing dot, or an empty label against a non-empty
   literal label, is a definite reject.

   Constants-free operator module. *)
EXTENDS Integers, Sequences, FiniteSets

----------------------------------------------------------------------------
(* characters *)
Digits    == <<"0", "1", "2", "3", "4", "5", "6", "7", "8", "9">>
LowerAZ   == <<"a", "b", "c", "d", "e", "f", "g", "h", "i", "j", "k", "l", "m",
               "n", "o", "p", "q", "r", "s", "t", "u", "v", "w", "x", "y", "z">>
UpperAZ   == <<"A", "B", "C", "D", "E", "F", "G", "H", "I", "J", "K", "L", "M",
               "N", "O", "P", "Q", "R", "S", "T", "U", "V", "W", "X", "Y", "Z">>
\* byte tokens: the two bytes of U+00E9 / U+00C9 in UTF-8, and one byte that is never valid UTF-8
ByteTokens == {"xC3", "xA9", "x89", "xFF"}

IndexIn(seq, c) == IF \E i \in 1..Len(seq) : seq[i] = c THEN CHOOSE i \in 1..Len(seq) : seq[i] = c ELSE 0
IsDigit(c)   == IndexIn(Digits, c) # 0
DigitVal(c)  == IndexIn(Digits, c) - 1
IsHex(c)     == IsDigit(c) \/ IndexIn(LowerAZ, c) \in 1..6 \/ IndexIn(UpperAZ, c) \in 1..6
HexVal(c)    == IF IsDigit(c) THEN DigitVal(c)
                ELSE IF IndexIn(LowerAZ, c) # 0 THEN 9 + IndexIn(LowerAZ, c) ELSE 9 + IndexIn(UpperAZ, c)

\* ASCII lower-casing, byte by byte; everything that is not A-Z is left alone (toLowerCaseASCII)
LowerChar(c) == IF IndexIn(UpperAZ, c) # 0 THEN LowerAZ[IndexIn(UpperAZ, c)] ELSE c
Lower(s)     == [i \in 1..Len(s) |-> LowerChar(s[i])]

\* generator tokens: single characters stand for themselves
Exp(tok) ==
  CASE tok = "<v4>"    -> <<"1", ".", "2", ".", "3", ".", "4">>
    [] tok = "<v4b>"   -> <<"1", ".", "2", ".", "3", ".", "5">>
    [] tok = "<v4z>"   -> <<"1", ".", "2", ".", "3", ".", "0", "4">>      \* leading zero: not an IP literal
    [] tok = "<v4big>" -> <<"1", ".", "2", ".", "3", ".", "2", "5", "6">> \* field > 255: not an IP literal
    [] tok = "<v4s>"   -> <<"1", ".", "2", ".", "3">>                      \* three fields: not an IP literal
    [] tok = "<m4>"    -> <<":", ":", "f", "f", "f", "f", ":", "1", ".", "2", ".", "3", ".", "4">>
    [] tok = "<m4x>"   -> <<":", ":", "F", "F", "F", "F", ":", "1", "0", "2", ":", "3", "0", "4">>  \* same address, hex form
    [] tok = "<v6>"    -> <<":", ":", "1">>
    [] tok = "<v6l>"   -> <<"0", ":", "0", ":", "0", ":", "0", ":", "0", ":", "0", ":", "0", ":", "1">>  \* ::1 in full
    [] tok = "<v6a>"   -> <<"a", ":", ":", "b">>
    [] tok = "<e9>"    -> <<"xC3", "xA9">>                               \* e-acute
    [] tok = "<E9>"    -> <<"xC3", "x89">>                               \* E-acute
    [] OTHER           -> <<tok>>
RECURSIVE ExpSeq(_)
ExpSeq(toks) == IF toks = <<>> THEN <<>> ELSE Exp(Head(toks)) \o ExpSeq(Tail(toks))

----------------------------------------------------------------------------
(* splitting *)
RECURSIVE SplitOn(_, _)
\* SplitOn(<<a . b>>, ".") = <<<<a>>, <<b>>>>; always at least one (possibly empty) part
SplitOn(s, sep) ==
  IF \E i \in 1..Len(s) : s[i] = sep
  THEN LET i == CHOOSE j \in 1..Len(s) : s[j] = sep /\ \A k \in 1..(j - 1) : s[k] # sep
       IN <<SubSeq(s, 1, i - 1)>> \o SplitOn(SubSeq(s, i + 1, Len(s)), sep)
  ELSE <<s>>

----------------------------------------------------------------------------
(* IP literals (what net.ParseIP accepts: dotted-quad IPv4, RFC 4291 IPv6 text with one "::"
   and an optional trailing dotted quad; no zones).  Value = eight 16-bit groups; an IPv4
   address is its IPv4-mapped IPv6 address, which is also how equality treats it. *)
RECURSIVE DecValue(_)
DecValue(f) == IF f = <<>> THEN 0 ELSE 10 * DecValue(SubSeq(f, 1, Len(f) - 1)) + DigitVal(f[Len(f)])
RECURSIVE HexValue(_)
HexValue(g) == IF g = <<>> THEN 0 ELSE 16 * HexValue(SubSeq(g, 1, Len(g) - 1)) + HexVal(g[Len(g)])

V4FieldOk(f) == /\ Len(f) >= 1 /\ Len(f) <= 3
                /\ \A i \in 1..Len(f) : IsDigit(f[i])
                /\ (Len(f) > 1 => f[1] # "0")
                /\ DecValue(f) <= 255
\* (cheap necessary condition first: exactly three dots)
IsIPv4(s)    == /\ Cardinality({i \in 1..Len(s) : s[i] = "."}) = 3
                /\ LET fs == SplitOn(s, ".") IN \A i \in 1..4 : V4FieldOk(fs[i])
V4Bytes(s)   == LET fs == SplitOn(s, ".") IN [i \in 1..4 |-> DecValue(fs[i])]
V4Groups(b)  == <<256 * b[1] + b[2], 256 * b[3] + b[4]>>
Mapped(b)    == <<0, 0, 0, 0, 0, 65535>> \o V4Groups(b)

HexGroupOk(g) == Len(g) \in 1..4 /\ \A i \in 1..Len(g) : IsHex(g[i])
\* a colon-separated list of groups whose last element may be a dotted quad; <<>> for the empty string
GroupList(s)   == IF s = <<>> THEN <<>> ELSE SplitOn(s, ":")
GroupListOk(gs, v4Allowed) ==
  \A i \in 1..Len(gs) : \/ HexGroupOk(gs[i])
                        \/ v4Allowed /\ i = Len(gs) /\ IsIPv4(gs[i])
GroupCount(gs) == IF gs # <<>> /\ IsIPv4(gs[Len(gs)]) THEN Len(gs) + 1 ELSE Len(gs)
RECURSIVE GroupValues(_)
GroupValues(gs) == IF gs = <<>> THEN <<>>
                   ELSE IF IsIPv4(Head(gs)) THEN V4Groups(V4Bytes(Head(gs)))
                   ELSE <<HexValue(Head(gs))>> \o GroupValues(Tail(gs))
Zeros(n) == [i \in 1..n |-> 0]

DoubleColons(s) == {i \in 1..(Len(s) - 1) : s[i] = ":" /\ s[i + 1] = ":"}
IsIPv6(s) ==
  LET dc == DoubleColons(s) IN
  IF ~\E i \in 1..Len(s) : s[i] = ":" THEN FALSE
  ELSE IF Cardinality(dc) > 1 THEN FALSE
  ELSE IF Cardinality(dc) = 1
  THEN LET i     == CHOOSE j \in dc : TRUE
           left  == GroupList(SubSeq(s, 1, i - 1))
           right == GroupList(SubSeq(s, i + 2, Len(s)))
       IN /\ GroupListOk(left, FALSE) /\ GroupListOk(right, TRUE)
          /\ GroupCount(left) + GroupCount(right) <= 7
  ELSE LET gs == GroupList(s) IN
       /\ gs # <<>> /\ GroupListOk(gs, TRUE) /\ GroupCount(gs) = 8
V6Groups(s) ==
  LET dc == DoubleColons(s) IN
  IF Cardinality(dc) = 1
  THEN LET i     == CHOOSE j \in dc : TRUE
           left  == GroupList(SubSeq(s, 1, i - 1))
           right == GroupList(SubSeq(s, i + 2, Len(s)))
       IN GroupValues(left) \o Zeros(8 - GroupCount(left) - GroupCount(right)) \o GroupValues(right)
  ELSE GroupValues(GroupList(s))

IsIP(s)     == IsIPv4(s) \/ IsIPv6(s)
IPGroups(s) == IF IsIPv4(s) THEN Mapped(V4Bytes(s)) ELSE V6Groups(s)

\* an iPAddress SAN entry: 4 or 16 bytes
SanGroups(b) == IF Len(b) = 4 THEN Mapped(b) ELSE [i \in 1..8 |-> 256 * b[2 * i - 1] + b[2 * i]]

----------------------------------------------------------------------------
(* DNS names *)
DropTrailingDot(s) == IF Len(s) > 0 /\ s[Len(s)] = "." THEN SubSeq(s, 1, Len(s) - 1) ELSE s
Labels(s)          == SplitOn(DropTrailingDot(s), ".")
HasEmptyIn(ls)     == \E i \in 1..Len(ls) : ls[i] = <<>>
HasEmptyLabel(s)   == HasEmptyIn(Labels(s))

\* The statement says "case-insensitively" about DNS names, which are ASCII.  Whether bytes outside
\* ASCII are case-folded too is not pinned down: two labels that differ under ASCII folding but agree
\* once the UTF-8 capital E-acute (C3 89) is folded to the small one (C3 A9) are left open.
RECURSIVE FoldE(_)
FoldE(l) == IF Len(l) < 2 THEN l
            ELSE IF l[1] = "xC3" /\ l[2] = "x89" THEN <<"xC3", "xA9">> \o FoldE(SubSeq(l, 3, Len(l)))
            ELSE <<l[1]>> \o FoldE(Tail(l))

\* pattern p against host h, both already lower-cased: "accept" / "reject" / "open".
\* The statement pins down: exactly ONE trailing dot is ignored on each side, then the names are compared
\* label by label.  So after that single removal
\*   - different label counts                                          => reject (definite)
\*   - a literal (non-'*') pattern label that differs from the host label, one of them possibly
\*     empty (a second trailing dot, a leading dot, "a..b")            => reject (definite)
\* and only what the statement really leaves unsaid stays open: an empty host label under a '*' label,
\* an empty literal label against an empty label (incl. the empty name), and non-ASCII case folding.
PairVerdict(p, h) ==
  LET pl == Labels(p)
      hl == Labels(h)
  IN IF Len(pl) # Len(hl) THEN "reject"
     ELSE IF \E i \in 1..Len(pl) : pl[i] # <<"*">> /\ pl[i] # hl[i] /\ FoldE(pl[i]) # FoldE(hl[i]) THEN "reject"
     ELSE IF \E i \in 1..Len(pl) : hl[i] = <<>> THEN "open"     \* empty under '*', or empty = empty
     ELSE IF \A i \in 1..Len(pl) : pl[i] = <<"*">> \/ pl[i] = hl[i] THEN "accept"
     ELSE "open"                                                \* equal only after folding E-acute

\* the names the certificate offers: DNS SANs, or the common name iff there is no SAN extension
Offered(cert) == IF cert.hasSAN THEN cert.dns ELSE <<cert.cn>>

DNSVerdict(host, cert) ==
  LET h  == Lower(host)
      ns == Offered(cert)
      vs == {PairVerdict(Lower(ns[i]), h) : i \in 1..Len(ns)}
  IN IF "accept" \in vs THEN "accept" ELSE IF "open" \in vs THEN "open" ELSE "reject"

\* "optionally bracketed": one pair of brackets around at least one character
Unbracket(host) == IF Len(host) >= 3 /\ host[1] = "[" /\ host[Len(host)] = "]"
                   THEN SubSeq(host, 2, Len(host) - 1) ELSE host

IPVerdict(cand, cert) ==
  LET g == IPGroups(cand) IN
  IF \E i \in 1..Len(cert.ips) : SanGroups(cert.ips[i]) = g THEN "accept" ELSE "reject"

Verdict(host, cert) ==
  LET cand == Unbracket(host) IN
  IF IsIP(cand) THEN IPVerdict(cand, cert) ELSE DNSVerdict(host, cert)

\* verdict and deciding rule in one pass
Decide(host, cert) ==
  LET cand == Unbracket(host)
      ip   == IsIP(cand)
  IN [want |-> IF ip THEN IPVerdict(cand, cert) ELSE DNSVerdict(host, cert),
      path |-> IF ip THEN (IF cand # host THEN "ip-bracketed" ELSE "ip")
               ELSE IF cert.hasSAN THEN "dns-san" ELSE "common-name",
      ipg  |-> IF ip THEN IPGroups(cand) ELSE <<>>]

\* which rule decided (for signatures of replay files and coverage counters)
Path(host, cert) ==
  IF IsIP(Unbracket(host)) THEN (IF Unbracket(host) # host THEN "ip-bracketed" ELSE "ip")
  ELSE IF cert.hasSAN THEN "dns-san" ELSE "common-name"
=============================================================================
