--------------------------- MODULE Trace_CTScanner ---------------------------
(* C17 trace / observation validator (U3).  Executions of the real ct/scanner.Scan
   (against the scripted fake log of the harness) are recorded as NDJSON - hook events
   from the add-only hooks in scanner.go plus the harness' own observations (matcher
   calls, callbacks, return value) - and accepted iff

     Level = "A":  the A-layer monitor of CTScanner.tla accepts every delivery and the
                   final observation (exactly once, correct index, return value,
                   completion).  A rejection here is a property violation candidate.
     Level = "B":  additionally every hook event is a step of the implementation-shaped
                   model (the step operators of CTScanner.tla).  A trace rejected at
                   level B but accepted at level A is model drift, not a violation.

   Many traces per file, separated by "reset" events that carry the configuration.
   Every event has the fields ev, id, a, b, err, pos (see verif_hooks_on.go for the
   meaning of a and b per hook event):
     reset  start size maxIdx batch nf nm kinds po hooks
     mc     pos            Matcher.{Certificate,Precertificate}Matches got the entry of log position pos
     cb     a pos          foundCert/foundPrecert got entry.Index = a for the entry of log position pos
     ret    a b err        Scan returned a (b = 1: within the watchdog, err: with an error)
     counters id a b pos   final certsProcessed, precertsSeen, unparsableEntries,
                           entriesWithNonFatalErrors (read after Scan returned)                *)
EXTENDS CTScanner, Json

CONSTANT Level

Trace == ndJsonDeserialize("ctscan_trace.ndjson")

VARIABLES l, st, mon, open
tvars == <<l, st, mon, open>>

NoCfg == [start |-> 0, size |-> 0, maxIdx |-> 0, batch |-> 1, nf |-> 1, nm |-> 1, kinds |-> <<>>,
          po |-> FALSE, hooks |-> FALSE]

TraceInit == /\ l = 1 /\ st = BInit(NoCfg, Unlimited) /\ mon = MonInit /\ open = FALSE
             /\ TLCSet(1, 1)

CfgOfEvent(e) == [start |-> e.start, size |-> e.size, maxIdx |-> e.maxIdx, batch |-> e.batch,
                  nf |-> e.nf, nm |-> e.nm, kinds |-> e.kinds, po |-> e.po, hooks |-> e.hooks]

BigCap == 1000000

----------------------------------------------------------------------------
(* A level: what the property demands of the observations *)
AStep(e) ==
  CASE e.ev = "reset" -> mon' = MonInit /\ open' = TRUE
    [] e.ev = "deq"   -> /\ open
                         /\ MonDeliverOK(st.cfg, mon, e.a, e.b)
                         /\ mon' = MonDeliver(mon, e.a) /\ UNCHANGED open
    [] e.ev = "cb"    -> /\ open
                         /\ MonCallbackOK(st.cfg, mon, e.a, e.pos)
                         /\ mon' = MonCallback(mon, e.pos) /\ UNCHANGED open
    [] e.ev = "mc"    -> /\ open
                         /\ MonMatcherCallOK(st.cfg, mon, e.pos)
                         /\ mon' = MonMatcherCall(mon, e.pos) /\ UNCHANGED open
    [] e.ev = "ret"   -> /\ open
                         /\ e.b = 1 /\ ~e.err                      \* terminated, no error
                         /\ FinalOK(st.cfg, mon, e.a, st.cfg.hooks)
                         /\ open' = FALSE /\ UNCHANGED mon         \* nothing may follow
    [] OTHER          -> UNCHANGED <<mon, open>>

----------------------------------------------------------------------------
(* B level: every hook event is a step of the model *)
AllF(s, pc) == [s EXCEPT !.F = [f \in DOMAIN s.F |-> [s.F[f] EXCEPT !.pc = pc]]]
AllM(s, pc) == [s EXCEPT !.M = [m \in DOMAIN s.M |-> [s.M[m] EXCEPT !.pc = pc]]]

Holder(e) == {m \in DOMAIN st.M : st.M[m].idx = e.b /\ st.M[m].pc \in {"add", "rd"}}

BStep(e) ==
  CASE e.ev = "reset"  -> st' = BInit(CfgOfEvent(e), Unlimited)
    [] e.ev = "sth"    -> /\ MainSTHEn(st) /\ e.a = st.cfg.size /\ e.b = StopIndex(st.cfg)
                          /\ st' = MainSTH(st)
    [] e.ev = "part"   -> /\ MainPushEn(st, BigCap) /\ Head(st.todo) = [s |-> e.a, e |-> e.b]
                          /\ st' = MainPush(st)
    [] e.ev = "closef" -> MainCloseFEn(st) /\ st' = MainCloseF(st)
    [] e.ev = "range"  -> \E k \in 1..Len(st.fetches) :
                            /\ (e.id + 1) \in DOMAIN st.F
                            /\ FTakeEn(st, e.id + 1, k) /\ st.fetches[k] = [s |-> e.a, e |-> e.b]
                            /\ st' = FTake(st, e.id + 1, k)
    [] e.ev = "fetch"  -> LET f == e.id + 1 IN
                          /\ f \in DOMAIN st.F /\ st.F[f].pc = "req" /\ st.F[f].s = e.a
                          /\ IF e.err \/ e.b = 0
                             THEN FReplyErrEn(st, f) /\ st' = FReplyErr(st, f)
                             ELSE FReplyOKEn(st, f, e.b) /\ st' = FReplyOK(st, f, e.b)
    [] e.ev = "enq"    -> LET f == e.id + 1 IN
                          /\ f \in DOMAIN st.F /\ FForwardEn(st, f, BigCap)
                          /\ st.F[f].s = e.a /\ st.F[f].e = e.b
                          /\ ~st.jclosed                           \* never send on a closed channel
                          /\ st' = FForward(st, f)
    [] e.ev = "fwait"  -> /\ st.mpc = "waitf" /\ st.fetches = <<>>
                          /\ \A f \in DOMAIN st.F : st.F[f].pc = "idle"
                          /\ st' = MainWaitF(AllF(st, "done"))
    [] e.ev = "deq"    -> \E k \in 1..Len(st.jobs) :
                            /\ (e.id + 1) \in DOMAIN st.M
                            /\ MTakeEn(st, e.id + 1, k) /\ st.jobs[k].idx = e.a
                            /\ st' = MTake(st, e.id + 1, k)
    [] e.ev = "ctr"    -> \E m \in Holder(e) :
                            IF e.a = 0
                            THEN MAddEn(st, m) /\ st' = MAdd(st, m)
                            ELSE /\ MIncEn(st, m) /\ MCounter(st, m) = e.a
                                 /\ st' = MInc(st, m)
    [] e.ev = "done"   -> /\ (e.id + 1) \in DOMAIN st.M
                          /\ st.M[e.id + 1].pc = "idle" /\ st.M[e.id + 1].idx = e.a
                          /\ UNCHANGED st
    [] e.ev = "mwait"  -> /\ st.mpc = "waitm" /\ st.jobs = <<>>
                          /\ \A m \in DOMAIN st.M : st.M[m].pc = "idle"
                          /\ st' = MainWaitM(AllM(st, "done"))
    [] e.ev = "tick"   -> IF TickExitEn(st) /\ e.a = 0 THEN st' = TickExit(st) ELSE UNCHANGED st
    [] e.ev = "ret"    -> st.mpc = "done" /\ st.ret = e.a /\ UNCHANGED st
    \* model level only: the statement does not fix the counters' values; a deficit here is a
    \* lost update, i.e. a manifestation of the data race the race detector runs look for
    [] e.ev = "counters" -> CountersOK(st.cfg, <<e.id, e.a, e.b, e.pos>>) /\ UNCHANGED st
    [] OTHER           -> UNCHANGED st

\* at level A the model state only carries the configuration
ACfg(e) == IF e.ev = "reset" THEN st' = BInit(CfgOfEvent(e), Unlimited) ELSE UNCHANGED st

TraceNext ==
  /\ l <= Len(Trace)
  /\ l' = l + 1
  /\ LET e == Trace[l] IN
     /\ AStep(e)
     /\ IF Level = "B" THEN BStep(e) ELSE ACfg(e)

TraceSpec == TraceInit /\ [][TraceNext]_tvars

HWM == TLCSet(1, IF l > TLCGet(1) THEN l ELSE TLCGet(1))
Accepted == \/ TLCGet(1) = Len(Trace) + 1
            \/ PrintT(<<"HWM", TLCGet(1)>>) /\ FALSE
=============================================================================
