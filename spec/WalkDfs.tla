------------------------------ MODULE WalkDfs ------------------------------
(* C11 B layer, part 1: the depth-first walk of verifier/walk.go as a recursive operator.

   DfsCoded: continueWalking as coded now (/repo 59a173b) -
     emit when the last edge is a root; stop when the last edge has no issuer; stop when the
     CURRENT node - the (subject, key) of every candidate edge - is already in the chain
     (fix d112422); stop when len(soFar) >= maxIntermediateCount; iterate
     current.parentsBySubjectAndKey, i.e. the edges with a recorded issuer, grouped by issuer
     node, skipping a group whose ISSUER node is already in the chain; then iterate
     current.parentsWithoutIssuer and follow those edges that are roots (fix 59a173b);
     canAddToChain (CA flag for non-roots, MaxPathLen against len(chain)-1, also for roots).
   Earlier revisions, kept because TLC predicted from them exactly the two defects the real
   code then showed:
     DfsPreFix  (up to 8c7a49f)  no current-node test  -> known finding C11-revisit-after-self-signed
     DfsPreFix2 (up to 0bbf913)  no second loop        -> known finding C11-root-edge-issuer-absent
   WalkGen.tla evaluates all three against the A layer of Walk.tla on every generated case.   *)
EXTENDS Walk

CanAdd(x, p) == (~x.root => x.ca) /\ (x.pathlen >= 0 => Len(p) - 1 <= x.pathlen)

RECURSIVE Dfs(_, _, _, _)
Dfs(E, p, fixed, dangroots) ==
  LET last == p[Len(p)]
      cur  == last.issuer
  IN IF last.root THEN {p}
     ELSE IF cur = NoNode THEN {}
     ELSE IF Len(p) >= MaxLen THEN {}
     ELSE IF fixed /\ cur \in Childs(p) THEN {}
     ELSE UNION {Dfs(E, Append(p, e), fixed, dangroots) :
                   e \in {x \in E : /\ x.child = cur
                                    /\ \/ /\ x.issuer # NoNode          \* only such edges are in a parents map
                                          /\ x.issuer \notin Childs(p)  \* test on the target node
                                       \/ dangroots /\ x.issuer = NoNode /\ x.root
                                    /\ CanAdd(x, p)}}

DfsPreFix(E, start)  == {IdsOf(p) : p \in Dfs(E, <<start>>, FALSE, FALSE)}
DfsPreFix2(E, start) == {IdsOf(p) : p \in Dfs(E, <<start>>, TRUE, FALSE)}
DfsCoded(E, start)   == {IdsOf(p) : p \in Dfs(E, <<start>>, TRUE, TRUE)}

=============================================================================
