------------------------------ MODULE WalkDfs ------------------------------
(* C11 B layer, part 1: the depth-first walk of verifier/walk.go as a recursive operator.

   DfsPreFix: continueWalking as it was coded up to /repo commit 8c7a49f -
     emit when the last edge is a root; stop when the last edge has no issuer; stop when
     len(soFar) >= maxIntermediateCount; iterate current.parentsBySubjectAndKey, i.e. only
     edges with a recorded issuer, grouped by issuer node; skip a group whose ISSUER node is
     already in the chain (that no-revisit test looks at the target node, not at the edge's
     own subject); canAddToChain (CA flag for non-roots, MaxPathLen against len(chain)-1, also
     for roots).  TLC predicted from this model exactly the defect the real code then showed
     (known finding C11-revisit-after-self-signed).
   DfsCoded: the walk as coded since the fix (/repo commit d112422, = proposed_fixes/
     C11-revisit-after-self-signed.diff): additionally stop when the CURRENT node - the
     (subject, key) of every candidate edge - is already in the chain.
   WalkGen.tla evaluates both against the A layer of Walk.tla on every generated case.        *)
EXTENDS Walk

CanAdd(x, p) == (~x.root => x.ca) /\ (x.pathlen >= 0 => Len(p) - 1 <= x.pathlen)

RECURSIVE Dfs(_, _, _)
Dfs(E, p, fixed) ==
  LET last == p[Len(p)]
      cur  == last.issuer
  IN IF last.root THEN {p}
     ELSE IF cur = NoNode THEN {}
     ELSE IF Len(p) >= MaxLen THEN {}
     ELSE IF fixed /\ cur \in Childs(p) THEN {}
     ELSE UNION {Dfs(E, Append(p, e), fixed) :
                   e \in {x \in E : /\ x.child = cur
                                    /\ x.issuer # NoNode            \* only such edges are in a parents map
                                    /\ x.issuer \notin Childs(p)    \* test on the target node
                                    /\ CanAdd(x, p)}}

DfsPreFix(E, start) == {IdsOf(p) : p \in Dfs(E, <<start>>, FALSE)}
DfsCoded(E, start)  == {IdsOf(p) : p \in Dfs(E, <<start>>, TRUE)}

=============================================================================
