----------------------------- MODULE Trace_Ideal -----------------------------
(* C03 observation validator (U3, function style).  Every line of ideal_obs.ndjson is either a
   verification observation {"c": case, "accept": b, "stdAccept": "yes"|"no"|"n/a", ...} judged
   by IdealBad, or (Kind = "self") {"obj","kt","alg","outcome","sigOK"} judged by SelfBad. *)
EXTENDS Ideal, Json, SequencesExt
CONSTANT Kind      \* "verify" | "self" | "mixed" (a record with a field "obj" is a self-signed-object observation)
Log == ndJsonDeserialize("ideal_obs.ndjson")
IsSelf(r) == Kind = "self" \/ (Kind = "mixed" /\ "obj" \in DOMAIN r)
BadOf(r) == IF IsSelf(r) THEN SelfBad(r) ELSE IdealBad(r)
ASSUME \A i \in DOMAIN Log : BadOf(Log[i]) = {} \/ PrintT(ToJson([reject |-> i, bad |-> SetToSeq(BadOf(Log[i])), std |-> <<>>]))
ASSUME PrintT(<<"JUDGED", Len(Log)>>)
=============================================================================
