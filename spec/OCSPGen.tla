------------------------------ MODULE OCSPGen ------------------------------
(* C13 case generator (U2, constant level).  Files written (one JSON object per line):

   ocsp_roundtrip.ndjson  {"t":template,"sc":scenario,"kt":[issuerKeyType,responderKeyType],
                           "verdict":..,"want":Expected}      clause (1), accepted scenarios
   ocsp_accept.ndjson     {"sc":scenario,"kt":..,"resp":abstract response,"verdict":..}
                                                              clause (3), every signer x
                                                              embedded certificate x verifier
   ocsp_fault.ndjson      {"sc":..,"kt":..,"fault":{kind[,cert]},"verdict":..}
                                                              clause (3), tampering
   ocsp_request.ndjson    {"hopt":..,"kt":..,"serial":..,"want":ExpectedRequest}   clause (2)
   ocsp_forcert.ndjson    {"singles":[{serial,mark}],"q":serial,"idx":n}           clause (4)

   Scenario == [signer |-> key role, responder |-> certificate id passed as responderCert,
                embedded |-> certificate id or "none", verifier |-> certificate id of the
                issuer handed to ParseResponse].
   Key roles: KI issuer, KO another CA, KR delegated responder, KX a stranger.
   Certificates (subject, key, issuer name, signing key):
     I  (I,KI,I,KI)  O (O,KO,O,KO)   the two CAs (self-signed)
     R  (R,KR,I,KI)  delegated responder, properly issued
     R2 (R,KR,I,KI)  a second certificate for the same responder key
     Ro (R,KR,O,KO)  responder certified by the other CA
     Rf (R,KR,I,KO)  names the issuer but is signed by the other CA's key
     Rs (R,KR,R,KR)  self-signed responder
     Rx (X,KX,I,KI)  properly issued certificate of a stranger *)
EXTENDS OCSP, TLC, Json, SequencesExt, FiniteSetsExt

CONSTANTS Deep      \* FALSE: quick product, TRUE: thorough product

Rep(b, n) == [i \in 1..n |-> b]

KeyTypePairs == IF Deep THEN {<<a, b>> : a \in {"P", "Q", "R"}, b \in {"P", "Q", "R"}}
                        ELSE {<<"P", "P">>, <<"R", "R">>, <<"Q", "P">>, <<"P", "R">>}

----------------------------------------------------------------------------
(* certificates and responses of the ideal model *)
CertSpec == [I  |-> <<"I", "KI", "I", "KI">>, O  |-> <<"O", "KO", "O", "KO">>,
             R  |-> <<"R", "KR", "I", "KI">>, R2 |-> <<"R", "KR", "I", "KI">>,
             Ro |-> <<"R", "KR", "O", "KO">>, Rf |-> <<"R", "KR", "I", "KO">>,
             Rs |-> <<"R", "KR", "R", "KR">>, Rx |-> <<"X", "KX", "I", "KI">>]
CertIds == {"I", "O", "R", "R2", "Ro", "Rf", "Rs", "Rx"}

AlgOf(key) == "alg-" \o key        \* the algorithm a key signs with (one per key here)

CertOf(id) ==
  LET s == CertSpec[id]
      tbs == [subj |-> s[1], key |-> s[2], id |-> id] IN
  [tbs |-> tbs, alg |-> AlgOf(s[4]), sig |-> Sig(s[4], AlgOf(s[4]), tbs)]

Resp(sc) ==
  [tbs |-> "m", alg |-> AlgOf(sc.signer), sig |-> Sig(sc.signer, AlgOf(sc.signer), "m"),
   certs |-> IF sc.embedded = "none" THEN <<>> ELSE <<CertOf(sc.embedded)>>, malformed |-> FALSE]

KeyOfCert(id) == CertSpec[id][2]

Scenarios ==
  {[signer |-> k, embedded |-> e, responder |-> IF e = "none" THEN "I" ELSE e, verifier |-> v] :
     k \in {"KI", "KR", "KX"}, e \in {"none", "R", "Ro", "Rf", "Rs", "Rx"}, v \in {"I", "O"}}

ScVerdict(sc) == Verdict(Resp(sc), KeyOfCert(sc.verifier))

Direct1   == [signer |-> "KI", embedded |-> "none", responder |-> "I", verifier |-> "I"]
Delegated == [signer |-> "KR", embedded |-> "R",    responder |-> "R", verifier |-> "I"]

\* sanity of the A layer, checked by TLC: the two proper ways of responding are accepted,
\* no scenario verified by the other CA is accepted unless that CA's key signed the embedded
\* certificate, and a forged or self-signed responder certificate never convinces the issuer
ASSUME ScVerdict(Direct1) = "accept" /\ ScVerdict(Delegated) = "accept"
ASSUME \A sc \in Scenarios : (sc.verifier = "O" /\ ScVerdict(sc) = "accept") => sc.embedded \in {"Ro", "Rf"}
ASSUME \A sc \in Scenarios : (sc.verifier = "I" /\ sc.embedded \in {"Ro", "Rf", "Rs"}) => ScVerdict(sc) # "accept"

AcceptCases ==
  SetToSeq({[sc |-> sc, kt |-> kt, verdict |-> ScVerdict(sc)] : sc \in Scenarios, kt \in KeyTypePairs})

----------------------------------------------------------------------------
(* clause (1): templates *)
Serials == IF Deep THEN {<<1>>, <<0, 128>>, <<255>>, <<1>> \o Rep(0, 7) \o <<1>>, <<127>> \o Rep(255, 19)}
                   ELSE {<<1>>, <<0, 128>>, <<1>> \o Rep(0, 7) \o <<1>>}
Reasons == IF Deep THEN {0, 1, 2, 3, 4, 5, 6, 8, 9, 10} ELSE {0, 1, 6, 10}
Hashes  == IF Deep THEN {"default", "sha1", "sha256", "sha384", "sha512"} ELSE {"default", "sha256", "sha512"}
X(oid, val) == [oid |-> oid, crit |-> FALSE, val |-> val]
ExtLists == {<<>>, <<X("1.3.6.1.5.5.7.48.1.2", <<4, 2, 1, 2>>)>>,
             <<X("1.3.6.1.4.1.99999.3", <<5, 0>>), X("1.3.6.1.5.5.7.48.1.6", <<48, 0>>)>>}
\* (thisUpdate, nextUpdate, revokedAt); 978393600 = 2051-01-01
TimeTriples == {<<86400, 172800, 3600>>, <<978393600, 978393601, 86399>>} \cup
               (IF Deep THEN {<<0, 1, 0>>, <<172799, 978393600, 172798>>} ELSE {})

StatusReason == {<<"good", 0>>, <<"unknown", 0>>, <<"good", 1>>} \cup {<<"revoked", r>> : r \in Reasons}

Templates ==
  {[status |-> sr[1], reason |-> sr[2], serial |-> s, ihash |-> h,
    thisUpdate |-> tt[1], nextUpdate |-> tt[2], revokedAt |-> tt[3], exts |-> xs] :
     sr \in StatusReason, s \in Serials, h \in Hashes, tt \in TimeTriples, xs \in ExtLists}

RoundTripCases ==
  SetToSeq({[t |-> t, sc |-> sc, kt |-> kt, verdict |-> ScVerdict(sc),
             want |-> Expected(t, sc.responder, sc.embedded # "none")] :
              t \in Templates, sc \in {Direct1, Delegated}, kt \in KeyTypePairs})

----------------------------------------------------------------------------
(* clause (3): faults on the two accepted kinds of response *)
FaultSeq ==
  << [kind |-> "none"], [kind |-> "tbs"], [kind |-> "sig"], [kind |-> "alg"], [kind |-> "alg_params"],
     [kind |-> "wrapper"], [kind |-> "cert_tbs"], [kind |-> "cert_sig"], [kind |-> "cert_alg"],
     [kind |-> "cert_alg_params"], [kind |-> "drop"] >>
SwapIds == <<"R2", "Ro", "Rf", "Rs", "Rx", "I">>

FaultCase(sc, kt, f, name) ==
  [sc |-> sc, kt |-> kt, fault |-> name,
   verdict |-> FaultVerdict(Resp(sc), f, KeyOfCert(sc.verifier))]

FaultCasesFor(sc, kt) ==
  LET fs == SelectSeq(FaultSeq, LAMBDA f : FaultApplies(Resp(sc), f)) IN
  [i \in 1..Len(fs) |-> FaultCase(sc, kt, fs[i], [kind |-> fs[i].kind, cert |-> "none"])]
  \o (IF sc.embedded = "none" THEN <<>>
      ELSE [i \in 1..Len(SwapIds) |->
              FaultCase(sc, kt, [kind |-> "swap", cert |-> CertOf(SwapIds[i])],
                        [kind |-> "swap", cert |-> SwapIds[i]])])

RECURSIVE Flatten(_)
Flatten(ss) == IF ss = <<>> THEN <<>> ELSE Head(ss) \o Flatten(Tail(ss))

KTSeq == SetToSeq(KeyTypePairs)
FaultCases ==
  Flatten([i \in 1..(2 * Len(KTSeq)) |->
             FaultCasesFor(IF i % 2 = 0 THEN Direct1 ELSE Delegated, KTSeq[((i - 1) \div 2) + 1])])

\* sanity: every real fault on a proper response is rejected, except replacing the embedded
\* certificate by another proper certificate of the same responder key
ASSUME \A i \in 1..Len(FaultCases) :
         LET c == FaultCases[i] IN
         (c.fault.kind \notin {"none", "alg_params", "cert_alg_params"} /\ c.verdict # "reject")
            => (c.fault.kind = "swap" /\ c.fault.cert = "R2")

----------------------------------------------------------------------------
(* clause (2): requests *)
RequestCases ==
  SetToSeq({[hopt |-> h, kt |-> kt, serial |-> s, want |-> ExpectedRequest(h, "I", s)] :
              h \in {"nil", "zero", "sha1", "sha256", "sha384", "sha512"}, kt \in KeyTypePairs, s \in Serials})

----------------------------------------------------------------------------
(* clause (4): several single responses *)
FSerials == {<<1>>, <<255>>, <<1>> \o Rep(0, 7) \o <<1>>}      \* 1, -1, 2^64+1
Singles  == {[serial |-> s, mark |-> m] : s \in FSerials, m \in {1, 2}}
MaxSingles == IF Deep THEN 4 ELSE 3
SingleLists == UNION {[1..k -> Singles] : k \in 1..MaxSingles}
ForCertCases ==
  SetToSeq({[singles |-> l, q |-> s, idx |-> ForCert(l, s)] : l \in SingleLists, s \in FSerials \cup {<<2>>}})

ASSUME ndJsonSerialize("ocsp_roundtrip.ndjson", RoundTripCases)
ASSUME ndJsonSerialize("ocsp_accept.ndjson", AcceptCases)
ASSUME ndJsonSerialize("ocsp_fault.ndjson", FaultCases)
ASSUME ndJsonSerialize("ocsp_request.ndjson", RequestCases)
ASSUME ndJsonSerialize("ocsp_forcert.ndjson", ForCertCases)
ASSUME PrintT(<<"CASES", Len(RoundTripCases), Len(AcceptCases), Len(FaultCases), Len(RequestCases), Len(ForCertCases)>>)

VARIABLE done
Init == done = TRUE
Next == UNCHANGED done
Spec == Init /\ [][Next]_done
=============================================================================
