------------------------------ MODULE OCSPGen ------------------------------
(* C13 case generator (U2, constant level).  Files written (one JSON object per line):

   ocsp_roundtrip.ndjson  {"t":template,"sc":scenario,"kt":[issuerKeyType,responderKeyType],
                           "verdict":..,"want":Expected}      clause (1), accepted scenarios
   ocsp_accept.ndjson     {"sc":scenario,"kt":..,"api":..,"verdict":..}
                                                              clause (3), every signer x
                                                              embedded certificate (incl. name
                                                              collisions) x responder x verifier
                                                              x entry point
   ocsp_rid.ndjson        {"sc":..,"kt":..,"rid":{kind,target},"verdict":..}
                                                              clause (3), responder ID by name /
                                                              key hash pointing at someone else
   ocsp_fault.ndjson      {"sc":..,"kt":..,"fault":{kind,cert},"t":..,"want":..,"verdict":..}
                                                              clause (3), tampering
   ocsp_request.ndjson    {"hopt":..,"kt":..,"serial":..,"want":ExpectedRequest}   clause (2)
   ocsp_forcert.ndjson    {"singles":[{serial,mark}],"q":serial,"idx":n,"kt":..}   clause (4)

   Scenarios, certificates and key roles: see OCSP.tla, "scenario world". *)
EXTENDS OCSP, TLC, Json, SequencesExt, FiniteSetsExt

CONSTANTS Deep      \* FALSE: quick product, TRUE: thorough product

Rep(b, n) == [i \in 1..n |-> b]

KeyTypePairs == IF Deep THEN {<<a, b>> : a \in {"P", "Q", "R"}, b \in {"P", "Q", "R"}}
                        ELSE {<<"P", "P">>, <<"R", "R">>, <<"Q", "P">>, <<"P", "R">>}

\* sanity of the A layer, checked by TLC: the two proper ways of responding are accepted,
\* no scenario verified by the other CA is accepted unless that CA's key signed the embedded
\* certificate, and a forged or self-signed responder certificate never convinces the issuer
ASSUME ScVerdict(Direct1) = "accept" /\ ScVerdict(Delegated) = "accept"
ASSUME \A sc \in Scenarios : WellSigned(Resp(sc), sc.signer)
ASSUME \A sc \in Scenarios : (sc.verifier = "O" /\ ScVerdict(sc) = "accept") => sc.embedded \in {"Ro", "Rf"}
ASSUME \A sc \in Scenarios : (sc.verifier = "I" /\ sc.embedded \in {"Ro", "Rf", "Rs"}) => ScVerdict(sc) # "accept"

\* name collisions: a certificate that merely carries the issuer's subject (and subjectKeyId)
\* never convinces anybody unless the issuer's key signed the response itself
ASSUME \A sc \in Scenarios :
         (sc.embedded \in NameCollisionIds /\ sc.signer # "KI" /\ sc.verifier = "I") => ScVerdict(sc) = "reject"
ASSUME \A sc \in Scenarios : (sc.embedded \in NameCollisionIds /\ sc.verifier = "O") => ScVerdict(sc) = "reject"

\* every scenario is run through both entry points: ParseResponse(bytes, issuer) and
\* ParseResponseForCert(bytes, certificate with the response's serial, issuer)
\* and with the signature algorithm left to the key's default and requested explicitly: the
\* verdict does not depend on it, the label (sigalg) and its truth (WellSigned) are checked
SigAlgs == IF Deep THEN {"default", "sha1", "sha256", "sha384", "sha512"} ELSE {"default", "sha512"}
AcceptCases ==
  SetToSeq({[sc |-> sc, kt |-> kt, api |-> api, sigalg |-> a, verdict |-> ScVerdict(sc),
             label |-> SigAlgOf([sigalg |-> a], SignerType(sc, kt))] :
              sc \in Scenarios, kt \in KeyTypePairs, api \in {"ParseResponse", "ParseResponseForCert"}, a \in SigAlgs})

(* responder ID forms, on responses from the harness' own encoder (CreateResponse only writes
   the by-name form): signer x embedded certificate x responder ID that points at the
   issuer's / the responder's name or key hash x verifier.  Same rule, same verdict. *)
RidCases ==
  SetToSeq({[sc |-> sc, kt |-> kt, rid |-> [kind |-> k, target |-> t], verdict |-> RidVerdict(sc, [kind |-> k, target |-> t])] :
              sc \in {x \in Scenarios : x.responder = "I" /\ x.embedded \in {"none", "R", "Rx", "Rs", "Rn", "Rms"}},
              kt \in KeyTypePairs, k \in {"name", "key"}, t \in {"I", "R", "Rx"}})

----------------------------------------------------------------------------
(* clause (1): templates *)
Serials == IF Deep THEN {<<1>>, <<0, 128>>, <<255>>, <<1>> \o Rep(0, 7) \o <<1>>, <<127>> \o Rep(255, 19)}
                   ELSE {<<1>>, <<0, 128>>, <<1>> \o Rep(0, 7) \o <<1>>}
Reasons == IF Deep THEN {0, 1, 2, 3, 4, 5, 6, 8, 9, 10} ELSE {0, 1, 6, 10}
Hashes  == {"default", "sha1", "sha256", "sha384", "sha512"}
X(oid, val) == [oid |-> oid, crit |-> FALSE, val |-> val]
ExtLists == {<<>>, <<X("1.3.6.1.5.5.7.48.1.2", <<4, 2, 1, 2>>)>>,
             <<X("1.3.6.1.4.1.99999.3", <<5, 0>>), X("1.3.6.1.5.5.7.48.1.6", <<48, 0>>)>>}
\* (thisUpdate, nextUpdate, revokedAt); 978393600 = 2051-01-01
TimeTriples == {<<86400, 172800, 3600>>, <<978393600, 978393601, 86399>>} \cup
               (IF Deep THEN {<<0, 1, 0>>, <<172799, 978393600, 172798>>} ELSE {})

StatusReason == {<<"good", 0>>, <<"unknown", 0>>, <<"good", 1>>} \cup {<<"revoked", r>> : r \in Reasons}

Templates ==
  {[status |-> sr[1], reason |-> sr[2], serial |-> s, ihash |-> h, sigalg |-> "default",
    thisUpdate |-> tt[1], nextUpdate |-> tt[2], revokedAt |-> tt[3], exts |-> xs] :
     sr \in StatusReason, s \in Serials, h \in Hashes, tt \in TimeTriples, xs \in ExtLists}
  \cup
  \* every signature algorithm the signing API accepts for a key type, on a small template set
  {[status |-> st, reason |-> 1, serial |-> <<0, 128>>, ihash |-> h, sigalg |-> a,
    thisUpdate |-> 86400, nextUpdate |-> 172800, revokedAt |-> 3600, exts |-> <<>>] :
     st \in {"good", "revoked"}, h \in {"default", "sha512"}, a \in {"sha1", "sha256", "sha384", "sha512"}}

RoundTripCases ==
  SetToSeq({[t |-> t, sc |-> sc, kt |-> kt, verdict |-> ScVerdict(sc),
             want |-> Expected(t, SubjectOf(sc.responder), sc.embedded # "none", SignerType(sc, kt))] :
              t \in Templates, sc \in {Direct1, Delegated}, kt \in KeyTypePairs})

----------------------------------------------------------------------------
(* clause (3): faults on the two accepted kinds of response *)
FaultSeq ==
  << [kind |-> "none"], [kind |-> "tbs"], [kind |-> "sig"], [kind |-> "alg"], [kind |-> "alg_params"],
     [kind |-> "status"], [kind |-> "resptype"], [kind |-> "headers"],
     [kind |-> "cert_tbs"], [kind |-> "cert_sig"], [kind |-> "cert_alg"], [kind |-> "drop"] >>
SwapIds == <<"R2", "Ro", "Rf", "Rs", "Rx", "I", "Rn", "Rm", "Rnx", "Rns", "Rms">>

\* the response that is tampered with is built from this template; where the verdict is
\* "open" or "accept" an accepted response must still carry exactly these fields
FaultTemplate == [status |-> "revoked", reason |-> 1, serial |-> <<1>> \o Rep(0, 7) \o <<1>>, ihash |-> "sha256", sigalg |-> "default",
                  thisUpdate |-> 86400, nextUpdate |-> 172800, revokedAt |-> 3600, exts |-> <<>>]

FaultCase(sc, kt, f, name) ==
  [sc |-> sc, kt |-> kt, fault |-> name, t |-> FaultTemplate,
   want |-> Expected(FaultTemplate, SubjectOf(sc.responder), sc.embedded # "none", SignerType(sc, kt)),
   verdict |-> FaultVerdict(Resp(sc), f, KeyOfCert(sc.verifier))]

FaultCasesFor(sc, kt) ==
  LET fs == SelectSeq(FaultSeq, LAMBDA f : FaultApplies(Resp(sc), f)) IN
  [i \in 1..Len(fs) |-> FaultCase(sc, kt, fs[i], [kind |-> fs[i].kind, cert |-> "none"])]
  \o (IF sc.embedded = "none"
      THEN << FaultCase(sc, kt, [kind |-> "reorder"], [kind |-> "reorder", cert |-> "none"]) >>
      ELSE [i \in 1..Len(SwapIds) |->
              FaultCase(sc, kt, [kind |-> "swap", cert |-> CertOf(SwapIds[i])],
                        [kind |-> "swap", cert |-> SwapIds[i]])])

RECURSIVE Flatten(_)
Flatten(ss) == IF ss = <<>> THEN <<>> ELSE Head(ss) \o Flatten(Tail(ss))

KTSeq == SetToSeq(KeyTypePairs)
FaultCases ==
  Flatten([i \in 1..(2 * Len(KTSeq)) |->
             FaultCasesFor(IF i % 2 = 0 THEN Direct1 ELSE Delegated, KTSeq[((i - 1) \div 2) + 1])])

\* sanity: every real fault on a proper response is rejected, except replacing the embedded
\* certificate by another proper certificate of the same responder key
ASSUME \A i \in 1..Len(FaultCases) :
         LET c == FaultCases[i] IN
         (c.fault.kind \notin ({"none"} \cup VoidRegions) /\ c.verdict # "reject")
            => (c.fault.kind = "swap" /\ c.fault.cert = "R2")

----------------------------------------------------------------------------
(* clause (2): requests *)
RequestCases ==
  SetToSeq({[hopt |-> h, kt |-> kt, serial |-> s, want |-> ExpectedRequest(h, "I", s)] :
              h \in {"nil", "zero", "sha1", "sha256", "sha384", "sha512"}, kt \in KeyTypePairs, s \in Serials})

----------------------------------------------------------------------------
(* clause (4): several single responses *)
FSerials == {<<1>>, <<255>>, <<1>> \o Rep(0, 7) \o <<1>>}      \* 1, -1, 2^64+1
Singles  == {[serial |-> s, mark |-> m] : s \in FSerials, m \in {1, 2}}
MaxSingles == IF Deep THEN 4 ELSE 3
SingleLists == UNION {[1..k -> Singles] : k \in 1..MaxSingles}
\* the issuer key type matters only for the signature check: all key types for the short
\* lists, P-256 for the long ones
ForCertCases ==
  SetToSeq(UNION {{[singles |-> l, q |-> s, idx |-> ForCert(l, s), kt |-> kt] :
                     s \in FSerials \cup {<<2>>},
                     kt \in (IF Len(l) <= 2 THEN KeyTypePairs ELSE {<<"P", "P">>})} : l \in SingleLists})

ASSUME ndJsonSerialize("ocsp_roundtrip.ndjson", RoundTripCases)
ASSUME ndJsonSerialize("ocsp_accept.ndjson", AcceptCases)
ASSUME ndJsonSerialize("ocsp_fault.ndjson", FaultCases)
ASSUME ndJsonSerialize("ocsp_request.ndjson", RequestCases)
ASSUME ndJsonSerialize("ocsp_forcert.ndjson", ForCertCases)
ASSUME ndJsonSerialize("ocsp_rid.ndjson", RidCases)
ASSUME PrintT(<<"CASES", Len(RoundTripCases), Len(AcceptCases), Len(FaultCases), Len(RequestCases), Len(ForCertCases), Len(RidCases)>>)

VARIABLE done
Init == done = TRUE
Next == UNCHANGED done
Spec == Init /\ [][Next]_done
=============================================================================
