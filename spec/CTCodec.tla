------------------------------- MODULE CTCodec -------------------------------
(* C16: RFC 6962 structures in TLS presentation language (RFC 5246 section 4) as
   byte-sequence-building operators, and the ideal-signature acceptance rule of the CT
   signature verifier.  Constants-only module (A layer); used by
     CTCodecGen.tla    - enumerates abstract values over field length classes and emits, per
                         case, the bytes the layout demands (or the demanded error);
                         enumerates the verification matrix (object x key type x mutation)
     Trace_CTCodec.tla - judges records of what zcrypto's serialisers produced on seeded
                         random values (observation validation).

   Wide fields are never TLA+ integers or long sequences:
     a field value  is [n, s]: n bytes, byte i (0-based) = (s + i) % 256, or, when s = -1,
                    explicit bytes [n, s, b];
     a layout       is a sequence of chunks  Lit(bytes) | Pat(n, s)  that the harness
                    expands; 64-bit integers are 8-byte sequences.                        *)
EXTENDS Integers, Sequences, FiniteSets, TLC

Max16 == 65535
Max24 == 16777215

Lit(b)    == [t |-> "lit", b |-> b, n |-> Len(b), s |-> 0]
Pat(n, s) == [t |-> "pat", b |-> <<>>, n |-> n, s |-> s]

Fld(n, s)  == [n |-> n, s |-> s, b |-> <<>>]          \* pattern field
FldB(b)    == [n |-> Len(b), s |-> -1, b |-> b]        \* explicit field
FldChunk(f) == IF f.s < 0 THEN Lit(f.b) ELSE Pat(f.n, f.s)

U16(x) == <<x \div 256, x % 256>>
U24(x) == <<x \div 65536, (x \div 256) % 256, x % 256>>

\* A layout result: ok = FALSE is "cannot be represented" (the serialiser must fail).
OK(cs) == [ok |-> TRUE, cs |-> cs]
ERR    == [ok |-> FALSE, cs |-> <<>>]

RECURSIVE CatAll(_)
CatAll(rs) == IF rs = <<>> THEN OK(<<>>)
              ELSE LET h == Head(rs) t == CatAll(Tail(rs)) IN
                   IF h.ok /\ t.ok THEN OK(h.cs \o t.cs) ELSE ERR

RECURSIVE ChunksLen(_)
ChunksLen(cs) == IF cs = <<>> THEN 0 ELSE Head(cs).n + ChunksLen(Tail(cs))

\* opaque v<min..max> with a k-byte length prefix (k = 2 or 3)
Var(f, k, min, max) ==
  IF f.n < min \/ f.n > max THEN ERR
  ELSE OK(<<Lit(IF k = 2 THEN U16(f.n) ELSE U24(f.n)), FldChunk(f)>>)
Fixed(f, n) == IF f.n # n THEN ERR ELSE OK(<<FldChunk(f)>>)
Bytes(b) == OK(<<Lit(b)>>)

----------------------------------------------------------------------------
(* RFC 5246 4.7  DigitallySigned: hash(1) signature(1) opaque signature<0..2^16-1> *)
DSLayout(d) == CatAll(<<Bytes(<<d.h, d.s>>), Var(d.sig, 2, 0, Max16)>>)

(* RFC 6962 3.2  SignedCertificateTimestamp:
     Version sct_version(1) = v1(0); LogID id(32); uint64 timestamp;
     CtExtensions extensions<0..2^16-1>; digitally-signed struct                          *)
SCTLayout(x) ==
  IF x.ver # 0 THEN ERR
  ELSE CatAll(<<Bytes(<<0>>), Fixed(x.logid, 32), Bytes(x.ts), Var(x.ext, 2, 0, Max16), DSLayout(x.ds)>>)

(* RFC 6962 3.4  MerkleTreeLeaf / TimestampedEntry:
     Version version(1) = 0; MerkleLeafType leaf_type(1) = timestamped_entry(0);
     uint64 timestamp; LogEntryType entry_type(2);
     x509_entry: ASN.1Cert<1..2^24-1> | precert_entry: opaque issuer_key_hash[32], TBSCertificate<1..2^24-1>;
     CtExtensions extensions<0..2^16-1>                                                    *)
LeafLayout(x) ==
  IF x.ver # 0 \/ x.ltype # 0 THEN ERR
  ELSE CatAll(<<Bytes(<<0, 0>>), Bytes(x.ts),
                IF x.etype = 0 THEN CatAll(<<Bytes(<<0, 0>>), Var(x.cert, 3, 1, Max24)>>)
                ELSE IF x.etype = 1 THEN CatAll(<<Bytes(<<0, 1>>), Fixed(x.ikh, 32), Var(x.cert, 3, 1, Max24)>>)
                ELSE ERR,
                Var(x.ext, 2, 0, Max16)>>)

(* RFC 6962 3.1 / 4.6  extra_data:
     x509:    ASN.1Cert certificate_chain<0..2^24-1>, each ASN.1Cert<1..2^24-1>
     precert: ASN.1Cert pre_certificate; ASN.1Cert precertificate_chain<0..2^24-1>        *)
RECURSIVE CertListBody(_)
CertListBody(certs) == IF certs = <<>> THEN OK(<<>>)
                       ELSE CatAll(<<Var(Head(certs), 3, 1, Max24), CertListBody(Tail(certs))>>)
CertList(certs) == LET body == CertListBody(certs) IN
                   IF ~body.ok \/ ChunksLen(body.cs) > Max24 THEN ERR
                   ELSE CatAll(<<Bytes(U24(ChunksLen(body.cs))), body>>)
ChainLayout(x) == IF x.kind = "x509" THEN CertList(x.certs)
                  ELSE CatAll(<<Var(x.pre, 3, 1, Max24), CertList(x.certs)>>)

(* RFC 6962 3.2  input of the SCT signature:
     Version sct_version = 0; SignatureType signature_type = certificate_timestamp(0);
     uint64 timestamp; LogEntryType entry_type; x509: ASN.1Cert | precert: issuer_key_hash[32] TBSCertificate;
     CtExtensions extensions                                                               *)
SCTSigInput(x) ==
  IF x.ver # 0 THEN ERR
  ELSE CatAll(<<Bytes(<<0, 0>>), Bytes(x.ts),
                IF x.etype = 0 THEN CatAll(<<Bytes(<<0, 0>>), Var(x.cert, 3, 1, Max24)>>)
                ELSE IF x.etype = 1 THEN CatAll(<<Bytes(<<0, 1>>), Fixed(x.ikh, 32), Var(x.cert, 3, 1, Max24)>>)
                ELSE ERR,
                Var(x.ext, 2, 0, Max16)>>)

(* RFC 6962 3.5  input of the STH signature:
     Version version = 0; SignatureType signature_type = tree_hash(1); uint64 timestamp;
     uint64 tree_size; opaque sha256_root_hash[32]                                         *)
STHSigInput(x) ==
  IF x.ver # 0 THEN ERR
  ELSE CatAll(<<Bytes(<<0, 1>>), Bytes(x.ts), Bytes(x.size), Fixed(x.root, 32)>>)

----------------------------------------------------------------------------
(* What the property allows a serialiser to do (statement, first sentence): fail, or yield
   exactly the layout (the only byte string that deserialises, per RFC 6962, to the value)
   with the reported length; when the value cannot be represented it must fail.  "fails"
   is always allowed by the statement; the verifier clause below is what forces the
   signature-input serialisers to succeed on genuine objects.
   r = [err, n (length of the output), eq (output = expansion of the layout),
        rt (zcrypto's own deserialiser returned the same value), replen (reported length, -1 none)] *)
SerialiseOK(layout, r) ==
  \/ r.err
  \/ /\ layout.ok
     /\ r.eq /\ r.n = ChunksLen(layout.cs)
     /\ r.rt
     /\ r.replen \in {-1, r.n}

\* The deserialiser applied to the layout of a value must return that value.
DeserialiseOK(layout, r) == layout.ok => (~r.err /\ r.rt)

----------------------------------------------------------------------------
(* Ideal signatures: a signature is the term sign(key, input); the verifier must accept an
   object exactly when the signature it carries is sign(log key, SigInput(object)).
   Mutations of a genuine (object, signature) pair and what they demand:
     none                                        accept
     every mutation of a signed field, of the    reject  (the signature no longer covers the
     signature value, key or algorithm ids               presented input / is not by the log key)
     sig-trailing, sig-malleable                 open    (same (r,s) re-encoded / (r, n-s): whether
                                                         that still is "its signature by the log key"
                                                         can be read both ways)                  *)
MutsCommon == {"none", "ts", "ext-len", "ext-byte", "cert-byte", "cert-len", "sig-flip", "sig-empty", "alg-sig",
               "alg-hash", "key-other", "key-type", "ver", "sig-trailing"}
MutsOf(obj, key) ==
  (CASE obj = "sct-cert"    -> MutsCommon \cup {"etype"}
     [] obj = "sct-precert" -> MutsCommon \cup {"etype", "ikh"}
     [] obj = "sth"         -> {"none", "ts", "size", "root", "sig-flip", "sig-empty", "alg-sig", "alg-hash",
                                "key-other", "key-type", "ver", "sig-trailing"})
  \cup (IF key = "P" THEN {"sig-malleable"} ELSE {})

OpenMuts == {"sig-trailing", "sig-malleable"}
VerifyDemand(mut) == IF mut = "none" THEN "accept" ELSE IF mut \in OpenMuts THEN "either" ELSE "reject"
VerifyOK(mut, accepted) == CASE VerifyDemand(mut) = "accept" -> accepted
                             [] VerifyDemand(mut) = "reject" -> ~accepted
                             [] OTHER -> TRUE

----------------------------------------------------------------------------
(* The verifier as an OBJECT WITH A HISTORY.  ct.SignatureVerifier is created once per log key and
   then asked to verify many objects.  The statement makes the verdict a function of the presented
   object alone ("accepts an SCT/STH exactly when its signature by the log key covers that input"),
   so the abstract verifier has no state: whatever was verified before - accepted, rejected before
   hashing, rejected after hashing - the k-th verdict is the verdict of the k-th operation.

   An operation is [obj, mut], relative to the verifier's key K:
     none          genuine object signed by K
     ts ... root   one signed field of the presented object differs from what was signed
     sig-flip, sig-empty, sig-trailing   the signature value is altered / empty / followed by bytes
     alg-sig       signature algorithm id of the other key type
     alg-unsup     a signature algorithm id the verifier does not implement (dsa)
     alg-hash      hash algorithm id other than the one used
     ver           version other than v1 (the signature input cannot be built)
     foreign-key   genuine object of ANOTHER log with a key of the same type
     foreign-type  genuine object of another log whose key has the other type              *)
HObjs == <<"sct-cert", "sct-precert", "sth">>
HMuts(obj) ==
  IF obj = "sth"
  THEN <<"none", "ts", "size", "root", "sig-flip", "sig-empty", "sig-trailing", "alg-sig", "alg-unsup",
         "alg-hash", "ver", "foreign-key", "foreign-type">>
  ELSE <<"none", "ts", "ext-len", "cert-byte", "etype", "sig-flip", "sig-empty", "sig-trailing", "alg-sig",
         "alg-unsup", "alg-hash", "ver", "foreign-key", "foreign-type">>

RECURSIVE FlatSeq(_)
FlatSeq(ss) == IF ss = <<>> THEN <<>> ELSE Head(ss) \o FlatSeq(Tail(ss))
\* the operation alphabet; an operation is referred to by its index in this sequence
VerifierOps == FlatSeq([o \in 1..Len(HObjs) |->
                          [m \in 1..Len(HMuts(HObjs[o])) |-> [obj |-> HObjs[o], mut |-> HMuts(HObjs[o])[m]]]])

\* a representative sub-alphabet for longer histories: the three genuine objects, failures before hashing
\* (alg-hash, ver), failures after hashing (field, signature, algorithm, foreign key), one open case
ReducedOps == { i \in 1..Len(VerifierOps) :
                  \/ VerifierOps[i].mut = "none"
                  \/ VerifierOps[i].obj = "sct-cert" /\ VerifierOps[i].mut \in {"cert-byte", "sig-flip", "alg-unsup", "alg-hash", "foreign-type"}
                  \/ VerifierOps[i].obj = "sth" /\ VerifierOps[i].mut \in {"root", "ver"} }

\* history independence: the verdict demanded for an operation after any history
HistoryDemand(hist, op) == VerifyDemand(op.mut)
\* ids: the operations applied, in order, to ONE verifier object; accs: its verdicts
HistoryOK(ids, accs) == /\ Len(ids) = Len(accs)
                        /\ \A k \in 1..Len(ids) :
                             LET d == HistoryDemand(SubSeq(ids, 1, k - 1), VerifierOps[ids[k]])
                             IN  (d = "accept" => accs[k]) /\ (d = "reject" => ~accs[k])
=============================================================================
