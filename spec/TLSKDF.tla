------------------------------- MODULE TLSKDF -------------------------------
(* C26 - TLS key derivation matches the RFC definitions (Role T).

   Every derivation that zcrypto implements in tls/prf.go and tls/key_schedule.go is
   written here as a Terms program, transcribed from the RFC text quoted next to it.
   HMAC and the hash functions are uninterpreted symbols; the Go harness interprets
   them with the Go standard library only and compares, byte for byte, with what the
   exported zcrypto functions return on the same (seeded) inputs.

   CaseOf(p) maps a parameter record p to the demanded outputs.  Two sources of
   parameter records use the same operator (single source of truth):
     - TLSKDFGen   enumerates the boundary classes (output lengths 0, 1, h-1, h, h+1,
                   2h, 2h+1, 48, 512 for each hash size h; secret lengths around the
                   PRF10 split and the HMAC block sizes; all suites of the table);
     - TLSKDFVal   reads parameter records the harness drew at random (any length in
                   0..512, any secret length) from kdf_params.ndjson.

   Not covered: RFC 7627 extended-master-secret derivation.  zcrypto negotiates the
   extension flag but contains no session-hash based derivation, so there is nothing
   to bind (recorded in design_notes/C26.md).                                          *)
EXTENDS Terms, Integers

----------------------------------------------------------------------------
(* RFC 2246 / RFC 5246 section 5:
     P_hash(secret, seed) = HMAC_hash(secret, A(1) + seed) +
                            HMAC_hash(secret, A(2) + seed) + ...
     A(0) = seed,  A(i) = HMAC_hash(secret, A(i-1))
   "P_hash can be iterated as many times as necessary to produce the required
    quantity of data" - the output is the first n bytes.                              *)
RECURSIVE AChain(_, _, _, _)
AChain(h, secret, seed, i) ==
  IF i = 0 THEN seed ELSE Hmac(h, secret, AChain(h, secret, seed, i - 1))

Blocks(n, hl) == (n + hl - 1) \div hl

PHash(h, secret, seed, n) ==
  Take(Cat([i \in 1..Blocks(n, HLen(h)) |->
              Hmac(h, secret, Cat(<<AChain(h, secret, seed, i), seed>>))]), n)

(* RFC 2246 section 5:
     "L_S = length in bytes of secret; L_S1 = L_S2 = ceil(L_S / 2);
      The secret is partitioned into two halves (with the possibility of one shared
      byte) as described above, S1 taking the first L_S1 bytes and S2 the last L_S2
      bytes."
     PRF(secret, label, seed) = P_MD5(S1, label + seed) XOR P_SHA-1(S2, label + seed) *)
PRF10(secret, label, seed, n) ==
  LET ls == TermLen(secret)
      half == (ls + 1) \div 2
      s1 == Take(secret, half)
      s2 == Last(secret, half)
      ls_ == Cat(<<label, seed>>)
  IN Xor(PHash("md5", s1, ls_, n), PHash("sha1", s2, ls_, n))

(* RFC 5246 section 5:  PRF(secret, label, seed) = P_<hash>(secret, label + seed)      *)
PRF12(h, secret, label, seed, n) == PHash(h, secret, Cat(<<label, seed>>), n)

V10 == 769
V11 == 770
V12 == 771
Versions == {V10, V11, V12}

(* The cipher suites zcrypto implements (tls/cipher_suites.go), with the key material
   sizes of their defining RFCs (RFC 5246 appendix C, RFC 5288/5289 for GCM: 4-byte
   implicit salt, RFC 7905 for ChaCha20-Poly1305: 12-byte IV) and the TLS 1.2 PRF hash
   (RFC 5246: SHA-256 unless the suite specifies otherwise; the *_SHA384 suites of RFC
   5288/5289 specify SHA-384).  t12 = the suite is defined for TLS 1.2 only.           *)
S(id, mac, key, iv, h, t12) == [id |-> id, mac |-> mac, key |-> key, iv |-> iv, h |-> h, t12 |-> t12]
SuiteTable == {
  S(52392, 0, 32, 12, "sha256", TRUE),   \* cca8 ECDHE_RSA_CHACHA20_POLY1305
  S(52393, 0, 32, 12, "sha256", TRUE),   \* cca9 ECDHE_ECDSA_CHACHA20_POLY1305
  S(52394, 0, 32, 12, "sha256", TRUE),   \* ccaa DHE_RSA_CHACHA20_POLY1305
  S(49199, 0, 16, 4, "sha256", TRUE),    \* c02f ECDHE_RSA_AES_128_GCM_SHA256
  S(49195, 0, 16, 4, "sha256", TRUE),    \* c02b ECDHE_ECDSA_AES_128_GCM_SHA256
  S(49200, 0, 32, 4, "sha384", TRUE),    \* c030 ECDHE_RSA_AES_256_GCM_SHA384
  S(49196, 0, 32, 4, "sha384", TRUE),    \* c02c ECDHE_ECDSA_AES_256_GCM_SHA384
  S(49191, 32, 16, 16, "sha256", TRUE),  \* c027 ECDHE_RSA_AES_128_CBC_SHA256
  S(49187, 32, 16, 16, "sha256", TRUE),  \* c023 ECDHE_ECDSA_AES_128_CBC_SHA256
  S(49171, 20, 16, 16, "sha256", FALSE), \* c013 ECDHE_RSA_AES_128_CBC_SHA
  S(49161, 20, 16, 16, "sha256", FALSE), \* c009 ECDHE_ECDSA_AES_128_CBC_SHA
  S(49172, 20, 32, 16, "sha256", FALSE), \* c014 ECDHE_RSA_AES_256_CBC_SHA
  S(49162, 20, 32, 16, "sha256", FALSE), \* c00a ECDHE_ECDSA_AES_256_CBC_SHA
  S(156, 0, 16, 4, "sha256", TRUE),      \* 009c RSA_AES_128_GCM_SHA256
  S(157, 0, 32, 4, "sha384", TRUE),      \* 009d RSA_AES_256_GCM_SHA384
  S(60, 32, 16, 16, "sha256", TRUE),     \* 003c RSA_AES_128_CBC_SHA256
  S(61, 32, 32, 16, "sha256", TRUE),     \* 003d RSA_AES_256_CBC_SHA256
  S(47, 20, 16, 16, "sha256", FALSE),    \* 002f RSA_AES_128_CBC_SHA
  S(53, 20, 32, 16, "sha256", FALSE),    \* 0035 RSA_AES_256_CBC_SHA
  S(49170, 20, 24, 8, "sha256", FALSE),  \* c012 ECDHE_RSA_3DES_EDE_CBC_SHA
  S(49160, 20, 24, 8, "sha256", FALSE),  \* c008 ECDHE_ECDSA_3DES_EDE_CBC_SHA
  S(10, 20, 24, 8, "sha256", FALSE),     \* 000a RSA_3DES_EDE_CBC_SHA
  S(22, 20, 24, 8, "sha256", FALSE),     \* 0016 DHE_RSA_3DES_EDE_CBC_SHA
  S(19, 20, 24, 8, "sha256", FALSE),     \* 0013 DHE_DSS_3DES_EDE_CBC_SHA
  S(5, 20, 16, 0, "sha256", FALSE),      \* 0005 RSA_RC4_128_SHA
  S(49169, 20, 16, 0, "sha256", FALSE),  \* c011 ECDHE_RSA_RC4_128_SHA
  S(49159, 20, 16, 0, "sha256", FALSE),  \* c007 ECDHE_ECDSA_RC4_128_SHA
  S(102, 20, 16, 0, "sha256", FALSE),    \* 0066 DHE_DSS_RC4_128_SHA
  S(158, 0, 16, 4, "sha256", TRUE),      \* 009e DHE_RSA_AES_128_GCM_SHA256
  S(159, 0, 32, 4, "sha384", TRUE),      \* 009f DHE_RSA_AES_256_GCM_SHA384
  S(162, 0, 16, 4, "sha256", TRUE),      \* 00a2 DHE_DSS_AES_128_GCM_SHA256
  S(163, 0, 32, 4, "sha384", TRUE),      \* 00a3 DHE_DSS_AES_256_GCM_SHA384
  S(103, 32, 16, 16, "sha256", TRUE),    \* 0067 DHE_RSA_AES_128_CBC_SHA256
  S(107, 32, 32, 16, "sha256", TRUE),    \* 006b DHE_RSA_AES_256_CBC_SHA256
  S(64, 32, 16, 16, "sha256", TRUE),     \* 0040 DHE_DSS_AES_128_CBC_SHA256
  S(106, 32, 32, 16, "sha256", TRUE),    \* 006a DHE_DSS_AES_256_CBC_SHA256
  S(51, 20, 16, 16, "sha256", FALSE),    \* 0033 DHE_RSA_AES_128_CBC_SHA
  S(57, 20, 32, 16, "sha256", FALSE),    \* 0039 DHE_RSA_AES_256_CBC_SHA
  S(50, 20, 16, 16, "sha256", FALSE),    \* 0032 DHE_DSS_AES_128_CBC_SHA
  S(56, 20, 32, 16, "sha256", FALSE)     \* 0038 DHE_DSS_AES_256_CBC_SHA
}
SuiteIds == {s.id : s \in SuiteTable}
SuiteOf(id) == CHOOSE s \in SuiteTable : s.id = id

(* TLS 1.3 suites (RFC 8446 appendix B.4): AEAD key length and HKDF hash.             *)
S13(id, key, h) == [id |-> id, key |-> key, h |-> h]
Suites13 == { S13(4865, 16, "sha256"), S13(4866, 32, "sha384"), S13(4867, 32, "sha256") }
Suite13Of(id) == CHOOSE s \in Suites13 : s.id = id

(* The PRF of a protocol version and suite:
   RFC 2246/4346 (TLS 1.0/1.1): the MD5/SHA-1 PRF; RFC 5246: P_hash with the suite's hash. *)
PRF(ver, suite, secret, label, seed, n) ==
  IF ver \in {V10, V11} THEN PRF10(secret, label, seed, n)
  ELSE PRF12(SuiteOf(suite).h, secret, label, seed, n)

(* RFC 5246 section 8.1 (same in RFC 2246):
     master_secret = PRF(pre_master_secret, "master secret",
                         ClientHello.random + ServerHello.random)[0..47];            *)
MasterSecret(ver, suite, pms, cr, sr) ==
  PRF(ver, suite, pms, Str("master secret"), Cat(<<cr, sr>>), 48)

(* RFC 5246 section 6.3:
     key_block = PRF(SecurityParameters.master_secret, "key expansion",
                     SecurityParameters.server_random + SecurityParameters.client_random);
     "Then, the key_block is partitioned as follows:
        client_write_MAC_key, server_write_MAC_key, client_write_key,
        server_write_key, client_write_IV, server_write_IV"                          *)
KeyBlock(ver, suite, ms, cr, sr, mac, key, iv) ==
  LET kb == PRF(ver, suite, ms, Str("key expansion"), Cat(<<sr, cr>>), 2 * mac + 2 * key + 2 * iv)
  IN << Sub(kb, 0, mac), Sub(kb, mac, mac),
        Sub(kb, 2 * mac, key), Sub(kb, 2 * mac + key, key),
        Sub(kb, 2 * mac + 2 * key, iv), Sub(kb, 2 * mac + 2 * key + iv, iv) >>

(* RFC 2246 section 7.4.9:
     verify_data = PRF(master_secret, finished_label,
                       MD5(handshake_messages) + SHA-1(handshake_messages)) [0..11];
   RFC 5246 section 7.4.9:
     verify_data = PRF(master_secret, finished_label, Hash(handshake_messages))[0..11]
     with the hash of the PRF.                                                        *)
TranscriptSum(ver, suite, hm) ==
  IF ver \in {V10, V11} THEN Cat(<<Hash("md5", hm), Hash("sha1", hm)>>)
  ELSE Hash(SuiteOf(suite).h, hm)
Finished(ver, suite, ms, who, hm) ==
  PRF(ver, suite, ms, Str(IF who = "client" THEN "client finished" ELSE "server finished"),
      TranscriptSum(ver, suite, hm), 12)

(* RFC 5705 section 4:
     PRF(SecurityParameters.master_secret, label,
         SecurityParameters.client_random + SecurityParameters.server_random
         [+ context_value_length + context_value])[length]
   "context_value_length is encoded as an unsigned, 16-bit quantity"; labels
   "client finished", "server finished", "master secret", "key expansion" are reserved. *)
ReservedLabels == {"client finished", "server finished", "master secret", "key expansion"}
Exporter(ver, suite, ms, cr, sr, label, hasCtx, ctx, n) ==
  PRF(ver, suite, ms, label,
      IF hasCtx THEN Cat(<<cr, sr, U16(TermLen(ctx)), ctx>>) ELSE Cat(<<cr, sr>>), n)

----------------------------------------------------------------------------
(* TLS 1.3 (RFC 8446 section 7.1, RFC 5869).

   RFC 5869 2.2:  HKDF-Extract(salt, IKM) = HMAC-Hash(salt, IKM);
                  "salt ... if not provided, it is set to a string of HashLen zeros"
   RFC 5869 2.3:  N = ceil(L/HashLen); T(0) = empty;
                  T(i) = HMAC-Hash(PRK, T(i-1) | info | i);  OKM = first L octets of T  *)
HkdfExtract(h, salt, ikm) == Hmac(h, salt, ikm)

RECURSIVE HkdfT(_, _, _, _)
HkdfT(h, prk, info, i) ==
  IF i = 0 THEN Empty ELSE Hmac(h, prk, Cat(<<HkdfT(h, prk, info, i - 1), info, U8(i)>>))
HkdfExpand(h, prk, info, n) ==
  Take(Cat([i \in 1..Blocks(n, HLen(h)) |-> HkdfT(h, prk, info, i)]), n)

(* RFC 8446 7.1:
     struct { uint16 length = Length;
              opaque label<7..255> = "tls13 " + Label;
              opaque context<0..255> = Context; } HkdfLabel;
     HKDF-Expand-Label(Secret, Label, Context, Length) =
          HKDF-Expand(Secret, HkdfLabel, Length)                                      *)
HkdfLabel(label, ctx, n) ==
  Cat(<<U16(n), Vec8(Cat(<<Str("tls13 "), label>>)), Vec8(ctx)>>)
ExpandLabel(h, secret, label, ctx, n) == HkdfExpand(h, secret, HkdfLabel(label, ctx, n), n)

(*   Derive-Secret(Secret, Label, Messages) =
          HKDF-Expand-Label(Secret, Label, Transcript-Hash(Messages), Hash.length)    *)
DeriveSecret(h, secret, label, msgs) == ExpandLabel(h, secret, label, Hash(h, msgs), HLen(h))

(* RFC 8446 7.1 key schedule step: HKDF-Extract(salt = current secret, IKM = new input
   or, "if a given secret is not available, then the 0-value consisting of a string of
   Hash.length bytes set to zeros is used".                                           *)
Extract13(h, hasNew, new, hasCur, cur) ==
  HkdfExtract(h, IF hasCur THEN cur ELSE Rep(HLen(h), 0), IF hasNew THEN new ELSE Rep(HLen(h), 0))

(* RFC 8446 7.3:  [sender]_write_key = HKDF-Expand-Label(Secret, "key", "", key_length)
                  [sender]_write_iv  = HKDF-Expand-Label(Secret, "iv", "", iv_length)  (12) *)
TrafficKey(suite13, secret) ==
  LET s == Suite13Of(suite13) IN
  << ExpandLabel(s.h, secret, Str("key"), Empty, s.key), ExpandLabel(s.h, secret, Str("iv"), Empty, 12) >>

(* RFC 8446 7.2: application_traffic_secret_N+1 =
                 HKDF-Expand-Label(application_traffic_secret_N, "traffic upd", "", Hash.length) *)
NextTraffic(h, secret) == ExpandLabel(h, secret, Str("traffic upd"), Empty, HLen(h))

(* RFC 8446 4.4.4: finished_key = HKDF-Expand-Label(BaseKey, "finished", "", Hash.length)
                   verify_data = HMAC(finished_key, Transcript-Hash(...))             *)
Finished13(h, baseKey, msgs) ==
  Hmac(h, ExpandLabel(h, baseKey, Str("finished"), Empty, HLen(h)), Hash(h, msgs))

(* RFC 8446 7.5: TLS-Exporter(label, context_value, key_length) =
        HKDF-Expand-Label(Derive-Secret(Secret, label, ""), "exporter", Hash(context_value), key_length)
   with Secret = exporter_master_secret = Derive-Secret(Master Secret, "exp master", ClientHello...server Finished);
   "If no context is provided, the context_value is zero length."                     *)
Exporter13(h, master, msgs, label, ctx, n) ==
  LET ems == DeriveSecret(h, master, Str("exp master"), msgs)
  IN ExpandLabel(h, DeriveSecret(h, ems, label, Empty), Str("exporter"), Hash(h, ctx), n)

(* RFC 8446 7.1, the whole schedule of a full (EC)DHE handshake without PSK:
     Early Secret     = HKDF-Extract(0, 0)
     Handshake Secret = HKDF-Extract(Derive-Secret(Early Secret, "derived", ""), (EC)DHE)
     client/server_handshake_traffic_secret = Derive-Secret(Handshake Secret, "c/s hs traffic", ClientHello...ServerHello)
     Master Secret    = HKDF-Extract(Derive-Secret(Handshake Secret, "derived", ""), 0)
     client/server_application_traffic_secret_0 = Derive-Secret(Master Secret, "c/s ap traffic", ClientHello...server Finished)
     exporter_master_secret = Derive-Secret(Master Secret, "exp master", ClientHello...server Finished)
   Outputs: the four traffic secrets (what KeyLogWriter records) and TLS-Exporter(label, context, n). *)
Schedule13(h, shared, tsh, tsf, label, ctx, n) ==
  LET zeros == Rep(HLen(h), 0)
      early == HkdfExtract(h, zeros, zeros)
      hs == HkdfExtract(h, DeriveSecret(h, early, Str("derived"), Empty), shared)
      master == HkdfExtract(h, DeriveSecret(h, hs, Str("derived"), Empty), zeros)
  IN << DeriveSecret(h, hs, Str("c hs traffic"), tsh), DeriveSecret(h, hs, Str("s hs traffic"), tsh),
        DeriveSecret(h, master, Str("c ap traffic"), tsf), DeriveSecret(h, master, Str("s ap traffic"), tsf),
        Exporter13(h, master, tsf, label, ctx, n) >>

----------------------------------------------------------------------------
(* Parameter records -> cases.

   p = [fn, ver, suite, h, label, ll, sl, dl, cl, n, tp]
     fn     which derivation
     ver    769/770/771 (TLS 1.0-1.2 functions), 772 otherwise unused
     suite  cipher suite id (0 where the function takes none)
     h      hash name for the functions that take a hash directly
     label  a literal label when ll = -1, otherwise the label is Var("label", ll)
     sl     length of the secret          (-1 = absent, where the function allows it)
     dl     length of the seed / second secret (-1 = absent)
     cl     length of the context         (-1 = absent / nil)
     n      requested output length
     tp     lengths of the transcript pieces written to the handshake hash

   case = p + [out: sequence of terms in the order documented per fn, err: BOOLEAN]   *)

LabelOf(p) == IF p.ll = -1 THEN Str(p.label) ELSE Var("label", p.ll)
Secret(p) == Var("secret", IF p.sl < 0 THEN 0 ELSE p.sl)
Seed(p)   == Var("seed", IF p.dl < 0 THEN 0 ELSE p.dl)
Ctx(p)    == Var("ctx", IF p.cl < 0 THEN 0 ELSE p.cl)
CR == Var("cr", 32)
SR == Var("sr", 32)
Transcript(p) == Cat([i \in 1..Len(p.tp) |-> Var(IF i = 1 THEN "tr1" ELSE IF i = 2 THEN "tr2" ELSE "tr3", p.tp[i])])

OutOf(p) ==
  CASE p.fn = "phash"   -> << PHash(p.h, Secret(p), Seed(p), p.n) >>
    [] p.fn = "prf10"   -> << PRF10(Secret(p), LabelOf(p), Seed(p), p.n) >>
    [] p.fn = "prf12"   -> << PRF12(p.h, Secret(p), LabelOf(p), Seed(p), p.n) >>
    [] p.fn = "prfver"  -> << PRF(p.ver, p.suite, Secret(p), LabelOf(p), Seed(p), p.n) >>
    [] p.fn = "master"  -> << MasterSecret(p.ver, p.suite, Secret(p), CR, SR) >>
    [] p.fn = "keyblock" -> LET s == SuiteOf(p.suite) IN
                            KeyBlock(p.ver, p.suite, Secret(p), CR, SR, s.mac, s.key, s.iv)
    [] p.fn = "finished" -> << Finished(p.ver, p.suite, Secret(p), "client", Transcript(p)),
                               Finished(p.ver, p.suite, Secret(p), "server", Transcript(p)),
                               TranscriptSum(p.ver, p.suite, Transcript(p)) >>
    [] p.fn = "ekm"     -> << Exporter(p.ver, p.suite, Secret(p), CR, SR, LabelOf(p), p.cl >= 0, Ctx(p), p.n) >>
    [] p.fn = "expandlabel" -> << ExpandLabel(Suite13Of(p.suite).h, Secret(p), LabelOf(p), Ctx(p), p.n) >>
    [] p.fn = "derive"  -> << DeriveSecret(Suite13Of(p.suite).h, Secret(p), LabelOf(p),
                                           IF p.cl = -1 THEN Empty ELSE Transcript(p)) >>
    [] p.fn = "extract" -> << Extract13(Suite13Of(p.suite).h, p.sl >= 0, Secret(p), p.dl >= 0, Seed(p)) >>
    [] p.fn = "traffickey" -> TrafficKey(p.suite, Secret(p))
    [] p.fn = "nexttraffic" -> << NextTraffic(Suite13Of(p.suite).h, Secret(p)) >>
    [] p.fn = "finished13" -> << Finished13(Suite13Of(p.suite).h, Secret(p), Transcript(p)) >>
    [] p.fn = "exporter13" -> << Exporter13(Suite13Of(p.suite).h, Secret(p), Transcript(p), LabelOf(p), Ctx(p), p.n) >>
    \* end-to-end: sl = length of the (EC)DHE secret, tp = <<length of ClientHello..ServerHello, length of ClientHello..server Finished>>
    [] p.fn = "e2e13" -> Schedule13(Suite13Of(p.suite).h, Secret(p), Var("tsh", p.tp[1]), Var("tsf", p.tp[2]), LabelOf(p), Ctx(p), p.n)

(* Demanded refusals: RFC 5705 reserved labels; a context longer than its 16-bit length. *)
ErrOf(p) ==
  /\ p.fn = "ekm"
  /\ \/ p.ll = -1 /\ p.label \in ReservedLabels
     \/ p.cl >= 65536

(* Domain of the functions (what the RFC structures can represent). *)
InDomain(p) ==
  /\ p.n >= 0 /\ p.n <= 512
  /\ p.fn \in {"prfver", "master", "keyblock", "finished", "ekm"} =>
        /\ p.ver \in Versions /\ p.suite \in SuiteIds
        /\ SuiteOf(p.suite).t12 => p.ver = V12
  /\ p.fn \in {"expandlabel", "derive", "extract", "traffickey", "nexttraffic", "finished13", "exporter13", "e2e13"} =>
        p.suite \in {s.id : s \in Suites13}
  /\ p.fn = "e2e13" => Len(p.tp) = 2
  /\ p.fn \in {"expandlabel", "derive", "exporter13", "e2e13"} =>
        /\ (IF p.ll = -1 THEN StrLen(p.label) ELSE p.ll) + 6 <= 255      \* opaque label<7..255>
  /\ p.fn = "expandlabel" => p.cl >= 0 /\ p.cl <= 255                    \* opaque context<0..255>

CaseOf(p) == [p |-> p, out |-> IF ErrOf(p) THEN <<>> ELSE OutOf(p), err |-> ErrOf(p)]
=============================================================================
