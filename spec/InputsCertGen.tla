--------------------------- MODULE InputsCertGen ---------------------------
(* C02 generator (U1 + U2): extension-content shapes x post-parse operation programs
   as a state machine.  A behaviour picks a shape and an operation program, "parses"
   (the certificate is accepted or not - a fact of the real run) and then applies the
   operations one by one, each yielding an outcome the property allows.  TLC explores
   every (shape, program, outcome sequence); the invariant says every applied operation
   completed and JSON stayed deterministic.  The factor sets (shapes, operation
   programs) are exported for the harness, which runs the full product on real
   certificates. *)
EXTENDS InputsCert, Json, SequencesExt

CONSTANTS Depth,          \* operation-program depth (1 or 2)
          GenExts         \* extension names whose shapes this run explores (chunking)

VARIABLES shape, prog, i, res
vars == <<shape, prog, i, res>>

GenShapes == { s \in Shapes : s.x \in GenExts }

Init == shape \in GenShapes /\ prog \in OpPrograms(Depth) /\ i = 0 /\ res = <<>>

Apply == /\ i < Len(prog)
         /\ \E o \in OpOutcomes(prog[i + 1]) \ NotRun, sm \in { "same", "n/a" } :
              res' = Append(res, [o |-> o, ms |-> 0, same |-> IF prog[i + 1].op = "MarshalJSON2" /\ o = "ok" THEN "same" ELSE "n/a"])
         /\ i' = i + 1 /\ UNCHANGED <<shape, prog>>

Next == Apply
Spec == Init /\ [][Next]_vars

TypeOK == shape \in Shapes /\ OpWellFormed(prog) /\ i \in 0..Len(prog)
AllCompleted == \A j \in 1..Len(res) : OpAllowed(prog[j], res[j])

ASSUME JsonSerialize("certops_model.json",
         [ shapes |-> SetToSeq(Shapes), programs |-> SetToSeq(OpPrograms(Depth)), ops |-> SetToSeq(Ops),
           nshapes |-> Cardinality(Shapes), nprograms |-> Cardinality(OpPrograms(Depth)) ])
=============================================================================
