----------------------------- MODULE Trace_LRU -----------------------------
(* C35 trace validator (U3): histories recorded from the real
   tls.NewLRUClientSessionCache are accepted iff they are behaviours of the A layer
   of LRU.tla.  Many traces per file, separated by "reset" events.
   events:  {"ev":"reset","cap":c} {"ev":"put","k":s,"v":n} {"ev":"get","k":s,"rv":n,"ok":b} *)
EXTENDS LRU

Trace == ndJsonDeserialize("lru_trace.ndjson")

VARIABLES l, tq, tcap
tvars == <<l, tq, tcap>>

TraceInit == l = 1 /\ tq = <<>> /\ tcap = 1 /\ TLCSet(1, 1)

TraceNext ==
  /\ l <= Len(Trace)
  /\ l' = l + 1
  /\ LET e == Trace[l] IN
     CASE e.ev = "reset" -> tq' = <<>> /\ tcap' = e.cap
       [] e.ev = "put"   -> tq' = PutStep(tq, tcap, e.k, e.v) /\ UNCHANGED tcap
       [] e.ev = "get"   -> /\ GetRes(tq, e.k).v = e.rv
                            /\ GetRes(tq, e.k).ok = e.ok
                            /\ tq' = GetStep(tq, e.k) /\ UNCHANGED tcap

TraceSpec == TraceInit /\ [][TraceNext]_tvars

HWM == TLCSet(1, IF l > TLCGet(1) THEN l ELSE TLCGet(1))
TraceInv == AInv(tq, tcap)
Accepted == \/ TLCGet(1) = Len(Trace) + 1
            \/ PrintT(<<"HWM", TLCGet(1)>>) /\ FALSE
=============================================================================
