---------------------------- MODULE GraphCatalog ----------------------------
(* Abstract certificates for the PKI-graph properties C10 / C11 / C12 and the catalogue of
   small certificate universes TLC enumerates over.

   (spec/PKI.tla of group `pkiverify` did not exist yet when this was written; the handful of
   operators the graph modules need - abstract certificate, NodeOf, ideal signature check -
   are defined here and in Graph.tla.)

   An abstract certificate is the record
     [id, subj, key, iss, skey, ca, pathlen, nb, na, serial, dns]
   subj/iss : name ids          key : the subject's key id
   skey     : the key the certificate is signed with (ideal signature: it verifies under exactly
              that key; a "bad" signature is skey # key of the node named as issuer)
   ca       : BasicConstraintsValid /\ IsCA        pathlen : -1 = no limit
   nb, na   : validity window, seconds after 2020-01-01 (harness/lib/pki)
   The JSON form of this record is what harness/lib/pki concretises into real DER.           *)
EXTENDS Integers, Sequences, FiniteSets, TLC

Ct(id, s, k, i, sk, ca, pl) ==
  [id |-> id, subj |-> s, key |-> k, iss |-> i, skey |-> sk, ca |-> ca, pathlen |-> pl,
   nb |-> 0, na |-> 1000, serial |-> 0, dns |-> <<>>]
Win(c, nb, na) == [c EXCEPT !.nb = nb, !.na = na]
Dns(c, d)      == [c EXCEPT !.dns = d]

(* ---- hand-made scenarios (the structures the property statements name) ---------------- *)
Named == <<
  \* 1-3   three-certificate chain
  Ct("r",   "R", "K0", "R", "K0", TRUE,  -1),
  Ct("i",   "I", "K1", "R", "K0", TRUE,  -1),
  Ct("l",   "L", "K2", "I", "K1", FALSE, -1),
  \* 4-5   same subject R, other key (does not verify i); a second certificate for node (I,K1)
  Ct("rx",  "R", "K9", "R", "K9", TRUE,  -1),
  Ct("i2",  "I", "K1", "R", "K0", TRUE,  0),
  \* 6-10  cross-signed pair of roots R/S and a leaf under R
  Ct("s",   "S", "K3", "S", "K3", TRUE,  -1),
  Ct("xrs", "R", "K0", "S", "K3", TRUE,  -1),      \* R's key certified by S
  Ct("xsr", "S", "K3", "R", "K0", TRUE,  -1),      \* S's key certified by R
  Ct("lr",  "L", "K2", "R", "K0", FALSE, -1),
  Ct("ls",  "M", "K4", "S", "K3", FALSE, -1),
  \* 11-15 self-issued key rollover of CA A (old key K5, new key K6)
  Ct("ao",  "A", "K5", "A", "K5", TRUE,  -1),
  Ct("an",  "A", "K6", "A", "K6", TRUE,  -1),
  Ct("o2n", "A", "K6", "A", "K5", TRUE,  -1),      \* new key signed with old
  Ct("n2o", "A", "K5", "A", "K6", TRUE,  -1),      \* old key signed with new
  Ct("la",  "L", "K2", "A", "K6", FALSE, -1),
  \* 16-18 self-signed non-root plus a cross-certificate for the same (subject, key)
  Ct("ax",  "A", "K5", "R", "K0", TRUE,  -1),      \* (A,K5) certified by R
  Ct("lo",  "L", "K2", "A", "K5", FALSE, -1),
  Ct("ib",  "I", "K1", "R", "K8", TRUE,  -1),      \* names R, signed by a key no node has
  \* 19-22 same-subject different-key CAs and their leaves
  Ct("c1",  "C", "K1", "C", "K1", TRUE,  -1),
  Ct("c2",  "C", "K7", "C", "K7", TRUE,  -1),
  Ct("lc1", "L", "K2", "C", "K1", FALSE, -1),
  Ct("lc2", "M", "K4", "C", "K7", FALSE, -1),
  \* 23-27 path-length and CA-flag variants: j under i, leaf under j
  Ct("j",   "J", "K7", "I", "K1", TRUE,  -1),
  Ct("lj",  "N", "K4", "J", "K7", FALSE, -1),
  Ct("i0",  "I", "K1", "R", "K0", TRUE,  0),       \* pathlen 0: nothing may sit between it and the start
  Ct("inc", "I", "K1", "R", "K0", FALSE, -1),      \* not a CA
  Ct("r0",  "R", "K0", "R", "K0", TRUE,  0),       \* root whose own pathlen is 0
  \* 28-30 cyclic: root for R issued by a descendant, dangling root
  Ct("rbi", "R", "K0", "I", "K1", TRUE,  -1),      \* (R,K0) certified by I (cycle R -> I -> R)
  Ct("rd",  "R", "K0", "Z", "K8", TRUE,  -1),      \* (R,K0) certified by an absent issuer
  Ct("jbr", "J", "K7", "R", "K0", TRUE,  -1),      \* second way to J, directly from R
  \* 31-40 validity windows and a DNS name (C12): two/three certificates for node (I,K1) with
  \* different windows, leaves inside / across them, a cross-certificate for R that expires early
  Win(Ct("tr",  "R", "K0", "R", "K0", TRUE,  -1), 0, 1000),
  Win(Ct("ti",  "I", "K1", "R", "K0", TRUE,  -1), 100, 500),
  Win(Ct("ti2", "I", "K1", "R", "K0", TRUE,  -1), 600, 900),
  Win(Ct("ti3", "I", "K1", "R", "K0", TRUE,  -1), 100, 399),
  Dns(Win(Ct("tl",  "L", "K2", "I", "K1", FALSE, -1), 50, 400), <<"a.example">>),
  Win(Ct("tl2", "M", "K4", "I", "K1", FALSE, -1), 450, 950),
  Win(Ct("ts",  "S", "K3", "S", "K3", TRUE,  -1), 0, 1000),
  Win(Ct("trs", "R", "K0", "S", "K3", TRUE,  -1), 0, 300),
  Win(Ct("ti4", "I", "K1", "R", "K0", TRUE,  -1), 400, 800),    \* starts exactly when tl ends
  Win(Ct("tre", "R", "K0", "R", "K0", TRUE,  -1), 0, 350)       \* a root that expires before the leaves
>>

(* ---- a line of 11 CA certificates for the depth-limit boundary ------------------------ *)
LineName(n) == <<"N0","N1","N2","N3","N4","N5","N6","N7","N8","N9","N10","N11">>[n + 1]
LineKey(n)  == <<"L0","L1","L2","L3","L4","L5","L6","L7","L8","L9","L10","L11">>[n + 1]
LineId(n)   == <<"n0","n1","n2","n3","n4","n5","n6","n7","n8","n9","n10","n11">>[n + 1]
\* n0 is self-signed; n(k) is issued by n(k-1)
Line == [n \in 1..12 |->
           IF n = 1 THEN Ct(LineId(0), LineName(0), LineKey(0), LineName(0), LineKey(0), TRUE, -1)
           ELSE Ct(LineId(n-1), LineName(n-1), LineKey(n-1), LineName(n-2), LineKey(n-2), TRUE, -1)]

(* ---- full product over two names and two keys ----------------------------------------- *)
PNames == <<"P", "Q">>
PKeys  == <<"E1", "E2">>
PId(a, b, c, d) == <<"p", "q">>[a] \o <<"1", "2">>[b] \o <<"p", "q">>[c] \o <<"1", "2">>[d]
Bit(n, w) == (((n - 1) \div w) % 2) + 1
Product == [n \in 1..16 |->
             LET a == Bit(n, 8)
                 b == Bit(n, 4)
                 c == Bit(n, 2)
                 d == Bit(n, 1)
             IN Ct(PId(a, b, c, d), PNames[a], PKeys[b], PNames[c], PKeys[d], TRUE, -1)]
\* twins: a second certificate with the same four attributes (multigraph edges)
Twins == << [Ct("i", "I", "K1", "R", "K0", TRUE, -1) EXCEPT !.id = "it"],
            [Ct("r", "R", "K0", "R", "K0", TRUE, -1) EXCEPT !.id = "rt"] >>

RawCatalog == Named \o Line \o Product \o Twins
\* every certificate gets a distinct explicit serial number (used by the CRLSet cases of C12)
Catalog == [n \in 1..Len(RawCatalog) |-> [RawCatalog[n] EXCEPT !.serial = 1000 + n]]
NCat == Len(Catalog)
Idx(id) == CHOOSE n \in 1..NCat : Catalog[n].id = id
Ids(S)  == {Idx(x) : x \in S}

NamedOff == 0
LineOff  == Len(Named)
ProdOff  == Len(Named) + Len(Line)

(* ---- universes: sets of catalogue indices --------------------------------------------- *)
Universe(u) ==
  CASE u = "chain3"   -> Ids({"r", "i", "l"})
    [] u = "dangling" -> Ids({"r", "rx", "i", "l"})
    [] u = "twin"     -> Ids({"r", "i", "i2", "it", "l"})
    [] u = "cross"    -> Ids({"r", "s", "xrs", "xsr", "lr"})
    [] u = "cross6"   -> Ids({"r", "s", "xrs", "xsr", "lr", "ls"})
    [] u = "rollover" -> Ids({"ao", "an", "o2n", "n2o", "la"})
    [] u = "selfx"    -> Ids({"r", "ao", "ax", "lo"})
    [] u = "selfx5"   -> Ids({"r", "ao", "ax", "lo", "n2o"})
    [] u = "badsig"   -> Ids({"r", "rx", "ib", "l"})
    [] u = "samesubj" -> Ids({"c1", "c2", "lc1", "lc2"})
    [] u = "samesubj5"-> Ids({"c1", "c2", "lc1", "lc2", "l"})
    [] u = "pathlen"  -> Ids({"r", "i0", "i", "j", "lj"})
    [] u = "pathlen6" -> Ids({"r", "r0", "i0", "i", "j", "lj"})
    [] u = "nonca"    -> Ids({"r", "inc", "i", "j", "lj"})
    [] u = "nonca4"   -> Ids({"r", "inc", "j", "lj"})
    [] u = "cycle"    -> Ids({"r", "i", "rbi", "l", "j"})
    [] u = "rootdang" -> Ids({"rd", "i", "l", "r"})
    [] u = "diamond"  -> Ids({"r", "i", "j", "jbr", "lj"})
    [] u = "line10"   -> {LineOff + n : n \in 1..10}
    [] u = "line11"   -> {LineOff + n : n \in 1..11}
    [] u = "line12"   -> {LineOff + n : n \in 1..12}
    [] OTHER          -> {}

UniverseNames == {"chain3", "dangling", "twin", "cross", "cross6", "rollover", "selfx", "selfx5",
                  "badsig", "samesubj", "samesubj5", "pathlen", "pathlen6", "nonca", "nonca4", "cycle",
                  "rootdang", "diamond", "line10", "line11", "line12"}

ProductIdx == {ProdOff + n : n \in 1..16}
=============================================================================
