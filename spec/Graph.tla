------------------------------- MODULE Graph -------------------------------
(* C10 - the PKI graph (verifier/graph.go) is determined by its certificate set.

   A layer (this module, constants only).  The property statement, clause by clause:

     "one node per distinct (subject, SPKI) pair"            -> NodesOf(S)
     "one edge per distinct certificate"                     -> edges = S (by id)
     "roots equal to the certificates ever added as roots"   -> root flags = R
     "each edge's issuer is a node with the certificate's issuer name whose key verifies the
      certificate; an edge has no issuer exactly when no such node exists"
                                                             -> issuer \in Cands(c, S), or
                                                                NoNode iff Cands(c, S) = {}
     "... except for which issuer is chosen when several nodes verify the same certificate"
                                                             -> any member of Cands is allowed

   The graph is an adjacency structure: the walker (C11) follows the per-node parent maps, and
   the dangling-edge indexes decide later fix-ups and which root edges the walk can reach, so
   "the graph" that must be determined by the certificate set includes them:  parents/children
   maps = the issuer relation, missing-issuer index (by issuer name) and per-node
   parentsWithoutIssuer = the edges without issuer (empty sets may be present or absent).

   GraphReasons(o) judges an *observation* o of a graph (recorded from the real verifier.Graph
   through the verif accessors, or projected from the B model GraphImpl.tla) and returns the set
   of violated clauses - {} means "o is a graph of its certificate set".  It is the single
   source of truth for the refinement check, and the observation validator Trace_Graph.tla.

   Observation record:
     certs    sequence of abstract certificates inserted so far (any order, duplicates allowed)
     roots    sequence of ids inserted through AddRoot
     nodes    sequence of <<subj, key>> as returned by Nodes()
     nodeidx  sequence of <<subj, key>>: one per key of the nodesBySubjectAndKey index
     edges    sequence of [id, child, issuer, root, found, isroot]   (issuer = <<>> when nil;
              found/isroot = what the public FindEdge / IsRoot report for the certificate)
     parents  sequence of [node, other, edges]  node.parentsBySubjectAndKey[other] = edges
     children sequence of [node, other, edges]  node.childrenBySubjectAndKey[other] = edges
     missing  sequence of [name, edges]         missingIssuerNode[name] = edges
     noissuer sequence of [node, edges]         node.parentsWithoutIssuer = edges (since /repo 59a173b:
                                                the edges into the node that have no issuer)
     findnode sequence of BOOLEAN, one per node: FindNode(fingerprint) returns that node      *)
EXTENDS GraphCatalog

NoNode == <<>>
NodeOf(c) == <<c.subj, c.key>>
NodesOf(S) == {NodeOf(c) : c \in S}

\* Key aliases: pairs of distinct key ids that verify the same signatures (different SPKI
\* encodings of one key).  Empty for everything that is concretised; the model-checking
\* configuration overrides it to exercise the "several nodes verify" clause.
Alias == {}
Verifies(k, c) == k = c.skey \/ <<k, c.skey>> \in Alias \/ <<c.skey, k>> \in Alias

\* nodes that may be recorded as the issuer of c in a graph holding the certificates S
Cands(c, S) == {n \in NodesOf(S) : n[1] = c.iss /\ Verifies(n[2], c)}

RangeOf(s) == {s[i] : i \in 1..Len(s)}
NoDup(s) == \A i, j \in 1..Len(s) : s[i] = s[j] => i = j

\* flatten adjacency records to triples <<node, other, edge id>> (sequence, to see duplicates)
RECURSIVE FlatAdj(_)
FlatAdj(s) == IF s = <<>> THEN <<>>
              ELSE [i \in 1..Len(s[1].edges) |-> <<s[1].node, s[1].other, s[1].edges[i]>>] \o FlatAdj(Tail(s))
RECURSIVE FlatNoIssuer(_)
FlatNoIssuer(s) == IF s = <<>> THEN <<>>
                   ELSE [i \in 1..Len(s[1].edges) |-> <<s[1].node, s[1].edges[i]>>] \o FlatNoIssuer(Tail(s))
RECURSIVE FlatMissing(_)
FlatMissing(s) == IF s = <<>> THEN <<>>
                  ELSE [i \in 1..Len(s[1].edges) |-> <<s[1].name, s[1].edges[i]>>] \o FlatMissing(Tail(s))

GraphReasons(o) ==
  LET S      == RangeOf(o.certs)
      ids    == {c.id : c \in S}
      R      == RangeOf(o.roots)
      cert(x)== CHOOSE c \in S : c.id = x
      E      == RangeOf(o.edges)
      eids   == [i \in 1..Len(o.edges) |-> o.edges[i].id]
      known  == {e \in E : e.id \in ids}
      fp     == FlatAdj(o.parents)
      fc     == FlatAdj(o.children)
      fm     == FlatMissing(o.missing)
      wantP  == {<<e.child, e.issuer, e.id>> : e \in {x \in E : x.issuer # NoNode}}
      wantC  == {<<e.issuer, e.child, e.id>> : e \in {x \in E : x.issuer # NoNode}}
      wantM  == {<<cert(e.id).iss, e.id>> : e \in {x \in known : x.issuer = NoNode}}
      fn     == FlatNoIssuer(o.noissuer)
      wantN  == {<<e.child, e.id>> : e \in {x \in E : x.issuer = NoNode}}
  IN
  {w \in {"nodes", "node-index", "edges", "child", "root", "issuer", "issuer-missing",
          "parents", "children", "missing-index", "parents-without-issuer", "find"} :
     CASE w = "nodes"      -> ~(NoDup(o.nodes) /\ RangeOf(o.nodes) = NodesOf(S))
       [] w = "node-index" -> ~(NoDup(o.nodeidx) /\ RangeOf(o.nodeidx) = NodesOf(S))
       [] w = "edges"      -> ~(NoDup(eids) /\ RangeOf(eids) = ids)
       [] w = "child"      -> \E e \in known : e.child # NodeOf(cert(e.id))
       [] w = "root"       -> \E e \in known : e.root # (e.id \in R)
       \* an issuer is recorded that is not a verifying node with the issuer name
       [] w = "issuer"     -> \E e \in known : e.issuer # NoNode /\ e.issuer \notin Cands(cert(e.id), S)
       \* no issuer recorded although a verifying node exists
       [] w = "issuer-missing" -> \E e \in known : e.issuer = NoNode /\ Cands(cert(e.id), S) # {}
       [] w = "parents"    -> ~(NoDup(fp) /\ RangeOf(fp) = wantP)
       [] w = "children"   -> ~(NoDup(fc) /\ RangeOf(fc) = wantC)
       [] w = "missing-index" -> ~(NoDup(fm) /\ RangeOf(fm) = wantM)
       \* an edge is in its child's parentsWithoutIssuer exactly when it has no issuer
       [] w = "parents-without-issuer" -> ~(NoDup(fn) /\ RangeOf(fn) = wantN)
       [] w = "find"       -> \/ \E e \in E : ~e.found \/ e.isroot # e.root
                              \/ \E i \in 1..Len(o.findnode) : ~o.findnode[i]
                              \/ Len(o.findnode) # Len(o.nodes)}

IsGraphOf(o) == GraphReasons(o) = {}

(* The set form of the same statement, used by the generators of Walk.tla / Verifier.tla and by
   the refinement theorem: all graphs of a certificate set S with roots R. *)
IssuerChoices(S) ==
  {f \in [{c.id : c \in S} -> NodesOf(S) \cup {NoNode}] :
     \A c \in S : IF Cands(c, S) = {} THEN f[c.id] = NoNode ELSE f[c.id] \in Cands(c, S)}
=============================================================================
