------------------------------ MODULE CTScanner ------------------------------
(* C17: ct/scanner.Scanner.Scan - every log entry of the scanned range is handed to the
   matcher exactly once with its correct index, Scan returns start + number processed and
   terminates; counters / shared state are accessed without data races.

   This module has no variables.  It holds

   A layer  - the property itself as a monitor over observations of a scan:
              what the scanned range is, which deliveries are allowed (MonDeliver /
              MonCallback), what must hold when Scan has returned (FinalOK).  These
              operators are the single source of truth used by (1) the invariants of the
              implementation-shaped model CTScannerImpl.tla, (2) the validator
              Trace_CTScanner.tla that judges observations and hook traces recorded
              from the real code.
   B layer  - pure step operators over a state record, one per critical section of
              ct/scanner/scanner.go (Scan, fetcherJob, matcherJob, processEntry,
              parseCertificate, the ticker goroutine).  CTScannerImpl.tla turns them into
              a Next relation for TLC; Trace_CTScanner.tla drives the same operators with
              the values logged by the add-only hooks in the code.                     *)
EXTENDS Integers, Sequences, FiniteSets, TLC

----------------------------------------------------------------------------
(* Configuration of one scan.
     start, size, maxIdx, batch, nf, nm : ScannerOptions.StartIndex, the log's tree size,
                                          MaximumIndex (0 = unset), BatchSize,
                                          ParallelFetch, NumWorkers
     kinds   : sequence over log positions 0..size-1 (kinds[p+1]) of entry kinds
     po      : ScannerOptions.PrecertOnly                                              *)

Kinds == {"cert", "precert", "unparsable", "nonfatal"}

KindPatterns == << <<"cert">>,
                   <<"precert">>,
                   <<"cert", "precert">>,
                   <<"precert", "unparsable", "cert", "nonfatal", "precert">> >>
KindAt(kp, pos) == LET p == KindPatterns[kp] IN p[(pos % Len(p)) + 1]
KindSeq(kp, size) == [i \in 1..size |-> KindAt(kp, i - 1)]

MinI(a, b) == IF a < b THEN a ELSE b

----------------------------------------------------------------------------
(* A layer *)

\* "the scanned range": [StartIndex, stop) where stop is MaximumIndex when set, otherwise
\* the tree size reported by the log.
StopIndex(c) == IF c.maxIdx = 0 THEN c.size ELSE c.maxIdx
ScanRange(c) == c.start .. (StopIndex(c) - 1)

\* "returns the start index plus the number of entries processed"
RetDemanded(c) == c.start + Cardinality(ScanRange(c))

KindOf(c, pos) == c.kinds[pos + 1]

\* Which entries must reach the user-visible callbacks (foundCert / foundPrecert) when the
\* Matcher accepts everything.  Only what the statement and the Matcher documentation fix:
\* a parsable X.509 entry is reported unless PrecertOnly, a parsable precertificate always.
\* Whether an unparsable entry (or an X.509 entry under PrecertOnly) is reported is left
\* open: zero or one callback.
MustCallback(c, pos) ==
  CASE KindOf(c, pos) = "precert"    -> TRUE
    [] KindOf(c, pos) = "cert"       -> ~c.po
    [] KindOf(c, pos) = "nonfatal"   -> ~c.po
    [] OTHER                         -> FALSE

(* The monitor.  del : indices handed to a matcher goroutine (hook level: job dequeued)
                 cbs : log positions reported through foundCert / foundPrecert
                 mcs : log positions passed to Matcher.CertificateMatches / PrecertificateMatches *)
MonInit == [del |-> {}, cbs |-> {}, mcs |-> {}]

\* job handed to a matcher: labelled index idx, carried entry.Index eidx
MonDeliverOK(c, mon, idx, eidx) == /\ idx = eidx
                                   /\ idx \in ScanRange(c)
                                   /\ idx \notin mon.del          \* at most once
MonDeliver(mon, idx) == [mon EXCEPT !.del = @ \cup {idx}]

\* callback: the entry whose content is log position pos was reported with entry.Index idx
MonCallbackOK(c, mon, idx, pos) == /\ idx = pos                   \* "with its correct index"
                                   /\ pos \in ScanRange(c)
                                   /\ pos \notin mon.cbs          \* at most once
MonCallback(mon, pos) == [mon EXCEPT !.cbs = @ \cup {pos}]

\* Matcher interface call for the entry whose content is log position pos
MonMatcherCallOK(c, mon, pos) == pos \in ScanRange(c) /\ pos \notin mon.mcs
MonMatcherCall(mon, pos) == [mon EXCEPT !.mcs = @ \cup {pos}]

\* When Scan has returned (hooks = the delivery to matcher goroutines was observable).
FinalOK(c, mon, ret, hooks) ==
  /\ ret = RetDemanded(c)
  /\ hooks => mon.del = ScanRange(c)
  /\ \A p \in ScanRange(c) : MustCallback(c, p) => (p \in mon.cbs /\ p \in mon.mcs)

\* Counters: which split (non-atomic) counter an entry of a kind touches; 0 = none.
\*   1 precertsSeen   2 unparsableEntries   3 entriesWithNonFatalErrors
\* (under PrecertOnly an X.509 entry is dropped before it is parsed)
CounterOf(kind) == CASE kind = "precert" -> 1 [] kind = "unparsable" -> 2
                     [] kind = "nonfatal" -> 3 [] OTHER -> 0
CounterOfEntry(c, pos) == IF c.po /\ KindOf(c, pos) # "precert" THEN 0 ELSE CounterOf(KindOf(c, pos))
CounterDemanded(c, k) == Cardinality({p \in ScanRange(c) : CounterOfEntry(c, p) = k})

\* Race-free execution makes every increment effective, so the final counters are exact.
CountersOK(c, ctrs) == /\ ctrs[1] = Cardinality(ScanRange(c))
                       /\ \A k \in 1..3 : ctrs[k + 1] = CounterDemanded(c, k)

----------------------------------------------------------------------------
(* B layer: state record and step operators (scanner.go).

   st.F[f] = [pc, r0, s, e, buf]  pc: idle | req | fwd | done ; r0 = first index of the range
   st.M[m] = [pc, idx, pos, tmp]  pc: idle | add | rd | wr | done
   st.ctr  = <<certsProcessed, precertsSeen, unparsableEntries, entriesWithNonFatalErrors>>
   st.faults = remaining budget of server faults (Unlimited: never spent)                   *)

RECURSIVE Part(_, _, _)
\* Scan: for start := StartIndex; start < stop; { end := min(start+batch, stop) - 1; ...; start = end + 1 }
Part(s, stop, b) == IF s >= stop THEN <<>>
                    ELSE LET e == MinI(s + b, stop) - 1
                         IN  <<[s |-> s, e |-> e]>> \o Part(e + 1, stop, b)

BInit(c, maxFaults) ==
  [cfg |-> c, stop |-> -1, mpc |-> "sth", todo |-> <<>>,
   fetches |-> <<>>, fclosed |-> FALSE, jobs |-> <<>>, jclosed |-> FALSE,
   F |-> [f \in 1..c.nf |-> [pc |-> "idle", r0 |-> -1, s |-> 0, e |-> -1, buf |-> <<>>]],
   M |-> [m \in 1..c.nm |-> [pc |-> "idle", idx |-> -1, pos |-> -1, tmp |-> 0]],
   ctr |-> <<0, 0, 0, 0>>, faults |-> maxFaults, ret |-> -1, tpc |-> "run"]

DropAt(s, k) == SubSeq(s, 1, k - 1) \o SubSeq(s, k + 1, Len(s))

\* ---- Scan (main goroutine)
MainSTHEn(st) == st.mpc = "sth"
MainSTH(st) == LET stop == StopIndex(st.cfg) IN
  [st EXCEPT !.stop = stop, !.todo = Part(st.cfg.start, stop, st.cfg.batch), !.mpc = "push"]

MainPushEn(st, capF) == st.mpc = "push" /\ st.todo # <<>> /\ Len(st.fetches) < capF
MainPush(st) == [st EXCEPT !.fetches = Append(@, Head(st.todo)), !.todo = Tail(@)]

MainCloseFEn(st) == st.mpc = "push" /\ st.todo = <<>>
MainCloseF(st) == [st EXCEPT !.fclosed = TRUE, !.mpc = "waitf"]

MainWaitFEn(st) == st.mpc = "waitf" /\ \A f \in DOMAIN st.F : st.F[f].pc = "done"
MainWaitF(st) == [st EXCEPT !.jclosed = TRUE, !.mpc = "waitm"]

MainWaitMEn(st) == st.mpc = "waitm" /\ \A m \in DOMAIN st.M : st.M[m].pc = "done"
MainWaitM(st) == [st EXCEPT !.ret = st.cfg.start + st.ctr[1], !.mpc = "done",
                            !.tpc = IF @ = "run" THEN "stopped" ELSE @]

\* ---- fetcherJob
\* k = position in the channel; the model checker uses k = 1 (FIFO), the trace validator any k
\* because the hook is logged after the receive and two receivers may log in either order.
FTakeEn(st, f, k) == st.F[f].pc = "idle" /\ k \in 1..Len(st.fetches)
FTake(st, f, k) == LET r == st.fetches[k] IN
  [st EXCEPT !.fetches = DropAt(@, k),
             !.F[f] = [pc |-> "req", r0 |-> r.s, s |-> r.s, e |-> r.e, buf |-> <<>>]]

FExitEn(st, f) == st.F[f].pc = "idle" /\ st.fetches = <<>> /\ st.fclosed
FExit(st, f) == [st EXCEPT !.F[f].pc = "done"]

Unlimited == 100
Spend(st) == IF st.faults > 0 /\ st.faults < Unlimited THEN [st EXCEPT !.faults = @ - 1] ELSE st
MayFault(st) == st.faults # 0

\* the server answers the request [s, e] with a transient error (or an empty list)
FReplyErrEn(st, f) == st.F[f].pc = "req" /\ MayFault(st)
FReplyErr(st, f) == Spend(st)

\* the server answers with the first n of the requested entries, 1 <= n <= e - s + 1
FReplyOKEn(st, f, n) == /\ st.F[f].pc = "req"
                        /\ n \in 1..(st.F[f].e - st.F[f].s + 1)
                        /\ (n < st.F[f].e - st.F[f].s + 1 => MayFault(st))
FReplyOK(st, f, n) ==
  LET full == n = st.F[f].e - st.F[f].s + 1
      st1  == IF full THEN st ELSE Spend(st)
  IN  [st1 EXCEPT !.F[f].pc = "fwd", !.F[f].buf = [i \in 1..n |-> st.F[f].s + i - 1]]

\* entries <- matcherJob{logEntry, r.start}; r.start++   (one entry per step)
FForwardEn(st, f, capJ) == st.F[f].pc = "fwd" /\ Len(st.jobs) < capJ
FForward(st, f) ==
  LET x == st.F[f]
      s2 == x.s + 1
      b2 == Tail(x.buf)
  IN  [st EXCEPT !.jobs = Append(@, [idx |-> x.s, pos |-> Head(x.buf)]),
                 !.F[f].s = s2, !.F[f].buf = b2,
                 !.F[f].pc = IF b2 # <<>> THEN "fwd" ELSE IF s2 > x.e THEN "idle" ELSE "req"]

\* ---- matcherJob / processEntry
MTakeEn(st, m, k) == st.M[m].pc = "idle" /\ k \in 1..Len(st.jobs)
MTake(st, m, k) == LET j == st.jobs[k] IN
  [st EXCEPT !.jobs = DropAt(@, k), !.M[m] = [pc |-> "add", idx |-> j.idx, pos |-> j.pos, tmp |-> 0]]

MExitEn(st, m) == st.M[m].pc = "idle" /\ st.jobs = <<>> /\ st.jclosed
MExit(st, m) == [st EXCEPT !.M[m].pc = "done"]

MCounter(st, m) == CounterOfEntry(st.cfg, st.M[m].pos)

\* atomic.AddInt64(&s.certsProcessed, 1)
MAddEn(st, m) == st.M[m].pc = "add"
MAdd(st, m) == [st EXCEPT !.ctr[1] = @ + 1,
                          !.M[m].pc = IF MCounter(st, m) = 0 THEN "idle" ELSE "rd"]

\* the second counter of an entry (precertsSeen, unparsableEntries, entriesWithNonFatalErrors):
\* atomic.AddInt64 since commit 4fe80e7 ...
MIncEn(st, m) == st.M[m].pc = "rd"
MInc(st, m) == [st EXCEPT !.ctr[MCounter(st, m) + 1] = @ + 1, !.M[m].pc = "idle"]
\* ... before that `s.precertsSeen++`: a plain read followed by a plain write
MRdEn(st, m) == st.M[m].pc = "rd"
MRd(st, m) == [st EXCEPT !.M[m].tmp = st.ctr[MCounter(st, m) + 1], !.M[m].pc = "wr"]
MWrEn(st, m) == st.M[m].pc = "wr"
MWr(st, m) == [st EXCEPT !.ctr[MCounter(st, m) + 1] = st.M[m].tmp + 1, !.M[m].pc = "idle"]

\* ---- ticker goroutine: plain read of certsProcessed once per second; leaves when nothing remains
TickExitEn(st) == /\ st.tpc = "run" /\ st.mpc \notin {"sth", "done"}
                  /\ st.stop - st.cfg.start - st.ctr[1] = 0
TickExit(st) == [st EXCEPT !.tpc = "exited"]

\* ---- data-race prediction: two goroutines whose next steps are conflicting accesses to the
\* same variable, at least one of them a write and not both atomic.
SplitRace(st) == \E m1, m2 \in DOMAIN st.M :
                    /\ m1 # m2
                    /\ st.M[m1].pc = "wr" /\ st.M[m2].pc \in {"rd", "wr"}
                    /\ MCounter(st, m1) = MCounter(st, m2)
TickerRace(st) == /\ st.tpc = "run" /\ st.mpc \notin {"sth", "done"}
                  /\ \E m \in DOMAIN st.M : st.M[m].pc = "add"
=============================================================================
