------------------------------ MODULE LRUGen ------------------------------
(* C35 history generator (U2): every history of MaxOps operations with the results the
   A layer of LRU.tla demands. *)
EXTENDS LRU

----------------------------------------------------------------------------
(* Generator: every history of exactly MaxOps operations, with the results the
   A layer demands after each step.  hist is part of the state on purpose. *)

VARIABLES gcap, gq, hist, flags
varsG == <<gcap, gq, hist, flags>>

InitG == gcap \in Caps /\ gq = <<>> /\ hist = <<>> /\ flags = [nt |-> FALSE, nilabs |-> FALSE]

\* flags (computed by the specification, not by the harness):
\*   nt     - the history is non-trivial: it contains an eviction, an overwrite or a nil Put
\*   nilabs - it contains a nil Put of an absent key
NextG == /\ Len(hist) < MaxOps
         /\ UNCHANGED gcap
         /\ \/ \E k \in Keys, v \in Vals \cup {NilV} :
                 /\ gq' = PutStep(gq, gcap, k, v)
                 /\ hist' = Append(hist, [op |-> "put", k |-> k, v |-> v, rv |-> 0, ok |-> FALSE])
                 /\ flags' = [nt |-> flags.nt \/ v = NilV \/ IdxOf(gq, k) # 0 \/ Len(gq) = gcap,
                              nilabs |-> flags.nilabs \/ (v = NilV /\ IdxOf(gq, k) = 0)]
            \/ \E k \in Keys :
                 /\ gq' = GetStep(gq, k)
                 /\ hist' = Append(hist, [op |-> "get", k |-> k, v |-> 0, rv |-> GetRes(gq, k).v,
                                          ok |-> GetRes(gq, k).ok])
                 /\ UNCHANGED flags

SpecG == InitG /\ [][NextG]_varsG

GenInv == AInv(gq, gcap)
Emit == Len(hist) = MaxOps => PrintT(ToJson([cap |-> gcap, ops |-> hist, nt |-> flags.nt, nilabs |-> flags.nilabs]))
=============================================================================
