------------------------------ MODULE LRUGen ------------------------------
(* C35 history generator (U2): every history of MaxOps operations with the results the
   A layer of LRU.tla demands. *)
EXTENDS LRU

----------------------------------------------------------------------------
(* Generator: every history of exactly MaxOps operations, with the results the
   A layer demands after each step.  hist is part of the state on purpose. *)

VARIABLES gcap, gq, hist
varsG == <<gcap, gq, hist>>

InitG == gcap \in Caps /\ gq = <<>> /\ hist = <<>>

Snapshot(s) == [i \in 1..Len(s) |-> s[i].k]

NextG == /\ Len(hist) < MaxOps
         /\ UNCHANGED gcap
         /\ \/ \E k \in Keys, v \in Vals \cup {NilV} :
                 /\ gq' = PutStep(gq, gcap, k, v)
                 /\ hist' = Append(hist, [op |-> "put", k |-> k, v |-> v, rv |-> 0, ok |-> FALSE,
                                          keys |-> Snapshot(gq')])
            \/ \E k \in Keys :
                 /\ gq' = GetStep(gq, k)
                 /\ hist' = Append(hist, [op |-> "get", k |-> k, v |-> 0, rv |-> GetRes(gq, k).v,
                                          ok |-> GetRes(gq, k).ok, keys |-> Snapshot(gq')])

SpecG == InitG /\ [][NextG]_varsG

GenInv == AInv(gq, gcap)
Emit == Len(hist) = MaxOps => PrintT(ToJson([cap |-> gcap, ops |-> hist]))
=============================================================================
