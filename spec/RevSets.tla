------------------------------ MODULE RevSets ------------------------------
(* C15: the three browser revocation sets of x509/revocation - google (CRLSet), mozilla
   (OneCRL), microsoft (disallowedcert.sst).

   A layer only (Role F).  Three things are defined here, all as pure operators:
     1. the abstract revocation set and what each Check must report      (...Revokes/...Allowed)
     2. the structure each parser must deliver for a well-formed encoding  (...Parsed)
     3. the wire layout of a well-formed encoding, as a symbolic byte term (...Wire)
   RevSetsGen.tla lets TLC enumerate all small sets x query certificates and write them
   with (1)-(3); the Go harness only *interprets* the term symbols (fixed-width integers,
   concatenation, SHA-256 of a key's SubjectPublicKeyInfo, DER of a name / certificate,
   base64, JSON text) with the standard library, parses the bytes with zcrypto and
   compares.

   Abstract world
     issuer   == [n |-> name id, k |-> key id]            (a CA: subject name and key)
     entry    == [iss |-> issuer, s |-> serial]           serial = DER content octets of a
                                                          non-negative INTEGER (minimal)
     set      == [entries |-> Seq(entry),                 revoked (issuer, serial) pairs
                  bkeys   |-> Seq(key id),                CRLSet: blocked SPKIs
                  bsubj   |-> Seq([subj, key])]           OneCRL: blocked subject + key
     cert     == [iname, ikey, serial, subj, skey]        the query certificate: issuer name,
                                                          key of its issuer, serial, own
                                                          subject and key

   Statement (properties.jsonl C15): "each Check reports a certificate exactly when the
   set revokes it: by issuer SPKI hash and serial or blocked SPKI for CRLSets, by issuer
   name and serial or subject and key hash for OneCRL, and by issuer name and serial for
   the Microsoft store."

   Left open (both answers allowed, rule 1):
     - CRLSet, the certificate's *own* key is blocked but its issuer's is not: "blocked
       SPKI" can be read as the SPKI handed to Check (the issuer's) or as any SPKI of
       the chain; google.Check only receives the issuer's hash.
     - negative serial numbers (not generated): the wire formats carry magnitudes.
     - order of serials inside a parsed issuer list (compared as multisets).        *)
EXTENDS Integers, Sequences, FiniteSets

SeqRange(s) == {s[i] : i \in 1..Len(s)}

Listed(entries, Same(_), serial) ==
  \E i \in 1..Len(entries) : Same(entries[i].iss) /\ entries[i].s = serial

----------------------------------------------------------------------------
(* 1. Check *)

CRLSetRevokes(set, c) ==
  \/ c.ikey \in SeqRange(set.bkeys)
  \/ Listed(set.entries, LAMBDA i : i.k = c.ikey, c.serial)

\* the set of answers google.Check(cert, hash of c.ikey) may give (reported = non-nil)
CRLSetAllowed(set, c) ==
  IF CRLSetRevokes(set, c) THEN {TRUE}
  ELSE IF c.skey \in SeqRange(set.bkeys) THEN {TRUE, FALSE}   \* left open, see above
  ELSE {FALSE}

OneCRLRevokes(set, c) ==
  \/ \E i \in 1..Len(set.bsubj) : set.bsubj[i].subj = c.subj /\ set.bsubj[i].key = c.skey
  \/ Listed(set.entries, LAMBDA i : i.n = c.iname, c.serial)
OneCRLAllowed(set, c) == {OneCRLRevokes(set, c)}

SSTRevokes(set, c) == Listed(set.entries, LAMBDA i : i.n = c.iname, c.serial)
SSTAllowed(set, c) == {SSTRevokes(set, c)}

\* 1 = must be reported, 0 = must not be reported, 2 = left open
Verdict(allowed) == IF allowed = {TRUE} THEN 1 ELSE IF allowed = {FALSE} THEN 0 ELSE 2

----------------------------------------------------------------------------
(* 2. what the parsers must deliver: issuer -> serial list (issuers in order of first
      appearance, serials in wire order) and the blocked keys *)

RECURSIVE Dedup(_)
Dedup(s) == IF s = <<>> THEN <<>>
            ELSE LET r == Dedup(SubSeq(s, 1, Len(s) - 1)) IN
                 IF s[Len(s)] \in SeqRange(r) THEN r ELSE Append(r, s[Len(s)])

Groups(entries, Key(_)) ==          \* sequence of [id, serials]
  LET ids == Dedup([i \in 1..Len(entries) |-> Key(entries[i].iss)])
      Of(id) == SelectSeq(entries, LAMBDA e : Key(e.iss) = id) IN
  [g \in 1..Len(ids) |-> [id |-> ids[g], serials |-> [j \in 1..Len(Of(ids[g])) |-> Of(ids[g])[j].s]]]

ByKey(i)  == i.k
ByName(i) == i.n

CRLSetParsed(set) == [lists |-> Groups(set.entries, ByKey),  blocked |-> set.bkeys]
OneCRLParsed(set) == [lists |-> Groups(set.entries, ByName),
                      blocked |-> [i \in 1..Len(set.bsubj) |-> <<set.bsubj[i].subj, set.bsubj[i].key>>]]
SSTParsed(set)    == [lists |-> Groups(set.entries, ByName), blocked |-> <<>>]

----------------------------------------------------------------------------
(* 3. wire layouts as terms.  Byte-valued terms:
        <<"lit", bytes>>  <<"ascii", string>>  <<"cat", Seq(term)>>
        <<"u8", n>> <<"u32le", n>> <<"u64le", n>>          fixed-width little endian constants
        <<"u8len", t>> <<"u16le_len", t>> <<"u32le_len", t>>   length of term t, fixed width
        <<"spki256", key>>    SHA-256 of the DER SubjectPublicKeyInfo of the key
        <<"name", name>>      DER of the distinguished name
        <<"cert", c>>         DER of a certificate [iname, ikey, serial, subj, skey]
        <<"json", j>>         UTF-8 text of JSON value j
      JSON-valued terms:
        <<"obj", Seq(<<key, j>>)>> <<"arr", Seq(j)>> <<"str", string>> <<"num", n>>
        <<"numstr", digits>> (a number too wide for TLC's 32-bit integers)
        <<"bool", b>> <<"b64", t>> (standard base64 of byte term t as a JSON string)   *)

Lit(b)   == <<"lit", b>>
Cat(ts)  == <<"cat", ts>>
JObj(kv) == <<"obj", kv>>
JArr(xs) == <<"arr", xs>>
JStr(s)  == <<"str", s>>
JNum(n)  == <<"num", n>>
B64(t)   == <<"b64", t>>
Hash(k)  == <<"spki256", k>>

\* serial on the wire: the content octets; with Strip the redundant leading zero octet of
\* a DER INTEGER is removed (both forms denote the same number)
WireSerial(s, Strip) == IF Strip /\ Len(s) > 1 /\ s[1] = 0 THEN Lit(Tail(s)) ELSE Lit(s)

(* CRLSet (Chromium net/cert/crl_set.cc): u16le header length, JSON header, then per issuer
   32-byte SPKI hash, u32le serial count, (u8 length, serial octets)*.  The header's
   BlockedSPKIs are base64 SHA-256 SPKI hashes. *)
CRLSetHeader(set, sequence) ==
  <<"json", JObj(<< <<"Version", JNum(0)>>, <<"ContentType", JStr("CRLSet")>>,
                    <<"Sequence", JNum(sequence)>>, <<"DeltaFrom", JNum(0)>>,
                    <<"NumParents", JNum(Len(Groups(set.entries, ByKey)))>>,
                    <<"BlockedSPKIs", JArr([i \in 1..Len(set.bkeys) |-> B64(Hash(set.bkeys[i]))])>> >>)>>

CRLSetWire(set, sequence, Strip) ==
  LET h  == CRLSetHeader(set, sequence)
      gs == Groups(set.entries, ByKey)
      Block(g) == Cat(<< Hash(g.id), <<"u32le", Len(g.serials)>>,
                         Cat([j \in 1..Len(g.serials) |->
                                Cat(<< <<"u8len", WireSerial(g.serials[j], Strip)>>,
                                       WireSerial(g.serials[j], Strip) >>)]) >>) IN
  Cat(<< <<"u16le_len", h>>, h, Cat([g \in 1..Len(gs) |-> Block(gs[g])]) >>)

(* OneCRL (Kinto records): {"data":[record..]}; a record revokes either issuerName +
   serialNumber (base64 of the DER name / of the serial octets) or subject + pubKeyHash
   (base64 DER name, base64 SHA-256 of the SubjectPublicKeyInfo).  BlockedFirst puts the
   subject/key records before the issuer/serial records. *)
OneCRLCommon(id) == << <<"id", JStr(id)>>, <<"enabled", <<"bool", TRUE>> >>, <<"schema", <<"numstr", "1552492993449">> >>,
                       <<"last_modified", <<"numstr", "1552492993450">> >>,
                       <<"details", JObj(<< <<"who", JStr("")>>, <<"created", JStr("")>>, <<"bug", JStr("b")>>,
                                            <<"name", JStr("")>>, <<"why", JStr("")>> >>)>> >>
OneCRLWire(set, Strip, BlockedFirst) ==
  LET er == [i \in 1..Len(set.entries) |->
               JObj(<< <<"issuerName", B64(<<"name", set.entries[i].iss.n>>)>>,
                       <<"serialNumber", B64(WireSerial(set.entries[i].s, Strip))>> >> \o OneCRLCommon("e"))]
      br == [i \in 1..Len(set.bsubj) |->
               JObj(<< <<"subject", B64(<<"name", set.bsubj[i].subj>>)>>,
                       <<"pubKeyHash", B64(Hash(set.bsubj[i].key))>> >> \o OneCRLCommon("b"))] IN
  <<"json", JObj(<< <<"data", JArr(IF BlockedFirst THEN br \o er ELSE er \o br)>> >>)>>

(* Microsoft serialized certificate store ([MS-OSHARED] 2.3.9): u32le version 0, "CERT",
   then per certificate zero or more property elements (u32le id, u32le encoding 1, u32le
   length, value) and the certificate element (id 32, encoding 1, length, DER), then the
   end marker (u32le 0, u64le 0).  The store lists the disallowed certificates themselves;
   entry i becomes a certificate issued by entries[i].iss with serial entries[i].s. *)
SSTCert(e, i) == <<"cert", [iname |-> e.iss.n, ikey |-> e.iss.k, serial |-> e.s,
                            subj |-> "D", skey |-> "KD"]>>
SSTElement(id, t) == Cat(<< <<"u32le", id>>, <<"u32le", 1>>, <<"u32le_len", t>>, t >>)
SSTWire(set, NProps) ==
  Cat(<< <<"u32le", 0>>, <<"ascii", "CERT">>,
         Cat([i \in 1..Len(set.entries) |->
                Cat([p \in 1..NProps |-> SSTElement(IF p = 1 THEN 3 ELSE 20, Lit([x \in 1..(16 + 4 * p) |-> 65 + p]))]
                    \o << SSTElement(32, SSTCert(set.entries[i], i)) >>)]),
         <<"u32le", 0>>, <<"u64le", 0>> >>)

----------------------------------------------------------------------------
(* dispatch on the format name; variant v == [strip, bfirst, nprops] *)
WireOf(fmt, set, v) ==
  CASE fmt = "crlset" -> CRLSetWire(set, 6375, v.strip)
    [] fmt = "onecrl" -> OneCRLWire(set, v.strip, v.bfirst)
    [] fmt = "sst"    -> SSTWire(set, v.nprops)
ParsedOf(fmt, set) ==
  CASE fmt = "crlset" -> CRLSetParsed(set)
    [] fmt = "onecrl" -> OneCRLParsed(set)
    [] fmt = "sst"    -> SSTParsed(set)
AllowedOf(fmt, set, c) ==
  CASE fmt = "crlset" -> CRLSetAllowed(set, c)
    [] fmt = "onecrl" -> OneCRLAllowed(set, c)
    [] fmt = "sst"    -> SSTAllowed(set, c)
=============================================================================
