----------------------------- MODULE TLSKDFGen -----------------------------
(* C26 case generator (U2): enumerates parameter records over the boundary classes and
   writes CaseOf(p) for each to kdf_cases.ndjson.  Families selects which derivations
   are enumerated in this run (the driver runs several TLC processes in parallel);
   Deep = TRUE additionally enumerates EVERY output length 0..512 for the core PRFs. *)
EXTENDS TLSKDFSeq, TLC, Json, SequencesExt

CONSTANTS Families, Deep, Full, Out, SeqOut      \* SeqOut: file for the use-after-mutation programs (family "seq")

P(fn, ver, suite, h, label, ll, sl, dl, cl, n, tp) ==
  [fn |-> fn, ver |-> ver, suite |-> suite, h |-> h, label |-> label, ll |-> ll, sl |-> sl,
   dl |-> dl, cl |-> cl, n |-> n, tp |-> tp]

Lens(hl) == {0, 1, hl - 1, hl, hl + 1, 2 * hl, 2 * hl + 1, 48, 512}
AllLens == 0..512
LensFor(hl) == IF Deep THEN AllLens ELSE Lens(hl)
Lens10 == IF Deep THEN AllLens ELSE Lens(16) \cup Lens(20)
\* Full = FALSE (quick tier): the longest output (512 bytes, the deepest chains) is combined only
\* with the main representative of the other classes; Full = TRUE: the whole product.
Keep(p, main) == Full \/ Deep \/ p.n < 512 \/ main

Hashes == {"md5", "sha1", "sha256", "sha384"}
Hashes12 == {"sha256", "sha384"}
\* secret lengths: empty, one byte, the PRF10 split (even / odd), HMAC block size and beyond
SecretLens == {0, 1, 47, 48, 65, 129}
SecretLens10 == {0, 1, 2, 47, 48, 49}
Transcripts == {<<>>, <<0>>, <<1>>, <<5, 300>>}
RepSuites == {47, 157, 49199}          \* one PRF10/SHA-256 CBC suite, one SHA-384 suite, one SHA-256 AEAD suite
VersOf(s) == IF s.t12 THEN {V12} ELSE Versions
Std13Labels == {"derived", "ext binder", "res binder", "c e traffic", "e exp master", "c hs traffic",
                "s hs traffic", "c ap traffic", "s ap traffic", "exp master", "res master"}

Params ==
  (IF "phash" \in Families THEN
     UNION { { P("phash", 0, 0, h, "", 0, sl, dl, 0, n, <<>>) :
                 sl \in (IF Deep THEN {48} ELSE SecretLens), dl \in (IF Deep THEN {64} ELSE {0, 64}),
                 n \in LensFor(HLen(h)) } : h \in Hashes }
   ELSE {})
  \cup
  (IF "prf10" \in Families THEN
     { P("prf10", 0, 0, "", "master secret", ll, sl, dl, 0, n, <<>>) :
         ll \in (IF Deep THEN {-1} ELSE {-1, 0}), sl \in (IF Deep THEN {48, 49} ELSE SecretLens10),
         dl \in (IF Deep THEN {64} ELSE {0, 64}), n \in Lens10 }
   ELSE {})
  \cup
  (IF "prf12" \in Families THEN
     UNION { { P("prf12", 0, 0, h, "key expansion", ll, sl, dl, 0, n, <<>>) :
                 ll \in (IF Deep THEN {-1} ELSE {-1, 0}), sl \in (IF Deep THEN {48} ELSE SecretLens),
                 dl \in (IF Deep THEN {64} ELSE {0, 64}), n \in LensFor(HLen(h)) } : h \in Hashes12 }
   ELSE {})
  \cup
  (IF "prfver" \in Families THEN
     UNION { { P("prfver", v, s.id, "", "client finished", -1, 48, 64, 0, n, <<>>) :
                 v \in VersOf(s), n \in {12, 48, 97} } : s \in SuiteTable }
   ELSE {})
  \cup
  (IF "master" \in Families THEN
     UNION { { P("master", v, s.id, "", "", 0, sl, 0, 0, 48, <<>>) :
                 v \in VersOf(s), sl \in {0, 1, 32, 48, 66, 256} } : s \in SuiteTable }
   ELSE {})
  \cup
  (IF "keyblock" \in Families THEN
     UNION { { P("keyblock", v, s.id, "", "", 0, sl, 0, 0, 2 * s.mac + 2 * s.key + 2 * s.iv, <<>>) :
                 v \in VersOf(s), sl \in {48, 0} } : s \in SuiteTable }
   ELSE {})
  \cup
  (IF "finished" \in Families THEN
     UNION { { P("finished", v, s.id, "", "", 0, 48, 0, 0, 12, tp) :
                 v \in VersOf(s), tp \in Transcripts } : s \in SuiteTable }
   ELSE {})
  \cup
  (IF "ekm" \in Families THEN
     UNION { { P("ekm", v, s.id, "", "EXPORTER-verif-label", -1, 48, 0, -1, 32, <<>>) : v \in VersOf(s) } : s \in SuiteTable }
     \cup
     UNION { { P("ekm", v, sid, "", "", ll, 48, 0, cl, n, <<>>) :
                 v \in VersOf(SuiteOf(sid)), ll \in {0, 1, 20}, cl \in {-1, 0, 1, 300},
                 n \in (IF Deep THEN AllLens ELSE Lens(32) \cup Lens(48) \cup Lens(16)) } : sid \in RepSuites }
     \cup
     UNION { { P("ekm", v, sid, "", l, -1, 48, 0, cl, 32, <<>>) :
                 v \in VersOf(SuiteOf(sid)), l \in ReservedLabels, cl \in {-1, 0} } : sid \in RepSuites }
     \cup
     { P("ekm", V12, 157, "", "", 20, 48, 0, cl, 32, <<>>) : cl \in {65535, 65536} }
   ELSE {})
  \cup
  (IF "expandlabel" \in Families THEN
     UNION { { P("expandlabel", 772, s.id, "", "", ll, sl, 0, cl, n, <<>>) :
                 ll \in (IF Deep THEN {12} ELSE {0, 1, 12, 249}), sl \in (IF Deep THEN {HLen(s.h)} ELSE {1, HLen(s.h), 129}),
                 cl \in (IF Deep THEN {HLen(s.h)} ELSE {0, 1, HLen(s.h), 255}), n \in LensFor(HLen(s.h)) } : s \in Suites13 }
   ELSE {})
  \cup
  (IF "sched13" \in Families THEN
     UNION { { P("derive", 772, s.id, "", l, -1, sl, 0, cl, HLen(s.h), tp) :
                 l \in Std13Labels, sl \in {HLen(s.h), 0}, cl \in {-1, 0}, tp \in Transcripts } : s \in Suites13 }
     \cup
     UNION { { P("extract", 772, s.id, "", "", 0, sl, dl, 0, HLen(s.h), <<>>) :
                 sl \in {-1, 0, HLen(s.h), 32, 66}, dl \in {-1, 0, HLen(s.h)} } : s \in Suites13 }
     \cup
     { P("traffickey", 772, s.id, "", "", 0, sl, 0, 0, s.key, <<>>) : s \in Suites13, sl \in {32, 48} }
     \cup
     { P("nexttraffic", 772, s.id, "", "", 0, HLen(s.h), 0, 0, HLen(s.h), <<>>) : s \in Suites13 }
     \cup
     { P("finished13", 772, s.id, "", "", 0, HLen(s.h), 0, 0, HLen(s.h), tp) : s \in Suites13, tp \in Transcripts }
   ELSE {})
  \cup
  (IF "exporter13" \in Families THEN
     UNION { { P("exporter13", 772, s.id, "", "", ll, HLen(s.h), 0, cl, n, tp) :
                 ll \in {0, 1, 20}, cl \in {-1, 0, 1, 300}, n \in Lens(HLen(s.h)), tp \in {<<>>, <<7>>} } : s \in Suites13 }
   ELSE {})

MainClass(p) ==
  CASE p.fn \in {"phash", "prf12"} -> p.sl = 48 /\ p.dl = 64
    [] p.fn = "prf10" -> p.sl \in {48, 49} /\ p.dl = 64 /\ p.ll = -1
    [] p.fn = "ekm" -> p.ll = 20 /\ p.cl \in {-1, 1}
    [] p.fn = "expandlabel" -> p.ll = 12 /\ p.sl = HLen(Suite13Of(p.suite).h) /\ p.cl \in {0, HLen(Suite13Of(p.suite).h)}
    [] p.fn = "exporter13" -> p.ll = 20 /\ p.cl \in {-1, 1} /\ p.tp = <<7>>
    [] OTHER -> TRUE
ParamSeq == SetToSeq({p \in Params : InDomain(p) /\ Keep(p, MainClass(p))})
Cases == [i \in 1..Len(ParamSeq) |-> CaseOf(ParamSeq[i])]

ASSUME "seq" \in Families =>
  LET sc == SetToSeq(SeqCases) IN
  /\ \A i \in 1..Len(sc) : \A j \in 1..Len(sc[i].expect) : \A k \in 1..Len(sc[i].expect[j].allowed) :
        WellFormed(sc[i].expect[j].allowed[k])
  /\ ndJsonSerialize(SeqOut, sc)
  /\ PrintT(<<"SEQCASES", Len(sc)>>)

ASSUME LET cs == Cases IN
  /\ \A i \in 1..Len(cs) : \A j \in 1..Len(cs[i].out) : WellFormed(cs[i].out[j])
  /\ ndJsonSerialize(Out, cs)
  /\ PrintT(<<"CASES", Len(cs)>>)
=============================================================================
