------------------------------- MODULE OCSP -------------------------------
(* C13: x509/revocation/ocsp - CreateResponse / ParseResponse / ParseResponseForCert,
   CreateRequest / ParseRequest.

   A layer only (Role F + T).  Pure operators, used by OCSPGen.tla (TLC enumerates the
   cases with the demanded outcome) and Trace_OCSP.tla (TLC judges observations recorded
   on seeded random templates).

   Statement (properties.jsonl C13), clause by clause:
   (1) "Responses built by CreateResponse parse back with the same status, serial, update
        and revocation times (to the second), reason, issuer hash and responder name"
                                                                   -> Expected(t, sc)
   (2) "requests built by CreateRequest parse back to the same hashes and serial"
                                                                   -> ExpectedRequest
   (3) "ParseResponse with an issuer accepts a response only if its signature verifies
        under that issuer, directly or through an embedded responder certificate signed
        by the issuer, so any tampering of a signed response is rejected"
                                                                   -> Verdict, Fault
   (4) "ParseResponseForCert returns the first single response whose serial matches"
                                                                   -> ForCert

   Cryptography is ideal (Role T): a signature is the term [k, a, m] (key, algorithm,
   message); it verifies under key k', algorithm a' on message m' iff the three are equal.
   The harness interprets keys and signatures with Go's standard library.

   Numbers: serials are DER INTEGER content octets (two's complement, minimal); times are
   whole seconds after 2020-01-01T00:00:00Z. *)
EXTENDS Integers, Sequences, FiniteSets

NoTime == -1

----------------------------------------------------------------------------
(* (1) field map.
   template t == [status  : "good" | "revoked" | "unknown",
                  serial  : octets,
                  thisUpdate, nextUpdate, revokedAt : seconds,
                  reason  : 0..10,
                  ihash   : "default" | "sha1" | "sha256" | "sha384" | "sha512",
                  sigalg  : "default" | "sha1" | "sha256" | "sha384" | "sha512"  (requested
                            template.SignatureAlgorithm: the hash, the family follows the
                            signing key; "default" = field left 0),
                  exts    : Seq([oid, crit, val])]         (ExtraExtensions, non-critical)
   The concrete template may carry sub-second fractions and a non-UTC zone; "to the second"
   means they are invisible, so they are not part of the abstract template at all.
   responder == the name id of the certificate passed as responderCert.
   RevokedAt / reason are only demanded for status "revoked" (CreateResponse ignores them
   otherwise and the statement says nothing about what parsing then reports). *)

IssuerHashOf(t) == IF t.ihash = "default" THEN "sha1" ELSE t.ihash

(* The algorithm a response is labelled with: the requested one, or the signing key's default
   (documented in signingParamsForPublicKey: SHA-256 for RSA, P-224 and P-256, SHA-384 for
   P-384).  keytype: "P" = ECDSA P-256, "Q" = ECDSA P-384, "R" = RSA.  The label must also be
   *true*: the signature has to verify under the signer's key with exactly this algorithm
   (WellSigned below) - otherwise ParseResponse rejects the library's own output. *)
FamilyOf(keytype) == IF keytype = "R" THEN "rsa" ELSE "ecdsa"
DefaultHashOf(keytype) == IF keytype = "Q" THEN "sha384" ELSE "sha256"
SigAlgOf(t, keytype) ==
  FamilyOf(keytype) \o "-" \o (IF t.sigalg = "default" THEN DefaultHashOf(keytype) ELSE t.sigalg)

Expected(t, responder, embedded, keytype) ==
  [status     |-> t.status,
   revoked    |-> t.status = "revoked",
   serial     |-> t.serial,
   thisUpdate |-> t.thisUpdate,
   nextUpdate |-> t.nextUpdate,
   revokedAt  |-> IF t.status = "revoked" THEN t.revokedAt ELSE NoTime,
   reason     |-> IF t.status = "revoked" THEN t.reason ELSE 0,
   ihash      |-> IssuerHashOf(t),
   sigalg     |-> SigAlgOf(t, keytype),
   responder  |-> responder,
   hasCert    |-> embedded,
   exts       |-> t.exts]

----------------------------------------------------------------------------
(* (2) requests.  The hashes are terms the harness evaluates with the standard library:
   name hash = H(DER subject of the issuer), key hash = H(subjectPublicKey bit string
   content of the issuer), RFC 6960 4.1.1. *)
RequestHashOf(h) == IF h \in {"nil", "zero"} THEN "sha1" ELSE h   \* nil options / zero Hash

ExpectedRequest(hopt, issuer, serial) ==
  [hash     |-> RequestHashOf(hopt),
   nameHash |-> <<"hash", RequestHashOf(hopt), <<"rawsubject", issuer>> >>,
   keyHash  |-> <<"hash", RequestHashOf(hopt), <<"pubkeybits", issuer>> >>,
   serial   |-> serial]

----------------------------------------------------------------------------
(* (3) acceptance with ideal signatures.
   cert     == [tbs |-> [subj, key, id], alg |-> a, sig |-> Sig]     (id "tampered" after a fault)
   response == [tbs |-> message id ("tampered" after a fault), alg |-> a, sig |-> Sig,
                certs |-> Seq(cert), malformed |-> BOOLEAN]
   (TLC compares only values of one type, hence records / flags instead of sentinels.) *)
Sig(k, a, m) == [k |-> k, a |-> a, m |-> m]
GarbageSig     == Sig("none", "none", "none")
GarbageCertSig == Sig("none", "none", [subj |-> "none", key |-> "none", id |-> "none"])

Verifies(sig, k, a, m) == sig = Sig(k, a, m)

Direct(r, ik) == Verifies(r.sig, ik, r.alg, r.tbs)

\* what every output of CreateResponse must satisfy, whatever algorithm was requested: the
\* signature verifies under the signing key with the algorithm the response is labelled with
WellSigned(r, signerKey) == Verifies(r.sig, signerKey, r.alg, r.tbs)

Via(r, ik) ==
  /\ Len(r.certs) > 0
  /\ Verifies(r.sig, r.certs[1].tbs.key, r.alg, r.tbs)
  /\ Verifies(r.certs[1].sig, ik, r.certs[1].alg, r.certs[1].tbs)

(* "accept"  - the response is what CreateResponse builds for a proper responder (issuer
               itself without embedded certificate, or delegated responder whose embedded
               certificate is signed by the issuer): clause (1) needs it to parse;
   "reject"  - neither Direct nor Via holds: clause (3) forbids acceptance;
   "open"    - the signature verifies directly under the issuer but a certificate is
               embedded that does not carry the signing key (the code insists on the
               embedded certificate; the statement allows either answer). *)
Verdict(r, ik) ==
  IF r.malformed THEN "reject"
  ELSE IF Via(r, ik) THEN "accept"
  ELSE IF Direct(r, ik) THEN (IF Len(r.certs) = 0 THEN "accept" ELSE "open")
  ELSE "reject"

(* Faults on the DER of a signed response.  Regions are located by the harness' own TLV
   walk.  A one-bit change inside
     tbs        the tbsResponseData element          -> the signed message changes
     sig        the signature BIT STRING             -> no longer the signature term
     alg        the response's signatureAlgorithm, except its parameters
                                                     -> another (or no) algorithm
     cert_tbs / cert_sig   the signed part / the signature of the first embedded certificate
     status     the responseStatus element           -> no longer a successful response
     resptype   the responseType OID                 -> no longer a basic OCSP response
   must lead to rejection: "any tampering of a signed response is rejected".
   Left open (rule 1) are the octets that no signature covers and that carry no meaning for
   the acceptance rule; the code may accept or reject, but an accepted response must still
   show exactly the expected fields:
     alg_params the NULL parameters of an RSA algorithm identifier
     cert_alg   the *outer* signatureAlgorithm of the embedded certificate (zcrypto, like the
                older standard library, verifies with the copy inside the signed
                tbsCertificate and does not compare the two)
     headers    identifier / length octets of the enclosing SEQUENCE, EXPLICIT and OCTET
                STRING wrappers (Go's asn1 decoders ignore the length of an EXPLICIT
                wrapper; strictness of DER decoding is C19's subject, not C13's)
   and whole-element faults
     swap(c)    replace the embedded certificate by certificate c
     drop       remove the embedded certificates
     reorder    permute the single responses inside tbsResponseData (a change of tbs) *)
VoidRegions == {"alg_params", "cert_alg", "headers"}

SetCert(r, c) == [r EXCEPT !.certs = <<c>> \o SubSeq(r.certs, 2, Len(r.certs))]

Fault(r, f) ==
  CASE f.kind = "none"     -> r
    [] f.kind = "tbs"      -> [r EXCEPT !.tbs = "tampered"]
    [] f.kind = "reorder"  -> [r EXCEPT !.tbs = "tampered"]
    [] f.kind = "sig"      -> [r EXCEPT !.sig = GarbageSig]
    [] f.kind = "alg"      -> [r EXCEPT !.alg = "other"]
    [] f.kind = "cert_tbs" -> SetCert(r, [r.certs[1] EXCEPT !.tbs.id = "tampered"])
    [] f.kind = "cert_sig" -> SetCert(r, [r.certs[1] EXCEPT !.sig = GarbageCertSig])
    [] f.kind \in {"status", "resptype"} -> [r EXCEPT !.malformed = TRUE]
    [] f.kind = "swap"     -> SetCert(r, f.cert)
    [] f.kind = "drop"     -> [r EXCEPT !.certs = <<>>]
    [] f.kind \in VoidRegions -> r

FaultApplies(r, f) ==
  CASE f.kind \in {"cert_tbs", "cert_sig", "cert_alg", "swap", "drop"} -> Len(r.certs) > 0
    [] OTHER -> TRUE

FaultVerdict(r, f, ik) ==
  IF f.kind \in VoidRegions THEN "open" ELSE Verdict(Fault(r, f), ik)

----------------------------------------------------------------------------
(* scenario world: the concrete PKI every generated / recorded case lives in.
   Scenario == [signer |-> key role, responder |-> certificate id passed as responderCert,
                embedded |-> certificate id or "none", verifier |-> certificate id of the
                issuer handed to ParseResponse].
   Key roles: KI issuer, KO another CA, KR delegated responder, KX a stranger.
   Certificates (subject, key, issuer name, signing key, key role whose identifier is
   used as subjectKeyId or "-"):
     I  (I,KI,I,KI,KI)  O (O,KO,O,KO,KO)   the two CAs (self-signed)
     R  (R,KR,I,KI,-)   delegated responder, properly issued
     R2 (R,KR,I,KI,-)   a second certificate for the same responder key
     Ro (R,KR,O,KO,-)   responder certified by the other CA
     Rf (R,KR,I,KO,-)   names the issuer but is signed by the other CA's key
     Rs (R,KR,R,KR,-)   self-signed responder
     Rx (X,KX,I,KI,-)   properly issued certificate of a stranger
   Name collisions - the party is identified by the *key* that signed, never by a name or
   key identifier it carries:
     Rn  (I,KR,I,KR,-)  carries the issuer's subject, own key, self-signed
     Rm  (I,KR,X,KX,-)  carries the issuer's subject, own key, signed by a stranger
     Rnx (I,KR,I,KX,-)  issuer's subject, names the issuer as its issuer, signed by a stranger
     Rns (I,KR,I,KR,KI) as Rn, and with the issuer's subjectKeyId octets
     Rms (I,KR,X,KX,KI) as Rm, and with the issuer's subjectKeyId octets
   None of the five is signed by KI, so none of them can make Via hold for verifier I. *)
CertSpec == [I  |-> <<"I", "KI", "I", "KI", "KI">>, O  |-> <<"O", "KO", "O", "KO", "KO">>,
             R  |-> <<"R", "KR", "I", "KI", "-">>, R2 |-> <<"R", "KR", "I", "KI", "-">>,
             Ro |-> <<"R", "KR", "O", "KO", "-">>, Rf |-> <<"R", "KR", "I", "KO", "-">>,
             Rs |-> <<"R", "KR", "R", "KR", "-">>, Rx |-> <<"X", "KX", "I", "KI", "-">>,
             Rn |-> <<"I", "KR", "I", "KR", "-">>, Rm |-> <<"I", "KR", "X", "KX", "-">>,
             Rnx |-> <<"I", "KR", "I", "KX", "-">>,
             Rns |-> <<"I", "KR", "I", "KR", "KI">>, Rms |-> <<"I", "KR", "X", "KX", "KI">>]
CertIds == {"I", "O", "R", "R2", "Ro", "Rf", "Rs", "Rx", "Rn", "Rm", "Rnx", "Rns", "Rms"}
NameCollisionIds == {"Rn", "Rm", "Rnx", "Rns", "Rms"}
EmbeddedIds == {"none", "R", "Ro", "Rf", "Rs", "Rx"} \cup NameCollisionIds

AlgOf(key) == "alg-" \o key        \* the algorithm a key signs with (one per key here)

CertOf(id) ==
  LET s == CertSpec[id]
      tbs == [subj |-> s[1], key |-> s[2], id |-> id] IN
  [tbs |-> tbs, alg |-> AlgOf(s[4]), sig |-> Sig(s[4], AlgOf(s[4]), tbs)]

Resp(sc) ==
  [tbs |-> "m", alg |-> AlgOf(sc.signer), sig |-> Sig(sc.signer, AlgOf(sc.signer), "m"),
   certs |-> IF sc.embedded = "none" THEN <<>> ELSE <<CertOf(sc.embedded)>>, malformed |-> FALSE]

KeyOfCert(id) == CertSpec[id][2]
SubjectOf(id) == CertSpec[id][1]     \* the responder name a response carries
\* key type of the key that signs in scenario sc, for the key-type pair kt = <<CA type, responder type>>
SignerType(sc, kt) == IF sc.signer \in {"KI", "KO"} THEN kt[1] ELSE kt[2]

\* responder: the certificate whose subject becomes the responder ID - the embedded one (or
\* the issuer when none is embedded), and additionally always the issuer itself: a response
\* that *names* the issuer as responder while somebody else signed it.
Scenarios ==
  {sc \in [signer : {"KI", "KR", "KX"}, embedded : EmbeddedIds, responder : CertIds, verifier : {"I", "O"}] :
     sc.responder = "I" \/ sc.responder = sc.embedded}

ScVerdict(sc) == Verdict(Resp(sc), KeyOfCert(sc.verifier))

Direct1   == [signer |-> "KI", embedded |-> "none", responder |-> "I", verifier |-> "I"]
Delegated == [signer |-> "KR", embedded |-> "R",    responder |-> "R", verifier |-> "I"]

----------------------------------------------------------------------------
(* responder ID forms (RFC 6960 ResponderID): by name or by SHA-1 key hash.  The acceptance
   rule does not mention the responder ID at all; a response whose ID points at the issuer's
   name or key while somebody else signed it is judged like any other.
   rid == [kind |-> "name" | "key", target |-> certificate id] *)
RidVerdict(sc, rid) == ScVerdict(sc)

----------------------------------------------------------------------------
(* (4) ParseResponseForCert: singles == Seq([serial, mark]); the result is the index of the
   first single response with the certificate's serial, 0 = no match (an error). *)
ForCert(singles, s) ==
  LET M == {i \in 1..Len(singles) : singles[i].serial = s} IN
  IF M = {} THEN 0 ELSE CHOOSE i \in M : \A j \in M : i <= j
=============================================================================
