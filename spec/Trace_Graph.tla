---------------------------- MODULE Trace_Graph ----------------------------
(* C10 observation validator (U3, function style).  Each line of graph_obs.ndjson is
     [obs |-> <observation record of Graph.tla>, hist |-> ..., step |-> n]
   recorded from a real verifier.Graph after an insertion.  The observation is accepted iff
   GraphReasons(obs) = {} (A layer of Graph.tla); for every rejected line one JSON line
   {"i": line, "why": [violated clauses]} is printed.  A panic of AddCert/AddRoot is a clause
   of its own ("panic").  The last line printed is <<"JUDGED", n>>.                           *)
EXTENDS Graph, Json

Recs == ndJsonDeserialize("graph_obs.ndjson")

Why(r) == GraphReasons(r.obs) \cup (IF r.obs.panic # "" THEN {"panic"} ELSE {})

ASSUME \A i \in 1..Len(Recs) :
         LET w == Why(Recs[i]) IN w = {} \/ PrintT(ToJson([i |-> i, why |-> w]))
ASSUME PrintT(<<"JUDGED", Len(Recs)>>)
=============================================================================
