--------------------------- MODULE TLSHandshakeMC ---------------------------
(* The handshake machine (U1): a zcrypto-shaped client and server exchanging abstract handshake
   flights over a FIFO network owned by an adversary, with ideal cryptography:

     Sig(k, over)        only the holder of k makes it; verifies iff key and content agree
     Mac(ms, who, tr)    Finished: term equality over master-secret term and transcript
     Seal(k, st)         session ticket; opaque and unforgeable without k
     DH(a, b) = {a, b}   shared secret of two ephemeral shares

   The endpoints follow the code's control flow (one action per flight of
   clientHandshake / serverHandshake, TLS <= 1.2 full and resumed, TLS 1.3 with certificate or
   PSK) and take every negotiation decision through the A-layer operators of TLSHandshake.tla
   (ServerSelect, ClientAborts, TicketDemand, ...).  TLC checks, for small constants:

     C24  Agreement, NegotiatedAsDemanded, TamperNeverCompletes (downgrade included)
     C27  ClientDoneMeansServerAuthentic, ServerDoneMeansClientAuthentic
     C31  ResumeOnlyAuthentic, CurrentKeyResumes, ResumedSecretsAreTheTickets
     C32  TypeOK (endpoint states stay in {running, done, failed}), ClosedLeadsToReturned
     liveness without adversary: compatible pairs complete

   A counterexample here is a design-level prediction; verdicts come only from the real code
   (DESIGN.md 3).  Not modelled: HelloRetryRequest, renegotiation, OCSP/SCT messages, alerts. *)
EXTENDS TLSHandshake

CONSTANTS Mode,       \* "C24", "C27", "C31", "C32": configuration universe and adversary powers
          AdvBudget   \* number of adversary actions per behaviour

VARIABLES cfgC, cfgS, au, conn, cst, sst, c2s, s2c, trC, trS, sessC, sessS, cache, keysS, issued,
          presented, decision, adv, closed,
          verify,    \* the client of this connection verifies the server (not InsecureSkipVerify)
          now,       \* Config.Time of the server, in hours
          auto,      \* the server's ticket keys are on automatic rotation (no SetSessionTicketKeys)
          post       \* data phase of one endpoint after a completed handshake (C32), see DataPhase below

vars == <<cfgC, cfgS, au, conn, cst, sst, c2s, s2c, trC, trS, sessC, sessS, cache, keysS, issued,
          presented, decision, adv, closed, verify, now, auto, post>>

-----------------------------------------------------------------------------
(* configuration universes *)
BaseC == [min |-> 10, max |-> 13, suites |-> <<>>, alpn |-> <<"h2", "x1">>, curves |-> <<>>,
          tickets |-> TRUE, force |-> FALSE]
BaseS == [min |-> 10, max |-> 13, suites |-> <<>>, prefer |-> FALSE, alpn |-> <<"x1", "h2">>,
          curves |-> <<>>, tickets |-> TRUE, key |-> "R", auth |-> 0]

CCfgs ==
  CASE Mode = "C24" -> { BaseC, [BaseC EXCEPT !.max = 12],
                         [BaseC EXCEPT !.max = 11, !.suites = <<47, 49171>>, !.alpn = <<>>],
                         [BaseC EXCEPT !.min = 12, !.suites = <<49199, 156, 4865>>, !.tickets = FALSE] }
    [] Mode = "C31" -> { [BaseC EXCEPT !.max = 12, !.alpn = <<>>], [BaseC EXCEPT !.alpn = <<>>] }
    [] OTHER        -> { [BaseC EXCEPT !.max = 12, !.suites = <<49199, 47>>], BaseC }
SCfgs ==
  CASE Mode = "C24" -> { BaseS, [BaseS EXCEPT !.max = 12, !.prefer = TRUE, !.suites = <<156, 49199, 47>>],
                         [BaseS EXCEPT !.key = "P", !.min = 12, !.tickets = FALSE], [BaseS EXCEPT !.max = 11],
                         [BaseS EXCEPT !.auth = 1], [BaseS EXCEPT !.auth = 4] }   \* client certificate requested / required
    [] Mode = "C27" -> { [BaseS EXCEPT !.auth = a] : a \in 0..4 }
    [] OTHER        -> { BaseS }

\* authentication scenarios: which certificate each side presents, whether it verifies under the
\* peer's configuration (chain, name, time), and which private key the side really holds
GoodAu == [scertKey |-> "ks", scertValid |-> TRUE, skey |-> "ks",
           ccert |-> FALSE, ccertKey |-> "kc", ccertValid |-> TRUE, ckey |-> "kc"]
Aus ==
  IF Mode = "C24" THEN {GoodAu, [GoodAu EXCEPT !.ccert = TRUE]}
  ELSE IF Mode # "C27" THEN {GoodAu}
  ELSE { GoodAu,
         [GoodAu EXCEPT !.scertValid = FALSE],                  \* UntrustedRoot / Expired / WrongName
         [GoodAu EXCEPT !.skey = "kx"],                         \* WrongKey
         [GoodAu EXCEPT !.ccert = TRUE],                        \* good client certificate
         [GoodAu EXCEPT !.ccert = TRUE, !.ccertValid = FALSE],  \* untrusted / expired client certificate
         [GoodAu EXCEPT !.ccert = TRUE, !.ckey = "ky"] }        \* ClientWrongKey

MaxConn == IF Mode \in {"C24", "C31", "C27"} THEN 2 ELSE 1
\* C27: multi-step authentication histories - each connection's client verifies or not
VerifyChoices == IF Mode = "C27" THEN BOOLEAN ELSE {TRUE}
\* ticket keys are records [id, c]: c = creation time (automatic rotation), id distinguishes
\* administrator-set keys and the keys the adversary may choose for a forged ticket (all-zero,
\* all-0xFF, a public value such as the key name) - none of which a server key ever equals
TKey(id, c) == [id |-> id, c |-> c]
ForeignIds == {"zero", "ff", "public"}

NegTab == [c \in CCfgs, s \in SCfgs |-> Negotiate(c, s, 0)]

-----------------------------------------------------------------------------
(* terms and messages *)
Null == [t |-> "null"]
IsNull(x) == x.t = "null"
PB == [pad |-> 0, bad |-> FALSE]
Sig(k, over) == [t |-> "sig", k |-> k, over |-> over]
Mac(ms, who, tr) == [t |-> "mac", ms |-> ms, who |-> who, tr |-> tr]
Seal(k, st) == [t |-> "ticket", k |-> k, st |-> st, ok |-> TRUE]
DH(a, b) == {a, b}
Types(f) == [i \in 1..Len(f) |-> f[i].t]
AnyBad(f) == \E i \in 1..Len(f) : f[i].bad
Find(f, ty) == IF \E i \in 1..Len(f) : f[i].t = ty THEN f[CHOOSE i \in 1..Len(f) : f[i].t = ty] ELSE Null
Before(f, ty) == SubSeq(f, 1, (CHOOSE i \in 1..Len(f) : f[i].t = ty) - 1)
Opt(c, m) == IF c THEN <<m>> ELSE <<>>
Kx(su) == Tbl(su).kx
CR == [t |-> "CR"] @@ PB
SHD == [t |-> "SHD"] @@ PB
Waiting(st) == st \notin {"start", "done", "failed"}
NoPost == [msg |-> "none", ts |-> "healthy", out |-> "free", rd |-> "idle", wr |-> "idle", cw |-> "idle", cl |-> "idle", down |-> FALSE]

-----------------------------------------------------------------------------
Init ==
  /\ cfgC \in CCfgs /\ cfgS \in SCfgs /\ au \in Aus /\ verify \in VerifyChoices
  /\ (Mode = "C24" /\ au.ccert => cfgS.auth >= 1)
  /\ conn = 1 /\ cst = "start" /\ sst = "start"
  /\ c2s = <<>> /\ s2c = <<>> /\ trC = <<>> /\ trS = <<>>
  /\ sessC = Null /\ sessS = Null /\ cache = Null
  /\ post = NoPost
  /\ now = 0 /\ auto \in (IF Mode = "C31" THEN BOOLEAN ELSE {FALSE})
  /\ (auto /\ AdvBudget <= 1 => cfgC.max = 12)   \* small budgets: automatic rotation with the TLS 1.2 client only
  /\ keysS = (IF auto THEN AutoStep(<<>>, 0) ELSE <<TKey("t1", 0)>>)
  /\ issued = {} /\ presented = Null /\ decision = "none"
  /\ adv = AdvBudget /\ closed = FALSE

-----------------------------------------------------------------------------
(* client *)
ClientHelloMsg ==
  LET offer == ClientOffer(cfgC)
      use == cfgC.tickets /\ ~IsNull(cache) /\ cache.st.vers \in ClientVersions(cfgC)
             /\ (cache.st.vers = 13 \/ cache.st.suite \in Rng(offer))        \* loadSession
             /\ (verify => cache.verified)   \* "the original connection had InsecureSkipVerify, while this doesn't"
  IN [t |-> "CH", vers |-> ClientVersions(cfgC), suites |-> offer, alpn |-> cfgC.alpn,
      curves |-> CurvesOf(cfgC), share |-> <<"cx", conn>>, tsup |-> cfgC.tickets,
      ticket |-> IF use THEN cache.ticket ELSE Null,
      binder |-> IF use /\ cache.st.vers = 13 THEN Mac(cache.st.ms, "binder", <<>>) ELSE Null,
      rnd |-> <<"cr", conn>>] @@ PB

C_SendCH ==
  /\ cst = "start" /\ ~closed
  /\ LET ch == ClientHelloMsg IN
     /\ c2s' = Append(c2s, <<ch>>) /\ trC' = <<ch>> /\ cst' = "wait_sf"
  /\ UNCHANGED <<cfgC, cfgS, au, conn, sst, s2c, trS, sessC, sessS, cache, keysS, issued, presented,
                 decision, adv, closed>>

C_Fail == cst' = "failed" /\ UNCHANGED <<c2s, trC, sessC, cache>>

\* checks of processServerHello / pickTLSVersion / the downgrade canary / pickCipherSuite
SHAcceptable(ch, sh) ==
  /\ sh.vers \in ClientVersions(cfgC)
  /\ ~ClientAborts(cfgC, sh.vers, sh.canary)
  /\ sh.suite \in Rng(ch.suites)
  /\ (sh.vers = 13) = (sh.suite \in T13Suites)

AlpnAcceptable(al) == al = "" \/ al \in Rng(cfgC.alpn)

ClientCertMsgs(tr) ==
  LET cc == [t |-> "CCERT", has |-> au.ccert, key |-> au.ccertKey, valid |-> au.ccertValid] @@ PB
  IN <<cc>>

\* TLS <= 1.2, full handshake: ServerHello .. ServerHelloDone
C_Full12(ch, f) ==
  LET sh == f[1]
      kx == Kx(sh.suite)
      cert == Find(f, "CERT")
      skx == Find(f, "SKX")
      hasCR == ~IsNull(Find(f, "CR"))
      shape == <<"SH", "CERT">> \o Opt(kx # "RSA", "SKX") \o Opt(hasCR, "CR") \o <<"SHD">>
      certOK == ~verify \/ cert.valid          \* verifyServerCertificate unless InsecureSkipVerify
      skxOK == kx = "RSA" \/ skx.sig = Sig(cert.key, <<ch.rnd, sh.rnd, skx.pub>>)
      secret == IF kx = "RSA" THEN <<"pms", conn>> ELSE DH(<<"cx", conn>>, skx.pub)
      ms == [secret |-> secret, cr |-> ch.rnd, sr |-> sh.rnd]
      ckx == IF kx = "RSA" THEN [t |-> "CKX", enc |-> [to |-> cert.key, n |-> <<"pms", conn>>]] @@ PB
             ELSE [t |-> "CKX", pub |-> <<"cx", conn>>] @@ PB
      tr1 == trC \o f
      ccert == [t |-> "CCERT", has |-> au.ccert, key |-> au.ccertKey, valid |-> au.ccertValid] @@ PB
      tr2 == tr1 \o Opt(hasCR, ccert) \o <<ckx>>
      ccv == [t |-> "CCV", sig |-> Sig(au.ckey, tr2)] @@ PB
      tr3 == tr2 \o Opt(hasCR /\ au.ccert, ccv)
      fin == [t |-> "FIN", mac |-> Mac(ms, "c", tr3)] @@ PB
  IN IF Types(f) # shape \/ ~certOK \/ ~skxOK \/ ~AlpnAcceptable(sh.alpn) THEN C_Fail
     ELSE /\ c2s' = Append(c2s, Opt(hasCR, ccert) \o <<ckx>> \o Opt(hasCR /\ au.ccert, ccv) \o <<fin>>)
          /\ trC' = tr3 \o <<fin>>
          /\ sessC' = [t |-> "sess", vers |-> sh.vers, suite |-> sh.suite, alpn |-> sh.alpn, resumed |-> FALSE,
                       ms |-> ms, ekm |-> ms, nst |-> sh.nst, verified |-> verify, chainOK |-> cert.valid]
          /\ cst' = "wait_sfin" /\ UNCHANGED cache

\* TLS <= 1.2, server resumed the session: ServerHello [NewSessionTicket] Finished
C_Resume12(ch, f) ==
  LET sh == f[1]
      nst == Find(f, "NST")
      fin == Find(f, "FIN")
      shape == <<"SH">> \o Opt(sh.nst, "NST") \o <<"FIN">>
      st == cache.st
      ms == [secret |-> st.ms.secret, cr |-> ch.rnd, sr |-> sh.rnd]
      tr1 == trC \o Before(f, "FIN")
      cfin == [t |-> "FIN", mac |-> Mac(st.ms, "c", tr1 \o <<fin>>)] @@ PB
  IN IF IsNull(ch.ticket) \/ Types(f) # shape \/ st.vers # sh.vers \/ st.suite # sh.suite
        \/ ~AlpnAcceptable(sh.alpn) \/ fin.mac # Mac(st.ms, "s", tr1) THEN C_Fail
     ELSE /\ c2s' = Append(c2s, <<cfin>>)
          /\ trC' = tr1 \o <<fin, cfin>>
          /\ sessC' = [t |-> "sess", vers |-> sh.vers, suite |-> sh.suite, alpn |-> sh.alpn, resumed |-> TRUE,
                       ms |-> st.ms, ekm |-> ms, nst |-> FALSE, verified |-> cache.verified, chainOK |-> cache.chainOK]
          /\ cache' = IF sh.nst THEN [cache EXCEPT !.ticket = nst.ticket] ELSE cache
          /\ cst' = "done"

\* TLS 1.3: ServerHello EncryptedExtensions [CertificateRequest Certificate CertificateVerify] Finished
C_TLS13(ch, f) ==
  LET sh == f[1]
      ee == Find(f, "EE")
      cert == Find(f, "CERT")
      cv == Find(f, "CV")
      fin == Find(f, "FIN")
      hasCR == ~IsNull(Find(f, "CR"))
      shape == IF sh.psk THEN <<"SH", "EE", "FIN">>
               ELSE <<"SH", "EE">> \o Opt(hasCR, "CR") \o <<"CERT", "CV", "FIN">>
      pskOK == ~sh.psk \/ (~IsNull(ch.ticket) /\ Hash384(cache.st.suite) = Hash384(sh.suite))
      ms == [secret |-> DH(<<"cx", conn>>, sh.share), psk |-> IF sh.psk THEN cache.st.ms ELSE Null]
      authOK == sh.psk \/ ((~verify \/ cert.valid) /\ cv.sig = Sig(cert.key, trC \o Before(f, "CV")))
      tr1 == trC \o f
      ccert == [t |-> "CCERT", has |-> au.ccert, key |-> au.ccertKey, valid |-> au.ccertValid] @@ PB
      ccv == [t |-> "CCV", sig |-> Sig(au.ckey, tr1 \o <<ccert>>)] @@ PB
      mine == Opt(hasCR, ccert) \o Opt(hasCR /\ au.ccert, ccv)
      cfin == [t |-> "FIN", mac |-> Mac(ms, "c", tr1 \o mine)] @@ PB
  IN IF Types(f) # shape \/ ~pskOK THEN C_Fail
     ELSE IF ~AlpnAcceptable(ee.alpn) \/ ~authOK \/ fin.mac # Mac(ms, "s", trC \o Before(f, "FIN")) THEN C_Fail
     ELSE /\ c2s' = Append(c2s, mine \o <<cfin>>)
          /\ trC' = tr1 \o mine \o <<cfin>>
          /\ sessC' = [t |-> "sess", vers |-> 13, suite |-> sh.suite, alpn |-> ee.alpn, resumed |-> sh.psk,
                       ms |-> ms, ekm |-> [ms |-> ms, tr |-> tr1], nst |-> FALSE,
                       verified |-> IF sh.psk THEN cache.verified ELSE verify,
                       chainOK |-> IF sh.psk THEN cache.chainOK ELSE cert.valid]
          /\ cst' = "done" /\ UNCHANGED cache

C_RecvServerFlight ==
  /\ cst = "wait_sf" /\ s2c # <<>>
  /\ LET f == Head(s2c)  ch == trC[1] IN
     /\ s2c' = Tail(s2c)
     /\ IF Len(f) = 0 \/ AnyBad(f) \/ f[1].t # "SH" THEN C_Fail
        ELSE IF ~SHAcceptable(ch, f[1]) THEN C_Fail
        ELSE IF f[1].vers = 13 THEN C_TLS13(ch, f)
        ELSE IF f[1].resumed THEN C_Resume12(ch, f)
        ELSE C_Full12(ch, f)
  /\ UNCHANGED <<cfgC, cfgS, au, conn, sst, trS, sessS, keysS, issued, presented, decision, adv,
                 closed>>

\* TLS <= 1.2 full handshake, last flight: [NewSessionTicket] Finished
C_RecvServerFinished ==
  /\ cst = "wait_sfin" /\ s2c # <<>>
  /\ LET f == Head(s2c)
         nst == Find(f, "NST")
         fin == Find(f, "FIN")
         shape == Opt(sessC.nst, "NST") \o <<"FIN">>
     IN /\ s2c' = Tail(s2c)
        /\ IF AnyBad(f) \/ Types(f) # shape THEN C_Fail
           ELSE IF fin.mac # Mac(sessC.ms, "s", trC \o Before(f, "FIN")) THEN C_Fail
           ELSE /\ cst' = "done" /\ trC' = trC \o f /\ UNCHANGED <<c2s, sessC>>
                /\ cache' = IF sessC.nst /\ cfgC.tickets
                            THEN [t |-> "cache", ticket |-> nst.ticket, verified |-> sessC.verified, chainOK |-> sessC.chainOK,
                                  st |-> [t |-> "st", vers |-> sessC.vers, suite |-> sessC.suite, ms |-> sessC.ms]]
                            ELSE cache
  /\ UNCHANGED <<cfgC, cfgS, au, conn, sst, trS, sessS, keysS, issued, presented, decision, adv,
                 closed>>

\* TLS 1.3 post-handshake NewSessionTicket (handleNewSessionTicket)
C_RecvTicket13 ==
  /\ cst = "done" /\ sessC.vers = 13 /\ s2c # <<>>
  /\ LET f == Head(s2c) IN
     /\ s2c' = Tail(s2c)
     /\ cache' = IF Types(f) = <<"NST">> /\ ~AnyBad(f) /\ cfgC.tickets
                 THEN [t |-> "cache", ticket |-> f[1].ticket, verified |-> sessC.verified, chainOK |-> sessC.chainOK,
                       st |-> [t |-> "st", vers |-> 13, suite |-> sessC.suite, ms |-> sessC.ekm]]
                 ELSE cache
  /\ UNCHANGED <<cfgC, cfgS, au, conn, cst, sst, c2s, trC, trS, sessC, sessS, keysS, issued,
                 presented, decision, adv, closed>>

-----------------------------------------------------------------------------
(* server *)
S_Fail == sst' = "failed" /\ UNCHANGED <<s2c, trS, sessS, issued, presented, decision>>

\* decryptTicket + the checks of checkForResumption: what the server believes about the ticket
TicketState(tk) == IF ~IsNull(tk) /\ tk.t = "ticket" /\ tk.ok /\ tk.k \in Rng(keysS) THEN tk.st ELSE Null

S_Respond(m, p, su, al) ==
  LET v == p.vers
      st == IF cfgS.tickets THEN TicketState(m.ticket) ELSE Null
      res12 == v <= 12 /\ ~IsNull(st) /\ st.vers = v /\ st.suite \in Rng(m.suites)
               /\ st.suite \in Rng(CfgLegacy(cfgS))
               /\ SuiteOK(st.suite, v, cfgS.key, (Rng(m.curves) \cap Rng(CurvesOf(cfgS))) # {})
      res13 == v = 13 /\ ~IsNull(st) /\ st.vers = 13 /\ Hash384(st.suite) = Hash384(su)
      binderOK == m.binder = Mac(st.ms, "binder", <<>>)
      suite == IF res12 THEN st.suite ELSE su
      kx == Kx(suite)
      rnd == <<"sr", conn>>
      sendNST == m.tsup /\ cfgS.tickets
      oldKey == ~IsNull(st) /\ m.ticket.k # Head(keysS)
      sh == [t |-> "SH", vers |-> v, suite |-> suite, alpn |-> IF v = 13 THEN "" ELSE al,
             canary |-> p.canary, resumed |-> res12, psk |-> res13,
             nst |-> IF res12 THEN oldKey /\ sendNST ELSE (v <= 12 /\ sendNST),
             share |-> IF v = 13 THEN <<"sy", conn>> ELSE Null, rnd |-> rnd] @@ PB
      cert == [t |-> "CERT", key |-> au.scertKey, valid |-> au.scertValid] @@ PB
      skx == [t |-> "SKX", pub |-> <<"sy", conn>>, sig |-> Sig(au.skey, <<m.rnd, rnd, <<"sy", conn>>>>)] @@ PB
      \* TLS <= 1.2 resumed
      rticket == Seal(Head(keysS), st)
      rnst == [t |-> "NST", ticket |-> rticket] @@ PB
      rtr == <<m, sh>> \o Opt(sh.nst, rnst)
      rfin == [t |-> "FIN", mac |-> Mac(st.ms, "s", rtr)] @@ PB
      \* TLS 1.3
      ms13 == [secret |-> DH(<<"sy", conn>>, m.share), psk |-> IF res13 THEN st.ms ELSE Null]
      ee == [t |-> "EE", alpn |-> al] @@ PB
      askCert == cfgS.auth >= 1 /\ ~res13
      pre == <<m, sh, ee>> \o Opt(askCert, CR) \o Opt(~res13, cert)
      cv == [t |-> "CV", sig |-> Sig(au.skey, pre)] @@ PB
      pre2 == pre \o Opt(~res13, cv)
      fin13 == [t |-> "FIN", mac |-> Mac(ms13, "s", pre2)] @@ PB
  IN
  /\ presented' = m.ticket
  /\ decision' = IF res12 \/ res13 THEN "resume" ELSE "full"
  /\ IF res13 /\ ~binderOK THEN sst' = "failed" /\ UNCHANGED <<s2c, trS, sessS, issued>>
     ELSE IF v = 13 THEN
          /\ s2c' = Append(s2c, Tail(pre2) \o <<fin13>>)
          /\ trS' = pre2 \o <<fin13>>
          /\ sessS' = [t |-> "sess", vers |-> 13, suite |-> su, alpn |-> al, resumed |-> res13, ms |-> ms13,
                       ekm |-> [ms |-> ms13, tr |-> pre2 \o <<fin13>>], askCert |-> askCert, tsup |-> m.tsup]
          /\ sst' = "wait_cf13" /\ UNCHANGED issued
     ELSE IF res12 THEN
          /\ s2c' = Append(s2c, Tail(rtr) \o <<rfin>>)
          /\ trS' = rtr \o <<rfin>>
          /\ sessS' = [t |-> "sess", vers |-> v, suite |-> suite, alpn |-> al, resumed |-> TRUE, ms |-> st.ms,
                       ekm |-> [secret |-> st.ms.secret, cr |-> m.rnd, sr |-> rnd], askCert |-> FALSE, tsup |-> FALSE]
          /\ issued' = IF sh.nst THEN issued \cup {rticket} ELSE issued
          /\ sst' = "wait_cfin"
     ELSE /\ s2c' = Append(s2c, <<sh, cert>> \o Opt(kx # "RSA", skx) \o Opt(cfgS.auth >= 1, CR) \o <<SHD>>)
          /\ trS' = <<m, sh, cert>> \o Opt(kx # "RSA", skx) \o Opt(cfgS.auth >= 1, CR) \o <<SHD>>
          /\ sessS' = [t |-> "sess", vers |-> v, suite |-> suite, alpn |-> al, resumed |-> FALSE, ms |-> Null,
                       ekm |-> Null, askCert |-> cfgS.auth >= 1, tsup |-> sh.nst]
          /\ sst' = "wait_cf" /\ UNCHANGED issued

S_RecvClientHello ==
  /\ sst = "start" /\ c2s # <<>>
  /\ LET f == Head(c2s) IN
     /\ c2s' = Tail(c2s)
     /\ IF Len(f) # 1 \/ AnyBad(f) \/ f[1].t # "CH" THEN S_Fail
        ELSE LET m == f[1]  p == ServerSelect(m.vers, m.suites, m.alpn, m.curves, cfgS) IN
             IF p.mode # "must" THEN S_Fail
             ELSE \E su \in p.suites, al \in p.alpn : S_Respond(m, p, su, al)
  /\ UNCHANGED <<cfgC, cfgS, au, conn, cst, trC, sessC, cache, keysS, adv, closed>>

\* processCertsFromClient + the CertificateVerify check
ClientCertOK(f, trBefore) ==
  LET cc == Find(f, "CCERT")
      ccv == Find(f, "CCV")
  IN IF ~sessS.askCert THEN IsNull(cc) /\ IsNull(ccv)
     ELSE /\ ~IsNull(cc)
          /\ (~cc.has => cfgS.auth \notin {2, 4} /\ IsNull(ccv))
          /\ (cc.has => /\ (cfgS.auth >= 3 => cc.valid)
                        /\ ~IsNull(ccv)
                        /\ ccv.sig = Sig(cc.key, trBefore \o Before(f, "CCV")))

\* TLS <= 1.2 full: [Certificate] ClientKeyExchange [CertificateVerify] Finished
S_RecvClientFlight12 ==
  /\ sst = "wait_cf" /\ c2s # <<>>
  /\ LET f == Head(c2s)
         ckx == Find(f, "CKX")
         fin == Find(f, "FIN")
         ch == trS[1]  sh == trS[2]
         kx == Kx(sessS.suite)
         okShape == ~AnyBad(f) /\ ~IsNull(ckx) /\ ~IsNull(fin) /\ f[Len(f)].t = "FIN"
                    /\ \A i \in 1..Len(f) : f[i].t \in {"CCERT", "CKX", "CCV", "FIN"}
         secret == IF kx = "RSA"
                   THEN (IF "enc" \in DOMAIN ckx /\ ckx.enc.to = au.skey THEN ckx.enc.n ELSE <<"garbage">>)
                   ELSE (IF "pub" \in DOMAIN ckx THEN DH(<<"sy", conn>>, ckx.pub) ELSE <<"garbage">>)
         ms == [secret |-> secret, cr |-> ch.rnd, sr |-> sh.rnd]
         tr1 == trS \o Before(f, "FIN")
         ticket == Seal(Head(keysS), [t |-> "st", vers |-> sessS.vers, suite |-> sessS.suite, ms |-> ms])
         nst == [t |-> "NST", ticket |-> ticket] @@ PB
         tr2 == tr1 \o <<fin>> \o Opt(sessS.tsup, nst)
         sfin == [t |-> "FIN", mac |-> Mac(ms, "s", tr2)] @@ PB
     IN /\ c2s' = Tail(c2s)
        /\ IF ~okShape THEN S_Fail
           ELSE IF ~ClientCertOK(f, trS) \/ fin.mac # Mac(ms, "c", tr1) THEN S_Fail
           ELSE /\ s2c' = Append(s2c, Opt(sessS.tsup, nst) \o <<sfin>>)
                /\ trS' = tr2 \o <<sfin>>
                /\ sessS' = [sessS EXCEPT !.ms = ms, !.ekm = ms]
                /\ issued' = IF sessS.tsup THEN issued \cup {ticket} ELSE issued
                /\ sst' = "done" /\ UNCHANGED <<presented, decision>>
  /\ UNCHANGED <<cfgC, cfgS, au, conn, cst, trC, sessC, cache, keysS, adv, closed>>

\* TLS <= 1.2 resumed: client Finished
S_RecvClientFinished12 ==
  /\ sst = "wait_cfin" /\ c2s # <<>>
  /\ LET f == Head(c2s) IN
     /\ c2s' = Tail(c2s)
     /\ IF AnyBad(f) \/ Types(f) # <<"FIN">> \/ f[1].mac # Mac(sessS.ms, "c", trS) THEN S_Fail
        ELSE sst' = "done" /\ trS' = trS \o f /\ UNCHANGED <<s2c, sessS, issued, presented, decision>>
  /\ UNCHANGED <<cfgC, cfgS, au, conn, cst, trC, sessC, cache, keysS, adv, closed>>

\* TLS 1.3: [Certificate [CertificateVerify]] Finished, then the session tickets
S_RecvClientFlight13 ==
  /\ sst = "wait_cf13" /\ c2s # <<>>
  /\ LET f == Head(c2s)
         fin == Find(f, "FIN")
         okShape == ~AnyBad(f) /\ ~IsNull(fin) /\ f[Len(f)].t = "FIN"
                    /\ \A i \in 1..Len(f) : f[i].t \in {"CCERT", "CCV", "FIN"}
         ticket == Seal(Head(keysS), [t |-> "st", vers |-> 13, suite |-> sessS.suite, ms |-> sessS.ekm])
         nst == [t |-> "NST", ticket |-> ticket] @@ PB
         send == sessS.tsup /\ cfgS.tickets
     IN /\ c2s' = Tail(c2s)
        /\ IF ~okShape THEN S_Fail
           ELSE IF ~ClientCertOK(f, trS) \/ fin.mac # Mac(sessS.ms, "c", trS \o Before(f, "FIN")) THEN S_Fail
           ELSE /\ s2c' = IF send THEN Append(s2c, <<nst>>) ELSE s2c
                /\ issued' = IF send THEN issued \cup {ticket} ELSE issued
                /\ trS' = trS \o f /\ sst' = "done" /\ UNCHANGED <<sessS, presented, decision>>
  /\ UNCHANGED <<cfgC, cfgS, au, conn, cst, trC, sessC, cache, keysS, adv, closed>>

-----------------------------------------------------------------------------
(* environment: transport closure, next connection, ticket key administration *)
Terminal == cst \in {"done", "failed"} /\ sst \in {"done", "failed"}

EnvClose ==
  /\ Mode # "C31"          \* the ticket histories run three connections; transport closure is C32's subject
  /\ ~closed /\ ~Terminal /\ closed' = TRUE
  /\ UNCHANGED <<cfgC, cfgS, au, conn, cst, sst, c2s, s2c, trC, trS, sessC, sessS, cache, keysS,
                 issued, presented, decision, adv>>

\* a closed transport makes a pending read fail once the buffered flights are consumed
C_SeesClose ==
  /\ closed /\ (cst = "start" \/ (Waiting(cst) /\ s2c = <<>>)) /\ cst' = "failed"
  /\ UNCHANGED <<cfgC, cfgS, au, conn, sst, c2s, s2c, trC, trS, sessC, sessS, cache, keysS, issued,
                 presented, decision, adv, closed>>
S_SeesClose ==
  /\ closed /\ (Waiting(sst) \/ sst = "start") /\ c2s = <<>> /\ sst' = "failed"
  /\ UNCHANGED <<cfgC, cfgS, au, conn, cst, c2s, s2c, trC, trS, sessC, sessS, cache, keysS, issued,
                 presented, decision, adv, closed>>

\* a failing endpoint sends a fatal alert (or just closes): its peer's pending read fails
C_SeesAlert ==
  /\ sst = "failed" /\ Waiting(cst) /\ s2c = <<>> /\ cst' = "failed"
  /\ UNCHANGED <<cfgC, cfgS, au, conn, sst, c2s, s2c, trC, trS, sessC, sessS, cache, keysS, issued,
                 presented, decision, adv, closed>>
S_SeesAlert ==
  /\ cst = "failed" /\ (Waiting(sst) \/ sst = "start") /\ c2s = <<>> /\ sst' = "failed"
  /\ UNCHANGED <<cfgC, cfgS, au, conn, cst, c2s, s2c, trC, trS, sessC, sessS, cache, keysS, issued,
                 presented, decision, adv, closed>>

ConnLimit == IF auto THEN 3 ELSE MaxConn
NextConnection ==
  /\ Terminal /\ conn < ConnLimit /\ ~(cst = "done" /\ sessC.vers = 13 /\ s2c # <<>>)
  /\ conn' = conn + 1 /\ cst' = "start" /\ sst' = "start"
  /\ c2s' = <<>> /\ s2c' = <<>> /\ trC' = <<>> /\ trS' = <<>> /\ sessC' = Null /\ sessS' = Null
  /\ presented' = Null /\ decision' = "none" /\ closed' = FALSE
  /\ verify' \in VerifyChoices
  \* Config.ticketKeys at the start of the connection: automatic rotation by the documented policy
  /\ keysS' = (IF auto THEN AutoStep(keysS, now) ELSE keysS)
  /\ UNCHANGED <<cfgC, cfgS, au, cache, issued, adv, now, auto, post>>

Between == Terminal /\ conn < ConnLimit /\ Mode = "C31"
\* Config.Time advances between connections (hours): within a day, past a rotation, past a key's life
Tick ==
  /\ Between /\ auto /\ now < 300 /\ \E d \in {10, 30, 180} : now' = now + d
  /\ UNCHANGED <<cfgC, cfgS, au, conn, cst, sst, c2s, s2c, trC, trS, sessC, sessS, cache, keysS, issued,
                 presented, decision, adv, closed, verify, auto, post>>
Rotate ==     \* SetSessionTicketKeys(new, old...)
  /\ Between /\ ~auto /\ Len(keysS) = 1 /\ keysS' = <<TKey("t2", 0)>> \o keysS
  /\ UNCHANGED <<cfgC, cfgS, au, conn, cst, sst, c2s, s2c, trC, trS, sessC, sessS, cache, issued,
                 presented, decision, adv, closed>>
DropOld ==    \* SetSessionTicketKeys(current only)
  /\ Between /\ ~auto /\ Len(keysS) > 1 /\ keysS' = <<Head(keysS)>>
  /\ UNCHANGED <<cfgC, cfgS, au, conn, cst, sst, c2s, s2c, trC, trS, sessC, sessS, cache, issued,
                 presented, decision, adv, closed>>

-----------------------------------------------------------------------------
(* C32, data phase: after a completed handshake the peer sends one genuine post-handshake message
   (KeyUpdate with / without update_requested, NewSessionTicket, HelloRequest) while the transport
   is healthy, has a failing write side, delivers EOF after the message, or is closed; the endpoint's
   user issues Read, Write, CloseWrite and Close.  The model follows tls/conn.go: Read consumes the
   message under c.in; answering (KeyUpdate reply, no_renegotiation / unexpected_message alert)
   takes c.out, writes, and releases c.out on every path (the `defer`); Write, CloseWrite and Close
   take c.out too.  Demand: once the transport is down every issued call returns. *)
PostMsgs == {"keyupdate0", "keyupdate1", "nst", "hellorequest"}
Answers(m) == m \in {"keyupdate1", "nst", "hellorequest"}     \* the endpoint writes something in reaction
DPUnchanged == UNCHANGED <<cfgC, cfgS, au, conn, cst, sst, c2s, s2c, trC, trS, sessC, sessS, cache, keysS, issued,
                           presented, decision, adv, closed, verify, now, auto>>
DP_Inject ==
  /\ Mode = "C32" /\ cst = "done" /\ sst = "done" /\ post.msg = "none" /\ ~post.down
  /\ \E m \in PostMsgs, t \in {"healthy", "wfail", "eof", "closed"} :
        post' = [post EXCEPT !.msg = m, !.ts = t, !.rd = "run", !.down = (t = "closed")]
  /\ DPUnchanged
\* Read: consume the message; an answer takes c.out for the write and releases it whether or not the
\* write succeeded; then Read waits for data and returns on EOF / a closed transport
DP_ReadMsg ==
  /\ post.rd = "run" /\ post.msg \in PostMsgs /\ post.out = "free"
  /\ post' = [post EXCEPT !.msg = "consumed"]          \* lock taken and released within the step
  /\ DPUnchanged
DP_ReadEnd ==
  /\ post.rd = "run" /\ post.msg = "consumed" /\ (post.down \/ post.ts = "eof")
  /\ post' = [post EXCEPT !.rd = "ret"]
  /\ DPUnchanged
DP_Start ==
  /\ post.msg = "consumed"
  /\ \/ post.wr = "idle" /\ post' = [post EXCEPT !.wr = "run"]
     \/ post.wr # "idle" /\ post.cw = "idle" /\ post' = [post EXCEPT !.cw = "run"]
     \/ post.cw # "idle" /\ post.cl = "idle" /\ post.down /\ post' = [post EXCEPT !.cl = "run"]
  /\ DPUnchanged
DP_Finish ==      \* Write / CloseWrite / Close need c.out; on a dead transport they fail, but they return
  /\ post.out = "free"
  /\ \/ post.wr = "run" /\ post' = [post EXCEPT !.wr = "ret"]
     \/ post.cw = "run" /\ post' = [post EXCEPT !.cw = "ret"]
     \/ post.cl = "run" /\ post' = [post EXCEPT !.cl = "ret"]
  /\ DPUnchanged
DP_Down == /\ post.msg = "consumed" /\ ~post.down /\ post.cw # "idle" /\ post' = [post EXCEPT !.down = TRUE] /\ DPUnchanged
DP_Calls == DP_ReadMsg \/ DP_ReadEnd \/ DP_Start \/ DP_Finish
DataPhase == DP_Inject \/ DP_Calls \/ DP_Down
\* the out mutex is never left held between steps, and a closed transport releases every call
DataPhaseLockFree == post.out = "free"
DataPhaseReturns == post.down ~> (post.rd # "run" /\ post.wr # "run" /\ post.cw # "run" /\ post.cl # "run")

-----------------------------------------------------------------------------
(* adversary (owns the network; knows no long-term, ticket or ephemeral secret) *)
AdvStep(dirC2S, newQ) ==
  /\ adv > 0 /\ adv' = adv - 1
  /\ IF dirC2S THEN c2s' = newQ /\ UNCHANGED s2c
     ELSE s2c' = newQ /\ UNCHANGED c2s
  /\ UNCHANGED <<cfgC, cfgS, au, conn, cst, sst, trC, trS, sessC, sessS, cache, keysS, issued,
                 presented, decision, closed>>

\* handshake traffic only: after completion the flights are record-protected (C25's concern)
Live(dirC2S) == ~Terminal /\ (IF dirC2S THEN sst \notin {"done", "failed"} ELSE cst \notin {"done", "failed"})
Attackable(q, dirC2S) == q # <<>> /\ Live(dirC2S)

ReplaceHead(q, f) == <<f>> \o Tail(q)

\* rewrite the ClientHello's version list (the downgrade of RFC 8446 4.1.3)
A_Downgrade ==
  /\ Mode \in {"C24", "C32"} /\ Attackable(c2s, TRUE) /\ Head(c2s)[1].t = "CH"
  /\ \E d \in {10, 11, 12} :
        /\ d < MaxOf(Head(c2s)[1].vers)
        /\ AdvStep(TRUE, ReplaceHead(c2s, <<[Head(c2s)[1] EXCEPT !.vers = {v \in Versions : v <= d}]>>))

\* change bytes of message i that no parser looks at (detected only through the transcript)
A_Alter ==
  \E dir \in BOOLEAN :
    LET q == IF dir THEN c2s ELSE s2c IN
    /\ Mode # "C31"       \* C31's adversary is the ticket adversary (A_Ticket)
    /\ Attackable(q, dir)
    /\ \E i \in 1..Len(Head(q)) :
          /\ Head(q)[i].t # "FIN"      \* a Finished message has no bytes besides the MAC: see A_Corrupt
          /\ AdvStep(dir, ReplaceHead(q, [Head(q) EXCEPT ![i].pad = 1]))

\* flip / truncate: the message no longer parses, or its signature / MAC no longer verifies
A_Corrupt ==
  \E dir \in BOOLEAN :
    LET q == IF dir THEN c2s ELSE s2c IN
    /\ Mode = "C32" /\ Attackable(q, dir)
    /\ \E i \in 1..Len(Head(q)) : AdvStep(dir, ReplaceHead(q, [Head(q) EXCEPT ![i].bad = TRUE]))

A_Drop ==
  \E dir \in BOOLEAN :
    LET q == IF dir THEN c2s ELSE s2c IN
    /\ Mode = "C32" /\ Attackable(q, dir) /\ AdvStep(dir, Tail(q))

A_Insert ==
  \E dir \in BOOLEAN :
    LET q == IF dir THEN c2s ELSE s2c IN
    /\ Mode = "C32" /\ Live(dir) /\ Len(q) < 2
    /\ AdvStep(dir, <<<<[t |-> "JUNK"] @@ PB>>>> \o q)

\* ticket adversary between two connections: the client's cache presents other ticket bytes
A_Ticket ==
  /\ Mode = "C31" /\ Between /\ adv > 0 /\ ~IsNull(cache) /\ adv' = adv - 1
  /\ (auto => conn = 2)       \* automatic rotation: the forged / altered ticket is presented on the last connection
  /\ \/ cache' = [cache EXCEPT !.ticket.ok = FALSE]                                  \* Mutate / Truncate
     \/ \E f \in ForeignIds :     \* Foreign: sealed under a key of the adversary's choosing, with a secret of its choosing
           cache' = [cache EXCEPT !.ticket = Seal(TKey(f, 0), [cache.st EXCEPT !.ms = <<"other">>])]
  /\ UNCHANGED <<cfgC, cfgS, au, conn, cst, sst, c2s, s2c, trC, trS, sessC, sessS, keysS, issued,
                 presented, decision, closed>>

Adversary == A_Downgrade \/ A_Alter \/ A_Corrupt \/ A_Drop \/ A_Insert \/ A_Ticket

Endpoints == C_SendCH \/ C_RecvServerFlight \/ C_RecvServerFinished \/ C_RecvTicket13
             \/ S_RecvClientHello \/ S_RecvClientFlight12 \/ S_RecvClientFinished12 \/ S_RecvClientFlight13
             \/ C_SeesClose \/ S_SeesClose \/ C_SeesAlert \/ S_SeesAlert

Next == ((Endpoints \/ Adversary \/ EnvClose \/ Rotate \/ DropOld) /\ UNCHANGED <<verify, now, auto, post>>)
        \/ NextConnection \/ Tick \/ DataPhase

Spec == Init /\ [][Next]_vars
FairSpec == Spec /\ WF_vars(Endpoints /\ UNCHANGED <<verify, now, auto, post>>) /\ WF_vars(DP_Calls)

-----------------------------------------------------------------------------
(* properties *)
CStates == {"start", "wait_sf", "wait_sfin", "done", "failed"}
SStates == {"start", "wait_cf", "wait_cfin", "wait_cf13", "done", "failed"}
\* C32: whatever the adversary does, an endpoint is running, done or failed - nothing else
TypeOK == cst \in CStates /\ sst \in SStates /\ adv \in 0..AdvBudget /\ conn \in 1..3

BothDone == cst = "done" /\ sst = "done"
Proj(s) == [vers |-> s.vers, suite |-> s.suite, alpn |-> s.alpn, resumed |-> s.resumed, ekm |-> s.ekm]

\* C24: on completion both sides hold the same (version, suite, ALPN, resumption, exporter term)
Agreement == BothDone => Proj(sessC) = Proj(sessS)
\* ... and they are what Negotiate demands for the two *configurations* (whatever the network did)
NegotiatedAsDemanded ==
  BothDone => LET n == NegTab[cfgC, cfgS] IN
              /\ sessC.vers = n.vers /\ sessC.alpn \in n.alpn
              /\ (sessC.suite \in n.suites \/ sessC.resumed)
ClientNeverBelowDemand == cst = "done" => sessC.vers = NegTab[cfgC, cfgS].vers
\* matching conversations: an endpoint completes only if the handshake messages it saw are the
\* ones its peer sent and saw (one transcript is a prefix of the other) - so a message altered,
\* dropped or inserted by the network never leads to completion of its receiver
IsPrefixOf(a, b) == Len(a) <= Len(b) /\ SubSeq(b, 1, Len(a)) = a
TamperNeverCompletes == (cst = "done" \/ sst = "done") => IsPrefixOf(trC, trS) \/ IsPrefixOf(trS, trC)

\* the exporter of a TLS 1.3 connection is the RFC 8446 7.5 term: master secret and the transcript
\* up to and including the server Finished - on both sides, whatever follows (client certificate)
UpToServerFinished(tr) == SubSeq(tr, 1, CHOOSE i \in 1..Len(tr) : tr[i].t = "FIN" /\ \A j \in 1..(i - 1) : tr[j].t # "FIN")
ExporterIsRFCTerm ==
  /\ cst = "done" /\ sessC.vers = 13 => sessC.ekm.tr = UpToServerFinished(trC)
  /\ sst = "done" /\ sessS.vers = 13 => sessS.ekm.tr = UpToServerFinished(trS)

\* C27
\* every completed connection of a verifying client, resumed or not, rests on a chain that verified
\* (under a verifying configuration) - a session established without verification never lets a
\* verifying client complete
ClientDoneMeansServerAuthentic ==
  /\ cst = "done" /\ verify => sessC.chainOK /\ sessC.verified
  /\ cst = "done" /\ verify /\ ~sessC.resumed => au.scertValid
  /\ cst = "done" /\ ~sessC.resumed => au.skey = au.scertKey
ServerDoneMeansClientAuthentic ==
  sst = "done" /\ ~sessS.resumed =>
     /\ (cfgS.auth \in {2, 4} => au.ccert)
     /\ (cfgS.auth >= 1 /\ au.ccert => au.ckey = au.ccertKey)
     /\ (cfgS.auth >= 3 /\ au.ccert => au.ccertValid)

\* C31
ResumeOnlyAuthentic ==
  decision = "resume" =>
     /\ presented \in issued /\ presented.k \in Rng(keysS)
     /\ sessS.vers = presented.st.vers
     /\ (sessS.vers <= 12 => sessS.suite = presented.st.suite /\ sessS.ms = presented.st.ms)
     /\ (sessS.vers = 13 => Hash384(sessS.suite) = Hash384(presented.st.suite) /\ sessS.ms.psk = presented.st.ms)
\* the decision the B model took is one the A layer (TicketDemand) allows
DecisionAsDemanded ==
  decision # "none" /\ cfgS.tickets /\ ~IsNull(presented) /\ ~IsNull(sessS) =>
     LET authentic == presented \in issued
         idx == IF authentic /\ presented.k \in Rng(keysS)
                THEN CHOOSE i \in 1..Len(keysS) : keysS[i] = presented.k ELSE 0
         ch == trS[1]
         sameV == authentic => presented.st.vers = sessS.vers
         offered == authentic => (presented.st.vers = 13 \/ presented.st.suite \in Rng(ch.suites))
     IN decision \in TicketDemand(authentic, idx, sameV, offered)
ResumedBothAgree == BothDone /\ sessS.resumed => sessC.resumed /\ sessC.ekm = sessS.ekm

\* C32 / liveness
ClosedLeadsToReturned == closed ~> (Terminal \/ ~closed)
HonestCompletes ==
  (AdvBudget = 0) => <>(Terminal /\ (NegTab[cfgC, cfgS].mode = "must" /\ ~closed /\ Mode # "C27"
                                      /\ (cfgS.auth \in {2, 4} => au.ccert) => BothDone))

-----------------------------------------------------------------------------
(* reachability witnesses (vacuity guard): the interesting situations must occur in the explored
   state space, otherwise the invariants above hold for the wrong reason.  Registers 11.. of the
   single TLC worker are set when a witness state is seen; the POSTCONDITION lists what is missing. *)
Witness(k) ==
  CASE k = 11 -> BothDone /\ sessC.vers <= 12 /\ ~sessC.resumed
    [] k = 12 -> BothDone /\ sessC.vers = 13 /\ ~sessC.resumed
    [] k = 13 -> BothDone /\ sessC.vers <= 12 /\ sessC.resumed
    [] k = 14 -> BothDone /\ sessC.vers = 13 /\ sessC.resumed
    [] k = 15 -> Len(trS) >= 2 /\ cst = "failed" /\ ClientAborts(cfgC, trS[2].vers, trS[2].canary)   \* abort on sentinel
    [] k = 16 -> Len(trS) >= 1 /\ Len(trC) >= 1 /\ trS[1].vers # trC[1].vers                        \* downgraded hello
    [] k = 17 -> ~au.scertValid /\ cst = "failed" /\ Len(trC) >= 1
    [] k = 18 -> au.skey # au.scertKey /\ cst = "failed"
    [] k = 19 -> au.ccert /\ au.ckey # au.ccertKey /\ sst = "failed" /\ cfgS.auth >= 1
    [] k = 20 -> BothDone /\ au.ccert /\ cfgS.auth = 4
    [] k = 21 -> ~au.ccert /\ cfgS.auth = 4 /\ sst = "failed"
    [] k = 22 -> decision = "resume" /\ presented.k # Head(keysS)                                     \* resumed under an old key
    [] k = 23 -> decision = "full" /\ presented \in issued /\ presented.k \notin Rng(keysS)            \* rotated out
    [] k = 24 -> decision = "full" /\ ~IsNull(presented) /\ ~presented.ok                             \* mutated
    [] k = 25 -> decision = "full" /\ ~IsNull(presented) /\ presented.k.id \in ForeignIds
    [] k = 31 -> auto /\ decision = "full" /\ presented \in issued /\ presented.k \notin Rng(keysS)   \* key expired by automatic rotation
    [] k = 32 -> auto /\ decision = "resume" /\ conn = 3
    [] k = 26 -> closed /\ Terminal
    [] k = 27 -> cst = "failed" /\ sst = "failed" /\ adv < AdvBudget
    [] k = 33 -> post.msg = "consumed" /\ post.ts = "wfail" /\ post.wr = "ret" /\ post.cl = "ret"   \* data phase, failing write side
    [] k = 28 -> conn = 2 /\ verify /\ ~IsNull(cache) /\ ~cache.verified /\ Len(trC) >= 1 /\ IsNull(trC[1].ticket)  \* unverified session refused
    [] k = 29 -> BothDone /\ conn = 2 /\ verify /\ sessC.resumed                                              \* verified session resumed
    [] k = 30 -> BothDone /\ sessC.vers = 13 /\ au.ccert /\ cfgS.auth >= 1                                      \* 1.3 with client certificate
Wanted == CASE Mode = "C24" -> (11..16) \cup {30}
            [] Mode = "C27" -> {11, 12} \cup (17..21) \cup {28, 29}
            [] Mode = "C31" -> {13, 14} \cup (22..25) \cup {31, 32}
            [] Mode = "C32" -> {11, 12, 26, 27, 33}
ProbeInit == Init /\ \A k \in 11..33 : TLCSet(k, FALSE)
ProbeSpec == ProbeInit /\ [][Next]_vars
Probe == \A k \in Wanted : Witness(k) => TLCSet(k, TRUE)
Reached == LET missing == {k \in Wanted : ~TLCGet(k)} IN
           missing = {} \/ (PrintT(<<"UNREACHED", missing>>) /\ FALSE)
=============================================================================
