#!/usr/bin/env python3
"""usage: tools/markfixed.py <finding-id-prefix> <commit>  - mark known findings as fixed by a /repo commit."""
import json, os, sys, glob
prefix, commit = sys.argv[1], sys.argv[2]
n = 0
for fn in glob.glob(os.path.join(os.path.dirname(os.path.abspath(__file__)), "..", "known_findings.d", "*.json")):
    d = json.load(open(fn))
    ch = False
    for f in d["findings"]:
        if f["id"].startswith(prefix) and f.get("status") == "open":
            f["status"] = "fixed"
            f["fix_commit"] = commit
            f["what"] = "fixed: property=%s %s %s" % (f["property"], commit, f["what"])
            ch = True
            n += 1
    if ch:
        json.dump(d, open(fn, "w"), indent=1)
print("marked", n)
