"""Helpers shared by the drivers of group pkiverify (C07, C08, C09).

par(ctx, jobs): run independent pipelines (each a function of no arguments that may call ctx.tlc /
ctx.run) concurrently, at most VERIF_WORKERS at a time.  TLC evaluates constant-level ASSUMEs on one
thread, so the parallelism of these checks is across generator batches, not inside one TLC run.

ctx.tlc numbers its runs with a counter that is not thread-safe; tlc() below serialises the few
statements of ctx.tlc that use the counter (start of the call) and lets the TLC processes themselves
run concurrently.
"""
import os
import threading
import time
from concurrent.futures import ThreadPoolExecutor

_start = threading.Lock()
_slots = {}            # ctx id -> semaphore bounding the number of concurrent TLC processes
_slots_lock = threading.Lock()


def _slot(ctx):
    with _slots_lock:
        if id(ctx) not in _slots:
            _slots[id(ctx)] = threading.BoundedSemaphore(max(1, min(ctx.workers, 8)))
        return _slots[id(ctx)]


def tlc(ctx, *a, **kw):
    """ctx.tlc, safe to call from several threads; at most min(VERIF_WORKERS, 8) TLC processes at a time
    (pipelines may nest: a chunked judgement inside a batch pipeline)."""
    with _slot(ctx):
        return _tlc(ctx, *a, **kw)


def _tlc(ctx, *a, **kw):
    box = {}

    def call():
        try:
            box["r"] = ctx.tlc(*a, **kw)
        except BaseException as e:  # re-raised in the caller's thread
            box["e"] = e

    with _start:
        n0 = ctx._meta
        t = threading.Thread(target=call)
        t.start()
        # ctx.tlc increments ctx._meta, derives the run's config file name from it, writes that file and then
        # derives the metadir name from ctx._meta once more.  Nobody else may touch the counter before that
        # last read: wait until the config file of run n0+1 exists (the read follows immediately), plus a grace.
        cfg = os.path.join(ctx.specdir, "run%d_%s" % (n0 + 1, a[1]))
        for _ in range(12000):
            if not t.is_alive() or (os.path.exists(cfg) and os.path.getsize(cfg) > 0):
                break
            time.sleep(0.005)
        time.sleep(0.2)
    t.join()
    if "e" in box:
        raise box["e"]
    return box["r"]


def par(ctx, jobs, limit=None):
    """jobs: list of callables; returns their results in order; the first exception is re-raised."""
    n = max(1, min(limit or ctx.workers, len(jobs), 8))
    if n == 1:
        return [j() for j in jobs]
    with ThreadPoolExecutor(max_workers=n) as ex:
        futs = [ex.submit(j) for j in jobs]
        return [f.result() for f in futs]


# Development aid (mutation trials on a loaded machine): PKV_ONLY=<substring>[,<substring>...] restricts a run to
# the generator batches whose label contains one of the substrings ("random", "zero-time" name the extra jobs).
# Never set by the registered commands.
ONLY = [x for x in os.environ.get("PKV_ONLY", "").split(",") if x]


def selected(label):
    return not ONLY or any(x in label for x in ONLY)
