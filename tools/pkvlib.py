"""Helpers shared by the drivers of group pkiverify (C07, C08, C09).

par(ctx, jobs): run independent pipelines (each a function of no arguments that may call ctx.tlc /
ctx.run) concurrently, at most VERIF_WORKERS at a time.  TLC evaluates constant-level ASSUMEs on one
thread, so the parallelism of these checks is across generator batches, not inside one TLC run.

ctx.tlc numbers its runs with a counter that is not thread-safe; tlc() below serialises the few
statements of ctx.tlc that use the counter (start of the call) and lets the TLC processes themselves
run concurrently.
"""
import threading
import time
from concurrent.futures import ThreadPoolExecutor

_start = threading.Lock()


def tlc(ctx, *a, **kw):
    """ctx.tlc, safe to call from several threads."""
    box = {}

    def call():
        try:
            box["r"] = ctx.tlc(*a, **kw)
        except BaseException as e:  # re-raised in the caller's thread
            box["e"] = e

    with _start:
        n0 = ctx._meta
        t = threading.Thread(target=call)
        t.start()
        # ctx.tlc increments ctx._meta first and reads it twice within the next few statements
        # (config file name, metadir); by the time the counter moved plus a grace period they are done
        for _ in range(2000):
            if ctx._meta != n0 or not t.is_alive():
                break
            time.sleep(0.005)
        time.sleep(0.15)
    t.join()
    if "e" in box:
        raise box["e"]
    return box["r"]


def par(ctx, jobs, limit=None):
    """jobs: list of callables; returns their results in order; the first exception is re-raised."""
    n = max(1, min(limit or ctx.workers, len(jobs), 8))
    if n == 1:
        return [j() for j in jobs]
    with ThreadPoolExecutor(max_workers=n) as ex:
        futs = [ex.submit(j) for j in jobs]
        return [f.result() for f in futs]
