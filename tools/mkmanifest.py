#!/usr/bin/env python3
"""Regenerate /verif/MANIFEST.json from the META dict of every tools/props/<ID>.py.
Properties without a check module are listed under not_applicable with the reason given in
tools/not_applicable.json (or 'check not built yet')."""
import importlib
import json
import os
import subprocess
import sys

VERIF = os.path.dirname(os.path.dirname(os.path.abspath(__file__)))
sys.path.insert(0, os.path.join(VERIF, "tools"))

props = [json.loads(l) for l in open(os.path.join(VERIF, "properties.jsonl")) if l.strip()]
na_file = os.path.join(VERIF, "tools", "not_applicable.json")
na_reasons = json.load(open(na_file)) if os.path.exists(na_file) else {}

ready_file = os.path.join(VERIF, "tools", "ready.txt")
ready = set(open(ready_file).read().split()) if os.path.exists(ready_file) else set()

# aggregate known findings
kf = {"_doc": "Committed list of genuine zcrypto defects found by the /verif checks (generated from known_findings.d/*.json by tools/mkmanifest.py). status=open entries are matched against the signature ('sig') of a reproduced violation and reported as KNOWN-FINDING (exit 0); status=fixed entries suppress nothing. Never written at run time.", "findings": []}
kd = os.path.join(VERIF, "known_findings.d")
for fn in sorted(os.listdir(kd)) if os.path.isdir(kd) else []:
    if fn.endswith(".json"):
        kf["findings"] += json.load(open(os.path.join(kd, fn))).get("findings", [])
with open(os.path.join(VERIF, "known_findings.json"), "w") as f:
    json.dump(kf, f, indent=1)

checks, na = [], []
for p in props:
    pid = p["id"]
    path = os.path.join(VERIF, "tools", "props", pid + ".py")
    if not os.path.exists(path) or pid in na_reasons or pid not in ready:
        na.append({"property_id": pid, "reason": na_reasons.get(pid, "check not built yet (work in progress; see DESIGN.md section 6 for the planned design)")})
        continue
    meta = importlib.import_module("props." + pid).META
    checks.append({
        "property_id": pid,
        "quick_cmd": "tools/check %s --tier quick" % pid,
        "thorough_cmd": "tools/check %s --tier thorough" % pid,
        "evidence_file": "/verif/evidence/%s.json" % pid,
        "replay_cmd_template": "tools/check %s --replay {path}" % pid,
        "engine": meta.get("engine", "tlc+go"),
        "level_claimed": {"category": meta.get("category", "model_checking"), "text": meta["text"],
                          "design_ref": meta.get("design_ref", "DESIGN.md section 6, " + pid)},
        "level_note": meta["note"],
        "technique": meta["technique"],
    })

hook_commits = []
try:
    out = subprocess.run(["git", "-C", "/repo", "log", "--format=%h %s"], stdout=subprocess.PIPE, text=True).stdout
    hook_commits = [l.split()[0] for l in out.splitlines() if l.split(" ", 1)[1].startswith("verif hooks")]
except Exception:
    pass

manifest = {
    "version": 1,
    "setup_cmd": "tools/setup.sh",
    "hooks": {
        "guard": "verif",
        "enable": "go build -tags verif (the harness module /verif/harness replaces github.com/zmap/zcrypto with /repo's working tree)",
        "baseline_off_cmd": "cd /repo && GOFLAGS=-mod=mod GOPROXY=off go test -json -vet=off -count=1 -timeout 25m ./...",
        "source_commits": hook_commits,
        "add_only": True,
    },
    "engines": [
        {"name": "tlc+go", "path": "tools/vlib.py",
         "serves_properties": [c["property_id"] for c in checks],
         "kind_free_text": "TLA+ specifications in spec/ checked and enumerated by TLC; TLC-generated cases/behaviours replayed on the real code by Go harnesses in harness/cmd; observations recorded from the real code validated by TLC trace specifications"}
    ],
    "checks": checks,
    "not_applicable": na,
    "notes": "exit 0 = held; exit 1 + VIOLATION line = reproduced violation by the real code; exit 2 = the machinery could not vouch (never a verdict). Known findings: known_findings.json.",
}
with open(os.path.join(VERIF, "MANIFEST.json"), "w") as f:
    json.dump(manifest, f, indent=1)
print("MANIFEST.json: %d checks, %d not_applicable" % (len(checks), len(na)))
