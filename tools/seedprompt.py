#!/usr/bin/env python3
"""Print the prompt given to an independent mutant-seeding sub-agent for one property
(the agent sees only the property text and its own scratch worktree; nothing from /verif)."""
import json, sys
pid = sys.argv[1]
for l in open('/verif/properties.jsonl'):
    p = json.loads(l)
    if p['id'] == pid:
        break
text = p['title'] + ' — ' + p['statement']
print(f"""You are testing how well a hidden verification suite detects regressions in the Go library zmap/zcrypto (a research fork of crypto/tls and crypto/x509). You have your own scratch git worktree of the repository at /tmp/seed/{pid} — work ONLY there and in /tmp/seed/{pid}-out; do not read or touch /verif, /repo, or any other /tmp/seed directory.

Property that the library must satisfy (call it {pid}):
«{text}»

Task: produce TWO different, independent source changes (mutants m1 and m2) to the library (non-test .go files only), each of which BREAKS this property while (a) the code still compiles (`go build ./...`) and (b) the existing test suite still passes exactly as before. Run at least the tests of the touched package and of the packages that depend on it: `cd /tmp/seed/{pid} && GOFLAGS=-mod=mod GOPROXY=off go test -vet=off -count=1 ./<pkg>/...` (ideally `./...`, about 1 minute). Do NOT set GOTOOLCHAIN or GOSUMDB. Do NOT use `git stash` (the stash is shared by all worktrees of the repository and other workers use it concurrently): switch between the changed and unchanged tree with `git diff > p.diff`, `git apply -R p.diff`, `git apply p.diff`. In package tls the 22 subtests of TestCipherSuitesBadSSL fail even on the unchanged tree because there is no network — ignore exactly those failures. Prefer changes that need something specific to manifest — a particular interleaving, a fault at a particular point, a multi-step sequence of operations, an unusual input, or two cooperating sites that each look fine alone — not ones that ordinary use would expose at once. Keep them realistic and small (a few lines): something a maintainer could plausibly write in a refactor or an 'optimisation' (off-by-one, wrong comparison, dropped check, wrong variable, reordered steps, missing lock, stale cache, wrong default). The two mutants should break the property in different ways / at different sites.

For each mutant deliver a directory /tmp/seed/{pid}-out/m1 (resp. m2) containing: `patch.diff` (output of `git diff` in the worktree with ONLY that mutant applied; library files only — the demo must NOT be in it), a demonstration (`demo_test.go` to be dropped into a package directory, or a small `main.go` program) that FAILS with the mutant applied and PASSES on the unchanged tree — run it both ways and save the outputs as `demo_with.txt` and `demo_without.txt`; `tests_with.txt` (the existing-suite run with the mutant applied, showing it still passes); and `meta.json` = {{"property": "{pid}", "summary": "<what was changed>", "files": ["..."], "needs": "<what specific input / operation sequence / interleaving / configuration is needed for the breakage to manifest>", "demo_kind": "test|program", "demo_dir": "<repo-relative directory the demo file must be placed in>", "demo_cmd": "<command, run from the repo root, that runs only the demo>"}}. After finishing each mutant restore the worktree (`git checkout -- . && git clean -fdq` inside /tmp/seed/{pid} only) before starting the next, and leave it clean at the end. Verify patch.diff applies cleanly to a clean worktree with `git apply --check`.

Final report: for each mutant, 4-5 lines: what it changes, why the existing tests miss it, what it needs to manifest, demo command and the observed with/without outcomes.""")
