#!/usr/bin/env python3
"""Confirm a seeded mutant and run the property's check against it.

usage: tools/seedcheck.py <pid> <mutant dir (patch.diff, demo, meta.json)> [--name m1] [--no-suite] [--tier quick]

Steps (all in a scratch worktree of /repo HEAD under /var/tmp, removed afterwards):
  1. patch applies, tree builds (with and without the verif tag)
  2. demo FAILS with the patch, PASSES without
  3. the repository's baseline suite still passes with the patch (stable_pass of BASELINE.json)
  4. VERIF_REPO=<worktree> tools/check <pid> -> detected (exit 1 + VIOLATION) or missed
On success of 1-3 the mutant is stored as /verif/seeded/<pid>-<name>/ with meta.json extended by
what was run and the detection outcome.
"""
import argparse
import json
import os
import shutil
import subprocess
import sys
import time

VERIF = os.path.dirname(os.path.dirname(os.path.abspath(__file__)))


def sh(cmd, cwd=None, env=None, timeout=3600):
    p = subprocess.run(cmd, shell=True, cwd=cwd, env=env, stdout=subprocess.PIPE, stderr=subprocess.STDOUT,
                       text=True, errors="replace", timeout=timeout)
    return p.returncode, p.stdout


def goenv():
    e = dict(os.environ, GOFLAGS="-mod=mod", GOPROXY="off")
    e.pop("GOTOOLCHAIN", None)
    e.pop("GOSUMDB", None)
    return e


def suite(wt):
    rc, out = sh("go test -json -vet=off -count=1 -timeout 25m ./...", cwd=wt, env=goenv())
    passed = set()
    for line in out.splitlines():
        try:
            e = json.loads(line)
        except ValueError:
            continue
        if e.get("Action") == "pass" and e.get("Test"):
            passed.add("%s::%s" % (e["Package"], e["Test"]))
    base = set(json.load(open("/root/.vp/BASELINE.json"))["stable_pass"])
    return sorted(base - passed)


def still_missing(wt, patch, missing):
    """Timing/port flakes under load: a baseline test that is missing twice is excused when its
    package does not depend on any package touched by the patch; otherwise it is re-run alone
    (up to 3 times) and counts only if it never passes."""
    touched = set()
    for line in open(patch):
        if line.startswith("+++ b/"):
            touched.add("github.com/zmap/zcrypto/" + os.path.dirname(line[6:].strip()))
    out = []
    for t in missing:
        pkg, test = t.split("::")
        rc, deps = sh("go list -deps %s" % pkg, cwd=wt, env=goenv())
        if not (touched & set(deps.split())):
            print("excused (package independent of the patch):", t)
            continue
        rel = "./" + pkg[len("github.com/zmap/zcrypto/"):]
        ok = False
        for _ in range(3):
            rc, o = sh("go test -vet=off -count=1 -run '^%s$' %s" % (test.split("/")[0], rel), cwd=wt, env=goenv())
            if rc == 0:
                ok = True
                break
        if not ok:
            out.append(t)
    return out


def main():
    ap = argparse.ArgumentParser()
    ap.add_argument("pid")
    ap.add_argument("dir")
    ap.add_argument("--name", default=None)
    ap.add_argument("--no-suite", action="store_true")
    ap.add_argument("--tier", default="quick")
    ap.add_argument("--check-only", action="store_true", help="skip confirmation steps 2-3 (already stored)")
    ap.add_argument("--no-check", action="store_true", help="only confirm and store the mutant")
    ap.add_argument("--props", default=None, help="comma list of properties to run (default: pid)")
    a = ap.parse_args()
    name = a.name or os.path.basename(os.path.normpath(a.dir))
    meta_path = os.path.join(a.dir, "meta.json")
    meta = json.load(open(meta_path)) if os.path.exists(meta_path) else {}
    wt = "/var/tmp/wt-%s-%s-%d" % (a.pid, name, os.getpid())
    rc, out = sh("git -C /repo worktree add --detach %s HEAD -q" % wt)
    if rc != 0:
        print(out)
        return 2
    result = {"confirmed": False}
    try:
        # uncommitted hook files of /repo (untracked verif_*.go) are part of "the current tree"
        rc, out = sh("git -C /repo ls-files --others --exclude-standard")
        for f in out.split():
            if os.path.basename(f).startswith("verif_") and f.endswith(".go"):
                os.makedirs(os.path.dirname(os.path.join(wt, f)), exist_ok=True)
                shutil.copy(os.path.join("/repo", f), os.path.join(wt, f))
        rc, out = sh("git -C /repo diff")
        if out.strip():
            p = subprocess.run(["git", "apply"], cwd=wt, input=out, text=True)
        patch = os.path.abspath(os.path.join(a.dir, "patch.diff"))
        rc, out = sh("git apply --check %s" % patch, cwd=wt)
        if rc != 0:
            print("patch does not apply:", out)
            return 2
        demo_dir = meta.get("demo_dir", "")
        demo_cmd = meta.get("demo_cmd", "")
        demo_files = [f for f in os.listdir(a.dir) if f.startswith("demo") and f.endswith(".go") or f == "main.go"]

        def place_demo():
            placed = []
            for f in demo_files:
                d = os.path.join(wt, demo_dir)
                os.makedirs(d, exist_ok=True)
                shutil.copy(os.path.join(a.dir, f), os.path.join(d, f))
                placed.append(os.path.join(d, f))
            return placed

        if not a.check_only:
            placed = place_demo()
            rc0, out0 = sh(demo_cmd, cwd=wt, env=goenv(), timeout=1200)
            print("demo without patch: rc=%d" % rc0)
            sh("git apply %s" % patch, cwd=wt)
            rcb, outb = sh("go build ./... && go build -tags verif ./...", cwd=wt, env=goenv())
            if rcb != 0:
                print("mutant does not build:", outb[-2000:])
                return 2
            rc1, out1 = sh(demo_cmd, cwd=wt, env=goenv(), timeout=1200)
            print("demo with patch:    rc=%d" % rc1)
            for f in placed:
                os.remove(f)
                # remove dirs created only for a program demo
            if rc0 != 0 or rc1 == 0:
                print("NOT CONFIRMED: demo must pass without (rc=%d) and fail with (rc=%d)" % (rc0, rc1))
                print(out0[-1500:])
                print(out1[-1500:])
                return 3
            missing = []
            if not a.no_suite:
                missing = suite(wt)
                if missing:
                    # port 8080 / timing flakes under load: re-run once
                    print("suite: %d missing on first run (%s...), re-running" % (len(missing), missing[:3]))
                    again = suite(wt)
                    missing = sorted(set(missing) & set(again))
                if missing:
                    missing = still_missing(wt, patch, missing)
                print("suite with patch: %d baseline tests missing" % len(missing))
                if missing:
                    print("NOT CONFIRMED: existing tests fail with the mutant:", missing[:10])
                    return 3
            result["confirmed"] = True
            result["ran"] = ["git apply patch.diff in a scratch worktree of /repo HEAD",
                             "go build ./... && go build -tags verif ./...",
                             "demo without patch: pass; with patch: fail (%s)" % demo_cmd,
                             "baseline suite with patch: all 1304 stable tests pass" if not a.no_suite else "suite not re-run"]
        else:
            rc, out = sh("git apply %s" % patch, cwd=wt)
            if rc != 0:
                print("patch does not apply to the current tree:", out)
                return 2
            placed = place_demo()
            rc1, out1 = sh(demo_cmd, cwd=wt, env=goenv(), timeout=1200)
            for f in placed:
                os.remove(f)
            print("demo with patch on the current tree: rc=%d" % rc1)
            if rc1 == 0:
                print("STALE: the mutant no longer breaks its demo on the current tree")
                return 4
        # run the checks
        det = {}
        for pid in ([] if a.no_check else (a.props.split(",") if a.props else [a.pid])):
            t = time.time()
            env = dict(os.environ, VERIF_REPO=wt, VERIF_TIER=a.tier)
            rc, out = sh("tools/check %s --tier %s" % (pid, a.tier), cwd=VERIF, env=env, timeout=3600)
            viol = [l for l in out.splitlines() if l.startswith("VIOLATION")]
            det[pid] = {"exit": rc, "violations": len(viol), "wall_s": round(time.time() - t, 1),
                        "first": (viol[0] if viol else ""),
                        "what": [l.strip() for l in out.splitlines() if l.strip().startswith("what:")][:3]}
            print("check %s against mutant: exit=%d violations=%d (%.0fs)" % (pid, rc, len(viol), time.time() - t))
            if rc not in (0, 1):
                print(out[-3000:])
        result["detection"] = det
        if result.get("confirmed") or a.check_only:
            dst = os.path.join(VERIF, "seeded", "%s-%s" % (a.pid, name))
            os.makedirs(dst, exist_ok=True)
            if not a.check_only:
                shutil.copy(patch, os.path.join(dst, "patch.diff"))
                for f in demo_files:
                    shutil.copy(os.path.join(a.dir, f), os.path.join(dst, f))
            mp = os.path.join(dst, "meta.json")
            m = json.load(open(mp)) if os.path.exists(mp) else dict(meta)
            m.setdefault("property", a.pid)
            if "ran" in result:
                m["confirmed_by"] = result["ran"]
            m.setdefault("detection", {}).update({k: v for k, v in det.items()})
            json.dump(m, open(mp, "w"), indent=1)
        return 0
    finally:
        sh("git -C /repo worktree remove --force %s" % wt)
        shutil.rmtree(wt, ignore_errors=True)


if __name__ == "__main__":
    sys.exit(main())
