#!/bin/sh
# usage: tools/sweep.sh <tier> <id>...   - run the given checks one after the other, print one line each
tier=$1; shift
for p in "$@"; do
  s=$(date +%s)
  out=$(VERIF_TIER=$tier tools/check $p --tier $tier 2>&1); rc=$?
  e=$(date +%s)
  echo "$p tier=$tier seed=${VERIF_SEED:-1} exit=$rc wall=$((e-s))s $(echo "$out" | grep -cE '^VIOLATION') violations $(echo "$out" | grep -cE '^KNOWN-FINDING') known"
  if [ $rc -ne 0 ]; then echo "$out" | grep -E "VIOLATION|PROBLEM|what:|Error|error" | head -12; fi
done
