#!/bin/sh
# Run once after a fresh restore (offline): warm the Go build cache by building every harness
# command against /repo with -tags verif, and check that TLC starts.
set -e
cd "$(dirname "$0")/.."
python3 - <<'PY'
import os, sys, subprocess, shutil, tempfile
sys.path.insert(0, "tools")
import vlib
ctx = vlib.Ctx("setup", "quick", 1)
try:
    cmds = sorted(d for d in os.listdir(os.path.join(vlib.HARNESS, "cmd")))
    h = ctx._harness_copy()
    p = subprocess.run(["go", "build", "-trimpath", "-tags", "verif", "-o", ctx.path("bins") + "/", "./cmd/..."],
                       cwd=h, env=ctx.goenv())
    if p.returncode != 0:
        sys.exit(1)
    print("built", cmds)
finally:
    ctx.cleanup()
PY
tlc -h >/dev/null 2>&1 || true
echo setup ok
