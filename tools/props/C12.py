"""C12 - Verifier.Verify results are a consistent view of the walked chains (Verifier.tla,
VerifierGen.tla, Trace_Verifier.tla on top of Walk.tla / Graph.tla / GraphCatalog.tla; harness
cmd/c12, lib/graphobs)."""
import copy
import json

from vlib import Machinery, read_ndjson
from props import graphlib as gl

META = {
    "technique": "TLA+ specification of the VerificationResult as a function of the walked chains, times, name and revocation sets; TLC-enumerated cases (graphs x start certificates x every validity-boundary time x names x OneCRL/CRLSet contents) run on the real Verifier.Verify with every result field judged by TLC; TLC validation of results recorded on seeded random PKIs",
    "text": "Verifier.tla judges one observation of Verify field by field: current/expired/never-valid partition the chains WalkChains returns on the same graph (multiset equality and the window rule lower < t < upper, lower < upper of FilterByDate), valid-at-expiration = chains valid at NotAfter-1s, parents = distinct second certificates of the relevant chains, the expired flag, the type rule, the name error (exact DNS SAN names only; hostname rules proper are C09) and the in-revocation-set flag against abstract OneCRL/CRLSet contents. VerifierGen.tla enumerates configurations with overlapping, disjoint and early-expiring validity windows, every boundary time +-1 s of every certificate, start certificates in and out of the graph, three names and 13 revocation-set contents; the harness builds real certificates, graphs, OneCRL and CRLSet objects and calls the real Verify; TLC judges every distinct observation. Random PKIs with random windows, times and revocation sets are judged the same way. Function-style bounded-exhaustive check over a small case space plus sampling.",
    "note": "Trusted: TLC, Go toolchain, crypto/x509 for certificate creation, sha256 over the standard library's SPKI encoding as the issuer-key hash of CRLSet/OneCRL entries. OCSP/CRL fetching (ShouldCheckOCSP/ShouldCheckCRL) is not driven. The CRLSet clause is read both ways where the issuer is not among the reported parents (see design_notes/C12.md). Which chains the walk finds is C11's matter; here the walked chains are taken as observed.",
}

QUICK = ["times", "times-vae", "times-x", "times-ir", "times-nr", "times-eq", "times-re", "selfx"]
THOROUGH = QUICK + ["cross", "rollover"]


def run(ctx):
    quick = ctx.quick
    r = ctx.tlc("VerifierGen", "Verifier_gen.cfg", workers=1, timeout=3000,
                subst={"CONFIGS": gl.tla_set(QUICK if quick else THOROUGH)}, label="VerifierGen: cases")
    cases = read_ndjson(ctx.specfile("verify_cases.ndjson"))
    if not cases:
        raise Machinery("VerifierGen produced no cases")
    binary = ctx.gobuild("c12")
    out = ctx.path("verify_obs_gen.ndjson")
    p = ctx.run(binary, ["replay-gen", ctx.specfile("graph_catalog.ndjson"), ctx.specfile("verify_cases.ndjson"), out], timeout=3000)
    _, st = ctx.harness_output(p)
    if st.get("cases", 0) != len(cases) or st.get("verify_calls", 0) < len(cases):
        raise Machinery("harness ran %s of %d cases (%s with chains)" % (st.get("cases"), len(cases), st.get("with_chains")))
    recs = read_ndjson(out)
    out2 = ctx.path("verify_obs_rnd.ndjson")
    npki = 20 if quick else 300
    p = ctx.run(binary, ["record", out2, str(npki), "8", "20"], timeout=3000)
    _, st2 = ctx.harness_output(p)
    rnd = read_ndjson(out2)
    allrecs = recs + rnd
    rej = gl.judge(ctx, "Trace_Verifier", "Verifier_judge.cfg", "verify_obs.ndjson", allrecs,
                   label="Trace_Verifier judges %d enumerated + %d random observations" % (len(recs), len(rnd)))
    # vacuity: every clause must have been exercised with both outcomes.  The tags are computed by
    # the specification from the input side (VerifyCover), never from the result under test.
    need = {"chain-current", "chain-expired", "chain-never", "vae", "no-vae-but-chains", "parents", "two-parents",
            "cert-expired", "cert-valid", "type-root", "type-intermediate", "type-leaf", "type-unknown", "name-none",
            "name-match", "name-mismatch", "rev-must", "rev-must-not", "expired-with-parents"}
    vacuous = None
    if ctx.last_cover is None or not need <= ctx.last_cover:
        vacuous = "vacuous: coverage tags never reached: %s" % sorted(need - (ctx.last_cover or set()))
    ctx.cov["cover_tags"] = sorted(ctx.last_cover or [])
    ctx.cov["evaluations"] += st.get("verify_calls", 0) + st2.get("verify_calls", 0)
    ctx.cov["distinct_nontrivial"] += st.get("with_chains", 0) + st2.get("with_chains", 0)
    ctx.cov["traces_validated_against_impl"] += len(allrecs)
    ctx.cov["exhaustive"] = True
    ctx.cov["cases"] = len(cases)
    ctx.cov["rule"] = ("evaluations = Verifier.Verify calls on real graphs; distinct_nontrivial = distinct observations in "
                       "which the walk returned at least one chain; every observation is judged by TLC with VerifyReasons")
    ctx.add_samples([{"case": cases[len(cases) // 2]}], n=1)
    cands = []
    for i, why, _ in rej:
        rec = allrecs[i]
        res = rec["obs"]["res"]
        cands.append({"sig": {"kind": "verify-rejected", "why": why},
                      "what": "Verify(%s, t=%d, name=%r) result violates: %s (current=%d expired=%d never=%d vae=%d "
                              "parents=%s expired=%s type=%s inrev=%s walked=%d)"
                              % (rec["obs"]["start"], rec["obs"]["t"], rec["obs"]["name"], ",".join(why),
                                 len(res["current"]), len(res["expired"]), len(res["never"]), len(res["vae"]),
                                 res["parents"], res["isexpired"], res["type"], res["inrev"], len(rec["obs"]["walked"])),
                      "case": rec["case"]})
    ctx.candidates(binary, cands, reproduce=lambda path, body: reproduce(ctx, binary, path, body))
    if vacuous and not ctx.violations:
        ctx.problem(vacuous)
    if not quick:
        selftest(ctx, recs)


def reproduce(ctx, binary, path, body=None):
    out = ctx.path("one_verify.ndjson")
    ctx.run(binary, ["record-one", path, out])
    recs = read_ndjson(out)
    rej = gl.judge(ctx, "Trace_Verifier", "Verifier_judge.cfg", "verify_obs.ndjson", recs, label="Trace_Verifier (replay)")
    return len(rej) > 0


def selftest(ctx, recs):
    good = [r for r in recs if r["obs"]["res"]["current"] and r["obs"]["res"]["parents"] and not r["obs"]["res"]["inrev"]]
    if not good:
        raise Machinery("selftest: no observation with current chains and parents")
    base = good[len(good) // 2]
    bad = []
    a = copy.deepcopy(base)
    a["obs"]["res"]["expired"].append(a["obs"]["res"]["current"].pop())       # wrong class
    bad.append(a)
    b = copy.deepcopy(base)
    b["obs"]["res"]["parents"] = []                                            # parents lost
    bad.append(b)
    c = copy.deepcopy(base)
    c["obs"]["res"]["inrev"] = True                                            # flag without listing
    bad.append(c)
    d = copy.deepcopy(base)
    d["obs"]["res"]["vae"] = d["obs"]["res"]["vae"] + d["obs"]["res"]["current"][:1]   # extra vae chain
    bad.append(d)
    e = copy.deepcopy(base)
    e["obs"]["res"]["isexpired"] = not e["obs"]["res"]["isexpired"]
    bad.append(e)
    rej = gl.judge(ctx, "Trace_Verifier", "Verifier_judge.cfg", "verify_obs.ndjson", bad + [base], label="Trace_Verifier self-test")
    got = sorted(i for i, _, _ in rej)
    if got != [0, 1, 2, 3, 4]:
        raise Machinery("selftest: rejected %s, expected the 5 corrupted observations" % got)
    ctx.note("binding self-test passed (5 corrupted observations rejected, the original accepted)")


def replay(ctx, path):
    binary = ctx.gobuild("c12")
    again = reproduce(ctx, binary, path, json.load(open(path)))
    print("REPRODUCED" if again else "not reproduced")
    return 1 if again else 0
