"""C33 - JSON encodings of zcrypto value types round-trip (JSONEnum.tla, JSONEnumGen.tla,
JSONEnumJudge.tla; harness cmd/c33)."""
import collections
import json
import re

from vlib import read_ndjson, write_ndjson, Machinery

META = {
    "technique": "TLA+ value-domain / presence-pattern specification of the JSON value types: TLC enumerates every presence pattern of the structured types, the Go harness sweeps every value of the enumerated types and concretises the patterns on the real MarshalJSON/UnmarshalJSON code, TLC judges every recorded observation against the round-trip oracle",
    "text": "JSONEnum.tla fixes, per JSON value type, the domain in which the statement demands decode(encode(v)) = v, the wider universe probed for panics, the member/presence-state tables of the structured types and the equality of abstract values. Every value of the 16-bit and 8-bit wire enumerations and every declared constant of the Go int enumerations is pushed through the real codecs (exhaustive); TLC enumerates the presence patterns of the key-parameter, name, general-name, name-constraint, fingerprint and DigitallySigned types, the harness builds real values for them (checked by re-projection), and JSONEnumJudge.tla decides each observation. Exhaustive over the abstract space, seeded-random inside each pattern class.",
    "note": "Trusted: TLC, encoding/json, the harness projections (strings/sequences/records re-derived from the real objects). Values are marshalled through a pointer (the way they sit in the handshake log and certificate structures). Left open: undeclared integers of the Go int enumerations, nil required members, non-zero Min/Max of name-constraint subtrees, non-contiguous IP masks and DigitallySigned signatures above 65535 bytes are probed for panics only; documents with omitted/null members that no value encodes to are reported as notes (the statement speaks of encoded values).",
}

OUTCOME = {0: "unequal", 1: "enc-error", 2: "dec-error", 3: "enc-panic", 4: "dec-panic"}
NAME_KNOWN_LOSSY = ("given_name", "surname", "organization_id")


def judge(ctx, records, coverage, label):
    """Run JSONEnumJudge.tla over records; returns the list of messages (python lists)."""
    write_ndjson(ctx.specfile("jsonenum_obs.ndjson"), records)
    r = ctx.tlc("JSONEnumJudge", "JSONEnum_judge.cfg", subst={"COVERAGE": "TRUE" if coverage else "FALSE"},
                workers=1, timeout=1500, label="JSONEnumJudge[%s, %d records]" % (label, len(records)))
    msgs = []
    for line in r.out.splitlines():
        if line.startswith('"['):
            try:
                msgs.append(json.loads(json.loads(line)))
            except ValueError:
                raise Machinery("unparsable judge line: %r" % line[:200])
    done = [m for m in msgs if m and m[0] == "JUDGED"]
    if not done or int(done[-1][1]) != len(records):
        raise Machinery("judge did not finish over %d records: %s" % (len(records), r.out[-1500:]))
    return [m for m in msgs if m[0] != "JUDGED"]


def scrub(msg):
    return re.sub(r"\d+", "#", msg or "")[:80]


def enum_candidate(o, v, st, dec):
    sig = {"kind": "enum", "type": o["type"], "outcome": OUTCOME[st]}
    if st in (3, 4):
        sig["panic"] = True
    else:
        sig["value"] = v
        if st == 0:
            sig["decoded"] = dec
    what = "%s value %d: %s" % (o["type"], v, "decoded value %d" % dec if st == 0 else OUTCOME[st])
    return {"sig": sig, "what": what, "case": {"kind": "enum", "type": o["type"], "value": v}}


def struct_candidate(o):
    st = o["st"]
    sig = {"kind": "struct", "type": o["type"], "outcome": OUTCOME[st]}
    pat = o.get("pat", {})
    if st in (3, 4):
        sig["panic"] = scrub(o.get("msg", ""))
    elif st in (1, 2):
        sig["error"] = scrub(o.get("msg", ""))
    if o["type"] in ("json.ECPoint", "json.ECDHParams"):
        sig["point_without_y"] = (pat.get("y") == "nil" or pat.get("server_public") == "x" or pat.get("client_public") == "x")
    if st == 0:
        val, dec = o["val"], o["dec"]
        if o["type"] == "pkix.Name":
            # classification only (the verdict is TLC's): attribute kinds lost under every reading
            lost = sorted(k for k in val["attrs"]
                          if all(want[k] != got.get(k) for want in (val["attrs"], val["wire"])
                                 for got in (dec["fields"], dec["names"])))
            for k in NAME_KNOWN_LOSSY:
                sig["lost_" + k] = k in lost
            sig["lost_other"] = [k for k in lost if k not in NAME_KNOWN_LOSSY]
        elif isinstance(dec, dict):
            sig["diff"] = sorted(k for k in val if val.get(k) != dec.get(k))
    what = "%s pattern %s: %s %s" % (o["type"], json.dumps(pat, sort_keys=True), OUTCOME[st], o.get("msg", ""))
    return {"sig": sig, "what": what[:400], "case": {"kind": "struct", "type": o["type"], "pat": pat, "val": o["val"]}}


def collect(ctx, records, msgs, notes):
    """Turn judge messages into candidates / problems / notes."""
    cands = []
    for m in msgs:
        tag = m[0]
        if tag == "REJECT":
            o = records[m[1] - 1]
            if m[2] == "enum":
                cands.append(enum_candidate(o, m[4], m[5], m[6]))
            else:
                cands.append(struct_candidate(o))
        elif tag == "DRIFT":
            notes["MODEL-DRIFT %s %s" % (m[2], m[3])] += 1
        elif tag == "DOCNOTE":
            o = records[m[1] - 1]
            notes["document edit outside the statement: %s %s" % (m[2], "decode panics" if m[4] in (3, 4) else "re-encoding not stable")] += 1
        elif tag in ("CONCRETISE", "UNCOVERED", "UNKNOWN-RECORD"):
            ctx.problem("judge: %s" % json.dumps(m))
        else:
            ctx.problem("judge: unknown message %s" % json.dumps(m))
    return cands


def reproduce(ctx, binary, path):
    out = ctx.path("one.ndjson")
    ctx.run(binary, ["one", path, out])
    recs = read_ndjson(out)
    msgs = judge(ctx, recs, False, "replay")
    return any(m[0] == "REJECT" for m in msgs)


def batch_reproduce(ctx, binary, cands):
    """Re-run every distinct candidate in a fresh harness process each, then let TLC judge all the
    re-recorded observations in one run.  Returns {signature-json: reproduced?}."""
    seen = {}
    for c in cands:
        seen.setdefault(json.dumps(c["sig"], sort_keys=True), c)
    keys = list(seen)[:40]
    recs, owner = [], []
    for n, k in enumerate(keys):
        path = ctx.path("cand%d.json" % n)
        with open(path, "w") as f:
            json.dump({"sig": seen[k]["sig"], "case": seen[k]["case"]}, f)
        out = ctx.path("cand%d.ndjson" % n)
        ctx.run(binary, ["one", path, out])
        for r in read_ndjson(out):
            recs.append(r)
            owner.append(k)
    res = {k: False for k in keys}
    if recs:
        for m in judge(ctx, recs, False, "replay of %d candidates" % len(keys)):
            if m[0] == "REJECT":
                res[owner[m[1] - 1]] = True
    return res


def run(ctx):
    quick = ctx.quick
    binary = ctx.gobuild("c33")
    notes = collections.Counter()

    # U2: TLC enumerates presence patterns and document edits from the member tables.
    g = ctx.tlc("JSONEnumGen", "JSONEnum_gen.cfg",
                subst={"PATBOUND": 2 if quick else 4, "MIDBOUND": 2 if quick else 99, "DOCBOUND": 2 if quick else 3},
                workers=1, timeout=1500)
    m = re.search(r'<<"GENERATED", (\d+), (\d+)>>', g.out)
    if not m or int(m.group(1)) == 0 or int(m.group(2)) == 0:
        raise Machinery("generator produced no cases:\n" + g.out[-1500:])
    npat, ndoc = int(m.group(1)), int(m.group(2))
    pats = read_ndjson(ctx.specfile("jsonenum_patterns.ndjson"))
    gen_types = set(p["type"] for p in pats)

    # enumerated types: exhaustive sweep on the Go side (domain coverage is checked by TLC)
    out = ctx.path("enum.ndjson")
    p = ctx.run(binary, ["enum", out])
    _, st = ctx.harness_output(p)
    enum_recs = read_ndjson(out)
    nenum = st.get("enum_values", 0)
    if nenum < 6 * 65536:
        raise Machinery("enum sweep too small: %s" % nenum)
    s3 = enum_recs[3]
    ctx.add_samples([{"type": s3["type"], "base": s3["base"], "dec": s3["dec"][:4], "st": s3["st"][:4]}], n=1)

    # structured types: TLC patterns -> real values -> observations
    out = ctx.path("struct.ndjson")
    p = ctx.run(binary, ["struct", ctx.specfile("jsonenum_patterns.ndjson"), out], timeout=1500)
    _, st = ctx.harness_output(p)
    if st.get("struct_cases", 0) != npat:
        raise Machinery("harness ran %s of %d patterns" % (st.get("struct_cases"), npat))
    struct_recs = read_ndjson(out)
    seen_types = set(o["type"] for o in struct_recs)
    if seen_types != gen_types:
        raise Machinery("struct types observed %s != generated %s" % (sorted(seen_types), sorted(gen_types)))
    nontriv = set()
    for o in struct_recs:
        pat = o["pat"]
        if any(v in ("nil", "zero", "empty", "x", "two", "l0", "parsed", "unknown", "ebig", "e3", "other", "false",
                     "nonzero", "full", "v6") for v in pat.values()):
            nontriv.add(o["type"] + json.dumps(pat, sort_keys=True))
    ctx.cov["distinct_nontrivial"] += len(nontriv)
    ok = [o for o in struct_recs if o["st"] == 0 and o["type"] == "json.DHParams"]
    if ok:
        s = ok[len(ok) // 2]
        ctx.add_samples([{"type": s["type"], "pat": s["pat"], "enc": s["enc"][:200]}], n=2)

    # seeded random structured values (richer content, two-element lists)
    out = ctx.path("random.ndjson")
    nrand = 60 if quick else 600
    p = ctx.run(binary, ["random", out, str(nrand)], timeout=1500)
    rand_recs = read_ndjson(out)
    if len(rand_recs) < nrand * 10:
        raise Machinery("random driver produced %d records" % len(rand_recs))

    # document edits (B level; the statement speaks of encoded values): notes only
    out = ctx.path("docs.ndjson")
    p = ctx.run(binary, ["docs", ctx.specfile("jsonenum_docs.ndjson"), out], timeout=1500)
    _, st = ctx.harness_output(p)
    if st.get("doc_cases", 0) != ndoc:
        raise Machinery("harness ran %s of %d document edits" % (st.get("doc_cases"), ndoc))
    doc_recs = read_ndjson(out)

    # U3: TLC judges everything in one evaluation
    recs = enum_recs + struct_recs + rand_recs + doc_recs
    msgs = judge(ctx, recs, True, "enum+struct+random+docs")
    cands = collect(ctx, recs, msgs, notes)
    ctx.cov["evaluations"] += nenum + len(struct_recs) + len(rand_recs) + len(doc_recs)
    ctx.cov["traces_validated_against_impl"] += len(struct_recs) + len(rand_recs)
    ctx.cov["exhaustive"] = True
    ctx.cov["rule"] = ("every value of the 16-bit / 8-bit enumerations and every declared constant of the int enumerations "
                       "(coverage of each domain checked by TLC); every presence pattern TLC enumerates from the member tables "
                       "of JSONEnum.tla (full product for types with < 8 members, both ends of the presence lattice up to the "
                       "tier's bound for the larger ones) concretised with seeded content; seeded random values; "
                       "non-trivial = a pattern with at least one member away from its populated state")
    for k, v in sorted(notes.items()):
        ctx.note("%s (x%d)" % (k, v))
    again = batch_reproduce(ctx, binary, cands)
    ctx.candidates(binary, cands,
                   reproduce=lambda path, body: again.get(json.dumps(body.get("sig", {}), sort_keys=True), False))

    if not quick:
        selftest(ctx, binary)


def selftest(ctx, binary):
    """Binding self-test: a corrupted decoded value must be rejected and a dropped chunk must be
    reported as uncovered - otherwise the judge constrains nothing."""
    out = ctx.path("enum.ndjson")
    recs = read_ndjson(out)
    tv = [i for i, o in enumerate(recs) if o["k"] == "enum" and o["type"] == "tls.CurveID"]
    import copy
    bad = copy.deepcopy(recs[tv[0]:tv[0] + 3])
    bad[1]["dec"][17] += 1
    msgs = judge(ctx, bad, False, "selftest-corrupt")
    if not any(m[0] == "REJECT" and m[4] == bad[1]["base"] + 17 for m in msgs):
        raise Machinery("selftest: corrupted decoded value was accepted")
    dropped = recs[:tv[5]] + recs[tv[5] + 1:]
    msgs = judge(ctx, dropped, True, "selftest-drop")
    if not any(m[0] == "UNCOVERED" and m[1] == "tls.CurveID" for m in msgs):
        raise Machinery("selftest: dropped chunk was not reported as uncovered")
    ctx.note("binding self-test passed (corrupted value rejected, dropped chunk reported uncovered)")


def replay(ctx, path):
    binary = ctx.gobuild("c33")
    again = reproduce(ctx, binary, path)
    print("REPRODUCED" if again else "not reproduced")
    return 1 if again else 0
