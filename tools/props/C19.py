"""C19 - strict DER decoding is canonical in both ASN.1 codecs (DER.tla, DERGen.tla,
Trace_DER.tla; harness cmd/c19, lib/der)."""
import json
import os
import re

from vlib import Machinery, read_ndjson, write_ndjson
from props import derlib

META = {
    "technique": "TLA+ specification of the DER subset (DER.tla): TLC enumerates all short encodings as a state space, checks the specification's own canonicity and emits each case with the demanded accept/reject/value; cases are replayed on encoding/asn1 and cryptobyte; decisions of the real decoders on random longer encodings are judged by TLC",
    "text": "DER.tla defines tag/length header grammar, canonical INTEGER, BOOLEAN, OBJECT IDENTIFIER, BIT STRING and GeneralizedTime with Encode/Decode as pure operators. DERGen.tla makes every short encoding a state (full byte alphabet for the shortest contents, a 14-value boundary alphabet beyond, every length and identifier octet string incl. truncated prefixes); TLC checks Accept(x) => Encode(Decode(x)) = x in every state and prints the verdict per decoder class. The Go harness runs 34 real decoder entry points (asn1.Unmarshal targets, cryptobyte readers) in strict mode and compares decision, consumed bytes, value and the re-encoding produced by the same library. Bounded-exhaustive on the modelled alphabet plus TLC-judged random inputs; that is what model checking can deliver for a parser.",
    "note": "Trusted: TLC, Go toolchain, math/big and time accessors used for projection. 'Must accept' is demanded only for canonical encodings of values in the documented range of the target (instance of C18/C21); canonical values beyond a codec's documented limits (OID arcs >= 2^31 resp. >= 2^28, tag numbers >= 2^31, zone offsets >= 24h) may be rejected. UTCTime is outside the statement. Contents longer than the bounds are sampled, not enumerated.",
}

KINDS = ["int", "bool", "oid", "bits", "time", "utc", "len", "tag"]

QUICK = dict(INT_FULL=1, INT_MAX=3, INT_LONG=10, OID_FULL=1, OID_MAX=3, OID_LONG=8, BITS_FULL=1, BITS_MAX=3, BOOL_FULL=1,
             BOOL_MAX=2, LEN_FULL=2, LEN_MAX=4, LEN_SMALL=6, TAG_FULL=2, TAG_MAX=4, TIMEMENU='"quick"',
             LEN_IDS="{4,48}")
# thorough: several runs so that no single TLC output exceeds ~1.5 M records
THOROUGH = [
    (["int"], dict(INT_FULL=2, INT_MAX=4, INT_LONG=12)),
    (["oid"], dict(OID_FULL=2, OID_MAX=4, OID_LONG=9)),
    (["bits", "bool", "time", "utc"], dict(BITS_FULL=2, BITS_MAX=4, BOOL_FULL=2, BOOL_MAX=3, TIMEMENU='"full"')),
    (["len", "tag"], dict(LEN_FULL=3, LEN_MAX=5, LEN_SMALL=7, TAG_FULL=2, TAG_MAX=6)),
]


def gen(ctx, kinds, params, label):
    sub = dict(QUICK)
    sub.update(params)
    sub["KINDS"] = derlib.strset_text(kinds)
    r = ctx.tlc("DERGen", "DER_gen.cfg", subst=sub, timeout=3000, label=label)
    path = ctx.path("cases_%s.ndjson" % re.sub(r"\W+", "_", label))
    n = derlib.tla_records_to_file(r.out, path)
    if n == 0 or r.distinct == 0:
        raise Machinery("generator %s produced no cases" % label)
    ctx.log("%s: %d states, %d cases" % (label, r.distinct, n))
    return path, n, r


def run(ctx):
    binary = ctx.gobuild("c19")

    # U1 + U2: exhaustive short encodings; canonicity of the specification is an invariant
    # of the same run (a violation is a TLC error -> machinery problem, never a verdict).
    runs = [(KINDS, {})] if ctx.quick else THOROUGH
    files = []
    for kinds, params in runs:
        files.append(gen(ctx, kinds, params, "DERGen " + "+".join(kinds) + ("" if ctx.quick else " " + json.dumps(params, sort_keys=True))))

    cands = []
    total = evals = nontriv = 0
    per_kind = {}
    for path, n, _ in files:
        p = ctx.run(binary, ["replay-gen", path], timeout=3000)
        c, st = ctx.harness_output(p)
        cands += c
        if st.get("cases", 0) != n:
            raise Machinery("harness replayed %s of %d generated cases" % (st.get("cases"), n))
        total += n
        evals += st.get("evaluations", 0)
        nontriv += st.get("nontrivial", 0)
        for k, v in st.get("per_kind", {}).items():
            per_kind[k] = per_kind.get(k, 0) + v
        for k, v in st.get("must_accept_evals", {}).items():
            if v == 0:
                raise Machinery("kind %s: no must-accept evaluation (vacuous)" % k)
        with open(path) as f:
            for i, line in enumerate(f):
                if i in (7, 4001, 20011):
                    ctx.add_samples([json.loads(line)], n=3)
    for k in ("int", "bool", "oid", "bits", "time", "utc", "hdr"):
        if per_kind.get(k, 0) == 0:
            raise Machinery("no generated case of kind %s" % k)
    ctx.cov["evaluations"] += evals
    ctx.cov["distinct_nontrivial"] += nontriv
    ctx.cov["traces_validated_against_impl"] += total
    ctx.cov["exhaustive"] = True
    ctx.cov["cases_per_kind"] = per_kind
    ctx.cov["rule"] = ("every state of DERGen.tla = one encoding (contents over 0..255 up to X_FULL octets and over a "
                       "14-value boundary alphabet up to X_MAX octets; all length / identifier octet strings with "
                       "truncated prefixes and fill variants; GeneralizedTime field menus); evaluations = case x real "
                       "decoder entry point; non-trivial = accepted, or rejected for a canonicity rule (not mere "
                       "truncation / tag mismatch); plus seeded random longer encodings whose real decisions TLC judges")
    ctx.candidates(binary, cands)
    verdicted = {json.dumps(c["sig"], sort_keys=True) for c in cands}

    # U3: random longer encodings, real decisions judged by TLC
    nrec = 400 if ctx.quick else 4000
    out = ctx.path("obs.ndjson")
    ctx.run(binary, ["record", out, str(nrec)], timeout=1200)
    recs = read_ndjson(out)
    rejected = judge(ctx, recs)
    ctx.cov["evaluations"] += len(recs)
    ctx.cov["observations_judged_by_tlc"] = len(recs)
    tc = []
    for i, got, why in rejected:
        r = recs[i - 1]
        if json.dumps(obs_sig(r, got, why), sort_keys=True) in verdicted:
            continue        # same rule / same decoder already replayed and reported above
        tc.append({"sig": obs_sig(r, got, why),
                   "what": "TLC (Trace_DER) rejects the observation (%s %s) %s" % (got, why, json.dumps(r)[:600]),
                   "case": {"k": r["k"], "b": r["b"], "target": r["target"], "obs": True}})
    ctx.candidates(binary, tc, reproduce=lambda path, body: reproduce_obs(ctx, binary, path))

    if not ctx.quick:
        selftest(ctx, recs)


def judge(ctx, recs, label=None):
    """Returns the 1-based indices of the records Trace_DER rejects."""
    write_ndjson(ctx.specfile("der_obs.ndjson"), recs)
    r = ctx.tlc("Trace_DER", "DER_judge.cfg", timeout=3000, label=label or "Trace_DER[%d obs]" % len(recs))
    if r.distinct != max(1, len(recs)):
        raise Machinery("Trace_DER visited %d states for %d observations" % (r.distinct, len(recs)))
    try:
        return derlib.rejects(r.out, 2)
    except ValueError as e:
        raise Machinery(str(e))


def obs_sig(r, got, why):
    """Same signature shape as the harness gives to disagreements on generated cases."""
    return {"kind": r["k"], "target": r["target"], "want": {"a": "r", "r": "a"}.get(got, "-"), "got": got, "why": why}


def reproduce_obs(ctx, binary, path):
    out = ctx.path("one.ndjson")
    ctx.run(binary, ["record-one", path, out])
    return len(judge(ctx, read_ndjson(out), label="Trace_DER[replay]")) > 0


def selftest(ctx, recs):
    """Binding self-test: corrupted observations must be rejected by Trace_DER."""
    import copy
    acc = [r for r in recs if r["acc"] and r["k"] == "int"][:40] + [r for r in recs if r["acc"] and r["k"] == "oid"][:40]
    rej = [r for r in recs if not r["acc"] and r["k"] in ("int", "oid", "bits")][:40]
    if not acc or not rej:
        raise Machinery("selftest: no accepted / rejected observation available")
    bad = []
    for r in acc:
        x = copy.deepcopy(r)
        x["n"] += 1
        bad.append(x)
        y = copy.deepcopy(r)
        if y["k"] == "int":
            y["sign"] = 1 if y["sign"] != 1 else -1
        else:
            y["arcs"] = y["arcs"] + [7]
        bad.append(y)
    rejected = judge(ctx, bad, label="Trace_DER[selftest]")
    if len(rejected) != len(bad):
        raise Machinery("selftest: %d of %d corrupted observations were accepted - Trace_DER constrains too little" %
                        (len(bad) - len(rejected), len(bad)))
    ctx.note("binding self-test passed (%d corrupted observations rejected)" % len(bad))


def replay(ctx, path):
    import os
    path = os.path.abspath(path)
    binary = ctx.gobuild("c19")
    body = json.load(open(path))
    if body.get("case", {}).get("obs"):
        again = reproduce_obs(ctx, binary, path)
    else:
        again = ctx.run(binary, ["replay", path], ok_codes=(0, 1)).returncode == 1
    print("REPRODUCED" if again else "not reproduced")
    return 1 if again else 0
