"""C15 - browser revocation sets (CRLSet, OneCRL, Microsoft disallowed store) parse faithfully and
decide membership exactly (RevSets.tla, RevSetsGen.tla; harness cmd/c15)."""
import re
import shutil
from vlib import read_ndjson, Machinery

META = {
    "technique": "TLA+ model of the abstract revocation set, the three Check rules and the three wire layouts "
                 "as symbolic byte terms (RevSets.tla); TLC enumerates all small sets x query certificates with "
                 "wire term, demanded parse result and demanded Check verdicts; the harness interprets the "
                 "terms with the standard library, parses with zcrypto and compares",
    "text": "RevSets.tla defines, for an abstract set [(issuer, serial) entries, blocked keys, blocked "
            "subject+key], what google.Check / mozilla.Check / microsoft.Check must report, what structure "
            "each parser must deliver, and the well-formed wire layout of each format as a term (fixed-width "
            "little-endian integers, lengths, SHA-256 of a key's SubjectPublicKeyInfo, DER names and "
            "certificates, base64, JSON). RevSetsGen.tla makes TLC enumerate every set up to the bound x "
            "encoding variants x 48-60 query certificates (listed, same issuer other serial, other issuer same "
            "serial, issuer name/key crossing, blocked issuer key, own key blocked, blocked subject+key, "
            "unrelated) and write each with the verdict. The harness turns each term into bytes, confirms with "
            "its own reader that the bytes encode the abstract set, parses with zcrypto, projects the parsed "
            "structure back to abstract ids and runs every Check on real certificates. The functions are pure "
            "and small, so bounded-exhaustive enumeration by the model checker is the appropriate level.",
    "note": "Trusted: TLC, Go's crypto/x509, encoding/json, encoding/base64. google.Check is called the way "
            "verifier.Verify calls it (hex SHA-256 of the issuer SPKI). Left open: CRLSet when only the "
            "certificate's own key is blocked; textual form of parsed BlockedSPKIs; order inside parsed "
            "lists; negative serials; issuer names that differ in DER but not as strings. Malformed "
            "encodings belong to C01.",
}

FORMATS = ("crlset", "onecrl", "sst")


def gen(ctx, fmts, maxentries, nserials, allvariants, tag):
    """One TLC run for the given formats -> {fmt: (ncases, nqueries, queries file, cases file)}."""
    r = ctx.tlc("RevSetsGen", "RevSets_gen.cfg", workers=1, timeout=3000,
                label="RevSetsGen %s entries<=%d serials=%d" % ("+".join(fmts), maxentries, nserials),
                subst={"FORMATS": "{" + ", ".join('"%s"' % f for f in fmts) + "}", "MAXENTRIES": maxentries,
                       "NSERIALS": nserials, "ALLVARIANTS": "TRUE" if allvariants else "FALSE"})
    q = ctx.path("%s_queries.ndjson" % tag)
    shutil.move(ctx.specfile("revsets_queries.ndjson"), q)
    res = {}
    for m in re.finditer(r'<<"CASES", "(\w+)", (\d+), (\d+)>>', r.out):
        f = m.group(1)
        c = ctx.path("%s_%s_cases.ndjson" % (tag, f))
        shutil.move(ctx.specfile("revsets_cases_%s.ndjson" % f), c)
        res[f] = (int(m.group(2)), int(m.group(3)), q, c)
    if set(res) != set(fmts):
        raise Machinery("RevSetsGen wrote cases for %s, wanted %s" % (sorted(res), fmts))
    return res


def run(ctx):
    binary = ctx.gobuild("c15")
    plans = [("a", 2, 3, True)] if ctx.quick else [("a", 4, 3, True), ("b", 3, 4, True)]
    cands = []
    ncases = nchecks = nontriv = 0
    for tag, maxentries, nserials, allv in plans:
        # quick: one TLC run for the three formats; thorough: one per format (smaller heaps)
        groups = [list(FORMATS)] if ctx.quick else [[f] for f in FORMATS]
        generated = {}
        for g in groups:
            generated.update(gen(ctx, g, maxentries, nserials, allv, tag + "".join(x[0] for x in g)))
        for fmt in FORMATS:
            n, nq, qf, cf = generated[fmt]
            if n == 0 or nq == 0:
                raise Machinery("generator produced no cases")
            p = ctx.run(binary, ["replay-gen", qf, cf], timeout=3000)
            c, st = ctx.harness_output(p)
            if st.get("cases") != n:
                raise Machinery("harness judged %s cases, TLC generated %d" % (st.get("cases"), n))
            if st.get("checks", 0) < n:
                raise Machinery("harness ran too few Check calls (%s)" % st.get("checks"))
            cands += c
            ncases += n
            nchecks += st["checks"]
            nontriv += st.get("nontrivial", 0)
            if tag == "a":
                lines = read_ndjson(cf)
                s = lines[len(lines) // 2]
                ctx.add_samples([{"fmt": s["fmt"], "set": s["set"], "var": s["var"], "parsed": s["parsed"],
                                  "checks": s["checks"]}], n=3)
    ctx.cov["evaluations"] += ncases + nchecks
    ctx.cov["distinct_nontrivial"] += nontriv
    ctx.cov["traces_validated_against_impl"] += ncases
    ctx.cov["sets_encoded_and_parsed"] = ncases
    ctx.cov["check_calls_judged"] = nchecks
    ctx.cov["exhaustive"] = True
    ctx.cov["rule"] = ("TLC-enumerated revocation sets (RevSetsGen.tla): every entry list up to the bound over "
                       "2 issuers x NSerials serials x blocked-key options x encoding variants, per wire format; "
                       "each encoded from the specification's term, parsed by zcrypto, the parsed structure "
                       "compared and every query certificate checked (CRLSet additionally on a directly "
                       "constructed CRLSet value). Non-trivial = the set is not empty. evaluations = sets + "
                       "Check calls judged (left-open verdicts are not counted). Plus seeded random sets of up "
                       "to 40 entries / 5 issuers / 1-20 octet serials with 24 random queries each, evaluated by "
                       "TLC (RevSetsRand.tla) and judged the same way.")
    ctx.candidates(binary, cands)

    # second direction: seeded random large sets drawn by the harness (abstract records only); TLC
    # computes wire term, demanded parse result and verdicts (RevSetsRand.tla); same judging
    nmod = 150 if ctx.quick else 6000
    mf = ctx.specfile("revsets_models.ndjson")
    ctx.run(binary, ["models", mf, str(nmod)], timeout=600)
    r = ctx.tlc("RevSetsRand", "RevSets_rand.cfg", workers=1, timeout=3000, label="RevSetsRand[%d models]" % nmod)
    m = re.search(r'<<"CASES", (\d+)>>', r.out)
    if not m or int(m.group(1)) != nmod:
        raise Machinery("RevSetsRand did not evaluate all models")
    cf = ctx.path("rand_cases.ndjson")
    shutil.move(ctx.specfile("revsets_cases.ndjson"), cf)
    p = ctx.run(binary, ["replay-gen", "-", cf], timeout=3000)
    c, st = ctx.harness_output(p)
    if st.get("cases") != nmod or st.get("checks", 0) < nmod:
        raise Machinery("harness judged %s random sets / %s checks" % (st.get("cases"), st.get("checks")))
    ctx.cov["evaluations"] += nmod + st["checks"]
    ctx.cov["traces_validated_against_impl"] += nmod
    ctx.cov["random_sets"] = nmod
    ctx.cov["random_set_checks"] = st["checks"]
    ctx.candidates(binary, c)


def replay(ctx, path):
    binary = ctx.gobuild("c15")
    again = ctx.run(binary, ["replay", path], ok_codes=(0, 1)).returncode == 1
    print("REPRODUCED" if again else "not reproduced")
    return 1 if again else 0
