"""C26 - TLS key derivation matches the RFC definitions (Terms.tla, TLSKDF.tla, TLSKDFGen.tla,
TLSKDFVal.tla; harness cmd/c26, lib/term)."""
import json
import re
from vlib import Machinery

META = {
    "technique": "TLA+ term-algebra specification of the TLS key derivations (RFC 2246/5246 PRFs, master secret, key block, Finished, RFC 5705 exporter, RFC 8446 HKDF-Expand-Label / Derive-Secret / traffic keys / Finished / exporter) with HMAC and hashes as uninterpreted symbols; TLC enumerates the parameter boundary classes and emits the demanded term per case; the terms are evaluated with the Go standard library and compared with the exported zcrypto functions; random parameter records are mapped through the same operators by TLC",
    "text": "Every RFC formula is transcribed once as an operator over symbolic byte-string terms (P_hash chaining and truncation, the PRF10 secret split and MD5/SHA-1 xor, the per-suite PRF hash, label and seed order, key-block partition order, HkdfLabel layout). TLC enumerates output lengths 0,1,h-1,h,h+1,2h,2h+1,48,512 for every hash size, secret lengths around the split and HMAC block sizes, every implemented suite and protocol version, context/label classes, and (thorough tier) every output length 0..512; each case is evaluated on seeded secrets by an evaluator that uses only crypto/hmac and the crypto/* hashes and compared byte-for-byte with zcrypto. Bounded-exhaustive over the abstract classes, sampled inside a class (concrete secrets); that suits pure functions whose risk is structural.",
    "note": "Trusted: TLC, the Go standard library's HMAC/MD5/SHA-1/SHA-2 (symbol interpretation), the hook file tls/verif_tlsfunc.go (thin wrappers). Not covered: RFC 7627 extended-master-secret derivation - zcrypto has no such code (only the extension flag), so there is nothing to bind. Concrete secrets are seeded samples.",
}

ALL_FAMILIES = ["phash", "prf10", "prf12", "prfver", "master", "keyblock", "finished", "sched13",
                "ekm", "expandlabel", "exporter13"]


def tla_set(items):
    return "{" + ", ".join('"%s"' % i for i in items) + "}"


def gen(ctx, fams, deep, full, out, seqout="kdf_seq_unused.ndjson"):
    r = ctx.tlc("TLSKDFGen", "TLSKDF_gen.cfg",
                subst={"FAMILIES": tla_set(fams), "DEEP": "TRUE" if deep else "FALSE",
                       "FULL": "TRUE" if full else "FALSE", "OUT": out, "SEQOUT": seqout},
                workers=1, timeout=3000,
                label="TLSKDFGen %s%s%s" % ("+".join(fams) if len(fams) < 4 else "all", " deep" if deep else "",
                                            " full" if full else ""))
    m = re.search(r'<<"CASES", (\d+)>>', r.out)
    if not m or int(m.group(1)) == 0:
        raise Machinery("TLSKDFGen produced no cases for %s" % fams)
    if "seq" in fams:
        ms = re.search(r'<<"SEQCASES", (\d+)>>', r.out)
        if not ms or int(ms.group(1)) == 0:
            raise Machinery("TLSKDFGen produced no use-after-mutation programs")
        ctx.cov["use_after_mutation_programs"] = int(ms.group(1))
    return int(m.group(1))


def run(ctx):
    binary = ctx.gobuild("c26")

    # the suite table of the specification vs the tree's (coverage statement, not a verdict)
    p = ctx.run(binary, ["suites"])
    _, st = ctx.harness_output(p)
    spec_ids = set(int(x) for x in re.findall(r"^\s*S\((\d+),", open(ctx.specfile("TLSKDF.tla")).read(), re.M))
    real_ids = set(st.get("suites", []))
    if not real_ids:
        raise Machinery("harness reported no implemented suites")
    if real_ids - spec_ids:
        ctx.note("suites implemented but absent from TLSKDF.tla's table (not checked per suite): %s"
                 % sorted(real_ids - spec_ids))
    if spec_ids - real_ids:
        ctx.note("suites of TLSKDF.tla's table not implemented in this tree (skipped): %s" % sorted(spec_ids - real_ids))
    if set(st.get("suites13", [])) != {4865, 4866, 4867}:
        ctx.note("TLS 1.3 suite set differs from the specification's: %s" % st.get("suites13"))

    # U2: boundary classes, spec -> code
    files = []
    total = 0
    if ctx.quick:
        # one TLC process: the 512-byte outputs are combined with the main classes only
        total += gen(ctx, ALL_FAMILIES + ["seq"], False, False, "kdf_cases_0.ndjson", "kdf_seq.ndjson")
        files.append(ctx.specfile("kdf_cases_0.ndjson"))
    else:
        for i, fams in enumerate([ALL_FAMILIES[:8] + ["seq"], ["ekm"], ["expandlabel"], ["exporter13"]]):
            out = "kdf_cases_%d.ndjson" % i
            total += gen(ctx, fams, False, True, out, "kdf_seq.ndjson")          # full product of the classes
            files.append(ctx.specfile(out))
        for i, fams in enumerate([["phash"], ["prf10"], ["prf12"], ["expandlabel"], ["ekm"]]):
            out = "kdf_deep_%d.ndjson" % i
            total += gen(ctx, fams, True, True, out)           # every output length 0..512
            files.append(ctx.specfile(out))
    cands, evals, nontriv = replay_files(ctx, binary, files, total)

    # use-after-mutation programs (TLSKDFSeq.tla): create ; the caller mutates what it owns ; use
    p = ctx.run(binary, ["replay-seq", ctx.specfile("kdf_seq.ndjson")], timeout=3000)
    c1, st = ctx.harness_output(p)
    if st.get("programs", 0) != ctx.cov.get("use_after_mutation_programs") or st.get("evaluations", 0) == 0:
        raise Machinery("harness ran %s use-after-mutation programs, TLC generated %s"
                        % (st.get("programs"), ctx.cov.get("use_after_mutation_programs")))
    cands += c1
    evals += st.get("evaluations", 0)
    ctx.cov["use_after_mutation_per_fn"] = st.get("per_fn", {})

    # U3: random parameters (code side chooses), judged through the same operators
    nrand = 400 if ctx.quick else 6000
    params = ctx.specfile("kdf_params.ndjson")
    ctx.run(binary, ["gen-params", params, str(nrand)])
    # end-to-end: real handshakes; their parameters go through the same TLC run
    e2e_params, e2e_obs = ctx.path("e2e_params.ndjson"), ctx.path("e2e_obs.ndjson")
    p = ctx.run(binary, ["e2e-run", e2e_params, e2e_obs], timeout=1200)
    _, st = ctx.harness_output(p)
    nhs = st.get("handshakes", 0)
    if nhs == 0:
        raise Machinery("no end-to-end handshake was recorded")
    with open(params, "a") as f:
        f.write(open(e2e_params).read())
    nrand += nhs
    r = ctx.tlc("TLSKDFVal", "TLSKDF_val.cfg", subst={"IN": "kdf_params.ndjson", "OUT": "kdf_val.ndjson"},
                workers=1, timeout=3000, label="TLSKDFVal %d params" % nrand)
    m = re.search(r'<<"CASES", (\d+), "OUTSIDE", (\d+)>>', r.out)
    if not m:
        raise Machinery("TLSKDFVal printed no summary")
    inside, outside = int(m.group(1)), int(m.group(2))
    if inside < nrand // 2:
        raise Machinery("only %d of %d random parameter records lie in the specification's domain" % (inside, nrand))
    if outside:
        ctx.note("%d random parameter records outside the specification's domain (not judged)" % outside)
    c2, e2, n2 = replay_files(ctx, binary, [ctx.specfile("kdf_val.ndjson")], inside - nhs)
    cands += c2
    p = ctx.run(binary, ["e2e-check", ctx.specfile("kdf_val.ndjson"), e2e_obs], timeout=1200)
    c3, st = ctx.harness_output(p)
    if st.get("handshakes_judged") != nhs:
        raise Machinery("%s of %d recorded handshakes judged" % (st.get("handshakes_judged"), nhs))
    cands += c3
    e2 += st.get("values_compared", 0)
    ctx.cov["end_to_end_handshakes"] = nhs
    ctx.cov["evaluations"] += evals + e2
    ctx.cov["distinct_nontrivial"] += nontriv + n2
    ctx.cov["traces_validated_against_impl"] += total + inside
    ctx.cov["exhaustive"] = True
    ctx.cov["rule"] = ("cases = parameter records (function, version, suite, hash, label/secret/seed/context lengths, "
                       "output length, transcript piece lengths) enumerated by TLC over the boundary classes of "
                       "TLSKDFGen.tla%s plus %d seeded random records mapped by TLSKDFVal.tla; every case is evaluated "
                       "on 2-3 seeded secret assignments; non-trivial = distinct parameter record with non-empty "
                       "output and no demanded refusal" % (" and every output length 0..512 for the core PRFs"
                                                           if ctx.thorough else "", nrand))
    ctx.candidates(binary, cands)


def replay_files(ctx, binary, files, expected):
    p = ctx.run(binary, ["replay-gen"] + files, timeout=3000)
    cands, st = ctx.harness_output(p)
    if st.get("cases", 0) != expected:
        raise Machinery("harness replayed %s cases, TLC generated %d" % (st.get("cases"), expected))
    if st.get("evaluations", 0) == 0:
        raise Machinery("harness evaluated nothing")
    if st.get("skipped_unimplemented_suite"):
        ctx.note("%d cases skipped: suite not implemented in this tree" % st["skipped_unimplemented_suite"])
    if not ctx.cov["samples"]:
        with open(files[0]) as f:
            line = f.readline()
        c = json.loads(line)
        ctx.add_samples([{"p": c["p"], "err": c["err"], "out_terms": len(c["out"])}], n=1)
    ctx.cov.setdefault("per_fn", {})
    for k, v in st.get("per_fn", {}).items():
        ctx.cov["per_fn"][k] = ctx.cov["per_fn"].get(k, 0) + v
    return cands, st.get("evaluations", 0), st.get("nontrivial", 0)


def replay(ctx, path):
    binary = ctx.gobuild("c26")
    again = ctx.run(binary, ["replay", path], ok_codes=(0, 1)).returncode == 1
    print("REPRODUCED" if again else "not reproduced")
    return 1 if again else 0
