"""C30 - TLS handshake messages and session states round-trip and reject truncation
(TLSWire.tla, TLSWireCheck.tla, TLSWireVal.tla; harness cmd/c30)."""
import json
import os
import re
from vlib import Machinery, read_ndjson, write_ndjson

META = {
    "technique": "TLA+ grammar specification of every TLS handshake message and both session-state encodings with generic Layout / Parse interpreters; TLC checks Parse(Layout(v)) = v and grammar-level prefix-freeness on the specification itself, generates values over field classes (absent / empty / one / several / maximal, integer extremes) with the demanded bytes; each value is marshalled, unmarshalled and truncated at every cut point with the real codecs, and real encodings that differ from the demanded bytes are judged by the specification's parser in TLC",
    "text": "The wire grammar of each message is written once (RFC 5246/5077/6066/7301/6962/7627/5746/8446 field by field) and interpreted in both directions by TLC, which proves on the specification that parsing a layout returns the value for every generated value and determines which message types are prefix-free (so the truncation claim is applied exactly where the statement makes it). The generated values (every field class alone, pairs of classes, and an everything-present base for the hellos; maximal lengths at the 2^8/2^16 boundaries) are replayed through the real marshal/unmarshal: round trip, every strict prefix (all cut points) for prefix-free types, and agreement with the demanded bytes (judged by TLC's parser when the bytes differ). Bounded-exhaustive over field classes; byte contents inside a class are fixed patterns.",
    "note": "Trusted: TLC, the hook file tls/verif_tlsfunc.go (reflection accessors). Fields that are not part of the encoding (raw, serverKeyExchangeMsg.digest, clientHelloMsg.sctEnabled/unknownExtensions, sessionState.usedOldKey) are outside the abstract value. Values the RFC grammars cannot express (vectors beyond their length prefix, below their minimum) are outside the domain. The truncation claim is not applied to ClientHello/ServerHello (optional extension block) and to the opaque-bodied ServerKeyExchange/ClientKeyExchange/Finished.",
}

TYPES = ["clientHelloMsg", "serverHelloMsg", "encryptedExtensionsMsg", "endOfEarlyDataMsg", "serverHelloDoneMsg",
         "helloRequestMsg", "keyUpdateMsg", "newSessionTicketMsgTLS13", "certificateRequestMsgTLS13",
         "certificateMsg", "certificateMsgTLS13", "serverKeyExchangeMsg", "certificateStatusMsg",
         "clientKeyExchangeMsg", "finishedMsg", "certificateRequestMsg_12", "certificateRequestMsg_10",
         "certificateVerifyMsg_12", "certificateVerifyMsg_10", "newSessionTicketMsg", "sessionState",
         "sessionStateTLS13"]
EXPECT_NOT_PF = {"clientHelloMsg", "serverHelloMsg"}     # the types with an optional tail


def tla_set(items):
    return "{" + ", ".join('"%s"' % i for i in items) + "}"


def run(ctx):
    binary = ctx.gobuild("c30")
    pair_types = [t for t in TYPES if ctx.thorough or t not in ("clientHelloMsg", "serverHelloMsg")]
    r = ctx.tlc("TLSWireCheck", "TLSWire_check.cfg",
                subst={"TYPES": tla_set(TYPES), "PAIRS": tla_set(pair_types), "OUT": "wire_"},
                timeout=3000, label="TLSWireCheck %d types" % len(TYPES))
    summ = {}
    for line in r.out.splitlines():
        if line.startswith('"{') and "wire" in line:
            d = json.loads(json.loads(line))
            summ[d["wire"]] = d
    if set(summ) != set(TYPES):
        raise Machinery("TLSWireCheck did not report every type: missing %s" % sorted(set(TYPES) - set(summ)))
    total = sum(d["values"] for d in summ.values())
    for t, d in summ.items():
        if d["values"] == 0 or d["small"] == 0:
            raise Machinery("no values generated for %s" % t)
        if d["pf"] != (t not in EXPECT_NOT_PF):
            raise Machinery("prefix-freeness of %s is %s" % (t, d["pf"]))
    ctx.cov["spec_checks"] = {"round_trip_values": total,
                              "prefix_free_types": sorted(t for t, d in summ.items() if d["pf"]),
                              "not_prefix_free_types": sorted(t for t, d in summ.items() if not d["pf"])}
    files = [ctx.specfile("wire_%s.ndjson" % t) for t in TYPES]
    obs = ctx.specfile("wire_obs.ndjson")
    p = ctx.run(binary, ["replay-gen", obs] + files, timeout=3000)
    cands, st = ctx.harness_output(p)
    if st.get("cases", 0) != total:
        raise Machinery("harness replayed %s cases, TLC generated %d" % (st.get("cases"), total))
    if st.get("prefixes_tested", 0) == 0:
        raise Machinery("no prefix was tested")
    ctx.cov["evaluations"] += total + st.get("prefixes_tested", 0)
    ctx.cov["distinct_nontrivial"] += st.get("nontrivial", 0)
    ctx.cov["traces_validated_against_impl"] += total
    ctx.cov["exhaustive"] = True
    ctx.cov["per_type"] = st.get("per_type", {})
    ctx.cov["prefixes_tested"] = st.get("prefixes_tested", 0)
    ctx.cov["rule"] = ("values = per message type the base value, every single field-class variant, "
                       "pairs of variants%s, and (hellos) every variant on an all-extensions base, kept iff the "
                       "RFC grammar can express them; each value is marshalled/unmarshalled by the real code and cut at "
                       "EVERY strict prefix for the prefix-free types; non-trivial = encoding longer than 8 bytes"
                       % ("" if ctx.thorough else " (not for the hellos in the quick tier)"))
    with open(files[0]) as f:
        c = json.loads(f.readline())
    ctx.add_samples([{"t": c["t"], "fields": sorted(c["v"].keys())[:8], "encoded_bytes": len(c["bytes"])}], n=1)
    ctx.candidates(binary, cands)

    # real encodings that are not byte-identical to the demanded layout: the specification's parser decides
    differing = read_ndjson(obs)
    ctx.cov["marshal_differs_from_spec_layout"] = len(differing)
    if differing:
        rejected = judge(ctx, differing)
        lc = []
        for i, flds in rejected:
            o = differing[i]
            if o["t"] in ("sessionState", "sessionStateTLS13"):
                # internal ticket format: a consistent change of layout is drift of the model, not a violation
                print("MODEL-DRIFT property=C30 %s is no longer laid out as tls/ticket.go documents (fields %s)"
                      % (o["t"], ",".join(sorted(flds))), flush=True)
                ctx.note("model drift: %s layout differs from TLSWire.tla (fields %s)" % (o["t"], sorted(flds)))
                continue
            first = next((k for k in range(min(len(o["bytes"]), len(o["spec"]))) if o["bytes"][k] != o["spec"][k]),
                         min(len(o["bytes"]), len(o["spec"])))
            lc.append({"sig": {"t": o["t"], "kind": "layout", "field": ",".join(sorted(flds))},
                       "what": "%s.marshal produces %d bytes that the RFC grammar does not read back as the value "
                               "(demanded %d bytes; first difference at offset %d)"
                               % (o["t"], len(o["bytes"]), len(o["spec"]), first),
                       "case": {"t": o["t"], "v": o["v"], "bytes": o["spec"], "pf": o["pf"], "kind": "layout"}})
        ctx.candidates(binary, lc, reproduce=lambda path, body: reproduce_layout(ctx, binary, path))
    if ctx.thorough:
        selftest(ctx, files)


def judge(ctx, observations):
    """Run TLSWireVal on observations; return [(index (0-based), differing fields)] of rejected records."""
    write_ndjson(ctx.specfile("wire_judge.ndjson"),
                 [{"t": o["t"], "v": o["v"], "bytes": o["bytes"]} for o in observations])
    r = ctx.tlc("TLSWireVal", "TLSWire_val.cfg", subst={"IN": "wire_judge.ndjson"}, workers=1, timeout=3000,
                label="TLSWireVal %d encodings" % len(observations))
    m = re.search(r'<<"JUDGED", (\d+)>>', r.out)
    if not m or int(m.group(1)) != len(observations):
        raise Machinery("TLSWireVal judged %s of %d records" % (m.group(1) if m else None, len(observations)))
    res = []
    for line in r.out.splitlines():
        if line.startswith('"{') and "reject" in line:
            d = json.loads(json.loads(line))
            res.append((d["reject"] - 1, d["fields"]))
    return sorted(res)


def reproduce_layout(ctx, binary, path):
    out = ctx.path("one_obs.ndjson")
    ctx.run(binary, ["marshal-one", path, out])
    return len(judge(ctx, read_ndjson(out))) > 0


def selftest(ctx, files):
    """Binding self-test of the observation judge: a corrupted real encoding and a wrong value must be rejected."""
    c = None
    with open(files[TYPES.index("newSessionTicketMsgTLS13")]) as f:
        for line in f:
            c = json.loads(line)
            if len(c["bytes"]) < 200:
                break
    bad1 = {"t": c["t"], "v": c["v"], "bytes": c["bytes"][:-1] + [(c["bytes"][-1] + 1) % 256]}
    v2 = dict(c["v"])
    v2["ageAdd"] = [(x + 1) % 256 for x in v2["ageAdd"]]
    bad2 = {"t": c["t"], "v": v2, "bytes": c["bytes"]}
    good = {"t": c["t"], "v": c["v"], "bytes": c["bytes"]}
    rej = judge(ctx, [bad1, good, bad2])
    if [i for i, _ in rej] != [0, 2]:
        raise Machinery("selftest: judge rejected %s, expected [0, 2]" % rej)
    ctx.note("binding self-test passed (corrupted encoding and altered value rejected, intact one accepted)")


def replay(ctx, path):
    binary = ctx.gobuild("c30")
    body = json.load(open(path))
    if body.get("case", {}).get("kind") == "layout":
        again = reproduce_layout(ctx, binary, path)
    else:
        again = ctx.run(binary, ["replay", path], ok_codes=(0, 1)).returncode == 1
    print("REPRODUCED" if again else "not reproduced")
    return 1 if again else 0
