"""C06 - certificate metadata is a faithful function of the DER bytes (Issuance.tla: MetaTerms,
MetaOK, PairOK, StripCT; IssuanceGen.tla groups meta/metaquick; Trace_Issuance.tla kinds
meta/metapair; harness cmd/c06, lib/iss/meta.go)."""
import json
import os

from vlib import Machinery, read_ndjson
import props.iss_common as ic

META = {
    "technique": "TLA+ map metadata field -> symbolic term over the DER sub-encodings (Issuance.tla MetaTerms: part / cat / hash / tbsNoCT), exported by TLC and interpreted by the harness with the standard library only (encoding/asn1 slicing, crypto/* hashes); TLC enumerates every placement of the CT poison / SCT-list extensions in every extension list up to the bound x every way of signing, checks the deletion law on the abstract lists, and judges the observations recorded from the real ParseCertificate (MetaOK, PairOK)",
    "text": "For every enumerated CT placement case two real certificates (with / without the CT extensions) are built with the standard library, parsed by zcrypto, and TLC judges: Raw* = the exact sub-encodings, every fingerprint = the named hash of the named bytes, Version = encoded+1, SelfSigned <=> issuer = subject and the signature verifies under the certificate's own key (verdict of the standard library), FingerprintNoCT equal in both certificates. The same per-certificate oracle is applied to certificates created by zcrypto from random templates, to seeded byte mutations of them that zcrypto still accepts, and to the certificates shipped in the repository. Bounded-exhaustive over placements, sampled over certificates.",
    "note": "Trusted: TLC, the Go toolchain, crypto/* and encoding/asn1 of the standard library (slicing and ideal signature verification). FingerprintNoCT is required to be the SHA-256 of the TBS with the CT extensions cut out, where an extension list that becomes empty may be dropped or kept as an explicit empty list (both allowed; the statement only demands invariance, which is judged on the pairs). SelfSigned is not judged where the standard library cannot give a verdict (certificate it does not parse, MD5/SHA-1 signatures). ValidityPeriod is judged only where the difference fits 31 bits. IsPrecert is logged, not judged.",
}

TR = ("Trace_Issuance", "Issuance_trace.cfg")


def reproduce(ctx, binary, terms, path, kind):
    out = ctx.path("one.ndjson")
    ctx.run(binary, ["one", terms, path, out])
    rej = ic.tlc_judge(ctx, TR[0], TR[1], kind, read_ndjson(out), label="re-judge one %s record" % kind)
    return len(rej) > 0


def run(ctx):
    quick = ctx.quick
    binary = ctx.gobuild("c06")

    # U2 (+ the law checked by TLC on the abstract lists): CT placement cases and the term map
    group = "metaquick" if quick else "meta"
    cases, n = ic.gen_cases(ctx, "IssuanceGen", "Issuance_gen.cfg", {"GROUP": group, "PART": 0, "PARTS": 1},
                            "ctcases.ndjson", "IssuanceGen %s" % group)
    terms = ctx.path("terms.json")
    os.replace(ctx.specfile("iss_meta_terms.json"), terms)
    ctx.add_samples([{"metadata_terms": json.load(open(terms))}], n=1)

    out = ctx.path("pairs.ndjson")
    p = ctx.run(binary, ["pairs", terms, cases, out], timeout=3000)
    cands, st = ctx.harness_output(p)
    pairs = read_ndjson(out)
    if st.get("cases") != n or len(pairs) + st.get("rejected", 0) != n:
        raise Machinery("harness observed %d of %d CT cases" % (len(pairs), n))
    if st.get("rejected", 0):
        raise Machinery("%d certificates with CT extensions were not accepted by ParseCertificate - nothing to judge" % st["rejected"])
    # all three kinds of observation (pairs, relation cases, single certificates) are judged together below
    ctx.cov["evaluations"] += len(pairs)
    ctx.cov["distinct_nontrivial"] += sum(1 for r in pairs if len(r["c"]["base"]) > 0)
    ctx.cov["exhaustive"] = True
    ctx.cov["ct_cases"] = n
    ctx.cov["rule"] = ("every extension list without repetition up to length %d over %s kinds x every insertion position of "
                       "{poison, SCT list, empty SCT list, poison+SCT list} x {self-signed, self-issued with a foreign signature, "
                       "issued}: two real certificates per case; non-trivial = the certificate has at least one non-CT extension; "
                       "plus created / mutated / repository certificates judged one by one" % ((3, 3) if quick else (4, 5)))
    # SelfSigned: issuer/subject relation x own signature x key type (TLC-enumerated, judged by RelOK)
    relcases = ctx.path("relcases.ndjson")
    os.replace(ctx.specfile("iss_rel_cases.ndjson"), relcases)
    nrel = sum(1 for _ in open(relcases))
    out_r = ctx.path("rels.ndjson")
    p = ctx.run(binary, ["rels", terms, relcases, out_r], timeout=1500)
    _, st_r = ctx.harness_output(p)
    rels = read_ndjson(out_r)
    if nrel == 0 or st_r.get("cases") != nrel or len(rels) != nrel:
        raise Machinery("relation cases: %s of %d observed" % (len(rels), nrel))
    ctx.cov["evaluations"] += len(rels)
    ctx.cov["distinct_nontrivial"] += sum(1 for r in rels if r["c"]["rel"] != "identical")
    ctx.cov["name_relation_cases"] = nrel
    # U3: created / mutated / repository certificates, one observation each, judged by MetaOK
    ncreate = 250 if quick else 2500
    out2 = ctx.path("corpus.ndjson")
    p = ctx.run(binary, ["corpus", terms, out2, str(ncreate)], timeout=3000)
    _, st2 = ctx.harness_output(p)
    recs = read_ndjson(out2)
    if not recs or st2.get("created", 0) < ncreate // 2:
        raise Machinery("corpus too small: %s" % st2)
    if st2.get("mutated_accepted", 0) == 0 or st2.get("repo_accepted", 0) == 0:
        raise Machinery("no mutated or no repository certificate was accepted: %s" % st2)
    if st2.get("own_signature", {}).get("yes", 0) == 0 or st2.get("own_signature", {}).get("no", 0) == 0:
        raise Machinery("self-signature oracle never said yes / no: %s" % st2)
    allobs = pairs + rels + recs
    rej, rej_r, rej2 = [], [], []
    for a in range(0, len(allobs), 4000):
        part = allobs[a:a + 4000]
        for (i, bad, _) in ic.tlc_judge(ctx, TR[0], TR[1], "metamixed", part, label="Trace_Issuance pairs/relations/certificates [%d]" % len(part)):
            j = a + i
            if j < len(pairs):
                rej.append((j, bad))
            elif j < len(pairs) + len(rels):
                rej_r.append((j - len(pairs), bad))
            else:
                rej2.append((j - len(pairs) - len(rels), bad))
    ctx.cov["traces_validated_against_impl"] += len(allobs) - len(rej) - len(rej_r) - len(rej2)
    cands = []
    for (i, bad) in rej:
        c = pairs[i]["c"]
        cands.append({"sig": {"obj": "ctpair", "fields": ",".join(bad), "sign": c["sign"], "base_empty": len(c["base"]) == 0,
                              "both_ct": "poison" in c["ct"] and ("sct" in c["ct"] or "sct0" in c["ct"])},
                      "what": "CT placement case %s rejected by PairOK: %s" % (json.dumps(c), bad), "case": {"c": c}})
    for (i, bad) in rej_r:
        c = rels[i]["c"]
        cands.append({"sig": {"obj": "namerel", "rel": c["rel"], "own": c["own"], "fields": ",".join(bad)},
                      "what": "issuer/subject relation case %s rejected by RelOK: %s (SelfSigned=%s)" % (json.dumps(c), bad, rels[i]["o"]["selfSigned"]),
                      "case": {"relcase": c}})
    ctx.cov["evaluations"] += len(recs)
    ctx.cov["distinct_nontrivial"] += st2.get("mutated_accepted", 0) + st2.get("repo_accepted", 0)
    ctx.cov["corpus"] = {k: st2.get(k) for k in ("created", "mutated", "mutated_accepted", "repo_certs", "repo_accepted",
                                                 "slice_failed", "self_signed", "own_signature")}
    mc = cands
    for (i, bad) in rej2:
        r = recs[i]
        src = r["src"].split(":")[0]
        mc.append({"sig": {"obj": "cert-meta", "fields": ",".join(bad), "src": src, "canonical": r["canonical"]},
                   "what": "metadata of a %s certificate rejected by MetaOK: %s" % (r["src"], bad),
                   "case": {"der": r["der"], "canonical": r["canonical"], "src": r["src"]}})
    ic.val_candidates(ctx, mc, lambda rp, out: ctx.run(binary, ["one", terms, rp, out]), TR[0], TR[1], "metamixed")

    if not quick:
        import copy
        rec = copy.deepcopy(recs[0])
        rec["eq"]["TBSCertificateFingerprint"] = False
        if not ic.tlc_judge(ctx, TR[0], TR[1], "meta", [rec], label="selftest fingerprint"):
            raise Machinery("selftest: a wrong fingerprint was accepted")
        rec = copy.deepcopy(pairs[-1])
        rec["noctEqual"] = False
        if not ic.tlc_judge(ctx, TR[0], TR[1], "metapair", [rec], label="selftest noct"):
            raise Machinery("selftest: a changed no-CT fingerprint was accepted")
        rec = copy.deepcopy(next(r for r in rels if r["c"]["rel"] == "string-type" and r["c"]["own"]))
        rec["o"]["selfSigned"] = True
        if not ic.tlc_judge(ctx, TR[0], TR[1], "metarel", [rec], label="selftest relation"):
            raise Machinery("selftest: SelfSigned on names that only look alike was accepted")
        ctx.note("binding self-test passed (corrupted observations rejected)")


def replay(ctx, path):
    binary = ctx.gobuild("c06")
    _, n = ic.gen_cases(ctx, "IssuanceGen", "Issuance_gen.cfg", {"GROUP": "metaquick", "PART": 0, "PARTS": 1},
                        "ctcases.ndjson", "IssuanceGen metaquick (terms)")
    terms = ctx.path("terms.json")
    os.replace(ctx.specfile("iss_meta_terms.json"), terms)
    body = json.load(open(path))
    case = body.get("case", {})
    kind = "metarel" if case.get("relcase") else ("metapair" if case.get("c") else "meta")
    again = reproduce(ctx, binary, terms, path, kind)
    print("REPRODUCED" if again else "not reproduced")
    return 1 if again else 0
