"""C14 - CRL revocation lookup reports exactly the listed serials (CRL.tla, CRLGen.tla,
Trace_CRL.tla; harness cmd/c14)."""
import json
import re
import shutil
from vlib import read_ndjson, write_ndjson, Machinery

META = {
    "technique": "TLA+ transcription of the lookup / cache / list-data rules (CRL.tla); TLC enumerates all "
                 "small CRLs x query serials with the demanded result, each replayed on CheckCRLForCert "
                 "(linear and cached); TLC judges observations recorded on large random CRLs",
    "text": "CRL.tla defines Lookup (first matching entry), CachedAllowed (what a cache built from the same "
            "entries may report), Meta (issuer, update times, CRL number, classification of the other "
            "extensions) over serial numbers represented as DER content octets. CRLGen.tla makes TLC "
            "enumerate every entry list up to the bound over a universe of colliding-by-design serials "
            "(10/16, 1/-1, 0/2^64, 255/-1, 2^158, -2^64, 2^159, -2^159) x every query, plus all orderings of "
            "an extension menu, and write each case with the result the specification demands; the harness "
            "encodes the CRL with Go's standard library, parses it with zcrypto, runs both paths of "
            "CheckCRLForCert on a real query certificate and compares. In the other direction seeded random "
            "CRLs with hundreds of entries are run on the real code and TLC evaluates the same operators "
            "on every recorded observation. Exhaustive over the small abstract space, sampled beyond it; "
            "the function is pure, so this is the appropriate level.",
    "note": "Trusted: TLC, Go's encoding/asn1 and crypto/x509 (CRL and certificate construction). The cache "
            "is built as zcrypto's own test builds it (map keyed by SerialNumber.String()). Left open: which "
            "duplicate's time the cache reports when duplicates differ; RevocationTime of non-revoked "
            "certificates; CRL numbers wider than 8 octets (result type is int); CRLs without a number; "
            "order inside the unknown-extension lists. Malformed CRLs belong to C01.",
}

GEN_FILES = ("crl_universe.ndjson", "crl_lookup.ndjson", "crl_meta.ndjson")


def gen(ctx, label, maxlen, usize, maxext, metaonly=False, lemmalen=2, maxlenb=0, usizeb=0):
    r = ctx.tlc("CRLGen", "CRL_gen.cfg", workers=1, timeout=3000, label="CRLGen " + label,
                subst={"MAXLEN": maxlen, "USIZE": usize, "MAXLENB": maxlenb, "USIZEB": usizeb, "TIMES": "{100, 200}", "MAXEXT": maxext,
                       "LEMMALEN": lemmalen, "METAONLY": "TRUE" if metaonly else "FALSE"})
    m = re.search(r'<<"CASES", (\d+), (\d+)>>', r.out)
    if not m:
        raise Machinery("CRLGen printed no case count")
    files = []
    for f in GEN_FILES:
        if metaonly and f == "crl_lookup.ndjson":
            files.append("-")
            continue
        dst = ctx.path("%s_%s" % (label, f))
        shutil.move(ctx.specfile(f), dst)
        files.append(dst)
    return int(m.group(1)), int(m.group(2)), files


def run(ctx):
    binary = ctx.gobuild("c14")
    if ctx.quick:
        # one TLC run: lists <= 3 over 6 serials and lists <= 2 over the whole universe
        plans = [("a", 3, 6, 3, False, 2, 12)]
        rec = (30, 400, 40)
    else:
        plans = [("a", 3, 12, 4, False, 0, 0), ("b", 4, 7, 0, False, 0, 0)]
        rec = (150, 1000, 60)
    cands = []
    nl = nm = nontriv = 0
    for label, maxlen, usize, maxext, mo, maxlenb, usizeb in plans:
        l, m, files = gen(ctx, label, maxlen, usize, maxext, mo, lemmalen=min(maxlen, 3), maxlenb=maxlenb, usizeb=usizeb)
        if l == 0 or m == 0:
            raise Machinery("generator produced no cases")
        p = ctx.run(binary, ["replay-gen"] + files, timeout=3000)
        c, st = ctx.harness_output(p)
        if st.get("lookup_cases") != l or st.get("meta_cases") != m:
            raise Machinery("harness replayed %s/%s cases, TLC generated %d/%d" %
                            (st.get("lookup_cases"), st.get("meta_cases"), l, m))
        cands += c
        nl += l
        nm += m
        nontriv += st.get("nontrivial", 0)
        if label == "a":
            lines = read_ndjson(files[1])
            ctx.add_samples([lines[len(lines) // 2]], n=1)
            lines = read_ndjson(files[2])
            ctx.add_samples([lines[len(lines) // 2]], n=2)
    ctx.cov["evaluations"] += nl + nm
    ctx.cov["distinct_nontrivial"] += nontriv
    ctx.cov["traces_validated_against_impl"] += nl + nm
    ctx.cov["exhaustive"] = True
    ctx.cov["lookup_cases"] = nl
    ctx.cov["meta_cases"] = nm
    ctx.cov["rule"] = ("TLC-enumerated cases (CRLGen.tla): every entry list up to the bound over the serial "
                       "universe x 2 times x every query serial, and every ordering of up to MaxExt extensions "
                       "with a CRL number in every position; each replayed on both paths of CheckCRLForCert. "
                       "Non-trivial = at least two entries (lookup) or at least one extension (list data). "
                       "Plus observations on seeded random CRLs judged by TLC (Trace_CRL.tla).")
    ctx.candidates(binary, cands)

    # U3: random large CRLs on the real code, judged by TLC
    out = ctx.path("crl_obs.ndjson")
    ctx.run(binary, ["record", out] + [str(x) for x in rec], timeout=3000)
    observations = read_ndjson(out)
    nobs = sum(len(o["queries"]) for o in observations)
    rejects = validate(ctx, observations)
    ctx.cov["evaluations"] += nobs
    ctx.cov["observations_judged"] = nobs
    ctx.cov["traces_validated_against_impl"] += nobs - len(rejects)
    if rejects:
        cases = []
        for i, j, want in rejects:
            o = observations[i - 1]
            q = o["queries"][j - 1]
            cases.append({"kind": "lookup", "entries": o["entries"], "q": q["s"], "qissuer": q.get("iss", "N1"),
                          "rev": want["rev"], "t": want["t"], "ct": want["ct"]})
        cfile = ctx.path("reject_cases.ndjson")
        write_ndjson(cfile, cases)
        p = ctx.run(binary, ["check-cases", cfile], timeout=600)
        c, st = ctx.harness_output(p)
        if st.get("disagreements", 0) != len(cases):
            ctx.problem("TLC rejected %d observations but the harness reproduces only %s of them" %
                        (len(cases), st.get("disagreements")))
        ctx.candidates(binary, c)

    if ctx.thorough:
        selftest(ctx, observations)


def validate(ctx, observations):
    write_ndjson(ctx.specfile("crl_obs.ndjson"), observations)
    r = ctx.tlc("Trace_CRL", "CRL_trace.cfg", workers=1, timeout=3000,
                label="Trace_CRL[%d CRLs]" % len(observations))
    m = re.search(r'<<"JUDGED", (\d+)>>', r.out)
    if not m or int(m.group(1)) != len(observations):
        raise Machinery("Trace_CRL did not judge all observations")
    rej = []
    for m in re.finditer(r'<<"REJECT", (\d+), (\d+), ("(?:[^"\\]|\\.)*")>>', r.out):
        rej.append((int(m.group(1)), int(m.group(2)), json.loads(json.loads(m.group(3)))))
    return rej


def selftest(ctx, observations):
    """Binding self-test: a corrupted revocation time, a flipped flag and a dropped entry must be rejected."""
    import copy
    obs = copy.deepcopy(observations[:3])
    done = 0
    for o in obs:
        qs = [q for q in o["queries"] if q["lin"]["rev"]]
        if not qs:
            continue
        if done == 0:
            qs[0]["lin"]["t"] += 1
        elif done == 1:
            qs[0]["cac"] = {"rev": False, "t": -1}
        else:
            s = qs[0]["s"]
            o["entries"] = [e for e in o["entries"] if e["s"] != s]
        done += 1
    if done < 3:
        raise Machinery("selftest: not enough revoked observations")
    rej = validate(ctx, obs)
    if len({i for i, _, _ in rej}) != 3:
        raise Machinery("selftest: corrupted observations were accepted - the validator constrains nothing")
    ctx.note("binding self-test passed (corrupted time, flipped cached flag, dropped entry all rejected)")


def replay(ctx, path):
    binary = ctx.gobuild("c14")
    again = ctx.run(binary, ["replay", path], ok_codes=(0, 1)).returncode == 1
    print("REPRODUCED" if again else "not reproduced")
    return 1 if again else 0
