"""C31 - sessions resume only from authentic tickets (TLSHandshake.tla: TicketDemand / Judge31,
TLSHandshakeMC.tla ticket layer, TLSHandshakeGen.tla Cases31; harness cmd/c31, lib/tlsh)."""
import copy
import json

from vlib import Machinery, read_ndjson, write_ndjson
from props import tlshs_common as T
from props import tlshs_mc

META = {
    "technique": "TLA+ ticket layer (ticket = Seal(key, state); key list administration; adversary rewriting ticket bytes; TicketDemand decides resume/full) model-checked inside the handshake machine; TLC enumerates key-rotation histories x ticket mutations (every single byte position x 3 bit patterns, structural truncations/extensions, foreign and spliced tickets) x TLS 1.2/1.3 with the demanded decision; each history is run on a real zcrypto client/server pair (ticket bytes rewritten through a verif accessor, keys through SetSessionTicketKeys) and TLC judges the observed resumption status, errors, parameters and exporter agreement; seeded random histories likewise",
    "text": "TLC checks on the handshake machine that a resumption decision is only ever taken for an issued, unaltered ticket under a key still configured, with the ticket's version/suite/secret (ResumeOnlyAuthentic, DecisionAsDemanded, ResumedBothAgree), then enumerates ticket histories with the decision the property demands; the Go harness performs a full handshake, rewrites the cached ticket, administers the server's ticket keys on the same Config object and presents the ticket on a second real connection; TLC judges: no resumption unless demanded, resumption under the current key, otherwise a working full / non-PSK handshake, same version and suite, both ends agreeing on DidResume and exporter output. Exhaustive over all single-byte positions of one ticket per version and over short key histories, sampled beyond; appropriate for a small decision procedure guarded by a MAC.",
    "note": "Trusted: TLC, Go toolchain, the standard library PKI. The MAC/AES primitives are ideal in the model (any altered byte invalidates the ticket); collisions are not considered. An empty TLS 1.3 PSK identity (a malformed ClientHello by RFC 8446) may be rejected. Ticket age / 7-day lifetime expiry and client-certificate-carrying tickets are not varied (fixed Config.Time).",
}

KIND_WHAT = {
    "resumed-unauthentic-ticket": "session resumed from an altered, foreign or rotated-out ticket",
    "ticket-caused-failure": "presenting the ticket made the handshake fail instead of falling back to a full / non-PSK handshake",
    "no-resume-under-current-key": "unaltered ticket under the current key was not resumed",
    "ticket-not-presented": "client did not present its unaltered ticket",
    "resumed-with-other-parameters": "resumed connection has another version or cipher suite than the original session",
    "disagreement": "client and server disagree on DidResume",
    "issue-failed": "the initial full handshake failed or issued no ticket",
    "resumed-without-session": "first connection reports a resumption",
    "panic-or-hang": "endpoint panicked or did not return",
    "harness-changed-ticket": "harness problem: ticket bytes changed without a mutation",
}

CASE_FIELDS = ("id", "vers", "key", "keys0", "hist", "mut", "change")
AUTO_FIELDS = ("id", "vers", "times", "issue", "forge")
KIND_WHAT["resumed-forged-ticket"] = "session resumed from a ticket the adversary sealed under key material of its own choosing"


def sig_of(f):
    return {k: f[k] for k in ("kind", "vers", "mut", "part", "change", "keyidx", "changed", "forge", "auto") if k in f}


def to_cands(records, rejects):
    cands = []
    for idx, facts in rejects:
        rec = records[idx]
        if "times" in rec:
            what = "%s (automatic key rotation, TLS 1.%d, connections at hours %s, ticket of connection %d presented at the last one, forgery %s; demanded %s; last connection: resumed c=%s s=%s presented=%s errors c=%r s=%r)" % (
                KIND_WHAT.get(facts["kind"], facts["kind"]), rec["vers"] - 10, rec["times"], rec["issue"], rec["forge"], facts.get("demand"),
                rec["present"]["cres"], rec["present"]["sres"], rec["presented"], rec["present"]["cerr"][:80], rec["present"]["serr"][:80])
            cands.append({"sig": sig_of(facts), "what": what, "case": {k: rec[k] for k in AUTO_FIELDS}})
            continue
        case = {k: rec[k] for k in CASE_FIELDS}
        what = "%s (TLS 1.%d, mutation %s, keys at issuance %s, history %s, change %s; demanded %s; second connection: resumed c=%s s=%s errors c=%r s=%r)" % (
            KIND_WHAT.get(facts["kind"], facts["kind"]), rec["vers"] - 10, json.dumps(rec["mut"]), rec["keys0"],
            json.dumps(rec["hist"]), rec["change"], facts.get("demand"), rec["present"]["cres"], rec["present"]["sres"],
            rec["present"]["cerr"][:80], rec["present"]["serr"][:80])
        cands.append({"sig": sig_of(facts), "what": what, "case": case})
    return cands


def run_cases(ctx, binary, cases, tag):
    """explicit-key histories and automatic-rotation histories (recognised by `times`) in one call"""
    out = {}
    for kind, cmd in (("e", "run"), ("a", "runa")):
        part = [c for c in cases if ("times" in c) == (kind == "a")]
        if not part:
            continue
        cpath, opath = ctx.path("c31_cases_%s_%s.ndjson" % (tag, kind)), ctx.path("c31_obs_%s_%s.ndjson" % (tag, kind))
        write_ndjson(cpath, part)
        ctx.run(binary, [cmd, cpath, opath], timeout=3000)
        recs = read_ndjson(opath)
        if len(recs) != len(part):
            raise Machinery("harness c31 %s produced %d records for %d cases" % (cmd, len(recs), len(part)))
        for c, r in zip(part, recs):
            out[id(c)] = r
    return [out[id(c)] for c in cases]


def selftest_records(records):
    out = []
    auto = [r for r in records if "times" in r and r["forge"] != "none" and r["presented"] and r["present"]["sdone"] and not r["present"]["sres"]]
    if auto:
        e = copy.deepcopy(auto[0]); e["id"] = -5; e["present"]["sres"] = e["present"]["cres"] = True
        out.append(e)
    records = [r for r in records if "times" not in r]
    res = [r for r in records if r["present"]["sres"] and r["mut"]["kind"] == "none" and not r["hist"] and len(r["keys0"]) == 1 and r["change"] == "none"]
    full = [r for r in records if r["changed"] and r["present"]["sdone"] and not r["present"]["sres"]]
    if full:
        a = copy.deepcopy(full[0]); a["id"] = -1; a["present"]["sres"] = a["present"]["cres"] = True
        out.append(a)
    if res:
        b = copy.deepcopy(res[0]); b["id"] = -2; b["present"]["sres"] = b["present"]["cres"] = False
        c = copy.deepcopy(res[0]); c["id"] = -3; c["present"]["ekmeq"] = False
        d = copy.deepcopy(res[0]); d["id"] = -4; d["present"]["ssuite"] = d["present"]["csuite"] = 47 if res[0]["present"]["ssuite"] != 47 else 53
        out += [b, c, d]
    return out


def run(ctx):
    quick = ctx.quick
    binary = ctx.gobuild("c31")
    T.write_facts(ctx, binary)
    tlshs_mc.check(ctx, "C31")

    p = ctx.run(binary, ["probe"])
    lens = json.loads(p.stdout.strip().splitlines()[-1])
    cases, st = T.generate(ctx, "C31", "c31_cases.ndjson", extra={"TLEN12": lens["len12"], "TLEN13": lens["len13"]})
    if st[1] == 0 or st[2] == 0:
        raise Machinery("generator produced no must-resume or no must-not-resume case (vacuous)")
    ctx.add_samples([cases[len(cases) // 2]], n=1)
    acases = read_ndjson(ctx.specfile("c31a_cases.ndjson"))
    if not acases:
        raise Machinery("generator: no automatic-rotation history")
    for c in acases:
        c["id"] += 2 * 10 ** 6
    recs = run_cases(ctx, binary, cases, "gen")
    arecs = run_cases(ctx, binary, acases, "auto")

    nrand = 1500 if quick else 30000
    rpath = ctx.path("c31_random.ndjson")
    ctx.run(binary, ["random", str(nrand), rpath])
    rcases = read_ndjson(rpath)
    for c in rcases:
        c["id"] += 10 ** 6
    rrecs = run_cases(ctx, binary, rcases, "rand")

    allrecs = recs + rrecs + arecs
    st_recs = selftest_records(allrecs)
    rejects = T.judge(ctx, "C31", allrecs + st_recs)
    if len([i for i, _ in rejects if i >= len(allrecs)]) != len(st_recs):
        raise Machinery("binding self-test: a corrupted record was accepted - the judge constrains nothing")
    rejects = [(i, f) for i, f in rejects if i < len(allrecs)]
    if len(st_recs) < 5 and not rejects:
        raise Machinery("selftest: no resumed / no fallen-back record to corrupt, and nothing rejected (vacuous)")
    cands = to_cands(allrecs, rejects)
    ctx.candidates(binary, cands, reproduce=T.BatchReproducer(ctx, "C31", cands, lambda cs: run_cases(ctx, binary, cs, "repro")))

    erecs = recs + rrecs
    auto_cov = {"histories": len(arecs),
                "resumed": sum(1 for r in arecs if r["present"]["sres"]),
                "key_expired_full": sum(1 for r in arecs if r["forge"] == "none" and r["presented"] and r["present"]["sdone"] and not r["present"]["sres"]),
                "forged_presented_refused": sum(1 for r in arecs if r["forge"] != "none" and r["presented"] and r["present"]["sdone"] and not r["present"]["sres"]),
                "span_hours": max(r["times"][-1] - r["times"][0] for r in arecs)}
    if not auto_cov["resumed"] or not auto_cov["key_expired_full"] or not auto_cov["forged_presented_refused"] or auto_cov["span_hours"] <= 168:
        raise Machinery("vacuous coverage of automatic rotation: %s" % auto_cov)
    allrecs = erecs
    cov = {
        "automatic_rotation": auto_cov,
        "resumed_current_key": sum(1 for r in allrecs if r["present"]["sres"] and not r["hist"]),
        "resumed_after_rotation": sum(1 for r in allrecs if r["present"]["sres"] and r["hist"]),
        "fallback_after_mutation": sum(1 for r in allrecs if r["changed"] and r["present"]["sdone"] and not r["present"]["sres"]),
        "fallback_rotated_out": sum(1 for r in allrecs if not r["changed"] and r["hist"] and r["present"]["sdone"] and not r["present"]["sres"] and r["presented"]),
        "byte_positions_12": len({r["mut"]["n"] for r in recs if r["mut"]["kind"] == "flipat" and r["vers"] == 12 and r["applied"]}),
        "byte_positions_13": len({r["mut"]["n"] for r in recs if r["mut"]["kind"] == "flipat" and r["vers"] == 13 and r["applied"]}),
        "ticket_len": lens,
    }
    for k in ("resumed_current_key", "resumed_after_rotation", "fallback_after_mutation", "fallback_rotated_out"):
        if not cov[k]:
            raise Machinery("vacuous coverage: no observation with %s" % k)
    if cov["byte_positions_12"] != lens["len12"] or cov["byte_positions_13"] != lens["len13"]:
        raise Machinery("not every ticket byte position was mutated: %s" % cov)
    ctx.cov["observations"] = cov
    ctx.cov["evaluations"] += len(allrecs) + len(arecs)
    ctx.cov["traces_validated_against_impl"] += len(allrecs) + len(arecs)
    ctx.cov["distinct_nontrivial"] += len({json.dumps([r[k] for k in CASE_FIELDS[1:]], sort_keys=True) for r in allrecs
                                           if r["changed"] or r["hist"] or r["change"] != "none"})
    ctx.cov["exhaustive"] = True
    ctx.cov["rule"] = ("ticket histories = (key list at issuance, administration history, ticket mutation, configuration "
                       "change, version): all histories of <= %d operations, every single byte position x {01,80,ff} of the "
                       "issued ticket for TLS 1.2 and 1.3, all structural mutations; non-trivial = the ticket was altered, "
                       "keys were administered or the configuration changed; plus seeded random histories" % (2 if quick else 3))
    ctx.log("C31 observations: %s" % json.dumps(cov))


def replay(ctx, path):
    import os
    path = os.path.abspath(path)
    binary = ctx.gobuild("c31")
    T.write_facts(ctx, binary)
    out = ctx.path("one.ndjson")
    body = json.load(open(path))
    ctx.run(binary, ["runa-one" if "times" in body.get("case", {}) else "run-one", path, out])
    rej = T.judge(ctx, "C31", read_ndjson(out))
    again = any(f.get("kind") == body.get("sig", {}).get("kind") for _, f in rej)
    for _, f in rej:
        print("rejected:", json.dumps(f, sort_keys=True))
    print("REPRODUCED" if again else "not reproduced")
    return 1 if again else 0
